import G3D.Model.Xf2
import G3D.Proofs.Xf
import G3D.Proofs.Equality
import G3D.Proofs.Volume
import G3D.Proofs.Move2
import G3D.Proofs.FlatPolygon
import Mathlib.Tactic.Ring
import Mathlib.Tactic.Linarith
import Mathlib.Tactic.LinearCombination
import Mathlib.Tactic.FieldSimp
import Mathlib.Tactic.Positivity

/-! C13, second part: invariance / scaling laws under `T : Xf` (signed axis permutation `σ`, translation
    `t`, uniform scaling `k > 0`):  equality, direction predicates and angle are unchanged, membership is
    transported, distance and length scale by `k`, area by `k²`, volume by `k³`. -/
namespace G3D
open V3

/-! generic helper lemmas (kept in their own namespace to avoid name clashes) -/
namespace XfAux
theorem dot_smul_left (c : Rat) (u v : V3) : dot (smul c u) v = c * dot u v := by
  simp only [dot, smul]; ring

theorem dot_smul_right (c : Rat) (u v : V3) : dot u (smul c v) = c * dot u v := by
  simp only [dot, smul]; ring

theorem normSq_smul (c : Rat) (u : V3) : normSq (smul c u) = c^2 * normSq u := by
  simp only [normSq, dot, smul]; ring

theorem cross_smul_smul (a b : Rat) (u v : V3) : cross (smul a u) (smul b v) = smul (a * b) (cross u v) := by
  apply V3.ext' <;> simp only [cross, smul] <;> ring

theorem smul_smul' (a b : Rat) (u : V3) : smul a (smul b u) = smul (a * b) u := by
  apply V3.ext' <;> simp only [smul] <;> ring

/-- Bool-valued equality tests are insensitive to a non-zero common factor -/
theorem beq_mul_left {c : Rat} (hc : c ≠ 0) (a b : Rat) : (c * a == c * b) = (a == b) := by
  rw [Bool.eq_iff_iff, beq_iff_eq, beq_iff_eq]
  exact mul_right_inj' hc

theorem beq_mul_zero {c : Rat} (hc : c ≠ 0) (a : Rat) : (c * a == 0) = (a == 0) := by
  rw [Bool.eq_iff_iff, beq_iff_eq, beq_iff_eq]
  exact ⟨fun h => (mul_eq_zero.mp h).resolve_left hc, fun h => by rw [h]; ring⟩

theorem decide_pos_mul {c : Rat} (hc : 0 < c) (a : Rat) : decide (0 < c * a) = decide (0 < a) := by
  apply decide_eq_decide.mpr
  constructor
  · intro h; by_contra hn; have := not_lt.mp hn; nlinarith
  · intro h; positivity

theorem decide_nonneg_mul {c : Rat} (hc : 0 < c) (a : Rat) : decide (0 ≤ c * a) = decide (0 ≤ a) := by
  apply decide_eq_decide.mpr
  constructor
  · intro h; by_contra hn; have := not_le.mp hn; nlinarith
  · intro h; positivity

theorem decide_mul_nonpos {c : Rat} (hc : 0 < c) (a : Rat) : decide (c * a ≤ 0) = decide (a ≤ 0) := by
  apply decide_eq_decide.mpr
  constructor
  · intro h; by_contra hn; have := not_le.mp hn; nlinarith
  · intro h; nlinarith

theorem absQ_neg' (x : Rat) : absQ (-x) = absQ x := by
  unfold absQ
  rcases lt_trichotomy x 0 with h | h | h
  · rw [if_neg (by linarith), if_pos h]
  · rw [h]; simp
  · rw [if_pos (by linarith), if_neg (by linarith)]; ring

theorem absQ_pos_mul {c : Rat} (hc : 0 ≤ c) (x : Rat) : absQ (c * x) = c * absQ x := by
  rw [mul_comm c x, ← absQ_mul_nonneg x c hc, mul_comm]

theorem orient_neg_rev (n a b c : V3) : orient (neg n) a b c = orient n c b a := by
  simp only [orient, dot, cross, sub, neg]; ring

theorem all_eq_of_perm {α : Type} {l₁ l₂ : List α} (f : α → Bool) (h : List.Perm l₁ l₂) : l₁.all f = l₂.all f := by
  rw [Bool.eq_iff_iff, List.all_eq_true, List.all_eq_true]
  exact ⟨fun H x hx => H x (h.mem_iff.mpr hx), fun H x hx => H x (h.mem_iff.mp hx)⟩

theorem triNum_swap (n c a b : V3) : triNum n c b a = triNum n c a b := by
  unfold triNum
  rw [show dot n (cross (sub b c) (sub a c)) = -dot n (cross (sub a c) (sub b c)) by
    simp only [dot, cross, sub]; ring, absQ_neg']
end XfAux
open XfAux

/-! ## 1. vector level -/

theorem SP.det_mul_self (s : SP) : s.det * s.det = 1 := by
  obtain ⟨p, sx, sy, sz⟩ := s
  have hp : p.sign * p.sign = 1 := by cases p <;> simp [Perm3.sign]
  have hx := sgn_sq sx; have hy := sgn_sq sy; have hz := sgn_sq sz
  simp only [SP.det]
  calc p.sign * sgn sx * sgn sy * sgn sz * (p.sign * sgn sx * sgn sy * sgn sz)
      = (p.sign * p.sign) * (sgn sx * sgn sx) * (sgn sy * sgn sy) * (sgn sz * sgn sz) := by ring
    _ = 1 := by rw [hp, hx, hy, hz]; ring

theorem SP.det_cases (s : SP) : s.det = 1 ∨ s.det = -1 := by
  have h := SP.det_mul_self s
  have : (s.det - 1) * (s.det + 1) = 0 := by linear_combination h
  rcases mul_eq_zero.mp this with h1 | h1
  · left; linarith
  · right; linarith

theorem SP.det_ne_zero (s : SP) : s.det ≠ 0 := by
  rcases SP.det_cases s with h | h <;> rw [h] <;> norm_num

theorem SP.normSq_apply (s : SP) (v : V3) : normSq (s.apply v) = normSq v := SP.dot_apply s v v

theorem SP.apply_zero (s : SP) : s.apply zero = zero := by
  obtain ⟨p, sx, sy, sz⟩ := s
  cases p <;> (apply V3.ext' <;> simp [SP.apply, Perm3.apply, zero])

theorem Xf.dot_dir (T : Xf) (u v : V3) : dot (T.dir u) (T.dir v) = T.k^2 * dot u v := by
  simp only [Xf.dir, dot_smul_left, dot_smul_right, SP.dot_apply]; ring

theorem Xf.normSq_dir (T : Xf) (v : V3) : normSq (T.dir v) = T.k^2 * normSq v := T.dot_dir v v

theorem Xf.dot_nrm (T : Xf) (u v : V3) : dot (T.nrm u) (T.nrm v) = dot u v := SP.dot_apply T.s u v

theorem Xf.normSq_nrm (T : Xf) (v : V3) : normSq (T.nrm v) = normSq v := SP.dot_apply T.s v v

theorem Xf.dot_dir_nrm (T : Xf) (u n : V3) : dot (T.dir u) (T.nrm n) = T.k * dot u n := by
  simp only [Xf.dir, Xf.nrm, dot_smul_left, SP.dot_apply]

theorem Xf.dot_nrm_dir (T : Xf) (n u : V3) : dot (T.nrm n) (T.dir u) = T.k * dot n u := by
  simp only [Xf.dir, Xf.nrm, dot_smul_right, SP.dot_apply]

theorem Xf.cross_dir (T : Xf) (u v : V3) :
    cross (T.dir u) (T.dir v) = smul (T.s.det * T.k^2) (T.s.apply (cross u v)) := by
  simp only [Xf.dir, cross_smul_smul, SP.cross_apply, smul_smul']
  congr 1; ring

theorem Xf.cross_nrm (T : Xf) (u v : V3) :
    cross (T.nrm u) (T.nrm v) = smul T.s.det (T.s.apply (cross u v)) := SP.cross_apply T.s u v

theorem Xf.dir_add (T : Xf) (u v : V3) : T.dir (add u v) = add (T.dir u) (T.dir v) := by
  simp only [Xf.dir, SP.apply_add]; apply V3.ext' <;> simp only [add, smul] <;> ring
theorem Xf.dir_sub (T : Xf) (u v : V3) : T.dir (sub u v) = sub (T.dir u) (T.dir v) := by
  simp only [Xf.dir, SP.apply_sub]; apply V3.ext' <;> simp only [sub, smul] <;> ring
theorem Xf.dir_smul (T : Xf) (c : Rat) (u : V3) : T.dir (smul c u) = smul c (T.dir u) := by
  simp only [Xf.dir, SP.apply_smul]; apply V3.ext' <;> simp only [smul] <;> ring
theorem Xf.dir_zero (T : Xf) : T.dir zero = zero := by
  simp only [Xf.dir, SP.apply_zero]; apply V3.ext' <;> simp [smul, zero]

theorem Xf.normSq_pt_sub (T : Xf) (x y : V3) : normSq (sub (T.pt y) (T.pt x)) = T.k^2 * normSq (sub y x) := by
  rw [Xf.pt_sub, Xf.normSq_dir]

theorem Xf.parallel_dir (T : Xf) (hk : 0 < T.k) (u v : V3) :
    V3.parallel (T.dir u) (T.dir v) = V3.parallel u v := by
  unfold V3.parallel
  rw [T.dot_dir, T.normSq_dir, T.normSq_dir,
    show (T.k^2 * dot u v)^2 = T.k^4 * (dot u v)^2 by ring,
    show T.k^2 * normSq u * (T.k^2 * normSq v) = T.k^4 * (normSq u * normSq v) by ring]
  exact beq_mul_left (pow_ne_zero 4 (ne_of_gt hk)) _ _

theorem Xf.parallel_nrm (T : Xf) (u v : V3) : V3.parallel (T.nrm u) (T.nrm v) = V3.parallel u v := by
  unfold V3.parallel
  rw [T.dot_nrm, T.normSq_nrm, T.normSq_nrm]

theorem Xf.parallel_dir_nrm (T : Xf) (hk : 0 < T.k) (u n : V3) :
    V3.parallel (T.dir u) (T.nrm n) = V3.parallel u n := by
  unfold V3.parallel
  rw [T.dot_dir_nrm, T.normSq_dir, T.normSq_nrm,
    show (T.k * dot u n)^2 = T.k^2 * (dot u n)^2 by ring,
    show T.k^2 * normSq u * normSq n = T.k^2 * (normSq u * normSq n) by ring]
  exact beq_mul_left (pow_ne_zero 2 (ne_of_gt hk)) _ _

theorem Xf.parallel_nrm_dir (T : Xf) (hk : 0 < T.k) (n u : V3) :
    V3.parallel (T.nrm n) (T.dir u) = V3.parallel n u := by
  rw [parallel_symm, T.parallel_dir_nrm hk, parallel_symm]

theorem Xf.orthogonal_dir (T : Xf) (hk : 0 < T.k) (u v : V3) :
    V3.orthogonal (T.dir u) (T.dir v) = V3.orthogonal u v := by
  unfold V3.orthogonal
  rw [T.dot_dir]
  exact beq_mul_zero (pow_ne_zero 2 (ne_of_gt hk)) _

theorem Xf.orthogonal_nrm (T : Xf) (u v : V3) : V3.orthogonal (T.nrm u) (T.nrm v) = V3.orthogonal u v := by
  unfold V3.orthogonal
  rw [T.dot_nrm]

theorem Xf.orthogonal_dir_nrm (T : Xf) (hk : 0 < T.k) (u n : V3) :
    V3.orthogonal (T.dir u) (T.nrm n) = V3.orthogonal u n := by
  unfold V3.orthogonal
  rw [T.dot_dir_nrm]
  exact beq_mul_zero (ne_of_gt hk) _

theorem Xf.orthogonal_nrm_dir (T : Xf) (hk : 0 < T.k) (n u : V3) :
    V3.orthogonal (T.nrm n) (T.dir u) = V3.orthogonal n u := by
  rw [orthogonal_symm, T.orthogonal_dir_nrm hk, orthogonal_symm]

/-- unconditional in `u v` (Lean's `x / 0 = 0` on both sides when a vector vanishes) -/
theorem Xf.cosSqVec_dir (T : Xf) (hk : 0 < T.k) (u v : V3) : cosSqVec (T.dir u) (T.dir v) = cosSqVec u v := by
  unfold cosSqVec
  rw [T.dot_dir, T.normSq_dir, T.normSq_dir,
    show (T.k^2 * dot u v)^2 = T.k^4 * (dot u v)^2 by ring,
    show T.k^2 * normSq u * (T.k^2 * normSq v) = T.k^4 * (normSq u * normSq v) by ring]
  exact mul_div_mul_left _ _ (pow_ne_zero 4 (ne_of_gt hk))

theorem Xf.cosSqVec_nrm (T : Xf) (u v : V3) : cosSqVec (T.nrm u) (T.nrm v) = cosSqVec u v := by
  unfold cosSqVec
  rw [T.dot_nrm, T.normSq_nrm, T.normSq_nrm]

theorem Xf.cosSqVec_dir_nrm (T : Xf) (hk : 0 < T.k) (u n : V3) :
    cosSqVec (T.dir u) (T.nrm n) = cosSqVec u n := by
  unfold cosSqVec
  rw [T.dot_dir_nrm, T.normSq_dir, T.normSq_nrm,
    show (T.k * dot u n)^2 = T.k^2 * (dot u n)^2 by ring,
    show T.k^2 * normSq u * normSq n = T.k^2 * (normSq u * normSq n) by ring]
  exact mul_div_mul_left _ _ (pow_ne_zero 2 (ne_of_gt hk))

theorem Xf.cosSqVec_nrm_dir (T : Xf) (hk : 0 < T.k) (n u : V3) :
    cosSqVec (T.nrm n) (T.dir u) = cosSqVec n u := by
  rw [cosSqVec_symm, T.cosSqVec_dir_nrm hk, cosSqVec_symm]

/-! ## 2. direction predicates, angle, equality -/

theorem Xf.angleRep_aobj (T : Xf) (hk : 0 < T.k) (a b : AObj) :
    angleRep (T.aobj a) (T.aobj b) = angleRep a b := by
  cases a <;> cases b <;>
    simp only [Xf.aobj, angleRep, T.cosSqVec_dir hk, T.cosSqVec_nrm, T.cosSqVec_dir_nrm hk]

theorem Xf.parallelG_aobj (T : Xf) (hk : 0 < T.k) (a b : AObj) :
    parallelG (T.aobj a) (T.aobj b) = parallelG a b := by
  cases a <;> cases b <;>
    simp only [Xf.aobj, parallelG, T.parallel_dir hk, T.parallel_nrm, T.orthogonal_dir_nrm hk]

theorem Xf.orthogonalG_aobj (T : Xf) (hk : 0 < T.k) (a b : AObj) :
    orthogonalG (T.aobj a) (T.aobj b) = orthogonalG a b := by
  cases a <;> cases b <;>
    simp only [Xf.aobj, orthogonalG, T.parallel_dir_nrm hk, T.orthogonal_nrm, T.orthogonal_dir hk]
  · exact congrArg some (T.orthogonal_dir hk _ _)

/-! the components of `Xf.geo` / `Xf.aobj` by name -/
theorem Xf.geo_point (T : Xf) (p : V3) : T.geo (.point p) = .point (T.pt p) := rfl
theorem Xf.geo_line (T : Xf) (l : Line) : T.geo (.line l) = .line (T.line l) := rfl
theorem Xf.geo_plane (T : Xf) (p : Plane) : T.geo (.plane p) = .plane (T.plane p) := rfl
theorem Xf.geo_seg (T : Xf) (s : Seg) : T.geo (.seg s) = .seg (T.seg s) := rfl
theorem Xf.geo_halfline (T : Xf) (h : HalfLine) : T.geo (.halfline h) = .halfline (T.halfline h) := rfl
theorem Xf.aobj_line (T : Xf) (l : Line) : T.aobj (.line l) = .line (T.line l) := rfl
theorem Xf.aobj_plane (T : Xf) (p : Plane) : T.aobj (.plane p) = .plane (T.plane p) := rfl

theorem Xf.pt_beq (T : Xf) (hk : 0 < T.k) (x y : V3) : (T.pt x == T.pt y) = (x == y) := by
  rw [Bool.eq_iff_iff, beq_iff_eq, beq_iff_eq]
  exact ⟨fun h => T.pt_injective hk h, fun h => by rw [h]⟩

/-- `Line.__contains__(Point)` (no well-formedness needed) -/
theorem Xf.line_contains (T : Xf) (hk : 0 < T.k) (l : Line) (x : V3) :
    (T.line l).contains (T.pt x) = l.contains x := by
  simp only [Line.contains, Xf.line, Xf.pt_sub, T.parallel_dir hk]

theorem Xf.line_eqv (T : Xf) (hk : 0 < T.k) (l o : Line) : (T.line l).eqv (T.line o) = l.eqv o := by
  unfold Line.eqv
  rw [show (T.line o).sv = T.pt o.sv from rfl, T.line_contains hk]
  simp only [Xf.line, T.parallel_dir hk]

theorem Xf.dot_pt_nrm_sub (T : Xf) (x p n : V3) :
    dot (T.pt x) (T.nrm n) - dot (T.pt p) (T.nrm n) = T.k * (dot x n - dot p n) := by
  have h1 : dot (T.pt x) (T.nrm n) - dot (T.pt p) (T.nrm n) = dot (sub (T.pt x) (T.pt p)) (T.nrm n) := by
    simp only [dot, sub]; ring
  have h2 : dot x n - dot p n = dot (sub x p) n := by simp only [dot, sub]; ring
  rw [h1, h2, Xf.pt_sub, T.dot_dir_nrm]

/-- `Plane.__contains__(Point)` (no well-formedness needed) -/
theorem Xf.plane_contains (T : Xf) (hk : 0 < T.k) (p : Plane) (x : V3) :
    (T.plane p).contains (T.pt x) = p.contains x := by
  simp only [Plane.contains, Xf.plane, T.dot_pt_nrm_sub]
  exact beq_mul_zero (ne_of_gt hk) _

/-- `Plane.__contains__(Line)` -/
theorem Xf.plane_containsLine (T : Xf) (hk : 0 < T.k) (p : Plane) (l : Line) :
    (T.plane p).containsLine (T.line l) = p.containsLine l := by
  unfold Plane.containsLine
  rw [show (T.line l).sv = T.pt l.sv from rfl, T.plane_contains hk]
  simp only [Xf.line, Xf.plane, T.orthogonal_dir_nrm hk]

theorem Xf.plane_eqv (T : Xf) (hk : 0 < T.k) (a b : Plane) : (T.plane a).eqv (T.plane b) = a.eqv b := by
  unfold Plane.eqv
  rw [show (T.plane a).p = T.pt a.p from rfl, T.plane_contains hk]
  simp only [Xf.plane, T.parallel_nrm]

theorem Xf.seg_same (T : Xf) (hk : 0 < T.k) (s o : Seg) : (T.seg s).same (T.seg o) = s.same o := by
  simp only [Seg.same, Xf.seg, Seg.mk', T.pt_beq hk]

theorem Xf.seg_eqv (T : Xf) (hk : 0 < T.k) (s o : Seg) : (T.seg s).eqv (T.seg o) = s.eqv o := by
  simp only [Seg.eqv, Xf.seg, Seg.mk', T.pt_beq hk]

theorem Xf.halfline_eqv (T : Xf) (hk : 0 < T.k) (h o : HalfLine) :
    (T.halfline h).eqv (T.halfline o) = h.eqv o := by
  simp only [HalfLine.eqv, Xf.halfline, HalfLine.mk', T.pt_beq hk, T.parallel_dir hk, T.dot_dir]
  rw [decide_pos_mul (by positivity)]

/-- C13 (equality): `==` on two flat operands of the same type is unchanged -/
def geoEqv : Geo → Geo → Option Bool
  | .point p, .point q => some (p == q)
  | .line l, .line o => some (l.eqv o)
  | .plane a, .plane b => some (a.eqv b)
  | .seg s, .seg o => some (s.eqv o)
  | .halfline h, .halfline o => some (h.eqv o)
  | _, _ => none

theorem Xf.geoEqv_geo (T : Xf) (hk : 0 < T.k) (a b : Geo) : geoEqv (T.geo a) (T.geo b) = geoEqv a b := by
  cases a <;> cases b <;>
    simp only [Xf.geo_point, Xf.geo_line, Xf.geo_plane, Xf.geo_seg, Xf.geo_halfline, geoEqv,
      T.pt_beq hk, T.line_eqv hk, T.plane_eqv hk, T.seg_eqv hk, T.halfline_eqv hk]

/-! ## 3. membership -/

theorem Xf.seg_WF (T : Xf) (hk : 0 < T.k) (s : Seg) (hs : s.WF) : (T.seg s).WF :=
  T.geo_WF hk (.seg s) hs
theorem Xf.halfline_WF (T : Xf) (hk : 0 < T.k) (h : HalfLine) (hh : h.WF) : (T.halfline h).WF :=
  T.geo_WF hk (.halfline h) hh
theorem Xf.line_WF (T : Xf) (hk : 0 < T.k) (l : Line) (hl : l.WF) : (T.line l).WF :=
  T.geo_WF hk (.line l) hl
theorem Xf.plane_WF (T : Xf) (hk : 0 < T.k) (p : Plane) (hp : p.WF) : (T.plane p).WF :=
  T.geo_WF hk (.plane p) hp

/-- `Segment.__contains__(Point)`; the cached line of `s` must be the line through its endpoints -/
theorem Xf.seg_contains (T : Xf) (hk : 0 < T.k) (s : Seg) (hs : s.WF) (x : V3) :
    (T.seg s).contains (T.pt x) = s.contains x := by
  rw [Bool.eq_iff_iff, Seg.contains_iff _ (T.seg_WF hk s hs), Seg.contains_iff _ hs]
  exact T.den_geo hk (.seg s) x

/-- `HalfLine.__contains__(Point)` -/
theorem Xf.halfline_contains (T : Xf) (hk : 0 < T.k) (h : HalfLine) (hh : h.WF) (x : V3) :
    (T.halfline h).contains (T.pt x) = h.contains x := by
  rw [Bool.eq_iff_iff, HalfLine.contains_iff _ (T.halfline_WF hk h hh), HalfLine.contains_iff _ hh]
  exact T.den_geo hk (.halfline h) x

/-- `point in container` on the flat types -/
def geoContains : Geo → V3 → Bool
  | .point p, x => x == p
  | .line l, x => l.contains x
  | .plane p, x => p.contains x
  | .seg s, x => s.contains x
  | .halfline h, x => h.contains x

/-- C13 (membership, Bool level) -/
theorem Xf.geoContains_geo (T : Xf) (hk : 0 < T.k) (g : Geo) (hg : g.WF) (x : V3) :
    geoContains (T.geo g) (T.pt x) = geoContains g x := by
  cases g with
  | point p => exact T.pt_beq hk x p
  | line l => exact T.line_contains hk l x
  | plane p => exact T.plane_contains hk p x
  | seg s => exact T.seg_contains hk s hg x
  | halfline h => exact T.halfline_contains hk h hg x

/-! ## 4. distance -/

theorem IsMinDistSq.unique {d d' : Rat} {A B : V3 → Prop} (h : IsMinDistSq d A B) (h' : IsMinDistSq d' A B) :
    d = d' := by
  obtain ⟨lb, x, y, hx, hy, e⟩ := h
  obtain ⟨lb', x', y', hx', hy', e'⟩ := h'
  have h1 := lb x' y' hx' hy'
  have h2 := lb' x y hx hy
  linarith

/-- the minimum squared distance between the images is `k²` times the original one -/
theorem IsMinDistSq.xf (T : Xf) (hk : 0 < T.k) {d : Rat} {A B A' B' : V3 → Prop} (h : IsMinDistSq d A B)
    (hA : ∀ x, A' (T.pt x) ↔ A x) (hB : ∀ x, B' (T.pt x) ↔ B x) : IsMinDistSq (T.k^2 * d) A' B' := by
  obtain ⟨lb, x, y, hx, hy, e⟩ := h
  refine ⟨?_, T.pt x, T.pt y, (hA x).mpr hx, (hB y).mpr hy, by rw [T.normSq_pt_sub, e]⟩
  intro x' y' hx' hy'
  obtain ⟨x0, rfl⟩ := T.pt_surjective hk x'
  obtain ⟨y0, rfl⟩ := T.pt_surjective hk y'
  rw [T.normSq_pt_sub]
  have h1 := lb x0 y0 ((hA x0).mp hx') ((hB y0).mp hy')
  exact mul_le_mul_of_nonneg_left h1 (by positivity)

/-- the documented pairs of `distance`, in either order -/
def distDoc : Geo → Geo → Bool
  | .point _, .point _ | .point _, .line _ | .line _, .point _ | .line _, .line _
  | .point _, .plane _ | .plane _, .point _ | .line _, .plane _ | .plane _, .line _ => true
  | _, _ => false

theorem distSqGeo_isMin (a b : Geo) (ha : a.WF) (hb : b.WF) (hd : distDoc a b = true) :
    ∃ d2, distSqGeo a b = some (.ok d2) ∧ IsMinDistSq d2 a.den b.den := by
  cases a <;> cases b <;> simp only [distDoc, Bool.false_eq_true] at hd <;> simp only [Geo.WF] at ha hb <;>
    simp only [distSqGeo, Geo.den, Option.some.injEq]
  · exact ⟨_, rfl, fun x y hx hy => by rw [hx, hy]; exact le_refl _, _, _, rfl, rfl, rfl⟩
  · exact distSqPointLine_spec _ _ hb
  · exact distSqPointPlane_spec _ _ hb
  · obtain ⟨d2, h1, h2⟩ := distSqPointLine_spec _ _ ha; exact ⟨d2, h1, h2.symm⟩
  · exact distSqLineLine_spec _ _ ha hb
  · exact distSqLinePlane_spec _ _ ha hb
  · obtain ⟨d2, h1, h2⟩ := distSqPointPlane_spec _ _ ha; exact ⟨d2, h1, h2.symm⟩
  · obtain ⟨d2, h1, h2⟩ := distSqLinePlane_spec _ _ hb ha; exact ⟨d2, h1, h2.symm⟩

theorem Xf.distDoc_geo (T : Xf) (a b : Geo) : distDoc (T.geo a) (T.geo b) = distDoc a b := by
  cases a <;> cases b <;> rfl

theorem distSqGeo_none_of_not_doc (a b : Geo) (hd : distDoc a b = false) : distSqGeo a b = none := by
  cases a <;> cases b <;> simp only [distDoc, Bool.true_eq_false] at hd <;> rfl

/-- C13 (distance): on a documented pair the squared distance is multiplied by `k²`
    (i.e. `distance` by `k`) -/
theorem Xf.distSqGeo_doc (T : Xf) (hk : 0 < T.k) (a b : Geo) (ha : a.WF) (hb : b.WF)
    (hd : distDoc a b = true) :
    ∃ d, distSqGeo a b = some (.ok d) ∧ distSqGeo (T.geo a) (T.geo b) = some (.ok (T.k^2 * d)) := by
  obtain ⟨d, h1, m1⟩ := distSqGeo_isMin a b ha hb hd
  obtain ⟨d', h2, m2⟩ := distSqGeo_isMin (T.geo a) (T.geo b) (T.geo_WF hk a ha) (T.geo_WF hk b hb)
    (by rw [T.distDoc_geo]; exact hd)
  have m3 := m1.xf T hk (A' := (T.geo a).den) (B' := (T.geo b).den) (T.den_geo hk a) (T.den_geo hk b)
  exact ⟨d, h1, by rw [h2, m2.unique m3]⟩

/-- C13 (distance), total form: same outcome class (`NotImplementedError` on the same pairs), value
    multiplied by `k²` -/
theorem Xf.distSqGeo_geo (T : Xf) (hk : 0 < T.k) (a b : Geo) (ha : a.WF) (hb : b.WF) :
    distSqGeo (T.geo a) (T.geo b) = (distSqGeo a b).map (Except.map (T.k^2 * ·)) := by
  cases hd : distDoc a b
  · rw [distSqGeo_none_of_not_doc a b hd,
      distSqGeo_none_of_not_doc _ _ (by rw [T.distDoc_geo]; exact hd)]
    rfl
  · obtain ⟨d, h1, h2⟩ := T.distSqGeo_doc hk a b ha hb hd
    rw [h1, h2]; rfl

/-- the hypothesis-light form asked for: whatever value the original call returns, the transformed
    call returns `k²` times it -/
theorem Xf.distSqGeo_ok (T : Xf) (hk : 0 < T.k) (a b : Geo) (ha : a.WF) (hb : b.WF) (d : Rat)
    (h : distSqGeo a b = some (.ok d)) : distSqGeo (T.geo a) (T.geo b) = some (.ok (T.k^2 * d)) := by
  rw [T.distSqGeo_geo hk a b ha hb, h]; rfl

#print axioms Xf.angleRep_aobj
#print axioms Xf.parallelG_aobj
#print axioms Xf.orthogonalG_aobj
#print axioms Xf.geoEqv_geo
#print axioms Xf.geoContains_geo
#print axioms Xf.distSqGeo_geo

/-! ## 5. measures -/

/-- length of a segment: squared length times `k²` -/
theorem Xf.seg_lenSq (T : Xf) (s : Seg) : (T.seg s).lenSq = T.k^2 * s.lenSq := by
  simp only [Seg.lenSq, Xf.seg, Seg.mk']; exact T.normSq_pt_sub _ _

theorem Xf.pt_eq_dir_add (T : Xf) (x : V3) : T.pt x = add (T.dir x) T.t := rfl

/-- the orientation test value under a (true-vector) normal `σ n` -/
theorem Xf.orient_pt (T : Xf) (n a b c : V3) :
    orient (T.nrm n) (T.pt a) (T.pt b) (T.pt c) = T.s.det * T.k^2 * orient n a b c := by
  simp only [orient, Xf.pt_sub, T.cross_dir, Xf.nrm, dot_smul_right, SP.dot_apply]

/-- … and under the pseudo-vector normal `det σ · σ n`: positively scaled -/
theorem Xf.orient_pnrm (T : Xf) (n a b c : V3) :
    orient (T.pnrm n) (T.pt a) (T.pt b) (T.pt c) = T.k^2 * orient n a b c := by
  rw [Xf.pnrm, orient_smul, T.orient_pt]
  linear_combination (T.k^2 * orient n a b c) * SP.det_mul_self T.s

theorem Xf.comb_pts (T : Xf) : ∀ (ws : List Rat) (ps : List V3), ws.length = ps.length →
    comb ws (T.pts ps) = add (T.dir (comb ws ps)) (smul ws.sum T.t) := by
  intro ws
  induction ws with
  | nil =>
    intro ps h; cases ps
    · simp only [comb, T.dir_zero, List.sum_nil]
      apply V3.ext' <;> simp [add, smul, zero]
    · simp at h
  | cons w ws ih =>
    intro ps h
    cases ps with
    | nil => simp at h
    | cons p ps =>
      have ih' := ih ps (by simpa using h)
      simp only [Xf.pts] at ih' ⊢
      simp only [List.map_cons, comb, List.sum_cons, ih', T.dir_add, T.dir_smul, T.pt_eq_dir_add]
      apply V3.ext' <;> simp only [add, smul] <;> ring

/-- affine combinations commute with `T` -/
theorem Xf.comb_pts_one (T : Xf) (ws : List Rat) (ps : List V3) (hl : ws.length = ps.length)
    (hs : ws.sum = 1) : comb ws (T.pts ps) = T.pt (comb ws ps) := by
  rw [T.comb_pts ws ps hl, hs, T.pt_eq_dir_add]
  congr 1
  apply V3.ext' <;> simp [smul]

/-- C13 (membership in a convex hull / polygon) -/
theorem Xf.InHull_pts (T : Xf) (hk : 0 < T.k) (ps : List V3) (x : V3) :
    InHull (T.pts ps) (T.pt x) ↔ InHull ps x := by
  constructor
  · rintro ⟨ws, hl, hnn, hs, hc⟩
    have hl' : ws.length = ps.length := by simpa [Xf.pts] using hl
    refine ⟨ws, hl', hnn, hs, ?_⟩
    rw [T.comb_pts_one ws ps hl' hs] at hc
    exact T.pt_injective hk hc
  · rintro ⟨ws, hl, hnn, hs, hc⟩
    refine ⟨ws, by simpa [Xf.pts] using hl, hnn, hs, ?_⟩
    rw [T.comb_pts_one ws ps hl hs, hc]

/-- every point of the hull of the images is the image of a point of the hull -/
theorem Xf.InHull_pts_iff (T : Xf) (hk : 0 < T.k) (ps : List V3) (y : V3) :
    InHull (T.pts ps) y ↔ ∃ x, y = T.pt x ∧ InHull ps x := by
  constructor
  · intro h
    obtain ⟨x, rfl⟩ := T.pt_surjective hk y
    exact ⟨x, rfl, (T.InHull_pts hk ps x).mp h⟩
  · rintro ⟨x, rfl, h⟩; exact (T.InHull_pts hk ps x).mpr h

theorem Xf.closedPairs_pts (T : Xf) (l : List V3) :
    closedPairs (T.pts l) = (closedPairs l).map (fun e => (T.pt e.1, T.pt e.2)) := closedPairs_map T.pt l

/-- squared edge lengths of a vertex cycle: times `k²` -/
theorem Xf.edgeLenSqs_pts (T : Xf) (l : List V3) :
    (closedPairs (T.pts l)).map (fun e => normSq (sub e.2 e.1)) =
      ((closedPairs l).map (fun e => normSq (sub e.2 e.1))).map (T.k^2 * ·) := by
  rw [T.closedPairs_pts, List.map_map, List.map_map]
  apply List.map_congr_left
  intro e _
  simp only [Function.comp]
  exact T.normSq_pt_sub _ _

theorem SP.vsum_map_smul_apply (s : SP) (c : Rat) (l : List V3) :
    vsum (l.map (fun v => smul c (s.apply v))) = smul c (s.apply (vsum l)) := by
  induction l with
  | nil => simp only [List.map_nil, vsum_nil, SP.apply_zero]; apply V3.ext' <;> simp [smul, zero]
  | cons a l ih =>
    rw [List.map_cons, vsum_cons, ih, vsum_cons, SP.apply_add]
    apply V3.ext' <;> simp only [add, smul] <;> ring

theorem Xf.vsum_pts (T : Xf) (l : List V3) :
    vsum (T.pts l) = add (T.dir (vsum l)) (smul (l.length : Rat) T.t) := by
  induction l with
  | nil =>
    simp only [Xf.pts, List.map_nil, vsum_nil, List.length_nil, T.dir_zero]
    apply V3.ext' <;> simp [add, smul, zero]
  | cons a l ih =>
    simp only [Xf.pts] at ih ⊢
    rw [List.map_cons, vsum_cons, ih, vsum_cons, T.dir_add, T.pt_eq_dir_add]
    apply V3.ext' <;> simp only [add, smul, List.length_cons] <;> push_cast <;> ring

/-- the vertex centroid (`_get_center_point`) commutes with `T` -/
theorem Xf.meanV_pts (T : Xf) (l : List V3) (hl : l ≠ []) : meanV (T.pts l) = T.pt (meanV l) := by
  have hpos : (l.length : Rat) ≠ 0 := by
    have : 0 < l.length := List.length_pos_of_ne_nil hl
    exact_mod_cast (Nat.pos_iff_ne_zero.mp this)
  unfold meanV
  rw [sumV_eq_vsum, sumV_eq_vsum, T.vsum_pts, T.pt_eq_dir_add, T.dir_smul]
  simp only [Xf.pts, List.length_map]
  apply V3.ext' <;> simp only [add, smul] <;> field_simp

/-- twice the vector area of a vertex cycle transforms as a pseudo-vector scaled by `k²` -/
theorem Xf.vecArea2_pts (T : Xf) (l : List V3) :
    vecArea2 (T.pts l) = smul (T.s.det * T.k^2) (T.s.apply (vecArea2 l)) := by
  rw [← vec_fan (T.pt zero) (T.pts l), ← vec_fan zero l, T.closedPairs_pts, List.map_map,
    ← SP.vsum_map_smul_apply, List.map_map]
  congr 1
  apply List.map_congr_left
  intro e _
  simp only [Function.comp, Xf.pt_sub, T.cross_dir]

/-- (2·area)² of a planar cycle is `|vecArea2|²`: times `k⁴`, i.e. the area is multiplied by `k²` -/
theorem Xf.normSq_vecArea2_pts (T : Xf) (l : List V3) :
    normSq (vecArea2 (T.pts l)) = T.k^4 * normSq (vecArea2 l) := by
  rw [T.vecArea2_pts, normSq_smul, SP.normSq_apply]
  linear_combination (T.k^4 * normSq (vecArea2 l)) * SP.det_mul_self T.s

theorem Xf.dirEdges_surface (T : Xf) (fs : List (List V3)) :
    dirEdges (T.surface fs) = (dirEdges fs).map (fun e => (T.pt e.1, T.pt e.2)) := by
  induction fs with
  | nil => simp [dirEdges, Xf.surface]
  | cons f fs ih =>
    simp only [dirEdges, Xf.surface, List.map_cons, List.flatMap_cons, List.map_append] at ih ⊢
    rw [ih, T.closedPairs_pts]

/-- the image of a closed surface is a closed surface -/
theorem Xf.closedSurface (T : Xf) (fs : List (List V3)) (hc : ClosedSurface fs) :
    ClosedSurface (T.surface fs) := by
  unfold ClosedSurface at hc ⊢
  rw [T.dirEdges_surface, List.map_map]
  have : (Prod.swap ∘ fun e : V3 × V3 => (T.pt e.1, T.pt e.2)) =
      (fun e : V3 × V3 => (T.pt e.1, T.pt e.2)) ∘ Prod.swap := by funext e; rfl
  rw [this, ← List.map_map]
  exact hc.map _

/-- six times the signed volume: times `det σ · k³` (no closedness needed when the reference point is
    transformed as well) -/
theorem Xf.vol6_surface (T : Xf) (fs : List (List V3)) (q : V3) :
    vol6 (T.surface fs) (T.pt q) = T.s.det * T.k^3 * vol6 fs q := by
  unfold vol6
  rw [Xf.surface, List.map_map, ← list_sum_map_mul_left]
  congr 1
  apply List.map_congr_left
  intro l _
  simp only [Function.comp]
  cases l with
  | nil =>
    have h0 : vecArea2 ([] : List V3) = zero := by simp [vecArea2, closedPairs, vsum_nil]
    simp only [Xf.pts, List.map_nil, h0]
    simp [dot, zero]
  | cons a l =>
    rw [T.vecArea2_pts]
    simp only [Xf.pts, List.map_cons, List.headD_cons, Xf.pt_sub, Xf.dir, dot_smul_left, dot_smul_right,
      SP.dot_apply]
    ring

theorem SP.absQ_det_mul (s : SP) (x : Rat) : absQ (s.det * x) = absQ x := by
  rcases SP.det_cases s with h | h <;> rw [h]
  · rw [one_mul]
  · rw [show (-1 : Rat) * x = -x by ring, absQ_neg']

/-- C13 (volume): |signed volume| times `k³` -/
theorem Xf.abs_vol6_surface (T : Xf) (hk : 0 < T.k) (fs : List (List V3)) (q : V3) :
    absQ (vol6 (T.surface fs) (T.pt q)) = T.k^3 * absQ (vol6 fs q) := by
  rw [T.vol6_surface, mul_assoc, SP.absQ_det_mul, absQ_pos_mul (by positivity)]

/-- for a closed surface the reference point is arbitrary on both sides -/
theorem Xf.abs_vol6_closed (T : Xf) (hk : 0 < T.k) (fs : List (List V3)) (hc : ClosedSurface fs) (q q' : V3) :
    absQ (vol6 (T.surface fs) q') = T.k^3 * absQ (vol6 fs q) := by
  rw [vol6_ref_independent (T.surface fs) (T.closedSurface fs hc) q' (T.pt q)]
  exact T.abs_vol6_surface hk fs q

#print axioms Xf.InHull_pts
#print axioms Xf.vecArea2_pts
#print axioms Xf.abs_vol6_closed

/-! ## 6. polygons and polyhedra: validity, membership, length, area, volume -/

/-- C13 for reflections too: with the normal mapped as a pseudo-vector the cycle stays positively
    oriented (for a rotation `det σ = 1` and `T.pnrm n = T.nrm n`) -/
theorem Xf.triplesPos_pts (T : Xf) (hk : 0 < T.k) (n : V3) (l : List V3) (h : triplesPos n l) :
    triplesPos (T.pnrm n) (T.pts l) := by
  apply triplesPos_map T.pt n (T.pnrm n) _ l h
  intro a b c hpos
  rw [T.orient_pnrm]
  positivity

theorem Xf.pnrm_of_det_one (T : Xf) (h : T.s.det = 1) (n : V3) : T.pnrm n = T.nrm n := by
  rw [Xf.pnrm, h]; apply V3.ext' <;> simp [smul]

theorem Xf.normSq_pnrm (T : Xf) (n : V3) : normSq (T.pnrm n) = normSq n := by
  rw [Xf.pnrm, normSq_smul, T.normSq_nrm]
  linear_combination (normSq n) * SP.det_mul_self T.s

theorem Xf.dot_pnrm_pt_sub (T : Xf) (n x p : V3) :
    dot (T.pnrm n) (sub (T.pt x) (T.pt p)) = T.s.det * T.k * dot n (sub x p) := by
  rw [Xf.pnrm, Xf.pt_sub, dot_smul_left, T.dot_nrm_dir]; ring

theorem Xf.inPlane_pnrm (T : Xf) (hk : 0 < T.k) (n p x : V3) :
    inPlane (T.pnrm n) (T.pt p) (T.pt x) = inPlane n p x := by
  unfold inPlane
  rw [T.dot_pnrm_pt_sub]
  exact beq_mul_zero (mul_ne_zero (SP.det_ne_zero T.s) (ne_of_gt hk)) _

/-- C13: a valid polygon is mapped to a valid polygon -/
theorem Xf.polygon_valid (T : Xf) (hk : 0 < T.k) (P : Polygon) (hv : P.Valid) : (T.polygon P).Valid := by
  obtain ⟨p0, p1, p2, rest, hp, hpl, htp⟩ := hv
  refine ⟨T.pt p0, T.pt p1, T.pt p2, T.pts rest, by simp [Xf.polygon, Xf.pts, hp], ?_, ?_⟩
  · intro p hpm
    simp only [Xf.polygon, Xf.pts, List.mem_map] at hpm
    obtain ⟨q, hq, rfl⟩ := hpm
    simp only [Xf.polygon]
    rw [T.inPlane_pnrm hk]; exact hpl q hq
  · exact T.triplesPos_pts hk _ _ htp

theorem Xf.edgeTest_pnrm (T : Xf) (hk : 0 < T.k) (n a b x : V3) :
    decide (0 ≤ orient (T.pnrm n) (T.pt a) (T.pt b) (T.pt x)) = decide (0 ≤ orient n a b x) := by
  rw [T.orient_pnrm]
  exact decide_nonneg_mul (by positivity) _

/-- C13 (membership, polygon): Bool level, no validity needed -/
theorem Xf.polygon_contains (T : Xf) (hk : 0 < T.k) (P : Polygon) (x : V3) :
    (T.polygon P).contains (T.pt x) = P.contains x := by
  rw [Polygon.contains_eq, Polygon.contains_eq]
  simp only [Xf.polygon, polyContains, T.inPlane_pnrm hk, T.closedPairs_pts, List.all_map]
  congr 1
  apply List.all_congr rfl
  intro e
  exact T.edgeTest_pnrm hk _ _ _ _

/-- … hence, for a valid polygon, the hull statement -/
theorem Xf.polygon_contains_iff (T : Xf) (hk : 0 < T.k) (P : Polygon) (hv : P.Valid) (x : V3) :
    (T.polygon P).contains (T.pt x) = true ↔ InHull P.pts x := by
  rw [T.polygon_contains hk, Polygon.contains_iff P hv]

/-- C13 (length, polygon): squared edge lengths times `k²` -/
theorem Xf.polygon_edgeLenSqs (T : Xf) (P : Polygon) :
    (T.polygon P).edgeLenSqs = P.edgeLenSqs.map (T.k^2 * ·) := by
  simp only [Polygon.edgeLenSqs, Xf.polygon]
  exact T.edgeLenSqs_pts P.pts

theorem Xf.triNum_pt (T : Xf) (hk : 0 < T.k) (n c a b : V3) :
    triNum (T.pnrm n) (T.pt c) (T.pt a) (T.pt b) = T.k^2 * triNum n c a b := by
  unfold triNum
  rw [Xf.pt_sub, Xf.pt_sub, T.cross_dir, Xf.pnrm, Xf.nrm, dot_smul_left, dot_smul_right, SP.dot_apply,
    SP.absQ_det_mul, mul_assoc, SP.absQ_det_mul, absQ_pos_mul (by positivity)]

/-- C13 (area, polygon): `area = areaNum / (2·√(n·n))`; the numerator is multiplied by `k²` and `n·n` is
    unchanged, so the area is multiplied by `k²` -/
theorem Xf.polygon_areaNum (T : Xf) (hk : 0 < T.k) (P : Polygon) :
    (T.polygon P).areaNum = T.k^2 * P.areaNum ∧ normSq (T.polygon P).plane.n = normSq P.plane.n := by
  refine ⟨?_, T.normSq_pnrm _⟩
  unfold Polygon.areaNum
  simp only [Xf.polygon]
  rw [T.closedPairs_pts, List.map_map, ← list_sum_map_mul_left]
  congr 1
  apply List.map_congr_left
  intro e _
  simp only [Function.comp]
  exact T.triNum_pt hk _ _ _ _

theorem Xf.pyramidHeightNum_polygon (T : Xf) (hk : 0 < T.k) (f : Polygon) (hne : f.pts ≠ []) (apex : V3) :
    pyramidHeightNum (T.polygon f) (T.pt apex) = T.k * pyramidHeightNum f apex := by
  unfold pyramidHeightNum
  obtain ⟨a, l, hal⟩ := List.exists_cons_of_ne_nil hne
  simp only [Xf.polygon, Xf.pts, hal, List.map_cons, List.headD_cons]
  rw [Xf.pt_sub, Xf.pnrm, dot_smul_right, T.dot_dir_nrm, SP.absQ_det_mul, absQ_pos_mul (le_of_lt hk)]

/-- C13 (volume, one pyramid): `h·A/3` is multiplied by `k³` -/
theorem Xf.pyramidVolume_polygon (T : Xf) (hk : 0 < T.k) (f : Polygon) (hne : f.pts ≠ []) (apex : V3) :
    pyramidVolume (T.polygon f) (T.pt apex) = T.k^3 * pyramidVolume f apex := by
  unfold pyramidVolume
  rw [T.pyramidHeightNum_polygon hk f hne, (T.polygon_areaNum hk f).1, (T.polygon_areaNum hk f).2]
  ring

/-- C13 (volume, polyhedron): the code's sum of pyramid volumes is multiplied by `k³` -/
theorem Xf.polyhedron_volume (T : Xf) (hk : 0 < T.k) (B : Polyhedron)
    (hne : ∀ pa ∈ B.pyramids, pa.1.pts ≠ []) : (T.polyhedron B).volume = T.k^3 * B.volume := by
  unfold Polyhedron.volume
  simp only [Xf.polyhedron]
  rw [List.map_map, ← list_sum_map_mul_left]
  congr 1
  apply List.map_congr_left
  intro pa hpa
  simp only [Function.comp]
  exact T.pyramidVolume_polygon hk pa.1 (hne pa hpa) pa.2

/-- C13 (length, polyhedron) -/
theorem Xf.polyhedron_edgeLenSqs (T : Xf) (B : Polyhedron) :
    (T.polyhedron B).edgeLenSqs = B.edgeLenSqs.map (T.k^2 * ·) := by
  simp only [Polyhedron.edgeLenSqs, Xf.polyhedron, List.map_map]
  apply List.map_congr_left
  intro s _
  simp only [Function.comp]
  exact T.seg_lenSq s

/-- C13 (area, polyhedron): per face, numerator times `k²`, `n·n` unchanged -/
theorem Xf.polyhedron_faceAreaNums (T : Xf) (hk : 0 < T.k) (B : Polyhedron) :
    (T.polyhedron B).faceAreaNums = B.faceAreaNums.map (fun an => (T.k^2 * an.1, an.2)) := by
  simp only [Polyhedron.faceAreaNums, Xf.polyhedron, List.map_map]
  apply List.map_congr_left
  intro f _
  simp only [Function.comp]
  rw [(T.polygon_areaNum hk f).1, (T.polygon_areaNum hk f).2]

#print axioms Xf.triplesPos_pts
#print axioms Xf.polygon_valid
#print axioms Xf.polygon_contains
#print axioms Xf.polygon_areaNum
#print axioms Xf.polyhedron_volume

/-! ## 7. faces with outward (true-vector) normals: reflections reverse the cycle -/

theorem triplesPos_iff_sublist (n : V3) : ∀ l : List V3,
    triplesPos n l ↔ ∀ a b c, List.Sublist [a, b, c] l → 0 < orient n a b c := by
  intro l
  induction l with
  | nil =>
    constructor
    · intro _ a b c h; cases h
    · intro _; trivial
  | cons x l ih =>
    constructor
    · intro htp a b c h
      cases h with
      | cons _ h' => exact (ih.mp htp.2) a b c h'
      | cons_cons _ h' => exact htp.1 b c h'
    · intro H
      exact ⟨fun b c h => H x b c (h.cons_cons x), ih.mpr (fun a b c h => H a b c (h.cons x))⟩

/-- reversing the cycle and negating the normal keeps every ordered triple positive -/
theorem triplesPos_reverse_neg (n : V3) (l : List V3) (h : triplesPos n l) : triplesPos (neg n) l.reverse := by
  rw [triplesPos_iff_sublist] at h ⊢
  intro a b c hs
  have := List.reverse_sublist.mpr hs
  rw [List.reverse_reverse] at this
  rw [orient_neg_rev]
  exact h c b a (by simpa using this)

theorem consec_reverse : ∀ l : List V3, consec l.reverse = ((consec l).map Prod.swap).reverse := by
  intro l
  induction l with
  | nil => simp [consec]
  | cons a l ih =>
    cases l with
    | nil => simp [consec]
    | cons b l =>
      have e : (a :: b :: l).reverse = l.reverse ++ [b] ++ [a] := by simp
      have e2 : l.reverse ++ [b] = (b :: l).reverse := by simp
      rw [e, consec_append_singleton', e2, ih]
      simp [consec]

/-- the closed edge path of the reversed cycle consists of the reversed edges -/
theorem closedPairs_reverse_perm (l : List V3) :
    List.Perm (closedPairs l.reverse) ((closedPairs l).map Prod.swap) := by
  cases l with
  | nil => simp [closedPairs]
  | cons p ps =>
    have h1 : List.Perm ((closedPairs (p :: ps)).map Prod.swap) (consec (p :: ps.reverse ++ [p])) := by
      have e : consec (p :: ps.reverse ++ [p]) = ((closedPairs (p :: ps)).map Prod.swap).reverse := by
        have : p :: ps.reverse ++ [p] = (p :: ps ++ [p]).reverse := by simp
        rw [this, consec_reverse]; rfl
      rw [e]; exact (List.reverse_perm _).symm
    refine List.Perm.trans ?_ h1.symm
    rw [List.reverse_cons]
    cases ps.reverse with
    | nil => simp [closedPairs]
    | cons q m =>
      have e : closedPairs (q :: m ++ [p]) = consec (q :: m ++ [p]) ++ [(p, q)] := by
        have := consec_append_singleton' (q :: m) p q
        simpa [closedPairs] using this
      rw [e]
      have e2 : consec (p :: (q :: m) ++ [p]) = (p, q) :: consec (q :: m ++ [p]) := by simp [consec]
      rw [e2]
      exact List.perm_append_singleton _ _

theorem Xf.cyc_of_det_one (T : Xf) (h : T.s.det = 1) (l : List V3) : T.cyc l = T.pts l := by
  rw [Xf.cyc, if_pos h]

theorem Xf.cyc_of_det_neg (T : Xf) (h : T.s.det = -1) (l : List V3) : T.cyc l = (T.pts l).reverse := by
  rw [Xf.cyc, if_neg (by rw [h]; norm_num)]

theorem Xf.mem_cyc (T : Xf) (l : List V3) (y : V3) : y ∈ T.cyc l ↔ ∃ x ∈ l, T.pt x = y := by
  rcases SP.det_cases T.s with h | h
  · rw [T.cyc_of_det_one h, Xf.pts, List.mem_map]
  · rw [T.cyc_of_det_neg h, List.mem_reverse, Xf.pts, List.mem_map]

theorem Xf.length_cyc (T : Xf) (l : List V3) : (T.cyc l).length = l.length := by
  rcases SP.det_cases T.s with h | h
  · rw [T.cyc_of_det_one h, Xf.pts, List.length_map]
  · rw [T.cyc_of_det_neg h, List.length_reverse, Xf.pts, List.length_map]

theorem Xf.nrm_eq_neg_pnrm (T : Xf) (h : T.s.det = -1) (n : V3) : T.nrm n = neg (T.pnrm n) := by
  rw [Xf.pnrm, h]; apply V3.ext' <;> simp [smul, neg]

theorem Xf.triplesPos_cyc (T : Xf) (hk : 0 < T.k) (n : V3) (l : List V3) (h : triplesPos n l) :
    triplesPos (T.nrm n) (T.cyc l) := by
  rcases SP.det_cases T.s with hd | hd
  · rw [T.cyc_of_det_one hd, ← T.pnrm_of_det_one hd]; exact T.triplesPos_pts hk n l h
  · rw [T.cyc_of_det_neg hd, T.nrm_eq_neg_pnrm hd]
    exact triplesPos_reverse_neg _ _ (T.triplesPos_pts hk n l h)

theorem Xf.inPlane_nrm (T : Xf) (hk : 0 < T.k) (n p x : V3) :
    inPlane (T.nrm n) (T.pt p) (T.pt x) = inPlane n p x := by
  unfold inPlane
  rw [Xf.pt_sub, T.dot_nrm_dir]
  exact beq_mul_zero (ne_of_gt hk) _

theorem Polygon.valid_of_length (P : Polygon) (h3 : 3 ≤ P.pts.length)
    (hpl : ∀ p ∈ P.pts, G3D.inPlane P.plane.n P.plane.p p = true) (htp : triplesPos P.plane.n P.pts) :
    P.Valid := by
  match hp : P.pts, h3 with
  | p0 :: p1 :: p2 :: rest, _ => exact ⟨p0, p1, p2, rest, hp, hpl, htp⟩

/-- C13: a valid face is mapped to a valid face (outward normal kept outward) -/
theorem Xf.face_valid (T : Xf) (hk : 0 < T.k) (P : Polygon) (hv : P.Valid) : (T.face P).Valid := by
  obtain ⟨p0, p1, p2, rest, hp, hpl, htp⟩ := hv
  apply Polygon.valid_of_length
  · show 3 ≤ (T.cyc P.pts).length
    rw [T.length_cyc, hp]; simp
  · intro y hy
    obtain ⟨x, hx, rfl⟩ := (T.mem_cyc P.pts y).mp hy
    show inPlane (T.nrm P.plane.n) (T.pt P.plane.p) (T.pt x) = true
    rw [T.inPlane_nrm hk]; exact hpl x hx
  · exact T.triplesPos_cyc hk _ _ htp

/-- the closed edge path of the image cycle, up to order: images of the edges (reversed under a
    reflection) -/
theorem Xf.closedPairs_cyc_perm (T : Xf) (l : List V3) :
    List.Perm (closedPairs (T.cyc l))
      ((closedPairs l).map (fun e => if T.s.det = 1 then (T.pt e.1, T.pt e.2) else (T.pt e.2, T.pt e.1))) := by
  rcases SP.det_cases T.s with h | h
  · rw [T.cyc_of_det_one h, T.closedPairs_pts]
    simp only [h, if_true]
    exact List.Perm.refl _
  · rw [T.cyc_of_det_neg h]
    have hne : ¬ T.s.det = 1 := by rw [h]; norm_num
    simp only [hne, if_false]
    refine (closedPairs_reverse_perm _).trans ?_
    rw [T.closedPairs_pts, List.map_map]
    exact List.Perm.refl _

theorem Xf.edgeTest_nrm (T : Xf) (hk : 0 < T.k) (n x : V3) (e : V3 × V3) :
    decide (0 ≤ orient (T.nrm n)
      (if T.s.det = 1 then (T.pt e.1, T.pt e.2) else (T.pt e.2, T.pt e.1)).1
      (if T.s.det = 1 then (T.pt e.1, T.pt e.2) else (T.pt e.2, T.pt e.1)).2 (T.pt x)) =
    decide (0 ≤ orient n e.1 e.2 x) := by
  rcases SP.det_cases T.s with h | h
  · simp only [h, if_true]
    rw [T.orient_pt, h, one_mul]
    exact decide_nonneg_mul (by positivity) _
  · have hne : ¬ T.s.det = 1 := by rw [h]; norm_num
    simp only [hne, if_false]
    rw [T.orient_pt, h, orient_rev, show (-1 : Rat) * T.k^2 * -orient n e.1 e.2 x = T.k^2 * orient n e.1 e.2 x by ring]
    exact decide_nonneg_mul (by positivity) _

/-- C13 (membership, face of a solid): Bool level, no validity needed -/
theorem Xf.face_contains (T : Xf) (hk : 0 < T.k) (P : Polygon) (x : V3) :
    (T.face P).contains (T.pt x) = P.contains x := by
  rw [Polygon.contains_eq, Polygon.contains_eq]
  simp only [Xf.face, polyContains, T.inPlane_nrm hk]
  congr 1
  rw [all_eq_of_perm _ (T.closedPairs_cyc_perm P.pts), List.all_map]
  apply List.all_congr rfl
  intro e
  exact T.edgeTest_nrm hk _ _ e

theorem Xf.triNum_nrm (T : Xf) (hk : 0 < T.k) (n c a b : V3) :
    triNum (T.nrm n) (T.pt c) (T.pt a) (T.pt b) = T.k^2 * triNum n c a b := by
  unfold triNum
  rw [Xf.pt_sub, Xf.pt_sub, T.cross_dir, Xf.nrm, dot_smul_right, SP.dot_apply,
    mul_assoc, SP.absQ_det_mul, absQ_pos_mul (by positivity)]

/-- C13 (area, face of a solid) -/
theorem Xf.face_areaNum (T : Xf) (hk : 0 < T.k) (P : Polygon) :
    (T.face P).areaNum = T.k^2 * P.areaNum ∧ normSq (T.face P).plane.n = normSq P.plane.n := by
  refine ⟨?_, T.normSq_nrm _⟩
  unfold Polygon.areaNum
  simp only [Xf.face]
  rw [((T.closedPairs_cyc_perm P.pts).map _).sum_eq, List.map_map, ← list_sum_map_mul_left]
  congr 1
  apply List.map_congr_left
  intro e _
  simp only [Function.comp]
  split
  · exact T.triNum_nrm hk _ _ _ _
  · rw [triNum_swap]; exact T.triNum_nrm hk _ _ _ _

/-- C13 (length, face of a solid): the squared edge lengths, up to the order of the edges -/
theorem Xf.face_edgeLenSqs_perm (T : Xf) (P : Polygon) :
    List.Perm (T.face P).edgeLenSqs (P.edgeLenSqs.map (T.k^2 * ·)) := by
  unfold Polygon.edgeLenSqs
  simp only [Xf.face]
  refine ((T.closedPairs_cyc_perm P.pts).map _).trans ?_
  rw [List.map_map, List.map_map]
  have : ∀ e ∈ closedPairs P.pts,
      ((fun e : V3 × V3 => normSq (sub e.2 e.1)) ∘
        fun e => if T.s.det = 1 then (T.pt e.1, T.pt e.2) else (T.pt e.2, T.pt e.1)) e =
      ((fun x => T.k^2 * x) ∘ fun e : V3 × V3 => normSq (sub e.2 e.1)) e := by
    intro e _
    simp only [Function.comp]
    split
    · exact T.normSq_pt_sub _ _
    · rw [normSq_sub_comm]; exact T.normSq_pt_sub _ _
  rw [List.map_congr_left this]

theorem Xf.halfspaceTest_nrm (T : Xf) (hk : 0 < T.k) (n c x : V3) :
    decide (dot (sub (T.pt x) (T.pt c)) (T.nrm n) ≤ 0) = decide (dot (sub x c) n ≤ 0) := by
  rw [Xf.pt_sub, T.dot_dir_nrm]
  exact decide_mul_nonpos hk _

/-- C13 (membership, solid) -/
theorem Xf.body_contains (T : Xf) (hk : 0 < T.k) (B : Polyhedron) (x : V3) :
    (T.body B).contains (T.pt x) = B.contains x := by
  simp only [Polyhedron.contains, Xf.body, List.all_map]
  apply List.all_congr rfl
  intro f
  exact T.halfspaceTest_nrm hk _ _ _

theorem Xf.body_containsSeg (T : Xf) (hk : 0 < T.k) (B : Polyhedron) (s : Seg) :
    (T.body B).containsSeg (T.seg s) = B.containsSeg s := by
  simp only [Polyhedron.containsSeg, Xf.seg, Seg.mk', T.body_contains hk]

theorem Xf.all_cyc (T : Xf) (f : V3 → Bool) (l : List V3) : (T.cyc l).all f = l.all (fun x => f (T.pt x)) := by
  rcases SP.det_cases T.s with h | h
  · rw [T.cyc_of_det_one h, Xf.pts, List.all_map]; rfl
  · rw [T.cyc_of_det_neg h, List.all_reverse, Xf.pts, List.all_map]; rfl

theorem Xf.body_containsPolygon (T : Xf) (hk : 0 < T.k) (B : Polyhedron) (P : Polygon) :
    (T.body B).containsPolygon (T.face P) = B.containsPolygon P := by
  simp only [Polyhedron.containsPolygon, Xf.face, T.all_cyc, T.body_contains hk]

/-- C13 (volume, one pyramid of a solid); validity gives the coplanarity that makes the height
    independent of which vertex is `points[0]` -/
theorem Xf.pyramidVolume_face (T : Xf) (hk : 0 < T.k) (f : Polygon) (hv : f.Valid) (apex : V3) :
    pyramidVolume (T.face f) (T.pt apex) = T.k^3 * pyramidVolume f apex := by
  have hh : pyramidHeightNum (T.face f) (T.pt apex) = T.k * pyramidHeightNum f apex := by
    obtain ⟨p0, p1, p2, rest, hp, hpl, _⟩ := hv
    unfold pyramidHeightNum
    have hne : T.cyc f.pts ≠ [] := by
      intro h0
      have := T.length_cyc f.pts
      rw [h0, hp] at this; simp at this
    obtain ⟨y, l', hy⟩ := List.exists_cons_of_ne_nil hne
    obtain ⟨q, hq, rfl⟩ := (T.mem_cyc f.pts y).mp (by rw [hy]; simp)
    show absQ (dot (sub (T.pt apex) ((T.cyc f.pts).headD zero)) (T.nrm f.plane.n)) =
      T.k * absQ (dot (sub apex (f.pts.headD zero)) f.plane.n)
    rw [hy, hp]
    simp only [List.headD_cons]
    rw [Xf.pt_sub, T.dot_dir_nrm, absQ_pos_mul (le_of_lt hk)]
    congr 2
    -- both `q` and `p0` lie in the face plane
    have h1 := hpl q hq
    have h2 := hpl p0 (by rw [hp]; simp)
    simp only [inPlane, beq_iff_eq] at h1 h2
    have e1 : dot (sub apex q) f.plane.n = dot f.plane.n (sub apex f.plane.p) - dot f.plane.n (sub q f.plane.p) := by
      simp only [dot, sub]; ring
    have e2 : dot (sub apex p0) f.plane.n = dot f.plane.n (sub apex f.plane.p) - dot f.plane.n (sub p0 f.plane.p) := by
      simp only [dot, sub]; ring
    rw [e1, e2, h1, h2]
  unfold pyramidVolume
  rw [hh, (T.face_areaNum hk f).1, (T.face_areaNum hk f).2]
  ring

/-- C13 (volume, solid) -/
theorem Xf.body_volume (T : Xf) (hk : 0 < T.k) (B : Polyhedron)
    (hv : ∀ pa ∈ B.pyramids, pa.1.Valid) : (T.body B).volume = T.k^3 * B.volume := by
  unfold Polyhedron.volume
  simp only [Xf.body]
  rw [List.map_map, ← list_sum_map_mul_left]
  congr 1
  apply List.map_congr_left
  intro pa hpa
  simp only [Function.comp]
  exact T.pyramidVolume_face hk pa.1 (hv pa hpa) pa.2

theorem Xf.body_edgeLenSqs (T : Xf) (B : Polyhedron) :
    (T.body B).edgeLenSqs = B.edgeLenSqs.map (T.k^2 * ·) := T.polyhedron_edgeLenSqs B

theorem Xf.body_faceAreaNums (T : Xf) (hk : 0 < T.k) (B : Polyhedron) :
    (T.body B).faceAreaNums = B.faceAreaNums.map (fun an => (T.k^2 * an.1, an.2)) := by
  simp only [Polyhedron.faceAreaNums, Xf.body, List.map_map]
  apply List.map_congr_left
  intro f _
  simp only [Function.comp]
  rw [(T.face_areaNum hk f).1, (T.face_areaNum hk f).2]

#print axioms Xf.face_valid
#print axioms Xf.face_contains
#print axioms Xf.face_areaNum
#print axioms Xf.body_contains
#print axioms Xf.body_volume

end G3D
