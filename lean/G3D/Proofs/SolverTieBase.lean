import G3D.Model.PyRtS
import G3D.Model.Solver2
import G3D.Proofs.Solver2
/-! Generic lemmas about the runtime `G3D.PyRtS` (the vocabulary of G3D/Extracted/Solver.lean), used by
    G3D/Proofs/SolverTieGauss.lean and G3D/Proofs/SolverTie.lean. -/
set_option linter.unusedSimpArgs false
namespace G3D.SolverTie
open G3D.PyRtS

/-! ### the `Except` monad, normalised to constructors -/
@[simp] theorem ok_bind {ε α β} (a : α) (f : α → Except ε β) : (Except.ok a >>= f) = f a := rfl
@[simp] theorem error_bind {ε α β} (e : ε) (f : α → Except ε β) : (Except.error e >>= f) = .error e := rfl
@[simp] theorem pure_eq_ok {ε α} (a : α) : (pure a : Except ε α) = .ok a := rfl
@[simp] theorem throw_eq_error {ε α} (e : ε) : (throw e : Except ε α) = .error e := rfl
@[simp] theorem map_ok {ε α β} (f : α → β) (a : α) : (f <$> (Except.ok a : Except ε α)) = .ok (f a) := rfl
@[simp] theorem map_error {ε α β} (f : α → β) (e : ε) : (f <$> (Except.error e : Except ε α)) = .error e := rfl

/-! ### indices -/
theorem pyNormIdx_nat {n : Nat} {i : Int} (k : Nat) (hi : i = (k : Int)) (hk : k < n) : pyNormIdx n i = some k := by
  subst hi; unfold pyNormIdx; simp [hk]

theorem pyNormIdx_neg_one {n : Nat} (hn : 0 < n) : pyNormIdx n (-1) = some (n - 1) := by
  unfold pyNormIdx
  have h1 : ¬ (0 : Int) ≤ -1 := by omega
  have h2 : (0 : Int) ≤ (n : Int) + -1 := by omega
  simp only [h1, h2, if_false, if_true]
  congr 1; omega

theorem pyIdx_nat {α} {l : List α} {i : Int} (k : Nat) (hi : i = (k : Int)) (hk : k < l.length) :
    pyIdx l i = .ok l[k] := by
  unfold pyIdx; rw [pyNormIdx_nat k hi hk]; simp [hk]

theorem pyIdx_getD {l : List Rat} {i : Int} (k : Nat) (hi : i = (k : Int)) (hk : k < l.length) :
    pyIdx l i = .ok (l.getD k 0) := by
  rw [pyIdx_nat k hi hk]; simp [List.getD_eq_getElem?_getD, hk]

theorem pyIdx_getD_row {l : List (List Rat)} {i : Int} (k : Nat) (hi : i = (k : Int)) (hk : k < l.length) :
    pyIdx l i = .ok (l.getD k []) := by
  rw [pyIdx_nat k hi hk]; simp [List.getD_eq_getElem?_getD, hk]

theorem pyIdx_neg_one {l : List Rat} (h : l ≠ []) : pyIdx l (-1) = .ok (l.getLastD 0) := by
  have hn : 0 < l.length := List.length_pos_iff.mpr h
  unfold pyIdx; rw [pyNormIdx_neg_one hn]
  have : l.length - 1 < l.length := by omega
  simp only [List.getElem?_eq_getElem this]
  congr 1
  rw [List.getLastD_eq_getLast?, List.getLast?_eq_getElem?]
  simp [this]

theorem pySetIdx_nat {α} {l : List α} {i : Int} (k : Nat) (x : α) (hi : i = (k : Int)) (hk : k < l.length) :
    pySetIdx l i x = .ok (l.set k x) := by
  unfold pySetIdx; rw [pyNormIdx_nat k hi hk]; rfl

theorem pySliceFrom_nat {α} (l : List α) {i : Int} (k : Nat) (hi : i = (k : Int)) : pySliceFrom l i = l.drop k := by
  subst hi; unfold pySliceFrom pyClamp
  simp only [Int.natCast_nonneg, if_true, Int.toNat_natCast]
  by_cases h : k ≤ l.length
  · rw [Nat.min_eq_left h]
  · rw [Nat.min_eq_right (by omega), List.drop_length, List.drop_eq_nil_of_le (by omega)]

theorem pySliceTo_neg_one {α} (l : List α) : pySliceTo l (-1) = l.dropLast := by
  unfold pySliceTo pyClamp
  have h1 : ¬ (0 : Int) ≤ -1 := by omega
  simp only [h1, if_false]
  rw [List.dropLast_eq_take]; congr 1; omega

/-! ### ranges -/
theorem pyRange_nat (a : Int) (n : Nat) {b : Int} (hb : b = a + (n : Int)) :
    pyRange a b = (List.range n).map (fun (k : Nat) => a + (k : Int)) := by
  subst hb; unfold pyRange
  have : (a + (n : Int) - a).toNat = n := by omega
  rw [this]

theorem pyRange_empty {a b : Int} (h : b ≤ a) : pyRange a b = [] := by
  unfold pyRange
  have : (b - a).toNat = 0 := by omega
  rw [this]; rfl

theorem pyRange_cons {a b : Int} (h : a < b) : pyRange a b = a :: pyRange (a + 1) b := by
  obtain ⟨n, hn⟩ : ∃ n : Nat, b = a + ((n + 1 : Nat) : Int) := ⟨(b - a).toNat - 1, by omega⟩
  rw [pyRange_nat a (n + 1) hn, pyRange_nat (a + 1) n (by omega), List.range_succ_eq_map]
  simp only [List.map_cons, List.map_map, Nat.cast_zero, Int.add_zero]
  congr 1
  apply List.map_congr_left
  intro k _
  simp only [Function.comp]
  omega

theorem pyReversed_range_succ (n : Nat) :
    pyReversed (pyRange 0 ((n + 1 : Nat) : Int)) = ((n : Nat) : Int) :: pyReversed (pyRange 0 (n : Int)) := by
  rw [pyRange_nat 0 (n + 1) (by omega), pyRange_nat 0 n (by omega)]
  unfold pyReversed
  rw [List.range_succ, List.map_append, List.reverse_append]
  simp

theorem pyReversed_range_zero : pyReversed (pyRange 0 ((0 : Nat) : Int)) = [] := by
  rw [pyRange_empty (by simp)]; rfl

theorem pyEnumerate_nil {α} : pyEnumerate ([] : List α) = [] := rfl

/-- `enumerate` with an offset (the loop lemmas induct over this form) -/
def enumFrom {α} (k : Nat) (l : List α) : List (Int × α) := (l.zipIdx k).map (fun p => ((p.2 : Int), p.1))
theorem pyEnumerate_eq {α} (l : List α) : pyEnumerate l = enumFrom 0 l := rfl
@[simp] theorem enumFrom_nil {α} (k : Nat) : enumFrom k ([] : List α) = [] := rfl
@[simp] theorem enumFrom_cons {α} (k : Nat) (x : α) (l : List α) :
    enumFrom k (x :: l) = ((k : Int), x) :: enumFrom (k + 1) l := by
  simp [enumFrom, List.zipIdx_cons]

/-! ### comprehensions over pure element functions -/
theorem pyComp_ok {α β} (g : α → β) (l : List α) : pyComp (fun x => (Except.ok (g x) : PyM β)) l = .ok (l.map g) := by
  induction l with
  | nil => rfl
  | cons x xs ih => simp only [pyComp, ih, pure_eq_ok, ok_bind, List.map_cons]
theorem pyComp_pure {α β} (g : α → β) (l : List α) : pyComp (fun x => (pure (g x) : PyM β)) l = .ok (l.map g) :=
  pyComp_ok g l

theorem pyCompIf_pure {α β} (c : α → PyM Bool) (e : α → PyM β) (c' : α → Bool) (e' : α → β) (l : List α)
    (hc : ∀ x ∈ l, c x = .ok (c' x)) (he : ∀ x ∈ l, e x = .ok (e' x)) :
    pyCompIf c e l = .ok ((l.filter c').map e') := by
  induction l with
  | nil => rfl
  | cons x xs ih =>
    have ihx := ih (fun y hy => hc y (List.mem_cons_of_mem _ hy)) (fun y hy => he y (List.mem_cons_of_mem _ hy))
    simp only [pyCompIf, hc x (List.mem_cons_self ..), he x (List.mem_cons_self ..), ihx, ok_bind, pure_eq_ok]
    cases h : c' x <;> simp [List.filter_cons, h]

theorem pyAny_pure {α} (e : α → PyM Bool) (e' : α → Bool) (l : List α) (he : ∀ x ∈ l, e x = .ok (e' x)) :
    pyAny e l = .ok (l.any e') := by
  induction l with
  | nil => rfl
  | cons x xs ih =>
    have ihx := ih (fun y hy => he y (List.mem_cons_of_mem _ hy))
    simp only [pyAny, he x (List.mem_cons_self ..), ihx, ok_bind, pure_eq_ok]
    cases h : e' x <;> simp [h]

theorem pyAll_pure {α} (e : α → PyM Bool) (e' : α → Bool) (l : List α) (he : ∀ x ∈ l, e x = .ok (e' x)) :
    pyAll e l = .ok (l.all e') := by
  induction l with
  | nil => rfl
  | cons x xs ih =>
    have ihx := ih (fun y hy => he y (List.mem_cons_of_mem _ hy))
    simp only [pyAll, he x (List.mem_cons_self ..), ihx, ok_bind, pure_eq_ok]
    cases h : e' x <;> simp [h]

/-- `sum` from the left = `sum` from the right -/
theorem foldl_add_eq (l : List Rat) (a : Rat) : l.foldl (· + ·) a = a + l.foldl (· + ·) 0 := by
  induction l generalizing a with
  | nil => simp
  | cons x xs ih => simp only [List.foldl_cons]; rw [ih (a + x), ih (0 + x)]; ring

theorem pySum_cons (x : Rat) (l : List Rat) : pySum (x :: l) = x + pySum l := by
  unfold pySum; simp only [List.foldl_cons]; rw [foldl_add_eq]; ring

theorem pySum_nil : pySum ([] : List Rat) = 0 := rfl

theorem pySum_ones {α} (l : List α) : pySum (l.map (fun _ => (1 : Int))) = (l.length : Int) := by
  unfold pySum
  suffices h : ∀ (a : Int), (l.map (fun _ => (1 : Int))).foldl (· + ·) a = a + (l.length : Int) by
    simpa using h 0
  induction l with
  | nil => intro a; simp
  | cons x xs ih => intro a; simp only [List.map_cons, List.foldl_cons, ih, List.length_cons]; push_cast; ring

/-! ### a generic rule for `for` loops: the loop equals a recursively specified function -/
theorem forIn_eq {α σ : Type} (f : α → σ → PyM (ForInStep σ)) (F : List α → σ → PyM σ)
    (hnil : ∀ s, F [] s = .ok s)
    (hcons : ∀ x xs s, F (x :: xs) s = (f x s >>= fun r => match r with
        | ForInStep.done b => pure b | ForInStep.yield b => F xs b)) :
    ∀ (xs : List α) (s : σ), forIn xs s f = F xs s := by
  intro xs
  induction xs with
  | nil => intro s; simp [hnil]
  | cons x xs ih =>
    intro s
    rw [List.forIn_cons, hcons]
    congr 1
    funext r
    cases r <;> simp [ih]

end G3D.SolverTie
