import G3D.Proofs.MeasTieSegment
import G3D.Proofs.MeasTiePolygon
import G3D.Proofs.MeasTiePyramidHeight
import G3D.Proofs.MeasTiePyramid
import G3D.Proofs.MeasTiePolyhedronLength
import G3D.Proofs.MeasTiePolyhedronArea
import G3D.Proofs.MeasTiePolyhedronVolume
import G3D.Proofs.MeasTieVolume
import G3D.Proofs.MeasTieVolumeEq
import G3D.Proofs.MeasPolygon
import G3D.Proofs.CtorLists
import G3D.Proofs.CtorExample
/-! # mmeas: corollaries in the terms of the constructors / of C06, and non-vacuity of every hypothesis
    * `m_ConvexPolygon_area_true`: for a `Valid` polygon whose stored centre is the vertex mean the generated `area` body
      computes `|½ Σ pᵢ × pᵢ₊₁|`, the length of half the vector area of the vertex cycle (through `Polygon.areaSq_eq_vecArea`).
    * `…_of_mk?`: every successful `ConvexPolyhedron(input)` on `MeasOK` input polygons satisfies the hypotheses of the
      volume ties; a K5-`Valid` body those of the area tie.
    * examples: a 3-4-5 segment, a face of the unit cube, the pyramid on it with apex at the cube's centre, and the cube
      constructed by `Polyhedron.mk? unitCube.faces` (area 6, volume 1, total edge length 12). -/
namespace G3D.MeasTie.Examples
open G3D G3D.MeasRt G3D.KTie G3D.Extracted G3D.MeasTie Real

/-! ### corollaries -/
theorem sum_absQ_nonneg (l : List ℚ) (h : ∀ x ∈ l, 0 ≤ x) : 0 ≤ l.sum := by
  induction l with
  | nil => simp
  | cons a l ih =>
    rw [List.sum_cons]
    exact add_nonneg (h a List.mem_cons_self) (ih (fun x hx => h x (List.mem_cons_of_mem _ hx)))

theorem areaNum_nonneg (P : Polygon) : 0 ≤ P.areaNum := by
  unfold Polygon.areaNum
  apply sum_absQ_nonneg
  intro x hx
  obtain ⟨e, _, rfl⟩ := List.mem_map.mp hx
  exact absQ_nonneg _

/-- **the generated `ConvexPolygon.area` computes the true area** `|½ Σ pᵢ × pᵢ₊₁|` of a `Valid` polygon whose stored
    centre is the vertex mean -/
theorem m_ConvexPolygon_area_true (P : Polygon) (hv : P.Valid) (hc : P.center = meanV P.pts) :
    m_ConvexPolygon_area (polyToM P) = √((V3.normSq (vecArea2 P.pts) : ℚ) : ℝ) / 2 := by
  rw [Polygon.m_ConvexPolygon_area_of_mean P hv hc]
  have hn : P.plane.n ≠ V3.zero := Polygon.plane_WF P hv
  have hN := nn_pos hn
  have hNq : (0 : ℚ) < V3.normSq P.plane.n := G3D.normSq_pos hn
  have hsN : 0 < √((V3.normSq P.plane.n : ℚ) : ℝ) := Real.sqrt_pos.mpr hN
  have hsq := Polygon.areaSq_eq_vecArea P hv (Polygon.CentreInside.of_mean hv hc)
  unfold Polygon.areaSq at hsq
  have hq : P.areaNum ^ 2 = V3.normSq P.plane.n * V3.normSq (vecArea2 P.pts) := by
    field_simp at hsq
    linarith
  have hR : ((P.areaNum : ℚ) : ℝ) ^ 2 = ((V3.normSq P.plane.n : ℚ) : ℝ) * ((V3.normSq (vecArea2 P.pts) : ℚ) : ℝ) := by
    exact_mod_cast hq
  have ha : (0 : ℝ) ≤ ((P.areaNum : ℚ) : ℝ) := by exact_mod_cast areaNum_nonneg P
  have hW : √((V3.normSq (vecArea2 P.pts) : ℚ) : ℝ) * √((V3.normSq P.plane.n : ℚ) : ℝ) = ((P.areaNum : ℚ) : ℝ) := by
    rw [← Real.sqrt_mul' _ hN.le, mul_comm, ← hR, Real.sqrt_sq ha]
  rw [← hW]
  field_simp

/-- the pyramids stored by a successful constructor call stand on the INPUT polygons -/
theorem pyramids_measOK_of_mk? (input : List Polygon) (B : Polyhedron) (h : Polyhedron.mk? input = .ok B)
    (hin : ∀ g ∈ input, MeasOK g) : ∀ pa ∈ B.pyramids, MeasOK pa.1 := by
  obtain ⟨_, _, _, _, _, hP, _⟩ := Polyhedron.mk?_eq input B h
  intro pa hpa
  rw [hP] at hpa
  obtain ⟨g, hg, rfl⟩ := List.mem_map.mp hpa
  exact hin g hg

/-- **every successful `ConvexPolyhedron(input)`** on valid input polygons (centres in their planes): the generated
    `volume` method and the generated `volume(..)` function both return the model's rational volume -/
theorem volume_of_mk? (input : List Polygon) (B : Polyhedron) (h : Polyhedron.mk? input = .ok B)
    (hin : ∀ g ∈ input, MeasOK g) (k : ℕ) :
    m_ConvexPolyhedron_volume (bodyToM B) = ((B.volume : ℚ) : ℝ) ∧
    m_volume (k + 2) (MObj.polyhedron (bodyToM B)) = .ok (((B.volume : ℚ) : ℝ)) :=
  ⟨Polyhedron.m_ConvexPolyhedron_volume_model B (pyramids_measOK_of_mk? input B h hin),
   Volume.m_volume_polyhedron_tie k B (pyramids_measOK_of_mk? input B h hin) (bodyToM B) (List.Perm.refl _)⟩

/-- a `Valid` body (K5 validity: every face Valid, its stored centre in its plane) satisfies the hypothesis of the area tie -/
theorem area_of_valid (B : Polyhedron) (hV : B.Valid) :
    m_ConvexPolyhedron_area (bodyToM B)
      = (B.faceAreaNums.map (fun an => ((an.1 : ℚ) : ℝ) / (2 * √((an.2 : ℚ) : ℝ)))).sum :=
  Polyhedron.m_ConvexPolyhedron_area_tie B (fun f hf => ⟨hV.faces_valid f hf, hV.center_in_plane f hf⟩)

/-! ### concrete objects -/
theorem sqrt_cast_sq (q : ℚ) (r : ℝ) (hr : 0 ≤ r) (h : ((q : ℚ) : ℝ) = r ^ 2) : √((q : ℚ) : ℝ) = r := by
  rw [h, Real.sqrt_sq hr]

/-- a 3-4-5 segment -/
example : m_Segment_length (segToM (Seg.mk' ⟨0, 0, 0⟩ ⟨3, 4, 0⟩)) = 5 := by
  rw [Segment.m_Segment_length_tie]
  apply sqrt_cast_sq _ 5 (by norm_num)
  have : (Seg.mk' ⟨0, 0, 0⟩ ⟨3, 4, 0⟩).lenSq = 25 := by decide +kernel
  rw [this]; norm_num

/-- the bottom face of the unit cube `(0,0,0) (0,1,0) (1,1,0) (1,0,0)`, normal `(0,0,-1)`, centre `(½,½,0)` -/
def sq : Polygon := cycleFace [⟨0,0,0⟩, ⟨0,1,0⟩, ⟨1,1,0⟩, ⟨1,0,0⟩]

theorem sq_mem : sq ∈ unitCube.faces := by decide +kernel

theorem sq_ok : MeasOK sq := ⟨unitCube_valid.faces_valid sq sq_mem, unitCube_valid.center_in_plane sq sq_mem⟩

theorem unitCube_faces_ok : ∀ g ∈ unitCube.faces, MeasOK g :=
  fun g hg => ⟨unitCube_valid.faces_valid g hg, unitCube_valid.center_in_plane g hg⟩

/-- `area()` of the square is 1 -/
example : m_ConvexPolygon_area (polyToM sq) = 1 := by
  rw [Polygon.m_ConvexPolygon_area_tie sq sq_ok]
  have h1 : sq.areaNum = 2 := by decide +kernel
  have h2 : V3.normSq sq.plane.n = 1 := by decide +kernel
  rw [h1, h2]; norm_num

/-- … and it is the true area `|½ Σ pᵢ × pᵢ₊₁|` (hypotheses of `m_ConvexPolygon_area_true`) -/
example : m_ConvexPolygon_area (polyToM sq) = √((V3.normSq (vecArea2 sq.pts) : ℚ) : ℝ) / 2 :=
  m_ConvexPolygon_area_true sq sq_ok.1 (by decide +kernel)

/-- the pyramid on the square with apex at the centre of the cube: height ½, volume ⅙ -/
example : m_Pyramid_height (pyrToM (sq, ⟨1/2, 1/2, 1/2⟩)) = 1 / 2 := by
  rw [Pyramid.m_Pyramid_height_tie sq _ (Polygon.plane_WF sq sq_ok.1)]
  have h1 : pyramidHeightNum sq ⟨1/2, 1/2, 1/2⟩ = 1 / 2 := by decide +kernel
  have h2 : V3.normSq sq.plane.n = 1 := by decide +kernel
  rw [h1, h2]; norm_num

example : m_Pyramid_volume (pyrToM (sq, ⟨1/2, 1/2, 1/2⟩)) = 1 / 6 := by
  rw [Pyramid.m_Pyramid_volume_tie sq _ sq_ok]
  have h1 : pyramidVolume sq ⟨1/2, 1/2, 1/2⟩ = 1 / 6 := by decide +kernel
  rw [h1]; norm_num

/-- `volume(pyramid)` = ⅙ = `pyramid.volume()`, with any recursion allowance ≥ 1; anything else raises -/
example (k : ℕ) : m_volume (k + 1) (MObj.pyramid (pyrToM (sq, ⟨1/2, 1/2, 1/2⟩))) = .ok (1 / 6) := by
  rw [Volume.m_volume_pyramid_tie k sq _ sq_ok]
  have h1 : pyramidVolume sq ⟨1/2, 1/2, 1/2⟩ = 1 / 6 := by decide +kernel
  rw [h1]; norm_num

example (k : ℕ) : m_volume (k + 1) (MObj.pyramid (pyrToM (sq, ⟨1/2, 1/2, 1/2⟩)))
    = .ok (m_Pyramid_volume (pyrToM (sq, ⟨1/2, 1/2, 1/2⟩))) :=
  VolumeEq.volume_fn_eq_method_pyramid k sq _ sq_ok.1

example : m_volume 1 MObj.other = .error "ValueError" := Volume.m_volume_other 0

/-- the cube as the constructor builds it from the six outward faces: volume 1 by the method and by the function,
    surface area 6, total edge length 12 -/
example (B : Polyhedron) (h : Polyhedron.mk? unitCube.faces = .ok B) (k : ℕ) :
    m_ConvexPolyhedron_volume (bodyToM B) = 1 ∧
    m_volume (k + 2) (MObj.polyhedron (bodyToM B)) = .ok 1 ∧
    m_volume (k + 2) (MObj.polyhedron (bodyToM B)) = .ok (m_ConvexPolyhedron_volume (bodyToM B)) ∧
    m_ConvexPolyhedron_length (bodyToM B) = 12 := by
  have hv : (Polyhedron.mk? unitCube.faces).map (fun B => (B.volume, B.edgeLenSqs)) = .ok (1, List.replicate 12 1) := by
    decide +kernel
  rw [h] at hv
  have hvol : B.volume = 1 := congrArg Prod.fst (Except.ok.inj hv)
  have hed : B.edgeLenSqs = List.replicate 12 1 := congrArg Prod.snd (Except.ok.inj hv)
  obtain ⟨h1, h2⟩ := volume_of_mk? unitCube.faces B h unitCube_faces_ok k
  have hpv : ∀ pa ∈ B.pyramids, pa.1.Valid := fun pa hpa => (pyramids_measOK_of_mk? _ B h unitCube_faces_ok pa hpa).1
  refine ⟨?_, ?_, VolumeEq.volume_fn_eq_method_polyhedron k B hpv, ?_⟩
  · rw [h1, hvol]; norm_num
  · rw [h2, hvol]; norm_num
  · rw [Polyhedron.m_ConvexPolyhedron_length_model, hed]
    simp [List.replicate]
    norm_num

/-- surface area of the unit cube (`unitCube` is K5-`Valid`): six faces of area 1 -/
example : m_ConvexPolyhedron_area (bodyToM unitCube) = 6 := by
  rw [area_of_valid unitCube unitCube_valid]
  have : unitCube.faceAreaNums = List.replicate 6 (2, 1) := by decide +kernel
  rw [this]
  simp [List.replicate]
  norm_num

#print axioms m_ConvexPolygon_area_true
#print axioms pyramids_measOK_of_mk?
#print axioms volume_of_mk?
#print axioms area_of_valid
end G3D.MeasTie.Examples
