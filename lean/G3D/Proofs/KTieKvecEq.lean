import G3D.Extracted.Kvec
import G3D.Proofs.Vec
/-! # kvec, equality: `Vector.__eq__`, `Point.__eq__`  (C08, C19)
    `G3D.Extracted.impl_*` are regenerated on every run (tools/extract_kvec.py, engine tools/kernels_engine.py): the REAL code is run on
    symbolic numbers, every comparison against the tolerance is recorded (operands and shape) and answered from a scripted
    path.  Each kernel has its own `section`: when the walk of ONE kernel fails the generated file holds only the marker
    `impl_<kernel>_EXTRACTION_FAILED` for it and exactly the theorems of that section stop compiling.
    (The ties of the group kvec are spread over four modules, one per property served: KTieKvecEq (C08), KTieKvecOrth (C11),
    KTieKvecLen (C06), KTieKvecPar (C11, C19).) -/
namespace G3D.KTie.Kvec
open G3D V3 G3D.Extracted

section vectorEq
theorem vectorEq_tie (a b : V3) :
    impl_vectorEq_residual0 a b = a.x - b.x ∧ impl_vectorEq_residual1 a b = a.y - b.y ∧
    impl_vectorEq_residual2 a b = a.z - b.z := ⟨rfl, rfl, rfl⟩

/-- exact reading of the three recorded tests = structural equality of the model -/
theorem vectorEq_iff (a b : V3) :
    a = b ↔ impl_vectorEq_residual0 a b = 0 ∧ impl_vectorEq_residual1 a b = 0 ∧ impl_vectorEq_residual2 a b = 0 := by
  simp only [impl_vectorEq_residual0, impl_vectorEq_residual1, impl_vectorEq_residual2]
  constructor
  · rintro rfl; simp
  · rintro ⟨h1, h2, h3⟩; apply V3.ext' <;> linarith

theorem vectorEq_path :
    impl_vectorEq_path = [("abs(R) < eps", true), ("abs(R) < eps", true), ("abs(R) < eps", true)] := by decide
end vectorEq

section pointEq
theorem pointEq_tie (p q : V3) :
    impl_pointEq_residual0 p q = p.x - q.x ∧ impl_pointEq_residual1 p q = p.y - q.y ∧
    impl_pointEq_residual2 p q = p.z - q.z := ⟨rfl, rfl, rfl⟩

theorem pointEq_iff (p q : V3) :
    p = q ↔ impl_pointEq_residual0 p q = 0 ∧ impl_pointEq_residual1 p q = 0 ∧ impl_pointEq_residual2 p q = 0 := by
  simp only [impl_pointEq_residual0, impl_pointEq_residual1, impl_pointEq_residual2]
  constructor
  · rintro rfl; simp
  · rintro ⟨h1, h2, h3⟩; apply V3.ext' <;> linarith

theorem pointEq_path :
    impl_pointEq_path = [("abs(R) < eps", true), ("abs(R) < eps", true), ("abs(R) < eps", true)] := by decide
end pointEq

section combined
/-- (conjunction of `vectorEq_path` and `pointEq_path`, kept under its former name) -/
theorem eq_paths :
    impl_vectorEq_path = [("abs(R) < eps", true), ("abs(R) < eps", true), ("abs(R) < eps", true)] ∧
    impl_pointEq_path = [("abs(R) < eps", true), ("abs(R) < eps", true), ("abs(R) < eps", true)] := ⟨vectorEq_path, pointEq_path⟩
end combined

end G3D.KTie.Kvec
