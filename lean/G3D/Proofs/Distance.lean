import G3D.Model.Distance
import G3D.Proofs.InterFlat
import Mathlib.Tactic.Positivity

namespace G3D
open V3

/-- `d2` is the minimum of the squared distance between the point sets `A` and `B` -/
def IsMinDistSq (d2 : Rat) (A B : V3 → Prop) : Prop :=
  (∀ x y, A x → B y → d2 ≤ normSq (sub y x)) ∧ ∃ x y, A x ∧ B y ∧ normSq (sub y x) = d2

theorem distSqPointLine_spec (a : V3) (b : Line) (hb : b.WF) :
    ∃ d2, distSqPointLine a b = .ok d2 ∧ IsMinDistSq d2 (· = a) b.den := by
  have hN := normSq_pos hb
  have hno : ¬ V3.orthogonal b.dv b.dv = true := by
    simp only [V3.orthogonal, beq_iff_eq]; intro h
    have : normSq b.dv = 0 := h
    exact absurd this (ne_of_gt hN)
  have hnc : ¬ (⟨a, b.dv⟩ : Plane).containsLine b = true := by
    unfold Plane.containsLine; rw [Bool.and_eq_true]; exact fun h => hno h.2
  unfold distSqPointLine
  simp only [interLinePlane, hnc, hno, if_false, Bool.false_eq_true]
  set mu := (dot b.dv a - dot b.dv b.sv) / dot b.dv b.dv with hmu
  set f := add b.sv (smul mu b.dv) with hf
  have hperp : dot (sub a f) b.dv = 0 := by
    have : dot (sub a f) b.dv = dot b.dv a - dot b.dv b.sv - mu * dot b.dv b.dv := by
      simp only [hf, dot, sub, add, smul]; ring
    have hNN : dot b.dv b.dv ≠ 0 := ne_of_gt hN
    rw [this, hmu, div_mul_cancel₀ _ hNN]; ring
  refine ⟨_, rfl, ?_, ⟨a, f, rfl, ⟨mu, rfl⟩, rfl⟩⟩
  rintro x y rfl ⟨t, rfl⟩
  -- Pythagoras
  have : normSq (sub (add b.sv (smul t b.dv)) x) =
      distSqPointPoint x f + (t - mu)^2 * normSq b.dv - 2 * (t - mu) * dot (sub x f) b.dv := by
    simp only [distSqPointPoint, normSq, hf, dot, sub, add, smul]; ring
  rw [this, hperp]
  nlinarith [sq_nonneg (t - mu), hN]

theorem distSqPointPlane_spec (a : V3) (b : Plane) (hb : b.WF) :
    ∃ d2, distSqPointPlane a b = .ok d2 ∧ IsMinDistSq d2 (· = a) b.den := by
  have hN := normSq_pos hb
  have hno : ¬ V3.orthogonal b.n b.n = true := by
    simp only [V3.orthogonal, beq_iff_eq]; intro h
    have : normSq b.n = 0 := h
    exact absurd this (ne_of_gt hN)
  have hnc : ¬ b.containsLine ⟨a, b.n⟩ = true := by
    unfold Plane.containsLine; rw [Bool.and_eq_true]; exact fun h => hno h.2
  unfold distSqPointPlane
  simp only [interLinePlane, hnc, hno, if_false, Bool.false_eq_true]
  set mu := (dot b.n b.p - dot b.n a) / dot b.n b.n with hmu
  set f := add a (smul mu b.n) with hf
  have hfin : b.den f := by
    simp only [Plane.den]
    have : dot b.n (sub f b.p) = dot b.n a - dot b.n b.p + mu * dot b.n b.n := by
      simp only [hf, dot, sub, add, smul]; ring
    have hNN : dot b.n b.n ≠ 0 := ne_of_gt hN
    rw [this, hmu, div_mul_cancel₀ _ hNN]; ring
  refine ⟨_, rfl, ?_, ⟨a, f, rfl, hfin, rfl⟩⟩
  rintro x y rfl hy
  simp only [Plane.den] at hy hfin
  -- (y - f) ⟂ n and (f - x) ∥ n
  have hyf : dot b.n (sub y f) = 0 := by
    have : dot b.n (sub y f) = dot b.n (sub y b.p) - dot b.n (sub f b.p) := by simp only [dot, sub]; ring
    rw [this, hy, hfin]; ring
  have : normSq (sub y x) = distSqPointPoint x f + normSq (sub y f) + 2 * mu * dot b.n (sub y f) := by
    simp only [distSqPointPoint, normSq, hf, dot, sub, add, smul]; ring
  rw [this, hyf]
  nlinarith [normSq_nonneg (sub y f)]

theorem cauchy_schwarz (u v : V3) : (dot u v)^2 ≤ normSq u * normSq v := by
  have := lagrange u v
  nlinarith [normSq_nonneg (cross u v)]

theorem distSqLineLine_skew_spec (a b : Line) (hpar : ¬ V3.parallel a.dv b.dv = true) :
    IsMinDistSq ((dot (sub b.sv a.sv) (cross a.dv b.dv))^2 / normSq (cross a.dv b.dv)) a.den b.den := by
  have hc : cross a.dv b.dv ≠ zero := cross_ne_zero_of_not_parallel hpar
  have hN := normSq_pos hc
  set c := cross a.dv b.dv with hcd
  set w := sub b.sv a.sv with hw
  constructor
  · rintro x y ⟨t, rfl⟩ ⟨u, rfl⟩
    rw [div_le_iff₀ hN]
    have e : dot (sub (add b.sv (smul u b.dv)) (add a.sv (smul t a.dv))) c = dot w c := by
      simp only [hcd, hw, dot, sub, add, smul, cross]; ring
    have := cauchy_schwarz (sub (add b.sv (smul u b.dv)) (add a.sv (smul t a.dv))) c
    rw [e] at this; linarith
  · -- feet of the common perpendicular
    refine ⟨add a.sv (smul (dot (cross w b.dv) c / normSq c) a.dv),
            add b.sv (smul (dot (cross w a.dv) c / normSq c) b.dv), ⟨_, rfl⟩, ⟨_, rfl⟩, ?_⟩
    have key : sub (add b.sv (smul (dot (cross w a.dv) c / normSq c) b.dv))
                   (add a.sv (smul (dot (cross w b.dv) c / normSq c) a.dv))
        = smul (dot w c / normSq c) c := by
      apply V3.ext' <;> simp only [sub, add, smul] <;> field_simp <;>
        simp only [hcd, hw, normSq, dot, cross, sub] <;> ring
    rw [key]
    have : normSq (smul (dot w c / normSq c) c) = (dot w c / normSq c)^2 * normSq c := by
      simp only [normSq, dot, smul]; ring
    rw [this]; field_simp

theorem normSq_sub_comm (x y : V3) : normSq (sub y x) = normSq (sub x y) := by
  simp only [normSq, dot, sub]; ring

theorem IsMinDistSq.symm {d2 : Rat} {A B : V3 → Prop} (h : IsMinDistSq d2 A B) : IsMinDistSq d2 B A := by
  obtain ⟨h1, x, y, hx, hy, he⟩ := h
  exact ⟨fun y' x' hy' hx' => by rw [normSq_sub_comm]; exact h1 x' y' hx' hy',
    y, x, hy, hx, by rw [normSq_sub_comm]; exact he⟩

theorem IsMinDistSq.nonneg {d2 : Rat} {A B : V3 → Prop} (h : IsMinDistSq d2 A B) : 0 ≤ d2 := by
  obtain ⟨_, x, y, _, _, he⟩ := h
  rw [← he]; exact normSq_nonneg _

/-- distance zero exactly when the sets meet -/
theorem IsMinDistSq.zero_iff {d2 : Rat} {A B : V3 → Prop} (h : IsMinDistSq d2 A B) :
    d2 = 0 ↔ ∃ x, A x ∧ B x := by
  obtain ⟨h1, x, y, hx, hy, he⟩ := h
  constructor
  · intro h0
    rw [h0] at he
    have : y = x := sub_eq_zero_iff.mp (normSq_eq_zero.mp he)
    exact ⟨x, hx, this ▸ hy⟩
  · rintro ⟨z, hz1, hz2⟩
    have := h1 z z hz1 hz2
    have h0 : normSq (sub z z) = 0 := by simp [normSq, dot, sub]
    rw [h0] at this
    have hnn : 0 ≤ d2 := by rw [← he]; exact normSq_nonneg _
    linarith

theorem distSqLineLine_spec (a b : Line) (ha : a.WF) (hb : b.WF) :
    ∃ d2, distSqLineLine a b = .ok d2 ∧ IsMinDistSq d2 a.den b.den := by
  unfold distSqLineLine
  by_cases hpar : V3.parallel a.dv b.dv = true
  · rw [if_pos hpar]
    obtain ⟨d2, hd, hmin, x0, y0, hx0, hy0, he⟩ := distSqPointLine_spec a.sv b hb
    refine ⟨d2, hd, ?_, ⟨a.sv, y0, ⟨0, by apply V3.ext' <;> simp [add, smul]⟩, hy0, by rw [← hx0]; exact he⟩⟩
    rw [parallel_iff_cross] at hpar
    obtain ⟨k, hk⟩ : ∃ k, a.dv = smul k b.dv := ⟨_, exists_smul_of_cross_zero hb hpar⟩
    rintro x y ⟨t, rfl⟩ ⟨u, rfl⟩
    have := hmin a.sv (add b.sv (smul (u - t * k) b.dv)) rfl ⟨_, rfl⟩
    have e : normSq (sub (add b.sv (smul u b.dv)) (add a.sv (smul t a.dv))) =
        normSq (sub (add b.sv (smul (u - t * k) b.dv)) a.sv) := by
      rw [hk]; simp only [normSq, dot, sub, add, smul]; ring
    rw [e]; exact this
  · rw [if_neg hpar]
    exact ⟨_, rfl, distSqLineLine_skew_spec a b hpar⟩

theorem distSqLinePlane_spec (a : Line) (b : Plane) (ha : a.WF) (hb : b.WF) :
    ∃ d2, distSqLinePlane a b = .ok d2 ∧ IsMinDistSq d2 a.den b.den := by
  unfold distSqLinePlane
  by_cases ho : V3.orthogonal a.dv b.n = true
  · rw [if_pos ho]
    obtain ⟨d2, hd, hmin, x0, y0, hx0, hy0, he⟩ := distSqPointPlane_spec a.sv b hb
    refine ⟨d2, hd, ?_, ⟨a.sv, y0, ⟨0, by apply V3.ext' <;> simp [add, smul]⟩, hy0, by rw [← hx0]; exact he⟩⟩
    simp only [V3.orthogonal, beq_iff_eq] at ho
    rintro x y ⟨t, rfl⟩ hy
    have hy' : b.den (sub y (smul t a.dv)) := by
      simp only [Plane.den] at hy ⊢
      have : dot b.n (sub (sub y (smul t a.dv)) b.p) = dot b.n (sub y b.p) - t * dot a.dv b.n := by
        simp only [dot, sub, smul]; ring
      rw [this, hy, ho]; ring
    have := hmin a.sv _ rfl hy'
    have e : normSq (sub y (add a.sv (smul t a.dv))) = normSq (sub (sub y (smul t a.dv)) a.sv) := by
      simp only [normSq, dot, sub, add, smul]; ring
    rw [e]; exact this
  · rw [if_neg ho]
    refine ⟨0, rfl, fun x y _ _ => normSq_nonneg _, ?_⟩
    -- the line meets the plane
    obtain ⟨o, ho', _, hden⟩ := interLinePlane_exact a b ha
    rcases interLinePlane_shape a b o ho' with rfl | ⟨q, rfl⟩ | ⟨_, hc⟩
    · exfalso
      unfold interLinePlane at ho'
      have hnc : ¬ b.containsLine a = true := by
        unfold Plane.containsLine; rw [Bool.and_eq_true]; exact fun h => ho h.2
      rw [if_neg hnc, if_neg ho] at ho'
      cases ho'
    · have := (hden q).mp rfl
      exact ⟨q, q, this.1, this.2, by simp [normSq, dot, sub]⟩
    · exfalso
      unfold Plane.containsLine at hc; rw [Bool.and_eq_true] at hc; exact ho hc.2
#print axioms distSqPointLine_spec
#print axioms distSqPointPlane_spec
#print axioms distSqLineLine_spec
#print axioms distSqLinePlane_spec
end G3D
