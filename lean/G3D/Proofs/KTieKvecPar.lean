import G3D.Extracted.Kvecr
import G3D.Proofs.VecRLemmas
import Mathlib.Analysis.Real.Sqrt
import Mathlib.Tactic.Ring
import Mathlib.Tactic.Linarith
import Mathlib.Tactic.FieldSimp
import Mathlib.Tactic.Positivity
/-! # kvec, `Vector.parallel` (with its shortcuts)  (C11, C19)
    `G3D.Extracted.impl_*` are regenerated on every run (tools/extract_kvecr.py, engine tools/kernels_engine.py): the REAL code is run on
    symbolic numbers, every comparison against the tolerance is recorded (operands and shape) and answered from a scripted
    path.  Each kernel has its own `section`: when the walk of ONE kernel fails the generated file holds only the marker
    `impl_<kernel>_EXTRACTION_FAILED` for it and exactly the theorems of that section stop compiling.
    (The ties of the group kvec are spread over five modules, one per property served: KTieKvecEq (C08), KTieKvecOrth (C11),
    KTieKvecLen (C06), KTieKvecPar (C11, C19; imported by the membership ties), KTieKvecAngle (C11).) -/
namespace G3D.KTie.Kvec
open G3D G3D.Extracted Real

section parallel
theorem parallel_tie (a b : RVec) :
    impl_parallel_residual a b = |RVec.dot a b| - √(RVec.normSq a) * √(RVec.normSq b) ∧
    impl_parallel_scale a b = √(RVec.normSq a) := by
  constructor
  · simp only [impl_parallel_residual, sum0]
    congr 2
    simp only [RVec.dot]; ring
  · simp only [impl_parallel_scale, sum0]

/-- the recorded residual vanishes iff equality holds in Cauchy–Schwarz (the model's `V3.parallel`) -/
theorem parallel_iff_sq (a b : RVec) :
    impl_parallel_residual a b = 0 ↔ (RVec.dot a b) ^ 2 = RVec.normSq a * RVec.normSq b := by
  rw [(parallel_tie a b).1, ← Real.sqrt_mul (nsq_nonneg a), sub_eq_zero]
  have hAB : 0 ≤ RVec.normSq a * RVec.normSq b := mul_nonneg (nsq_nonneg a) (nsq_nonneg b)
  constructor
  · intro h
    have := congrArg (· ^ 2) h
    simp only [sq_abs, Real.sq_sqrt hAB] at this
    exact this
  · intro h
    rw [← h, Real.sqrt_sq_eq_abs]

/-- Lagrange: the residual vanishes iff the cross product does -/
theorem parallel_iff_cross (a b : RVec) : impl_parallel_residual a b = 0 ↔ RVec.cross a b = RVec.zero := by
  rw [parallel_iff_sq, ← nsq_eq_zero, lagrangeR]
  constructor <;> intro h <;> linarith

/-- the right-hand side `eps * |a|` of the recorded test is a positive multiple of eps exactly when `a ≠ 0`
    (the zero vectors are taken out by the shortcuts before) -/
theorem parallel_scale_pos (a b : RVec) (h : a ≠ RVec.zero) : 0 < impl_parallel_scale a b := by
  rw [(parallel_tie a b).2]; exact Real.sqrt_pos.mpr (nsq_pos h)

theorem parallel_cast (a b : V3) : impl_parallel_residual a.toR b.toR = 0 ↔ V3.parallel a b = true := by
  rw [parallel_iff_sq, toR_dot, toR_normSq, toR_normSq]
  simp only [V3.parallel, beq_iff_eq]
  constructor
  · intro h; exact_mod_cast h
  · intro h; exact_mod_cast h

theorem parallel_shape_main :
    impl_parallel_shape = "abs(R) < (eps * S)" ∧ impl_parallel_path = [("abs(R) < eps", false), ("abs(R) < eps", false), ("abs(R) < eps", false), ("abs(R) < (eps * S)", true)] := by decide
end parallel

section parallelShortcuts
/-- the three shortcuts of `Vector.parallel` (self zero, other zero, equal) return True; read exactly they are
    `a = 0`, `b = 0`, `a = b`, and on each of them the model's test is true as well -/
theorem parallel_shortcuts (a b : V3) :
    ((impl_parallelSelfZero_residual0 a.toR b.toR = 0 ∧ impl_parallelSelfZero_residual1 a.toR b.toR = 0 ∧
        impl_parallelSelfZero_residual2 a.toR b.toR = 0) → V3.parallel a b = true) ∧
    ((impl_parallelOtherZero_residual0 a.toR b.toR = 0 ∧ impl_parallelOtherZero_residual1 a.toR b.toR = 0 ∧
        impl_parallelOtherZero_residual2 a.toR b.toR = 0) → V3.parallel a b = true) ∧
    ((impl_parallelEqual_residual0 a.toR b.toR = 0 ∧ impl_parallelEqual_residual1 a.toR b.toR = 0 ∧
        impl_parallelEqual_residual2 a.toR b.toR = 0) → V3.parallel a b = true) := by
  simp only [impl_parallelSelfZero_residual0, impl_parallelSelfZero_residual1, impl_parallelSelfZero_residual2,
    impl_parallelOtherZero_residual0, impl_parallelOtherZero_residual1, impl_parallelOtherZero_residual2,
    impl_parallelEqual_residual0, impl_parallelEqual_residual1, impl_parallelEqual_residual2,
    toR_x, toR_y, toR_z, sub_zero, Rat.cast_eq_zero, sub_eq_zero, Rat.cast_inj, V3.parallel, beq_iff_eq,
    V3.normSq, V3.dot]
  refine ⟨?_, ?_, ?_⟩
  · rintro ⟨h1, h2, h3⟩; rw [h1, h2, h3]; ring
  · rintro ⟨h1, h2, h3⟩; rw [h1, h2, h3]; ring
  · rintro ⟨h1, h2, h3⟩; rw [h1, h2, h3]; ring

theorem parallelShortcuts_paths :
    impl_parallelSelfZero_path = [("abs(R) < eps", true), ("abs(R) < eps", true), ("abs(R) < eps", true)] ∧
    impl_parallelOtherZero_path = [("abs(R) < eps", false), ("abs(R) < eps", true), ("abs(R) < eps", true), ("abs(R) < eps", true)] ∧
    impl_parallelEqual_path = [("abs(R) < eps", false), ("abs(R) < eps", false), ("abs(R) < eps", true), ("abs(R) < eps", true), ("abs(R) < eps", true)] := by decide
end parallelShortcuts

section combined
/-- (conjunction of `parallel_shape_main` and `parallelShortcuts_paths`, kept under its former name) -/
theorem parallel_shape :
    impl_parallel_shape = "abs(R) < (eps * S)" ∧
    impl_parallel_path = [("abs(R) < eps", false), ("abs(R) < eps", false), ("abs(R) < eps", false), ("abs(R) < (eps * S)", true)] ∧
    impl_parallelSelfZero_path = [("abs(R) < eps", true), ("abs(R) < eps", true), ("abs(R) < eps", true)] ∧
    impl_parallelOtherZero_path = [("abs(R) < eps", false), ("abs(R) < eps", true), ("abs(R) < eps", true), ("abs(R) < eps", true)] ∧
    impl_parallelEqual_path = [("abs(R) < eps", false), ("abs(R) < eps", false), ("abs(R) < eps", true), ("abs(R) < eps", true), ("abs(R) < eps", true)] :=
  ⟨parallel_shape_main.1, parallel_shape_main.2, parallelShortcuts_paths⟩
end combined

end G3D.KTie.Kvec
