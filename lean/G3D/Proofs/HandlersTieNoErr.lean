import G3D.Proofs.HandlersTieBase
import G3D.Proofs.InterFlat
/-! Which exceptions the flat handlers can raise — for ALL inputs (no well-formedness assumed).

    The hand-written model maps *any* exception of an inner flat call to "Bug detected" in a few loops
    (`lineEdgesLoop`, `edgeHits`, the loop of `interPlanePolyhedron`), whereas the code lets the inner exception
    propagate.  The lemmas below show that the two readings cannot be told apart: `inter_line_line` never raises,
    `Segment(p, q)` is never called with `p = q` on a collected point set, so the only exception that the collinear
    flat handlers can raise *is* "Bug detected". -/
set_option linter.unusedSimpArgs false
namespace G3D.Tie
open V3 PyRt

theorem parallel_zero_right (u : V3) : V3.parallel u zero = true := by
  simp [V3.parallel, dot, normSq, zero]

theorem parallel_zero_left (u : V3) : V3.parallel zero u = true := by
  simp [V3.parallel, dot, normSq, zero]

theorem Line.contains_of_dv_zero (l : Line) (h : l.dv = zero) (p : V3) : l.contains p = true := by
  unfold Line.contains; rw [h]; exact parallel_zero_right _

open Solver2 in
/-- `inter_line_line` never raises, whatever the two lines are (even with a zero direction vector) -/
theorem interLineLine_ne_error (l1 l2 : Line) (e : IErr) : interLineLine l1 l2 ≠ .error e := by
  by_cases h1 : l1.dv = zero
  · -- a degenerate first line "equals" every line
    have heq : l1.eqv l2 = true := by
      unfold Line.eqv
      rw [Line.contains_of_dv_zero l1 h1, h1, parallel_zero_right]; rfl
    unfold interLineLine; rw [if_pos heq]; intro h; cases h
  by_cases h2 : l2.dv = zero
  · unfold interLineLine
    by_cases heq : l1.eqv l2 = true
    · rw [if_pos heq]; intro h; cases h
    · rw [if_neg heq]
      have hu : Uniform (2+1) (lineLineMatrix l1 l2) := by
        intro r hr; simp only [lineLineMatrix, List.mem_cons, List.not_mem_nil, or_false] at hr
        rcases hr with rfl | rfl | rfl <;> rfl
      have hne : lineLineMatrix l1 l2 ≠ [] := by simp [lineLineMatrix]
      have hs : solvable (solve (lineLineMatrix l1 l2)) = false := by
        by_contra hs
        have hs' : solvable (solve (lineLineMatrix l1 l2)) = true := by simpa using hs
        obtain ⟨x, hx, hsat⟩ := (solvable_iff_consistent 2 _ hu hne).mp hs'
        match x, hx with
        | [a, b], _ =>
          have e := (lineLine_sat_iff l1 l2 a b).mp hsat
          apply heq
          unfold Line.eqv
          rw [Bool.and_eq_true]
          constructor
          · rw [Line.contains_iff l1 h1]
            refine ⟨a, ?_⟩
            rw [e, h2]
            apply V3.ext' <;> simp [add, smul, zero]
          · rw [h2]; exact parallel_zero_left _
      simp only [hs]; intro h; cases h
  · obtain ⟨o, ho, _⟩ := interLineLine_exact l1 l2 h1 h2
    rw [ho]; intro h; cases h

theorem interLineSeg_onlyBug (l : Line) (s : Seg) : OnlyBug (interLineSeg l s) := by
  intro e h
  unfold interLineSeg at h
  have := interLineLine_ne_error l s.line
  split at h <;> simp_all [interPointSeg]

theorem interLineHalfLine_onlyBug (l : Line) (hl : HalfLine) : OnlyBug (interLineHalfLine l hl) := by
  intro e h
  unfold interLineHalfLine at h
  have := interLineLine_ne_error l hl.line
  split at h <;> simp_all [interPointHalfLine]

theorem interLinePlane_ne_error (l : Line) (p : Plane) (e : IErr) : interLinePlane l p ≠ .error e := by
  unfold interLinePlane
  split
  · intro h; cases h
  · split <;> (intro h; cases h)

theorem interPlaneSeg_onlyBug (a : Plane) (s : Seg) : OnlyBug (interPlaneSeg a s) := by
  intro e h
  unfold interPlaneSeg at h
  have := interLinePlane_ne_error s.line a
  split at h <;> simp_all [interPointSeg]

theorem interPlaneHalfLine_onlyBug (a : Plane) (hl : HalfLine) : OnlyBug (interPlaneHalfLine a hl) := by
  intro e h
  unfold interPlaneHalfLine at h
  have := interLinePlane_ne_error hl.line a
  split at h <;> simp_all [interPointHalfLine]

theorem interPlanePlane_onlyBug (a b : Plane) : OnlyBug (interPlanePlane a b) := by
  intro e h
  unfold interPlanePlane at h
  split at h
  · cases h
  · split at h
    · cases h
    · simp only at h
      split at h <;> cases h
      rfl

/-! ### collected point sets are duplicate-free, so `Segment(p, q)` never sees `p = q` -/

theorem addNew_nodup {l : List V3} (h : l.Nodup) (p : V3) : (addNew l p).Nodup := by
  unfold addNew
  split
  · exact h
  · rename_i hp
    rw [List.nodup_append]
    refine ⟨h, by simp, ?_⟩
    intro a ha b hb
    simp only [List.mem_singleton] at hb
    subst hb
    intro hab; subst hab; exact hp ha

theorem ofPointSet_onlyBug {ps : List V3} (h : ps.Nodup) : OnlyBug (ofPointSet ps) := by
  intro e he
  unfold ofPointSet at he
  split at he
  · cases he
  · cases he
  · rename_i p q
    have hpq : p ≠ q := by
      intro hpq; subst hpq; simp at h
    simp [mkSeg, hpq, bind, Except.bind] at he
  · cases he; rfl

theorem ite_addNew_nodup {l : List V3} (h : l.Nodup) (c : Bool) (p : V3) : (if c = true then addNew l p else l).Nodup := by
  split
  · exact addNew_nodup h p
  · exact h

theorem crossing_onlyBug (l1 l2 : Line) (c : V3 → Bool) :
    OnlyBug (match interLineLine l1 l2 with
      | .ok none => .ok none
      | .ok (some (.point q)) => .ok (if c q then some (.point q) else none)
      | .ok _ => .error .bug
      | .error e => .error e) := by
  intro e h
  have := interLineLine_ne_error l1 l2
  split at h
  · cases h
  · cases h
  · cases h; rfl
  · rename_i e' he'; exact absurd he' (this e')

theorem interSegSeg_onlyBug (a b : Seg) : OnlyBug (interSegSeg a b) := by
  unfold interSegSeg
  split
  · exact ofPointSet_onlyBug (ite_addNew_nodup (ite_addNew_nodup (ite_addNew_nodup (ite_addNew_nodup List.nodup_nil _ _) _ _) _ _) _ _)
  · exact crossing_onlyBug _ _ _

theorem interSegHalfLine_onlyBug (a : Seg) (b : HalfLine) : OnlyBug (interSegHalfLine a b) := by
  unfold interSegHalfLine
  split
  · exact ofPointSet_onlyBug (ite_addNew_nodup (ite_addNew_nodup (ite_addNew_nodup List.nodup_nil _ _) _ _) _ _)
  · exact crossing_onlyBug _ _ _

theorem interHalfLineHalfLine_onlyBug (a b : HalfLine) : OnlyBug (interHalfLineHalfLine a b) := by
  unfold interHalfLineHalfLine
  split
  · split
    · intro e h; cases h
    · split
      · intro e h; cases h
      · exact ofPointSet_onlyBug (ite_addNew_nodup (ite_addNew_nodup List.nodup_nil _ _) _ _)
  · exact crossing_onlyBug _ _ _

#print axioms interLineLine_ne_error
#print axioms interSegSeg_onlyBug
end G3D.Tie
