import G3D.Extracted.Mflat
import G3D.Proofs.MethodsTieBase
/-! # Tie, group `mflat`, role MOVE (C07; `*_move_reject` C15): `move` of Line, Plane, Segment, HalfLine = `Model.Move` (receiver', returned).
    `*_raw` = exact behaviour incl. the exceptions of the re-run constructors, `*_eq` under well-formedness.  Conventions, trusted readings and the deviations found: `G3D.Proofs.MethodsTie`, header of `G3D.Model.PyRtM`. -/
set_option linter.unusedSimpArgs false
set_option linter.unusedVariables false
set_option linter.style.nameCheck false
set_option linter.unusedTactic false
set_option linter.unreachableTactic false
namespace G3D.Tie
open V3 PyRt Extracted

theorem m_Line_move_raw (l : Line) (v : V3) :
    m_Line_move (Self.ofLine l) (.vec v) =
      if l.dv = zero then .error (.ctor .value)
      else .ok (Self.ofLine (l.move v).1, .obj (lnObj (l.move v).2)) := by
  unfold m_Line_move
  msimp [Line.move, Line.mk?, add]
  by_cases h : l.dv = zero <;> simp [h]

theorem m_Plane_move_raw (a : Plane) (v : V3) :
    m_Plane_move (Self.ofPlane a) (.vec v) =
      if a.n = zero then .error (.ctor .zeroDiv) else .ok (Self.ofPlane (a.move v).1, .obj (plObj (a.move v).2)) := by
  unfold m_Plane_move
  msimp [Plane.ofPN, Plane.move]
  by_cases h : a.n = zero <;> simp [h]

theorem m_Segment_move_raw (s : Seg) (v : V3) :
    m_Segment_move (Self.ofSeg s) (.vec v) =
      if s.a = s.b then .error (.ctor .value) else .ok (Self.ofSeg (s.move v).1, .obj (sgObj (s.move v).2)) := by
  unfold m_Segment_move
  msimp [Seg.move, Seg.mk', Seg.mk?, Line.ofPoints?, Line.mk?, sub_add_add, sub_eq_zero_iff, add_right_inj']
  by_cases h : s.a = s.b
  · simp [h]
  · have h' : ¬ s.b = s.a := fun e => h e.symm
    simp [h, h']

theorem m_HalfLine_move_raw (h : HalfLine) (v : V3) :
    m_HalfLine_move (Self.ofHalfLine h) (.vec v) =
      if h.v = zero then .error (.ctor .value)
      else .ok (Self.ofHalfLine (h.move v).1, .obj (.flat (.halfline (h.move v).2))) := by
  unfold m_HalfLine_move
  msimp [HalfLine.move, HalfLine.mk', HalfLine.ofVec?, Line.mk?, normSq_eq_zero]
  by_cases hz : h.v = zero <;> simp [hz]

theorem m_Line_move_eq (l : Line) (v : V3) (h : l.WF) :
    m_Line_move (Self.ofLine l) (.vec v) = .ok (Self.ofLine (l.move v).1, .obj (lnObj (l.move v).2)) := by
  rw [m_Line_move_raw, if_neg h]

theorem m_Plane_move_eq (a : Plane) (v : V3) (h : a.WF) :
    m_Plane_move (Self.ofPlane a) (.vec v) = .ok (Self.ofPlane (a.move v).1, .obj (plObj (a.move v).2)) := by
  rw [m_Plane_move_raw, if_neg h]

theorem m_Segment_move_eq (s : Seg) (v : V3) (h : s.a ≠ s.b) :
    m_Segment_move (Self.ofSeg s) (.vec v) = .ok (Self.ofSeg (s.move v).1, .obj (sgObj (s.move v).2)) := by
  rw [m_Segment_move_raw, if_neg h]

theorem m_HalfLine_move_eq (h : HalfLine) (v : V3) (hh : h.v ≠ zero) :
    m_HalfLine_move (Self.ofHalfLine h) (.vec v) = .ok (Self.ofHalfLine (h.move v).1, .obj (.flat (.halfline (h.move v).2))) := by
  rw [m_HalfLine_move_raw, if_neg hh]

theorem m_Line_move_reject (self : Self) (o : Obj) : m_Line_move self (.obj o) = .error .notImpl := by
  unfold m_Line_move; simp [pyrt]

theorem m_Plane_move_reject (self : Self) (o : Obj) : m_Plane_move self (.obj o) = .error .notImpl := by
  unfold m_Plane_move; simp [pyrt]

theorem m_Segment_move_reject (self : Self) (o : Obj) : m_Segment_move self (.obj o) = .error .notImpl := by
  unfold m_Segment_move; simp [pyrt]

theorem m_HalfLine_move_reject (self : Self) (o : Obj) : m_HalfLine_move self (.obj o) = .error .notImpl := by
  unfold m_HalfLine_move; simp [pyrt]

end G3D.Tie
