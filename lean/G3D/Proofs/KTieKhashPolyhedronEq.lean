import G3D.Proofs.KTieKhashPolyhedron
import G3D.Proofs.KTieKhashPolygonEq
/-! # khash, `ConvexPolyhedron.__hash__` end to end: the extracted hash is the model's hash-sum tuple; equal polyhedra hash equal  (C08)
    Imports the polygon end-to-end tie (and through it the Plane tie): the polyhedron hash delegates to `ConvexPolygon.__hash__`.
    Exact reading of the comparisons (`sigE`, `negE`); for all H, rnd, rndI.  Shapes walked: tetrahedron (4 triangles, 4 vertices),
    square pyramid (1 quadrilateral + 4 triangles, 5 vertices). -/
namespace G3D.KTie.Khash
open G3D G3D.Extracted G3D.KTie

/-- the abstract polyhedron hash only looks at the face hash on the listed faces -/
theorem polyhedronHashAbs_congr (H : HFun) (rndI : Int → Int) (hP : RVec → Int) (hF hF' : List RVec → RVec → RVec → Int)
    (faces : List (List RVec × RVec × RVec)) (verts : List RVec) (h : ∀ f ∈ faces, hF f.1 f.2.1 f.2.2 = hF' f.1 f.2.1 f.2.2) :
    polyhedronHashAbs H rndI hP hF faces verts = polyhedronHashAbs H rndI hP hF' faces verts := by
  unfold polyhedronHashAbs
  rw [List.map_congr_left h]

section hash_ConvexPolyhedron_tetra
theorem implFace3_ref (H : HFun) (rnd : ℝ → ℝ) (rndI : Int → Int) (pts : List RVec) (pp pn : RVec) (h : pts.length = 3) :
    implFace3 H rnd rndI sigE negE pts pp pn = polygonHashRef H rnd rndI pts pp pn := by
  obtain ⟨a, b, c, rfl⟩ := List.length_eq_three.mp h
  exact hash_ConvexPolygon3_ref H rnd rndI a b c pp pn

/-- a model polyhedron of the walked shape: four triangular faces, four listed vertices -/
structure IsTetra (B : Polyhedron) where
  (f0 f1 f2 f3 : Polygon)
  (a0 b0 c0 a1 b1 c1 a2 b2 c2 a3 b3 c3 v0 v1 v2 v3 : V3)
  hf : B.faces = [f0, f1, f2, f3]
  h0 : f0.pts = [a0, b0, c0]
  h1 : f1.pts = [a1, b1, c1]
  h2 : f2.pts = [a2, b2, c2]
  h3 : f3.pts = [a3, b3, c3]
  hv : B.verts = [v0, v1, v2, v3]

/-- the EXTRACTED `ConvexPolyhedron.__hash__` applied to the attributes of such a polyhedron (stored unit normals) -/
noncomputable def IsTetra.hash {B : Polyhedron} (t : IsTetra B) (H : HFun) (rnd : ℝ → ℝ) (rndI : Int → Int) : Int :=
  impl_hash_ConvexPolyhedron_tetra H rnd rndI sigE negE
    t.a0.toR t.b0.toR t.c0.toR t.f0.plane.p.toR (unitR t.f0.plane.n.toR)
    t.a1.toR t.b1.toR t.c1.toR t.f1.plane.p.toR (unitR t.f1.plane.n.toR)
    t.a2.toR t.b2.toR t.c2.toR t.f2.plane.p.toR (unitR t.f2.plane.n.toR)
    t.a3.toR t.b3.toR t.c3.toR t.f3.plane.p.toR (unitR t.f3.plane.n.toR)
    t.v0.toR t.v1.toR t.v2.toR t.v3.toR

/-- **the extracted hash of a tetrahedron is `hBody` of the model's `Polyhedron.hashTupleAbs`** instantiated with the extracted
    point hash, the plane-pair hash of the canonical plane key and the polygon tuple hash -/
theorem hash_ConvexPolyhedron_tetra_tuple_partial (H : HFun) (rnd : ℝ → ℝ) (rndI : Int → Int) {B : Polyhedron} (t : IsTetra B)
    (hw : ∀ f ∈ B.faces, f.plane.WF) :
    t.hash H rnd rndI = hBody H rndI (B.hashTupleAbs (hPt H rnd) (hPlanePair H rnd) (hFace H rndI)) := by
  have hfaces : [([t.a0.toR, t.b0.toR, t.c0.toR], t.f0.plane.p.toR, unitR t.f0.plane.n.toR),
      ([t.a1.toR, t.b1.toR, t.c1.toR], t.f1.plane.p.toR, unitR t.f1.plane.n.toR),
      ([t.a2.toR, t.b2.toR, t.c2.toR], t.f2.plane.p.toR, unitR t.f2.plane.n.toR),
      ([t.a3.toR, t.b3.toR, t.c3.toR], t.f3.plane.p.toR, unitR t.f3.plane.n.toR)] = B.faces.map faceAttrs := by
    simp only [t.hf, List.map, faceAttrs, t.h0, t.h1, t.h2, t.h3]
  have hverts : [t.v0.toR, t.v1.toR, t.v2.toR, t.v3.toR] = B.verts.map V3.toR := by simp only [t.hv, List.map]
  have h3 : ∀ f ∈ B.faces.map faceAttrs, implFace3 H rnd rndI sigE negE f.1 f.2.1 f.2.2 = polygonHashRef H rnd rndI f.1 f.2.1 f.2.2 := by
    intro f hf
    apply implFace3_ref
    rw [← hfaces] at hf
    simp only [List.mem_cons, List.not_mem_nil, or_false] at hf
    rcases hf with rfl | rfl | rfl | rfl <;> rfl
  unfold IsTetra.hash
  rw [hash_ConvexPolyhedron_tetra_shape, hfaces, hverts, implPoint_eq_ref, polyhedronHashAbs_congr _ _ _ _ _ _ _ h3]
  exact polyhedronHashRef_tuple H rnd rndI B hw

/-- **EQUAL TETRAHEDRA HAVE EQUAL EXTRACTED HASHES** (same vertex set, same face set; any face order, any vertex order inside a
    face, either orientation of a face plane), for every H, rnd, rndI -/
theorem hash_ConvexPolyhedron_tetra_eq_of_sameB_partial (H : HFun) (rnd : ℝ → ℝ) (rndI : Int → Int) {A B : Polyhedron}
    (tA : IsTetra A) (tB : IsTetra B) (hAf : ∀ f ∈ A.faces, f.Valid) (hBf : ∀ f ∈ B.faces, f.Valid)
    (hAd : A.faces.Pairwise (fun f g => ¬ f.same g = true)) (hBd : B.faces.Pairwise (fun f g => ¬ f.same g = true))
    (hAv : A.verts.Nodup) (hBv : B.verts.Nodup) (hs : A.sameB B = true) :
    tA.hash H rnd rndI = tB.hash H rnd rndI := by
  rw [hash_ConvexPolyhedron_tetra_tuple_partial H rnd rndI tA (fun f hf => Polygon.plane_WF f (hAf f hf)),
    hash_ConvexPolyhedron_tetra_tuple_partial H rnd rndI tB (fun f hf => Polygon.plane_WF f (hBf f hf)),
    Polyhedron.hashTupleAbs_eq_of_sameB _ _ _ hAf hBf hAd hBd hAv hBv hs]

/-! non-vacuity: the unit corner tetrahedron 0, e1, e2, e3 (outward normals) with its faces and vertices listed in two different
    ways (other face order, other start vertices, rescaled normals, other plane points) -/
def t0 : V3 := ⟨0,0,0⟩
def t1 : V3 := ⟨1,0,0⟩
def t2 : V3 := ⟨0,1,0⟩
def t3 : V3 := ⟨0,0,1⟩
def fA0 : Polygon := ⟨[t0, t2, t1], ⟨t0, ⟨0,0,-1⟩⟩, t0⟩
def fA1 : Polygon := ⟨[t0, t1, t3], ⟨t0, ⟨0,-1,0⟩⟩, t0⟩
def fA2 : Polygon := ⟨[t0, t3, t2], ⟨t0, ⟨-1,0,0⟩⟩, t0⟩
def fA3 : Polygon := ⟨[t1, t2, t3], ⟨t1, ⟨1,1,1⟩⟩, t0⟩
def fB0 : Polygon := ⟨[t2, t3, t1], ⟨t2, ⟨2,2,2⟩⟩, t0⟩
def fB1 : Polygon := ⟨[t2, t1, t0], ⟨t2, ⟨0,0,-3⟩⟩, t0⟩
def fB2 : Polygon := ⟨[t3, t2, t0], ⟨t3, ⟨-1,0,0⟩⟩, t0⟩
def fB3 : Polygon := ⟨[t1, t3, t0], ⟨t1, ⟨0,-5,0⟩⟩, t0⟩
def exA : Polyhedron := ⟨[fA0, fA1, fA2, fA3], [t0, t1, t2, t3], [], [], t0⟩
def exB : Polyhedron := ⟨[fB0, fB1, fB2, fB3], [t3, t2, t1, t0], [], [], t0⟩
def tetA : IsTetra exA :=
  ⟨fA0, fA1, fA2, fA3, t0, t2, t1, t0, t1, t3, t0, t3, t2, t1, t2, t3, t0, t1, t2, t3, rfl, rfl, rfl, rfl, rfl, rfl⟩
def tetB : IsTetra exB :=
  ⟨fB0, fB1, fB2, fB3, t2, t3, t1, t2, t1, t0, t3, t2, t0, t1, t3, t0, t3, t2, t1, t0, rfl, rfl, rfl, rfl, rfl, rfl⟩

theorem exA_valid : ∀ f ∈ exA.faces, f.Valid := by
  intro f hf
  simp only [exA, List.mem_cons, List.not_mem_nil, or_false] at hf
  rcases hf with rfl | rfl | rfl | rfl <;> exact Polygon.valid_of_polygonValidB _ rfl (by decide +kernel)

theorem exB_valid : ∀ f ∈ exB.faces, f.Valid := by
  intro f hf
  simp only [exB, List.mem_cons, List.not_mem_nil, or_false] at hf
  rcases hf with rfl | rfl | rfl | rfl <;> exact Polygon.valid_of_polygonValidB _ rfl (by decide +kernel)

theorem hash_ConvexPolyhedron_tetra_example (H : HFun) (rnd : ℝ → ℝ) (rndI : Int → Int) :
    tetA.hash H rnd rndI = tetB.hash H rnd rndI :=
  hash_ConvexPolyhedron_tetra_eq_of_sameB_partial H rnd rndI tetA tetB exA_valid exB_valid (by decide +kernel) (by decide +kernel)
    (by decide +kernel) (by decide +kernel) (by decide +kernel)
end hash_ConvexPolyhedron_tetra

section hash_ConvexPolyhedron_pyramid
theorem implFace34_ref (H : HFun) (rnd : ℝ → ℝ) (rndI : Int → Int) (pts : List RVec) (pp pn : RVec)
    (h : pts.length = 3 ∨ pts.length = 4) :
    implFace34 H rnd rndI sigE negE pts pp pn = polygonHashRef H rnd rndI pts pp pn := by
  rcases h with h | h
  · obtain ⟨a, b, c, rfl⟩ := List.length_eq_three.mp h
    exact hash_ConvexPolygon3_ref H rnd rndI a b c pp pn
  · match pts, h with
    | [a, b, c, d], _ => exact hash_ConvexPolygon4_ref H rnd rndI a b c d pp pn

/-- a model polyhedron of the walked shape: one quadrilateral and four triangular faces, five listed vertices -/
structure IsPyramid (B : Polyhedron) where
  (f0 f1 f2 f3 f4 : Polygon)
  (a0 b0 c0 d0 a1 b1 c1 a2 b2 c2 a3 b3 c3 a4 b4 c4 v0 v1 v2 v3 v4 : V3)
  hf : B.faces = [f0, f1, f2, f3, f4]
  h0 : f0.pts = [a0, b0, c0, d0]
  h1 : f1.pts = [a1, b1, c1]
  h2 : f2.pts = [a2, b2, c2]
  h3 : f3.pts = [a3, b3, c3]
  h4 : f4.pts = [a4, b4, c4]
  hv : B.verts = [v0, v1, v2, v3, v4]

noncomputable def IsPyramid.hash {B : Polyhedron} (t : IsPyramid B) (H : HFun) (rnd : ℝ → ℝ) (rndI : Int → Int) : Int :=
  impl_hash_ConvexPolyhedron_pyramid H rnd rndI sigE negE
    t.a0.toR t.b0.toR t.c0.toR t.d0.toR t.f0.plane.p.toR (unitR t.f0.plane.n.toR)
    t.a1.toR t.b1.toR t.c1.toR t.f1.plane.p.toR (unitR t.f1.plane.n.toR)
    t.a2.toR t.b2.toR t.c2.toR t.f2.plane.p.toR (unitR t.f2.plane.n.toR)
    t.a3.toR t.b3.toR t.c3.toR t.f3.plane.p.toR (unitR t.f3.plane.n.toR)
    t.a4.toR t.b4.toR t.c4.toR t.f4.plane.p.toR (unitR t.f4.plane.n.toR)
    t.v0.toR t.v1.toR t.v2.toR t.v3.toR t.v4.toR

theorem hash_ConvexPolyhedron_pyramid_tuple_partial (H : HFun) (rnd : ℝ → ℝ) (rndI : Int → Int) {B : Polyhedron} (t : IsPyramid B)
    (hw : ∀ f ∈ B.faces, f.plane.WF) :
    t.hash H rnd rndI = hBody H rndI (B.hashTupleAbs (hPt H rnd) (hPlanePair H rnd) (hFace H rndI)) := by
  have hfaces : [([t.a0.toR, t.b0.toR, t.c0.toR, t.d0.toR], t.f0.plane.p.toR, unitR t.f0.plane.n.toR),
      ([t.a1.toR, t.b1.toR, t.c1.toR], t.f1.plane.p.toR, unitR t.f1.plane.n.toR),
      ([t.a2.toR, t.b2.toR, t.c2.toR], t.f2.plane.p.toR, unitR t.f2.plane.n.toR),
      ([t.a3.toR, t.b3.toR, t.c3.toR], t.f3.plane.p.toR, unitR t.f3.plane.n.toR),
      ([t.a4.toR, t.b4.toR, t.c4.toR], t.f4.plane.p.toR, unitR t.f4.plane.n.toR)] = B.faces.map faceAttrs := by
    simp only [t.hf, List.map, faceAttrs, t.h0, t.h1, t.h2, t.h3, t.h4]
  have hverts : [t.v0.toR, t.v1.toR, t.v2.toR, t.v3.toR, t.v4.toR] = B.verts.map V3.toR := by simp only [t.hv, List.map]
  have h34 : ∀ f ∈ B.faces.map faceAttrs, implFace34 H rnd rndI sigE negE f.1 f.2.1 f.2.2 = polygonHashRef H rnd rndI f.1 f.2.1 f.2.2 := by
    intro f hf
    apply implFace34_ref
    rw [← hfaces] at hf
    simp only [List.mem_cons, List.not_mem_nil, or_false] at hf
    rcases hf with rfl | rfl | rfl | rfl | rfl
    · right; rfl
    all_goals (left; rfl)
  unfold IsPyramid.hash
  rw [hash_ConvexPolyhedron_pyramid_shape, hfaces, hverts, implPoint_eq_ref, polyhedronHashAbs_congr _ _ _ _ _ _ _ h34]
  exact polyhedronHashRef_tuple H rnd rndI B hw

/-- **EQUAL SQUARE PYRAMIDS HAVE EQUAL EXTRACTED HASHES**, for every H, rnd, rndI -/
theorem hash_ConvexPolyhedron_pyramid_eq_of_sameB_partial (H : HFun) (rnd : ℝ → ℝ) (rndI : Int → Int) {A B : Polyhedron}
    (tA : IsPyramid A) (tB : IsPyramid B) (hAf : ∀ f ∈ A.faces, f.Valid) (hBf : ∀ f ∈ B.faces, f.Valid)
    (hAd : A.faces.Pairwise (fun f g => ¬ f.same g = true)) (hBd : B.faces.Pairwise (fun f g => ¬ f.same g = true))
    (hAv : A.verts.Nodup) (hBv : B.verts.Nodup) (hs : A.sameB B = true) :
    tA.hash H rnd rndI = tB.hash H rnd rndI := by
  rw [hash_ConvexPolyhedron_pyramid_tuple_partial H rnd rndI tA (fun f hf => Polygon.plane_WF f (hAf f hf)),
    hash_ConvexPolyhedron_pyramid_tuple_partial H rnd rndI tB (fun f hf => Polygon.plane_WF f (hBf f hf)),
    Polyhedron.hashTupleAbs_eq_of_sameB _ _ _ hAf hBf hAd hBd hAv hBv hs]
end hash_ConvexPolyhedron_pyramid

#print axioms hash_ConvexPolyhedron_tetra_tuple_partial
#print axioms hash_ConvexPolyhedron_tetra_eq_of_sameB_partial
#print axioms hash_ConvexPolyhedron_pyramid_eq_of_sameB_partial
end G3D.KTie.Khash
