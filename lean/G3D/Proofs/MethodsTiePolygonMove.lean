import G3D.Extracted.Mpolygon
import G3D.Proofs.MethodsTiePolygonShared
import G3D.Proofs.MethodsTiePolygonCenter
/-! # Tie, group `mpolygon`, role MOVE (C07; `*_move_reject` C15): `move` = `Polygon.move`, unconditional.
    Imports `MethodsTiePolygonCenter` (`move` calls `_get_center_point`).  Conventions, trusted readings and the deviations found: `G3D.Proofs.MethodsTie`, header of `G3D.Model.PyRtM`. -/
set_option linter.unusedSimpArgs false
set_option linter.unusedVariables false
set_option linter.style.nameCheck false
set_option linter.unusedTactic false
set_option linter.unreachableTactic false
namespace G3D.Tie
open V3 PyRt Extracted

theorem m_ConvexPolygon_move_eq (P : Polygon) (v : V3) :
    m_ConvexPolygon_move (Self.ofPolygon P) (.vec v) =
      match P.move v with
      | (P', .ok R) => .ok (Self.ofPolygon P', .obj (.polygon R))
      | (_, .error e) => .error (.ctor e) := by
  unfold m_ConvexPolygon_move
  simp only [Self.ofPolygon, pyrt, pyFld, Val.ptSeq, List.map_map, decide_true, if_true]
  rw [show pyListLit [] = .ok ((fun l : List V3 => Val.seq (l.map ptObj)) []) from rfl]
  simp only [pyrt]
  rw [forIn_repr (Val.obj ∘ ptObj) (fun l : List V3 => Val.seq (l.map ptObj)) P.pts _
    (fun p acc => .ok (.yield (acc ++ [add p v])))]
  · rw [forIn_yield P.pts (fun acc p => acc ++ [add p v]), foldl_snoc_map]
    simp only [pyrt, List.nil_append, Polygon.move, Point.move]
    generalize P.pts.map (fun p => add p v) = pts'
    match pts' with
    | [] => simp [pyIndexM, pyIndex, normIdx]
    | [a] => simp [pyIndexM, pyIndex, normIdx]
    | [a, b] => simp [pyIndexM, pyIndex, normIdx]
    | p0 :: p1 :: p2 :: rest =>
      simp only [pyrt, pyPlane3, ptObj, Plane.ofPoints]
      by_cases hn0 : cross (sub p1 p0) (sub p2 p0) = zero
      · simp [hn0, ofCtor]
      simp only [hn0, if_false, ofCtor, plObj, pyrt]
      rw [m_ConvexPolygon__get_center_point_eq _ (p0 :: p1 :: p2 :: rest) rfl]
      simp only [List.cons_ne_nil, reduceCtorEq, if_false, pyrt]
      cases Polygon.mk? (p0 :: p1 :: p2 :: rest) <;> simp [liftC, planeOf3, Val.ptSeq, ptObj, plObj]
  · intro p _ acc
    simp [Function.comp, ptObj, pyMoveRet, Point.move, pyListAppend, ForInStep.map']

/-- `move` rejects a non-Vector argument (C15) -/
theorem m_ConvexPolygon_move_reject (self : Self) (o : Obj) : m_ConvexPolygon_move self (.obj o) = .error .notImpl := by
  unfold m_ConvexPolygon_move; simp [pyrt]

end G3D.Tie
