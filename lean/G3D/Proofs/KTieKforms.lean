import G3D.Extracted.Kforms
import G3D.Model.PlaneForms
import G3D.Model.Flat
import G3D.Proofs.Vec
/-! # kforms, plane forms: `Plane.general_form`, `Plane.point_normal`  (C17)
    `G3D.Extracted.impl_*` are regenerated on every run (tools/extract_kforms.py, engine tools/kernels_engine.py): the REAL code is run on
    symbolic numbers, every comparison against the tolerance is recorded (operands and shape) and answered from a scripted
    path.  Each kernel has its own `section`: when the walk of ONE kernel fails the generated file holds only the marker
    `impl_<kernel>_EXTRACTION_FAILED` for it and exactly the theorems of that section stop compiling.
    (the Line forms are in KTieKformsLine, the pins of the Line constructor in KTieKformsCtor) -/
namespace G3D.KTie.Kforms
open G3D V3 G3D.Extracted

section generalForm
theorem generalForm_tie (P : Plane) :
    (impl_generalForm_a P.p P.n, impl_generalForm_b P.p P.n, impl_generalForm_c P.p P.n, impl_generalForm_d P.p P.n)
      = P.generalForm := by
  simp only [Plane.generalForm, impl_generalForm_a, impl_generalForm_b, impl_generalForm_c, impl_generalForm_d,
    Prod.mk.injEq, true_and, dot]
  ring
end generalForm

section pointNormal
theorem pointNormal_tie (P : Plane) : impl_pointNormal_p P.p P.n = P.p ∧ impl_pointNormal_n P.p P.n = P.n := ⟨rfl, rfl⟩
end pointNormal

end G3D.KTie.Kforms
