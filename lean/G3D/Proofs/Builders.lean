import G3D.Model.Builders
import G3D.Proofs.Volume
import G3D.Proofs.Angle
import G3D.Model.Judge
import Mathlib.Data.Finset.Card
import Mathlib.Algebra.BigOperators.Group.Finset.Basic

/-! C14: shape builders.
    1. combinatorial skeletons: soundness of the bit-set checkers (1a), the count / Euler / closedness tables by
       kernel evaluation for n = 3..24, n1 = 3..12, n2 = 2..5 (1b), transfer to `ClosedSurface` for every placement
       of the ids in space (1c), structure of the skeletons (1d) and the Cone / Cylinder results for EVERY n ≥ 3
       (1e–1g: oriented closedness, V, E, F, Euler);
    2. frame selection of `get_circle_point_list`;
    3. exact coordinates, validity, area and volume of Parallelogram / Parallelepiped. -/
namespace G3D
namespace Builders
open V3

/-! ## 1a. bit sets -/

@[simp] theorem force_eq {β : Type} (x : Nat) (f : Nat → β) : force x f = f x := by
  unfold force; cases x <;> rfl

theorem testBit_setBit (s k j : Nat) : (setBit s k).testBit j = (s.testBit j || decide (k = j)) := by
  unfold setBit
  rw [Nat.testBit_or, Nat.one_shiftLeft, Nat.testBit_two_pow]

theorem allDistinctGo_sound : ∀ (ks : List Nat) (s : Nat), allDistinctGo ks s = true →
    ks.Nodup ∧ ∀ k ∈ ks, s.testBit k = false := by
  intro ks
  induction ks with
  | nil => intro s _; simp
  | cons k ks ih =>
    intro s h
    unfold allDistinctGo at h
    cases hk : s.testBit k with
    | true => rw [hk] at h; simp at h
    | false =>
      rw [hk] at h
      simp only [force_eq] at h
      obtain ⟨hnd, hfree⟩ := ih _ h
      have hnot : k ∉ ks := by
        intro hmem
        have := hfree k hmem
        rw [testBit_setBit] at this
        simp at this
      refine ⟨List.nodup_cons.mpr ⟨hnot, hnd⟩, ?_⟩
      intro j hj
      rcases List.mem_cons.mp hj with rfl | hj
      · exact hk
      · have := hfree j hj
        rw [testBit_setBit] at this
        simp only [Bool.or_eq_false_iff] at this
        exact this.1

/-! ### `dedup` -/
theorem mem_dedup {α : Type} [DecidableEq α] (l : List α) (a : α) : a ∈ dedup l ↔ a ∈ l := by
  induction l with
  | nil => simp [dedup]
  | cons b l ih =>
    simp only [dedup, List.mem_cons, List.mem_filter, ih, decide_eq_true_eq]
    constructor
    · rintro (h | ⟨h, _⟩)
      · exact Or.inl h
      · exact Or.inr h
    · rintro (h | h)
      · exact Or.inl h
      · by_cases hab : a = b
        · exact Or.inl hab
        · exact Or.inr ⟨h, hab⟩

theorem nodup_dedup {α : Type} [DecidableEq α] (l : List α) : (dedup l).Nodup := by
  induction l with
  | nil => simp [dedup]
  | cons b l ih =>
    simp only [dedup, List.nodup_cons, List.mem_filter, decide_eq_true_eq]
    exact ⟨fun h => h.2 rfl, ih.filter _⟩

theorem dedup_filter {α : Type} [DecidableEq α] (p : α → Bool) (l : List α) :
    dedup (l.filter p) = (dedup l).filter p := by
  induction l with
  | nil => simp [dedup]
  | cons b l ih =>
    by_cases hb : p b = true
    · rw [List.filter_cons_of_pos hb]
      simp only [dedup]
      rw [List.filter_cons_of_pos hb, ih, List.filter_filter, List.filter_filter]
      congr 1
      apply List.filter_congr
      intro x _
      exact Bool.and_comm _ _
    · rw [List.filter_cons_of_neg hb]
      simp only [dedup]
      rw [List.filter_cons_of_neg hb, ih, List.filter_filter]
      apply List.filter_congr
      intro x _
      by_cases hx : x = b
      · subst hx; simp [hb]
      · simp [hx]

/-- injective (on the list) relabelling commutes with `dedup` -/
theorem dedup_map_injOn {α β : Type} [DecidableEq α] [DecidableEq β] (f : α → β) (l : List α)
    (hinj : ∀ a ∈ l, ∀ b ∈ l, f a = f b → a = b) : dedup (l.map f) = (dedup l).map f := by
  induction l with
  | nil => simp [dedup]
  | cons a l ih =>
    have ih' := ih (fun x hx y hy => hinj x (List.mem_cons_of_mem _ hx) y (List.mem_cons_of_mem _ hy))
    simp only [List.map_cons, dedup, ih', List.filter_map]
    congr 2
    apply List.filter_congr
    intro x hx
    have hxl : x ∈ l := (mem_dedup l x).mp hx
    simp only [Function.comp, decide_eq_decide]
    constructor
    · intro h hxa; exact h (by rw [hxa])
    · intro h hfx
      exact h (hinj x (List.mem_cons_of_mem _ hxl) a (List.mem_cons_self) hfx)

theorem distinctGo_spec : ∀ (ks : List Nat) (s c : Nat),
    distinctGo ks s c = c + (dedup (ks.filter (fun k => !s.testBit k))).length := by
  intro ks
  induction ks with
  | nil => intro s c; simp [distinctGo, dedup]
  | cons k ks ih =>
    intro s c
    unfold distinctGo
    cases hk : s.testBit k with
    | true =>
      simp only []
      rw [ih, List.filter_cons_of_neg (by simp [hk])]
    | false =>
      simp only [force_eq]
      rw [ih, List.filter_cons_of_pos (by simp [hk])]
      simp only [dedup, List.length_cons]
      rw [← dedup_filter, List.filter_filter]
      have : ks.filter (fun k_1 => !(setBit s k).testBit k_1) =
          ks.filter (fun a => decide (a ≠ k) && !s.testBit a) := by
        apply List.filter_congr
        intro x _
        rw [testBit_setBit]
        by_cases hx : x = k
        · subst hx; simp
        · have : ¬ k = x := fun h => hx h.symm
          simp [hx, this]
      rw [this]; omega

theorem vertexCountFast_eq (fs : List Face) : vertexCountFast fs = vertexCount fs := by
  unfold vertexCountFast vertexCount
  rw [distinctGo_spec]
  simp only [Nat.zero_testBit, Bool.not_false, List.filter_true, Nat.zero_add]

/-! ### keys -/
theorem key_inj {m a b a' b' : Nat} (hb : b < m) (hb' : b' < m) (h : a * m + b = a' * m + b') :
    a = a' ∧ b = b' := by
  have hm : 0 < m := by omega
  have h1 : (a * m + b) / m = a := by
    rw [Nat.add_comm, Nat.add_mul_div_right _ _ hm, Nat.div_eq_of_lt hb]; omega
  have h2 : (a' * m + b') / m = a' := by
    rw [Nat.add_comm, Nat.add_mul_div_right _ _ hm, Nat.div_eq_of_lt hb']; omega
  have ha : a = a' := by rw [← h1, ← h2, h]
  subst ha
  exact ⟨rfl, by omega⟩

theorem dirKey_inj {m : Nat} {e e' : Nat × Nat} (he : e.2 < m) (he' : e'.2 < m)
    (h : dirKey m e = dirKey m e') : e = e' := by
  unfold dirKey at h
  obtain ⟨h1, h2⟩ := key_inj he he' h
  exact Prod.ext h1 h2

theorem edgeKey_eq (m : Nat) (e : Nat × Nat) : edgeKey m e = dirKey m (normEdge e) := by
  unfold edgeKey normEdge dirKey
  split <;> rfl

theorem consecG_mem {α : Type} : ∀ (l : List α) (e : α × α), e ∈ consecG l → e.1 ∈ l ∧ e.2 ∈ l := by
  intro l
  induction l with
  | nil => intro e h; simp [consecG] at h
  | cons a l ih =>
    cases l with
    | nil => intro e h; simp [consecG] at h
    | cons b l =>
      intro e h
      simp only [consecG, List.mem_cons] at h
      rcases h with rfl | h
      · simp
      · have := ih e (by simpa using h)
        exact ⟨List.mem_cons_of_mem _ this.1, List.mem_cons_of_mem _ this.2⟩

theorem cyc_mem {α : Type} (l : List α) (e : α × α) (h : e ∈ cyc l) : e.1 ∈ l ∧ e.2 ∈ l := by
  cases l with
  | nil => simp [cyc] at h
  | cons p ps =>
    have := consecG_mem _ e h
    simp only [List.mem_cons, List.mem_append, List.not_mem_nil, or_false] at this ⊢
    constructor
    · rcases this.1 with h | h
      · exact h
      · exact Or.inl h
    · rcases this.2 with h | h
      · exact h
      · exact Or.inl h

theorem bounded_spec {m : Nat} {fs : List Face} (h : boundedB m fs = true) :
    ∀ f ∈ fs, ∀ v ∈ f, v < m := by
  unfold boundedB at h
  simp only [List.all_eq_true, Nat.blt_eq] at h
  exact h

theorem dirEdges_bounded {m : Nat} {fs : List Face} (h : boundedB m fs = true) :
    ∀ e ∈ dirEdges fs, e.1 < m ∧ e.2 < m := by
  intro e he
  unfold dirEdges at he
  obtain ⟨f, hf, hef⟩ := List.mem_flatMap.mp he
  have := cyc_mem f e hef
  exact ⟨bounded_spec h f hf _ this.1, bounded_spec h f hf _ this.2⟩

theorem normEdge_bounded {m : Nat} {e : Nat × Nat} (h : e.1 < m ∧ e.2 < m) :
    (normEdge e).1 < m ∧ (normEdge e).2 < m := by
  unfold normEdge; split
  · exact h
  · exact ⟨h.2, h.1⟩

theorem edgeCountFast_eq (m : Nat) (fs : List Face) (hb : boundedB m fs = true) :
    edgeCountFast m fs = edgeCount fs := by
  unfold edgeCountFast edgeCount
  rw [distinctGo_spec]
  simp only [Nat.zero_testBit, Bool.not_false, List.filter_true, Nat.zero_add]
  have : (dirEdges fs).map (edgeKey m) = ((dirEdges fs).map normEdge).map (dirKey m) := by
    rw [List.map_map]; apply List.map_congr_left; intro e _; exact edgeKey_eq m e
  rw [this, dedup_map_injOn, List.length_map]
  intro a ha b hb' hab
  obtain ⟨ea, hea, rfl⟩ := List.mem_map.mp ha
  obtain ⟨eb, heb, rfl⟩ := List.mem_map.mp hb'
  exact dirKey_inj (normEdge_bounded (dirEdges_bounded hb ea hea)).2
    (normEdge_bounded (dirEdges_bounded hb eb heb)).2 hab

theorem simpleFastB_sound (fs : List Face) (h : simpleFastB fs = true) : Simple fs := by
  unfold simpleFastB at h
  simp only [List.all_eq_true, Bool.and_eq_true, Nat.ble_eq] at h
  intro f hf
  exact ⟨(h f hf).1, (allDistinctGo_sound f 0 (h f hf).2).1⟩

/-! ### each key exactly twice -/
theorem twiceGo_sound : ∀ (ks : List Nat) (s1 s2 : Nat) (c0 : Nat → Nat),
    (∀ j, c0 j ≤ 2) → (∀ j, s1.testBit j = decide (1 ≤ c0 j)) → (∀ j, s2.testBit j = decide (2 ≤ c0 j)) →
    twiceGo ks s1 s2 = true → ∀ j, c0 j + ks.count j = 0 ∨ c0 j + ks.count j = 2 := by
  intro ks
  induction ks with
  | nil =>
    intro s1 s2 c0 hle h1 h2 h j
    unfold twiceGo at h
    have := Nat.eq_of_beq_eq_true h
    have hj : decide (1 ≤ c0 j) = decide (2 ≤ c0 j) := by rw [← h1, ← h2, this]
    rw [decide_eq_decide] at hj
    have := hle j
    simp only [List.count_nil, Nat.add_zero]
    by_cases hc : 1 ≤ c0 j
    · have := hj.mp hc; omega
    · omega
  | cons k ks ih =>
    intro s1 s2 c0 hle h1 h2 h j
    have hcount : c0 j + (k :: ks).count j = (c0 j + if k = j then 1 else 0) + ks.count j := by
      rw [List.count_cons]; simp only [beq_iff_eq]; omega
    rw [hcount]
    unfold twiceGo at h
    cases hk2 : s2.testBit k with
    | true => rw [hk2] at h; simp at h
    | false =>
      rw [hk2] at h
      have hck2 : ¬ 2 ≤ c0 k := by have := h2 k; rw [hk2] at this; simpa using this.symm
      cases hk1 : s1.testBit k with
      | true =>
        rw [hk1] at h
        simp only [force_eq] at h
        have hck1 : 1 ≤ c0 k := by have := h1 k; rw [hk1] at this; simpa using this.symm
        refine ih s1 (setBit s2 k) (fun j => c0 j + if k = j then 1 else 0) ?_ ?_ ?_ h j
        · intro i; have := hle i; split
          · next hki => subst hki; omega
          · omega
        · intro i; rw [h1 i]; rw [decide_eq_decide]; split
          · next hki => subst hki; omega
          · omega
        · intro i; rw [testBit_setBit, h2 i]
          by_cases hki : k = i
          · subst hki; simp; omega
          · simp [hki]
      | false =>
        rw [hk1] at h
        simp only [force_eq] at h
        have hck1 : ¬ 1 ≤ c0 k := by have := h1 k; rw [hk1] at this; simpa using this.symm
        refine ih (setBit s1 k) s2 (fun j => c0 j + if k = j then 1 else 0) ?_ ?_ ?_ h j
        · intro i; have := hle i; split
          · next hki => subst hki; omega
          · omega
        · intro i; rw [testBit_setBit, h1 i]
          by_cases hki : k = i
          · subst hki; simp
          · simp [hki]
        · intro i; rw [h2 i]; rw [decide_eq_decide]; split
          · next hki => subst hki; omega
          · omega

theorem count_map_injOn {α β : Type} [BEq α] [LawfulBEq α] [BEq β] [LawfulBEq β] (f : α → β) (l : List α) (a : α)
    (hinj : ∀ b ∈ l, f b = f a → b = a) : (l.map f).count (f a) = l.count a := by
  induction l with
  | nil => simp
  | cons b l ih =>
    rw [List.map_cons, List.count_cons, List.count_cons, ih (fun x hx => hinj x (List.mem_cons_of_mem _ hx))]
    congr 1
    by_cases hba : b = a
    · subst hba; simp
    · have : f b ≠ f a := fun h => hba (hinj b List.mem_cons_self h)
      simp [hba, this]

theorem closedUndirFastB_sound (m : Nat) (fs : List Face) (hb : boundedB m fs = true)
    (h : closedUndirFastB m fs = true) : ClosedUndir fs := by
  unfold closedUndirFastB at h
  have key := twiceGo_sound _ 0 0 (fun _ => 0) (by intro j; omega) (by intro j; simp) (by intro j; simp) h
  intro e he
  have hmap : (dirEdges fs).map (edgeKey m) = ((dirEdges fs).map normEdge).map (dirKey m) := by
    rw [List.map_map]; apply List.map_congr_left; intro e _; exact edgeKey_eq m e
  have hbd : ∀ x ∈ (dirEdges fs).map normEdge, x.2 < m := by
    intro x hx
    obtain ⟨y, hy, rfl⟩ := List.mem_map.mp hx
    exact (normEdge_bounded (dirEdges_bounded hb y hy)).2
  have hc := key (dirKey m e)
  rw [hmap, count_map_injOn (dirKey m) _ e (fun b hb' hbe => dirKey_inj (hbd b hb') (hbd e he) hbe)] at hc
  have hpos : 0 < ((dirEdges fs).map normEdge).count e := List.count_pos_iff.mpr he
  omega

/-! ### oriented closedness -/
theorem insAllGo_sound : ∀ (ks : List Nat) (s t : Nat), insAllGo ks s = t + 1 →
    ks.Nodup ∧ ∀ j, t.testBit j = (s.testBit j || decide (j ∈ ks)) := by
  intro ks
  induction ks with
  | nil =>
    intro s t h
    unfold insAllGo at h
    have : s = t := by omega
    subst this; simp
  | cons k ks ih =>
    intro s t h
    unfold insAllGo at h
    cases hk : s.testBit k with
    | true => rw [hk] at h; simp at h
    | false =>
      rw [hk] at h
      simp only [force_eq] at h
      obtain ⟨hnd, hbits⟩ := ih _ _ h
      have hnot : k ∉ ks := by
        intro hmem
        -- then the recursive call would have failed: `k` is already set
        have : ∀ (l : List Nat) (u : Nat), k ∈ l → u.testBit k = true → insAllGo l u = 0 := by
          intro l
          induction l with
          | nil => intro u hm; simp at hm
          | cons x l ihl =>
            intro u hm hu
            unfold insAllGo
            by_cases hxk : x = k
            · subst hxk; rw [hu]
            · have hm' : k ∈ l := by
                rcases List.mem_cons.mp hm with h | h
                · exact absurd h.symm hxk
                · exact h
              cases hx : u.testBit x with
              | true => rfl
              | false =>
                simp only [force_eq]
                apply ihl _ hm'
                rw [testBit_setBit, hu]; simp
        have h0 := this ks (setBit s k) hmem (by rw [testBit_setBit]; simp)
        rw [h0] at h; omega
      refine ⟨List.nodup_cons.mpr ⟨hnot, hnd⟩, ?_⟩
      intro j
      rw [hbits j, testBit_setBit]
      by_cases hjk : k = j
      · subst hjk; simp
      · have : ¬ j = k := fun h => hjk h.symm
        simp [hjk, this]

theorem allInGo_sound (s : Nat) : ∀ (ks : List Nat), allInGo s ks = true → ∀ k ∈ ks, s.testBit k = true := by
  intro ks
  induction ks with
  | nil => intro _ k hk; simp at hk
  | cons x ks ih =>
    intro h k hk
    unfold allInGo at h
    cases hx : s.testBit x with
    | false => rw [hx] at h; simp at h
    | true =>
      rw [hx] at h
      rcases List.mem_cons.mp hk with rfl | hk
      · exact hx
      · exact ih h k hk

theorem closedDirFastB_sound (m : Nat) (fs : List Face) (hb : boundedB m fs = true)
    (h : closedDirFastB m fs = true) : ClosedDir fs := by
  unfold closedDirFastB at h
  cases hs : insAllGo ((dirEdges fs).map (dirKey m)) 0 with
  | zero => rw [hs] at h; simp at h
  | succ t =>
    rw [hs] at h
    simp only at h
    obtain ⟨hnd, hbits⟩ := insAllGo_sound _ 0 t hs
    have hnd' : (dirEdges fs).Nodup := List.Nodup.of_map _ hnd
    have hall := allInGo_sound t _ h
    have hone := List.nodup_iff_count_eq_one.mp hnd'
    intro e he
    refine ⟨hone e he, hone _ ?_⟩
    have := hall (dirKey m (e.2, e.1)) (List.mem_map.mpr ⟨e, he, rfl⟩)
    rw [hbits] at this
    simp only [Nat.zero_testBit, Bool.false_or, decide_eq_true_eq] at this
    obtain ⟨e', he', hk⟩ := List.mem_map.mp this
    have hbe := dirEdges_bounded hb e he
    have hbe' := dirEdges_bounded hb e' he'
    have := dirKey_inj (e := e') (e' := (e.2, e.1)) hbe'.2 hbe.1 hk
    rw [← this]; exact he'

/-! ## 1b. the tables -/
theorem solidCheck_sound {m v e f : Nat} {fs oriented : List Face} (h : solidCheck m v e f fs oriented = true) :
    vertexCount fs = v ∧ edgeCount fs = e ∧ faceCount fs = f ∧ Euler fs ∧ Simple fs ∧
      ClosedUndir fs ∧ ClosedDir oriented := by
  unfold solidCheck at h
  simp only [Bool.and_eq_true] at h
  obtain ⟨⟨⟨⟨⟨⟨⟨⟨hv, he⟩, hf⟩, heu⟩, hb⟩, hbo⟩, hs⟩, hcu⟩, hcd⟩ := h
  have hv' : vertexCount fs = v := by rw [← vertexCountFast_eq]; exact Nat.eq_of_beq_eq_true hv
  have he' : edgeCount fs = e := by rw [← edgeCountFast_eq m fs hb]; exact Nat.eq_of_beq_eq_true he
  have hf' : faceCount fs = f := Nat.eq_of_beq_eq_true hf
  refine ⟨hv', he', hf', ?_, simpleFastB_sound fs hs, closedUndirFastB_sound m fs hb hcu,
    closedDirFastB_sound m oriented hbo hcd⟩
  unfold Euler; rw [hv', he', hf']; exact Nat.eq_of_beq_eq_true heu

theorem circleCheck_sound {n : Nat} (h : circleCheck n = true) :
    vertexCount (circleFaces n) = n ∧ edgeCount (circleFaces n) = n ∧ faceCount (circleFaces n) = 1 ∧
      Simple (circleFaces n) := by
  unfold circleCheck at h
  simp only [Bool.and_eq_true] at h
  obtain ⟨⟨⟨⟨hv, he⟩, hf⟩, hb⟩, hs⟩ := h
  refine ⟨?_, ?_, Nat.eq_of_beq_eq_true hf, simpleFastB_sound _ hs⟩
  · rw [← vertexCountFast_eq]; exact Nat.eq_of_beq_eq_true hv
  · rw [← edgeCountFast_eq n _ hb]; exact Nat.eq_of_beq_eq_true he

/-- kernel evaluation of the whole tables (`n = 3..24`; sphere `n1 = 3..12`, `n2 = 2..5`) -/
theorem circle_table_check : (List.range' 3 22).all circleCheck = true := by decide +kernel
theorem cylinder_table_check : (List.range' 3 22).all cylinderCheck = true := by decide +kernel
theorem cone_table_check : (List.range' 3 22).all coneCheck = true := by decide +kernel
theorem sphere_table_check :
    (List.range' 3 10).all (fun n1 => (List.range' 2 4).all (fun n2 => sphereCheck n1 n2)) = true := by
  decide +kernel
theorem parallelepiped_check : parallelepipedCheck = true := by decide +kernel

/-- C14, Circle: an n-gon (n vertices, n edges, one face, pairwise different vertices) -/
theorem circle_skeleton (n : Nat) (h3 : 3 ≤ n) (h24 : n ≤ 24) :
    vertexCount (circleFaces n) = n ∧ edgeCount (circleFaces n) = n ∧ faceCount (circleFaces n) = 1 ∧
      Simple (circleFaces n) :=
  circleCheck_sound (List.all_eq_true.mp circle_table_check n (List.mem_range'_1.mpr ⟨h3, by omega⟩))

/-- C14, Cylinder: V = 2n, E = 3n, F = n + 2, Euler, closed (as coded: every edge on two faces; after the
    constructor's flips: every directed edge once, its reverse once) -/
theorem cylinder_skeleton (n : Nat) (h3 : 3 ≤ n) (h24 : n ≤ 24) :
    vertexCount (cylinderFaces n) = 2 * n ∧ edgeCount (cylinderFaces n) = 3 * n ∧
      faceCount (cylinderFaces n) = n + 2 ∧ Euler (cylinderFaces n) ∧ Simple (cylinderFaces n) ∧
      ClosedUndir (cylinderFaces n) ∧ ClosedDir (cylinderOriented n) :=
  solidCheck_sound (List.all_eq_true.mp cylinder_table_check n (List.mem_range'_1.mpr ⟨h3, by omega⟩))

/-- C14, Cone: V = n + 1, E = 2n, F = n + 1 -/
theorem cone_skeleton (n : Nat) (h3 : 3 ≤ n) (h24 : n ≤ 24) :
    vertexCount (coneFaces n) = n + 1 ∧ edgeCount (coneFaces n) = 2 * n ∧
      faceCount (coneFaces n) = n + 1 ∧ Euler (coneFaces n) ∧ Simple (coneFaces n) ∧
      ClosedUndir (coneFaces n) ∧ ClosedDir (coneOriented n) :=
  solidCheck_sound (List.all_eq_true.mp cone_table_check n (List.mem_range'_1.mpr ⟨h3, by omega⟩))

/-- C14, Sphere: 2·n2 − 1 rings of n1 points and two poles: V = n1(2n2 − 1) + 2, E = n1(4n2 − 1), F = 2·n1·n2
    (per meridian strip: 2(n2 − 1) quadrilaterals and 2 triangles) -/
theorem sphere_skeleton (n1 n2 : Nat) (h3 : 3 ≤ n1) (h12 : n1 ≤ 12) (h2 : 2 ≤ n2) (h5 : n2 ≤ 5) :
    vertexCount (sphereFaces n1 n2) = n1 * (2 * n2 - 1) + 2 ∧ edgeCount (sphereFaces n1 n2) = n1 * (4 * n2 - 1) ∧
      faceCount (sphereFaces n1 n2) = 2 * n1 * n2 ∧ Euler (sphereFaces n1 n2) ∧ Simple (sphereFaces n1 n2) ∧
      ClosedUndir (sphereFaces n1 n2) ∧ ClosedDir (sphereOriented n1 n2) := by
  have h := List.all_eq_true.mp sphere_table_check n1 (List.mem_range'_1.mpr ⟨h3, by omega⟩)
  exact solidCheck_sound (List.all_eq_true.mp h n2 (List.mem_range'_1.mpr ⟨h2, by omega⟩))

/-- C14, Parallelepiped: V = 8, E = 12, F = 6 -/
theorem parallelepiped_skeleton :
    vertexCount parallelepipedFaces = 8 ∧ edgeCount parallelepipedFaces = 12 ∧ faceCount parallelepipedFaces = 6 ∧
      Euler parallelepipedFaces ∧ Simple parallelepipedFaces ∧ ClosedUndir parallelepipedFaces ∧
      ClosedDir parallelepipedOriented :=
  solidCheck_sound parallelepiped_check

#print axioms circle_skeleton
#print axioms cylinder_skeleton
#print axioms cone_skeleton
#print axioms sphere_skeleton
#print axioms parallelepiped_skeleton

/-! ## 1c. from the skeleton to any realisation in space: `ClosedSurface` of G3D/Proofs/Volume.lean -/
theorem consecG_map {α β : Type} (g : α → β) : ∀ l : List α, consecG (l.map g) = (consecG l).map (Prod.map g g) := by
  intro l
  induction l with
  | nil => simp [consecG]
  | cons a l ih =>
    cases l with
    | nil => simp [consecG]
    | cons b l =>
      simp only [List.map_cons, consecG] at ih ⊢
      rw [ih]; rfl

theorem cyc_map {α β : Type} (g : α → β) (l : List α) : cyc (l.map g) = (cyc l).map (Prod.map g g) := by
  cases l with
  | nil => simp [cyc]
  | cons p ps =>
    simp only [List.map_cons, cyc]
    rw [← consecG_map]
    simp

theorem consecG_eq_consec : ∀ l : List V3, consecG l = consec l := by
  intro l
  induction l with
  | nil => simp [consecG, consec]
  | cons a l ih =>
    cases l with
    | nil => simp [consecG, consec]
    | cons b l => simp only [consecG, consec, ih]

theorem cyc_eq_closedPairs (l : List V3) : cyc l = closedPairs l := by
  cases l with
  | nil => simp [cyc, closedPairs]
  | cons p ps => simp only [cyc, closedPairs, consecG_eq_consec]

theorem dirEdges_map (g : Nat → V3) (fs : List Face) :
    G3D.dirEdges (fs.map (List.map g)) = (dirEdges fs).map (Prod.map g g) := by
  unfold G3D.dirEdges dirEdges
  induction fs with
  | nil => simp
  | cons f fs ih =>
    simp only [List.map_cons, List.flatMap_cons, List.map_append, ih, ← cyc_eq_closedPairs, cyc_map]

theorem closedDir_perm (fs : List Face) (h : ClosedDir fs) :
    List.Perm (dirEdges fs) ((dirEdges fs).map Prod.swap) := by
  rw [List.perm_iff_count]
  intro a
  have hsw : ((dirEdges fs).map Prod.swap).count a = (dirEdges fs).count a.swap := by
    have := List.count_map_of_injective (dirEdges fs) Prod.swap Prod.swap_injective a.swap
    rwa [Prod.swap_swap] at this
  rw [hsw]
  by_cases ha : a ∈ dirEdges fs
  · have := h a ha
    rw [this.1]; exact this.2.symm
  · have h0 : (dirEdges fs).count a = 0 := List.count_eq_zero.mpr ha
    rw [h0]
    by_cases hs : a.swap ∈ dirEdges fs
    · have := (h a.swap hs).2
      simp only [Prod.swap, Prod.mk.eta] at this
      omega
    · exact (List.count_eq_zero.mpr hs).symm

/-- every placement `g` of the vertex ids in space (injective or not) of an oriented-closed skeleton is a
    `ClosedSurface`: the vector areas of the faces sum to zero and `vol6` does not depend on the reference point -/
theorem closedSurface_of_closedDir (fs : List Face) (h : ClosedDir fs) (g : Nat → V3) :
    ClosedSurface (fs.map (List.map g)) := by
  unfold ClosedSurface
  rw [dirEdges_map, List.map_map]
  have : (Prod.swap ∘ Prod.map g g) = (Prod.map g g ∘ Prod.swap) := by
    funext e; rfl
  rw [this, ← List.map_map]
  exact (closedDir_perm fs h).map _

theorem cylinder_closedSurface (n : Nat) (h3 : 3 ≤ n) (h24 : n ≤ 24) (g : Nat → V3) :
    ClosedSurface ((cylinderOriented n).map (List.map g)) :=
  closedSurface_of_closedDir _ (cylinder_skeleton n h3 h24).2.2.2.2.2.2 g
theorem cone_closedSurface (n : Nat) (h3 : 3 ≤ n) (h24 : n ≤ 24) (g : Nat → V3) :
    ClosedSurface ((coneOriented n).map (List.map g)) :=
  closedSurface_of_closedDir _ (cone_skeleton n h3 h24).2.2.2.2.2.2 g
theorem sphere_closedSurface (n1 n2 : Nat) (h3 : 3 ≤ n1) (h12 : n1 ≤ 12) (h2 : 2 ≤ n2) (h5 : n2 ≤ 5) (g : Nat → V3) :
    ClosedSurface ((sphereOriented n1 n2).map (List.map g)) :=
  closedSurface_of_closedDir _ (sphere_skeleton n1 n2 h3 h12 h2 h5).2.2.2.2.2.2 g
theorem parallelepiped_closedSurface (g : Nat → V3) :
    ClosedSurface (parallelepipedOriented.map (List.map g)) :=
  closedSurface_of_closedDir _ parallelepiped_skeleton.2.2.2.2.2.2 g
#print axioms sphere_closedSurface

/-! ## 1d. structure of the skeletons for every n -/
theorem consecG_append_singleton {α : Type} : ∀ (l : List α) (a x : α),
    consecG (l ++ [a] ++ [x]) = consecG (l ++ [a]) ++ [(a, x)] := by
  intro l
  induction l with
  | nil => intro a x; simp [consecG]
  | cons b l ih =>
    intro a x
    cases l with
    | nil => simp [consecG]
    | cons d l =>
      have := ih a x
      simp only [List.cons_append, consecG] at this ⊢
      rw [this]

theorem consecG_range' : ∀ (k s : Nat), consecG (List.range' s (k + 1)) = (List.range' s k).map (fun i => (i, i + 1)) := by
  intro k
  induction k with
  | zero => intro s; simp [consecG]
  | succ k ih =>
    intro s
    have e1 : List.range' s (k + 1 + 1) = s :: List.range' (s + 1) (k + 1) := List.range'_succ
    have e2 : List.range' (s + 1) (k + 1) = (s + 1) :: List.range' (s + 1 + 1) k := List.range'_succ
    have e3 : List.range' s (k + 1) = s :: List.range' (s + 1) k := List.range'_succ
    rw [e1, e3, List.map_cons, ← ih (s + 1), e2]
    simp only [consecG]

/-- the cycle 0, 1, …, n−1 has the directed edges (i, (i+1) mod n) -/
theorem cyc_range (n : Nat) : cyc (List.range n) = (List.range n).map (fun i => (i, (i + 1) % n)) := by
  cases n with
  | zero => simp [cyc]
  | succ k =>
    have h1 : List.range (k + 1) = 0 :: List.range' 1 k := by
      rw [List.range_eq_range', List.range'_succ]
    have h2 : List.range (k + 1) = List.range k ++ [k] := List.range_succ
    have hc : cyc (List.range (k + 1)) = consecG (List.range (k + 1) ++ [0]) := by
      rw [h1]; rfl
    rw [hc]
    have h3 : List.range (k + 1) ++ [0] = List.range k ++ [k] ++ [0] := by rw [h2]
    rw [h3, consecG_append_singleton, ← h2]
    have h4 : consecG (List.range (k + 1)) = (List.range k).map (fun i => (i, i + 1)) := by
      rw [List.range_eq_range', consecG_range', ← List.range_eq_range']
    rw [h4, h2, List.map_append, List.map_cons, List.map_nil, Nat.mod_self]
    congr 1
    apply List.map_congr_left
    intro i hi
    rw [Nat.mod_eq_of_lt (by have := List.mem_range.mp hi; omega)]

theorem consecG_reverse {α : Type} : ∀ l : List α, consecG l.reverse = ((consecG l).map Prod.swap).reverse := by
  intro l
  induction l with
  | nil => simp [consecG]
  | cons a l ih =>
    cases l with
    | nil => simp [consecG]
    | cons b l =>
      have e : (a :: b :: l).reverse = l.reverse ++ [b] ++ [a] := by simp
      rw [e, consecG_append_singleton]
      have e2 : l.reverse ++ [b] = (b :: l).reverse := by simp
      rw [e2, ih]
      simp [consecG]

/-- `-polygon` reverses every directed edge -/
theorem cyc_flipCycle {α : Type} (l : List α) : cyc (flipCycle l) = ((cyc l).map Prod.swap).reverse := by
  cases l with
  | nil => simp [cyc, flipCycle]
  | cons a t =>
    have e : a :: t.reverse ++ [a] = (a :: t ++ [a]).reverse := by simp
    simp only [flipCycle, cyc]
    rw [e, consecG_reverse]

theorem zipWith_replicate_true {α : Type} (f : Bool → α → α) : ∀ (l : List α),
    List.zipWith f (List.replicate l.length true) l = l.map (f true) := by
  intro l
  induction l with
  | nil => simp
  | cons a l ih => simp [List.replicate_succ, ih]

theorem zipWith_replicate_false {α : Type} (f : Bool → α → α) : ∀ (l : List α),
    List.zipWith f (List.replicate l.length false) l = l.map (f false) := by
  intro l
  induction l with
  | nil => simp
  | cons a l ih => simp [List.replicate_succ, ih]

/-- the Cylinder faces after the orientation repair, for every n -/
theorem cylinderOriented_eq (n : Nat) :
    cylinderOriented n = [List.range n, flipCycle ((List.range n).map (n + ·))] ++
      (List.range n).map (fun i => [i, n + i, n + (i + 1) % n, (i + 1) % n]) := by
  unfold cylinderOriented cylinderFlips cylinderFaces applyFlips
  simp only [List.cons_append, List.nil_append, List.zipWith_cons_cons, Bool.false_eq_true, if_false, if_true]
  have := zipWith_replicate_true (fun b f => if b = true then flipCycle f else f)
    ((List.range n).map (fun i => [i, (i + 1) % n, n + (i + 1) % n, n + i]))
  rw [List.length_map, List.length_range] at this
  rw [this, List.map_map]
  simp [flipCycle, Function.comp_def]

/-- the Cone faces after the orientation repair, for every n -/
theorem coneOriented_eq (n : Nat) :
    coneOriented n = flipCycle (List.range n) :: (List.range n).map (fun i => [n, i, (i + 1) % n]) := by
  unfold coneOriented coneFlips coneFaces applyFlips
  simp only [List.zipWith_cons_cons, if_true]
  have := zipWith_replicate_false (fun b f => if b = true then flipCycle f else f)
    ((List.range n).map (fun i => [n, i, (i + 1) % n]))
  rw [List.length_map, List.length_range] at this
  rw [this]
  simp

/-- face counts for every resolution -/
theorem faceCount_general (n n1 n2 : Nat) (h2 : 2 ≤ n2) :
    faceCount (circleFaces n) = 1 ∧ faceCount (cylinderFaces n) = n + 2 ∧ faceCount (coneFaces n) = n + 1 ∧
      faceCount (sphereFaces n1 n2) = 2 * n1 * n2 := by
  refine ⟨rfl, ?_, ?_, ?_⟩
  · simp [faceCount, cylinderFaces]
  · simp [faceCount, coneFaces]
  · unfold faceCount sphereFaces
    rw [List.length_flatMap]
    simp only [List.length_append, List.length_cons, List.length_nil, List.length_flatMap, List.map_const',
      List.length_range', List.sum_replicate, smul_eq_mul, List.length_range]
    have : n2 = (n2 - 2) + 2 := by omega
    generalize n2 - 2 = m at this
    subst this
    ring

/-! ## 1e. oriented closedness for every n ≥ 3 (Cone, Cylinder) -/
theorem sm_cases {n i : Nat} (hi : i < n) : (i + 1 < n ∧ (i + 1) % n = i + 1) ∨ (i + 1 = n ∧ (i + 1) % n = 0) := by
  rcases Nat.lt_or_ge (i + 1) n with h | h
  · exact Or.inl ⟨h, Nat.mod_eq_of_lt h⟩
  · have : i + 1 = n := by omega
    exact Or.inr ⟨this, by rw [this, Nat.mod_self]⟩

theorem closedDir_of_nodup {fs : List Face} (hnd : (dirEdges fs).Nodup)
    (hrev : ∀ e ∈ dirEdges fs, (e.2, e.1) ∈ dirEdges fs) : ClosedDir fs := by
  have hone := List.nodup_iff_count_eq_one.mp hnd
  intro e he
  exact ⟨hone e he, hone _ (hrev e he)⟩

theorem coneOriented_edges (n : Nat) : dirEdges (coneOriented n) =
    (((List.range n).map (fun i => (i, (i + 1) % n))).map Prod.swap).reverse ++
      (List.range n).flatMap (fun i => [(n, i), (i, (i + 1) % n), ((i + 1) % n, n)]) := by
  rw [coneOriented_eq]
  unfold dirEdges
  rw [List.flatMap_cons, cyc_flipCycle, cyc_range, List.flatMap_map]
  rfl

theorem mem_coneOriented_edges (n : Nat) (e : Nat × Nat) : e ∈ dirEdges (coneOriented n) ↔
    ∃ i, i < n ∧ (e = ((i + 1) % n, i) ∨ e = (n, i) ∨ e = (i, (i + 1) % n) ∨ e = ((i + 1) % n, n)) := by
  rw [coneOriented_edges]
  simp only [List.mem_append, List.mem_reverse, List.mem_map, List.mem_range, List.mem_flatMap, List.mem_cons,
    List.not_mem_nil, or_false, exists_exists_and_eq_and, Prod.swap]
  constructor
  · rintro (⟨i, hi, rfl⟩ | ⟨i, hi, h⟩)
    · exact ⟨i, hi, Or.inl rfl⟩
    · exact ⟨i, hi, Or.inr h⟩
  · rintro ⟨i, hi, h | h⟩
    · exact Or.inl ⟨i, hi, h.symm⟩
    · exact Or.inr ⟨i, hi, h⟩

/-- C14, Cone, every n ≥ 3: after the orientation repair every directed edge occurs once, its reverse once -/
theorem cone_closedDir (n : Nat) (h3 : 3 ≤ n) : ClosedDir (coneOriented n) := by
  apply closedDir_of_nodup
  · rw [coneOriented_edges, List.nodup_append]
    refine ⟨?_, ?_, ?_⟩
    · rw [List.nodup_reverse, List.map_map]
      apply List.Nodup.map_on _ List.nodup_range
      intro x _ y _ h
      simp only [Function.comp, Prod.swap, Prod.mk.injEq] at h
      exact h.2
    · rw [List.nodup_flatMap]
      constructor
      · intro i hi
        have hi := List.mem_range.mp hi
        rcases sm_cases hi with ⟨h1, h2⟩ | ⟨h1, h2⟩ <;> simp [h2] <;> omega
      · apply List.Pairwise.imp_of_mem _ (List.pairwise_lt_range (n := n))
        intro i j hi hj hij
        have hi := List.mem_range.mp hi
        have hj := List.mem_range.mp hj
        simp only [Function.onFun, List.Disjoint]
        intro e h1 h2
        simp only [List.mem_cons, List.not_mem_nil, or_false] at h1 h2
        rcases sm_cases hi with ⟨a1, a2⟩ | ⟨a1, a2⟩ <;> rcases sm_cases hj with ⟨b1, b2⟩ | ⟨b1, b2⟩ <;>
          rw [a2] at h1 <;> rw [b2] at h2 <;>
          rcases h1 with rfl | rfl | rfl <;> rcases h2 with h2 | h2 | h2 <;>
          simp only [Prod.mk.injEq] at h2 <;> omega
    · intro a ha b hb hab
      subst hab
      simp only [List.mem_reverse, List.mem_map, List.mem_range, exists_exists_and_eq_and, Prod.swap] at ha
      simp only [List.mem_flatMap, List.mem_range, List.mem_cons, List.not_mem_nil, or_false] at hb
      obtain ⟨i, hi, rfl⟩ := ha
      obtain ⟨j, hj, hb⟩ := hb
      rcases sm_cases hi with ⟨a1, a2⟩ | ⟨a1, a2⟩ <;> rcases sm_cases hj with ⟨b1, b2⟩ | ⟨b1, b2⟩ <;>
        rw [a2, b2] at hb <;> rcases hb with hb | hb | hb <;> simp only [Prod.mk.injEq] at hb <;> omega
  · intro e he
    rw [mem_coneOriented_edges] at he ⊢
    obtain ⟨i, hi, rfl | rfl | rfl | rfl⟩ := he
    · exact ⟨i, hi, Or.inr (Or.inr (Or.inl rfl))⟩
    · -- (n, i): reverse (i, n) = (s j, n) with j the predecessor of i
      refine ⟨(i + n - 1) % n, Nat.mod_lt _ (by omega), Or.inr (Or.inr (Or.inr ?_))⟩
      simp only [Prod.mk.injEq, and_true]
      rcases Nat.eq_zero_or_pos i with h0 | h0
      · subst h0
        have : (0 + n - 1) % n = n - 1 := by rw [Nat.zero_add]; exact Nat.mod_eq_of_lt (by omega)
        rw [this]
        have : n - 1 + 1 = n := by omega
        rw [this, Nat.mod_self]
      · have : (i + n - 1) % n = i - 1 := by
          have : i + n - 1 = (i - 1) + n := by omega
          rw [this, Nat.add_mod_right, Nat.mod_eq_of_lt (by omega)]
        rw [this]
        have : i - 1 + 1 = i := by omega
        rw [this, Nat.mod_eq_of_lt hi]
    · exact ⟨i, hi, Or.inl rfl⟩
    · exact ⟨(i + 1) % n, Nat.mod_lt _ (by omega), Or.inr (Or.inl rfl)⟩

theorem pred_mod {n i : Nat} (hi : i < n) : (i + n - 1) % n < n ∧ ((i + n - 1) % n + 1) % n = i := by
  have hn : 0 < n := by omega
  refine ⟨Nat.mod_lt _ hn, ?_⟩
  rcases Nat.eq_zero_or_pos i with h0 | h0
  · subst h0
    have : (0 + n - 1) % n = n - 1 := by rw [Nat.zero_add]; exact Nat.mod_eq_of_lt (by omega)
    rw [this]
    have : n - 1 + 1 = n := by omega
    rw [this, Nat.mod_self]
  · have : (i + n - 1) % n = i - 1 := by
      have : i + n - 1 = (i - 1) + n := by omega
      rw [this, Nat.add_mod_right, Nat.mod_eq_of_lt (by omega)]
    rw [this]
    have : i - 1 + 1 = i := by omega
    rw [this, Nat.mod_eq_of_lt hi]

theorem cylinderOriented_edges (n : Nat) : dirEdges (cylinderOriented n) =
    (List.range n).map (fun i => (i, (i + 1) % n)) ++
      ((((List.range n).map (fun i => (n + i, n + (i + 1) % n))).map Prod.swap).reverse ++
        (List.range n).flatMap (fun i =>
          [(i, n + i), (n + i, n + (i + 1) % n), (n + (i + 1) % n, (i + 1) % n), ((i + 1) % n, i)])) := by
  rw [cylinderOriented_eq]
  unfold dirEdges
  simp only [List.cons_append, List.nil_append, List.flatMap_cons]
  rw [cyc_flipCycle, cyc_map, cyc_range, List.flatMap_map]
  simp only [List.map_map]
  rfl

theorem mem_cylinderOriented_edges (n : Nat) (e : Nat × Nat) : e ∈ dirEdges (cylinderOriented n) ↔
    ∃ i, i < n ∧ (e = (i, (i + 1) % n) ∨ e = (n + (i + 1) % n, n + i) ∨ e = (i, n + i) ∨
      e = (n + i, n + (i + 1) % n) ∨ e = (n + (i + 1) % n, (i + 1) % n) ∨ e = ((i + 1) % n, i)) := by
  rw [cylinderOriented_edges]
  simp only [List.mem_append, List.mem_reverse, List.mem_map, List.mem_range, List.mem_flatMap, List.mem_cons,
    List.not_mem_nil, or_false, exists_exists_and_eq_and, Prod.swap]
  constructor
  · rintro (⟨i, hi, rfl⟩ | ⟨i, hi, rfl⟩ | ⟨i, hi, h⟩)
    · exact ⟨i, hi, Or.inl rfl⟩
    · exact ⟨i, hi, Or.inr (Or.inl rfl)⟩
    · exact ⟨i, hi, Or.inr (Or.inr h)⟩
  · rintro ⟨i, hi, h | h | h⟩
    · exact Or.inl ⟨i, hi, h.symm⟩
    · exact Or.inr (Or.inl ⟨i, hi, h.symm⟩)
    · exact Or.inr (Or.inr ⟨i, hi, h⟩)

/-- C14, Cylinder, every n ≥ 3: after the orientation repair every directed edge occurs once, its reverse once -/
theorem cylinder_closedDir (n : Nat) (h3 : 3 ≤ n) : ClosedDir (cylinderOriented n) := by
  apply closedDir_of_nodup
  · rw [cylinderOriented_edges, List.nodup_append]
    refine ⟨?_, ?_, ?_⟩
    · apply List.Nodup.map_on _ List.nodup_range
      intro x _ y _ h
      simp only [Prod.mk.injEq] at h
      exact h.1
    · rw [List.nodup_append]
      refine ⟨?_, ?_, ?_⟩
      · rw [List.nodup_reverse, List.map_map]
        apply List.Nodup.map_on _ List.nodup_range
        intro x _ y _ h
        simp only [Function.comp, Prod.swap, Prod.mk.injEq] at h
        omega
      · rw [List.nodup_flatMap]
        constructor
        · intro i hi
          have hi := List.mem_range.mp hi
          rcases sm_cases hi with ⟨h1, h2⟩ | ⟨h1, h2⟩ <;> simp [h2] <;> omega
        · apply List.Pairwise.imp_of_mem _ (List.pairwise_lt_range (n := n))
          intro i j hi hj hij
          have hi := List.mem_range.mp hi
          have hj := List.mem_range.mp hj
          simp only [Function.onFun, List.Disjoint]
          intro e h1 h2
          simp only [List.mem_cons, List.not_mem_nil, or_false] at h1 h2
          rcases sm_cases hi with ⟨a1, a2⟩ | ⟨a1, a2⟩ <;> rcases sm_cases hj with ⟨b1, b2⟩ | ⟨b1, b2⟩ <;>
            rw [a2] at h1 <;> rw [b2] at h2 <;>
            rcases h1 with rfl | rfl | rfl | rfl <;> rcases h2 with h2 | h2 | h2 | h2 <;>
            simp only [Prod.mk.injEq] at h2 <;> omega
      · intro a ha b hb hab
        subst hab
        simp only [List.mem_reverse, List.mem_map, List.mem_range, exists_exists_and_eq_and, Prod.swap] at ha
        simp only [List.mem_flatMap, List.mem_range, List.mem_cons, List.not_mem_nil, or_false] at hb
        obtain ⟨i, hi, rfl⟩ := ha
        obtain ⟨j, hj, hb⟩ := hb
        rcases sm_cases hi with ⟨a1, a2⟩ | ⟨a1, a2⟩ <;> rcases sm_cases hj with ⟨b1, b2⟩ | ⟨b1, b2⟩ <;>
          rw [a2, b2] at hb <;> rcases hb with hb | hb | hb | hb <;> simp only [Prod.mk.injEq] at hb <;> omega
    · intro a ha b hb hab
      subst hab
      simp only [List.mem_map, List.mem_range] at ha
      simp only [List.mem_append, List.mem_reverse, List.mem_map, List.mem_range, exists_exists_and_eq_and,
        Prod.swap, List.mem_flatMap, List.mem_cons, List.not_mem_nil, or_false] at hb
      obtain ⟨i, hi, rfl⟩ := ha
      rcases hb with ⟨j, hj, hb⟩ | ⟨j, hj, hb⟩
      · rcases sm_cases hi with ⟨a1, a2⟩ | ⟨a1, a2⟩ <;> rcases sm_cases hj with ⟨b1, b2⟩ | ⟨b1, b2⟩ <;>
          rw [a2, b2] at hb <;> simp only [Prod.mk.injEq] at hb <;> omega
      · rcases sm_cases hi with ⟨a1, a2⟩ | ⟨a1, a2⟩ <;> rcases sm_cases hj with ⟨b1, b2⟩ | ⟨b1, b2⟩ <;>
          rw [a2, b2] at hb <;> rcases hb with hb | hb | hb | hb <;> simp only [Prod.mk.injEq] at hb <;> omega
  · intro e he
    rw [mem_cylinderOriented_edges] at he ⊢
    obtain ⟨i, hi, rfl | rfl | rfl | rfl | rfl | rfl⟩ := he
    · exact ⟨i, hi, Or.inr (Or.inr (Or.inr (Or.inr (Or.inr rfl))))⟩
    · exact ⟨i, hi, Or.inr (Or.inr (Or.inr (Or.inl rfl)))⟩
    · obtain ⟨hj, hs⟩ := pred_mod hi
      refine ⟨(i + n - 1) % n, hj, Or.inr (Or.inr (Or.inr (Or.inr (Or.inl ?_))))⟩
      rw [hs]
    · exact ⟨i, hi, Or.inr (Or.inl rfl)⟩
    · exact ⟨(i + 1) % n, Nat.mod_lt _ (by omega), Or.inr (Or.inr (Or.inl rfl))⟩
    · exact ⟨i, hi, Or.inl rfl⟩

/-- every placement of the ids in space of the repaired Cone / Cylinder skeleton is a `ClosedSurface`, every n ≥ 3 -/
theorem cone_closedSurface_general (n : Nat) (h3 : 3 ≤ n) (g : Nat → V3) :
    ClosedSurface ((coneOriented n).map (List.map g)) :=
  closedSurface_of_closedDir _ (cone_closedDir n h3) g
theorem cylinder_closedSurface_general (n : Nat) (h3 : 3 ≤ n) (g : Nat → V3) :
    ClosedSurface ((cylinderOriented n).map (List.map g)) :=
  closedSurface_of_closedDir _ (cylinder_closedDir n h3) g
#print axioms cone_closedDir
#print axioms cylinder_closedDir

/-! ## 1f. counting lemmas: Euler's relation from closedness -/
theorem length_consecG {α : Type} : ∀ (l : List α), (consecG l).length = l.length - 1 := by
  intro l
  induction l with
  | nil => rfl
  | cons a l ih =>
    cases l with
    | nil => rfl
    | cons b l => simp only [consecG, List.length_cons] at ih ⊢; omega

theorem length_cyc {α : Type} (l : List α) : (cyc l).length = l.length := by
  cases l with
  | nil => rfl
  | cons a l => simp [cyc, length_consecG]

theorem normEdge_swap (e : Nat × Nat) : normEdge (e.2, e.1) = normEdge e := by
  unfold normEdge
  by_cases h1 : e.1 ≤ e.2 <;> by_cases h2 : e.2 ≤ e.1 <;> simp [h1, h2]
  · have : e.1 = e.2 := by omega
    exact Prod.ext this.symm this
  · omega

/-- the orientation repair does not change the undirected edges -/
theorem applyFlips_undirected : ∀ (mask : List Bool) (fs : List Face), mask.length = fs.length →
    List.Perm ((dirEdges (applyFlips mask fs)).map normEdge) ((dirEdges fs).map normEdge) := by
  intro mask
  induction mask with
  | nil => intro fs h; cases fs <;> simp_all [applyFlips, dirEdges]
  | cons b mask ih =>
    intro fs h
    cases fs with
    | nil => simp at h
    | cons f fs =>
      have ih' := ih fs (by simpa using h)
      unfold applyFlips dirEdges at ih' ⊢
      simp only [List.zipWith_cons_cons, List.flatMap_cons, List.map_append]
      apply List.Perm.append _ ih'
      cases b
      · simp
      · simp only [if_true]
        rw [cyc_flipCycle, List.map_reverse, List.map_map]
        have : (normEdge ∘ Prod.swap) = normEdge := by
          funext e; exact normEdge_swap e
        rw [this]
        exact List.reverse_perm _

theorem count_map_normEdge (d : List (Nat × Nat)) (k : Nat × Nat) (hk : k.1 < k.2) :
    (d.map normEdge).count k = d.count k + d.count (k.2, k.1) := by
  induction d with
  | nil => simp
  | cons e d ih =>
    rw [List.map_cons, List.count_cons, List.count_cons, List.count_cons, ih]
    have : (if normEdge e == k then 1 else 0) = (if e == k then 1 else 0) + (if e == (k.2, k.1) then 1 else 0) := by
      obtain ⟨a, b⟩ := e
      obtain ⟨x, y⟩ := k
      simp only [normEdge, beq_iff_eq] at hk ⊢
      by_cases hab : a ≤ b
      · simp only [hab, if_true, Prod.mk.injEq]
        split_ifs <;> omega
      · simp only [hab, if_false, Prod.mk.injEq]
        split_ifs <;> omega
    omega

/-- oriented closedness without loops gives the unoriented one -/
theorem closedUndir_of_closedDir (fs : List Face) (h : ClosedDir fs) (hloop : ∀ e ∈ dirEdges fs, e.1 ≠ e.2) :
    ClosedUndir fs := by
  intro k hk
  obtain ⟨e, he, rfl⟩ := List.mem_map.mp hk
  have hne := hloop e he
  have h1 := h e he
  have hrev : (e.2, e.1) ∈ dirEdges fs := List.count_pos_iff.mp (by rw [h1.2]; exact Nat.one_pos)
  have h2 := h (e.2, e.1) hrev
  by_cases hlt : e.1 ≤ e.2
  · have hn : normEdge e = e := by simp [normEdge, hlt]
    rw [hn, count_map_normEdge _ e (by omega), h1.1, h1.2]
  · have hn : normEdge e = (e.2, e.1) := by simp [normEdge, hlt]
    rw [hn, count_map_normEdge _ (e.2, e.1) (by simp only; omega), h2.1, h2.2]

theorem closedUndir_perm {fs gs : List Face}
    (hp : List.Perm ((dirEdges gs).map normEdge) ((dirEdges fs).map normEdge)) (h : ClosedUndir gs) :
    ClosedUndir fs := by
  intro k hk
  rw [← hp.count_eq]
  exact h k (hp.mem_iff.mpr hk)

theorem dedup_length_eq_card {α : Type} [DecidableEq α] (l : List α) : (dedup l).length = l.toFinset.card := by
  rw [← List.toFinset_card_of_nodup (nodup_dedup l)]
  congr 1
  ext a
  simp [mem_dedup]

/-- a closed surface has half as many edges as face-edge incidences -/
theorem two_mul_edgeCount (fs : List Face) (h : ClosedUndir fs) : 2 * edgeCount fs = (dirEdges fs).length := by
  unfold edgeCount
  rw [dedup_length_eq_card]
  have hs := List.sum_toFinset_count_eq_length ((dirEdges fs).map normEdge)
  rw [List.length_map, Finset.sum_congr rfl (g := fun _ => 2) ?_, Finset.sum_const, smul_eq_mul] at hs
  · omega
  · intro a ha
    have hc := h a (List.mem_toFinset.mp ha)
    convert hc

theorem dedup_length_of_mem_iff_lt (l : List Nat) (m : Nat) (h : ∀ v, v ∈ l ↔ v < m) : (dedup l).length = m := by
  have hp : List.Perm (dedup l) (List.range m) := by
    rw [List.perm_ext_iff_of_nodup (nodup_dedup l) List.nodup_range]
    intro a; rw [mem_dedup, h, List.mem_range]
  rw [hp.length_eq, List.length_range]

/-! ## 1g. the Cone and Cylinder skeletons for every n ≥ 3 -/
theorem dirEdges_length (fs : List Face) : (dirEdges fs).length = (fs.map List.length).sum := by
  unfold dirEdges
  induction fs with
  | nil => rfl
  | cons f fs ih => simp only [List.flatMap_cons, List.length_append, length_cyc, List.map_cons, List.sum_cons, ih]

theorem cylinder_skeleton_general (n : Nat) (h3 : 3 ≤ n) :
    vertexCount (cylinderFaces n) = 2 * n ∧ edgeCount (cylinderFaces n) = 3 * n ∧
      faceCount (cylinderFaces n) = n + 2 ∧ Euler (cylinderFaces n) ∧ Simple (cylinderFaces n) ∧
      ClosedUndir (cylinderFaces n) ∧ ClosedDir (cylinderOriented n) := by
  have hcd := cylinder_closedDir n h3
  have hloop : ∀ e ∈ dirEdges (cylinderOriented n), e.1 ≠ e.2 := by
    intro e he
    obtain ⟨i, hi, h⟩ := (mem_cylinderOriented_edges n e).mp he
    rcases sm_cases hi with ⟨a1, a2⟩ | ⟨a1, a2⟩ <;> rw [a2] at h <;>
      rcases h with rfl | rfl | rfl | rfl | rfl | rfl <;> simp only [] <;> omega
  have hcu : ClosedUndir (cylinderFaces n) :=
    closedUndir_perm (applyFlips_undirected (cylinderFlips n) (cylinderFaces n)
      (by simp [cylinderFlips, cylinderFaces])) (closedUndir_of_closedDir _ hcd hloop)
  have hF : faceCount (cylinderFaces n) = n + 2 := by simp [faceCount, cylinderFaces]
  have hE : edgeCount (cylinderFaces n) = 3 * n := by
    have h2 := two_mul_edgeCount _ hcu
    rw [dirEdges_length] at h2
    have : ((cylinderFaces n).map List.length).sum = 6 * n := by
      simp only [cylinderFaces, List.map_append, List.map_cons, List.map_nil, List.map_map, List.length_range,
        List.length_map, List.sum_append, List.sum_cons, List.sum_nil]
      have : (List.length ∘ fun i => [i, (i + 1) % n, n + (i + 1) % n, n + i]) = fun _ => 4 := by
        funext i; rfl
      rw [this, List.map_const', List.sum_replicate, List.length_range]
      simp only [smul_eq_mul]; omega
    omega
  have hV : vertexCount (cylinderFaces n) = 2 * n := by
    unfold vertexCount
    apply dedup_length_of_mem_iff_lt
    intro v
    simp only [cylinderFaces, List.cons_append, List.nil_append, List.flatten_cons, List.mem_append, List.mem_range,
      List.mem_map, List.mem_flatten]
    constructor
    · rintro (h | ⟨a, ha, rfl⟩ | ⟨f, ⟨i, hi, rfl⟩, hv⟩)
      · omega
      · omega
      · have hm : (i + 1) % n < n := Nat.mod_lt _ (by omega)
        simp only [List.mem_cons, List.not_mem_nil, or_false] at hv
        rcases hv with rfl | rfl | rfl | rfl <;> omega
    · intro hv
      rcases Nat.lt_or_ge v n with h | h
      · exact Or.inl h
      · exact Or.inr (Or.inl ⟨v - n, by omega, by omega⟩)
  refine ⟨hV, hE, hF, ?_, ?_, hcu, hcd⟩
  · unfold Euler; rw [hV, hE, hF]; omega
  · intro f hf
    simp only [cylinderFaces, List.cons_append, List.nil_append, List.mem_cons, List.mem_map, List.mem_range] at hf
    rcases hf with rfl | rfl | ⟨i, hi, rfl⟩
    · exact ⟨by simp; omega, List.nodup_range⟩
    · refine ⟨by simp; omega, ?_⟩
      apply List.Nodup.map_on _ List.nodup_range
      intro x _ y _ h; omega
    · refine ⟨by simp, ?_⟩
      rcases sm_cases hi with ⟨a1, a2⟩ | ⟨a1, a2⟩ <;> rw [a2] <;> simp <;> omega

theorem cone_skeleton_general (n : Nat) (h3 : 3 ≤ n) :
    vertexCount (coneFaces n) = n + 1 ∧ edgeCount (coneFaces n) = 2 * n ∧
      faceCount (coneFaces n) = n + 1 ∧ Euler (coneFaces n) ∧ Simple (coneFaces n) ∧
      ClosedUndir (coneFaces n) ∧ ClosedDir (coneOriented n) := by
  have hcd := cone_closedDir n h3
  have hloop : ∀ e ∈ dirEdges (coneOriented n), e.1 ≠ e.2 := by
    intro e he
    obtain ⟨i, hi, h⟩ := (mem_coneOriented_edges n e).mp he
    rcases sm_cases hi with ⟨a1, a2⟩ | ⟨a1, a2⟩ <;> rw [a2] at h <;>
      rcases h with rfl | rfl | rfl | rfl <;> simp only [] <;> omega
  have hcu : ClosedUndir (coneFaces n) :=
    closedUndir_perm (applyFlips_undirected (coneFlips n) (coneFaces n)
      (by simp [coneFlips, coneFaces])) (closedUndir_of_closedDir _ hcd hloop)
  have hF : faceCount (coneFaces n) = n + 1 := by simp [faceCount, coneFaces]
  have hE : edgeCount (coneFaces n) = 2 * n := by
    have h2 := two_mul_edgeCount _ hcu
    rw [dirEdges_length] at h2
    have : ((coneFaces n).map List.length).sum = 4 * n := by
      simp only [coneFaces, List.map_cons, List.map_map, List.length_range, List.sum_cons]
      have : (List.length ∘ fun i => [n, i, (i + 1) % n]) = fun _ => 3 := by
        funext i; rfl
      rw [this, List.map_const', List.sum_replicate, List.length_range]
      simp only [smul_eq_mul]; omega
    omega
  have hV : vertexCount (coneFaces n) = n + 1 := by
    unfold vertexCount
    apply dedup_length_of_mem_iff_lt
    intro v
    simp only [coneFaces, List.flatten_cons, List.mem_append, List.mem_range, List.mem_map, List.mem_flatten]
    constructor
    · rintro (h | ⟨f, ⟨i, hi, rfl⟩, hv⟩)
      · omega
      · have hm : (i + 1) % n < n := Nat.mod_lt _ (by omega)
        simp only [List.mem_cons, List.not_mem_nil, or_false] at hv
        rcases hv with rfl | rfl | rfl <;> omega
    · intro hv
      rcases Nat.lt_or_ge v n with h | h
      · exact Or.inl h
      · refine Or.inr ⟨[n, 0, (0 + 1) % n], ⟨0, by omega, rfl⟩, ?_⟩
        have : v = n := by omega
        simp [this]
  refine ⟨hV, hE, hF, ?_, ?_, hcu, hcd⟩
  · unfold Euler; rw [hV, hE, hF]; omega
  · intro f hf
    simp only [coneFaces, List.mem_cons, List.mem_map, List.mem_range] at hf
    rcases hf with rfl | ⟨i, hi, rfl⟩
    · exact ⟨by simp; omega, List.nodup_range⟩
    · refine ⟨by simp, ?_⟩
      rcases sm_cases hi with ⟨a1, a2⟩ | ⟨a1, a2⟩ <;> rw [a2] <;> simp <;> omega

/-- C14, Circle, every n ≥ 3 -/
theorem circle_skeleton_general (n : Nat) (h3 : 3 ≤ n) :
    vertexCount (circleFaces n) = n ∧ faceCount (circleFaces n) = 1 ∧ Simple (circleFaces n) ∧
      (dirEdges (circleFaces n)).length = n := by
  refine ⟨?_, rfl, ?_, ?_⟩
  · unfold vertexCount
    apply dedup_length_of_mem_iff_lt
    intro v; simp [circleFaces]
  · intro f hf
    simp only [circleFaces, List.mem_cons, List.not_mem_nil, or_false] at hf
    subst hf
    exact ⟨by simp; omega, List.nodup_range⟩
  · simp [dirEdges_length, circleFaces]

#print axioms cylinder_skeleton_general
#print axioms cone_skeleton_general


/-! ## 2. `get_circle_point_list`: the base vector and the frame -/
theorem cosSq_ex (n : V3) : cosSqVec n ex = n.x ^ 2 / normSq n := by
  simp [cosSqVec, ex, dot, normSq]
theorem cosSq_ey (n : V3) : cosSqVec n ey = n.y ^ 2 / normSq n := by
  simp [cosSqVec, ey, dot, normSq]

/-- C14 (frame): for every non-zero normal and every threshold `c = cos²(SMALL_ANGLE)` with `1/2 ≤ c < 1`
    (`cos²(0.1) ≈ 0.990`) the `raise ValueError("Bug detected")` branch is unreachable, the base vector is x or y,
    and it is not parallel to the normal — including normals along or opposite to a coordinate axis -/
theorem frame_defined (c : Rat) (hc1 : 1 / 2 ≤ c) (hc2 : c < 1) (n : V3) (hn : n ≠ zero) :
    ∃ b, baseVector c n = some b ∧ (b = ex ∨ b = ey) ∧ cross n b ≠ zero ∧ V3.parallel n b = false := by
  have hN := normSq_pos hn
  have key : ∃ b, baseVector c n = some b ∧ (b = ex ∨ b = ey) ∧ cross n b ≠ zero := by
    unfold baseVector nearAxis
    by_cases hx : c < cosSqVec n ex
    · have hy : ¬ c < cosSqVec n ey := by
        rw [cosSq_ex, lt_div_iff₀ hN] at hx
        rw [cosSq_ey, lt_div_iff₀ hN]
        have : n.x ^ 2 + n.y ^ 2 ≤ normSq n := by simp only [normSq, dot]; nlinarith [sq_nonneg n.z]
        nlinarith
      refine ⟨ey, by simp [hx, hy], Or.inr rfl, ?_⟩
      intro h
      have hz := congrArg V3.z h
      simp [cross, ey, zero] at hz
      rw [cosSq_ex, lt_div_iff₀ hN, hz] at hx
      nlinarith
    · refine ⟨ex, by simp [hx], Or.inl rfl, ?_⟩
      intro h
      have hy := congrArg V3.y h
      have hz := congrArg V3.z h
      simp [cross, ex, zero] at hy hz
      rw [cosSq_ex, lt_div_iff₀ hN] at hx
      have : normSq n = n.x ^ 2 := by simp only [normSq, dot]; rw [hy, hz]; ring
      nlinarith
  obtain ⟨b, h1, h2, h3⟩ := key
  refine ⟨b, h1, h2, h3, ?_⟩
  cases hp : V3.parallel n b with
  | false => rfl
  | true => exact absurd ((parallel_iff_cross n b).mp hp) h3

theorem baseVector_ne_none (c : Rat) (hc1 : 1 / 2 ≤ c) (hc2 : c < 1) (n : V3) (hn : n ≠ zero) :
    baseVector c n ≠ none := by
  obtain ⟨b, hb, _⟩ := frame_defined c hc1 hc2 n hn
  rw [hb]; simp

/-- normals along / opposite to the coordinate axes (any threshold in range): x-axis normals take y, the others x -/
theorem baseVector_axes (c : Rat) (hc1 : 1 / 2 ≤ c) (hc2 : c < 1) (k : Rat) (hk : k ≠ 0) :
    baseVector c ⟨k, 0, 0⟩ = some ey ∧ baseVector c ⟨0, k, 0⟩ = some ex ∧ baseVector c ⟨0, 0, k⟩ = some ex := by
  have hk2 : k ^ 2 / (k * k) = 1 := by field_simp
  have h0 : ¬ c < 0 := by linarith
  refine ⟨?_, ?_, ?_⟩
  · simp [baseVector, nearAxis, cosSqVec, ex, ey, dot, normSq, hk2, hc2, h0]
  · simp [baseVector, nearAxis, cosSqVec, ex, dot, normSq, h0]
  · simp [baseVector, nearAxis, cosSqVec, ex, dot, normSq, h0]

/-- C14 (frame): `w1 = n × b`, `w2 = n × w1` are orthogonal to the normal and to each other, `|w2| = |n||w1|`,
    `w1 ≠ 0`, and `(w1, w2, n)` is right-handed (the points run counter-clockwise about the normal) -/
theorem frame_orthogonal (n b : V3) (hb : cross n b ≠ zero) :
    dot (frameW1 n b) n = 0 ∧ dot (frameW2 n b) n = 0 ∧ dot (frameW1 n b) (frameW2 n b) = 0 ∧
      normSq (frameW2 n b) = normSq n * normSq (frameW1 n b) ∧ frameW1 n b ≠ zero ∧
      cross (frameW1 n b) (frameW2 n b) = smul (normSq (frameW1 n b)) n := by
  refine ⟨?_, ?_, ?_, ?_, hb, ?_⟩
  · simp only [frameW1, dot, cross]; ring
  · simp only [frameW2, dot, cross]; ring
  · simp only [frameW1, frameW2, dot, cross]; ring
  · simp only [frameW1, frameW2, normSq, dot, cross]; ring
  · apply V3.ext' <;> simp only [frameW1, frameW2, normSq, dot, cross, smul] <;> ring

theorem frame_w2_ne_zero (n b : V3) (hn : n ≠ zero) (hb : cross n b ≠ zero) : frameW2 n b ≠ zero := by
  intro h
  have h4 := (frame_orthogonal n b hb).2.2.2.1
  rw [h] at h4
  have : normSq zero = 0 := by simp [normSq, dot, zero]
  rw [this] at h4
  have h1 := normSq_pos hn
  have h2 : 0 < normSq (frameW1 n b) := normSq_pos hb
  nlinarith

/-- the whole of `get_circle_point_list`'s frame construction succeeds for every non-zero normal -/
theorem frame_total (c : Rat) (hc1 : 1 / 2 ≤ c) (hc2 : c < 1) (n : V3) (hn : n ≠ zero) :
    ∃ b, baseVector c n = some b ∧ frameW1 n b ≠ zero ∧ frameW2 n b ≠ zero ∧
      dot (frameW1 n b) n = 0 ∧ dot (frameW2 n b) n = 0 ∧ dot (frameW1 n b) (frameW2 n b) = 0 := by
  obtain ⟨b, hb, _, hcr, _⟩ := frame_defined c hc1 hc2 n hn
  have := frame_orthogonal n b hcr
  exact ⟨b, hb, hcr, frame_w2_ne_zero n b hn hcr, this.1, this.2.1, this.2.2.1⟩
#print axioms frame_defined
#print axioms frame_orthogonal
#print axioms frame_total


/-! ## 3. exact coordinates: Parallelogram and Parallelepiped -/
theorem absQ_of_nonneg {x : Rat} (h : 0 ≤ x) : absQ x = x := by
  unfold absQ; rw [if_neg (not_lt.mpr h)]
theorem absQ_of_neg {x : Rat} (h : x < 0) : absQ x = -x := by
  unfold absQ; rw [if_pos h]

/-- shoelace: twice the vector area of the cycle `p, p+a, p+a+b, p+b` is `2·(a × b)` -/
theorem parallelogram_vecArea2 (p a b : V3) : vecArea2 (parallelogramPts p a b) = smul 2 (cross a b) := by
  simp only [vecArea2, parallelogramPts, closedPairs, consec, List.cons_append, List.nil_append, List.map_cons,
    List.map_nil, vsum_cons, vsum_nil]
  apply V3.ext' <;> simp only [add, cross, smul, zero] <;> ring

/-- `(2·area)² = 4·|a × b|²` in the shoelace sense -/
theorem parallelogram_area_sq (p a b : V3) :
    normSq (vecArea2 (parallelogramPts p a b)) = 4 * normSq (cross a b) := by
  rw [parallelogram_vecArea2]; simp only [normSq, dot, smul]; ring

theorem parallelogram_centre (p a b : V3) :
    meanV (parallelogramPts p a b) = add p (smul (1/2) (add a b)) := by
  simp only [meanV, sumV, parallelogramPts, List.foldl_cons, List.foldl_nil, List.length_cons, List.length_nil]
  apply V3.ext' <;> simp only [add, smul, zero] <;> push_cast <;> ring

/-- the code's `area()` (fan of Heron triangles about the vertex centroid): `areaNum = 2·|a × b|²`, i.e.
    `area = areaNum / (2·|n|) = |a × b|` -/
theorem parallelogram_areaNum (p a b : V3) :
    (parallelogramPolygon p a b).areaNum = 2 * normSq (cross a b) := by
  have h0 := normSq_nonneg (cross a b)
  have hh : absQ (normSq (cross a b) / 2) = normSq (cross a b) / 2 := absQ_of_nonneg (by linarith)
  unfold Polygon.areaNum parallelogramPolygon
  simp only [parallelogram_centre]
  simp only [parallelogramPts, closedPairs, consec, List.cons_append, List.nil_append, List.map_cons,
    List.map_nil, List.sum_cons, List.sum_nil, triNum]
  have e1 : dot (cross a b) (cross (sub p (add p (smul (1/2) (add a b)))) (sub (add p a) (add p (smul (1/2) (add a b))))) =
      normSq (cross a b) / 2 := by simp only [normSq, dot, cross, sub, add, smul]; ring
  have e2 : dot (cross a b) (cross (sub (add p a) (add p (smul (1/2) (add a b)))) (sub (add (add p a) b) (add p (smul (1/2) (add a b))))) =
      normSq (cross a b) / 2 := by simp only [normSq, dot, cross, sub, add, smul]; ring
  have e3 : dot (cross a b) (cross (sub (add (add p a) b) (add p (smul (1/2) (add a b)))) (sub (add p b) (add p (smul (1/2) (add a b))))) =
      normSq (cross a b) / 2 := by simp only [normSq, dot, cross, sub, add, smul]; ring
  have e4 : dot (cross a b) (cross (sub (add p b) (add p (smul (1/2) (add a b)))) (sub p (add p (smul (1/2) (add a b))))) =
      normSq (cross a b) / 2 := by simp only [normSq, dot, cross, sub, add, smul]; ring
  rw [e1, e2, e3, e4, hh]; ring

/-- `area² = |a × b|²` -/
theorem parallelogram_area_closed_form (p a b : V3) (h : cross a b ≠ zero) :
    (parallelogramPolygon p a b).areaNum ^ 2 / (4 * normSq (parallelogramPolygon p a b).plane.n) =
      normSq (cross a b) := by
  have hN := normSq_pos h
  rw [parallelogram_areaNum]
  simp only [parallelogramPolygon]
  field_simp; ring

/-- the parallelogram is a valid convex polygon (coplanar, every vertex triple counter-clockwise about `a × b`) -/
theorem parallelogram_valid (p a b : V3) (h : cross a b ≠ zero) :
    polygonValidB (cross a b) (parallelogramPts p a b) = true := by
  have hN := normSq_pos h
  have o1 : orient (cross a b) p (add p a) (add (add p a) b) = normSq (cross a b) := by
    simp only [orient, normSq, dot, cross, sub, add]; ring
  have o2 : orient (cross a b) p (add p a) (add p b) = normSq (cross a b) := by
    simp only [orient, normSq, dot, cross, sub, add]; ring
  have o3 : orient (cross a b) p (add (add p a) b) (add p b) = normSq (cross a b) := by
    simp only [orient, normSq, dot, cross, sub, add]; ring
  have o4 : orient (cross a b) (add p a) (add (add p a) b) (add p b) = normSq (cross a b) := by
    simp only [orient, normSq, dot, cross, sub, add]; ring
  have i0 : dot (cross a b) (sub p p) = 0 := by simp only [dot, cross, sub]; ring
  have i1 : dot (cross a b) (sub (add p a) p) = 0 := by simp only [dot, cross, sub, add]; ring
  have i2 : dot (cross a b) (sub (add (add p a) b) p) = 0 := by simp only [dot, cross, sub, add]; ring
  have i3 : dot (cross a b) (sub (add p b) p) = 0 := by simp only [dot, cross, sub, add]; ring
  simp [polygonValidB, parallelogramPts, triplesPosB, orderedPairs, inPlane, o1, o2, o3, o4, i0, i1, i2, i3, hN]


theorem angEq_of_cls_ne {k k' : Rat × Rat} (h : angCls k.1 k.2 ≠ angCls k'.1 k'.2) : angEq k k' = false := by
  unfold angEq; simp [h]
theorem angLt_of_cls_lt {k k' : Rat × Rat} (h : angCls k.1 k.2 < angCls k'.1 k'.2) : angLt k k' = true := by
  unfold angLt; simp [h]
theorem angLt_of_cls_gt {k k' : Rat × Rat} (h : angCls k'.1 k'.2 < angCls k.1 k.2) : angLt k k' = false := by
  unfold angLt
  have h1 : ¬ angCls k.1 k.2 < angCls k'.1 k'.2 := by omega
  have h2 : ¬ angCls k.1 k.2 = angCls k'.1 k'.2 := by omega
  simp [h1, h2]


def clsOf (k : Rat × Rat) : Nat := angCls k.1 k.2

/-- the angular insertion sort on four keys of classes 0 (angle 0), (0,π), (π,2π), π -/
theorem fold_sort4 (key : V3 → Rat × Rat) (P0 P1 P2 P3 : V3)
    (h0 : clsOf (key P0) = 0) (h1 : clsOf (key P1) = 1) (h2 : clsOf (key P2) = 3) (h3 : clsOf (key P3) = 2) :
    ([P0, P1, P2, P3].foldl (fun acc p => angInsert (key p) p acc) []).map (·.2) = [P0, P1, P3, P2] := by
  unfold clsOf at h0 h1 h2 h3
  simp only [List.foldl_cons, List.foldl_nil, angInsert]
  rw [angEq_of_cls_ne (by rw [h0, h1]; decide), angLt_of_cls_gt (by rw [h0, h1]; decide)]
  simp only [Bool.false_eq_true, if_false, angInsert]
  rw [angEq_of_cls_ne (k := key P2) (k' := key P0) (by rw [h0, h2]; decide),
    angLt_of_cls_gt (k := key P2) (k' := key P0) (by rw [h0, h2]; decide)]
  simp only [Bool.false_eq_true, if_false, angInsert]
  rw [angEq_of_cls_ne (k := key P2) (k' := key P1) (by rw [h1, h2]; decide),
    angLt_of_cls_gt (k := key P2) (k' := key P1) (by rw [h1, h2]; decide)]
  simp only [Bool.false_eq_true, if_false, angInsert]
  rw [angEq_of_cls_ne (k := key P3) (k' := key P0) (by rw [h0, h3]; decide),
    angLt_of_cls_gt (k := key P3) (k' := key P0) (by rw [h0, h3]; decide)]
  simp only [Bool.false_eq_true, if_false]
  rw [angEq_of_cls_ne (k := key P3) (k' := key P1) (by rw [h1, h3]; decide),
    angLt_of_cls_gt (k := key P3) (k' := key P1) (by rw [h1, h3]; decide)]
  simp only [Bool.false_eq_true, if_false]
  rw [angEq_of_cls_ne (k := key P3) (k' := key P2) (by rw [h2, h3]; decide),
    angLt_of_cls_lt (k := key P3) (k' := key P2) (by rw [h2, h3]; decide)]
  simp

theorem cross_ne_parts {a b : V3} (h : cross a b ≠ zero) :
    a ≠ zero ∧ b ≠ zero ∧ a ≠ b ∧ add a b ≠ zero := by
  refine ⟨?_, ?_, ?_, ?_⟩
  · intro h0; apply h; rw [h0]; apply V3.ext' <;> simp [cross, zero]
  · intro h0; apply h; rw [h0]; apply V3.ext' <;> simp [cross, zero]
  · intro h0; apply h; rw [h0]; apply V3.ext' <;> simp [cross, zero] <;> ring
  · intro h0; apply h
    have hx := congrArg V3.x h0; have hy := congrArg V3.y h0; have hz := congrArg V3.z h0
    simp only [add, zero] at hx hy hz
    have ex' : a.x = -b.x := by linarith
    have ey' : a.y = -b.y := by linarith
    have ez' : a.z = -b.z := by linarith
    apply V3.ext' <;> simp only [cross, zero, ex', ey', ez'] <;> ring

theorem parallelogram_keys (p a b c v0 : V3) (h : cross a b ≠ zero) (hv0 : v0 ≠ zero)
    (hcdef : c = add p (smul (1/2) (add a b))) (hv0def : v0 = sub p c) :
    clsOf (dot (sub p c) v0, dot (sub p c) (cross (cross a b) v0)) = 0 ∧
    clsOf (dot (sub (add p a) c) v0, dot (sub (add p a) c) (cross (cross a b) v0)) = 1 ∧
    clsOf (dot (sub (add p b) c) v0, dot (sub (add p b) c) (cross (cross a b) v0)) = 3 ∧
    clsOf (dot (sub (add (add p a) b) c) v0, dot (sub (add (add p a) b) c) (cross (cross a b) v0)) = 2 := by
  have hN := normSq_pos h
  have hV := normSq_pos hv0
  have k0y : dot (sub p c) v0 = normSq v0 := by rw [← hv0def]; rfl
  have k0z : dot (sub p c) (cross (cross a b) v0) = 0 := by
    simp only [hv0def, hcdef, dot, cross, sub, add, smul]; ring
  have k1z : dot (sub (add p a) c) (cross (cross a b) v0) = normSq (cross a b) / 2 := by
    simp only [hv0def, hcdef, normSq, dot, cross, sub, add, smul]; ring
  have k2z : dot (sub (add p b) c) (cross (cross a b) v0) = - (normSq (cross a b) / 2) := by
    simp only [hv0def, hcdef, normSq, dot, cross, sub, add, smul]; ring
  have k3y : dot (sub (add (add p a) b) c) v0 = - normSq v0 := by
    simp only [hv0def, hcdef, normSq, dot, sub, add, smul]; ring
  have k3z : dot (sub (add (add p a) b) c) (cross (cross a b) v0) = 0 := by
    simp only [hv0def, hcdef, dot, cross, sub, add, smul]; ring
  unfold clsOf
  refine ⟨?_, ?_, ?_, ?_⟩
  · rw [k0z, k0y]; simp [angCls, le_of_lt hV]
  · rw [k1z]
    have h1 : normSq (cross a b) / 2 ≠ 0 := by linarith
    have h2 : 0 < normSq (cross a b) / 2 := by linarith
    simp [angCls, h1, h2]
  · rw [k2z]
    have h1 : -(normSq (cross a b) / 2) ≠ 0 := by linarith
    have h2 : ¬ 0 < -(normSq (cross a b) / 2) := by linarith
    simp only [angCls, if_neg h1, if_neg h2]
  · rw [k3z, k3y]
    have h2 : ¬ 0 ≤ -normSq v0 := by linarith
    simp [angCls, h2]

theorem add_left_ne {p u v : V3} (h : u ≠ v) : add p u ≠ add p v := by
  intro h0; apply h
  have hx := congrArg V3.x h0; have hy := congrArg V3.y h0; have hz := congrArg V3.z h0
  simp only [add] at hx hy hz
  apply V3.ext' <;> linarith

/-- C14, Parallelogram through the ConvexPolygon constructor model: the four points `(p, p+a, p+b, p+a+b)` are
    accepted (no error for non-parallel `a, b`) and sorted into the cycle `p, p+a, p+a+b, p+b` with plane normal
    `a × b` and centre `p + (a+b)/2` -/
theorem parallelogram_mk (p a b : V3) (h : cross a b ≠ zero) :
    Polygon.mk? [p, add p a, add p b, add (add p a) b] =
      .ok ⟨parallelogramPts p a b, ⟨p, cross a b⟩, add p (smul (1/2) (add a b))⟩ := by
  obtain ⟨ha, hb, hab, hsum⟩ := cross_ne_parts h
  have hN := normSq_pos h
  have d01 : add p a ≠ p := by
    intro h0; apply ha
    have hx := congrArg V3.x h0; have hy := congrArg V3.y h0; have hz := congrArg V3.z h0
    simp only [add] at hx hy hz
    apply V3.ext' <;> simp only [zero] <;> linarith
  have d02 : add p b ≠ p := by
    intro h0; apply hb
    have hx := congrArg V3.x h0; have hy := congrArg V3.y h0; have hz := congrArg V3.z h0
    simp only [add] at hx hy hz
    apply V3.ext' <;> simp only [zero] <;> linarith
  have d03 : add (add p a) b ≠ p := by
    intro h0; apply hsum
    have hx := congrArg V3.x h0; have hy := congrArg V3.y h0; have hz := congrArg V3.z h0
    simp only [add] at hx hy hz
    apply V3.ext' <;> simp only [add, zero] <;> linarith
  have d12 : add p b ≠ add p a := add_left_ne (Ne.symm hab)
  have d13 : add (add p a) b ≠ add p a := by
    intro h0; apply hb
    have hx := congrArg V3.x h0; have hy := congrArg V3.y h0; have hz := congrArg V3.z h0
    simp only [add] at hx hy hz
    apply V3.ext' <;> simp only [zero] <;> linarith
  have d23 : add (add p a) b ≠ add p b := by
    intro h0; apply ha
    have hx := congrArg V3.x h0; have hy := congrArg V3.y h0; have hz := congrArg V3.z h0
    simp only [add] at hx hy hz
    apply V3.ext' <;> simp only [zero] <;> linarith
  have hded : dedupV [p, add p a, add p b, add (add p a) b] = [p, add p a, add p b, add (add p a) b] := by
    simp [dedupV, d01, d02, d03, d12, d13, d23]
  have hn0 : cross (sub (add p a) p) (sub (add p b) p) = cross a b := by
    apply V3.ext' <;> simp only [cross, sub, add] <;> ring
  have hc : meanV [p, add p a, add p b, add (add p a) b] = add p (smul (1/2) (add a b)) := by
    simp only [meanV, sumV, List.foldl_cons, List.foldl_nil, List.length_cons, List.length_nil]
    apply V3.ext' <;> simp only [add, smul, zero] <;> push_cast <;> ring
  have hv0 : sub p (add p (smul (1/2) (add a b))) ≠ zero := by
    intro h0; apply hsum
    have hx := congrArg V3.x h0; have hy := congrArg V3.y h0; have hz := congrArg V3.z h0
    simp only [add, sub, smul, zero] at hx hy hz
    apply V3.ext' <;> simp only [add, zero] <;> linarith
  obtain ⟨c0, c1, c2, c3⟩ := parallelogram_keys p a b _ _ h hv0 rfl rfl
  have pl0 : (⟨p, cross a b⟩ : Plane).contains p = true := by simp [Plane.contains]
  have pl1 : (⟨p, cross a b⟩ : Plane).contains (add p a) = true := by
    simp only [Plane.contains, beq_iff_eq, dot, cross, add]; ring
  have pl2 : (⟨p, cross a b⟩ : Plane).contains (add p b) = true := by
    simp only [Plane.contains, beq_iff_eq, dot, cross, add]; ring
  have pl3 : (⟨p, cross a b⟩ : Plane).contains (add (add p a) b) = true := by
    simp only [Plane.contains, beq_iff_eq, dot, cross, add]; ring
  have hsort := fold_sort4 (fun q => (dot (sub q (add p (smul (1/2) (add a b)))) (sub p (add p (smul (1/2) (add a b)))),
      dot (sub q (add p (smul (1/2) (add a b)))) (cross (cross a b) (sub p (add p (smul (1/2) (add a b)))))))
    p (add p a) (add p b) (add (add p a) b) c0 c1 c2 c3
  unfold Polygon.mk?
  simp only [hded, hn0, hc, Bool.false_eq_true, if_false]
  simp only [List.length_cons, List.length_nil, if_neg h, if_neg hv0, List.all_cons, List.all_nil, pl0, pl1, pl2, pl3]
  simp only [Nat.reduceAdd, Bool.and_self, Bool.not_true, Bool.false_eq_true, if_false]
  exact congrArg (fun l => Except.ok (⟨l, ⟨p, cross a b⟩, add p (smul (1/2) (add a b))⟩ : Polygon)) hsort

/-! ### Parallelepiped -/

/-- coordinates ↔ skeleton: the six `Parallelogram` cycles are the id faces placed by `ppVertex` -/
theorem ppFacesCoded_eq_skeleton (p v1 v2 v3 : V3) :
    (ppFacesCoded p v1 v2 v3).map Prod.snd = parallelepipedFaces.map (List.map (ppVertex p v1 v2 v3)) := by
  simp only [ppFacesCoded, parallelepipedFaces, parallelogramPts, ppVertex, List.map_cons, List.map_nil]
  simp only [List.cons.injEq, and_true]
  norm_num
  and_intros <;> apply V3.ext' <;> simp only [add, neg, zero] <;> ring

theorem flipCycle_map {α β : Type} (g : α → β) (l : List α) : flipCycle (l.map g) = (flipCycle l).map g := by
  cases l with
  | nil => rfl
  | cons a t => simp [flipCycle, List.map_reverse]

theorem applyFlips_map {α β : Type} (g : α → β) : ∀ (mask : List Bool) (fs : List (List α)),
    applyFlips mask (fs.map (List.map g)) = (applyFlips mask fs).map (List.map g) := by
  intro mask
  induction mask with
  | nil => intro fs; simp [applyFlips]
  | cons b mask ih =>
    intro fs
    cases fs with
    | nil => simp [applyFlips]
    | cons f fs =>
      have := ih fs
      unfold applyFlips at this ⊢
      simp only [List.map_cons, List.zipWith_cons_cons, this]
      cases b <;> simp [flipCycle_map]

theorem parallelepipedOrientedNeg_closed : ClosedDir parallelepipedOrientedNeg :=
  closedDirFastB_sound 8 _ (by decide +kernel) (by decide +kernel)

/-- the constructor's orientation tests `(plane.p − centre)·plane.n` are `∓ det/2` -/
theorem pp_orient_tests (p v1 v2 v3 : V3) :
    (ppFacesCoded p v1 v2 v3).map (fun f => dot (sub (f.2.headD zero) (ppCentre p v1 v2 v3)) f.1) =
      [-(det3 v1 v2 v3 / 2), -(det3 v1 v2 v3 / 2), det3 v1 v2 v3 / 2,
       det3 v1 v2 v3 / 2, det3 v1 v2 v3 / 2, -(det3 v1 v2 v3 / 2)] := by
  simp only [ppFacesCoded, parallelogramPts, List.map_cons, List.map_nil, List.headD_cons, ppCentre, det3]
  simp only [List.cons.injEq, and_true]
  and_intros <;> simp only [dot, cross, sub, add, neg, smul] <;> ring

/-- the orientation repair applies exactly the flip mask of the skeleton (det > 0) or its complement (det < 0) -/
theorem pp_orientOut_pos (p v1 v2 v3 : V3) (hd : 0 < det3 v1 v2 v3) :
    ((ppFacesCoded p v1 v2 v3).map (orientOut (ppCentre p v1 v2 v3))).map Prod.snd =
      parallelepipedOriented.map (List.map (ppVertex p v1 v2 v3)) := by
  have ht := pp_orient_tests p v1 v2 v3
  unfold parallelepipedOriented
  rw [← applyFlips_map, ← ppFacesCoded_eq_skeleton]
  simp only [ppFacesCoded, List.map_cons, List.map_nil, List.cons.injEq, and_true] at ht ⊢
  obtain ⟨t0, t1, t2, t3, t4, t5⟩ := ht
  have hn : -(det3 v1 v2 v3 / 2) < 0 := by linarith
  have hp : ¬ det3 v1 v2 v3 / 2 < 0 := by linarith
  simp only [orientOut, t0, t1, t2, t3, t4, t5, if_pos hn, if_neg hp]
  rfl

theorem pp_orientOut_neg (p v1 v2 v3 : V3) (hd : det3 v1 v2 v3 < 0) :
    ((ppFacesCoded p v1 v2 v3).map (orientOut (ppCentre p v1 v2 v3))).map Prod.snd =
      parallelepipedOrientedNeg.map (List.map (ppVertex p v1 v2 v3)) := by
  have ht := pp_orient_tests p v1 v2 v3
  unfold parallelepipedOrientedNeg
  rw [← applyFlips_map, ← ppFacesCoded_eq_skeleton]
  simp only [ppFacesCoded, List.map_cons, List.map_nil, List.cons.injEq, and_true] at ht ⊢
  obtain ⟨t0, t1, t2, t3, t4, t5⟩ := ht
  have hn : ¬ -(det3 v1 v2 v3 / 2) < 0 := by linarith
  have hp : det3 v1 v2 v3 / 2 < 0 := by linarith
  simp only [orientOut, t0, t1, t2, t3, t4, t5, if_neg hn, if_pos hp]
  rfl

/-- C14: after the constructor's orientation repair the parallelepiped is a closed surface -/
theorem parallelepiped_closed (p v1 v2 v3 : V3) (hd : det3 v1 v2 v3 ≠ 0) :
    ClosedSurface (((ppFacesCoded p v1 v2 v3).map (orientOut (ppCentre p v1 v2 v3))).map Prod.snd) := by
  rcases lt_or_gt_of_ne hd with h | h
  · rw [pp_orientOut_neg p v1 v2 v3 h]
    exact closedSurface_of_closedDir _ parallelepipedOrientedNeg_closed _
  · rw [pp_orientOut_pos p v1 v2 v3 h]
    exact parallelepiped_closedSurface _

theorem pp_vol6_pos (p v1 v2 v3 q : V3) :
    vol6 (parallelepipedOriented.map (List.map (ppVertex p v1 v2 v3))) q = 6 * det3 v1 v2 v3 := by
  simp only [parallelepipedOriented, parallelepipedFlips, parallelepipedFaces, applyFlips, List.zipWith_cons_cons,
    List.zipWith_nil_right, flipCycle, List.reverse_cons, List.reverse_nil, List.nil_append, List.cons_append,
    if_true, if_false, Bool.false_eq_true, List.map_cons, List.map_nil, ppVertex]
  norm_num
  simp only [vol6, vecArea2, closedPairs, consec, List.cons_append, List.nil_append, List.map_cons, List.map_nil,
    vsum_cons, vsum_nil, List.sum_cons, List.sum_nil, List.headD_cons, det3]
  simp only [dot, cross, sub, add, zero]
  ring

theorem pp_vol6_neg (p v1 v2 v3 q : V3) :
    vol6 (parallelepipedOrientedNeg.map (List.map (ppVertex p v1 v2 v3))) q = -(6 * det3 v1 v2 v3) := by
  simp only [parallelepipedOrientedNeg, parallelepipedFlipsNeg, parallelepipedFlips, parallelepipedFaces, applyFlips,
    List.zipWith_cons_cons, List.zipWith_nil_right, flipCycle, List.reverse_cons, List.reverse_nil, List.nil_append,
    List.cons_append, if_true, if_false, Bool.false_eq_true, List.map_cons, List.map_nil, ppVertex, Bool.not_true,
    Bool.not_false]
  norm_num
  simp only [vol6, vecArea2, closedPairs, consec, List.cons_append, List.nil_append, List.map_cons, List.map_nil,
    vsum_cons, vsum_nil, List.sum_cons, List.sum_nil, List.headD_cons, det3]
  simp only [dot, cross, sub, add, zero]
  ring

/-- C14, Parallelepiped volume: the surface-integral volume (`vol6` = 6·volume, any reference point `q`) of the
    faces as oriented by the constructor is `6·|det(v1, v2, v3)|` -/
theorem parallelepiped_volume (p v1 v2 v3 q : V3) (hd : det3 v1 v2 v3 ≠ 0) :
    vol6 (((ppFacesCoded p v1 v2 v3).map (orientOut (ppCentre p v1 v2 v3))).map Prod.snd) q =
      6 * absQ (det3 v1 v2 v3) := by
  rcases lt_or_gt_of_ne hd with h | h
  · rw [pp_orientOut_neg p v1 v2 v3 h, pp_vol6_neg, absQ_of_neg h]; ring
  · rw [pp_orientOut_pos p v1 v2 v3 h, pp_vol6_pos, absQ_of_nonneg (le_of_lt h)]

#print axioms parallelepiped_volume
#print axioms parallelepiped_closed

theorem absQ_neg (x : Rat) : absQ (-x) = absQ x := by
  rcases lt_trichotomy x 0 with h | h | h
  · rw [absQ_of_neg h, absQ_of_nonneg (by linarith)]
  · subst h; simp
  · rw [absQ_of_nonneg (le_of_lt h), absQ_of_neg (by linarith)]; ring

theorem absQ_half (x : Rat) : absQ (x / 2) = absQ x / 2 := by
  rcases lt_or_ge x 0 with h | h
  · rw [absQ_of_neg h, absQ_of_neg (by linarith)]; ring
  · rw [absQ_of_nonneg h, absQ_of_nonneg (by linarith)]

/-- `Pyramid(face, apex).volume()` for a parallelogram face: `|(apex − q)·(a × b)| / 3` -/
theorem parallelogram_pyramidVolume (q a b apex : V3) (h : cross a b ≠ zero) :
    pyramidVolume (parallelogramPolygon q a b) apex = absQ (dot (sub apex q) (cross a b)) / 3 := by
  have hN := normSq_pos h
  unfold pyramidVolume
  rw [parallelogram_areaNum]
  simp only [pyramidHeightNum, parallelogramPolygon, parallelogramPts, List.headD_cons]
  field_simp; ring

theorem ppCentre_eq_mean (p v1 v2 v3 : V3) :
    meanV ((List.range 8).map (ppVertex p v1 v2 v3)) = ppCentre p v1 v2 v3 := by
  simp only [List.range, List.range.loop, List.map_cons, List.map_nil, ppVertex, meanV, sumV, List.foldl_cons,
    List.foldl_nil, List.length_cons, List.length_nil, ppCentre]
  norm_num
  apply V3.ext' <;> simp only [add, smul, zero] <;> ring

theorem det_ne_cross (v1 v2 v3 : V3) (hd : det3 v1 v2 v3 ≠ 0) :
    cross v1 v2 ≠ zero ∧ cross v2 v3 ≠ zero ∧ cross v1 v3 ≠ zero := by
  refine ⟨?_, ?_, ?_⟩ <;> intro h <;> apply hd <;>
    have hx := congrArg V3.x h <;> have hy := congrArg V3.y h <;> have hz := congrArg V3.z h <;>
    simp only [cross, zero] at hx hy hz <;> simp only [det3, dot, cross]
  · linear_combination v3.x * hx + v3.y * hy + v3.z * hz
  · linear_combination v1.x * hx + v1.y * hy + v1.z * hz
  · linear_combination (-v2.x) * hx - v2.y * hy - v2.z * hz

theorem cross_neg_neg (a b : V3) : cross (neg a) (neg b) = cross a b := by
  apply V3.ext' <;> simp only [cross, neg] <;> ring

/-- C14, Parallelepiped volume as the code computes it (`volume()` = Σ pyramid volumes about the vertex centroid):
    `|det(v1, v2, v3)|` -/
theorem parallelepiped_pyramid_volume (p v1 v2 v3 : V3) (hd : det3 v1 v2 v3 ≠ 0) :
    ((ppPolygons p v1 v2 v3).map (fun f => pyramidVolume f (ppCentre p v1 v2 v3))).sum = absQ (det3 v1 v2 v3) := by
  obtain ⟨h12, h23, h13⟩ := det_ne_cross v1 v2 v3 hd
  have h12' : cross (neg v1) (neg v2) ≠ zero := by rw [cross_neg_neg]; exact h12
  have h23' : cross (neg v2) (neg v3) ≠ zero := by rw [cross_neg_neg]; exact h23
  have h13' : cross (neg v1) (neg v3) ≠ zero := by rw [cross_neg_neg]; exact h13
  simp only [ppPolygons, List.map_cons, List.map_nil, List.sum_cons, List.sum_nil]
  rw [parallelogram_pyramidVolume _ _ _ _ h12, parallelogram_pyramidVolume _ _ _ _ h23,
    parallelogram_pyramidVolume _ _ _ _ h13, parallelogram_pyramidVolume _ _ _ _ h12',
    parallelogram_pyramidVolume _ _ _ _ h23', parallelogram_pyramidVolume _ _ _ _ h13']
  have e0 : dot (sub (ppCentre p v1 v2 v3) p) (cross v1 v2) = det3 v1 v2 v3 / 2 := by
    simp only [ppCentre, det3, dot, cross, sub, add, smul]; ring
  have e1 : dot (sub (ppCentre p v1 v2 v3) p) (cross v2 v3) = det3 v1 v2 v3 / 2 := by
    simp only [ppCentre, det3, dot, cross, sub, add, smul]; ring
  have e2 : dot (sub (ppCentre p v1 v2 v3) p) (cross v1 v3) = -(det3 v1 v2 v3 / 2) := by
    simp only [ppCentre, det3, dot, cross, sub, add, smul]; ring
  have e3 : dot (sub (ppCentre p v1 v2 v3) (add (add (add p v1) v2) v3)) (cross (neg v1) (neg v2)) =
      -(det3 v1 v2 v3 / 2) := by
    simp only [ppCentre, det3, dot, cross, sub, add, smul, neg]; ring
  have e4 : dot (sub (ppCentre p v1 v2 v3) (add (add (add p v1) v2) v3)) (cross (neg v2) (neg v3)) =
      -(det3 v1 v2 v3 / 2) := by
    simp only [ppCentre, det3, dot, cross, sub, add, smul, neg]; ring
  have e5 : dot (sub (ppCentre p v1 v2 v3) (add (add (add p v1) v2) v3)) (cross (neg v1) (neg v3)) =
      det3 v1 v2 v3 / 2 := by
    simp only [ppCentre, det3, dot, cross, sub, add, smul, neg]; ring
  rw [e0, e1, e2, e3, e4, e5]
  simp only [absQ_neg, absQ_half]
  ring
theorem ppVertex_eq_ppPoint (p v1 v2 v3 : V3) (i : Nat) :
    ppVertex p v1 v2 v3 i = ppPoint p v1 v2 v3 (if i % 2 = 1 then 1 else 0) (if (i / 2) % 2 = 1 then 1 else 0)
      (if (i / 4) % 2 = 1 then 1 else 0) := by
  unfold ppVertex ppPoint
  split <;> split <;> split <;> apply V3.ext' <;> simp [add, smul, zero]

/-- C14, convexity of the parallelepiped: every point `p + a·v1 + b·v2 + c·v3`, `0 ≤ a, b, c ≤ 1` (in particular each
    of the eight vertices) is on the inner side of every face as oriented by the constructor -/
theorem parallelepiped_convex (p v1 v2 v3 : V3) (hd : det3 v1 v2 v3 ≠ 0) (a b c : Rat)
    (ha : 0 ≤ a ∧ a ≤ 1) (hb : 0 ≤ b ∧ b ≤ 1) (hc : 0 ≤ c ∧ c ≤ 1) :
    ∀ f ∈ (ppFacesCoded p v1 v2 v3).map (orientOut (ppCentre p v1 v2 v3)),
      dot (sub (ppPoint p v1 v2 v3 a b c) (f.2.headD zero)) f.1 ≤ 0 := by
  have t0 : dot (sub p (ppCentre p v1 v2 v3)) (cross v1 v2) = -(det3 v1 v2 v3 / 2) := by
    simp only [ppCentre, det3, dot, cross, sub, add, smul]; ring
  have t1 : dot (sub p (ppCentre p v1 v2 v3)) (cross v2 v3) = -(det3 v1 v2 v3 / 2) := by
    simp only [ppCentre, det3, dot, cross, sub, add, smul]; ring
  have t2 : dot (sub p (ppCentre p v1 v2 v3)) (cross v1 v3) = det3 v1 v2 v3 / 2 := by
    simp only [ppCentre, det3, dot, cross, sub, add, smul]; ring
  have t3 : dot (sub (add (add (add p v1) v2) v3) (ppCentre p v1 v2 v3)) (cross (neg v1) (neg v2)) =
      det3 v1 v2 v3 / 2 := by
    simp only [ppCentre, det3, dot, cross, sub, add, smul, neg]; ring
  have t4 : dot (sub (add (add (add p v1) v2) v3) (ppCentre p v1 v2 v3)) (cross (neg v2) (neg v3)) =
      det3 v1 v2 v3 / 2 := by
    simp only [ppCentre, det3, dot, cross, sub, add, smul, neg]; ring
  have t5 : dot (sub (add (add (add p v1) v2) v3) (ppCentre p v1 v2 v3)) (cross (neg v1) (neg v3)) =
      -(det3 v1 v2 v3 / 2) := by
    simp only [ppCentre, det3, dot, cross, sub, add, smul, neg]; ring
  -- the six inner-side values
  have e0 : dot (sub (ppPoint p v1 v2 v3 a b c) p) (cross v1 v2) = c * det3 v1 v2 v3 := by
    simp only [ppPoint, det3, dot, cross, sub, add, smul]; ring
  have e1 : dot (sub (ppPoint p v1 v2 v3 a b c) p) (cross v2 v3) = a * det3 v1 v2 v3 := by
    simp only [ppPoint, det3, dot, cross, sub, add, smul]; ring
  have e2 : dot (sub (ppPoint p v1 v2 v3 a b c) p) (cross v1 v3) = -(b * det3 v1 v2 v3) := by
    simp only [ppPoint, det3, dot, cross, sub, add, smul]; ring
  have e3 : dot (sub (ppPoint p v1 v2 v3 a b c) (add (add (add p v1) v2) v3)) (cross (neg v1) (neg v2)) =
      (c - 1) * det3 v1 v2 v3 := by
    simp only [ppPoint, det3, dot, cross, sub, add, smul, neg]; ring
  have e4 : dot (sub (ppPoint p v1 v2 v3 a b c) (add (add (add p v1) v2) v3)) (cross (neg v2) (neg v3)) =
      (a - 1) * det3 v1 v2 v3 := by
    simp only [ppPoint, det3, dot, cross, sub, add, smul, neg]; ring
  have e5 : dot (sub (ppPoint p v1 v2 v3 a b c) (add (add (add p v1) v2) v3)) (cross (neg v1) (neg v3)) =
      (1 - b) * det3 v1 v2 v3 := by
    simp only [ppPoint, det3, dot, cross, sub, add, smul, neg]; ring
  have dneg : ∀ x n : V3, dot x (neg n) = -dot x n := by intro x n; simp only [dot, neg]; ring
  intro f hf
  simp only [ppFacesCoded, parallelogramPts, List.map_cons, List.map_nil, List.mem_cons, List.not_mem_nil,
    or_false] at hf
  rcases lt_or_gt_of_ne hd with h | h
  · have hn : ¬ -(det3 v1 v2 v3 / 2) < 0 := by linarith
    have hp : det3 v1 v2 v3 / 2 < 0 := by linarith
    simp only [orientOut, List.headD_cons, t0, t1, t2, t3, t4, t5, if_neg hn, if_pos hp] at hf
    rcases hf with rfl | rfl | rfl | rfl | rfl | rfl <;>
      simp only [List.headD_cons, flipCycle, dneg, e0, e1, e2, e3, e4, e5] <;> nlinarith
  · have hn : -(det3 v1 v2 v3 / 2) < 0 := by linarith
    have hp : ¬ det3 v1 v2 v3 / 2 < 0 := by linarith
    simp only [orientOut, List.headD_cons, t0, t1, t2, t3, t4, t5, if_pos hn, if_neg hp] at hf
    rcases hf with rfl | rfl | rfl | rfl | rfl | rfl <;>
      simp only [List.headD_cons, flipCycle, dneg, e0, e1, e2, e3, e4, e5] <;> nlinarith
#print axioms parallelepiped_convex
#print axioms parallelogram_mk
#print axioms parallelogram_areaNum
#print axioms parallelepiped_pyramid_volume

end Builders
end G3D
