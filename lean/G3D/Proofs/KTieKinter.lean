import G3D.Extracted.Kinter
import G3D.Model.InterFlat
import G3D.Proofs.Vec
/-! # kinter (rational part): `inter_line_plane`  (C01)
    `G3D.Extracted.impl_*` are regenerated on every run (tools/extract_kinter.py, engine tools/kernels_engine.py): the REAL code is run on
    symbolic numbers, every comparison against the tolerance is recorded (operands and shape) and answered from a scripted
    path.  Each kernel has its own `section`: when the walk of ONE kernel fails the generated file holds only the marker
    `impl_<kernel>_EXTRACTION_FAILED` for it and exactly the theorems of that section stop compiling. -/
namespace G3D.KTie.Kinter
open G3D V3 G3D.Extracted

section interLinePlane
theorem interLinePlane_tests_tie (l : Line) (pl : Plane) :
    impl_interLinePlane_containsResidual0 l.sv l.dv pl.p pl.n = dot l.sv pl.n - dot pl.p pl.n ∧
    impl_interLinePlane_parallelResidual0 l.sv l.dv pl.p pl.n = dot l.dv pl.n := by
  constructor
  · simp only [impl_interLinePlane_containsResidual0, dot]; ring
  · simp only [impl_interLinePlane_parallelResidual0, dot]; ring

theorem interLinePlane_mu_tie (l : Line) (pl : Plane) :
    impl_interLinePlane_mu l.sv l.dv pl.p pl.n = (dot pl.n pl.p - dot pl.n l.sv) / dot pl.n l.dv := by
  simp only [impl_interLinePlane_mu, dot, Rat.zero_add]

theorem interLinePlane_point_tie (l : Line) (pl : Plane) :
    impl_interLinePlane_point l.sv l.dv pl.p pl.n
      = add l.sv (smul (impl_interLinePlane_mu l.sv l.dv pl.p pl.n) l.dv) := by
  apply V3.ext' <;> simp only [impl_interLinePlane_point, impl_interLinePlane_mu, add, smul] <;> ring

/-- on the path walked by the extractor (`l` not contained, not parallel) the model returns the extracted point -/
theorem interLinePlane_tie (l : Line) (pl : Plane) (hc : pl.containsLine l = false)
    (hp : V3.orthogonal l.dv pl.n = false) :
    interLinePlane l pl = .ok (some (.point (impl_interLinePlane_point l.sv l.dv pl.p pl.n))) := by
  rw [interLinePlane_point_tie, interLinePlane_mu_tie]
  simp [interLinePlane, hc, hp]

/-- in particular whenever `n . dv ≠ 0` -/
theorem interLinePlane_tie' (l : Line) (pl : Plane) (h : dot pl.n l.dv ≠ 0) :
    interLinePlane l pl = .ok (some (.point (impl_interLinePlane_point l.sv l.dv pl.p pl.n))) := by
  have hp : V3.orthogonal l.dv pl.n = false := by
    simp only [V3.orthogonal, beq_eq_false_iff_ne, ne_eq]
    intro h0; apply h; simp only [dot] at h0 ⊢; linarith
  have hc : pl.containsLine l = false := by simp [Plane.containsLine, hp]
  exact interLinePlane_tie l pl hc hp

/-- the two recorded tests, read exactly, are the model's two guards -/
theorem interLinePlane_guards (l : Line) (pl : Plane) :
    (pl.containsLine l = true ↔ impl_interLinePlane_containsResidual0 l.sv l.dv pl.p pl.n = 0 ∧
        impl_interLinePlane_parallelResidual0 l.sv l.dv pl.p pl.n = 0) ∧
    (V3.orthogonal l.dv pl.n = true ↔ impl_interLinePlane_parallelResidual0 l.sv l.dv pl.p pl.n = 0) := by
  obtain ⟨h1, h2⟩ := interLinePlane_tests_tie l pl
  rw [h1, h2]
  simp only [Plane.containsLine, Plane.contains, V3.orthogonal, Bool.and_eq_true, beq_iff_eq, and_self]

theorem interLinePlane_paths :
    impl_interLinePlane_path = [("abs(R) < eps", false), ("abs(R) < eps", false)] ∧
    impl_interLinePlaneContained_path = [("abs(R) < eps", true), ("abs(R) < eps", true)] ∧
    impl_interLinePlaneParallel_path = [("abs(R) < eps", false), ("abs(R) < eps", true)] ∧
    impl_interLinePlaneSvInPlane_path = [("abs(R) < eps", true), ("abs(R) < eps", false), ("abs(R) < eps", false)] := by
  decide
end interLinePlane

end G3D.KTie.Kinter
