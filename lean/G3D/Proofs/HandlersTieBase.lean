import G3D.Model.PyRt
import G3D.Proofs.HandlersTieAttr
/-! Generic lemmas about the Python runtime `G3D.PyRt` used by `G3D.Proofs.HandlersTie` (Mathlib-free). -/
set_option linter.unusedSimpArgs false
namespace G3D.Tie
open V3 PyRt

/-! ### the `Except` monad, normalised to constructors -/
@[simp, pyrt] theorem ok_bind {ε α β} (a : α) (f : α → Except ε β) : (Except.ok a >>= f) = f a := rfl
@[simp, pyrt] theorem error_bind {ε α β} (e : ε) (f : α → Except ε β) : (Except.error e >>= f) = .error e := rfl
@[simp, pyrt] theorem pure_eq_ok {ε α} (a : α) : (pure a : Except ε α) = .ok a := rfl
@[simp, pyrt] theorem throw_eq_error {ε α} (e : ε) : (throw e : Except ε α) = .error e := rfl
@[simp, pyrt] theorem except_map_ok {ε α β} (f : α → β) (a : α) : (f <$> (Except.ok a : Except ε α)) = .ok (f a) := rfl
@[simp, pyrt] theorem except_map_error {ε α β} (f : α → β) (e : ε) : (f <$> (Except.error e : Except ε α)) = .error e := rfl

@[simp, pyrt] theorem bind_ok_comp {ε α β} (x : Except ε α) (f : α → β) : (x >>= fun a => Except.ok (f a)) = f <$> x := by
  cases x <;> rfl
@[simp] theorem map_id_except {ε α} (x : Except ε α) : ((fun a => a) <$> x) = x := by cases x <;> rfl

/-- the simp set that evaluates runtime primitives on constructor-headed arguments -/
macro "pysimp" : tactic => `(tactic| simp [Val.ofRes, Val.ofOpt, Val.truthy, Val.isInst, pyIsInstance, pyIsNone, pyNot,
  pyAnd, pyOr, pyIn, pyContains, pyIntersection, pyMeth_intersection, pyCallHandler, interRef, interFlatPair, interFlat,
  runHandler, pyEq, pyNe, pyCmp, CmpOp.eval, CmpOp.evalInt, Val.asRat?, pyLen, pyList, pySetNew, pyIter,
  pyAttr_plane, pyAttr_points, pyAttr_convex_polygons, pyAttr_segment_set, pyAttr_start_point, pyAttr_end_point,
  pyAttr_point, pyAttr_line, pyDeepcopy])
macro "pysimp" "[" ts:Lean.Parser.Tactic.simpLemma,* "]" : tactic =>
  `(tactic| simp [Val.ofRes, Val.ofOpt, Val.truthy, Val.isInst, pyIsInstance, pyIsNone, pyNot,
  pyAnd, pyOr, pyIn, pyContains, pyIntersection, pyMeth_intersection, pyCallHandler, interRef, interFlatPair, interFlat,
  runHandler, pyEq, pyNe, pyCmp, CmpOp.eval, CmpOp.evalInt, Val.asRat?, pyLen, pyList, pySetNew, pyIter,
  pyAttr_plane, pyAttr_points, pyAttr_convex_polygons, pyAttr_segment_set, pyAttr_start_point, pyAttr_end_point,
  pyAttr_point, pyAttr_line, pyDeepcopy, $ts,*])


/-! ### evaluation rules on constructors (the simp set `pyrt`; none of them unfolds anything on a variable) -/
section rules
variable (p q : V3) (l : Line) (a : Plane) (s : Seg) (h : HalfLine) (P : Polygon) (B : Polyhedron) (o : Obj)
  (b : Bool) (n m : Int) (os : List Obj) (t : PyTy) (v w : Val) (x y : PyM Val) (e : BErr)

@[pyrt] theorem truthy_bool : (Val.bool b).truthy = b := rfl
@[pyrt] theorem truthy_none : Val.none.truthy = false := rfl
@[pyrt] theorem truthy_obj : (Val.obj o).truthy = true := rfl
@[pyrt] theorem ofRes_ok (r : Option Obj) : Val.ofRes (.ok r) = .ok (Val.ofOpt r) := rfl
@[pyrt] theorem ofRes_error : Val.ofRes (.error e) = .error e := rfl
@[pyrt] theorem ofOpt_none : Val.ofOpt none = .none := rfl
@[pyrt] theorem ofOpt_some : Val.ofOpt (some o) = .obj o := rfl
@[pyrt] theorem pyIsNone_none : pyIsNone .none = .bool true := rfl
@[pyrt] theorem pyIsNone_obj : pyIsNone (.obj o) = .bool false := rfl
@[pyrt] theorem pyNot_bool : pyNot (.bool b) = .bool (!b) := rfl
@[pyrt] theorem pyIsInstance_none : pyIsInstance .none t = .bool false := by cases t <;> rfl
@[pyrt] theorem pyIsInstance_point : pyIsInstance (.obj (.flat (.point p))) t = .bool (decide (t = .Point)) := by cases t <;> rfl
@[pyrt] theorem pyIsInstance_line : pyIsInstance (.obj (.flat (.line l))) t = .bool (decide (t = .Line)) := by cases t <;> rfl
@[pyrt] theorem pyIsInstance_plane : pyIsInstance (.obj (.flat (.plane a))) t = .bool (decide (t = .Plane)) := by cases t <;> rfl
@[pyrt] theorem pyIsInstance_seg : pyIsInstance (.obj (.flat (.seg s))) t = .bool (decide (t = .Segment)) := by cases t <;> rfl
@[pyrt] theorem pyIsInstance_halfline : pyIsInstance (.obj (.flat (.halfline h))) t = .bool (decide (t = .HalfLine)) := by cases t <;> rfl
@[pyrt] theorem pyIsInstance_polygon : pyIsInstance (.obj (.polygon P)) t = .bool (decide (t = .ConvexPolygon)) := by cases t <;> rfl
@[pyrt] theorem pyIsInstance_polyhedron : pyIsInstance (.obj (.polyhedron B)) t = .bool (decide (t = .ConvexPolyhedron)) := by cases t <;> rfl
@[pyrt] theorem pyAnd_ok_bool : pyAnd (.ok (.bool b)) y = if b then y else .ok (.bool false) := by cases b <;> rfl
@[pyrt] theorem pyOr_ok_bool : pyOr (.ok (.bool b)) y = if b then .ok (.bool true) else y := by cases b <;> rfl
@[pyrt] theorem pyAnd_error : pyAnd (.error e) y = .error e := rfl
@[pyrt] theorem pyOr_error : pyOr (.error e) y = .error e := rfl
@[pyrt] theorem pyLen_set : pyLen (.set os) = .ok (.int os.length) := rfl
@[pyrt] theorem pyLen_seq : pyLen (.seq os) = .ok (.int os.length) := rfl
@[pyrt] theorem pyLen_nums (r : List Rat) : pyLen (.nums r) = .ok (.int r.length) := rfl
@[pyrt] theorem pyList_set : pyList (.set os) = .ok (.seq os) := rfl
@[pyrt] theorem pyList_seq : pyList (.seq os) = .ok (.seq os) := rfl
@[pyrt] theorem pyIter_set : pyIter (.set os) = .ok (os.map .obj) := rfl
@[pyrt] theorem pyIter_seq : pyIter (.seq os) = .ok (os.map .obj) := rfl
@[pyrt] theorem pyIter_range : pyIter (.range n m) = .ok ((intsFrom n (m - n).toNat).map .int) := rfl
@[pyrt] theorem pyRange_int : pyRange (.int n) (.int m) = .ok (.range n m) := rfl
@[pyrt] theorem pyEq_int : pyEq (.int n) (.int m) = .ok (.bool (n == m)) := rfl
@[pyrt] theorem pyEq_point : pyEq (.obj (.flat (.point p))) (.obj (.flat (.point q))) = .ok (.bool (p == q)) := rfl
@[pyrt] theorem pyEq_line (l' : Line) : pyEq (.obj (.flat (.line l))) (.obj (.flat (.line l'))) = .ok (.bool (l.eqv l')) := rfl
@[pyrt] theorem pyEq_plane (a' : Plane) : pyEq (.obj (.flat (.plane a))) (.obj (.flat (.plane a'))) = .ok (.bool (a.eqv a')) := rfl
@[pyrt] theorem pyCmp_int (op : CmpOp) : pyCmp op (.int n) (.int m) = .ok (.bool (op.evalInt n m)) := rfl
@[pyrt] theorem evalInt_lt : CmpOp.lt.evalInt n m = decide (n < m) := rfl
@[pyrt] theorem evalInt_le : CmpOp.le.evalInt n m = decide (n ≤ m) := rfl
@[pyrt] theorem evalInt_gt : CmpOp.gt.evalInt n m = decide (m < n) := rfl
@[pyrt] theorem evalInt_ge : CmpOp.ge.evalInt n m = decide (m ≤ n) := rfl
@[pyrt] theorem pySetNew_eq : pySetNew = .set [] := rfl
@[pyrt] theorem pyDeepcopy_eq : pyDeepcopy v = v := rfl
@[pyrt] theorem pyAttr_plane_polygon : pyAttr_plane (.obj (.polygon P)) = .ok (.obj (.flat (.plane P.plane))) := rfl
@[pyrt] theorem pyAttr_points_polygon : pyAttr_points (.obj (.polygon P)) = .ok (.seq (P.pts.map ptObj)) := rfl
@[pyrt] theorem pyAttr_convex_polygons_polyhedron : pyAttr_convex_polygons (.obj (.polyhedron B)) = .ok (.seq (B.faces.map Obj.polygon)) := rfl
@[pyrt] theorem pyAttr_segment_set_polyhedron : pyAttr_segment_set (.obj (.polyhedron B)) = .ok (.set (B.edges.map sgObj)) := rfl
@[pyrt] theorem pyAttr_start_point_seg : pyAttr_start_point (.obj (.flat (.seg s))) = .ok (.obj (.flat (.point s.a))) := rfl
@[pyrt] theorem pyAttr_end_point_seg : pyAttr_end_point (.obj (.flat (.seg s))) = .ok (.obj (.flat (.point s.b))) := rfl
@[pyrt] theorem pyAttr_point_halfline : pyAttr_point (.obj (.flat (.halfline h))) = .ok (.obj (.flat (.point h.p))) := rfl
@[pyrt] theorem pyAttr_line_seg : pyAttr_line (.obj (.flat (.seg s))) = .ok (.obj (.flat (.line s.line))) := rfl
@[pyrt] theorem pyAttr_line_halfline : pyAttr_line (.obj (.flat (.halfline h))) = .ok (.obj (.flat (.line h.line))) := rfl
@[pyrt] theorem pyIn_point_line : pyIn (.obj (.flat (.point p))) (.obj (.flat (.line l))) = .ok (.bool (l.contains p)) := rfl
@[pyrt] theorem pyIn_point_plane : pyIn (.obj (.flat (.point p))) (.obj (.flat (.plane a))) = .ok (.bool (a.contains p)) := rfl
@[pyrt] theorem pyIn_point_seg : pyIn (.obj (.flat (.point p))) (.obj (.flat (.seg s))) = .ok (.bool (s.contains p)) := rfl
@[pyrt] theorem pyIn_point_halfline : pyIn (.obj (.flat (.point p))) (.obj (.flat (.halfline h))) = .ok (.bool (h.contains p)) := rfl
@[pyrt] theorem pyIn_halfline_halfline (g : HalfLine) : pyIn (.obj (.flat (.halfline g))) (.obj (.flat (.halfline h))) = .ok (.bool (h.containsHL g)) := rfl
@[pyrt] theorem pyIn_point_polygon : pyIn (.obj (.flat (.point p))) (.obj (.polygon P)) = .ok (.bool (P.contains p)) := rfl
@[pyrt] theorem pyIn_point_polyhedron : pyIn (.obj (.flat (.point p))) (.obj (.polyhedron B)) = .ok (.bool (B.contains p)) := rfl
@[pyrt] theorem pyIn_polygon_plane : pyIn (.obj (.polygon P)) (.obj (.flat (.plane a))) = .ok (.bool (P.inPlane a)) := rfl
@[pyrt] theorem pyIntersection_obj (o' : Obj) : pyIntersection (.obj o) (.obj o') = Val.ofRes (interRef o o') := rfl
@[pyrt] theorem pyMeth_intersection_obj (o' : Obj) : pyMeth_intersection (.obj o) (.obj o') = Val.ofRes (interRef o o') := rfl
@[pyrt] theorem pyVector_pt : pyVector (.obj (.flat (.point p))) (.obj (.flat (.point q))) = .ok (.vec (sub q p)) := rfl
@[pyrt] theorem pyLine_pt : pyLine (.obj (.flat (.point p))) (.obj (.flat (.point q))) =
    if q = p then .error .value else .ok (.obj (.flat (.line ⟨p, sub q p⟩))) := by
  simp only [pyLine]; split <;> rfl
@[pyrt] theorem pyMeth_parallel_vec (u u' : V3) : pyMeth_parallel (.vec u) (.vec u') = .ok (.bool (V3.parallel u u')) := rfl
@[pyrt] theorem pyMeth_move_pt (u : V3) : pyMeth_move (.obj (.flat (.point p))) (.vec u) = .ok (.obj (.flat (.point (add p u)))) := rfl
@[pyrt] theorem pyMul_vec_num (u : V3) (k : Rat) : pyMul (.vec u) (.num k) = .ok (.vec (smul k u)) := rfl
@[pyrt] theorem pyRelProjLen_vec (u u' : V3) : pyRelProjLen (.vec u) (.vec u') =
    if normSq u' = 0 then .error (.ctor .zeroDiv) else .ok (.num (dot u u' / normSq u')) := by
  simp only [pyRelProjLen]; split <;> rfl
@[pyrt] theorem pyListAppend_nums_num (r : List Rat) (k : Rat) : pyListAppend (.nums r) (.num k) = .ok (.nums (r ++ [k])) := rfl
@[pyrt] theorem pyMin_nums (k : Rat) (r : List Rat) : pyMin (.nums (k :: r)) = .ok (.num (r.foldl min k)) := rfl
@[pyrt] theorem pyMax_nums (k : Rat) (r : List Rat) : pyMax (.nums (k :: r)) = .ok (.num (r.foldl max k)) := rfl

/-! the reference dispatcher on operands of known kinds -/
@[pyrt] theorem interRef_flat_flat (g g' : Geo) : interRef (.flat g) (.flat g') = liftFlat (interFlat g g') := rfl
@[pyrt] theorem interRef_point_polygon : interRef (.flat (.point p)) (.polygon P) = interPointPolygon p P := rfl
@[pyrt] theorem interRef_polygon_point : interRef (.polygon P) (.flat (.point p)) = interPointPolygon p P := rfl
@[pyrt] theorem interRef_point_polyhedron : interRef (.flat (.point p)) (.polyhedron B) = interPointPolyhedron p B := rfl
@[pyrt] theorem interRef_polyhedron_point : interRef (.polyhedron B) (.flat (.point p)) = interPointPolyhedron p B := rfl
@[pyrt] theorem interRef_line_polygon : interRef (.flat (.line l)) (.polygon P) = interLinePolygon l P := rfl
@[pyrt] theorem interRef_polygon_line : interRef (.polygon P) (.flat (.line l)) = interLinePolygon l P := rfl
@[pyrt] theorem interRef_line_polyhedron : interRef (.flat (.line l)) (.polyhedron B) = interLinePolyhedron l B := rfl
@[pyrt] theorem interRef_polyhedron_line : interRef (.polyhedron B) (.flat (.line l)) = interLinePolyhedron l B := rfl
@[pyrt] theorem interRef_plane_polygon : interRef (.flat (.plane a)) (.polygon P) = interPlanePolygon a P := rfl
@[pyrt] theorem interRef_polygon_plane : interRef (.polygon P) (.flat (.plane a)) = interPlanePolygon a P := rfl
@[pyrt] theorem interRef_plane_polyhedron : interRef (.flat (.plane a)) (.polyhedron B) = interPlanePolyhedron a B := rfl
@[pyrt] theorem interRef_polyhedron_plane : interRef (.polyhedron B) (.flat (.plane a)) = interPlanePolyhedron a B := rfl
@[pyrt] theorem interRef_seg_polygon : interRef (.flat (.seg s)) (.polygon P) = interSegPolygon s P := rfl
@[pyrt] theorem interRef_polygon_seg : interRef (.polygon P) (.flat (.seg s)) = interSegPolygon s P := rfl
@[pyrt] theorem interRef_seg_polyhedron : interRef (.flat (.seg s)) (.polyhedron B) = interSegPolyhedron s B := rfl
@[pyrt] theorem interRef_polyhedron_seg : interRef (.polyhedron B) (.flat (.seg s)) = interSegPolyhedron s B := rfl
@[pyrt] theorem interRef_polygon_halfline : interRef (.polygon P) (.flat (.halfline h)) = interPolygonHalfLine P h := rfl
@[pyrt] theorem interRef_halfline_polygon : interRef (.flat (.halfline h)) (.polygon P) = interPolygonHalfLine P h := rfl
@[pyrt] theorem interRef_polyhedron_halfline : interRef (.polyhedron B) (.flat (.halfline h)) = interPolyhedronHalfLine B h := rfl
@[pyrt] theorem interRef_halfline_polyhedron : interRef (.flat (.halfline h)) (.polyhedron B) = interPolyhedronHalfLine B h := rfl
@[pyrt] theorem interRef_polygon_polygon (Q : Polygon) : interRef (.polygon P) (.polygon Q) = interPolygonPolygon P Q := rfl
@[pyrt] theorem interRef_polyhedron_polygon : interRef (.polyhedron B) (.polygon P) = interPolygonPolyhedron B P := rfl
@[pyrt] theorem interRef_polygon_polyhedron : interRef (.polygon P) (.polyhedron B) = interPolygonPolyhedron B P := rfl
@[pyrt] theorem interRef_polyhedron_polyhedron (A : Polyhedron) : interRef (.polyhedron A) (.polyhedron B) = interPolyhedronPolyhedron A B := rfl

@[pyrt] theorem interFlat_point_point : interFlat (.point p) (.point q) = interPointPoint p q := rfl
@[pyrt] theorem interFlat_point_line : interFlat (.point p) (.line l) = interPointLine p l := rfl
@[pyrt] theorem interFlat_point_plane : interFlat (.point p) (.plane a) = interPointPlane p a := rfl
@[pyrt] theorem interFlat_point_seg : interFlat (.point p) (.seg s) = interPointSeg p s := rfl
@[pyrt] theorem interFlat_point_halfline : interFlat (.point p) (.halfline h) = interPointHalfLine p h := rfl
@[pyrt] theorem interFlat_line_line (l' : Line) : interFlat (.line l) (.line l') = interLineLine l l' := rfl
@[pyrt] theorem interFlat_line_plane : interFlat (.line l) (.plane a) = interLinePlane l a := rfl
@[pyrt] theorem interFlat_plane_line : interFlat (.plane a) (.line l) = interLinePlane l a := rfl
@[pyrt] theorem interFlat_line_seg : interFlat (.line l) (.seg s) = interLineSeg l s := rfl
@[pyrt] theorem interFlat_seg_line : interFlat (.seg s) (.line l) = interLineSeg l s := rfl
@[pyrt] theorem interFlat_line_halfline : interFlat (.line l) (.halfline h) = interLineHalfLine l h := rfl
@[pyrt] theorem interFlat_plane_plane (a' : Plane) : interFlat (.plane a) (.plane a') = interPlanePlane a a' := rfl
@[pyrt] theorem interFlat_plane_seg : interFlat (.plane a) (.seg s) = interPlaneSeg a s := rfl
@[pyrt] theorem interFlat_seg_plane : interFlat (.seg s) (.plane a) = interPlaneSeg a s := rfl
@[pyrt] theorem interFlat_plane_halfline : interFlat (.plane a) (.halfline h) = interPlaneHalfLine a h := rfl
@[pyrt] theorem interFlat_seg_seg (s' : Seg) : interFlat (.seg s) (.seg s') = interSegSeg s s' := rfl
@[pyrt] theorem interFlat_seg_halfline : interFlat (.seg s) (.halfline h) = interSegHalfLine s h := rfl
@[pyrt] theorem interFlat_halfline_seg : interFlat (.halfline h) (.seg s) = interSegHalfLine s h := rfl
@[pyrt] theorem interFlat_halfline_halfline (h' : HalfLine) : interFlat (.halfline h) (.halfline h') = interHalfLineHalfLine h h' := rfl
@[pyrt] theorem liftFlat_ok_none : liftFlat (.ok none) = .ok none := rfl
@[pyrt] theorem liftFlat_ok_some (g : Geo) : liftFlat (.ok (some g)) = .ok (some (.flat g)) := rfl
@[pyrt] theorem liftFlat_error_bug : liftFlat (.error .bug) = .error .bug := rfl
end rules

/-! ### sets of points / segments / polygons versus the model's `addNew` / `addSeg` / `addPolygon` -/

theorem any_same_pt (ps : List V3) (q : V3) : (ps.map ptObj).any (objSame · (ptObj q)) = decide (q ∈ ps) := by
  induction ps with
  | nil => simp
  | cons p ps ih =>
    rw [List.map_cons, List.any_cons, ih]
    show (p == q || decide (q ∈ ps)) = decide (q ∈ p :: ps)
    by_cases h : p = q
    · subst h; simp
    · have h' : ¬ q = p := fun e => h e.symm
      simp [h, h']

theorem addObj_pt (ps : List V3) (q : V3) : addObj (ps.map ptObj) (ptObj q) = (addNew ps q).map ptObj := by
  unfold addObj addNew
  rw [any_same_pt]
  by_cases h : q ∈ ps <;> simp [h]

theorem addObj_pt' (ps : List V3) (q : V3) :
    addObj (ps.map ptObj) (.flat (.point q)) = (addNew ps q).map ptObj := addObj_pt ps q

theorem any_same_sg (ss : List Seg) (s : Seg) : (ss.map sgObj).any (objSame · (sgObj s)) = ss.any (·.same s) := by
  induction ss with
  | nil => simp
  | cons t ss ih => rw [List.map_cons, List.any_cons, ih, List.any_cons]; rfl

theorem addObj_sg (ss : List Seg) (s : Seg) : addObj (ss.map sgObj) (.flat (.seg s)) = (addSeg ss s).map sgObj := by
  have := any_same_sg ss s
  unfold addObj addSeg
  simp only [sgObj] at this ⊢
  rw [this]
  cases ss.any (·.same s) <;> simp [sgObj]

theorem any_same_polygon (fs : List Polygon) (P : Polygon) :
    (fs.map Obj.polygon).any (objSame · (.polygon P)) = fs.any (·.same P) := by
  induction fs with
  | nil => simp
  | cons t ss ih => rw [List.map_cons, List.any_cons, ih, List.any_cons]; rfl

theorem addObj_polygon (fs : List Polygon) (P : Polygon) :
    addObj (fs.map Obj.polygon) (.polygon P) = (addPolygon fs P).map Obj.polygon := by
  unfold addObj addPolygon
  rw [any_same_polygon]
  cases fs.any (·.same P) <;> simp

@[simp, pyrt] theorem pySetAdd_pt (ps : List V3) (q : V3) :
    pySetAdd (.set (ps.map ptObj)) (.obj (.flat (.point q))) = .ok (.set ((addNew ps q).map ptObj)) := by
  simp [pySetAdd, objHashable, addObj_pt']

@[simp, pyrt] theorem pySetAdd_sg (ss : List Seg) (s : Seg) :
    pySetAdd (.set (ss.map sgObj)) (.obj (.flat (.seg s))) = .ok (.set ((addSeg ss s).map sgObj)) := by
  simp [pySetAdd, objHashable, addObj_sg]

@[simp, pyrt] theorem pySetAdd_polygon (fs : List Polygon) (P : Polygon) :
    pySetAdd (.set (fs.map Obj.polygon)) (.obj (.polygon P)) = .ok (.set ((addPolygon fs P).map Obj.polygon)) := by
  simp [pySetAdd, objHashable, addObj_polygon]

theorem foldl_addObj_pt (qs acc : List V3) :
    (qs.map ptObj).foldl addObj (acc.map ptObj) = (qs.foldl addNew acc).map ptObj := by
  induction qs generalizing acc with
  | nil => rfl
  | cons q qs ih => simp only [List.map_cons, List.foldl_cons, addObj_pt, ih]

@[simp, pyrt] theorem pySetUnion_pt (acc qs : List V3) :
    pySetUnion (.set (acc.map ptObj)) (.set (qs.map ptObj)) = .ok (.set ((qs.foldl addNew acc).map ptObj)) := by
  simp [pySetUnion, foldl_addObj_pt]

@[simp, pyrt] theorem allPoints_pt (ps : List V3) : allPoints? (ps.map ptObj) = some ps := by
  induction ps with
  | nil => rfl
  | cons p ps ih => simp [allPoints?, ih, ptObj, objPoint?]

@[simp, pyrt] theorem allPolygons_polygon (fs : List Polygon) : allPolygons? (fs.map Obj.polygon) = some fs := by
  induction fs with
  | nil => rfl
  | cons p ps ih => simp [allPolygons?, ih, objPolygon?]

@[pyrt] theorem pyConvexPolygon_pt (ps : List V3) (r : Bool) (c : Val) :
    pyConvexPolygon (.seq (ps.map ptObj)) (.bool r) c = (fun P => Val.obj (.polygon P)) <$> liftC (Polygon.mk? ps r) := by
  simp only [pyConvexPolygon, allPoints_pt, Val.truthy]
  cases liftC (Polygon.mk? ps r) <;> rfl

@[pyrt] theorem pyConvexPolyhedron_polygon (fs : List Polygon) :
    pyConvexPolyhedron (.seq (fs.map Obj.polygon)) = (fun B => Val.obj (.polyhedron B)) <$> liftC (Polyhedron.mk? fs) := by
  simp only [pyConvexPolyhedron, allPolygons_polygon]
  cases liftC (Polyhedron.mk? fs) <;> rfl

/-! ### indexing -/
@[simp, pyrt] theorem pyIndex_seq_zero (o : Obj) (l : List Obj) : pyIndex (.seq (o :: l)) (.int 0) = .ok (.obj o) := by
  simp [pyIndex, normIdx]

@[simp, pyrt] theorem pyIndex_seq_one (o o' : Obj) (l : List Obj) : pyIndex (.seq (o :: o' :: l)) (.int 1) = .ok (.obj o') := by
  simp [pyIndex, normIdx]

/-! ### the result of a collected point set -/

/-- the common tail `len == 0 → None, == 1 → the point, == 2 → Segment, else Bug` -/
theorem ofPoints_cases (ps : List V3) :
    Val.ofRes (ofPoints ps) =
      match ps with
      | [] => .ok .none
      | [p] => .ok (.obj (.flat (.point p)))
      | [p, q] => if p = q then .error (.ctor .value) else .ok (.obj (.flat (.seg (Seg.mk' p q))))
      | _ => .error .bug := by
  unfold ofPoints ofPointSet
  split
  · simp [liftFlat, Val.ofRes, Val.ofOpt]
  · simp [liftFlat, Val.ofRes, Val.ofOpt]
  · rename_i p q
    simp only [mkSeg]
    by_cases h : p = q <;> simp [h, liftFlat, Val.ofRes, Val.ofOpt, bind, Except.bind]
  · rename_i h1 h2 h3
    split
    · exact absurd rfl h1
    · exact absurd rfl (h2 _)
    · exact absurd rfl (h3 _ _)
    · simp [liftFlat, Val.ofRes]

@[simp, pyrt] theorem pySegment_pt (p q : V3) :
    pySegment (.obj (.flat (.point p))) (.obj (.flat (.point q))) =
      if p = q then .error (.ctor .value) else .ok (.obj (.flat (.seg (Seg.mk' p q)))) := by
  simp only [pySegment]; split <;> rfl

/-! ### `for` loops: a generated loop over embedded model values versus a model-level loop -/

def ForInStep.map' {σ τ} (f : σ → τ) : ForInStep σ → ForInStep τ
  | .yield s => .yield (f s)
  | .done s => .done (f s)

/-- If one round of the generated loop body, started in (the representation of) a model state, does what one round
    of the model-level step does, the two loops agree.  `emb` embeds the model's list elements into runtime
    values, `repr` the model's loop state into the tuple of runtime variables that Lean's `for` threads. -/
theorem forIn_repr {α β σ τ : Type} (emb : α → β) (repr : σ → τ) (xs : List α)
    (body : β → τ → PyM (ForInStep τ)) (step : α → σ → PyM (ForInStep σ))
    (h : ∀ x ∈ xs, ∀ s, body (emb x) (repr s) = ForInStep.map' repr <$> step x s) :
    ∀ s, forIn (xs.map emb) (repr s) body = repr <$> forIn xs s step := by
  induction xs with
  | nil => intro s; simp
  | cons x xs ih =>
    intro s
    simp only [List.map_cons, List.forIn_cons, h x (List.mem_cons_self ..)]
    cases step x s with
    | error e => simp
    | ok r =>
      have ih' := ih (fun y hy => h y (List.mem_cons_of_mem _ hy))
      cases r <;> simp only [ForInStep.map', ih', except_map_ok, ok_bind, pure_eq_ok]

/-- the only exception a flat computation may raise is the "Bug detected" TypeError -/
def OnlyBug (r : Res) : Prop := ∀ e, r = .error e → e = .bug

/-! ### the model's recursive loops as model-level `forIn` loops -/

def faceStep (facePt : Polygon → ResB) (f : Polygon) (acc : List V3) : PyM (ForInStep (List V3)) :=
  match facePt f with
  | .ok none => .ok (.yield acc)
  | .ok (some (.flat (.seg _))) => .ok (.yield acc)
  | .ok (some (.flat (.point q))) => .ok (.yield (addNew acc q))
  | .ok _ => .error .bug
  | .error e => .error e

theorem faceHits_eq_forIn (facePt : Polygon → ResB) (fs : List Polygon) (acc : List V3) :
    faceHits facePt fs acc = forIn fs acc (faceStep facePt) := by
  induction fs generalizing acc with
  | nil => simp [faceHits]
  | cons f fs ih =>
    simp only [List.forIn_cons, faceHits, faceStep]
    split <;> simp [ih, *]

def edgeStep (edgePt : Seg → Res) (s : Seg) (acc : List V3) : PyM (ForInStep (List V3)) :=
  match edgePt s with
  | .ok none => .ok (.yield acc)
  | .ok (some (.seg _)) => .ok (.yield acc)
  | .ok (some (.point q)) => .ok (.yield (addNew acc q))
  | _ => .error .bug

theorem edgeHits_eq_forIn (edgePt : Seg → Res) (ss : List Seg) (acc : List V3) :
    edgeHits edgePt ss acc = forIn ss acc (edgeStep edgePt) := by
  induction ss generalizing acc with
  | nil => simp [edgeHits]
  | cons f fs ih =>
    simp only [List.forIn_cons, edgeHits, edgeStep]
    split <;> simp [ih, *]

end G3D.Tie
