import G3D.Model.Heap
import Mathlib.Tactic.Ring
import Mathlib.Tactic.Linarith

namespace G3D.Heap

def Bound (st : State) : Prop := ∀ o ∈ st.env, ∀ a ∈ o.leaves, a < st.store.length

/-- leaves of an owning object are shared with no other root -/
def Sep (st : State) : Prop :=
  ∀ (i j : Nat) (oi oj : Ob), i ≠ j → st.env[i]? = some oi → st.env[j]? = some oj → oi.owning = true →
    ∀ a, a ∈ oi.leaves → a ∉ oj.leaves

/-- aliased constructor arguments are not owning composites -/
def Op.okAlias (st : State) : Op → Prop
  | .build _ _ srcs _ => ∀ p ∈ srcs, p.2 = false → ∀ o, st.env[p.1]? = some o → o.owning = false
  | _ => True

theorem readLeaves_set_of_not_mem (s : Store) (ls : List Nat) (a : Nat) (v : Triple) (h : a ∉ ls) :
    readLeaves (s.set a v) ls = readLeaves s ls := by
  unfold readLeaves
  apply List.map_congr_left
  intro b hb
  have : a ≠ b := fun e => h (e ▸ hb)
  rw [List.getD_eq_getElem?_getD, List.getD_eq_getElem?_getD, List.getElem?_set_ne this]

theorem readLeaves_append_of_bound (s ext : Store) (ls : List Nat) (h : ∀ a ∈ ls, a < s.length) :
    readLeaves (s ++ ext) ls = readLeaves s ls := by
  unfold readLeaves
  apply List.map_congr_left
  intro b hb
  rw [List.getD_eq_getElem?_getD, List.getD_eq_getElem?_getD, List.getElem?_append_left (h b hb)]

theorem readLeaves_foldl_set (ls moved : List Nat) (g : Triple → Triple) (hd : ∀ a ∈ moved, a ∉ ls) :
    ∀ s : Store, readLeaves (moved.foldl (fun s a => s.set a (g (s.getD a (0,0,0)))) s) ls = readLeaves s ls := by
  induction moved with
  | nil => intro s; rfl
  | cons a rest ih =>
    intro s
    rw [List.foldl_cons, ih (fun b hb => hd b (by simp [hb]))]
    exact readLeaves_set_of_not_mem s ls a _ (hd a (by simp))

theorem length_foldl_set (moved : List Nat) (g : Triple → Triple) :
    ∀ s : Store, (moved.foldl (fun s a => s.set a (g (s.getD a (0,0,0)))) s).length = s.length := by
  induction moved with
  | nil => intro s; rfl
  | cons a rest ih => intro s; rw [List.foldl_cons, ih]; simp

/-- what `gather` produces -/
theorem gather_spec (st : State) : ∀ (srcs : List (Nat × Bool)) (s : Store) (acc : List Nat),
    st.store.length ≤ s.length →
    let r := gather st srcs s acc
    s.length ≤ r.1.length ∧ (∃ ext, r.1 = s ++ ext) ∧
    (∀ a ∈ r.2, a ∈ acc ∨ (s.length ≤ a ∧ a < r.1.length) ∨
      ∃ p ∈ srcs, p.2 = false ∧ ∃ o, st.env[p.1]? = some o ∧ a ∈ o.leaves) := by
  intro srcs
  induction srcs with
  | nil => intro s acc _; exact ⟨le_refl _, ⟨[], by simp [gather]⟩, fun a ha => Or.inl ha⟩
  | cons p rest ih =>
    intro s acc hs
    obtain ⟨i, cp⟩ := p
    simp only [gather]
    cases ho : st.env[i]? with
    | none =>
      simp only
      obtain ⟨h1, h2, h3⟩ := ih s acc hs
      refine ⟨h1, h2, fun a ha => ?_⟩
      rcases h3 a ha with h | h | ⟨p, hp, hpf, o, hoe, hao⟩
      · exact Or.inl h
      · exact Or.inr (Or.inl h)
      · exact Or.inr (Or.inr ⟨p, List.mem_cons_of_mem _ hp, hpf, o, hoe, hao⟩)
    | some o =>
      simp only
      cases cp with
      | true =>
        simp only [if_true, allocMany]
        generalize hLdef : s ++ readLeaves s o.leaves = L
        have hL : L.length = s.length + (readLeaves s o.leaves).length := by rw [← hLdef, List.length_append]
        have key := ih L
          (acc ++ (List.range (readLeaves s o.leaves).length).map (· + s.length)) (by omega)
        simp only at key
        generalize gather st rest L (acc ++ (List.range (readLeaves s o.leaves).length).map (· + s.length)) = R at key ⊢
        obtain ⟨h1, ⟨ext, h2⟩, h3⟩ := key
        refine ⟨by omega, ⟨readLeaves s o.leaves ++ ext, by rw [h2, ← hLdef, List.append_assoc]⟩, fun a ha => ?_⟩
        rcases h3 a ha with h | h | ⟨p, hp, hpf, o', hoe, hao⟩
        · rcases List.mem_append.mp h with h | h
          · exact Or.inl h
          · right; left
            obtain ⟨k, hk, rfl⟩ := List.mem_map.mp h
            rw [List.mem_range] at hk
            refine ⟨?_, ?_⟩
            · show s.length ≤ k + s.length; omega
            · show k + s.length < R.1.length; omega
        · right; left; exact ⟨by omega, h.2⟩
        · exact Or.inr (Or.inr ⟨p, List.mem_cons_of_mem _ hp, hpf, o', hoe, hao⟩)
      | false =>
        simp only [Bool.false_eq_true, if_false]
        obtain ⟨h1, h2, h3⟩ := ih s (acc ++ o.leaves) hs
        refine ⟨h1, h2, fun a ha => ?_⟩
        rcases h3 a ha with h | h | ⟨p, hp, hpf, o', hoe, hao⟩
        · rcases List.mem_append.mp h with h | h
          · exact Or.inl h
          · exact Or.inr (Or.inr ⟨(i, false), List.mem_cons_self, rfl, o, ho, h⟩)
        · exact Or.inr (Or.inl h)
        · exact Or.inr (Or.inr ⟨p, List.mem_cons_of_mem _ hp, hpf, o', hoe, hao⟩)

/-- frame property of a single step: an owning object that is not the target of the operation keeps its
    identity and its observation -/
theorem step_frame (st : State) (op : Op) (hB : Bound st) (hS : Sep st) (c : Nat) (o : Ob)
    (hc : st.env[c]? = some o) (ho : o.owning = true) (ht : op.target ≠ some c) :
    (step st op).env[c]? = some o ∧ obs (step st op) o = obs st o := by
  have hcl : c < st.env.length := by
    rcases Nat.lt_or_ge c st.env.length with h | h
    · exact h
    · rw [List.getElem?_eq_none h] at hc; cases hc
  have hoB : ∀ a ∈ o.leaves, a < st.store.length := hB o (List.mem_of_getElem? hc)
  cases op with
  | new kind v =>
    simp only [step, allocMany, obs]
    exact ⟨by rw [List.getElem?_append_left hcl]; exact hc, readLeaves_append_of_bound _ _ _ hoB⟩
  | build kind owning srcs derive =>
    simp only [step, allocMany, obs]
    obtain ⟨h1, ⟨ext, h2⟩, _⟩ := gather_spec st srcs st.store [] (le_refl _)
    refine ⟨by rw [List.getElem?_append_left hcl]; exact hc, ?_⟩
    rw [h2, List.append_assoc]
    exact readLeaves_append_of_bound _ _ _ hoB
  | write root k g =>
    simp only [step]
    cases hr : st.env[root]? with
    | none => exact ⟨hc, rfl⟩
    | some r =>
      simp only
      cases hk : r.leaves[k]? with
      | none => exact ⟨hc, rfl⟩
      | some a =>
        simp only [obs]
        refine ⟨hc, readLeaves_set_of_not_mem _ _ _ _ ?_⟩
        have hne : c ≠ root := fun e => ht (by simp [Op.target, e])
        intro ha
        exact hS c root o r hne hc hr ho a ha (List.mem_of_getElem? hk)
  | move root movedIdx g derive =>
    simp only [step]
    cases hr : st.env[root]? with
    | none => exact ⟨hc, rfl⟩
    | some r =>
      simp only [allocMany, obs]
      have hne : c ≠ root := fun e => ht (by simp [Op.target, e])
      refine ⟨by rw [List.getElem?_set_ne (Ne.symm hne)]; exact hc, ?_⟩
      have hmoved : ∀ a ∈ movedIdx.filterMap (fun k => r.leaves[k]?), a ∉ o.leaves := by
        intro a ha hao
        obtain ⟨k, _, hk⟩ := List.mem_filterMap.mp ha
        exact hS c root o r hne hc hr ho a hao (List.mem_of_getElem? hk)
      rw [readLeaves_append_of_bound _ _ _ (by intro a ha; rw [length_foldl_set]; exact hoB a ha)]
      exact readLeaves_foldl_set _ _ g hmoved _
  | copy root =>
    simp only [step]
    cases hr : st.env[root]? with
    | none => exact ⟨hc, rfl⟩
    | some r =>
      simp only [allocMany, obs]
      exact ⟨by rw [List.getElem?_append_left hcl]; exact hc, readLeaves_append_of_bound _ _ _ hoB⟩
  | query => exact ⟨hc, rfl⟩
#print axioms step_frame

theorem allocMany_spec (s : Store) (vs : List Triple) :
    (allocMany s vs).1 = s ++ vs ∧ ∀ a ∈ (allocMany s vs).2, s.length ≤ a ∧ a < (s ++ vs).length := by
  refine ⟨rfl, fun a ha => ?_⟩
  simp only [allocMany] at ha
  obtain ⟨k, hk, rfl⟩ := List.mem_map.mp ha
  rw [List.mem_range] at hk
  rw [List.length_append]
  constructor
  · show s.length ≤ k + s.length; omega
  · show k + s.length < s.length + vs.length
    omega

theorem getElem?_append_new {α} (l : List α) (x : α) (i : Nat) (o : α) (h : (l ++ [x])[i]? = some o) :
    (i < l.length ∧ l[i]? = some o) ∨ (i = l.length ∧ o = x) := by
  rcases Nat.lt_or_ge i l.length with hi | hi
  · left; rw [List.getElem?_append_left hi] at h; exact ⟨hi, h⟩
  · right
    rw [List.getElem?_append_right hi] at h
    have : i - l.length = 0 := by
      by_contra hne
      have : 1 ≤ i - l.length := Nat.one_le_iff_ne_zero.mpr hne
      rw [List.getElem?_eq_none (by simpa using this)] at h; cases h
    rw [this] at h; simp at h
    exact ⟨by omega, h.symm⟩

/-- adding a root whose leaves avoid every owning object, and which — if owning — is entirely fresh,
    preserves the invariants -/
theorem inv_push (st : State) (s' : Store) (o : Ob) (hB : Bound st) (hS : Sep st)
    (hext : ∃ ext, s' = st.store ++ ext)
    (hob : ∀ a ∈ o.leaves, a < s'.length)
    (hfresh : ∀ a ∈ o.leaves, st.store.length ≤ a ∨
      (o.owning = false ∧ ∀ (i : Nat) (oi : Ob), st.env[i]? = some oi → oi.owning = true → a ∉ oi.leaves)) :
    Bound ⟨s', st.env ++ [o]⟩ ∧ Sep ⟨s', st.env ++ [o]⟩ := by
  obtain ⟨ext, rfl⟩ := hext
  constructor
  · intro o' ho' a ha
    rcases List.mem_append.mp ho' with h | h
    · have h' : a < st.store.length := hB o' h a ha
      simp only [List.length_append]; omega
    · simp at h; subst h; exact hob a ha
  · intro i j oi oj hij hi hj hown a hai haj
    simp only at hi hj
    rcases getElem?_append_new _ _ _ _ hi with ⟨hil, hi'⟩ | ⟨hie, rfl⟩
    · rcases getElem?_append_new _ _ _ _ hj with ⟨hjl, hj'⟩ | ⟨hje, rfl⟩
      · exact hS i j oi oj hij hi' hj' hown a hai haj
      · -- old owning vs new root
        rcases hfresh a haj with h | ⟨_, h⟩
        · have h' : a < st.store.length := hB oi (List.mem_of_getElem? hi') a hai
          omega
        · exact h i oi hi' hown hai
    · rcases getElem?_append_new _ _ _ _ hj with ⟨hjl, hj'⟩ | ⟨hje, rfl⟩
      · -- new owning root vs old
        rcases hfresh a hai with h | ⟨hno, _⟩
        · have h' : a < st.store.length := hB oj (List.mem_of_getElem? hj') a haj
          omega
        · rw [hno] at hown; cases hown
      · omega

theorem step_inv (st : State) (op : Op) (hB : Bound st) (hS : Sep st)
    (hd : op.disciplined = true) (hok : op.okAlias st) : Bound (step st op) ∧ Sep (step st op) := by
  cases op with
  | new kind v =>
    simp only [step]
    have hs := allocMany_spec st.store [v]
    refine inv_push st _ _ hB hS ⟨[v], hs.1⟩ (fun a ha => by rw [hs.1]; exact (hs.2 a ha).2)
      (fun a ha => Or.inl (hs.2 a ha).1)
  | build kind owning srcs derive =>
    simp only [step]
    obtain ⟨h1, ⟨ext, h2⟩, h3⟩ := gather_spec st srcs st.store [] (le_refl _)

    generalize gather st srcs st.store [] = R at h1 h2 h3 ⊢
    have hs := allocMany_spec R.1 (derive (readLeaves R.1 R.2))
    refine inv_push st _ _ hB hS ⟨ext ++ derive (readLeaves R.1 R.2), by rw [hs.1, h2, List.append_assoc]⟩ ?_ ?_
    · intro a ha
      rw [hs.1]
      rcases List.mem_append.mp ha with h | h
      · rcases h3 a h with h' | h' | ⟨p, _, _, o, hoe, hao⟩
        · cases h'
        · rw [List.length_append]; omega
        · have := hB o (List.mem_of_getElem? hoe) a hao
          rw [List.length_append]; omega
      · exact (hs.2 a h).2
    · intro a ha
      rcases List.mem_append.mp ha with h | h
      · rcases h3 a h with h' | h' | ⟨p, hp, hpf, o, hoe, hao⟩
        · cases h'
        · exact Or.inl h'.1
        · right
          have hnown : owning = false := by
            simp only [Op.disciplined, Bool.or_eq_true, Bool.not_eq_true', List.all_eq_true] at hd
            rcases hd with h | h
            · exact h
            · have := h p hp; rw [hpf] at this; cases this
          refine ⟨hnown, fun i oi hi hown hai => ?_⟩
          have honon : o.owning = false := hok p hp hpf o hoe
          have hne : i ≠ p.1 := by
            intro e; rw [e, hoe] at hi; cases hi; rw [honon] at hown; cases hown
          exact hS i p.1 oi o hne hi hoe hown a hai hao
      · exact Or.inl (le_trans h1 (hs.2 a h).1)
  | write root k g =>
    simp only [step]
    cases hr : st.env[root]? with
    | none => exact ⟨hB, hS⟩
    | some r =>
      simp only
      cases hk : r.leaves[k]? with
      | none => exact ⟨hB, hS⟩
      | some a =>
        simp only
        exact ⟨fun o ho b hb => by simpa using hB o ho b hb, hS⟩
  | move root movedIdx g derive =>
    simp only [step]
    cases hr : st.env[root]? with
    | none => exact ⟨hB, hS⟩
    | some r =>
      simp only
      set moved := movedIdx.filterMap (fun k => r.leaves[k]?) with hmoved
      set s1 := moved.foldl (fun s a => s.set a (g (s.getD a (0,0,0)))) st.store with hs1
      have hlen1 : s1.length = st.store.length := length_foldl_set moved g st.store
      have hs := allocMany_spec s1 (derive (readLeaves s1 moved))
      have hmsub : ∀ a ∈ moved, a ∈ r.leaves := by
        intro a ha
        obtain ⟨k, _, hk⟩ := List.mem_filterMap.mp ha
        exact List.mem_of_getElem? hk
      have hrl : root < st.env.length := by
        rcases Nat.lt_or_ge root st.env.length with h | h
        · exact h
        · rw [List.getElem?_eq_none h] at hr; cases hr
      constructor
      · intro o ho a ha
        rw [hs.1, List.length_append, hlen1]
        rcases List.mem_or_eq_of_mem_set ho with h | h
        · have := hB o h a ha; omega
        · subst h
          simp only at ha
          rcases List.mem_append.mp ha with h' | h'
          · have := hB r (List.mem_of_getElem? hr) a (hmsub a h'); omega
          · have := (hs.2 a h').2; rw [List.length_append, hlen1] at this; exact this
      · intro i j oi oj hij hi hj hown a hai haj
        simp only at hi hj
        -- leaves of the rebuilt root: old leaves or fresh cells
        have leaves_new : ∀ (idx : Nat) (ob : Ob), (st.env.set root ⟨r.kind, moved ++ (allocMany s1 (derive (readLeaves s1 moved))).2, r.owning⟩)[idx]? = some ob →
            (idx ≠ root ∧ st.env[idx]? = some ob) ∨
            (idx = root ∧ ob.owning = r.owning ∧ ∀ b ∈ ob.leaves, b ∈ r.leaves ∨ st.store.length ≤ b) := by
          intro idx ob h
          by_cases he : idx = root
          · right
            subst he
            rw [List.getElem?_set_self hrl] at h
            cases h
            refine ⟨rfl, rfl, fun b hb => ?_⟩
            rcases List.mem_append.mp hb with h' | h'
            · exact Or.inl (hmsub b h')
            · right; have := (hs.2 b h').1; omega
          · left; rw [List.getElem?_set_ne (Ne.symm he)] at h; exact ⟨he, h⟩
        rcases leaves_new i oi hi with ⟨hir, hi'⟩ | ⟨hir, hio, hil⟩
        · rcases leaves_new j oj hj with ⟨hjr, hj'⟩ | ⟨hjr, _, hjl⟩
          · exact hS i j oi oj hij hi' hj' hown a hai haj
          · rcases hjl a haj with h | h
            · subst hjr; exact hS i j oi r hij hi' hr hown a hai h
            · have := hB oi (List.mem_of_getElem? hi') a hai; omega
        · rcases leaves_new j oj hj with ⟨hjr, hj'⟩ | ⟨hjr, _, _⟩
          · rcases hil a hai with h | h
            · subst hir; exact hS i j r oj hij hr hj' (hio ▸ hown) a h haj
            · have := hB oj (List.mem_of_getElem? hj') a haj; omega
          · omega
  | copy root =>
    simp only [step]
    cases hr : st.env[root]? with
    | none => exact ⟨hB, hS⟩
    | some r =>
      simp only
      have hs := allocMany_spec st.store (readLeaves st.store r.leaves)
      exact inv_push st _ _ hB hS ⟨_, hs.1⟩ (fun a ha => by rw [hs.1]; exact (hs.2 a ha).2)
        (fun a ha => Or.inl (hs.2 a ha).1)
  | query => exact ⟨hB, hS⟩

/-- a history in which no operation mutates through root `c` -/
def GoodRun (c : Nat) : State → List Op → Prop
  | _, [] => True
  | st, op :: ops => op.disciplined = true ∧ op.okAlias st ∧ op.target ≠ some c ∧ GoodRun c (step st op) ops

/-- C20 (ownership): after ANY history of constructions, mutations of other objects, deep copies and
    queries, an owning composite still has exactly the observation it had -/
theorem run_frame (c : Nat) (o : Ob) (ho : o.owning = true) : ∀ (ops : List Op) (st : State),
    Bound st → Sep st → st.env[c]? = some o → GoodRun c st ops →
    (run st ops).env[c]? = some o ∧ obs (run st ops) o = obs st o := by
  intro ops
  induction ops with
  | nil => intro st _ _ hc _; exact ⟨hc, rfl⟩
  | cons op ops ih =>
    intro st hB hS hc hg
    obtain ⟨hd, hok, ht, hrest⟩ := hg
    obtain ⟨hB', hS'⟩ := step_inv st op hB hS hd hok
    obtain ⟨hc', hobs⟩ := step_frame st op hB hS c o hc ho ht
    obtain ⟨h1, h2⟩ := ih (step st op) hB' hS' hc' hrest
    exact ⟨by simpa [run] using h1, by simp only [run, List.foldl_cons] at h2 ⊢; rw [h2, hobs]⟩
#print axioms run_frame
end G3D.Heap
