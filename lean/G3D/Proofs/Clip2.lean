import G3D.Proofs.Clip
import G3D.Model.InterBody

/-! Kernel K1, part 2: the edge loop of `inter_line_convexpolygon`. -/
namespace G3D
open V3

theorem interLineSeg_shape (l : Line) (s : Seg) (o : Option Geo) (h : interLineSeg l s = .ok o) :
    o = none ∨ (∃ q, o = some (.point q)) ∨ (o = some (.seg s) ∧ l.eqv s.line = true) := by
  unfold interLineSeg at h
  cases hr : interLineLine l s.line with
  | error e => rw [hr] at h; cases h
  | ok r =>
    rw [hr] at h
    rcases interLineLine_shape l s.line r hr with rfl | ⟨q, rfl⟩ | ⟨rfl, heq⟩
    · cases h; exact Or.inl rfl
    · simp only [interPointSeg] at h
      cases h
      by_cases hc : s.contains q = true
      · rw [if_pos hc]; exact Or.inr (Or.inl ⟨q, rfl⟩)
      · rw [if_neg hc]; exact Or.inl rfl
    · cases h; exact Or.inr (Or.inr ⟨rfl, heq⟩)

/-- what the edge loop returns -/
theorem lineEdgesLoop_spec (l : Line) (hl : l.WF) : ∀ (ss : List Seg) (acc : List V3), (∀ s ∈ ss, s.WF) →
    (∃ s0 ∈ ss, interLineSeg l s0 = .ok (some (.seg s0)) ∧ l.eqv s0.line = true ∧ lineEdgesLoop l ss acc = seg? s0) ∨
    ((∀ s ∈ ss, interLineSeg l s ≠ .ok (some (.seg s))) ∧
      ∃ acc', lineEdgesLoop l ss acc = ofPoints acc' ∧
        (∀ q, q ∈ acc' ↔ (q ∈ acc ∨ ∃ s ∈ ss, interLineSeg l s = .ok (some (.point q)))) ∧
        (acc.Nodup → acc'.Nodup)) := by
  intro ss
  induction ss with
  | nil =>
    intro acc _
    right
    exact ⟨by simp, acc, rfl, by simp, id⟩
  | cons s ss ih =>
    intro acc hw
    have hsw : s.WF := hw s (by simp)
    have hssw : ∀ s' ∈ ss, s'.WF := fun s' h => hw s' (by simp [h])
    obtain ⟨o, ho, _, _⟩ := interLineSeg_exact l s hl hsw
    rcases interLineSeg_shape l s o ho with rfl | ⟨q, rfl⟩ | ⟨rfl, heq⟩
    · -- no hit on this edge
      have hstep : lineEdgesLoop l (s :: ss) acc = lineEdgesLoop l ss acc := by
        simp only [lineEdgesLoop, ho]
      rcases ih acc hssw with ⟨s0, hs0, h1, h2, h3⟩ | ⟨hno, acc', h1, h2, h3⟩
      · left; exact ⟨s0, by simp [hs0], h1, h2, by rw [hstep]; exact h3⟩
      · right
        refine ⟨?_, acc', by rw [hstep]; exact h1, ?_, h3⟩
        · intro s' hs'
          rcases List.mem_cons.mp hs' with rfl | hs'
          · rw [ho]; intro hcon; cases hcon
          · exact hno s' hs'
        · intro q
          rw [h2 q]
          constructor
          · rintro (h | ⟨s', hs', hq⟩)
            · exact Or.inl h
            · exact Or.inr ⟨s', by simp [hs'], hq⟩
          · rintro (h | ⟨s', hs', hq⟩)
            · exact Or.inl h
            · rcases List.mem_cons.mp hs' with rfl | hs'
              · rw [ho] at hq; cases hq
              · exact Or.inr ⟨s', hs', hq⟩
    · -- a point hit
      have hstep : lineEdgesLoop l (s :: ss) acc = lineEdgesLoop l ss (addNew acc q) := by
        simp only [lineEdgesLoop, ho]
      rcases ih (addNew acc q) hssw with ⟨s0, hs0, h1, h2, h3⟩ | ⟨hno, acc', h1, h2, h3⟩
      · left; exact ⟨s0, by simp [hs0], h1, h2, by rw [hstep]; exact h3⟩
      · right
        refine ⟨?_, acc', by rw [hstep]; exact h1, ?_, fun hnd => h3 (nodup_addNew acc q hnd)⟩
        · intro s' hs'
          rcases List.mem_cons.mp hs' with rfl | hs'
          · rw [ho]; intro hcon; cases hcon
          · exact hno s' hs'
        · intro q'
          rw [h2 q', mem_addNew]
          constructor
          · rintro ((h | rfl) | ⟨s', hs', hq⟩)
            · exact Or.inl h
            · exact Or.inr ⟨s, by simp, ho⟩
            · exact Or.inr ⟨s', by simp [hs'], hq⟩
          · rintro (h | ⟨s', hs', hq⟩)
            · exact Or.inl (Or.inl h)
            · rcases List.mem_cons.mp hs' with rfl | hs'
              · rw [ho] at hq; cases hq; exact Or.inl (Or.inr rfl)
              · exact Or.inr ⟨s', hs', hq⟩
    · -- the line runs along this edge: early return
      left
      refine ⟨s, by simp, ho, heq, ?_⟩
      simp only [lineEdgesLoop, ho]
#print axioms lineEdgesLoop_spec

/-! ### in-plane facts -/
theorem coplanar_cross_zero {n u v : V3} (hn : n ≠ zero) (hu : dot n u = 0) (hv : dot n v = 0)
    (hw : dot n (cross u v) = 0) : cross u v = zero := by
  have hN := normSq_pos hn
  have key : smul (normSq n) (cross u v) = zero := by
    apply V3.ext' <;> simp only [smul, zero, normSq]
    · have : dot n n * (cross u v).x = dot n (cross u v) * n.x - (cross n u).x * dot n v + (cross n v).x * dot n u := by
        simp only [dot, cross]; ring
      rw [this, hu, hv, hw]; ring
    · have : dot n n * (cross u v).y = dot n (cross u v) * n.y - (cross n u).y * dot n v + (cross n v).y * dot n u := by
        simp only [dot, cross]; ring
      rw [this, hu, hv, hw]; ring
    · have : dot n n * (cross u v).z = dot n (cross u v) * n.z - (cross n u).z * dot n v + (cross n v).z * dot n u := by
        simp only [dot, cross]; ring
      rw [this, hu, hv, hw]; ring
  exact smul_eq_zero_of_ne (ne_of_gt hN) key

theorem inPlane_diff {n pl a b : V3} (ha : inPlane n pl a = true) (hb : inPlane n pl b = true) :
    dot n (sub b a) = 0 := by
  simp only [inPlane, beq_iff_eq] at ha hb
  have : dot n (sub b a) = dot n (sub b pl) - dot n (sub a pl) := by simp only [dot, sub]; ring
  rw [this, ha, hb]; ring

/-- in the plane, `orient n a b x = 0` puts `x` on the carrier line of `(a, b)` -/
theorem on_carrier_of_orient_zero {n pl a b x : V3} (hn : n ≠ zero) (hab : a ≠ b)
    (ha : inPlane n pl a = true) (hb : inPlane n pl b = true) (hx : inPlane n pl x = true)
    (h0 : orient n a b x = 0) : ∃ u : Rat, x = add a (smul u (sub b a)) := by
  have hd : sub b a ≠ zero := fun h => hab (sub_eq_zero_iff.mp h).symm
  have hc : cross (sub b a) (sub x a) = zero :=
    coplanar_cross_zero hn (inPlane_diff ha hb) (inPlane_diff ha hx) h0
  have hc' : cross (sub x a) (sub b a) = zero := by
    rw [cross_anticomm, hc]; apply V3.ext' <;> simp [neg, zero]
  obtain ⟨k, hk⟩ : ∃ k, sub x a = smul k (sub b a) := ⟨_, exists_smul_of_cross_zero hd hc'⟩
  refine ⟨k, ?_⟩
  have hx1 := congrArg V3.x hk; have hy1 := congrArg V3.y hk; have hz1 := congrArg V3.z hk
  simp only [sub, smul] at hx1 hy1 hz1
  apply V3.ext' <;> simp only [add, smul, sub] <;> linarith

theorem orient_between_zero (n a b x : V3) (h : Between a b x) : orient n a b x = 0 := by
  obtain ⟨t, _, _, rfl⟩ := h
  simp only [orient, dot, cross, sub, add, smul]; ring

theorem orient_pt (n a b sv dv : V3) (t : Rat) :
    orient n a b (pt sv dv t) = orient n a b sv + dot n (cross (sub b a) dv) * t := by
  simp only [orient, pt, dot, cross, sub, add, smul]; ring

theorem inPlane_pt {n pl sv dv : V3} (hs : inPlane n pl sv = true) (hd : dot n dv = 0) (t : Rat) :
    inPlane n pl (pt sv dv t) = true := by
  simp only [inPlane, beq_iff_eq] at hs ⊢
  have : dot n (sub (pt sv dv t) pl) = dot n (sub sv pl) + t * dot n dv := by
    simp only [pt, dot, sub, add, smul]; ring
  rw [this, hs, hd]; ring

theorem closedPairs_mem : ∀ (l : List V3) (e : V3 × V3), e ∈ closedPairs l → e.1 ∈ l ∧ e.2 ∈ l := by
  intro l e he
  cases l with
  | nil => simp [closedPairs] at he
  | cons p ps =>
    simp only [closedPairs] at he
    have hs := consec_sublist _ e.1 e.2 he
    have h1 : e.1 ∈ p :: ps ++ [p] := hs.subset (by simp)
    have h2 : e.2 ∈ p :: ps ++ [p] := hs.subset (by simp)
    simp only [List.cons_append, List.mem_cons, List.mem_append, List.mem_singleton, List.not_mem_nil, or_false] at h1 h2
    simp only [List.mem_cons]
    constructor
    · rcases h1 with h | h | h
      · exact Or.inl h
      · exact Or.inr h
      · exact Or.inl h
    · rcases h2 with h | h | h
      · exact Or.inl h
      · exact Or.inr h
      · exact Or.inl h

/-- the two endpoints of an edge of a positively oriented cycle with ≥ 3 vertices differ -/
theorem edge_ne (n : V3) (p0 p1 p2 : V3) (rest : List V3) (htp : triplesPos n (p0 :: p1 :: p2 :: rest))
    (e : V3 × V3) (he : e ∈ closedPairs (p0 :: p1 :: p2 :: rest)) : e.1 ≠ e.2 := by
  intro heq
  -- some vertex is different from e.1 (= e.2); it gives a strictly positive orientation, but orient n a a v = 0
  have hpos := closed_edges_pos n _ htp e he
  have h01 : p0 ≠ p1 := by
    intro h; have := htp.1 p1 p2 (by simp); rw [h, orient_same] at this; exact lt_irrefl _ this
  have hv : ∃ v ∈ p0 :: p1 :: p2 :: rest, v ≠ e.1 := by
    by_cases h : p0 = e.1
    · exact ⟨p1, by simp, fun h' => h01 (h.trans h'.symm)⟩
    · exact ⟨p0, by simp, h⟩
  obtain ⟨v, hv, hne⟩ := hv
  rcases hpos v hv with h | h | h
  · rw [heq, orient_same] at h; exact lt_irrefl _ h
  · exact hne h
  · exact hne (h.trans heq.symm)
#print axioms on_carrier_of_orient_zero
#print axioms edge_ne
end G3D
