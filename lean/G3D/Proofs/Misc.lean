import G3D.Proofs.TolUnique
import G3D.Proofs.Heron
import G3D.Proofs.RoundStable
import G3D.Proofs.CosSqBound

/-! Miscellaneous supporting results:
    * `TolUnique`   — uniqueness of SIG_FIGURES for an eps, completeness of `sigOf`, full restore
    * `Heron`       — Heron's formula = |u × v| / 2 (link to `triNum`)
    * `RoundStable` — `round(x, k)` (half-even) is stable under perturbations below the margin
    * `CosSqBound`  — cos²∠(n,x) + cos²∠(n,y) ≤ 1, and cos² = 1 ⇔ cross = 0 -/
