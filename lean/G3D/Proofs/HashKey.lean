import G3D.Model.HashKey
import G3D.Proofs.Equality
import Mathlib.Tactic.Ring
import Mathlib.Tactic.Linarith
import Mathlib.Tactic.LinearCombination
import Mathlib.Tactic.FieldSimp
import Mathlib.Tactic.Positivity

/-! C09: `a == b ⇒ hash(a) == hash(b)` (and the converse for the exact keys) for the flat primitives. -/
namespace G3D
open V3

/-! ### the sign function -/
theorem rsgn_cases (a : Rat) : (0 < a ∧ rsgn a = 1) ∨ (a = 0 ∧ rsgn a = 0) ∨ (a < 0 ∧ rsgn a = -1) := by
  rcases lt_trichotomy 0 a with h | h | h
  · left; exact ⟨h, by simp [rsgn, h]⟩
  · right; left; subst h; exact ⟨rfl, by simp [rsgn]⟩
  · right; right; exact ⟨h, by simp [rsgn, h, lt_asymm h]⟩

theorem rsgn_eq_mul_nonneg {a b : Rat} (h : rsgn a = rsgn b) : 0 ≤ a * b := by
  rcases rsgn_cases a with ⟨ha, ea⟩ | ⟨ha, ea⟩ | ⟨ha, ea⟩ <;>
    rcases rsgn_cases b with ⟨hb, eb⟩ | ⟨hb, eb⟩ | ⟨hb, eb⟩ <;> rw [ea, eb] at h <;>
    first | (exfalso; omega) | (subst ha; simp) | nlinarith

theorem rsgn_mul_pos {k : Rat} (hk : 0 < k) (a : Rat) : rsgn (k * a) = rsgn a := by
  rcases rsgn_cases a with ⟨ha, ea⟩ | ⟨ha, ea⟩ | ⟨ha, ea⟩
  · rw [ea]; have : 0 < k * a := mul_pos hk ha; simp [rsgn, this]
  · subst ha; simp [rsgn]
  · rw [ea]; have : k * a < 0 := mul_neg_of_pos_of_neg hk ha; simp [rsgn, this, lt_asymm this]

theorem rsgn_neg (a : Rat) : rsgn (-a) = - rsgn a := by
  rcases rsgn_cases a with ⟨ha, ea⟩ | ⟨ha, ea⟩ | ⟨ha, ea⟩
  · rw [ea]; have : -a < 0 := by linarith
    simp [rsgn, this, lt_asymm this]
  · subst ha; simp [rsgn]
  · rw [ea]; have : 0 < -a := by linarith
    simp [rsgn, this]

theorem rsgn_eq_zero_iff (a : Rat) : rsgn a = 0 ↔ a = 0 := by
  rcases rsgn_cases a with ⟨ha, ea⟩ | ⟨ha, ea⟩ | ⟨ha, ea⟩ <;> rw [ea]
  · constructor <;> intro h
    · omega
    · linarith
  · simp [ha]
  · constructor <;> intro h
    · omega
    · linarith

theorem rsgn_lt_zero_iff (a : Rat) : rsgn a < 0 ↔ a < 0 := by
  rcases rsgn_cases a with ⟨ha, ea⟩ | ⟨ha, ea⟩ | ⟨ha, ea⟩ <;> rw [ea]
  · constructor <;> intro h
    · omega
    · linarith
  · subst ha; simp
  · constructor <;> intro _
    · exact ha
    · omega

/-- equal squares and equal signs: equal numbers -/
theorem eq_of_sq_eq_of_rsgn {a b : Rat} (h : a * a = b * b) (hs : rsgn a = rsgn b) : a = b := by
  have hab := rsgn_eq_mul_nonneg hs
  have : (a - b) * (a + b) = 0 := by ring_nf; linarith
  rcases mul_eq_zero.mp this with h1 | h1
  · linarith
  · have ha : a = -b := by linarith
    have hb : b * b ≤ 0 := by rw [ha] at hab; linarith
    have hb0 : b = 0 := by nlinarith [mul_self_nonneg b]
    rw [ha, hb0]; ring

theorem cross_mul_eq {a b c d : Rat} (hab : 0 ≤ a * b) (hcd : 0 ≤ c * d)
    (h : (a * d) * (a * d) = (c * b) * (c * b)) : a * d = c * b := by
  have : (a * d - c * b) * (a * d + c * b) = 0 := by ring_nf; ring_nf at h; linarith
  rcases mul_eq_zero.mp this with h1 | h1
  · linarith
  · have e : a * d = -(c * b) := by linarith
    have h2 : 0 ≤ (a * d) * (c * b) := by
      have : (a * d) * (c * b) = (a * b) * (c * d) := by ring
      rw [this]; exact mul_nonneg hab hcd
    rw [e] at h2
    have h3 : c * b = 0 := by nlinarith [mul_self_nonneg (c * b)]
    rw [e, h3]; ring

/-! ### representatives of scalars and unit vectors -/
theorem scalKey_smul {k : Rat} (hk : 0 < k) (d N : Rat) : scalKey (k * d) (k * k * N) = scalKey d N := by
  unfold scalKey
  rw [rsgn_mul_pos hk]
  congr 1
  have : k * d * (k * d) = (k * k) * (d * d) := by ring
  rw [this]
  exact mul_div_mul_left _ _ (ne_of_gt (mul_pos hk hk))

theorem scalKey_eq_iff {d e N M : Rat} (hN : 0 < N) (hM : 0 < M) :
    scalKey d N = scalKey e M ↔ rsgn d = rsgn e ∧ d * d * M = e * e * N := by
  unfold scalKey
  rw [Prod.mk.injEq, div_eq_div_iff (ne_of_gt hN) (ne_of_gt hM)]

theorem normSq_smul (k : Rat) (v : V3) : normSq (smul k v) = k * k * normSq v := by
  simp only [normSq, dot, smul]; ring

theorem smul_ne_zero {k : Rat} {v : V3} (hk : k ≠ 0) (hv : v ≠ zero) : smul k v ≠ zero :=
  fun h => hv (smul_eq_zero_of_ne hk h)

/-- the key of `v/|v|` determines `v` up to a positive factor -/
theorem unitKey_eq_iff {u v : V3} (hu : u ≠ zero) (hv : v ≠ zero) :
    unitKey u = unitKey v ↔ ∃ k : Rat, 0 < k ∧ u = smul k v := by
  constructor
  · intro h
    have hN := normSq_pos hu
    have hM := normSq_pos hv
    unfold unitKey at h
    simp only [Prod.mk.injEq, scalKey_eq_iff hN hM] at h
    obtain ⟨⟨sx, ex⟩, ⟨sy, ey⟩, ⟨sz, ez⟩⟩ := h
    have px := rsgn_eq_mul_nonneg sx
    have py := rsgn_eq_mul_nonneg sy
    have pz := rsgn_eq_mul_nonneg sz
    have cancel : ∀ p q : Rat, p * normSq v = q * normSq v → p = q :=
      fun p q hpq => mul_right_cancel₀ (ne_of_gt hM) hpq
    have hxy : u.x * v.y = u.y * v.x := cross_mul_eq px py (cancel _ _ (by
      linear_combination (v.y * v.y) * ex - (v.x * v.x) * ey))
    have hyz : u.y * v.z = u.z * v.y := cross_mul_eq py pz (cancel _ _ (by
      linear_combination (v.z * v.z) * ey - (v.y * v.y) * ez))
    have hzx : u.z * v.x = u.x * v.z := cross_mul_eq pz px (cancel _ _ (by
      linear_combination (v.x * v.x) * ez - (v.z * v.z) * ex))
    have hc : cross u v = zero := by
      apply V3.ext' <;> simp only [cross, zero] <;> linarith
    have hk := exists_smul_of_cross_zero hv hc
    have hk0 : dot u v / normSq v ≠ 0 := smul_ne_zero_left (by rw [← hk]; exact hu)
    refine ⟨_, ?_, hk⟩
    have hd : 0 ≤ dot u v := by simp only [dot]; linarith
    exact lt_of_le_of_ne (div_nonneg hd hM.le) (Ne.symm hk0)
  · rintro ⟨k, hk, rfl⟩
    unfold unitKey
    rw [normSq_smul]
    simp only [smul, scalKey_smul hk]
#print axioms unitKey_eq_iff

/-! ### the canonical orientation -/
theorem neg_eq_smul (v : V3) : neg v = smul (-1) v := by
  apply V3.ext' <;> simp only [neg, smul] <;> ring

theorem firstSign_smul_pos {k : Rat} (hk : 0 < k) (v : V3) : firstSign (smul k v) = firstSign v := by
  have hk0 : k ≠ 0 := ne_of_gt hk
  unfold firstSign
  simp only [smul, rsgn_mul_pos hk, ne_eq, mul_eq_zero, hk0, false_or]

theorem firstSign_neg (v : V3) : firstSign (neg v) = - firstSign v := by
  unfold firstSign
  simp only [neg, rsgn_neg, ne_eq, neg_eq_zero]
  split_ifs <;> rfl

theorem firstSign_ne_zero {v : V3} (hv : v ≠ zero) : firstSign v ≠ 0 := by
  unfold firstSign
  intro h
  apply hv
  split_ifs at h with hx hy
  · exact absurd ((rsgn_eq_zero_iff _).mp h) hx
  · exact absurd ((rsgn_eq_zero_iff _).mp h) hy
  · have hz := (rsgn_eq_zero_iff _).mp h
    simp only [ne_eq, not_not] at hx hy
    exact V3.ext' hx hy hz

theorem canon_cases (v : V3) : canon v = v ∨ canon v = neg v := by
  unfold canon; split_ifs
  · right; rfl
  · left; rfl

theorem negV_ne_zero {v : V3} (hv : v ≠ zero) : neg v ≠ zero := by
  rw [neg_eq_smul]; exact smul_ne_zero (by norm_num) hv

theorem canon_ne_zero {v : V3} (hv : v ≠ zero) : canon v ≠ zero := by
  rcases canon_cases v with h | h <;> rw [h]
  · exact hv
  · exact negV_ne_zero hv

theorem normSq_canon (v : V3) : normSq (canon v) = normSq v := by
  rcases canon_cases v with h | h <;> rw [h]
  simp only [normSq, dot, neg]; ring

theorem canon_smul_pos {k : Rat} (hk : 0 < k) (v : V3) : canon (smul k v) = smul k (canon v) := by
  unfold canon
  rw [firstSign_smul_pos hk]
  split_ifs
  · apply V3.ext' <;> simp only [neg, smul] <;> ring
  · rfl

theorem canon_neg {v : V3} (hv : v ≠ zero) : canon (neg v) = canon v := by
  have h0 := firstSign_ne_zero hv
  unfold canon
  rw [firstSign_neg]
  by_cases h : firstSign v < 0
  · rw [if_pos h, if_neg (by omega)]
  · rw [if_neg h, if_pos (by omega)]
    apply V3.ext' <;> simp only [neg] <;> ring

/-- a non-zero multiple has the same canonical orientation up to the positive factor `|k|` -/
theorem canon_smul {k : Rat} (hk : k ≠ 0) {v : V3} (hv : v ≠ zero) :
    ∃ m : Rat, 0 < m ∧ m * m = k * k ∧ canon (smul k v) = smul m (canon v) := by
  rcases lt_or_gt_of_ne hk with h | h
  · refine ⟨-k, by linarith, by ring, ?_⟩
    have : smul k v = neg (smul (-k) v) := by apply V3.ext' <;> simp only [neg, smul] <;> ring
    rw [this, canon_neg (smul_ne_zero (by linarith [h]) hv), canon_smul_pos (by linarith)]
  · exact ⟨k, h, rfl, canon_smul_pos h v⟩

/-- the key of the canonical unit direction determines `v` up to a non-zero factor -/
theorem canonKey_eq_iff {u v : V3} (hu : u ≠ zero) (hv : v ≠ zero) :
    unitKey (canon u) = unitKey (canon v) ↔ ∃ k : Rat, k ≠ 0 ∧ u = smul k v := by
  rw [unitKey_eq_iff (canon_ne_zero hu) (canon_ne_zero hv)]
  constructor
  · rintro ⟨k, hk, h⟩
    rcases canon_cases u with e1 | e1 <;> rcases canon_cases v with e2 | e2 <;> rw [e1, e2] at h
    · exact ⟨k, ne_of_gt hk, h⟩
    · refine ⟨-k, by have := hk; intro h0; linarith, ?_⟩
      rw [h]; apply V3.ext' <;> simp only [neg, smul] <;> ring
    · refine ⟨-k, by have := hk; intro h0; linarith, ?_⟩
      have hx := congrArg V3.x h; have hy := congrArg V3.y h; have hz := congrArg V3.z h
      simp only [neg, smul] at hx hy hz
      apply V3.ext' <;> simp only [smul] <;> linarith
    · refine ⟨k, ne_of_gt hk, ?_⟩
      have hx := congrArg V3.x h; have hy := congrArg V3.y h; have hz := congrArg V3.z h
      simp only [neg, smul] at hx hy hz
      apply V3.ext' <;> simp only [smul] <;> linarith
  · rintro ⟨k, hk, rfl⟩
    obtain ⟨m, hm, _, e⟩ := canon_smul hk hv
    exact ⟨m, hm, e⟩
#print axioms canonKey_eq_iff

/-! ### Point -/
theorem Point.hashKey_eq_iff (p q : V3) : p = q ↔ Point.hashKey p = Point.hashKey q := Iff.rfl

/-- the literal hashed tuple carries the same information as the key -/
theorem Point.hashTuple_eq_iff (p q : V3) : Point.hashTuple p = Point.hashTuple q ↔ Point.hashKey p = Point.hashKey q := by
  unfold Point.hashTuple Point.hashKey
  constructor
  · intro h
    simp only [Prod.mk.injEq] at h
    exact V3.ext' h.1 h.2.1 h.2.2.1
  · rintro rfl; rfl

/-! ### Line -/
theorem Line.foot_reparam (sv dv : V3) (hd : dv ≠ zero) (t k : Rat) (hk : k ≠ 0) :
    Line.foot ⟨add sv (smul t dv), smul k dv⟩ = Line.foot ⟨sv, dv⟩ := by
  have hN : normSq dv ≠ 0 := ne_of_gt (normSq_pos hd)
  unfold Line.foot
  simp only
  have hc : dot (add sv (smul t dv)) (smul k dv) / normSq (smul k dv) * k = dot sv dv / normSq dv + t := by
    rw [normSq_smul]
    have : dot (add sv (smul t dv)) (smul k dv) = k * (dot sv dv + t * normSq dv) := by
      simp only [dot, add, smul, normSq]; ring
    rw [this]; field_simp
  generalize dot (add sv (smul t dv)) (smul k dv) / normSq (smul k dv) = c' at hc ⊢
  generalize dot sv dv / normSq dv = c at hc ⊢
  apply V3.ext' <;> simp only [sub, add, smul]
  · linear_combination (-dv.x) * hc
  · linear_combination (-dv.y) * hc
  · linear_combination (-dv.z) * hc

/-- `Line.__eq__` true iff equal hash keys (in particular `a == b ⇒ hash(a) == hash(b)`) -/
theorem Line.eqv_iff_hashKey (l o : Line) (hl : l.WF) (ho : o.WF) :
    l.eqv o = true ↔ Line.hashKey l = Line.hashKey o := by
  unfold Line.eqv Line.hashKey
  rw [Bool.and_eq_true, Line.contains_iff l hl, parallel_iff_cross, Prod.mk.injEq]
  constructor
  · rintro ⟨⟨t, ht⟩, hpar⟩
    have hk := exists_smul_of_cross_zero hl hpar
    generalize dot o.dv l.dv / normSq l.dv = k at hk
    have hk0 : k ≠ 0 := smul_ne_zero_left (by rw [← hk]; exact ho)
    constructor
    · exact ((canonKey_eq_iff ho hl).mpr ⟨k, hk0, hk⟩).symm
    · have e : o.foot = Line.foot ⟨add l.sv (smul t l.dv), smul k l.dv⟩ := by
        unfold Line.foot; simp only; rw [← ht, ← hk]
      rw [e, Line.foot_reparam _ _ hl t k hk0]
  · rintro ⟨hkey, hfoot⟩
    obtain ⟨k, hk0, hk⟩ := (canonKey_eq_iff hl ho).mp hkey
    constructor
    · unfold Line.foot at hfoot
      generalize dot l.sv l.dv / normSq l.dv = a at hfoot
      generalize dot o.sv o.dv / normSq o.dv = b at hfoot
      obtain ⟨t, ht⟩ : ∃ t : Rat, t * k = b - a * k := ⟨(b - a * k) / k, by field_simp⟩
      have hx := congrArg V3.x hfoot; have hy := congrArg V3.y hfoot; have hz := congrArg V3.z hfoot
      have hx' := congrArg V3.x hk; have hy' := congrArg V3.y hk; have hz' := congrArg V3.z hk
      simp only [sub, smul] at hx hy hz hx' hy' hz'
      refine ⟨t, ?_⟩
      apply V3.ext' <;> simp only [add, smul]
      · linear_combination (-1) * hx + (-(t + a)) * hx' + (-o.dv.x) * ht
      · linear_combination (-1) * hy + (-(t + a)) * hy' + (-o.dv.y) * ht
      · linear_combination (-1) * hz + (-(t + a)) * hz' + (-o.dv.z) * ht
    · rw [hk]; apply V3.ext' <;> simp only [cross, smul, zero] <;> ring
#print axioms Line.eqv_iff_hashKey

/-- `a == b ⇒ hash(a) == hash(b)` for lines -/
theorem Line.hashKey_of_eqv (l o : Line) (hl : l.WF) (ho : o.WF) (h : l.eqv o = true) :
    Line.hashKey l = Line.hashKey o := (Line.eqv_iff_hashKey l o hl ho).mp h

theorem Line.eqv_refl (l : Line) (hl : l.WF) : l.eqv l = true :=
  (Line.eqv_iff_hashKey l l hl hl).mpr rfl

theorem Line.eqv_comm (l o : Line) (hl : l.WF) (ho : o.WF) : l.eqv o = o.eqv l := by
  rw [Bool.eq_iff_iff, Line.eqv_iff_hashKey l o hl ho, Line.eqv_iff_hashKey o l ho hl]
  exact eq_comm

theorem Line.eqv_trans (a b c : Line) (ha : a.WF) (hb : b.WF) (hc : c.WF)
    (h1 : a.eqv b = true) (h2 : b.eqv c = true) : a.eqv c = true :=
  (Line.eqv_iff_hashKey a c ha hc).mpr
    (((Line.eqv_iff_hashKey a b ha hb).mp h1).trans ((Line.eqv_iff_hashKey b c hb hc).mp h2))

/-! ### Plane -/
/-- flipping `n` and `d = n·p` together is `d = canon(n)·p` -/
theorem Plane.canonD_eq (pl : Plane) : pl.canonD = dot (canon pl.n) pl.p := by
  unfold Plane.canonD canon; split_ifs
  · simp only [dot, neg]; ring
  · rfl

/-- `Plane.__eq__` true iff equal hash keys (in particular `a == b ⇒ hash(a) == hash(b)`) -/
theorem Plane.eqv_iff_hashKey (a b : Plane) (ha : a.WF) (hb : b.WF) :
    a.eqv b = true ↔ Plane.hashKey a = Plane.hashKey b := by
  unfold Plane.eqv Plane.hashKey
  rw [Bool.and_eq_true, parallel_iff_cross, Prod.mk.injEq, Plane.canonD_eq, Plane.canonD_eq]
  simp only [Plane.contains, beq_iff_eq]
  constructor
  · rintro ⟨hp, hc⟩
    have hk := exists_smul_of_cross_zero hb hc
    generalize dot a.n b.n / normSq b.n = k at hk
    have hk0 : k ≠ 0 := smul_ne_zero_left (by rw [← hk]; exact ha)
    obtain ⟨m, hm, hmk, hcan⟩ := canon_smul hk0 hb
    rw [hk, hcan, normSq_smul, ← hmk]
    constructor
    · exact (unitKey_eq_iff (smul_ne_zero hm.ne' (canon_ne_zero hb)) (canon_ne_zero hb)).mpr ⟨m, hm, rfl⟩
    · have : dot (smul m (canon b.n)) a.p = m * dot (canon b.n) b.p := by
        rcases canon_cases b.n with e | e <;> rw [e] <;> simp only [dot, smul, neg] at hp ⊢
        · linear_combination m * hp
        · linear_combination (-m) * hp
      rw [this, scalKey_smul hm]
  · rintro ⟨hkey, hd⟩
    obtain ⟨m, hm, hcan⟩ := (unitKey_eq_iff (canon_ne_zero ha) (canon_ne_zero hb)).mp hkey
    have hN : normSq a.n = m * m * normSq b.n := by
      rw [← normSq_canon a.n, hcan, normSq_smul, normSq_canon]
    rw [scalKey_eq_iff (normSq_pos ha) (normSq_pos hb)] at hd
    obtain ⟨hs, hsq⟩ := hd
    have hda : dot (canon a.n) a.p = m * dot (canon b.n) b.p := by
      apply eq_of_sq_eq_of_rsgn
      · rw [hN] at hsq
        apply mul_right_cancel₀ (ne_of_gt (normSq_pos hb))
        linear_combination hsq
      · rw [rsgn_mul_pos hm]; exact hs
    constructor
    · rw [hcan] at hda
      apply mul_left_cancel₀ hm.ne'
      rcases canon_cases b.n with e | e <;> rw [e] at hda <;> simp only [dot, smul, neg] at hda ⊢
      · linear_combination hda
      · linear_combination (-1) * hda
    · obtain ⟨k, _, hk⟩ := (canonKey_eq_iff ha hb).mp hkey
      rw [hk]; apply V3.ext' <;> simp only [cross, smul, zero] <;> ring
#print axioms Plane.eqv_iff_hashKey

/-- `a == b ⇒ hash(a) == hash(b)` for planes -/
theorem Plane.hashKey_of_eqv (a b : Plane) (ha : a.WF) (hb : b.WF) (h : a.eqv b = true) :
    Plane.hashKey a = Plane.hashKey b := (Plane.eqv_iff_hashKey a b ha hb).mp h

theorem Plane.eqv_refl (a : Plane) (ha : a.WF) : a.eqv a = true :=
  (Plane.eqv_iff_hashKey a a ha ha).mpr rfl

theorem Plane.eqv_comm (a b : Plane) (ha : a.WF) (hb : b.WF) : a.eqv b = b.eqv a := by
  rw [Bool.eq_iff_iff, Plane.eqv_iff_hashKey a b ha hb, Plane.eqv_iff_hashKey b a hb ha]
  exact eq_comm

theorem Plane.eqv_trans (a b c : Plane) (ha : a.WF) (hb : b.WF) (hc : c.WF)
    (h1 : a.eqv b = true) (h2 : b.eqv c = true) : a.eqv c = true :=
  (Plane.eqv_iff_hashKey a c ha hc).mpr
    (((Plane.eqv_iff_hashKey a b ha hb).mp h1).trans ((Plane.eqv_iff_hashKey b c hb hc).mp h2))

/-! ### Segment -/
theorem V3.lexLe_iff (a b : V3) : V3.lexLe a b = true ↔
    (a.x < b.x ∨ (a.x = b.x ∧ (a.y < b.y ∨ (a.y = b.y ∧ a.z ≤ b.z)))) := by
  simp only [V3.lexLe, Bool.or_eq_true, Bool.and_eq_true, decide_eq_true_eq, beq_iff_eq]

theorem V3.lexLe_total (a b : V3) : V3.lexLe a b = true ∨ V3.lexLe b a = true := by
  rw [V3.lexLe_iff, V3.lexLe_iff]
  rcases lt_trichotomy a.x b.x with hx | hx | hx
  · left; left; exact hx
  · rcases lt_trichotomy a.y b.y with hy | hy | hy
    · left; right; exact ⟨hx, Or.inl hy⟩
    · rcases le_total a.z b.z with hz | hz
      · left; right; exact ⟨hx, Or.inr ⟨hy, hz⟩⟩
      · right; right; exact ⟨hx.symm, Or.inr ⟨hy.symm, hz⟩⟩
    · right; right; exact ⟨hx.symm, Or.inl hy⟩
  · right; left; exact hx

theorem V3.lexLe_antisymm {a b : V3} (h1 : V3.lexLe a b = true) (h2 : V3.lexLe b a = true) : a = b := by
  rw [V3.lexLe_iff] at h1 h2
  rcases h1 with h | ⟨hx, h | ⟨hy, hz⟩⟩ <;> rcases h2 with g | ⟨gx, g | ⟨gy, gz⟩⟩ <;>
    first | (exfalso; linarith) | exact V3.ext' hx hy (le_antisymm hz gz)

/-- `Segment.__eq__` (model `Seg.same`) true iff equal hash keys; no well-formedness needed -/
theorem Seg.same_iff_hashKey (s o : Seg) : s.same o = true ↔ Seg.hashKey s = Seg.hashKey o := by
  unfold Seg.same Seg.hashKey Point.hashKey
  simp only [Bool.or_eq_true, Bool.and_eq_true, beq_iff_eq]
  constructor
  · rintro (⟨h1, h2⟩ | ⟨h1, h2⟩)
    · rw [h1, h2]
    · rw [← h1, ← h2]
      by_cases c1 : V3.lexLe s.a s.b = true <;> by_cases c2 : V3.lexLe s.b s.a = true
      · have := V3.lexLe_antisymm c1 c2; rw [this]
      · rw [if_pos c1, if_neg c2]
      · rw [if_neg c1, if_pos c2]
      · exact absurd (V3.lexLe_total s.a s.b) (by simp [c1, c2])
  · intro h
    split_ifs at h <;> simp only [Prod.mk.injEq] at h
    · exact Or.inl h
    · exact Or.inr ⟨h.2, h.1⟩
    · exact Or.inr ⟨h.1, h.2⟩
    · exact Or.inl ⟨h.2, h.1⟩
#print axioms Seg.same_iff_hashKey

theorem Seg.eqv_eq_same (s o : Seg) : s.eqv o = s.same o := rfl

theorem Seg.eqv_iff_hashKey (s o : Seg) : s.eqv o = true ↔ Seg.hashKey s = Seg.hashKey o :=
  Seg.same_iff_hashKey s o

/-- the relational form of the key ("same unordered pair of end-point keys") is `Segment.__eq__` -/
theorem Seg.same_eq_sameKey (s o : Seg) : s.same o = s.sameKey o := by
  unfold Seg.same Seg.sameKey Point.hashKey
  rw [Bool.and_comm (s.b == o.a)]

theorem Seg.sameKey_iff_hashKey (s o : Seg) : s.sameKey o = true ↔ Seg.hashKey s = Seg.hashKey o := by
  rw [← Seg.same_eq_sameKey]; exact Seg.same_iff_hashKey s o

/-- `a == b ⇒ hash(a) == hash(b)` for segments -/
theorem Seg.hashKey_of_same (s o : Seg) (h : s.same o = true) : Seg.hashKey s = Seg.hashKey o :=
  (Seg.same_iff_hashKey s o).mp h

theorem Seg.same_refl (s : Seg) : s.same s = true := (Seg.same_iff_hashKey s s).mpr rfl

theorem Seg.same_comm (s o : Seg) : s.same o = o.same s := by
  rw [Bool.eq_iff_iff, Seg.same_iff_hashKey, Seg.same_iff_hashKey]; exact eq_comm

theorem Seg.same_trans (a b c : Seg) (h1 : a.same b = true) (h2 : b.same c = true) : a.same c = true :=
  (Seg.same_iff_hashKey a c).mpr (((Seg.same_iff_hashKey a b).mp h1).trans ((Seg.same_iff_hashKey b c).mp h2))

/-! ### HalfLine -/
theorem pos_parallel_iff {u v : V3} (hv : v ≠ zero) :
    (V3.parallel u v = true ∧ 0 < dot u v) ↔ ∃ k : Rat, 0 < k ∧ u = smul k v := by
  have hN := normSq_pos hv
  constructor
  · rintro ⟨hpar, hpos⟩
    rw [parallel_iff_cross] at hpar
    exact ⟨_, div_pos hpos hN, exists_smul_of_cross_zero hv hpar⟩
  · rintro ⟨k, hk, rfl⟩
    refine ⟨parallel_smul k v, ?_⟩
    have : dot (smul k v) v = k * normSq v := by simp only [dot, smul, normSq]; ring
    rw [this]; positivity

/-- `HalfLine.__eq__` (model `HalfLine.eqv`: same origin, positively parallel directions) true iff
    equal hash keys -/
theorem HalfLine.eqv_iff_hashKey (h o : HalfLine) (hh : h.WF) (ho : o.WF) :
    h.eqv o = true ↔ HalfLine.hashKey h = HalfLine.hashKey o := by
  unfold HalfLine.eqv HalfLine.hashKey Point.hashKey
  simp only [Bool.and_eq_true, beq_iff_eq, decide_eq_true_eq, Prod.mk.injEq]
  rw [unitKey_eq_iff hh.1 ho.1, and_assoc, pos_parallel_iff ho.1]
#print axioms HalfLine.eqv_iff_hashKey

/-- `a == b ⇒ hash(a) == hash(b)` for half-lines -/
theorem HalfLine.hashKey_of_eqv (h o : HalfLine) (hh : h.WF) (ho : o.WF) (e : h.eqv o = true) :
    HalfLine.hashKey h = HalfLine.hashKey o := (HalfLine.eqv_iff_hashKey h o hh ho).mp e

theorem HalfLine.eqv_refl (h : HalfLine) (hh : h.WF) : h.eqv h = true :=
  (HalfLine.eqv_iff_hashKey h h hh hh).mpr rfl

theorem HalfLine.eqv_comm (h o : HalfLine) (hh : h.WF) (ho : o.WF) : h.eqv o = o.eqv h := by
  rw [Bool.eq_iff_iff, HalfLine.eqv_iff_hashKey h o hh ho, HalfLine.eqv_iff_hashKey o h ho hh]
  exact eq_comm

theorem HalfLine.eqv_trans (a b c : HalfLine) (ha : a.WF) (hb : b.WF) (hc : c.WF)
    (h1 : a.eqv b = true) (h2 : b.eqv c = true) : a.eqv c = true :=
  (HalfLine.eqv_iff_hashKey a c ha hc).mpr
    (((HalfLine.eqv_iff_hashKey a b ha hb).mp h1).trans ((HalfLine.eqv_iff_hashKey b c hb hc).mp h2))

/-! ### equal keys iff equal point sets (combining with C08) -/
theorem Line.hashKey_iff_den (l o : Line) (hl : l.WF) (ho : o.WF) :
    Line.hashKey l = Line.hashKey o ↔ ∀ x, l.den x ↔ o.den x :=
  (Line.eqv_iff_hashKey l o hl ho).symm.trans (Line.eqv_iff l o hl ho)
theorem Plane.hashKey_iff_den (a b : Plane) (ha : a.WF) (hb : b.WF) :
    Plane.hashKey a = Plane.hashKey b ↔ ∀ x, a.den x ↔ b.den x :=
  (Plane.eqv_iff_hashKey a b ha hb).symm.trans (Plane.eqv_iff a b ha hb)
theorem Seg.hashKey_iff_den (s o : Seg) (hs : s.WF) (ho : o.WF) :
    Seg.hashKey s = Seg.hashKey o ↔ ∀ x, s.den x ↔ o.den x :=
  (Seg.eqv_iff_hashKey s o).symm.trans (Seg.eqv_iff s o hs ho)
theorem HalfLine.hashKey_iff_den (h o : HalfLine) (hh : h.WF) (ho : o.WF) :
    HalfLine.hashKey h = HalfLine.hashKey o ↔ ∀ x, h.den x ↔ o.den x :=
  (HalfLine.eqv_iff_hashKey h o hh ho).symm.trans (HalfLine.eqv_iff h o hh ho)
#print axioms Line.hashKey_iff_den
#print axioms Plane.hashKey_iff_den
#print axioms Seg.hashKey_iff_den
#print axioms HalfLine.hashKey_iff_den

/-! ### concrete checks of the key model -/
-- same line, different support point, opposite and rescaled direction
example : Line.hashKey ⟨⟨0, 0, 0⟩, ⟨1, 2, 3⟩⟩ = Line.hashKey ⟨⟨-2, -4, -6⟩, ⟨-3, -6, -9⟩⟩ := by decide +kernel
-- parallel, different lines
example : Line.hashKey ⟨⟨0, 0, 0⟩, ⟨1, 2, 3⟩⟩ ≠ Line.hashKey ⟨⟨1, 0, 0⟩, ⟨1, 2, 3⟩⟩ := by decide +kernel
-- same plane, opposite rescaled normal, different base point
example : Plane.hashKey ⟨⟨0, 0, 1⟩, ⟨0, 0, 2⟩⟩ = Plane.hashKey ⟨⟨5, 7, 1⟩, ⟨0, 0, -3⟩⟩ := by decide +kernel
-- mirror planes z = 1 and z = -1 are told apart by the sign of `d`
example : Plane.hashKey ⟨⟨0, 0, 1⟩, ⟨0, 0, 1⟩⟩ ≠ Plane.hashKey ⟨⟨0, 0, -1⟩, ⟨0, 0, 1⟩⟩ := by decide +kernel
-- reversed segment
example : Seg.hashKey (Seg.mk' ⟨1, 0, 0⟩ ⟨0, 1, 0⟩) = Seg.hashKey (Seg.mk' ⟨0, 1, 0⟩ ⟨1, 0, 0⟩) := by decide +kernel
-- half-lines: rescaled direction is the same, opposite direction is not
example : HalfLine.hashKey (HalfLine.mk' ⟨1, 1, 1⟩ ⟨1, -2, 0⟩) = HalfLine.hashKey (HalfLine.mk' ⟨1, 1, 1⟩ ⟨3, -6, 0⟩) := by
  decide +kernel
example : HalfLine.hashKey (HalfLine.mk' ⟨1, 1, 1⟩ ⟨1, -2, 0⟩) ≠ HalfLine.hashKey (HalfLine.mk' ⟨1, 1, 1⟩ ⟨-1, 2, 0⟩) := by
  decide +kernel

end G3D
