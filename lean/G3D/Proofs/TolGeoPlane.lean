import G3D.Proofs.TolGeoLine

/-! C19 for Plane.  `Plane.__init__` stores `normale.normalized()` (plane.py:76), so the defining coordinates are the
    point `p` and the RAW normal `r`; the tolerance tests see the unit normal `r/|r|`. -/
namespace G3D.TolGeo
open R3

theorem dot_pos_of_close {r r' : R3} {γ c : ℝ} (hc : 2 * c + 6 * (γ * γ) ≤ dot r r) (hc0 : 0 < c)
    (h : closeBy γ r r') : c ≤ dot r' r' ∧ 0 < dot r' r' := by
  have e : r' = add r (sub r' r) := by ext <;> simp only [add, sub] <;> ring
  have h1 := dot_add_self_ge r (sub r' r)
  rw [← e] at h1
  obtain ⟨a1, a2, a3⟩ := h.sub_coord
  have h2 := dot_self_le_of_coord a1 a2 a3
  constructor <;> linarith

/-- unit normals of raw normals that are γ-close (lengths ≥ 1/16): each coordinate within 48γ -/
theorem normalized_closeBy {r r' : R3} {γ : ℝ} (hr : 1 / 256 ≤ dot r r) (hr' : 1 / 256 ≤ dot r' r')
    (h : closeBy γ r r') : closeBy (48 * γ) (normalized r) (normalized r') := by
  obtain ⟨h1, h2, h3⟩ := normalized_close (by linarith) (by linarith) h.1 h.2.1 h.2.2
  have hL' : 1 / 16 ≤ len r' := le_len (by norm_num) (by linarith)
  refine ⟨?_, ?_, ?_⟩
  · nlinarith [abs_nonneg ((normalized r').x - (normalized r).x)]
  · nlinarith [abs_nonneg ((normalized r').y - (normalized r).y)]
  · nlinarith [abs_nonneg ((normalized r').z - (normalized r).z)]

/-- sharper version for raw normals of length ≥ 1 and γ ≤ 1/1000: each coordinate within (13/4)·γ -/
theorem normalized_closeBy_unit {r r' : R3} {γ : ℝ} (hr : 1 ≤ dot r r) (hγ : γ ≤ 1 / 1000)
    (h : closeBy γ r r') : closeBy (13 / 4 * γ) (normalized r) (normalized r') := by
  have hγ0 : 0 ≤ γ := le_trans (abs_nonneg _) h.1
  have hpos := (dot_pos_of_close (c := 1 / 4) (by nlinarith) (by norm_num) h).2
  obtain ⟨h1, h2, h3⟩ := normalized_close (by linarith) hpos h.1 h.2.1 h.2.2
  have hL : 1 ≤ len r := le_len (by norm_num) (by linarith)
  have hLL := len_close h.1 h.2.1 h.2.2
  have hL' : 99 / 100 ≤ len r' := by
    have := (abs_le.mp hLL).1
    linarith
  refine ⟨?_, ?_, ?_⟩
  · nlinarith [abs_nonneg ((normalized r').x - (normalized r).x)]
  · nlinarith [abs_nonneg ((normalized r').y - (normalized r).y)]
  · nlinarith [abs_nonneg ((normalized r').z - (normalized r).z)]

/-- the support point of a perturbed copy passes the point test of the other plane -/
theorem Plane.contains_support {eps : ℝ} {p p' n : R3} (heps : 0 < eps)
    (hp : closeBy (eps / 1000) p p') (hn : |n.x| ≤ 1 ∧ |n.y| ≤ 1 ∧ |n.z| ≤ 1) :
    Plane.containsT eps ⟨p, n⟩ p' := by
  unfold Plane.containsT
  have e : dot p' n - dot p n = dot (sub p' p) n := by simp only [dot, sub]; ring
  simp only
  rw [e]
  obtain ⟨a1, a2, a3⟩ := hp.sub_coord
  have := abs_dot_le_of_coord a1 a2 a3 hn.1 hn.2.1 hn.2.2
  linarith

/-- (a) **Plane equality, general perturbation γ of the raw normal** (γ = eps/1000 below; a larger γ covers planes
    built from three perturbed points).  Raw normal of length ≥ 1/8, `48·γ < eps`. -/
theorem Plane.eqT_of_close_gen {eps γ : ℝ} {p p' r r' : R3} (heps : 0 < eps)
    (hp : closeBy (eps / 1000) p p') (hr : closeBy γ r r') (hrr : 1 / 64 ≤ dot r r)
    (hγ : 48 * γ < eps) (hγ1 : γ ≤ 1 / 48) :
    Plane.eqT eps (Plane.ofPN p r) (Plane.ofPN p' r') ∧
    Plane.eqT eps (Plane.ofPN p' r') (Plane.ofPN p r) := by
  have hγ0 : 0 ≤ γ := le_trans (abs_nonneg _) hr.1
  have hr' := dot_pos_of_close (c := 1 / 256) (by nlinarith) (by norm_num) hr
  have hn := normalized_coord_le (r := r) (by linarith)
  have hn' := normalized_coord_le hr'.2
  have hc := normalized_closeBy (by linarith) hr'.1 hr
  obtain ⟨c1, c2, c3⟩ := hc
  have v1 : vecEq eps (normalized r) (normalized r') := by
    refine ⟨?_, ?_, ?_⟩ <;> rw [abs_sub_comm] <;> linarith
  have v2 : vecEq eps (normalized r') (normalized r) := ⟨by linarith, by linarith, by linarith⟩
  exact ⟨⟨Plane.contains_support heps hp.symm hn', Or.inr (Or.inl v1)⟩,
    ⟨Plane.contains_support heps hp hn, Or.inr (Or.inl v2)⟩⟩

/-- (a) **Plane equality.**  Point and raw normal perturbed by ≤ eps/1000 per coordinate, `|r| ≥ 1/8`, `eps ≤ 1`. -/
theorem Plane.eqT_of_close {eps : ℝ} {p p' r r' : R3} (heps : 0 < eps) (heps1 : eps ≤ 1)
    (hp : closeBy (eps / 1000) p p') (hr : closeBy (eps / 1000) r r') (hrr : 1 / 64 ≤ dot r r) :
    Plane.eqT eps (Plane.ofPN p r) (Plane.ofPN p' r') ∧
    Plane.eqT eps (Plane.ofPN p' r') (Plane.ofPN p r) :=
  Plane.eqT_of_close_gen heps hp hr hrr (by linarith) (by linarith)

/-- (b) **Plane contains the other plane's points.**  `x` lies exactly on the plane through `p` with raw normal `r`
    (`(x − p)·r = 0`), `|r| ≥ 1`, every coordinate of `x − p` is at most `R ≤ 100`.  Then `x` passes the point test of
    the copy perturbed by ≤ eps/1000 per coordinate.  (The bound `R/|r| ≲ 100` is of the right order: the test
    value moves by about `|x − p|·|Δn|` with `|Δn| ≈ (eps/1000)/|r|`.) -/
theorem Plane.containsT_of_close {eps R : ℝ} {p p' r r' x : R3} (heps : 0 < eps) (heps1 : eps ≤ 1)
    (hp : closeBy (eps / 1000) p p') (hr : closeBy (eps / 1000) r r') (hrr : 1 ≤ dot r r)
    (hon : dot (sub x p) r = 0)
    (hx : |(sub x p).x| ≤ R ∧ |(sub x p).y| ≤ R ∧ |(sub x p).z| ≤ R) (hR : R ≤ 100) :
    Plane.containsT eps (Plane.ofPN p' r') x := by
  have hR0 : 0 ≤ R := le_trans (abs_nonneg _) hx.1
  have hr' := dot_pos_of_close (c := 1 / 4) (by nlinarith) (by norm_num) hr
  have hn' := normalized_coord_le hr'.2
  have hc := normalized_closeBy_unit hrr (by linarith) hr
  unfold Plane.containsT Plane.ofPN
  simp only
  have e : dot x (normalized r') - dot p' (normalized r')
      = dot (sub x p) (sub (normalized r') (normalized r)) + dot (sub x p) (normalized r)
        + dot (sub p p') (normalized r') := by
    simp only [dot, sub]; ring
  have e0 : dot (sub x p) (normalized r) = 0 := by
    have : dot (sub x p) (normalized r) = 1 / len r * dot (sub x p) r := by
      simp only [dot, normalized, smul]; ring
    rw [this, hon, mul_zero]
  rw [e, e0, add_zero]
  have b1 := abs_dot_le_of_coord hx.1 hx.2.1 hx.2.2 hc.sub_coord.1 hc.sub_coord.2.1 hc.sub_coord.2.2
  obtain ⟨a1, a2, a3⟩ := hp.symm.sub_coord
  have b2 := abs_dot_le_of_coord a1 a2 a3 hn'.1 hn'.2.1 hn'.2.2
  have b3 := abs_add_le (dot (sub x p) (sub (normalized r') (normalized r))) (dot (sub p p') (normalized r'))
  have b4 : R * (13 / 4 * (eps / 1000)) ≤ 100 * (13 / 4 * (eps / 1000)) :=
    mul_le_mul_of_nonneg_right hR (by linarith)
  linarith

/-- (c) **Rejection.**  A plane moved ALONG its unit normal by `s` with `|s| ≥ eps` (same raw normal) is not equal to
    the original, in either order. -/
theorem Plane.not_eqT_of_normal_shift {eps s : ℝ} {p r : R3} (hrr : 0 < dot r r) (hs : eps ≤ |s|) :
    ¬ Plane.eqT eps (Plane.ofPN p r) (Plane.ofPN (add p (smul s (normalized r))) r) ∧
    ¬ Plane.eqT eps (Plane.ofPN (add p (smul s (normalized r))) r) (Plane.ofPN p r) := by
  have h1 := normalized_dot_self hrr
  have e1 : dot p (normalized r) - dot (add p (smul s (normalized r))) (normalized r)
      = -(s * dot (normalized r) (normalized r)) := by
    simp only [dot, add, smul]; ring
  have e2 : dot (add p (smul s (normalized r))) (normalized r) - dot p (normalized r)
      = s * dot (normalized r) (normalized r) := by
    simp only [dot, add, smul]; ring
  constructor
  · rintro ⟨hc, _⟩
    unfold Plane.containsT Plane.ofPN at hc
    simp only at hc
    rw [e1, h1, mul_one, abs_neg] at hc
    linarith
  · rintro ⟨hc, _⟩
    unfold Plane.containsT Plane.ofPN at hc
    simp only at hc
    rw [e2, h1, mul_one] at hc
    linarith

end G3D.TolGeo
