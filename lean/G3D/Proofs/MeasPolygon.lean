import G3D.Proofs.CtorQueries
import Mathlib.Tactic.Ring
import Mathlib.Tactic.Linarith
import Mathlib.Tactic.FieldSimp

/-! # C06, polygon: area, edge lengths and centre do not depend on the order of the input points nor on the
    orientation of the normal

    `Polygon.areaSq P = areaNum² / (4 n·n)` is the square of the area the library returns (`area = areaNum / (2|n|)`).
    * `Polygon.areaSq_eq_vecArea`: for a `Valid` polygon whose stored centre passes the edge tests (true for the vertex
      mean) `areaSq = |½ Σ pᵢ × pᵢ₊₁|²` — the squared true area, a function of the vertex cycle only.
    * `Polygon.measures_of_same_verts`: two `Valid` polygons on the same vertex SET have the same `areaSq` and the
      same multiset of squared edge lengths.
    * `Polygon.mk?_measures_input_order`: the constructor on two inputs with the same point set (any order, any
      multiplicities, either value of `reverse`).
    * `Polygon.neg?_measures`: `-P`. -/
namespace G3D
open V3

/-- the square of `ConvexPolygon.area()` : `(areaNum / (2·√(n·n)))²` -/
def Polygon.areaSq (P : Polygon) : Rat := P.areaNum ^ 2 / (4 * normSq P.plane.n)

/-- the stored centre passes the edge tests of the stored cycle (so every fan triangle is counted positively) -/
def Polygon.CentreInside (P : Polygon) : Prop :=
  ∀ e ∈ closedPairs P.pts, 0 ≤ orient P.plane.n e.1 e.2 P.center

theorem Polygon.CentreInside.of_mean {P : Polygon} (hv : P.Valid) (hc : P.center = meanV P.pts) :
    P.CentreInside := by
  obtain ⟨p0, p1, p2, rest, hp, hpl, htp⟩ := hv
  unfold Polygon.CentreInside
  rw [hc, hp]; rw [hp] at hpl htp
  exact centroid_passes_tests P.plane.n P.plane.p p0 p1 p2 rest hpl htp

/-- the area numerator is the shoelace value -/
theorem Polygon.areaNum_shoelace (P : Polygon) (hc : P.CentreInside) :
    P.areaNum = dot P.plane.n (vecArea2 P.pts) :=
  fan_abs_eq_shoelace P.plane.n P.center P.pts hc

theorem Meas.normSq_smul (k : Rat) (n : V3) : normSq (smul k n) = k ^ 2 * normSq n := by
  simp only [normSq, dot, smul]; ring

theorem Meas.normSq_neg (n : V3) : normSq (neg n) = normSq n := by
  simp only [normSq, dot, neg]; ring

theorem Meas.normSq_sub_comm (a b : V3) : normSq (sub a b) = normSq (sub b a) := by
  simp only [normSq, dot, sub]; ring

/-- **the squared area is the squared length of half the vector area** `½ Σ pᵢ × pᵢ₊₁` of the vertex cycle -/
theorem Polygon.areaSq_eq_vecArea (P : Polygon) (hv : P.Valid) (hc : P.CentreInside) :
    P.areaSq = normSq (vecArea2 P.pts) / 4 := by
  have hn : P.plane.n ≠ zero := Polygon.plane_WF P hv
  have hN := normSq_pos hn
  obtain ⟨_, _, _, _, _, hpl, _⟩ := hv
  have hpar := vecArea2_parallel P.plane.n P.plane.p hn P.pts hpl
  unfold Polygon.areaSq
  rw [P.areaNum_shoelace hc]
  set A := vecArea2 P.pts with hA
  set d := dot P.plane.n A with hd
  have h2 : normSq A = d ^ 2 / normSq P.plane.n := by
    conv_lhs => rw [hpar]
    rw [Meas.normSq_smul]
    field_simp
  rw [h2]
  field_simp

/-! ### two valid polygons on the same vertex set -/

/-- two `Valid` polygons on the same vertex set: the normals are parallel, and the cycle of the second is a rotation
    of the cycle of the first (normals pointing the same way) or of its reverse (opposite normals) -/
theorem Meas.cycle_cases (f g : Polygon) (hf : f.Valid) (hg : g.Valid) (hmem : ∀ p, p ∈ g.pts ↔ p ∈ f.pts) :
    ∃ k : Rat, k ≠ 0 ∧ g.plane.n = smul k f.plane.n ∧
      ((0 < k ∧ List.Perm (closedPairs g.pts) (closedPairs f.pts)) ∨
       (k < 0 ∧ List.Perm (closedPairs g.pts) ((closedPairs f.pts).map Prod.swap))) := by
  obtain ⟨k, hk0, hn⟩ := normal_parallel f g hf hg (fun p hp => (hmem p).mpr hp)
  refine ⟨k, hk0, hn, ?_⟩
  have hfV := hf
  have hgV := hg
  obtain ⟨p0, p1, p2, rest, hp, _, htp⟩ := hfV
  obtain ⟨q0, q1, q2, qrest, hq, _, htpg⟩ := hgV
  rcases lt_or_gt_of_ne hk0 with hneg | hpos
  · right
    refine ⟨hneg, ?_⟩
    obtain ⟨Q, a, r, hgp, _, hvQ, hQp, _, _, t, ht, hQn⟩ := Polygon.neg?_of_valid g hg
    have hnQ : Q.plane.n = smul (-(t * k)) f.plane.n := by
      rw [hQn, hn]; apply V3.ext' <;> simp only [smul, neg] <;> ring
    have hκ : 0 < -(t * k) := by nlinarith
    obtain ⟨s0, s1, s2, srest, hs, _, htpQ⟩ := hvQ
    have hmemQ : ∀ p, p ∈ Q.pts ↔ p ∈ f.pts := by
      intro p; rw [← hmem p, hQp, hgp]; simp
    obtain ⟨l1, l2, e1, e2⟩ := cycle_unique f.plane.n f.pts Q.pts (by rw [hp]; simp) (by rw [hs]; simp) htp
      (by rw [hnQ] at htpQ; exact (triplesPos_smul_pos _ hκ _ _).mp htpQ) hmemQ
    -- closedPairs Q ~ closedPairs f ;  closedPairs Q ~ swap (closedPairs g)
    have h1 : List.Perm (closedPairs Q.pts) (closedPairs f.pts) := by
      rw [e1, e2]; exact closedPairs_rotate l2 l1
    have h2 : List.Perm (closedPairs Q.pts) ((closedPairs g.pts).map Prod.swap) := by
      rw [hQp, hgp]; exact closedPairs_cons_reverse a r
    have h3 : List.Perm ((closedPairs g.pts).map Prod.swap) (closedPairs f.pts) := h2.symm.trans h1
    have h4 := h3.map Prod.swap
    rw [List.map_map] at h4
    have hid : (Prod.swap ∘ Prod.swap : V3 × V3 → V3 × V3) = id := by funext e; simp
    rw [hid, List.map_id] at h4
    exact h4
  · left
    refine ⟨hpos, ?_⟩
    obtain ⟨l1, l2, e1, e2⟩ := cycle_unique f.plane.n f.pts g.pts (by rw [hp]; simp) (by rw [hq]; simp) htp
      (by rw [hn] at htpg; exact (triplesPos_smul_pos k hpos _ _).mp htpg) hmem
    rw [e1, e2]; exact closedPairs_rotate l2 l1

/-- the vector area of the second is `±` that of the first -/
theorem Meas.vecArea2_cases (f g : Polygon) (hf : f.Valid) (hg : g.Valid) (hmem : ∀ p, p ∈ g.pts ↔ p ∈ f.pts) :
    ∃ k : Rat, k ≠ 0 ∧ g.plane.n = smul k f.plane.n ∧
      ((0 < k ∧ vecArea2 g.pts = vecArea2 f.pts) ∨ (k < 0 ∧ vecArea2 g.pts = neg (vecArea2 f.pts))) := by
  obtain ⟨k, hk0, hn, h⟩ := Meas.cycle_cases f g hf hg hmem
  refine ⟨k, hk0, hn, ?_⟩
  rcases h with ⟨hk, hp⟩ | ⟨hk, hp⟩
  · exact Or.inl ⟨hk, vecArea2_of_perm hp⟩
  · exact Or.inr ⟨hk, vecArea2_of_perm_swap hp⟩

theorem Meas.edgeLenSqs_perm_of_cases {l l' : List V3}
    (h : List.Perm (closedPairs l') (closedPairs l) ∨ List.Perm (closedPairs l') ((closedPairs l).map Prod.swap)) :
    List.Perm ((closedPairs l').map (fun e => normSq (sub e.2 e.1)))
      ((closedPairs l).map (fun e => normSq (sub e.2 e.1))) := by
  rcases h with h | h
  · exact h.map _
  · refine (h.map _).trans ?_
    rw [List.map_map]
    have : ((fun e : V3 × V3 => normSq (sub e.2 e.1)) ∘ Prod.swap) = fun e => normSq (sub e.2 e.1) := by
      funext e; simp only [Function.comp, Prod.swap]; exact Meas.normSq_sub_comm _ _
    rw [this]

/-- **C06, polygon: the measures depend on the vertex set only.**  Two `Valid` polygons on the same vertex set
    (whatever the starting vertex, the sense of rotation, the length and the sign of the stored normals), each with a
    stored centre inside: same squared area, same multiset of squared edge lengths. -/
theorem Polygon.measures_of_same_verts (f g : Polygon) (hf : f.Valid) (hg : g.Valid)
    (hcf : f.CentreInside) (hcg : g.CentreInside) (hmem : ∀ p, p ∈ g.pts ↔ p ∈ f.pts) :
    g.areaSq = f.areaSq ∧ List.Perm g.edgeLenSqs f.edgeLenSqs := by
  constructor
  · rw [g.areaSq_eq_vecArea hg hcg, f.areaSq_eq_vecArea hf hcf]
    obtain ⟨k, _, _, h⟩ := Meas.vecArea2_cases f g hf hg hmem
    rcases h with ⟨_, h⟩ | ⟨_, h⟩
    · rw [h]
    · rw [h, Meas.normSq_neg]
  · obtain ⟨k, _, _, h⟩ := Meas.cycle_cases f g hf hg hmem
    unfold Polygon.edgeLenSqs
    apply Meas.edgeLenSqs_perm_of_cases
    rcases h with ⟨_, h⟩ | ⟨_, h⟩
    · exact Or.inl h
    · exact Or.inr h

/-- the same without the squares: the area numerator scales with the length of the normal,
    `areaNum g = |k| · areaNum f` and `n_g·n_g = k² · n_f·n_f` for `n_g = k·n_f` -/
theorem Polygon.areaNum_of_same_verts (f g : Polygon) (hf : f.Valid) (hg : g.Valid)
    (hcf : f.CentreInside) (hcg : g.CentreInside) (hmem : ∀ p, p ∈ g.pts ↔ p ∈ f.pts) :
    ∃ k : Rat, k ≠ 0 ∧ g.plane.n = smul k f.plane.n ∧ g.areaNum = absQ k * f.areaNum ∧
      normSq g.plane.n = k ^ 2 * normSq f.plane.n := by
  obtain ⟨k, hk0, hn, h⟩ := Meas.vecArea2_cases f g hf hg hmem
  refine ⟨k, hk0, hn, ?_, by rw [hn, Meas.normSq_smul]⟩
  rw [g.areaNum_shoelace hcg, f.areaNum_shoelace hcf, hn]
  rcases h with ⟨hk, h⟩ | ⟨hk, h⟩
  · rw [h]
    have : absQ k = k := by unfold absQ; rw [if_neg (not_lt.mpr (le_of_lt hk))]
    rw [this]; simp only [dot, smul]; ring
  · rw [h]
    have : absQ k = -k := by unfold absQ; rw [if_pos hk]
    rw [this]; simp only [dot, smul, neg]; ring

/-! ### the constructor: order and multiplicity of the input points, `reverse` -/

theorem Meas.dedupV_perm_of_same_set (i1 i2 : List V3) (hset : ∀ p, p ∈ i1 ↔ p ∈ i2) :
    List.Perm (dedupV i1) (dedupV i2) := by
  rw [List.perm_ext_iff_of_nodup (dedupV_nodup i1) (dedupV_nodup i2)]
  intro p
  rw [dedupV_mem_iff, dedupV_mem_iff]; exact hset p

/-- what the constructor returns on points in strictly convex position, as far as the measures are concerned -/
theorem Polygon.mk?_measure_facts (input : List V3) (rev : Bool) (P : Polygon)
    (h : Polygon.mk? input rev = .ok P) (hx : StrictConvexPos (dedupV input)) :
    P.Valid ∧ P.CentreInside ∧ List.Perm P.pts (dedupV input) ∧ P.center = meanV (dedupV input) ∧
      P.center = meanV P.pts := by
  obtain ⟨hv, hperm, _⟩ := Polygon.mk?_valid_of_strictConvex input rev P h hx
  obtain ⟨_, _, _, _, hc⟩ := Polygon.mk?_ok input rev P h
  have hc' : P.center = meanV P.pts := by rw [hc]; exact (meanV_perm hperm).symm
  exact ⟨hv, Polygon.CentreInside.of_mean hv hc', hperm, hc, hc'⟩

/-- **C06, polygon, order of the vertices.**  `i1`, `i2`: two point lists with the same point SET (any order, any
    multiplicities) whose distinct points are in strictly convex position (coplanarity is checked by the
    constructor); `rev1`, `rev2`: any values of `reverse`.  Whenever both constructor calls succeed, the two
    polygons have the same squared area, the same multiset of squared edge lengths and the same centre. -/
theorem Polygon.mk?_measures_input_order (i1 i2 : List V3) (rev1 rev2 : Bool) (P1 P2 : Polygon)
    (hset : ∀ p, p ∈ i1 ↔ p ∈ i2) (hx : StrictConvexPos (dedupV i1))
    (h1 : Polygon.mk? i1 rev1 = .ok P1) (h2 : Polygon.mk? i2 rev2 = .ok P2) :
    P1.areaSq = P2.areaSq ∧ List.Perm P1.edgeLenSqs P2.edgeLenSqs ∧ P1.center = P2.center ∧
      (∀ p, p ∈ P1.pts ↔ p ∈ P2.pts) := by
  have hdp := Meas.dedupV_perm_of_same_set i1 i2 hset
  have hx2 : StrictConvexPos (dedupV i2) := hx.perm hdp.symm
  obtain ⟨hv1, hci1, hp1, hc1, _⟩ := Polygon.mk?_measure_facts i1 rev1 P1 h1 hx
  obtain ⟨hv2, hci2, hp2, hc2, _⟩ := Polygon.mk?_measure_facts i2 rev2 P2 h2 hx2
  have hmem : ∀ p, p ∈ P1.pts ↔ p ∈ P2.pts := by
    intro p; rw [hp1.mem_iff, hp2.mem_iff, hdp.mem_iff]
  obtain ⟨ha, he⟩ := Polygon.measures_of_same_verts P2 P1 hv2 hv1 hci2 hci1 hmem
  exact ⟨ha, he, by rw [hc1, hc2]; exact meanV_perm hdp, hmem⟩
#print axioms Polygon.mk?_measures_input_order

/-- the area of a constructed polygon is the true one: `areaSq = |½ Σ pᵢ × pᵢ₊₁|²` over the stored cycle -/
theorem Polygon.mk?_areaSq (input : List V3) (rev : Bool) (P : Polygon)
    (h : Polygon.mk? input rev = .ok P) (hx : StrictConvexPos (dedupV input)) :
    P.areaSq = normSq (vecArea2 P.pts) / 4 := by
  obtain ⟨hv, hci, _⟩ := Polygon.mk?_measure_facts input rev P h hx
  exact P.areaSq_eq_vecArea hv hci

/-! ### `-P` -/
/-- **`-polygon`** has the area, the edge lengths and (for a polygon storing its vertex mean) the centre of `P` -/
theorem Polygon.neg?_measures (P : Polygon) (hv : P.Valid) (hc : P.CentreInside) (Q : Polygon)
    (h : P.neg? = .ok Q) :
    Q.Valid ∧ Q.CentreInside ∧ Q.areaSq = P.areaSq ∧ List.Perm Q.edgeLenSqs P.edgeLenSqs ∧
      Q.center = meanV P.pts ∧ (∀ p, p ∈ Q.pts ↔ p ∈ P.pts) := by
  obtain ⟨Q', q0, rest, hp, hQ, hvQ, hQp, _, hQc, _⟩ := Polygon.neg?_of_valid P hv
  rw [h] at hQ; cases hQ
  have hmem : ∀ p, p ∈ Q.pts ↔ p ∈ P.pts := by intro p; rw [hQp, hp]; simp
  have hperm : List.Perm Q.pts P.pts := by
    rw [hQp, hp]; exact List.Perm.cons _ (List.reverse_perm _)
  have hcQ : Q.CentreInside := Polygon.CentreInside.of_mean hvQ (by rw [hQc]; exact (meanV_perm hperm).symm)
  obtain ⟨ha, he⟩ := Polygon.measures_of_same_verts P Q hv hvQ hc hcQ hmem
  exact ⟨hvQ, hcQ, ha, he, hQc, hmem⟩
#print axioms Polygon.neg?_measures

#print axioms Polygon.areaSq_eq_vecArea
#print axioms Polygon.measures_of_same_verts
#print axioms Polygon.areaNum_of_same_verts
end G3D
