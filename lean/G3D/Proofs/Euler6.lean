import G3D.Proofs.Euler5

/-! # Euler's polyhedron formula, part 6: the Euler check of `intersection(polyhedron, polyhedron)` never fails

    * `K4.facetBody_of_gons` : the body with the faces the constructor WOULD store for the collected polygons
      (`flipOf c g`, `c` the mean of the collected vertices) is a facet body of `A ∩ B` — the proof of
      `K4.facetBody_of_mk` without the assumption that the constructor call succeeded
    * `K4.eulerOf_parts` : hence the collected complex has Euler number 2
    * `interPolyhedronPolyhedron_exactOK` : **K4 without the Euler hypothesis** -/
namespace G3D
open V3

/-- the body the constructor would store for the polygons `gons` -/
def Eu.storedBody (gons : List Polygon) : Polyhedron :=
  ⟨gons.map (flipOf (meanV (collectVerts gons))), collectVerts gons, [], [], meanV (collectVerts gons)⟩

theorem K4.facetBody_of_gons {A B : Polyhedron} (hA : A.ExactHyp) (hB : B.ExactHyp) {p : Parts}
    (hp : K4.Parts2 A B p) (h2 : 2 ≤ p.gons.length) : K4.FacetBody A B (Eu.storedBody p.gons) := by
  obtain ⟨o, ho⟩ := K4.interior_of_two hA hB hp h2
  set R := Eu.storedBody p.gons with hRd
  have hverts : R.verts = collectVerts p.gons := rfl
  have hcen : R.center = meanV (collectVerts p.gons) := rfl
  have hF : R.faces = p.gons.map (flipOf R.center) := rfl
  have hc := K4.mean_interior hA hB hp o ho
  rw [← hcen] at hc
  have hst : ∀ g ∈ p.gons, ∃ F, K4.Stored A B R.center g F := fun g hg => K4.stored hA hB hp g hg _ hc
  have hullflip : ∀ g ∈ p.gons, ∀ x, InHull (flipOf R.center g).pts x ↔ InHull g.pts x := by
    intro g hg x
    obtain ⟨F, hs⟩ := hst g hg
    exact SameSet.hull_congr (fun v hv => (hs.verts v).mp hv) (fun v hv => (hs.verts v).mpr hv) x
  refine ⟨?_, ?_, ?_, ?_, ?_, ?_, ⟨o, ho⟩⟩
  · rw [hF]
    intro h0
    have : p.gons = [] := List.map_eq_nil_iff.mp h0
    rw [this] at h2; simp at h2
  · intro h hh
    rw [hF] at hh
    obtain ⟨g, hg, rfl⟩ := List.mem_map.mp hh
    obtain ⟨F, hs⟩ := hst g hg
    exact hs.rface
  · intro x hx ⟨F, hFm, hFx⟩
    obtain ⟨g, hg, hin⟩ := (K4.onGon_of_boundary hA hB o ho x hx F hFm hFx).in_parts hp
    exact ⟨flipOf R.center g, by rw [hF]; exact List.mem_map.mpr ⟨g, hg, rfl⟩, (hullflip g hg x).mpr hin⟩
  · intro v hv
    rw [hverts] at hv
    exact K4.collected_vertex_inK hA hB hp v hv
  · intro h hh v hv
    rw [hF] at hh
    obtain ⟨g, hg, rfl⟩ := List.mem_map.mp hh
    obtain ⟨F, hs⟩ := hst g hg
    rw [hverts]
    exact (mem_collectVerts _ v).mpr ⟨g, hg, (hs.verts v).mp hv⟩
  · rw [hF, List.pairwise_map]
    refine List.Pairwise.imp_of_mem ?_ hp.gons_pw
    intro g1 g2 hg1 hg2 hns hall
    have hv1 := (hp.gon_full hA hB g1 hg1).1
    have hv2 := (hp.gon_full hA hB g2 hg2).1
    have := K4.same_of_hull_eq g1 g2 hv1 hv2 (fun x => by
      rw [← hullflip g1 hg1 x, ← hullflip g2 hg2 x]; exact hall x)
    rw [hns] at this; cases this

/-- **the collected complex of `A ∩ B` has Euler number 2** -/
theorem K4.eulerOf_parts {A B : Polyhedron} (hA : A.ExactHyp) (hB : B.ExactHyp) {p : Parts}
    (hp : K4.Parts2 A B p) (h2 : 2 ≤ p.gons.length) : K4.eulerOf p.gons = 2 := by
  have hb := K4.facetBody_of_gons hA hB hp h2
  exact Eu.eulerOf_eq_two_of_flip p.gons (fun g hg => (hp.gon_full hA hB g hg).1) _ (Eu.storedBody p.gons) rfl
    hb.valid hb.faceLocal hb.dirEdges_nodup
#print axioms K4.eulerOf_parts

/-- **K4, unconditional**: under `ExactHyp` for both bodies `intersection(A, B)` returns — without error — None, a
    well-formed flat, a Valid polygon or a polyhedron satisfying `ExactHyp`, denoting exactly `A ∩ B` -/
theorem interPolyhedronPolyhedron_exactOK (A B : Polyhedron) (hA : A.ExactHyp) (hB : B.ExactHyp) :
    ∃ o, interPolyhedronPolyhedron A B = .ok o ∧ (∀ ob, o = some ob → OpOK ob) ∧
      ∀ x, denOptB o x ↔ (InHull A.verts x ∧ InHull B.verts x) :=
  interPolyhedronPolyhedron_exactOK_of_euler A B hA hB (fun _ hp h2 => K4.eulerOf_parts hA hB hp h2)
#print axioms interPolyhedronPolyhedron_exactOK

end G3D
