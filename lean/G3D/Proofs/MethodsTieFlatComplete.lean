import G3D.Extracted.Mflat
/-! # group `mflat`: every method was translated (couples all methods of the group; not registered per property) -/
namespace G3D.Tie
open V3 PyRt Extracted

theorem mflat_complete : mflatFailed = [] := rfl

end G3D.Tie
