import G3D.Extracted.Khash
import G3D.Proofs.KhashLemmas
import G3D.Proofs.KTieKhashPoint
/-! # khash, `HalfLine.__hash__`  (C08)
    `G3D.Extracted.impl_hash_*` are regenerated on every run (tools/extract_khash.py, engine tools/khash_engine.py on tools/kernels_engine.py):
    the REAL `__hash__` bodies are run on symbolic numbers with `hash` / `round` / `get_sig_figures` / `get_eps` shimmed; `H` is the
    uninterpreted hash of a tuple, `rnd` / `rndI` the uninterpreted `round(., get_sig_figures())` on numbers / integers, `sig` / `neg`
    the uninterpreted answers to `abs(c) > get_eps()` / `c < 0`.  Every statement holds FOR ALL H, rnd, rndI.  Each kernel has its own
    `section`: when the walk of ONE kernel fails the generated file holds only the marker `impl_<kernel>_EXTRACTION_FAILED` for it
    and exactly the theorems of that section stop compiling.  The reference functions (`…Ref`, `…OfKey`) and their reading through
    the hash keys of `Model/HashKey.lean` are hand-written in `Proofs/KhashLemmas.lean`.
    `HalfLine.__hash__` delegates to `Point.__hash__` and `Vector.__hash__` (of `self.vector.normalized()`). -/
namespace G3D.KTie.Khash
open G3D G3D.Extracted G3D.KTie

section hash_HalfLine
theorem hash_HalfLine_sqrt (p v : RVec) : impl_hash_HalfLine_sqrt0 p v = √(RVec.normSq v) := by
  simp only [impl_hash_HalfLine_sqrt0, sum0]

/-- the extracted tuple: tag, `hash(point) + hash(unit vector)`, `hash(point) * hash(unit vector)` with the EXTRACTED point and
    vector hashes; the vector hashed is `vector.normalized()` -/
theorem hash_HalfLine_shape (H : HFun) (rnd : ℝ → ℝ) (p v : RVec) :
    impl_hash_HalfLine H rnd p v
      = H [.tag "HalfLine", .int (impl_hash_Point H rnd p + impl_hash_Vector H rnd (unitR v)),
           .int (impl_hash_Point H rnd p * impl_hash_Vector H rnd (unitR v))] := by
  simp only [impl_hash_HalfLine, hash_HalfLine_sqrt, unitR]

theorem hash_HalfLine_tie (H : HFun) (rnd : ℝ → ℝ) (p v : RVec) : impl_hash_HalfLine H rnd p v = halfLineHashRef H rnd p v := by
  simp only [hash_HalfLine_shape, hash_Point_tie, hash_Vector_tie, halfLineHashRef]

/-- **the extracted hash depends only on the model's `HalfLine.hashKey`** (start point, unit direction) -/
theorem hash_HalfLine_key (H : HFun) (rnd : ℝ → ℝ) (h : HalfLine) (hw : h.WF) :
    impl_hash_HalfLine H rnd h.p.toR h.v.toR = halfLineHashOfKey H rnd (HalfLine.hashKey h) := by
  rw [hash_HalfLine_tie, halfLineHashRef_key H rnd h hw]

/-- **EQUAL HALF-LINES HAVE EQUAL EXTRACTED HASHES**, for every H and every rounding (direction rescaled by any k > 0) -/
theorem hash_HalfLine_eq_of_eqv (H : HFun) (rnd : ℝ → ℝ) (a b : HalfLine) (ha : a.WF) (hb : b.WF) (h : a.eqv b = true) :
    impl_hash_HalfLine H rnd a.p.toR a.v.toR = impl_hash_HalfLine H rnd b.p.toR b.v.toR := by
  rw [hash_HalfLine_tie, hash_HalfLine_tie, halfLineHashRef_eq_of_eqv H rnd a b ha hb h]

theorem hash_HalfLine_paths : impl_hash_HalfLine_oracles = [] ∧ impl_hash_HalfLine_paths = [[]] := by decide

/-- (C19) the body rounds nothing itself (the roundings are those of `Point.__hash__` / `Vector.__hash__`) -/
theorem hash_HalfLine_roundings : impl_hash_HalfLine_roundings = [] := by decide
end hash_HalfLine

#print axioms hash_HalfLine_key
#print axioms hash_HalfLine_eq_of_eqv
end G3D.KTie.Khash
