import G3D.Proofs.K4j

/-! # Kernel K4, part k: the partner face across an edge

    `K4.FacetBody.edge_partner` : across every directed edge `(a, b)` of a face `h1` of a facet body there is a face
    `h2` with the directed edge `(b, a)`, whose plane contains `a` and `b` and has a vertex of `h1` strictly inside.
    Midpoint argument: the faces tight at the midpoint `m` of the edge all contain the edge line; one of them is not
    parallel to `h1` (else `K` would continue across the edge in the plane of `h1`); leaving the cone of the tight
    faces from an interior point in a direction parallel to the plane of `h1` ends on such a face `h2`; the edge is
    the set where the functional of `h1` is maximal on `h2`, its end points are exposed, hence vertices of `h2`, and
    they are consecutive because all of `h2` lies to the left of `b → a`. -/
namespace G3D
open V3

/-- a point of the hull of `l` that maximises `n`, and maximises `d` among the maximisers of `n`, belongs to `l` -/
theorem K4.mem_of_exposed2 (l : List V3) (n d a : V3) (hin : InHull l a)
    (h1 : ∀ q ∈ l, dot n q ≤ dot n a) (h2 : ∀ q ∈ l, dot n q = dot n a → q ≠ a → dot d q < dot d a) : a ∈ l := by
  by_contra hn
  obtain ⟨M0, hM⟩ := SameSet.exists_M n d a l h1 h2
  refine K4.not_inHull_of_lt (add (smul M0 n) d) a l (fun q hq => ?_) hin
  have h := hM M0 (le_refl _) q hq (fun e => hn (e ▸ hq))
  have e : ∀ x, dot (add (smul M0 n) d) x = M0 * dot n x + dot d x := by
    intro x; simp only [dot, add, smul]; ring
  rw [e, e]; exact h

theorem K4.orient_mid (n a b : V3) (ε : Rat) :
    orient n a b (pt (add a (smul (1/2) (sub b a))) (neg (cross n (sub b a))) ε) =
      - ε * normSq (cross n (sub b a)) := by
  simp only [orient, pt, dot, cross, sub, add, smul, V3.neg, normSq]; ring

namespace K4.FacetBody
variable {A B R : Polyhedron}

/-- some face tight at the midpoint of an edge of `h1` is not parallel to `h1` -/
theorem nonparallel_at_mid (hb : K4.FacetBody A B R) (h1 : Polygon) (hh1 : h1 ∈ R.faces) (a b : V3)
    (he : (a, b) ∈ closedPairs h1.pts) :
    ∃ h' ∈ R.faces, h'.side (add a (smul (1/2) (sub b a))) = 0 ∧ cross h'.plane.n h1.plane.n ≠ zero := by
  have hv1 := (hb.face h1 hh1).valid
  have hab : a ≠ b := hv1.edges_distinct (a, b) he
  have m1 := closedPairs_mem h1.pts (a, b) he
  obtain ⟨hKa, h1a⟩ := hb.vertex h1 hh1 a m1.1
  obtain ⟨hKb, h1b⟩ := hb.vertex h1 hh1 b m1.2
  have hu : sub b a ≠ zero := fun h => hab (sub_eq_zero_iff.mp h).symm
  have hn1 := hb.normal_ne h1 hh1
  have hn1u : dot h1.plane.n (sub b a) = 0 := by rw [K4.side_diff, h1a, h1b]; ring
  have hdN := K4.normSq_cross_perp h1.plane.n (sub b a) hn1u
  have hdpos : 0 < normSq (cross h1.plane.n (sub b a)) := by
    rw [hdN]; exact mul_pos (normSq_pos hn1) (normSq_pos hu)
  set m := add a (smul (1/2) (sub b a)) with hm
  have hKm : K4.InK A B m := K4.InK_between hKa hKb ⟨1/2, by norm_num, by norm_num, rfl⟩
  have h1m : h1.side m = 0 := by rw [hm, K4.side_between, h1a, h1b]; ring
  by_contra hcon
  push Not at hcon
  obtain ⟨ε, hε, hstep⟩ := K4.small_step R.faces m (neg (cross h1.plane.n (sub b a))) (by
    intro g hg
    rcases lt_or_eq_of_le ((hb.face g hg).inner m hKm) with h | h
    · exact Or.inl h
    · refine Or.inr ⟨le_of_eq h, ?_⟩
      have hs := exists_smul_of_cross_zero hn1 (hcon g hg h)
      generalize dot g.plane.n h1.plane.n / normSq h1.plane.n = l at hs
      have e : dot (smul l h1.plane.n) (neg (cross h1.plane.n (sub b a))) =
          - (l * dot h1.plane.n (cross h1.plane.n (sub b a))) := by simp only [dot, smul, V3.neg]; ring
      rw [hs, e, dot_cross_self]; simp)
  have hz := hstep ε (le_of_lt hε) (le_refl _)
  have hKz : K4.InK A B (pt m (neg (cross h1.plane.n (sub b a))) ε) :=
    (hb.contains_iff _).mp ((R.contains_iff_side _).mpr hz)
  have h1z : h1.side (pt m (neg (cross h1.plane.n (sub b a))) ε) = 0 := by
    rw [h1.side_pt, h1m]
    have : dot h1.plane.n (neg (cross h1.plane.n (sub b a))) = - dot h1.plane.n (cross h1.plane.n (sub b a)) := by
      simp only [dot, V3.neg]; ring
    rw [this, dot_cross_self]; ring
  have hin := ((hb.face h1 hh1).den _).mpr ⟨hKz, h1z⟩
  have hge := Polygon.edge_nonneg h1 hv1 _ hin (a, b) he
  simp only at hge
  rw [hm, K4.orient_mid] at hge
  nlinarith

/-- **the partner face across an edge** -/
theorem edge_partner (hb : K4.FacetBody A B R) (h1 : Polygon) (hh1 : h1 ∈ R.faces) (a b : V3)
    (he : (a, b) ∈ closedPairs h1.pts) :
    ∃ h2 ∈ R.faces, (b, a) ∈ closedPairs h2.pts ∧ h2.side a = 0 ∧ h2.side b = 0 ∧
      ∃ v ∈ h1.pts, h2.side v < 0 := by
  have hv1 := (hb.face h1 hh1).valid
  have hab : a ≠ b := hv1.edges_distinct (a, b) he
  have m1 := closedPairs_mem h1.pts (a, b) he
  obtain ⟨hKa, h1a⟩ := hb.vertex h1 hh1 a m1.1
  obtain ⟨hKb, h1b⟩ := hb.vertex h1 hh1 b m1.2
  have hu : sub b a ≠ zero := fun h => hab (sub_eq_zero_iff.mp h).symm
  have hU := normSq_pos hu
  have hn1 := hb.normal_ne h1 hh1
  have hN1 := normSq_pos hn1
  have hn1u : dot h1.plane.n (sub b a) = 0 := by rw [K4.side_diff, h1a, h1b]; ring
  obtain ⟨h', hh', h'm, hcr⟩ := hb.nonparallel_at_mid h1 hh1 a b he
  set m := add a (smul (1/2) (sub b a)) with hm
  have hKm : K4.InK A B m := K4.InK_between hKa hKb ⟨1/2, by norm_num, by norm_num, rfl⟩
  have sm : ∀ f : Polygon, f.side m = (1/2) * f.side a + (1/2) * f.side b := by
    intro f; rw [hm, K4.side_between]; ring
  -- a direction parallel to the plane of h1 along which h' increases
  set w0 := sub (smul (normSq h1.plane.n) h'.plane.n) (smul (dot h1.plane.n h'.plane.n) h1.plane.n) with hw0
  have hw1 : dot h1.plane.n w0 = 0 := by simp only [hw0, dot, sub, smul, normSq]; ring
  have hw' : 0 < dot h'.plane.n w0 := by
    have : dot h'.plane.n w0 = normSq (cross h'.plane.n h1.plane.n) := by
      rw [lagrange]; simp only [hw0, dot, sub, smul, normSq]; ring
    rw [this]; exact normSq_pos hcr
  obtain ⟨c, hc⟩ := hb.interior
  have hcs := hb.side_strict hc
  -- leave the cone of the faces tight at m
  set T := R.faces.filter (fun f => decide (f.side m = 0)) with hT
  have hTL : ∀ f ∈ T, f ∈ R.faces := fun f hf => (List.mem_filter.mp hf).1
  have hTm : ∀ f ∈ T, f.side m = 0 := fun f hf => by simpa using (List.mem_filter.mp hf).2
  obtain ⟨t, ht, _, h2, hh2T, h2y⟩ := K4.exit T c w0 (fun f hf => hcs f (hTL f hf))
    ⟨h', List.mem_filter.mpr ⟨hh', by simpa using h'm⟩, hw'⟩
  have hh2 := hTL h2 hh2T
  have h2m := hTm h2 hh2T
  have h1y : h1.side (pt c w0 t) < 0 := by rw [h1.side_pt, hw1]; linarith [hcs h1 hh1]
  have h2a : h2.side a = 0 := by
    have i1 := (hb.face h2 hh2).inner a hKa
    have i2 := (hb.face h2 hh2).inner b hKb
    have := sm h2; rw [h2m] at this; linarith
  have h2b : h2.side b = 0 := by
    have i1 := (hb.face h2 hh2).inner a hKa
    have := sm h2; rw [h2m] at this; linarith
  have hn2 := hb.normal_ne h2 hh2
  have hN2 := normSq_pos hn2
  have hn2u : dot h2.plane.n (sub b a) = 0 := by rw [K4.side_diff, h2a, h2b]; ring
  -- the sign of the triple product
  obtain ⟨v1, hv1m, ho1⟩ := K4.third_vertex h1 hv1 (a, b) he
  simp only at ho1
  have f1 := hb.vertex h1 hh1 v1 hv1m
  have e1 := K4.side_via_orient h1 h2 a b v1 h1a h1b h2a h2b f1.2
  have i1 := (hb.face h2 hh2).inner v1 f1.1
  set D := dot h2.plane.n (cross h1.plane.n (sub b a)) with hD
  have hDle : D ≤ 0 := by
    by_contra hpos
    have := mul_pos (not_le.mp hpos) ho1
    have := mul_nonpos_of_nonneg_of_nonpos (le_of_lt (mul_pos hN1 hU)) i1
    linarith
  have hDne : D ≠ 0 := by
    intro h0
    have hcz := K4.cross_zero_of_perp h1.plane.n h2.plane.n (sub b a) hu hn1u hn2u h0
    obtain ⟨l, hl, hside⟩ := K4.side_prop_of_cross_zero h1 h2 a h1a h2a hn1 hcz
    have := hside (pt c w0 t)
    rw [h2y] at this
    have hl0 : l = 0 := (mul_eq_zero.mp this.symm).resolve_right (ne_of_lt h1y)
    apply hn2
    rw [hl, hl0]; apply V3.ext' <;> simp [smul, zero]
  have hDneg : D < 0 := lt_of_le_of_ne hDle hDne
  have hv1neg : h2.side v1 < 0 := by
    have hlt : D * orient h1.plane.n a b v1 < 0 := mul_neg_of_neg_of_pos hDneg ho1
    have h2' : 0 < normSq h1.plane.n * normSq (sub b a) := mul_pos hN1 hU
    by_contra hge
    have := mul_nonneg (le_of_lt h2') (not_lt.mp hge)
    linarith
  have hv2 := (hb.face h2 hh2).valid
  -- all of h2 lies to the left of b → a
  have hleft : ∀ v ∈ h2.pts, 0 ≤ orient h2.plane.n b a v := by
    intro v hv
    have fv := hb.vertex h2 hh2 v hv
    have e2 := K4.side_via_orient h2 h1 b a v h2b h2a h1b h1a fv.2
    have iv := (hb.face h1 hh1).inner v fv.1
    have hsw : dot h1.plane.n (cross h2.plane.n (sub a b)) = D := by
      simp only [hD, dot, cross, sub]; ring
    rw [hsw] at e2
    have hU' : 0 < normSq (sub a b) := normSq_pos (fun h => hab (sub_eq_zero_iff.mp h))
    have : normSq h2.plane.n * normSq (sub a b) * h1.side v ≤ 0 :=
      mul_nonpos_of_nonneg_of_nonpos (le_of_lt (mul_pos hN2 hU')) iv
    by_contra hneg
    have := mul_pos_of_neg_of_neg hDneg (not_le.mp hneg)
    linarith
  -- the points of h2 in the plane of h1 lie on the edge
  have onedge : ∀ q ∈ h2.pts, h1.side q = 0 → Between a b q := by
    intro q hq h1q
    have fq := hb.vertex h2 hh2 q hq
    have e3 := K4.side_via_orient h1 h2 a b q h1a h1b h2a h2b h1q
    rw [fq.2, mul_zero] at e3
    have h0 : orient h1.plane.n a b q = 0 := (mul_eq_zero.mp e3.symm).resolve_left hDne
    exact Polygon.edge_tight h1 hv1 q (((hb.face h1 hh1).den q).mpr ⟨fq.1, h1q⟩) (a, b) he h0
  have hle1 : ∀ q ∈ h2.pts, ∀ z, h1.side z = 0 → dot h1.plane.n q ≤ dot h1.plane.n z := by
    intro q hq z hz
    have := (hb.face h1 hh1).inner q (hb.vertex h2 hh2 q hq).1
    rw [SameSet.side_eq] at this hz
    linarith
  have heq1 : ∀ q z, h1.side z = 0 → dot h1.plane.n q = dot h1.plane.n z → h1.side q = 0 := by
    intro q z hz he'
    rw [SameSet.side_eq] at hz ⊢
    linarith
  have ha2 : a ∈ h2.pts := by
    apply K4.mem_of_exposed2 h2.pts h1.plane.n (neg (sub b a)) a (((hb.face h2 hh2).den a).mpr ⟨hKa, h2a⟩)
      (fun q hq => hle1 q hq a h1a)
    intro q hq heq hne
    obtain ⟨s, hs0, _, rfl⟩ := onedge q hq (heq1 q a h1a heq)
    have hs : 0 < s := by
      rcases lt_or_eq_of_le hs0 with h | h
      · exact h
      · exfalso; apply hne; rw [← h]; apply V3.ext' <;> simp [add, smul]
    have : dot (neg (sub b a)) (add a (smul s (sub b a))) = dot (neg (sub b a)) a - s * normSq (sub b a) := by
      simp only [dot, V3.neg, add, smul, normSq]; ring
    rw [this]
    have := mul_pos hs hU
    linarith
  have hb2 : b ∈ h2.pts := by
    apply K4.mem_of_exposed2 h2.pts h1.plane.n (sub b a) b (((hb.face h2 hh2).den b).mpr ⟨hKb, h2b⟩)
      (fun q hq => hle1 q hq b h1b)
    intro q hq heq hne
    obtain ⟨s, _, hs1, rfl⟩ := onedge q hq (heq1 q b h1b heq)
    have hs : s < 1 := by
      rcases lt_or_eq_of_le hs1 with h | h
      · exact h
      · exfalso; apply hne; rw [h]; apply V3.ext' <;> simp [add, smul, sub]
    have : dot (sub b a) b = dot (sub b a) (add a (smul s (sub b a))) + (1 - s) * normSq (sub b a) := by
      simp only [dot, sub, add, smul, normSq]; ring
    rw [this]
    have := mul_pos (by linarith : 0 < 1 - s) hU
    linarith
  exact ⟨h2, hh2, K4.rev_edge_of_left h2 hv2 a b ha2 hb2 hab hleft, h2a, h2b, v1, hv1m, hv1neg⟩
#print axioms K4.FacetBody.edge_partner

end K4.FacetBody
end G3D
