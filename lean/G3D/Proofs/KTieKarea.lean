import G3D.Extracted.Karea
import G3D.Proofs.VecRLemmas
import G3D.Proofs.Heron
import Mathlib.Analysis.Real.Sqrt
import Mathlib.Tactic.Ring
import Mathlib.Tactic.Linarith
import Mathlib.Tactic.FieldSimp
import Mathlib.Tactic.Positivity
/-! # karea: `get_triangle_area` (Heron), the projection lengths of calc/aux_calc.py  (C06, C05)
    `G3D.Extracted.impl_*` are regenerated on every run (tools/extract_karea.py, engine tools/kernels_engine.py): the REAL code is run on
    symbolic numbers, every comparison against the tolerance is recorded (operands and shape) and answered from a scripted
    path.  Each kernel has its own `section`: when the walk of ONE kernel fails the generated file holds only the marker
    `impl_<kernel>_EXTRACTION_FAILED` for it and exactly the theorems of that section stop compiling. -/
namespace G3D.KTie.Karea
open G3D G3D.Extracted Real

section triangleArea
/-- Heron's value as computed from the three `Point.distance` calls is half the norm of the cross product -/
theorem triangleArea_tie (pa pb pc : RVec) :
    impl_triangleArea pa pb pc = (1 / 2) * √(RVec.normSq (RVec.cross (RVec.sub pb pa) (RVec.sub pc pa))) := by
  simp only [impl_triangleArea]
  have hA : (0 : ℝ) ≤ (pa.x - pb.x) ^ 2 + (pa.y - pb.y) ^ 2 + (pa.z - pb.z) ^ 2 := by positivity
  have hB : (0 : ℝ) ≤ (pb.x - pc.x) ^ 2 + (pb.y - pc.y) ^ 2 + (pb.z - pc.z) ^ 2 := by positivity
  have hC : (0 : ℝ) ≤ (pc.x - pa.x) ^ 2 + (pc.y - pa.y) ^ 2 + (pc.z - pa.z) ^ 2 := by positivity
  exact heron_sqrt _ _ _ _ hA hB hC (by simp only [RVec.normSq, RVec.dot, RVec.cross, RVec.sub]; ring)
end triangleArea

section projectionLength
theorem projection_tie (a b : RVec) :
    impl_projectionLength a b = RVec.dot a b / √(RVec.normSq b) ∧
    impl_relativeProjectionLength a b = RVec.dot a b / RVec.normSq b := by
  have e : (0 : ℝ) + a.x * b.x + a.y * b.y + a.z * b.z = RVec.dot a b := by simp only [RVec.dot]; ring
  constructor
  · simp only [impl_projectionLength, sum0, e]
  · simp only [impl_relativeProjectionLength, sum0, e]
    rw [div_div, Real.mul_self_sqrt (nsq_nonneg b)]
end projectionLength

end G3D.KTie.Karea
