import G3D.Extracted.Mmeas
import G3D.Proofs.MeasTieBase
/-! # mmeas, `Pyramid.height`  (C06)
    `G3D.Extracted.m_Pyramid_height` is regenerated on every run by tools/extract_mmeas.py from the BODY in
    geometry/pyramid.py: `abs(Vector(p0, self.point) * self.convex_polygon.plane.n.normalized())` with `p0 = points[0]`.
    The stored unit normal normalised once more is itself, and the value is the model's `heightNum / √(n·n)` — for every
    polygon with a non-zero normal.  (Own module: independent of the area bodies.) -/
namespace G3D.MeasTie.Pyramid
open G3D G3D.MeasRt G3D.KTie G3D.Extracted G3D.MeasTie Real

section height
/-- on any runtime pyramid whose stored normal is a unit vector direction `vNormalized n`, `n ≠ 0` -/
theorem m_Pyramid_height_real (pts : List RVec) (c p n apex : RVec) (hn : n ≠ RVec.zero) :
    m_Pyramid_height ⟨⟨pts, c, ⟨p, vNormalized n⟩⟩, apex⟩
      = |RVec.dot (RVec.sub apex (pyGetD pts 0 RVec.zero)) n| / √(RVec.normSq n) := by
  simp only [m_Pyramid_height, vecFromTo]
  rw [vNormalized_idem hn, dot_vNormalized, abs_div, abs_of_nonneg (Real.sqrt_nonneg _)]

/-- **`Pyramid.height()` = `heightNum / √(n·n)`** -/
theorem m_Pyramid_height_tie (f : Polygon) (apex : V3) (hn : f.plane.n ≠ V3.zero) :
    m_Pyramid_height (pyrToM (f, apex))
      = ((pyramidHeightNum f apex : ℚ) : ℝ) / √((V3.normSq f.plane.n : ℚ) : ℝ) := by
  simp only [pyrToM, polyToM, planeToM]
  rw [m_Pyramid_height_real _ _ _ _ _ (toR_ne_zero hn), pyGetD_zero_map, toR_sub, toR_dot, toR_normSq]
  unfold pyramidHeightNum
  rw [cast_absQ]
end height

#print axioms m_Pyramid_height_real
#print axioms m_Pyramid_height_tie
end G3D.MeasTie.Pyramid
