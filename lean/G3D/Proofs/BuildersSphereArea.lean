import Mathlib.Analysis.SpecialFunctions.Trigonometric.Basic
import Mathlib.Tactic.Ring
import Mathlib.Tactic.Linarith
import Mathlib.Tactic.LinearCombination
import Mathlib.Tactic.FieldSimp
import Mathlib.Tactic.Positivity
import Mathlib.Algebra.BigOperators.Group.Finset.Basic
import G3D.Proofs.BuildersArea
import G3D.Proofs.BuildersSphere

/-! C14 over ℝ, surface AREA of the inscribed Sphere solid, every n1 ≥ 1, n2 ≥ 2: the faces of one latitude band are
    congruent isosceles trapezoids (the polar caps: isosceles triangles) of area
      `½·(chord_j + chord_{j+1})·slant_j`, `chord_j = 2·ρ_j·sin(π/n1)`,
      `slant_j = √((z_{j+1} − z_j)² + ((ρ_j − ρ_{j+1})·cos(π/n1))²)`,
    and the surface area is `n1·2·Σ_{j<n2}` of these (both hemispheres).  Face area = half the length of the shoelace
    vector area of the face cycle (`BA.faceArea`), summed over `sphereOriented n1 n2` placed by `BA.spherePlace`. -/
namespace G3D
namespace BuildersReal
open Real Builders R3

/-! ### vector algebra -/
theorem BA.normSq_smul (t : ℝ) (a : R3) : normSq (smul t a) = t ^ 2 * normSq a := by
  simp only [normSq, dot, smul]; ring
theorem BA.dot_smul_left (t : ℝ) (a b : R3) : dot (smul t a) b = t * dot b a := by
  simp only [dot, smul]; ring
theorem BA.normSq_sub (a b : R3) : normSq (sub a b) = normSq a + normSq b - 2 * dot a b := by
  simp only [normSq, dot, sub]; ring
theorem BA.dot_sub_left (a b c : R3) : dot (sub a b) c = dot a c - dot b c := by
  simp only [dot, sub]; ring

/-- a cap triangle is a band quadrilateral with a ring of radius 0 -/
theorem BA.triVA (a p e e' : R3) (ρ : ℝ) :
    vecArea2R [p, add a (smul ρ e), add a (smul ρ e')] =
      add (smul (ρ + 0) (cross (sub p a) (sub e e'))) (smul (ρ ^ 2 - 0 ^ 2) (cross e e')) := by
  rw [tri_vecArea2]
  apply R3.ext' <;> simp only [cross, add, sub, smul] <;> ring

/-- `|P·d×(e−e') + M·e×e'|²` by Lagrange / Binet–Cauchy -/
theorem BA.VA_normSq_poly (d e e' : R3) (P M : ℝ) :
    normSq (add (smul P (cross d (sub e e'))) (smul M (cross e e'))) =
      P ^ 2 * (normSq d * normSq (sub e e') - (dot d (sub e e')) ^ 2) +
        2 * P * M * (dot d e * dot (sub e e') e' - dot d e' * dot (sub e e') e) +
        M ^ 2 * (normSq e * normSq e' - (dot e e') ^ 2) := by
  simp only [normSq, dot, cross, add, sub, smul]; ring

/-- squared vector area of a band face between two rings at axial distance `H` (unit frame, unit axis) -/
theorem BA.bandVA_normSq (k u v : R3) (H ρ1 ρ2 θ θ' : ℝ) (F : Frame k u v 1) (hk : normSq k = 1) :
    normSq (add (smul (ρ1 + ρ2) (cross (smul H k) (sub (rad u v θ) (rad u v θ'))))
        (smul (ρ1 ^ 2 - ρ2 ^ 2) (cross (rad u v θ) (rad u v θ')))) =
      (ρ1 + ρ2) ^ 2 * H ^ 2 * (2 - 2 * cos (θ' - θ)) + (ρ1 ^ 2 - ρ2 ^ 2) ^ 2 * (1 - cos (θ' - θ) ^ 2) := by
  obtain ⟨h1, h2⟩ := BA.rad_facts k u v 1 θ θ' F
  obtain ⟨h3, h4⟩ := BA.rad_facts k u v 1 θ' θ' F
  obtain ⟨h5, _⟩ := BA.rad_facts k u v 1 θ θ F
  have n1 : normSq (rad u v θ) = 1 := by
    have : normSq (rad u v θ) = dot (rad u v θ) (rad u v θ) := rfl
    rw [this, h5]; simp
  have n2 : normSq (rad u v θ') = 1 := by
    have : normSq (rad u v θ') = dot (rad u v θ') (rad u v θ') := rfl
    rw [this, h3]; simp
  have hc : dot (rad u v θ') (rad u v θ) = dot (rad u v θ) (rad u v θ') := by simp only [dot]; ring
  rw [BA.VA_normSq_poly, BA.normSq_smul, hk, BA.normSq_sub, n1, n2, BA.dot_smul_left, BA.dot_smul_left,
    BA.dot_smul_left, BA.dot_sub_left, BA.dot_sub_left, BA.dot_sub_left, h2, h4, h1, hc, h1]
  have n2' : dot (rad u v θ') (rad u v θ') = 1 := n2
  have n1' : dot (rad u v θ) (rad u v θ) = 1 := n1
  rw [n2', n1']
  ring

/-- the norm of the vector area of a band face of one angular step `2π/n` -/
theorem BA.bandVA_norm (k u v : R3) (H ρ1 ρ2 : ℝ) (n i : ℕ) (F : Frame k u v 1) (hk : normSq k = 1) (hn : 1 ≤ n)
    (hρ : 0 ≤ ρ1 + ρ2) :
    BA.norm (add (smul (ρ1 + ρ2) (cross (smul H k) (sub (rad u v (stepAngle n i)) (rad u v (stepAngle n (i + 1))))))
        (smul (ρ1 ^ 2 - ρ2 ^ 2) (cross (rad u v (stepAngle n i)) (rad u v (stepAngle n (i + 1)))))) =
      2 * (sin (π / n) * (ρ1 + ρ2) * √(H ^ 2 + (ρ1 - ρ2) ^ 2 * cos (π / n) ^ 2)) := by
  have hs := BA.sin_pi_div_nonneg n hn
  have hX : 0 ≤ H ^ 2 + (ρ1 - ρ2) ^ 2 * cos (π / n) ^ 2 := by positivity
  apply BA.norm_of_sq _ _ (by positivity)
  rw [BA.bandVA_normSq k u v H ρ1 ρ2 _ _ F hk, stepAngle_succ, mul_pow, mul_pow, mul_pow, sq_sqrt hX]
  have e : 2 * π / n = 2 * (π / n) := by ring
  rw [e, cos_two_mul]
  have := cos_sq_add_sin_sq (π / n)
  linear_combination (-4 * ((ρ1 + ρ2) ^ 2 * (H ^ 2 + (ρ1 - ρ2) ^ 2 * cos (π / n) ^ 2))) * this

theorem BA.axis_sub (c k : R3) (z1 z2 : ℝ) : sub (add c (smul z2 k)) (add c (smul z1 k)) = smul (z2 - z1) k := by
  apply R3.ext' <;> simp only [add, sub, smul] <;> ring

/-- area of the band trapezoid between the (signed) latitudes `φ`, `φ'`, one angular step:
    `½·(chord + chord')·slant = sin(π/n)·(ρ + ρ')·√((z' − z)² + ((ρ − ρ')·cos(π/n))²)` -/
theorem BA.band_faceArea (c k u v : R3) (r φ φ' : ℝ) (n i : ℕ) (F : Frame k u v 1) (hk : normSq k = 1)
    (hn : 1 ≤ n) (hρ : 0 ≤ r * cos φ + r * cos φ') :
    BA.faceArea [BA.sphPt c k u v r φ (stepAngle n i), BA.sphPt c k u v r φ (stepAngle n (i + 1)),
        BA.sphPt c k u v r φ' (stepAngle n (i + 1)), BA.sphPt c k u v r φ' (stepAngle n i)] =
      sin (π / n) * (r * cos φ + r * cos φ') *
        √((r * sin φ' - r * sin φ) ^ 2 + (r * cos φ - r * cos φ') ^ 2 * cos (π / n) ^ 2) := by
  unfold BA.faceArea
  simp only [BA.sphPt_eq]
  rw [BA.quadVA, BA.axis_sub, BA.bandVA_norm k u v _ _ _ n i F hk hn hρ]
  ring

/-- area of a cap triangle `(pole, A_s, A_e)`, the pole `c + z2·k` on the axis -/
theorem BA.cap_faceArea (c k u v : R3) (r z2 φ : ℝ) (n i : ℕ) (F : Frame k u v 1) (hk : normSq k = 1)
    (hn : 1 ≤ n) (hρ : 0 ≤ r * cos φ) :
    BA.faceArea [add c (smul z2 k), BA.sphPt c k u v r φ (stepAngle n i),
        BA.sphPt c k u v r φ (stepAngle n (i + 1))] =
      sin (π / n) * (r * cos φ + 0) * √((z2 - r * sin φ) ^ 2 + (r * cos φ - 0) ^ 2 * cos (π / n) ^ 2) := by
  unfold BA.faceArea
  simp only [BA.sphPt_eq]
  rw [BA.triVA, BA.axis_sub, BA.bandVA_norm k u v _ _ _ n i F hk hn (by linarith)]
  ring

/-! ### the solid -/
theorem BA.surfArea_append (f g : List (List R3)) : BA.surfArea (f ++ g) = BA.surfArea f + BA.surfArea g := by
  simp [BA.surfArea]

theorem BA.surfArea_flatMap {ι : Type} (g : ι → List (List R3)) :
    ∀ L : List ι, BA.surfArea (L.flatMap g) = (L.map (fun i => BA.surfArea (g i))).sum := by
  intro L
  induction L with
  | nil => simp [BA.surfArea]
  | cons a L ih => rw [List.flatMap_cons, BA.surfArea_append, ih]; simp

theorem BA.cos_lat_nonneg (n2 m : ℕ) (hm : m ≤ n2) (h : 0 < n2) : 0 ≤ cos (BA.lat n2 m) := by
  have hn' : (0 : ℝ) < n2 := by exact_mod_cast h
  have hm' : (m : ℝ) ≤ n2 := by exact_mod_cast hm
  have hm0 : (0 : ℝ) ≤ m := Nat.cast_nonneg m
  have hp := pi_pos
  have hΔ : 0 < π / 2 / n2 := by positivity
  have hnΔ : π / 2 / n2 * n2 = π / 2 := by field_simp
  apply cos_nonneg_of_mem_Icc
  unfold BA.lat
  constructor <;> nlinarith

/-- area of one face of band `j`: `½·(chord_j + chord_{j+1})·slant_j` -/
noncomputable def BA.bandArea (r : ℝ) (n1 n2 j : ℕ) : ℝ :=
  sin (π / n1) * (r * cos (BA.lat n2 j) + r * cos (BA.lat n2 (j + 1))) *
    √((r * sin (BA.lat n2 (j + 1)) - r * sin (BA.lat n2 j)) ^ 2 +
      (r * cos (BA.lat n2 j) - r * cos (BA.lat n2 (j + 1))) ^ 2 * cos (π / n1) ^ 2)

theorem BA.qUp_faceArea (c k u v : R3) (r : ℝ) (n1 n2 j i : ℕ) (F : Frame k u v 1) (hk : normSq k = 1)
    (hn : 1 ≤ n1) (hr : 0 ≤ r) (hj : j < n2) :
    BA.faceArea (BA.qUp c k u v r n1 n2 j i) = BA.bandArea r n1 n2 j := by
  unfold BA.qUp BA.up BA.bandArea
  exact BA.band_faceArea c k u v r _ _ n1 i F hk hn
    (add_nonneg (mul_nonneg hr (BA.cos_lat_nonneg n2 j (by omega) (by omega)))
      (mul_nonneg hr (BA.cos_lat_nonneg n2 (j + 1) (by omega) (by omega))))

theorem BA.qLo_faceArea (c k u v : R3) (r : ℝ) (n1 n2 j i : ℕ) (F : Frame k u v 1) (hk : normSq k = 1)
    (hn : 1 ≤ n1) (hr : 0 ≤ r) (hj : j < n2) :
    BA.faceArea (BA.qLo c k u v r n1 n2 j i) = BA.bandArea r n1 n2 j := by
  unfold BA.qLo BA.lo BA.bandArea
  rw [BA.band_faceArea c k u v r _ _ n1 i F hk hn]
  · simp only [cos_neg, sin_neg]
    congr 2
    ring
  · rw [cos_neg, cos_neg]
    exact add_nonneg (mul_nonneg hr (BA.cos_lat_nonneg n2 j (by omega) (by omega)))
      (mul_nonneg hr (BA.cos_lat_nonneg n2 (j + 1) (by omega) (by omega)))

theorem BA.capT_faceArea (c k u v : R3) (r : ℝ) (n1 n2 i : ℕ) (F : Frame k u v 1) (hk : normSq k = 1)
    (hn : 1 ≤ n1) (hr : 0 ≤ r) (h2 : 1 ≤ n2) :
    BA.faceArea (BA.capT c k u v r n1 n2 i) = BA.bandArea r n1 n2 (n2 - 1) := by
  have en : n2 - 1 + 1 = n2 := by omega
  rw [BA.capT_eq, BA.faceArea_flip]
  unfold BA.up BA.bandArea
  rw [BA.cap_faceArea c k u v r r _ n1 i F hk hn (mul_nonneg hr (BA.cos_lat_nonneg n2 _ (by omega) (by omega))),
    en, BA.lat_pole n2 (by omega), cos_pi_div_two, sin_pi_div_two]
  simp

theorem BA.capB_faceArea (c k u v : R3) (r : ℝ) (n1 n2 i : ℕ) (F : Frame k u v 1) (hk : normSq k = 1)
    (hn : 1 ≤ n1) (hr : 0 ≤ r) (h2 : 1 ≤ n2) :
    BA.faceArea (BA.capB c k u v r n1 n2 i) = BA.bandArea r n1 n2 (n2 - 1) := by
  have en : n2 - 1 + 1 = n2 := by omega
  rw [BA.capB_eq, BA.faceArea_flip]
  unfold BA.lo BA.bandArea
  rw [BA.cap_faceArea c k u v r (-r) _ n1 i F hk hn
    (by rw [cos_neg]; exact mul_nonneg hr (BA.cos_lat_nonneg n2 _ (by omega) (by omega))),
    en, BA.lat_pole n2 (by omega), cos_pi_div_two, sin_pi_div_two]
  simp only [cos_neg, sin_neg, mul_zero, mul_one, add_zero, sub_zero]
  congr 2
  ring

/-- the faces of one sector: two of each band (n2 = m + 2) -/
theorem BA.block_area (c k u v : R3) (r : ℝ) (n1 m i : ℕ) (F : Frame k u v 1) (hk : normSq k = 1)
    (hn : 1 ≤ n1) (hr : 0 ≤ r) :
    BA.surfArea (BA.sphereBlock c k u v r n1 (m + 2) i) =
      2 * ∑ j ∈ Finset.range (m + 2), BA.bandArea r n1 (m + 2) j := by
  unfold BA.sphereBlock
  rw [BA.surfArea_append, BA.surfArea_append]
  have e : m + 2 - 2 = m := by omega
  have e1 : m + 2 - 1 = m + 1 := by omega
  rw [e]
  unfold BA.surfArea
  rw [BA.sum_flatMap_pair]
  simp only [List.map_cons, List.map_nil, List.sum_cons, List.sum_nil, BA.faceArea_flip, add_zero]
  rw [BA.qUp_faceArea c k u v r n1 (m + 2) 0 i F hk hn hr (by omega),
    BA.qLo_faceArea c k u v r n1 (m + 2) 0 i F hk hn hr (by omega),
    BA.capT_faceArea c k u v r n1 (m + 2) i F hk hn hr (by omega),
    BA.capB_faceArea c k u v r n1 (m + 2) i F hk hn hr (by omega), e1]
  have hsum : ∑ j ∈ Finset.range m, (BA.faceArea (BA.qUp c k u v r n1 (m + 2) (1 + j) i) +
      BA.faceArea (BA.qLo c k u v r n1 (m + 2) (1 + j) i)) =
      ∑ j ∈ Finset.range m, 2 * BA.bandArea r n1 (m + 2) (j + 1) := by
    apply Finset.sum_congr rfl
    intro j hj
    have hj' := Finset.mem_range.mp hj
    rw [BA.qUp_faceArea c k u v r n1 (m + 2) (1 + j) i F hk hn hr (by omega),
      BA.qLo_faceArea c k u v r n1 (m + 2) (1 + j) i F hk hn hr (by omega), Nat.add_comm 1 j]
    ring
  rw [hsum, Finset.sum_range_succ _ (m + 1), Finset.sum_range_succ' _ m, ← Finset.mul_sum]
  ring

/-- C14, Sphere surface AREA, every n1 ≥ 1, n2 ≥ 2: the faces of `Sphere(center, radius, n1, n2)` (`sphereOriented`
    placed by `BA.spherePlace`; unit axis `k`, unit frame `(u, v)`) have total area
      `n1·2·Σ_{j<n2} sin(π/n1)·(ρ_j + ρ_{j+1})·√((z_{j+1} − z_j)² + ((ρ_j − ρ_{j+1})·cos(π/n1))²)`,
    `ρ_j = r·cos(π/2/n2·j)`, `z_j = r·sin(π/2/n2·j)` — n1 trapezoids `½·(chord_j + chord_{j+1})·slant_j` per band
    and hemisphere (`j = n2−1`: the cap triangles, `ρ_{n2} = 0`) -/
theorem BA.sphere_area (c k u v : R3) (r : ℝ) (n1 n2 : ℕ) (hn1 : 1 ≤ n1) (h2 : 2 ≤ n2) (hr : 0 ≤ r)
    (F : Frame k u v 1) (hk : normSq k = 1) :
    BA.surfArea ((sphereOriented n1 n2).map (List.map (BA.spherePlace c k u v r n1 n2))) =
      n1 * (2 * ∑ j ∈ Finset.range n2,
        sin (π / n1) * (r * cos (BA.lat n2 j) + r * cos (BA.lat n2 (j + 1))) *
          √((r * sin (BA.lat n2 (j + 1)) - r * sin (BA.lat n2 j)) ^ 2 +
            (r * cos (BA.lat n2 j) - r * cos (BA.lat n2 (j + 1))) ^ 2 * cos (π / n1) ^ 2)) := by
  rw [BA.sphere_placed c k u v r n1 n2 h2]
  obtain ⟨m, rfl⟩ : ∃ m, n2 = m + 2 := ⟨n2 - 2, by omega⟩
  unfold BA.sphereSolid
  rw [BA.surfArea_flatMap]
  simp only [BA.block_area c k u v r n1 m _ F hk hn1 hr]
  simp [BA.bandArea]

/-- … with the frame of `get_circle_point_list` for a unit normal `k` and a base vector `b` not parallel to it -/
theorem BA.sphere_area_closed_form (c k b : R3) (r : ℝ) (n1 n2 : ℕ) (hn1 : 1 ≤ n1) (h2 : 2 ≤ n2) (hr : 0 ≤ r)
    (hk : normSq k = 1) (hb : 0 < normSq (cross k b)) :
    BA.surfArea ((sphereOriented n1 n2).map (List.map (BA.spherePlace c k (frameU k b 1) (frameV k b 1) r n1 n2))) =
      n1 * (2 * ∑ j ∈ Finset.range n2,
        sin (π / n1) * (r * cos (BA.lat n2 j) + r * cos (BA.lat n2 (j + 1))) *
          √((r * sin (BA.lat n2 (j + 1)) - r * sin (BA.lat n2 j)) ^ 2 +
            (r * cos (BA.lat n2 j) - r * cos (BA.lat n2 (j + 1))) ^ 2 * cos (π / n1) ^ 2)) :=
  BA.sphere_area c k _ _ r n1 n2 hn1 h2 hr (frame_real k b 1 (by rw [hk]; exact one_pos) hb) hk

#print axioms BA.band_faceArea
#print axioms BA.cap_faceArea
#print axioms BA.sphere_area
#print axioms BA.sphere_area_closed_form
end BuildersReal
end G3D
