import G3D.Proofs.TolGeoInter

/-! Non-vacuity: every theorem of the TolGeo family instantiated on catalogue objects
    (support `(1/8, 2, −3)`, frames `(1,2,2)` / `(2,3,6)` / `(1,2,2)/3`), eps = 1e-5 and eps = 1e-12,
    perturbation ±eps/1000 on every defining coordinate. -/
namespace G3D.TolGeo
open R3

/-- discharge `closeBy δ a b` on numerals -/
macro "close_tac" : tactic =>
  `(tactic| (refine ⟨?_, ?_, ?_⟩ <;> (simp only [R3.sub]; rw [abs_le]; constructor <;> norm_num)))

/-! ### eps = 1e-5  (δ = 1e-8) -/
section eps5
/-- the catalogue point and two frames -/
noncomputable def P0 : R3 := ⟨1 / 8, 2, -3⟩
noncomputable def P0' : R3 := ⟨1 / 8 + 1 / 100000000, 2 - 1 / 100000000, -3 + 1 / 100000000⟩
noncomputable def D0 : R3 := ⟨1, 2, 2⟩
noncomputable def D0' : R3 := ⟨1 - 1 / 100000000, 2 + 1 / 100000000, 2 + 1 / 100000000⟩
noncomputable def N0 : R3 := ⟨2, 3, 6⟩
noncomputable def N0' : R3 := ⟨2 + 1 / 100000000, 3 - 1 / 100000000, 6 + 1 / 100000000⟩
/-- unit normal (1,2,2)/3 -/
noncomputable def U0 : R3 := ⟨1 / 3, 2 / 3, 2 / 3⟩
noncomputable def U0' : R3 := ⟨1 / 3 - 1 / 100000000, 2 / 3 + 1 / 100000000, 2 / 3 - 1 / 100000000⟩
noncomputable def E0 : R3 := ⟨9 / 8, 4, -1⟩
noncomputable def E0' : R3 := ⟨9 / 8 - 1 / 100000000, 4 + 1 / 100000000, -1 - 1 / 100000000⟩

theorem cP0 : closeBy (1 / 100000 / 1000) P0 P0' := by unfold P0 P0'; close_tac
theorem cD0 : closeBy (1 / 100000 / 1000) D0 D0' := by unfold D0 D0'; close_tac
theorem cN0 : closeBy (1 / 100000 / 1000) N0 N0' := by unfold N0 N0'; close_tac
theorem cU0 : closeBy (1 / 100000 / 1000) U0 U0' := by unfold U0 U0'; close_tac
theorem cE0 : closeBy (1 / 100000 / 1000) E0 E0' := by unfold E0 E0'; close_tac

example : vecEq (1 / 100000) P0 P0' ∧ vecEq (1 / 100000) P0' P0 := vecEq_of_close (by norm_num) cP0

example : ¬ vecEq (1 / 100000) P0 ⟨1 / 8, 2 + 5 / 100000, -3⟩ :=
  (not_vecEq_of_far (by norm_num) (Or.inr (Or.inl (by unfold P0; norm_num [abs_of_neg])))).1

example : Line.eqT (1 / 100000) ⟨P0, D0⟩ ⟨P0', D0'⟩ ∧ Line.eqT (1 / 100000) ⟨P0', D0'⟩ ⟨P0, D0⟩ :=
  Line.eqT_of_close (l := ⟨P0, D0⟩) (l' := ⟨P0', D0'⟩) (by norm_num) cP0 cD0

/-- the point at parameter 3/8 of the exact line is contained in the perturbed line -/
example : Line.containsT (1 / 100000) ⟨P0', D0'⟩ (add P0 (smul (3 / 8) D0)) :=
  Line.containsT_of_close (l := ⟨P0, D0⟩) (l' := ⟨P0', D0'⟩) (by norm_num) (by norm_num) cP0 cD0
    (by norm_num [dot, D0]) (Or.inr (by norm_num))

/-- … and the point at parameter −1000 as well (no upper bound on `t`) -/
example : Line.containsT (1 / 100000) ⟨P0', D0'⟩ (add P0 (smul (-1000) D0)) :=
  Line.containsT_of_close (l := ⟨P0, D0⟩) (l' := ⟨P0', D0'⟩) (by norm_num) (by norm_num) cP0 cD0
    (by norm_num [dot, D0]) (Or.inr (by norm_num))

/-- a line moved by (2,−1,0)·5eps, orthogonal to (1,2,2), is not equal -/
example : ¬ Line.eqT (1 / 100000) ⟨P0, D0⟩ ⟨add P0 ⟨10 / 100000, -5 / 100000, 0⟩, D0'⟩ :=
  (Line.not_eqT_of_orth_shift (l := ⟨P0, D0⟩) (by norm_num) (by norm_num) (by norm_num [dot, D0])
    (by norm_num [dot, D0]) (Or.inl (by norm_num [abs_of_pos]))).2

example : Plane.eqT (1 / 100000) (Plane.ofPN P0 N0) (Plane.ofPN P0' N0') ∧
    Plane.eqT (1 / 100000) (Plane.ofPN P0' N0') (Plane.ofPN P0 N0) :=
  Plane.eqT_of_close (by norm_num) (by norm_num) cP0 cN0 (by norm_num [dot, N0])

/-- `x = P0 + (3, −2, 0)` lies on the plane through P0 with normal (2,3,6) -/
example : Plane.containsT (1 / 100000) (Plane.ofPN P0' N0') (add P0 ⟨3, -2, 0⟩) :=
  Plane.containsT_of_close (R := 3) (p := P0) (r := N0) (by norm_num) (by norm_num) cP0 cN0
    (by norm_num [dot, N0]) (by norm_num [dot, N0, P0, add, sub])
    (by refine ⟨?_, ?_, ?_⟩ <;> (simp only [P0, add, sub]; rw [abs_le]; constructor <;> norm_num))
    (by norm_num)

/-- the same with the unit frame (1,2,2)/3 and a far point `x = P0 + (16, −16, 8)` -/
example : Plane.containsT (1 / 100000) (Plane.ofPN P0' U0') (add P0 ⟨16, -16, 8⟩) :=
  Plane.containsT_of_close (R := 16) (p := P0) (r := U0) (by norm_num) (by norm_num) cP0 cU0
    (by norm_num [dot, U0]) (by norm_num [dot, U0, P0, add, sub])
    (by refine ⟨?_, ?_, ?_⟩ <;> (simp only [P0, add, sub]; rw [abs_le]; constructor <;> norm_num))
    (by norm_num)

example : ¬ Plane.eqT (1 / 100000) (Plane.ofPN P0 N0)
    (Plane.ofPN (add P0 (smul (5 / 100000) (normalized N0))) N0) :=
  (Plane.not_eqT_of_normal_shift (by norm_num [dot, N0]) (by norm_num [abs_of_pos])).1

example : Segment.eqT (1 / 100000) ⟨P0, E0⟩ ⟨P0', E0'⟩ ∧ Segment.eqT (1 / 100000) ⟨P0', E0'⟩ ⟨P0, E0⟩ :=
  Segment.eqT_of_close (S := ⟨P0, E0⟩) (S' := ⟨P0', E0'⟩) (by norm_num) cP0 cE0

/-- the midpoint of the exact segment is in the perturbed segment -/
example : Segment.containsT (1 / 100000) ⟨P0', E0'⟩ (add P0 (smul (1 / 2) (sub E0 P0))) :=
  Segment.containsT_of_close (S := ⟨P0, E0⟩) (S' := ⟨P0', E0'⟩) (by norm_num) (by norm_num) cP0 cE0
    (by norm_num [dot, sub, E0, P0]) (by norm_num) (by norm_num) (Or.inr (by norm_num))

example : ¬ Segment.eqT (1 / 100000) ⟨P0, E0⟩ ⟨⟨1 / 8, 2 + 5 / 100000, -3⟩, E0⟩ :=
  Segment.not_eqT_of_far (S := ⟨P0, E0⟩) (by norm_num)
    (Or.inr (Or.inl (by simp only [P0]; norm_num [abs_of_neg])))
    (Or.inl (by simp only [E0]; norm_num [abs_of_pos]))

example : HalfLine.eqT (1 / 100000) ⟨P0, N0⟩ ⟨P0', N0'⟩ ∧ HalfLine.eqT (1 / 100000) ⟨P0', N0'⟩ ⟨P0, N0⟩ :=
  HalfLine.eqT_of_close (H := ⟨P0, N0⟩) (H' := ⟨P0', N0'⟩) (by norm_num) (by norm_num) cP0 cN0
    (by norm_num [dot, N0])

example : HalfLine.containsT (1 / 100000) ⟨P0', N0'⟩ (add P0 (smul (5 / 8) N0)) :=
  HalfLine.containsT_of_close (H := ⟨P0, N0⟩) (H' := ⟨P0', N0'⟩) (by norm_num) (by norm_num) cP0 cN0
    (by norm_num [dot, N0])
    (by refine ⟨?_, ?_, ?_⟩ <;> (simp only [N0]; rw [abs_le]; constructor <;> norm_num))
    (by norm_num) (Or.inr (by norm_num))

example : interLineLineBranch (1 / 100000) ⟨P0, D0⟩ ⟨P0', D0'⟩ = .coincident ∧
    interLineLineBranch (1 / 100000) ⟨P0', D0'⟩ ⟨P0, D0⟩ = .coincident :=
  interLineLine_coincident (l := ⟨P0, D0⟩) (l' := ⟨P0', D0'⟩) (by norm_num) cP0 cD0

example : interPlanePlaneBranch (1 / 100000) (Plane.ofPN P0 N0) (Plane.ofPN P0' N0') = .coincident ∧
    interPlanePlaneBranch (1 / 100000) (Plane.ofPN P0' N0') (Plane.ofPN P0 N0) = .coincident :=
  interPlanePlane_coincident (by norm_num) (by norm_num) cP0 cN0 (by norm_num [dot, N0])

example : segSegCollinearBranch (1 / 100000) ⟨P0, E0⟩ ⟨P0', E0'⟩ ∧
    segSegAllEndpointsCollected (1 / 100000) ⟨P0, E0⟩ ⟨P0', E0'⟩ :=
  interSegSeg_coincident (S := ⟨P0, E0⟩) (S' := ⟨P0', E0'⟩) (by norm_num) (by norm_num) cP0 cE0
    (by norm_num [dot, sub, E0, P0])

example : hlHlReturnsFirst (1 / 100000) ⟨P0, N0⟩ ⟨P0', N0'⟩ ∧ hlHlReturnsFirst (1 / 100000) ⟨P0', N0'⟩ ⟨P0, N0⟩ :=
  interHlHl_coincident (H := ⟨P0, N0⟩) (H' := ⟨P0', N0'⟩) (by norm_num) (by norm_num) cP0 cN0
    (by norm_num [dot, N0])
    (by refine ⟨?_, ?_, ?_⟩ <;> (simp only [N0]; rw [abs_le]; constructor <;> norm_num))
end eps5

/-! ### eps = 1e-12  (δ = 1e-15) -/
section eps12
noncomputable def Q0' : R3 := ⟨1 / 8 + 1 / 1000000000000000, 2 - 1 / 1000000000000000, -3 + 1 / 1000000000000000⟩
noncomputable def F0' : R3 := ⟨1 - 1 / 1000000000000000, 2 + 1 / 1000000000000000, 2 + 1 / 1000000000000000⟩
noncomputable def M0' : R3 := ⟨2 + 1 / 1000000000000000, 3 - 1 / 1000000000000000, 6 + 1 / 1000000000000000⟩
noncomputable def G0' : R3 := ⟨9 / 8 - 1 / 1000000000000000, 4 + 1 / 1000000000000000, -1 - 1 / 1000000000000000⟩

theorem cQ0 : closeBy (1 / 1000000000000 / 1000) P0 Q0' := by unfold P0 Q0'; close_tac
theorem cF0 : closeBy (1 / 1000000000000 / 1000) D0 F0' := by unfold D0 F0'; close_tac
theorem cM0 : closeBy (1 / 1000000000000 / 1000) N0 M0' := by unfold N0 M0'; close_tac
theorem cG0 : closeBy (1 / 1000000000000 / 1000) E0 G0' := by unfold E0 G0'; close_tac

example : vecEq (1 / 1000000000000) P0 Q0' ∧ vecEq (1 / 1000000000000) Q0' P0 :=
  vecEq_of_close (by norm_num) cQ0

example : Line.eqT (1 / 1000000000000) ⟨P0, D0⟩ ⟨Q0', F0'⟩ ∧ Line.eqT (1 / 1000000000000) ⟨Q0', F0'⟩ ⟨P0, D0⟩ :=
  Line.eqT_of_close (l := ⟨P0, D0⟩) (l' := ⟨Q0', F0'⟩) (by norm_num) cQ0 cF0

example : Line.containsT (1 / 1000000000000) ⟨Q0', F0'⟩ (add P0 (smul (1 / 8) D0)) :=
  Line.containsT_of_close (l := ⟨P0, D0⟩) (l' := ⟨Q0', F0'⟩) (by norm_num) (by norm_num) cQ0 cF0
    (by norm_num [dot, D0]) (Or.inr (by norm_num))

/-- the gap: at eps = 1e-12 the point at distance 2·eps from the support of the x-axis is rejected by the copy
    whose support is 1e-15 off the axis -/
example : ¬ Line.containsT (1 / 1000000000000) ⟨⟨0, 1 / 1000000000000 / 1000, 0⟩, ⟨1, 0, 0⟩⟩
    (add (⟨0, 0, 0⟩ : R3) (smul (2 * (1 / 1000000000000)) ⟨1, 0, 0⟩)) :=
  (Line.contains_gap (eps := 1 / 1000000000000) (by norm_num) (by norm_num)).2

example : Plane.eqT (1 / 1000000000000) (Plane.ofPN P0 N0) (Plane.ofPN Q0' M0') ∧
    Plane.eqT (1 / 1000000000000) (Plane.ofPN Q0' M0') (Plane.ofPN P0 N0) :=
  Plane.eqT_of_close (by norm_num) (by norm_num) cQ0 cM0 (by norm_num [dot, N0])

example : Plane.containsT (1 / 1000000000000) (Plane.ofPN Q0' M0') (add P0 ⟨3, -2, 0⟩) :=
  Plane.containsT_of_close (R := 3) (p := P0) (r := N0) (by norm_num) (by norm_num) cQ0 cM0
    (by norm_num [dot, N0]) (by norm_num [dot, N0, P0, add, sub])
    (by refine ⟨?_, ?_, ?_⟩ <;> (simp only [P0, add, sub]; rw [abs_le]; constructor <;> norm_num))
    (by norm_num)

example : Segment.containsT (1 / 1000000000000) ⟨Q0', G0'⟩ (add P0 (smul 1 (sub E0 P0))) :=
  Segment.containsT_of_close (S := ⟨P0, E0⟩) (S' := ⟨Q0', G0'⟩) (by norm_num) (by norm_num) cQ0 cG0
    (by norm_num [dot, sub, E0, P0]) (by norm_num) (by norm_num) (Or.inr (by norm_num))

example : HalfLine.eqT (1 / 1000000000000) ⟨P0, N0⟩ ⟨Q0', M0'⟩ ∧
    HalfLine.eqT (1 / 1000000000000) ⟨Q0', M0'⟩ ⟨P0, N0⟩ :=
  HalfLine.eqT_of_close (H := ⟨P0, N0⟩) (H' := ⟨Q0', M0'⟩) (by norm_num) (by norm_num) cQ0 cM0
    (by norm_num [dot, N0])

example : HalfLine.containsT (1 / 1000000000000) ⟨Q0', M0'⟩ (add P0 (smul 0 N0)) :=
  HalfLine.containsT_of_close (H := ⟨P0, N0⟩) (H' := ⟨Q0', M0'⟩) (by norm_num) (by norm_num) cQ0 cM0
    (by norm_num [dot, N0])
    (by refine ⟨?_, ?_, ?_⟩ <;> (simp only [N0]; rw [abs_le]; constructor <;> norm_num))
    (by norm_num) (Or.inl rfl)

example : interLineLineBranch (1 / 1000000000000) ⟨P0, D0⟩ ⟨Q0', F0'⟩ = .coincident ∧
    interLineLineBranch (1 / 1000000000000) ⟨Q0', F0'⟩ ⟨P0, D0⟩ = .coincident :=
  interLineLine_coincident (l := ⟨P0, D0⟩) (l' := ⟨Q0', F0'⟩) (by norm_num) cQ0 cF0

example : interPlanePlaneBranch (1 / 1000000000000) (Plane.ofPN P0 N0) (Plane.ofPN Q0' M0') = .coincident ∧
    interPlanePlaneBranch (1 / 1000000000000) (Plane.ofPN Q0' M0') (Plane.ofPN P0 N0) = .coincident :=
  interPlanePlane_coincident (by norm_num) (by norm_num) cQ0 cM0 (by norm_num [dot, N0])

example : segSegCollinearBranch (1 / 1000000000000) ⟨P0, E0⟩ ⟨Q0', G0'⟩ ∧
    segSegAllEndpointsCollected (1 / 1000000000000) ⟨P0, E0⟩ ⟨Q0', G0'⟩ :=
  interSegSeg_coincident (S := ⟨P0, E0⟩) (S' := ⟨Q0', G0'⟩) (by norm_num) (by norm_num) cQ0 cG0
    (by norm_num [dot, sub, E0, P0])
end eps12

end G3D.TolGeo
