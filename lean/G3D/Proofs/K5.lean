import G3D.Model.K5
import G3D.Proofs.Polyhedron
import G3D.Proofs.Volume

/-! Kernel K5: a point passing all face half-space tests of a closed convex polyhedron is a convex combination of
    the vertices (`contains ⊆ hull`; the other inclusion is `Polyhedron.hull_subset_contains`).

    Route: (1) chord through the point along a face normal; a closed surface has faces looking both ways along any
    direction (vector areas sum to zero), so both chord ends are tight on a face plane (1-D LP, `lp_lo`/`lp_hi`);
    (2) a body point in the plane of a face lies in a face: either in THAT face when the neighbours across its edges
    are not coplanar (`FaceLocal`, `face_of_tight`), or, in general, in some coplanar face (`cover`: extremal argument
    along a generic line inside the plane, needs an interior point to exclude back-to-back faces);
    (3) K0 (`Polygon.contains_iff`) + `InHull.mono` + `InHull.convex`.
    Main results: `Polyhedron.contains_subset_hull`, `Polyhedron.contains_iff_hull` (hypothesis `Polyhedron.Valid`),
    Bool judges `validB`/`validProperB`/`faceLocalB` with soundness, bridge from `polyhedronValidB`, tetrahedron,
    concrete instances. -/
namespace G3D
open V3

/-! ### (a) monotonicity of the hull under list inclusion -/

theorem comb_replicate_zero (l : List V3) : comb (List.replicate l.length (0 : Rat)) l = zero := by
  rw [comb_replicate]; apply V3.ext' <;> simp [smul, zero]

/-- re-express any non-negative combination of points of `l'` as a combination over `l'` itself -/
theorem comb_transfer (l' : List V3) : ∀ (ws : List Rat) (ps : List V3), ws.length = ps.length →
    (∀ w ∈ ws, 0 ≤ w) → (∀ p ∈ ps, p ∈ l') →
    ∃ us : List Rat, us.length = l'.length ∧ (∀ u ∈ us, 0 ≤ u) ∧ us.sum = ws.sum ∧ comb us l' = comb ws ps := by
  intro ws
  induction ws with
  | nil =>
    intro ps h _ _
    cases ps with
    | nil =>
      refine ⟨List.replicate l'.length 0, by simp, ?_, by simp, ?_⟩
      · intro u hu; rw [List.mem_replicate] at hu; rw [hu.2]
      · rw [comb_replicate_zero]; rfl
    | cons _ _ => simp at h
  | cons w ws ih =>
    intro ps h hw hp
    cases ps with
    | nil => simp at h
    | cons p ps =>
      obtain ⟨us, hul, hun, hus, huc⟩ := ih ps (by simpa using h) (fun w' h' => hw w' (by simp [h']))
        (fun p' h' => hp p' (by simp [h']))
      obtain ⟨vs, hvl, hvn, hvs, hvc⟩ := vertex_in_hull l' p (hp p (by simp))
      have hw0 : 0 ≤ w := hw w (by simp)
      refine ⟨List.zipWith (fun u v => 1 * u + w * v) us vs, by simp [hul, hvl], ?_, ?_, ?_⟩
      · intro z hz
        obtain ⟨i, hi, rfl⟩ := List.mem_iff_getElem.mp hz
        simp only [List.getElem_zipWith]
        have a := hun _ (List.getElem_mem (by simp at hi; omega : i < us.length))
        have b := hvn _ (List.getElem_mem (by simp at hi; omega : i < vs.length))
        nlinarith
      · rw [sum_zipWith_lin _ _ _ _ (by rw [hul, hvl]), hus, hvs]; simp [List.sum_cons]; ring
      · rw [comb_add_smul us vs l' 1 w hul hvl, huc, hvc]
        apply V3.ext' <;> simp only [comb, add, smul] <;> ring

/-- (a) the hull is monotone under inclusion of the generating lists -/
theorem InHull.mono {l l' : List V3} {x : V3} (h : InHull l x) (hsub : ∀ p ∈ l, p ∈ l') : InHull l' x := by
  obtain ⟨ws, hlen, hnn, hsum, hc⟩ := h
  obtain ⟨us, hul, hun, hus, huc⟩ := comb_transfer l' ws l hlen hnn hsub
  exact ⟨us, hul, hun, by rw [hus, hsum], by rw [huc, hc]⟩
#print axioms InHull.mono

/-! ### (c) a point of the body lying in a face plane lies in the face -/

/-- locality hypothesis: for every face `f` and every directed edge `(a, b)` of `f` there is a face `g` whose plane
    passes through `a` and `b` and which has a vertex of `f` strictly on its inner side (so that the plane of `g`
    meets the plane of `f` exactly in the carrier of the edge) -/
def Polyhedron.FaceLocal (B : Polyhedron) : Prop :=
  ∀ f ∈ B.faces, ∀ e ∈ closedPairs f.pts,
    ∃ g ∈ B.faces, g.side e.1 = 0 ∧ g.side e.2 = 0 ∧ ∃ v ∈ f.pts, g.side v < 0

/-- the neighbouring half-space `(· - q) . m ≤ 0`, restricted to the plane of `f`, is the edge inequality -/
theorem edge_of_neighbour (n pl a b v y q m : V3) (hn : n ≠ zero)
    (ha : inPlane n pl a = true) (hb : inPlane n pl b = true) (hv : inPlane n pl v = true)
    (hy : inPlane n pl y = true)
    (hGa : dot (sub a q) m = 0) (hGb : dot (sub b q) m = 0)
    (hD : 0 < orient n a b v) (hGv : dot (sub v q) m < 0) (hGy : dot (sub y q) m ≤ 0) :
    0 ≤ orient n a b y := by
  have hN := normSq_pos hn
  have nu : dot n (sub b a) = 0 := inPlane_diff ha hb
  have nw : dot n (sub v a) = 0 := inPlane_diff ha hv
  have nz : dot n (sub y a) = 0 := inPlane_diff ha hy
  have mu : dot m (sub b a) = 0 := by
    have : dot m (sub b a) = dot (sub b q) m - dot (sub a q) m := by simp only [dot, sub]; ring
    rw [this, hGa, hGb]; ring
  have eGv : dot (sub v q) m = dot m (sub v a) := by
    have : dot (sub v q) m = dot m (sub v a) + dot (sub a q) m := by simp only [dot, sub]; ring
    rw [this, hGa]; ring
  have eGy : dot (sub y q) m = dot m (sub y a) := by
    have : dot (sub y q) m = dot m (sub y a) + dot (sub a q) m := by simp only [dot, sub]; ring
    rw [this, hGa]; ring
  set T := trip (sub b a) (sub v a) (sub y a) with hTd
  have hT : T = 0 := by
    have e : T * normSq n = dot n (sub b a) * dot n (cross (sub v a) (sub y a))
        + dot n (sub v a) * dot n (cross (sub y a) (sub b a))
        + dot n (sub y a) * dot n (cross (sub b a) (sub v a)) := by
      simp only [hTd, trip, normSq, dot, cross, sub]; ring
    rw [nu, nw, nz] at e
    have : T * normSq n = 0 := by rw [e]; ring
    rcases mul_eq_zero.mp this with h | h
    · exact h
    · exact absurd h (ne_of_gt hN)
  have id4 : orient n a b y * dot m (sub v a) - orient n a b v * dot m (sub y a) =
      - T * dot m n + dot n (cross (sub v a) (sub y a)) * dot m (sub b a) := by
    simp only [hTd, trip, orient, dot, cross, sub]; ring
  rw [hT, mu] at id4
  rw [eGv] at hGv
  rw [eGy] at hGy
  by_contra hcon
  have hcon := not_le.mp hcon
  have h1 : 0 < orient n a b y * dot m (sub v a) := mul_pos_of_neg_of_neg hcon hGv
  have h2 : orient n a b v * dot m (sub y a) ≤ 0 := mul_nonpos_of_nonneg_of_nonpos (le_of_lt hD) hGy
  linarith

theorem Polygon.side_zero_inPlane (f : Polygon) (hc : G3D.inPlane f.plane.n f.plane.p f.center = true) (x : V3) :
    f.side x = 0 ↔ G3D.inPlane f.plane.n f.plane.p x = true := by
  simp only [G3D.inPlane, beq_iff_eq] at hc ⊢
  have : dot f.plane.n (sub x f.plane.p) = f.side x + dot f.plane.n (sub f.center f.plane.p) := by
    simp only [Polygon.side, dot, sub]; ring
  rw [this, hc]; simp

/-- (c) under `FaceLocal`, a point of the body in the plane of a face passes the polygon test of that face -/
theorem Polyhedron.face_of_tight (B : Polyhedron) (hfv : ∀ f ∈ B.faces, f.Valid)
    (hcp : ∀ f ∈ B.faces, inPlane f.plane.n f.plane.p f.center = true) (hloc : B.FaceLocal)
    (y : V3) (hy : B.contains y = true) (f : Polygon) (hf : f ∈ B.faces) (ht : f.side y = 0) :
    f.contains y = true := by
  have hyp : inPlane f.plane.n f.plane.p y = true := (f.side_zero_inPlane (hcp f hf) y).mp ht
  have hn : f.plane.n ≠ zero := Polygon.plane_WF f (hfv f hf)
  obtain ⟨p0, p1, p2, rest, hp, hpl, htp⟩ := hfv f hf
  rw [Polygon.contains_eq]
  unfold polyContains
  rw [Bool.and_eq_true, List.all_eq_true]
  refine ⟨hyp, ?_⟩
  intro e he
  simp only [decide_eq_true_eq]
  obtain ⟨g, hg, hga, hgb, v, hv, hgv⟩ := hloc f hf e he
  have hm := closedPairs_mem f.pts e he
  have hD : 0 < orient f.plane.n e.1 e.2 v := by
    rcases closed_edges_pos f.plane.n f.pts htp e he v hv with h | h | h
    · exact h
    · rw [h] at hgv; rw [hga] at hgv; exact absurd hgv (lt_irrefl _)
    · rw [h] at hgv; rw [hgb] at hgv; exact absurd hgv (lt_irrefl _)
  have hgy : g.side y ≤ 0 := by
    unfold Polyhedron.contains at hy
    rw [List.all_eq_true] at hy
    simpa [Polygon.side] using hy g hg
  exact edge_of_neighbour f.plane.n f.plane.p e.1 e.2 v y g.center g.plane.n hn
    (hpl _ hm.1) (hpl _ hm.2) (hpl _ hv) hyp hga hgb hD hgv hgy
#print axioms Polyhedron.face_of_tight

/-- hence it is a convex combination of the vertices of that face, and of the vertices of the body -/
theorem Polyhedron.hull_of_tight (B : Polyhedron) (hfv : ∀ f ∈ B.faces, f.Valid)
    (hcp : ∀ f ∈ B.faces, inPlane f.plane.n f.plane.p f.center = true)
    (hsub : ∀ f ∈ B.faces, ∀ p ∈ f.pts, p ∈ B.verts) (hloc : B.FaceLocal)
    (y : V3) (hy : B.contains y = true) (f : Polygon) (hf : f ∈ B.faces) (ht : f.side y = 0) :
    InHull B.verts y :=
  ((Polygon.contains_iff f (hfv f hf) y).mp (B.face_of_tight hfv hcp hloc y hy f hf ht)).mono (hsub f hf)

/-! ### boundedness: a closed surface has faces looking both ways along every direction -/

theorem sum_pos_of_nonneg_of_pos (l : List Rat) (h : ∀ x ∈ l, 0 ≤ x) (hp : ∃ x ∈ l, 0 < x) : 0 < l.sum := by
  have h0 : 0 ≤ l.sum := List.sum_nonneg h
  rcases lt_or_eq_of_le h0 with h1 | h1
  · exact h1
  · obtain ⟨x, hx, hxp⟩ := hp
    have := all_zero_of_nonneg_sum_zero l h h1.symm x hx
    linarith

/-- the (doubled) area of a valid polygon, measured along its normal, is positive -/
theorem area_pos (n : V3) (p0 p1 p2 : V3) (rest : List V3) (htp : triplesPos n (p0 :: p1 :: p2 :: rest)) :
    0 < dot n (vecArea2 (p0 :: p1 :: p2 :: rest)) := by
  set l := p0 :: p1 :: p2 :: rest with hl
  have h := fan_sum_eq_shoelace n p0 l
  have hterm : ∀ e : V3 × V3, dot n (cross (sub e.1 p0) (sub e.2 p0)) = orient n e.1 e.2 p0 := by
    intro e; simp only [orient, dot, cross, sub]; ring
  unfold vecArea2
  rw [← h]
  apply sum_pos_of_nonneg_of_pos
  · intro x hx
    obtain ⟨e, he, rfl⟩ := List.mem_map.mp hx
    rw [hterm]; exact closed_edges_nonneg n l htp e he p0 (by simp [hl])
  · refine ⟨orient n p1 p2 p0, List.mem_map.mpr ⟨(p1, p2), by simp [hl, closedPairs, consec], hterm _⟩, ?_⟩
    rw [← orient_cyc]; exact htp.1 p1 p2 (by simp)

theorem Polygon.vecArea_eq (f : Polygon) (hv : f.Valid) :
    ∃ k : Rat, 0 < k ∧ vecArea2 f.pts = smul k f.plane.n := by
  have hn : f.plane.n ≠ zero := Polygon.plane_WF f hv
  obtain ⟨p0, p1, p2, rest, hp, hpl, htp⟩ := hv
  refine ⟨dot f.plane.n (vecArea2 f.pts) / normSq f.plane.n, ?_, vecArea2_parallel f.plane.n f.plane.p hn f.pts hpl⟩
  apply div_pos _ (normSq_pos hn)
  rw [hp] at htp ⊢
  exact area_pos f.plane.n p0 p1 p2 rest htp

theorem sum_map_dot_vecArea (e : V3) (fs : List Polygon) :
    dot e (vsum ((fs.map (·.pts)).map vecArea2)) = (fs.map (fun f => dot e (vecArea2 f.pts))).sum := by
  rw [dot_vsum, List.map_map, List.map_map]; rfl

/-- if some face looks along `e`, some face looks against `e` -/
theorem Polyhedron.exists_opposite_face (B : Polyhedron) (hfv : ∀ f ∈ B.faces, f.Valid)
    (hc : ClosedSurface (B.faces.map (·.pts))) (e : V3) (h : ∃ f ∈ B.faces, 0 < dot f.plane.n e) :
    ∃ g ∈ B.faces, dot g.plane.n e < 0 := by
  have hz := closed_vecArea_zero _ hc
  have hs : (B.faces.map (fun f => dot e (vecArea2 f.pts))).sum = 0 := by
    rw [← sum_map_dot_vecArea, hz]; simp [dot, zero]
  obtain ⟨f, hf, hfe⟩ := h
  have hterm : ∀ g ∈ B.faces, ∃ k : Rat, 0 < k ∧ dot e (vecArea2 g.pts) = k * dot g.plane.n e := by
    intro g hg
    obtain ⟨k, hk, hke⟩ := g.vecArea_eq (hfv g hg)
    exact ⟨k, hk, by rw [hke]; simp only [dot, smul]; ring⟩
  have hne : ∃ x ∈ B.faces.map (fun f => dot e (vecArea2 f.pts)), x ≠ 0 := by
    obtain ⟨k, hk, hke⟩ := hterm f hf
    exact ⟨_, List.mem_map.mpr ⟨f, hf, rfl⟩, by rw [hke]; exact ne_of_gt (mul_pos hk hfe)⟩
  obtain ⟨x, hx, hxn⟩ := (exists_pos_neg_of_sum_zero _ hs hne).2
  obtain ⟨g, hg, rfl⟩ := List.mem_map.mp hx
  obtain ⟨k, hk, hke⟩ := hterm g hg
  refine ⟨g, hg, ?_⟩
  rw [hke] at hxn
  by_contra hcon
  have hcon := not_lt.mp hcon
  have := mul_nonneg (le_of_lt hk) hcon
  linarith
#print axioms Polyhedron.exists_opposite_face

/-! ### (b) chord through a point of the body: both ends are tight on some face -/

theorem Polygon.side_pt (f : Polygon) (x e : V3) (t : Rat) :
    f.side (pt x e t) = f.side x + t * dot f.plane.n e := by
  simp only [Polygon.side, pt, dot, sub, add, smul]; ring

theorem Polyhedron.contains_iff_side (B : Polyhedron) (x : V3) :
    B.contains x = true ↔ ∀ f ∈ B.faces, f.side x ≤ 0 := by
  unfold Polyhedron.contains
  rw [List.all_eq_true]
  simp only [decide_eq_true_eq, Polygon.side]

/-- (b) chord reduction: every point of the body lies on a segment `[y2, y1]` of the body whose two ends are each
    tight on (= in the plane of) some face.  Needs only: at least one face, faces valid, closed surface. -/
theorem Polyhedron.chord (B : Polyhedron) (hne : B.faces ≠ []) (hfv : ∀ f ∈ B.faces, f.Valid)
    (hc : ClosedSurface (B.faces.map (·.pts))) (x : V3) (hx : B.contains x = true) :
    ∃ y1 y2 : V3, B.contains y1 = true ∧ B.contains y2 = true ∧
      (∃ f ∈ B.faces, f.side y1 = 0) ∧ (∃ f ∈ B.faces, f.side y2 = 0) ∧ Between y2 y1 x := by
  obtain ⟨f0, hf0⟩ := List.exists_mem_of_ne_nil _ hne
  set e := f0.plane.n with he
  have hn0 : e ≠ zero := Polygon.plane_WF f0 (hfv f0 hf0)
  have h0 : 0 < dot f0.plane.n e := normSq_pos hn0
  obtain ⟨g0, hg0, hg0e⟩ := B.exists_opposite_face hfv hc e ⟨f0, hf0, h0⟩
  set C : List (Rat × Rat) := B.faces.map (fun f => (- f.side x, - dot f.plane.n e)) with hC
  have hfeas : ∀ t, Feas C t ↔ B.contains (pt x e t) = true := by
    intro t
    rw [B.contains_iff_side]
    unfold Feas
    constructor
    · intro h f hf
      have := h _ (List.mem_map.mpr ⟨f, hf, rfl⟩)
      simp only at this
      rw [f.side_pt]; linarith
    · intro h c hc'
      obtain ⟨f, hf, rfl⟩ := List.mem_map.mp hc'
      have := h f hf
      rw [f.side_pt] at this
      simp only; linarith
  have hpt0 : pt x e 0 = x := by apply V3.ext' <;> simp [pt, add, smul]
  have hF0 : Feas C 0 := (hfeas 0).mpr (by rw [hpt0]; exact hx)
  obtain ⟨thi, hthi, hmax, c1, hc1, _, hc1t⟩ := lp_hi C 0 hF0
    ⟨_, List.mem_map.mpr ⟨f0, hf0, rfl⟩, by simp only; linarith⟩
  obtain ⟨tlo, htlo, hmin, c2, hc2, _, hc2t⟩ := lp_lo C 0 hF0
    ⟨_, List.mem_map.mpr ⟨g0, hg0, rfl⟩, by simp only; linarith⟩
  obtain ⟨f1, hf1, rfl⟩ := List.mem_map.mp hc1
  obtain ⟨f2, hf2, rfl⟩ := List.mem_map.mp hc2
  simp only at hc1t hc2t
  have hhi : 0 ≤ thi := hmax 0 hF0
  have hlo : tlo ≤ 0 := hmin 0 hF0
  refine ⟨pt x e thi, pt x e tlo, (hfeas thi).mp hthi, (hfeas tlo).mp htlo,
    ⟨f1, hf1, by rw [f1.side_pt]; linarith⟩, ⟨f2, hf2, by rw [f2.side_pt]; linarith⟩, ?_⟩
  rcases eq_or_lt_of_le (sub_nonneg.mpr (le_trans hlo hhi)) with hd | hd
  · -- degenerate chord: thi = tlo = 0
    have h1 : tlo = 0 := by linarith
    refine ⟨0, le_refl _, by norm_num, ?_⟩
    rw [h1]; apply V3.ext' <;> simp [pt, add, smul, sub]
  · refine ⟨- tlo / (thi - tlo), div_nonneg (by linarith) (le_of_lt hd), ?_, ?_⟩
    · rw [div_le_one hd]; linarith
    · have hne' : thi - tlo ≠ 0 := ne_of_gt hd
      apply V3.ext' <;> simp only [pt, add, smul, sub] <;> field_simp <;> ring
#print axioms Polyhedron.chord

/-! ### (c) the theorem under the explicit locality hypothesis -/

/-- K5 under `FaceLocal`: a point passing all face tests is a convex combination of the vertices.
    Assumes: at least one face; every face a valid polygon (coplanar, positively oriented cycle, ≥ 3 vertices) with
    its stored centre in its plane; face vertices are listed in `B.verts`; the directed edges form a closed surface;
    `FaceLocal`. -/
theorem Polyhedron.contains_subset_hull_of_faceLocal (B : Polyhedron) (hne : B.faces ≠ [])
    (hfv : ∀ f ∈ B.faces, f.Valid)
    (hcp : ∀ f ∈ B.faces, inPlane f.plane.n f.plane.p f.center = true)
    (hsub : ∀ f ∈ B.faces, ∀ p ∈ f.pts, p ∈ B.verts)
    (hc : ClosedSurface (B.faces.map (·.pts))) (hloc : B.FaceLocal)
    (x : V3) (hx : B.contains x = true) : InHull B.verts x := by
  obtain ⟨y1, y2, hy1, hy2, ⟨f1, hf1, ht1⟩, ⟨f2, hf2, ht2⟩, s, hs0, hs1, rfl⟩ := B.chord hne hfv hc x hx
  exact (B.hull_of_tight hfv hcp hsub hloc y2 hy2 f2 hf2 ht2).convex
    (B.hull_of_tight hfv hcp hsub hloc y1 hy1 f1 hf1 ht1) s hs0 hs1
#print axioms Polyhedron.contains_subset_hull_of_faceLocal

/-! ### (d) the Bool checker of `FaceLocal` -/
theorem Polyhedron.faceLocal_of_faceLocalB (B : Polyhedron) (h : B.faceLocalB = true) : B.FaceLocal := by
  intro f hf e he
  unfold Polyhedron.faceLocalB at h
  rw [List.all_eq_true] at h
  have h1 := h f hf
  rw [List.all_eq_true] at h1
  have h2 := h1 e he
  rw [List.any_eq_true] at h2
  obtain ⟨g, hg, h3⟩ := h2
  rw [Bool.and_eq_true, Bool.and_eq_true, List.any_eq_true] at h3
  obtain ⟨⟨ha, hb⟩, v, hv, hgv⟩ := h3
  exact ⟨g, hg, by simpa using ha, by simpa using hb, v, hv, by simpa using hgv⟩

theorem Polyhedron.faceLocalB_iff (B : Polyhedron) : B.faceLocalB = true ↔ B.FaceLocal := by
  refine ⟨B.faceLocal_of_faceLocalB, ?_⟩
  intro h
  unfold Polyhedron.faceLocalB
  rw [List.all_eq_true]
  intro f hf
  rw [List.all_eq_true]
  intro e he
  obtain ⟨g, hg, ha, hb, v, hv, hgv⟩ := h f hf e he
  rw [List.any_eq_true]
  refine ⟨g, hg, ?_⟩
  rw [Bool.and_eq_true, Bool.and_eq_true, List.any_eq_true]
  exact ⟨⟨by simpa using ha, by simpa using hb⟩, v, hv, by simpa using hgv⟩

/-! ### neighbours across an edge -/
theorem mem_dirEdges (fs : List Polygon) (e : V3 × V3) :
    e ∈ dirEdges (fs.map (·.pts)) ↔ ∃ f ∈ fs, e ∈ closedPairs f.pts := by
  unfold dirEdges
  rw [List.mem_flatMap]
  constructor
  · rintro ⟨l, hl, he⟩
    obtain ⟨f, hf, rfl⟩ := List.mem_map.mp hl
    exact ⟨f, hf, he⟩
  · rintro ⟨f, hf, he⟩
    exact ⟨f.pts, List.mem_map.mpr ⟨f, hf, rfl⟩, he⟩

/-- in a closed surface every directed edge has its reverse in some face -/
theorem Polyhedron.exists_neighbour (B : Polyhedron) (hc : ClosedSurface (B.faces.map (·.pts)))
    (f : Polygon) (hf : f ∈ B.faces) (e : V3 × V3) (he : e ∈ closedPairs f.pts) :
    ∃ g ∈ B.faces, (e.2, e.1) ∈ closedPairs g.pts := by
  have h1 : e ∈ dirEdges (B.faces.map (·.pts)) := (mem_dirEdges _ e).mpr ⟨f, hf, he⟩
  have h2 := (List.Perm.mem_iff hc).mp h1
  obtain ⟨e', he', rfl⟩ := List.mem_map.mp h2
  exact (mem_dirEdges _ _).mp (by simpa using he')


/-! ### a valid polygon never contains an edge together with its reverse -/
theorem Polygon.no_rev_edge (P : Polygon) (hv : P.Valid) (e : V3 × V3) (he : e ∈ closedPairs P.pts)
    (hr : (e.2, e.1) ∈ closedPairs P.pts) : False := by
  obtain ⟨p0, p1, p2, rest, hp, _, htp⟩ := hv
  have hD : 0 < orient P.plane.n p0 p1 p2 := by rw [hp] at htp; exact htp.1 p1 p2 (by simp)
  have h01 : p0 ≠ p1 := by intro h; rw [h, orient_same] at hD; exact lt_irrefl _ hD
  have h12 : p1 ≠ p2 := by intro h; rw [h, orient_self_right] at hD; exact lt_irrefl _ hD
  have h02 : p0 ≠ p2 := by intro h; rw [h, orient_cyc, orient_self_right] at hD; exact lt_irrefl _ hD
  have hex : ∃ v ∈ P.pts, v ≠ e.1 ∧ v ≠ e.2 := by
    rw [hp]
    by_cases a0 : p0 = e.1 ∨ p0 = e.2
    · by_cases a1 : p1 = e.1 ∨ p1 = e.2
      · refine ⟨p2, by simp, ?_, ?_⟩
        · intro h2
          rcases a0 with a0 | a0 <;> rcases a1 with a1 | a1
          · exact h01 (a0.trans a1.symm)
          · exact h02 (a0.trans h2.symm)
          · exact h12 (a1.trans h2.symm)
          · exact h01 (a0.trans a1.symm)
        · intro h2
          rcases a0 with a0 | a0 <;> rcases a1 with a1 | a1
          · exact h01 (a0.trans a1.symm)
          · exact h12 (a1.trans h2.symm)
          · exact h02 (a0.trans h2.symm)
          · exact h01 (a0.trans a1.symm)
      · exact ⟨p1, by simp, fun h => a1 (Or.inl h), fun h => a1 (Or.inr h)⟩
    · exact ⟨p0, by simp, fun h => a0 (Or.inl h), fun h => a0 (Or.inr h)⟩
  obtain ⟨v, hvm, hv1, hv2⟩ := hex
  have q1 : 0 < orient P.plane.n e.1 e.2 v := by
    rcases closed_edges_pos P.plane.n P.pts htp e he v hvm with h | h | h
    · exact h
    · exact absurd h hv1
    · exact absurd h hv2
  have q2 : 0 < orient P.plane.n e.2 e.1 v := by
    rcases closed_edges_pos P.plane.n P.pts htp _ hr v hvm with h | h | h
    · exact h
    · exact absurd h hv2
    · exact absurd h hv1
  rw [orient_rev] at q2
  linarith

/-! ### coplanar neighbours: same supporting plane, same outward direction -/

/-- `g` has the same supporting plane and the same outward direction as `f` -/
def SamePlane (f g : Polygon) : Prop :=
  ∃ k : Rat, 0 < k ∧ g.plane.n = smul k f.plane.n ∧ ∀ x, g.side x = k * f.side x

theorem SamePlane.refl (f : Polygon) : SamePlane f f :=
  ⟨1, one_pos, by apply V3.ext' <;> simp [smul], fun x => by ring⟩

theorem SamePlane.trans {f g h : Polygon} (h1 : SamePlane f g) (h2 : SamePlane g h) : SamePlane f h := by
  obtain ⟨k1, hk1, hn1, hs1⟩ := h1
  obtain ⟨k2, hk2, hn2, hs2⟩ := h2
  refine ⟨k2 * k1, mul_pos hk2 hk1, ?_, fun x => by rw [hs2, hs1]; ring⟩
  rw [hn2, hn1]; apply V3.ext' <;> simp only [smul] <;> ring

theorem orient_smul (k : Rat) (n a b x : V3) : orient (smul k n) a b x = k * orient n a b x := by
  simp only [orient, dot, cross, sub, smul]; ring

/-- a vector orthogonal to two independent vectors is a multiple of their cross product -/
theorem parallel_of_perp (u w m : V3) (hN : cross u w ≠ zero) (hu : dot m u = 0) (hw : dot m w = 0) :
    ∃ k : Rat, m = smul k (cross u w) := by
  have hc : cross m (cross u w) = zero := by
    have : cross m (cross u w) = sub (smul (dot m w) u) (smul (dot m u) w) := by
      apply V3.ext' <;> simp only [cross, sub, smul, dot] <;> ring
    rw [this, hu, hw]; apply V3.ext' <;> simp [sub, smul, zero]
  exact ⟨_, exists_smul_of_cross_zero hN hc⟩

/-- a face `h` whose plane contains all vertices of the valid face `F` is coplanar with `F`; with an interior
    point of the body on the inner side of both, the outward directions agree -/
theorem coplanar_neighbour (F h : Polygon) (hF : F.Valid)
    (hcF : G3D.inPlane F.plane.n F.plane.p F.center = true)
    (o : V3) (hoF : F.side o < 0) (hoh : h.side o < 0)
    (hall : ∀ v ∈ F.pts, h.side v = 0) : SamePlane F h := by
  have hnF : F.plane.n ≠ zero := Polygon.plane_WF F hF
  obtain ⟨p0, p1, p2, rest, hp, hpl, htp⟩ := hF
  have hm0 : p0 ∈ F.pts := by rw [hp]; simp
  have hm1 : p1 ∈ F.pts := by rw [hp]; simp
  have hm2 : p2 ∈ F.pts := by rw [hp]; simp
  have hD : 0 < orient F.plane.n p0 p1 p2 := by rw [hp] at htp; exact htp.1 p1 p2 (by simp)
  set u := sub p1 p0 with hu
  set w := sub p2 p0 with hw
  have hN : cross u w ≠ zero := by
    intro hz
    have : orient F.plane.n p0 p1 p2 = dot F.plane.n (cross u w) := rfl
    rw [this, hz] at hD; simp [dot, zero] at hD
  have nFu : dot F.plane.n u = 0 := inPlane_diff (hpl _ hm0) (hpl _ hm1)
  have nFw : dot F.plane.n w = 0 := inPlane_diff (hpl _ hm0) (hpl _ hm2)
  have s0 := hall p0 hm0
  have s1 := hall p1 hm1
  have s2 := hall p2 hm2
  have mu : dot h.plane.n u = 0 := by
    have : dot h.plane.n u = h.side p1 - h.side p0 := by simp only [hu, Polygon.side, dot, sub]; ring
    rw [this, s0, s1]; ring
  have mw : dot h.plane.n w = 0 := by
    have : dot h.plane.n w = h.side p2 - h.side p0 := by simp only [hw, Polygon.side, dot, sub]; ring
    rw [this, s0, s2]; ring
  obtain ⟨k1, hk1⟩ := parallel_of_perp u w h.plane.n hN mu mw
  obtain ⟨k2, hk2⟩ := parallel_of_perp u w F.plane.n hN nFu nFw
  have hk2ne : k2 ≠ 0 := smul_ne_zero_left (by rw [← hk2]; exact hnF)
  have hmn : h.plane.n = smul (k1 / k2) F.plane.n := by
    rw [hk1]; conv_rhs => rw [hk2]
    apply V3.ext' <;> simp only [smul] <;> field_simp
  set k := k1 / k2 with hk
  -- the side functionals are proportional
  have hF0 : F.side p0 = 0 := (F.side_zero_inPlane hcF p0).mpr (hpl _ hm0)
  have hside : ∀ x, h.side x = k * F.side x := by
    intro x
    have e1 : h.side x = h.side x - h.side p0 := by rw [s0]; ring
    have e2 : F.side x = F.side x - F.side p0 := by rw [hF0]; ring
    rw [e1, e2]
    simp only [Polygon.side, hmn, dot, sub, smul]; ring
  have hkpos : 0 < k := by
    have := hside o
    by_contra hcon
    have hcon := not_lt.mp hcon
    have : 0 ≤ k * F.side o := mul_nonneg_of_nonpos_of_nonpos hcon (le_of_lt hoF)
    linarith [hside o]
  exact ⟨k, hkpos, hmn, hside⟩

/-! ### a valid face against a line in its plane: the last parameter (≤ 1) at which the line is in the face -/

theorem Polygon.contains_iff_edges (g : Polygon) (x : V3) (hx : G3D.inPlane g.plane.n g.plane.p x = true) :
    g.contains x = true ↔ ∀ e ∈ closedPairs g.pts, 0 ≤ orient g.plane.n e.1 e.2 x := by
  rw [Polygon.contains_eq]
  unfold polyContains
  rw [Bool.and_eq_true, List.all_eq_true]
  simp only [decide_eq_true_eq]
  exact ⟨fun h => h.2, fun h => ⟨hx, h⟩⟩

theorem face_line_max (g : Polygon) (c d : V3) (hc : G3D.inPlane g.plane.n g.plane.p c = true)
    (hd : dot g.plane.n d = 0) (t0 : Rat) (h1 : t0 ≤ 1) (hin : g.contains (pt c d t0) = true) :
    ∃ tm, t0 ≤ tm ∧ tm ≤ 1 ∧ g.contains (pt c d tm) = true ∧
      (∀ t, t ≤ 1 → g.contains (pt c d t) = true → t ≤ tm) ∧
      (tm = 1 ∨ ∃ e ∈ closedPairs g.pts, orient g.plane.n e.1 e.2 (pt c d tm) = 0 ∧
        dot g.plane.n (cross (sub e.2 e.1) d) < 0) := by
  set n := g.plane.n with hn
  set C : List (Rat × Rat) := (1, -1) :: (closedPairs g.pts).map
    (fun e => (orient n e.1 e.2 c, dot n (cross (sub e.2 e.1) d))) with hC
  have hfeas : ∀ t, Feas C t ↔ (t ≤ 1 ∧ g.contains (pt c d t) = true) := by
    intro t
    rw [g.contains_iff_edges _ (inPlane_pt hc hd t)]
    unfold Feas
    rw [hC]
    constructor
    · intro h
      refine ⟨by have := h (1, -1) (by simp); simp only at this; linarith, ?_⟩
      intro e he
      have := h _ (List.mem_cons_of_mem _ (List.mem_map.mpr ⟨e, he, rfl⟩))
      simp only at this
      rw [orient_pt]; exact this
    · rintro ⟨ht, h⟩ c' hc'
      rcases List.mem_cons.mp hc' with rfl | hc'
      · simp only; linarith
      · obtain ⟨e, he, rfl⟩ := List.mem_map.mp hc'
        have := h e he
        rw [orient_pt] at this
        exact this
  have hF0 : Feas C t0 := (hfeas t0).mpr ⟨h1, hin⟩
  obtain ⟨thi, hthi, hmax, c1, hc1, hneg, htight⟩ := lp_hi C t0 hF0 ⟨(1, -1), by simp [hC], by norm_num⟩
  have h2 := (hfeas thi).mp hthi
  refine ⟨thi, hmax t0 hF0, h2.1, h2.2, fun t ht hg => hmax t ((hfeas t).mpr ⟨ht, hg⟩), ?_⟩
  rw [hC] at hc1
  rcases List.mem_cons.mp hc1 with rfl | hc1
  · left; simp only at htight; linarith
  · right
    obtain ⟨e, he, rfl⟩ := List.mem_map.mp hc1
    simp only at htight hneg
    exact ⟨e, he, by rw [orient_pt]; exact htight, hneg⟩

/-- maximum over a list of "intervals", each of which has a maximum when non-empty -/
theorem exists_max_rel {α : Type} (I : α → Rat → Prop) : ∀ (l : List α),
    (∀ a ∈ l, (∃ t, I a t) → ∃ tm, I a tm ∧ ∀ t, I a t → t ≤ tm) → (∃ a ∈ l, ∃ t, I a t) →
    ∃ a ∈ l, ∃ tm, I a tm ∧ ∀ b ∈ l, ∀ t, I b t → t ≤ tm := by
  intro l
  induction l with
  | nil => rintro _ ⟨a, ha, _⟩; cases ha
  | cons a l ih =>
    intro hmax hne
    have hmax' : ∀ b ∈ l, (∃ t, I b t) → ∃ tm, I b tm ∧ ∀ t, I b t → t ≤ tm :=
      fun b hb => hmax b (List.mem_cons_of_mem _ hb)
    by_cases hl : ∃ b ∈ l, ∃ t, I b t
    · obtain ⟨b, hb, tb, hIb, hbmax⟩ := ih hmax' hl
      by_cases ha : ∃ t, I a t
      · obtain ⟨ta, hIa, hamax⟩ := hmax a (by simp) ha
        rcases le_total ta tb with h | h
        · refine ⟨b, List.mem_cons_of_mem _ hb, tb, hIb, ?_⟩
          intro x hx t ht
          rcases List.mem_cons.mp hx with rfl | hx
          · exact le_trans (hamax t ht) h
          · exact hbmax x hx t ht
        · refine ⟨a, by simp, ta, hIa, ?_⟩
          intro x hx t ht
          rcases List.mem_cons.mp hx with rfl | hx
          · exact hamax t ht
          · exact le_trans (hbmax x hx t ht) h
      · refine ⟨b, List.mem_cons_of_mem _ hb, tb, hIb, ?_⟩
        intro x hx t ht
        rcases List.mem_cons.mp hx with rfl | hx
        · exact absurd ⟨t, ht⟩ ha
        · exact hbmax x hx t ht
    · obtain ⟨x, hx, t, ht⟩ := hne
      rcases List.mem_cons.mp hx with rfl | hx
      · obtain ⟨ta, hIa, hamax⟩ := hmax x (by simp) ⟨t, ht⟩
        refine ⟨x, by simp, ta, hIa, ?_⟩
        intro y hy s hs
        rcases List.mem_cons.mp hy with rfl | hy
        · exact hamax s hs
        · exact absurd ⟨y, hy, s, hs⟩ hl
      · exact absurd ⟨x, hx, t, ht⟩ hl

/-! ### a generic starting point: a line through `y` that avoids finitely many given points -/

theorem length_le_one_of_all_eq {α : Type} : ∀ (l : List α), l.Nodup → (∀ a ∈ l, ∀ b ∈ l, a = b) → l.length ≤ 1
  | [], _, _ => by simp
  | [_], _, _ => by simp
  | a :: b :: l, hnd, h => by
    have : a = b := h a (by simp) b (by simp)
    subst this; simp at hnd

open Classical in
/-- pigeonhole: if every `v` is bad for at most one of the parameters, some parameter is good for all `v` -/
theorem exists_good {α : Type} (bad : α → Rat → Prop) : ∀ (vs : List α) (S : List Rat), S.Nodup →
    vs.length < S.length → (∀ v ∈ vs, ∀ s1 ∈ S, ∀ s2 ∈ S, bad v s1 → bad v s2 → s1 = s2) →
    ∃ s ∈ S, ∀ v ∈ vs, ¬ bad v s := by
  intro vs
  induction vs with
  | nil =>
    intro S _ hlen _
    cases S with
    | nil => simp at hlen
    | cons s S => exact ⟨s, by simp, fun v hv => by cases hv⟩
  | cons v vs ih =>
    intro S hnd hlen huniq
    set Sb := S.filter (fun s => decide (bad v s)) with hSb
    set Sg := S.filter (fun s => decide ¬ (decide (bad v s)) = true) with hSg
    have hcount : S.length = Sb.length + Sg.length := by
      rw [hSb, hSg, ← List.countP_eq_length_filter, ← List.countP_eq_length_filter]
      exact List.length_eq_countP_add_countP _
    have hb1 : Sb.length ≤ 1 := by
      apply length_le_one_of_all_eq _ (hnd.filter _)
      intro a ha b hb
      rw [List.mem_filter] at ha hb
      exact huniq v (by simp) a ha.1 b hb.1 (by simpa using ha.2) (by simpa using hb.2)
    have hlen' : vs.length < Sg.length := by simp only [List.length_cons] at hlen; omega
    obtain ⟨s, hs, hgood⟩ := ih Sg (hnd.filter _) hlen' (by
      intro v' hv' s1 hs1 s2 hs2
      rw [hSg, List.mem_filter] at hs1 hs2
      exact huniq v' (List.mem_cons_of_mem _ hv') s1 hs1.1 s2 hs2.1)
    rw [hSg, List.mem_filter] at hs
    refine ⟨s, hs.1, ?_⟩
    intro v' hv'
    rcases List.mem_cons.mp hv' with rfl | hv'
    · simpa using hs.2
    · exact hgood v' hv'

theorem affine_vec_two_roots (A Bv : V3) (s1 s2 : Rat) (hne : s1 ≠ s2)
    (h1 : add A (smul s1 Bv) = zero) (h2 : add A (smul s2 Bv) = zero) : A = zero ∧ Bv = zero := by
  have hd : s1 - s2 ≠ 0 := sub_ne_zero.mpr hne
  have x1 := congrArg V3.x h1; have x2 := congrArg V3.x h2
  have y1 := congrArg V3.y h1; have y2 := congrArg V3.y h2
  have z1 := congrArg V3.z h1; have z2 := congrArg V3.z h2
  simp only [add, smul, zero] at x1 x2 y1 y2 z1 z2
  have bx : Bv.x = 0 := by
    have : (s1 - s2) * Bv.x = 0 := by linarith
    exact (mul_eq_zero.mp this).resolve_left hd
  have by' : Bv.y = 0 := by
    have : (s1 - s2) * Bv.y = 0 := by linarith
    exact (mul_eq_zero.mp this).resolve_left hd
  have bz : Bv.z = 0 := by
    have : (s1 - s2) * Bv.z = 0 := by linarith
    exact (mul_eq_zero.mp this).resolve_left hd
  rw [bx] at x1; rw [by'] at y1; rw [bz] at z1
  exact ⟨by apply V3.ext' <;> simp only [zero] <;> linarith, by apply V3.ext' <;> simp only [zero] <;> assumption⟩

/-- there is a point `c` on the segment `[a', b']` such that the line through `c` and `y` meets none of the given
    points except possibly `y` itself (provided `y` is not on the carrier of `[a', b']`) -/
theorem gen_point (a' b' y : V3) (hoff : cross (sub a' y) (sub b' a') ≠ zero) (vs : List V3) :
    ∃ s : Rat, 0 ≤ s ∧ s ≤ 1 ∧ ∀ v ∈ vs, v ≠ y → ∀ t : Rat,
      v ≠ pt (add a' (smul s (sub b' a'))) (sub y (add a' (smul s (sub b' a')))) t := by
  set cs : Rat → V3 := fun s => add a' (smul s (sub b' a')) with hcs
  set bad : V3 → Rat → Prop := fun v s => v ≠ y ∧ cross (sub v y) (sub (cs s) y) = zero with hbad
  set S : List Rat := (List.range (vs.length + 1)).map (fun j : Nat => 1 / ((j : Rat) + 1)) with hS
  have hinj : Function.Injective (fun j : Nat => 1 / ((j : Rat) + 1)) := by
    intro j k h
    simp only at h
    have hj : ((j : Rat) + 1) ≠ 0 := by positivity
    have hk : ((k : Rat) + 1) ≠ 0 := by positivity
    rw [div_eq_div_iff hj hk] at h
    have : (j : Rat) = k := by linarith
    exact_mod_cast this
  have hnd : S.Nodup := List.Nodup.map hinj List.nodup_range
  have hlen : vs.length < S.length := by simp [hS]
  have hexp : ∀ v s, cross (sub v y) (sub (cs s) y) =
      add (cross (sub v y) (sub a' y)) (smul s (cross (sub v y) (sub b' a'))) := by
    intro v s; apply V3.ext' <;> simp only [hcs, cross, sub, add, smul] <;> ring
  obtain ⟨s, hs, hgood⟩ := exists_good bad vs S hnd hlen (by
    intro v _ s1 _ s2 _ hb1 hb2
    by_contra hne
    obtain ⟨hvy, h1⟩ := hb1
    obtain ⟨_, h2⟩ := hb2
    rw [hexp] at h1 h2
    obtain ⟨hA, hB⟩ := affine_vec_two_roots _ _ s1 s2 hne h1 h2
    have hp : sub v y ≠ zero := fun h => hvy (sub_eq_zero_iff.mp h)
    have hA' : cross (sub a' y) (sub v y) = zero := by
      rw [cross_anticomm, hA]; apply V3.ext' <;> simp [neg, zero]
    have hB' : cross (sub b' a') (sub v y) = zero := by
      rw [cross_anticomm, hB]; apply V3.ext' <;> simp [neg, zero]
    have e1 := exists_smul_of_cross_zero hp hA'
    have e2 := exists_smul_of_cross_zero hp hB'
    apply hoff
    rw [e1, e2]; apply V3.ext' <;> simp only [cross, smul, zero] <;> ring)
  rw [hS, List.mem_map] at hs
  obtain ⟨j, _, rfl⟩ := hs
  have hjpos : (0 : Rat) < (j : Rat) + 1 := by positivity
  refine ⟨1 / ((j : Rat) + 1), le_of_lt (div_pos one_pos hjpos), ?_, ?_⟩
  · rw [div_le_one hjpos]; have : (0 : Rat) ≤ (j : Rat) := Nat.cast_nonneg j; linarith
  · intro v hv hvy t hcon
    apply hgood v hv
    refine ⟨hvy, ?_⟩
    rw [hcon]
    apply V3.ext' <;> simp only [hcs, pt, cross, sub, add, smul, zero] <;> ring

/-! ### covering: a point of the body in the plane of a face lies in some face (coplanar neighbours allowed) -/

theorem orient_between (n a b p q : V3) (u : Rat) :
    orient n a b (add p (smul u (sub q p))) = (1 - u) * orient n a b p + u * orient n a b q := by
  simp only [orient, dot, cross, sub, add, smul]; ring

theorem Polygon.inPlane_of_contains (g : Polygon) (x : V3) (h : g.contains x = true) :
    G3D.inPlane g.plane.n g.plane.p x = true := by
  unfold Polygon.contains at h
  rw [Bool.and_eq_true, Plane.contains_eq_inPlane] at h
  exact h.1

/-- the covering lemma: closed surface, all vertices on the inner side of all faces, an interior point `o` -/
theorem Polyhedron.cover (B : Polyhedron) (hfv : ∀ f ∈ B.faces, f.Valid)
    (hcp : ∀ f ∈ B.faces, G3D.inPlane f.plane.n f.plane.p f.center = true)
    (hsub : ∀ f ∈ B.faces, ∀ p ∈ f.pts, p ∈ B.verts) (hvi : B.VertsInside)
    (hc : ClosedSurface (B.faces.map (·.pts))) (o : V3) (ho : ∀ f ∈ B.faces, f.side o < 0)
    (y : V3) (hy : B.contains y = true) (f : Polygon) (hf : f ∈ B.faces) (ht : f.side y = 0) :
    ∃ g ∈ B.faces, g.contains y = true := by
  have hyf : G3D.inPlane f.plane.n f.plane.p y = true := (f.side_zero_inPlane (hcp f hf) y).mp ht
  have hfV := hfv f hf
  obtain ⟨p0, p1, p2, rest, hp, hpl, htp⟩ := hfv f hf
  have hm0 : p0 ∈ f.pts := by rw [hp]; simp
  have hm1 : p1 ∈ f.pts := by rw [hp]; simp
  have hm2 : p2 ∈ f.pts := by rw [hp]; simp
  have hD : 0 < orient f.plane.n p0 p1 p2 := by rw [hp] at htp; exact htp.1 p1 p2 (by simp)
  -- an edge line of `f` off which `y` lies
  obtain ⟨a', b', ha', hb', hab⟩ : ∃ a' b', a' ∈ f.pts ∧ b' ∈ f.pts ∧ orient f.plane.n a' b' y ≠ 0 := by
    by_cases h1 : orient f.plane.n p1 p2 y = 0
    · by_cases h2 : orient f.plane.n p2 p0 y = 0
      · refine ⟨p0, p1, hm0, hm1, ?_⟩
        have := orient_sum f.plane.n p0 p1 p2 y
        rw [h1, h2] at this
        intro h3; rw [h3] at this; linarith
      · exact ⟨p2, p0, hm2, hm0, h2⟩
    · exact ⟨p1, p2, hm1, hm2, h1⟩
  have hoff : cross (sub a' y) (sub b' a') ≠ zero := by
    intro hz; apply hab
    have : orient f.plane.n a' b' y = dot f.plane.n (cross (sub a' y) (sub b' a')) := by
      simp only [orient, dot, cross, sub]; ring
    rw [this, hz]; simp [dot, zero]
  obtain ⟨s, hs0, hs1, hgen⟩ := gen_point a' b' y hoff B.verts
  set c := add a' (smul s (sub b' a')) with hcdef
  set d := sub y c with hddef
  have hcf : f.contains c = true :=
    (Polygon.contains_iff f hfV c).mpr (between_in_hull ha' hb' ⟨s, hs0, hs1, rfl⟩)
  by_cases hcy : c = y
  · exact ⟨f, hf, by rw [← hcy]; exact hcf⟩
  have hd0 : d ≠ zero := fun h => hcy (sub_eq_zero_iff.mp h).symm
  have hcin : G3D.inPlane f.plane.n f.plane.p c = true := f.inPlane_of_contains c hcf
  have hdn : dot f.plane.n d = 0 := inPlane_diff hcin hyf
  have hpt1 : pt c d 1 = y := by apply V3.ext' <;> simp only [hddef, pt, add, smul, sub] <;> ring
  have hpt0 : pt c d 0 = c := by apply V3.ext' <;> simp [pt, add, smul]
  have hfc0 : f.side c = 0 := (f.side_zero_inPlane (hcp f hf) c).mpr hcin
  -- facts about faces in the coplanar class of `f`
  have hclass : ∀ g ∈ B.faces, SamePlane f g →
      G3D.inPlane g.plane.n g.plane.p c = true ∧ dot g.plane.n d = 0 ∧
      G3D.inPlane g.plane.n g.plane.p y = true := by
    intro g hg hsp
    obtain ⟨k, _, hkn, hks⟩ := hsp
    refine ⟨(g.side_zero_inPlane (hcp g hg) c).mp (by rw [hks, hfc0]; ring), ?_,
      (g.side_zero_inPlane (hcp g hg) y).mp (by rw [hks, ht]; ring)⟩
    rw [hkn]
    have : dot (smul k f.plane.n) d = k * dot f.plane.n d := by simp only [dot, smul]; ring
    rw [this, hdn]; ring
  set I : Polygon → Rat → Prop :=
    fun g t => SamePlane f g ∧ 0 ≤ t ∧ t ≤ 1 ∧ g.contains (pt c d t) = true with hI
  obtain ⟨g, hg, ts, ⟨hsp, hts0, hts1, hgin⟩, hglob⟩ := exists_max_rel I B.faces
    (by
      rintro g hg ⟨t0, hsp, h0, h1, hin⟩
      obtain ⟨hcg, hdg, _⟩ := hclass g hg hsp
      obtain ⟨tm, h0m, hm1, hmin, hmax, _⟩ := face_line_max g c d hcg hdg t0 h1 hin
      exact ⟨tm, ⟨hsp, le_trans h0 h0m, hm1, hmin⟩, fun t ht => hmax t ht.2.2.1 ht.2.2.2⟩)
    ⟨f, hf, 0, SamePlane.refl f, le_refl _, zero_le_one, by rw [hpt0]; exact hcf⟩
  by_cases h1 : ts = 1
  · exact ⟨g, hg, by rw [← hpt1, ← h1]; exact hgin⟩
  have hlt : ts < 1 := lt_of_le_of_ne hts1 h1
  obtain ⟨hcg, hdg, hyg⟩ := hclass g hg hsp
  have gV := hfv g hg
  obtain ⟨tm, h0m, hm1, hmin, _, htight⟩ := face_line_max g c d hcg hdg ts hts1 hgin
  have htm : tm = ts := le_antisymm (hglob g hg tm ⟨hsp, le_trans hts0 h0m, hm1, hmin⟩) h0m
  rw [htm] at htight
  rcases htight with h | ⟨e, he, hz, hslope⟩
  · exact absurd h h1
  set z := pt c d ts with hzdef
  have hzy : z ≠ y := fun h => h1 (pt_inj hd0 (h.trans hpt1.symm))
  have hy_neg : orient g.plane.n e.1 e.2 y < 0 := by
    have e1 := orient_pt g.plane.n e.1 e.2 c d 1
    rw [hpt1] at e1
    have e2 := orient_pt g.plane.n e.1 e.2 c d ts
    rw [← hzdef, hz] at e2
    have : dot g.plane.n (cross (sub e.2 e.1) d) * (1 - ts) < 0 :=
      mul_neg_of_neg_of_pos hslope (by linarith)
    linarith
  obtain ⟨h, hh, hrev⟩ := B.exists_neighbour hc g hg e he
  have hV := hfv h hh
  have hmh := closedPairs_mem h.pts _ hrev
  have hmg := closedPairs_mem g.pts e he
  obtain ⟨_, _, _, _, _, hplh, htph⟩ := hfv h hh
  obtain ⟨q0, q1, q2, qrest, hq, hplg, htpg⟩ := hfv g hg
  have hh1 : h.side e.1 = 0 := (h.side_zero_inPlane (hcp h hh) _).mpr (hplh _ hmh.2)
  have hh2 : h.side e.2 = 0 := (h.side_zero_inPlane (hcp h hh) _).mpr (hplh _ hmh.1)
  by_cases hall : ∀ v ∈ g.pts, h.side v = 0
  · -- coplanar neighbour: the line continues inside `h`, contradicting maximality
    exfalso
    have hsp2 : SamePlane g h := coplanar_neighbour g h gV (hcp g hg) o (ho g hg) (ho h hh) hall
    have hsp3 : SamePlane f h := hsp.trans hsp2
    have hzg : InHull g.pts z := (Polygon.contains_iff g gV z).mp hgin
    obtain ⟨u, hu0, hu1, hzu⟩ := on_edge_of_tight g.plane.n g.pts htpg e he z hzg hz
    have hne12 : e.1 ≠ e.2 := by
      have := edge_ne g.plane.n q0 q1 q2 qrest (by rw [← hq]; exact htpg) e (by rw [← hq]; exact he)
      exact this
    have hz1 : z ≠ e.1 := by
      intro heq
      by_cases hey : e.1 = y
      · exact hzy (heq.trans hey)
      · exact hgen e.1 (hsub g hg _ hmg.1) hey ts heq.symm
    have hz2 : z ≠ e.2 := by
      intro heq
      by_cases hey : e.2 = y
      · exact hzy (heq.trans hey)
      · exact hgen e.2 (hsub g hg _ hmg.2) hey ts heq.symm
    have hu0' : 0 < u := by
      rcases lt_or_eq_of_le hu0 with h | h
      · exact h
      · exfalso; apply hz1; rw [hzu, ← h]; apply V3.ext' <;> simp [add, smul]
    have hu1' : u < 1 := by
      rcases lt_or_eq_of_le hu1 with h | h
      · exact h
      · exfalso; apply hz2; rw [hzu, h]; apply V3.ext' <;> simp [add, smul, sub]
    have hhin : h.contains z = true :=
      (Polygon.contains_iff h hV z).mpr (between_in_hull hmh.2 hmh.1 ⟨u, hu0, hu1, hzu⟩)
    obtain ⟨hch, hdh, _⟩ := hclass h hh hsp3
    obtain ⟨tm', h0m', hm1', hmin', _, htight'⟩ := face_line_max h c d hch hdh ts hts1 hhin
    have htm' : tm' = ts := le_antisymm (hglob h hh tm' ⟨hsp3, le_trans hts0 h0m', hm1', hmin'⟩) h0m'
    rw [htm'] at htight'
    rcases htight' with h' | ⟨e', he', hz', hslope'⟩
    · exact h1 h'
    obtain ⟨k2, hk2, hkn2, _⟩ := hsp2
    by_cases hrv : e' = (e.2, e.1)
    · rw [hrv, hkn2] at hslope'
      have : dot (smul k2 g.plane.n) (cross (sub (e.2, e.1).2 (e.2, e.1).1) d) =
          - (k2 * dot g.plane.n (cross (sub e.2 e.1) d)) := by
        simp only [dot, cross, sub, smul]; ring
      rw [this] at hslope'
      have := mul_neg_of_pos_of_neg hk2 hslope
      linarith
    · rw [← hzdef, hzu, orient_between] at hz'
      have n1 := closed_edges_nonneg h.plane.n h.pts htph e' he' e.1 hmh.2
      have n2 := closed_edges_nonneg h.plane.n h.pts htph e' he' e.2 hmh.1
      have a1 : 0 ≤ (1 - u) * orient h.plane.n e'.1 e'.2 e.1 := mul_nonneg (by linarith) n1
      have a2 : 0 ≤ u * orient h.plane.n e'.1 e'.2 e.2 := mul_nonneg hu0 n2
      have z1 : orient h.plane.n e'.1 e'.2 e.1 = 0 := by
        have : (1 - u) * orient h.plane.n e'.1 e'.2 e.1 = 0 := by linarith
        exact (mul_eq_zero.mp this).resolve_left (by linarith)
      have z2 : orient h.plane.n e'.1 e'.2 e.2 = 0 := by
        have : u * orient h.plane.n e'.1 e'.2 e.2 = 0 := by linarith
        exact (mul_eq_zero.mp this).resolve_left (ne_of_gt hu0')
      have c1 : e.1 = e'.1 ∨ e.1 = e'.2 := by
        rcases closed_edges_pos h.plane.n h.pts htph e' he' e.1 hmh.2 with h | h | h
        · rw [z1] at h; exact absurd h (lt_irrefl _)
        · exact Or.inl h
        · exact Or.inr h
      have c2 : e.2 = e'.1 ∨ e.2 = e'.2 := by
        rcases closed_edges_pos h.plane.n h.pts htph e' he' e.2 hmh.1 with h | h | h
        · rw [z2] at h; exact absurd h (lt_irrefl _)
        · exact Or.inl h
        · exact Or.inr h
      rcases c1 with c1 | c1 <;> rcases c2 with c2 | c2
      · exact hne12 (c1.trans c2.symm)
      · have : e' = e := Prod.ext c1.symm c2.symm
        rw [this] at he'
        exact Polygon.no_rev_edge h hV e he' hrev
      · exact hrv (Prod.ext c2.symm c1.symm)
      · exact hne12 (c1.trans c2.symm)
  · -- a proper neighbour: its half-space cuts the plane of `g` along the edge, so `y` is on the inner side
    exfalso
    obtain ⟨v, hv, hvne⟩ : ∃ v ∈ g.pts, h.side v ≠ 0 := by
      by_contra hcon
      exact hall (fun v hv => by_contra (fun hne => hcon ⟨v, hv, hne⟩))
    have hvle : h.side v ≤ 0 := hvi h hh v (hsub g hg v hv)
    have hvlt : h.side v < 0 := lt_of_le_of_ne hvle hvne
    have hDg : 0 < orient g.plane.n e.1 e.2 v := by
      rcases closed_edges_pos g.plane.n g.pts htpg e he v hv with h' | h' | h'
      · exact h'
      · rw [h', hh1] at hvlt; exact absurd hvlt (lt_irrefl _)
      · rw [h', hh2] at hvlt; exact absurd hvlt (lt_irrefl _)
    have hhy : h.side y ≤ 0 := (B.contains_iff_side y).mp hy h hh
    have := edge_of_neighbour g.plane.n g.plane.p e.1 e.2 v y h.center h.plane.n (Polygon.plane_WF g gV)
      (hplg _ hmg.1) (hplg _ hmg.2) (hplg _ hv) hyg hh1 hh2 hDg hvlt hhy
    linarith
#print axioms Polyhedron.cover


/-! ### Prop-level validity of a closed convex polyhedron and the full theorem (K5) -/

/-- validity of a closed convex polyhedron given by its face list:
    * there is a face; every face is a valid polygon whose stored centre lies in its plane;
    * every face vertex is listed among the vertices, and every listed vertex passes every face test;
    * the directed edges of the faces form a closed surface (each occurs as often as its reverse);
    * there is an interior point, strictly inside every face half-space (the library's constructor enforces this for
      the vertex mean).
    Neighbouring faces may be coplanar. -/
structure Polyhedron.Valid (B : Polyhedron) : Prop where
  nonempty : B.faces ≠ []
  faces_valid : ∀ f ∈ B.faces, f.Valid
  center_in_plane : ∀ f ∈ B.faces, G3D.inPlane f.plane.n f.plane.p f.center = true
  pts_sub : ∀ f ∈ B.faces, ∀ p ∈ f.pts, p ∈ B.verts
  verts_inside : B.VertsInside
  closed : ClosedSurface (B.faces.map (·.pts))
  interior : ∃ o : V3, ∀ f ∈ B.faces, f.side o < 0

/-- a point of a valid body lying in the plane of a face is a convex combination of the vertices -/
theorem Polyhedron.Valid.hull_of_tight {B : Polyhedron} (hV : B.Valid) (y : V3) (hy : B.contains y = true)
    (f : Polygon) (hf : f ∈ B.faces) (ht : f.side y = 0) : InHull B.verts y := by
  obtain ⟨o, ho⟩ := hV.interior
  obtain ⟨g, hg, hgy⟩ := B.cover hV.faces_valid hV.center_in_plane hV.pts_sub hV.verts_inside hV.closed o ho
    y hy f hf ht
  exact ((Polygon.contains_iff g (hV.faces_valid g hg) y).mp hgy).mono (hV.pts_sub g hg)

/-- **K5** `contains ⊆ hull` for a valid closed convex polyhedron -/
theorem Polyhedron.contains_subset_hull (B : Polyhedron) (hV : B.Valid) (x : V3)
    (hx : B.contains x = true) : InHull B.verts x := by
  obtain ⟨y1, y2, hy1, hy2, ⟨f1, hf1, ht1⟩, ⟨f2, hf2, ht2⟩, s, hs0, hs1, rfl⟩ :=
    B.chord hV.nonempty hV.faces_valid hV.closed x hx
  exact (hV.hull_of_tight y2 hy2 f2 hf2 ht2).convex (hV.hull_of_tight y1 hy1 f1 hf1 ht1) s hs0 hs1

/-- C05 (polyhedron), both directions: the face tests hold exactly on the convex hull of the vertices -/
theorem Polyhedron.contains_iff_hull (B : Polyhedron) (hV : B.Valid) (x : V3) :
    B.contains x = true ↔ InHull B.verts x :=
  ⟨B.contains_subset_hull hV x, B.hull_subset_contains hV.verts_inside x⟩
#print axioms Polyhedron.contains_subset_hull
#print axioms Polyhedron.contains_iff_hull

/-! ### the variant without interior point: strictly convex edges -/

/-- like `Valid`, but instead of an interior point: two faces sharing an edge in opposite directions are not
    coplanar.  This is the hypothesis under which `FaceLocal` holds ("a body point in a face plane lies in THAT face") -/
structure Polyhedron.ValidProper (B : Polyhedron) : Prop where
  nonempty : B.faces ≠ []
  faces_valid : ∀ f ∈ B.faces, f.Valid
  center_in_plane : ∀ f ∈ B.faces, G3D.inPlane f.plane.n f.plane.p f.center = true
  pts_sub : ∀ f ∈ B.faces, ∀ p ∈ f.pts, p ∈ B.verts
  verts_inside : B.VertsInside
  closed : ClosedSurface (B.faces.map (·.pts))
  proper_edges : ∀ f ∈ B.faces, ∀ e ∈ closedPairs f.pts, ∀ g ∈ B.faces,
    (e.2, e.1) ∈ closedPairs g.pts → ∃ v ∈ f.pts, g.side v ≠ 0

theorem Polyhedron.ValidProper.faceLocal {B : Polyhedron} (hV : B.ValidProper) : B.FaceLocal := by
  intro f hf e he
  obtain ⟨g, hg, hrev⟩ := B.exists_neighbour hV.closed f hf e he
  obtain ⟨_, _, _, _, _, hpl, _⟩ := hV.faces_valid g hg
  have hm := closedPairs_mem g.pts _ hrev
  obtain ⟨v, hv, hne⟩ := hV.proper_edges f hf e he g hg hrev
  refine ⟨g, hg, (g.side_zero_inPlane (hV.center_in_plane g hg) _).mpr (hpl _ hm.2),
    (g.side_zero_inPlane (hV.center_in_plane g hg) _).mpr (hpl _ hm.1), v, hv, ?_⟩
  have : g.side v ≤ 0 := hV.verts_inside g hg v (hV.pts_sub f hf v hv)
  exact lt_of_le_of_ne this hne

theorem Polyhedron.contains_subset_hull_of_proper (B : Polyhedron) (hV : B.ValidProper) (x : V3)
    (hx : B.contains x = true) : InHull B.verts x :=
  B.contains_subset_hull_of_faceLocal hV.nonempty hV.faces_valid hV.center_in_plane hV.pts_sub hV.closed
    hV.faceLocal x hx

theorem Polyhedron.contains_iff_hull_of_proper (B : Polyhedron) (hV : B.ValidProper) (x : V3) :
    B.contains x = true ↔ InHull B.verts x :=
  ⟨B.contains_subset_hull_of_proper hV x, B.hull_subset_contains hV.verts_inside x⟩
#print axioms Polyhedron.contains_subset_hull_of_proper

/-! ### the Bool judges -/
theorem mem_orderedPairs_k5 : ∀ (l : List V3) (b c : V3), List.Sublist [b, c] l → (b, c) ∈ orderedPairs l := by
  intro l
  induction l with
  | nil => intro b c h; cases h
  | cons a l ih =>
    intro b c h
    simp only [orderedPairs, List.mem_append, List.mem_map]
    cases h with
    | cons _ h' => exact Or.inr (ih b c h')
    | cons_cons _ h' => exact Or.inl ⟨c, List.singleton_sublist.mp h', rfl⟩

theorem triplesPos_of_B (n : V3) : ∀ (l : List V3), triplesPosB n l = true → triplesPos n l := by
  intro l
  induction l with
  | nil => intro _; trivial
  | cons a l ih =>
    intro h
    simp only [triplesPosB, Bool.and_eq_true, List.all_eq_true, decide_eq_true_eq] at h
    exact ⟨fun b c hbc => h.1 (b, c) (mem_orderedPairs_k5 l b c hbc), ih h.2⟩

theorem Polygon.valid_of_validB (P : Polygon) (h : P.validB = true) : P.Valid := by
  simp only [Polygon.validB, Bool.and_eq_true, List.all_eq_true, decide_eq_true_eq] at h
  obtain ⟨⟨h3, hpl⟩, htp⟩ := h
  match hp : P.pts, h3 with
  | p0 :: p1 :: p2 :: rest, _ =>
    exact ⟨p0, p1, p2, rest, hp, hpl, triplesPos_of_B _ _ htp⟩
  | [], h3 => simp at h3
  | [_], h3 => simp at h3
  | [_, _], h3 => simp at h3

theorem Polyhedron.dirEdgesB_eq (B : Polyhedron) : B.dirEdgesB = dirEdges (B.faces.map (·.pts)) := by
  simp [Polyhedron.dirEdgesB, dirEdges, List.flatMap_map]

theorem Polyhedron.proper_of_properEdgesB (B : Polyhedron) (h7 : B.properEdgesB = true) :
    ∀ f ∈ B.faces, ∀ e ∈ closedPairs f.pts, ∀ g ∈ B.faces,
      (e.2, e.1) ∈ closedPairs g.pts → ∃ v ∈ f.pts, g.side v ≠ 0 := by
  intro f hf e he g hg hrev
  unfold Polyhedron.properEdgesB at h7
  rw [List.all_eq_true] at h7
  have h8 := h7 f hf
  rw [List.all_eq_true] at h8
  have h9 := h8 e he
  rw [List.all_eq_true] at h9
  have h10 := h9 g hg
  rw [Bool.or_eq_true] at h10
  rcases h10 with h10 | h10
  · simp only [Bool.not_eq_true', List.contains_eq_mem, decide_eq_false_iff_not] at h10
    exact absurd hrev h10
  · rw [List.any_eq_true] at h10
    obtain ⟨v, hv, hvn⟩ := h10
    exact ⟨v, hv, by simpa using hvn⟩


/-- what `validCoreB` establishes -/
structure Polyhedron.ValidCore (B : Polyhedron) : Prop where
  nonempty : B.faces ≠ []
  faces_valid : ∀ f ∈ B.faces, f.Valid
  center_in_plane : ∀ f ∈ B.faces, G3D.inPlane f.plane.n f.plane.p f.center = true
  pts_sub : ∀ f ∈ B.faces, ∀ p ∈ f.pts, p ∈ B.verts
  verts_inside : B.VertsInside
  closed : ClosedSurface (B.faces.map (·.pts))

theorem Polyhedron.validCore_of_B (B : Polyhedron) (h : B.validCoreB = true) : B.ValidCore := by
  simp only [Polyhedron.validCoreB, Bool.and_eq_true] at h
  obtain ⟨⟨⟨⟨⟨h1, h2⟩, h3⟩, h4⟩, h5⟩, h6⟩ := h
  rw [List.all_eq_true] at h2 h3 h4 h5
  refine ⟨?_, fun f hf => f.valid_of_validB (h2 f hf), h3, ?_, ?_, ?_⟩
  · intro hnil; rw [hnil] at h1; simp at h1
  · intro f hf p hp
    have := h4 f hf
    rw [List.all_eq_true] at this
    simpa using this p hp
  · intro f hf v hv
    have := h5 f hf
    rw [List.all_eq_true] at this
    exact of_decide_eq_true (this v hv)
  · unfold ClosedSurface
    rw [← B.dirEdgesB_eq]
    exact List.isPerm_iff.mp h6

theorem Polyhedron.interior_of_interiorB (B : Polyhedron) (h : B.interiorB = true) :
    ∃ o : V3, ∀ f ∈ B.faces, f.side o < 0 := by
  unfold Polyhedron.interiorB at h
  rw [List.all_eq_true] at h
  exact ⟨meanV B.verts, fun f hf => of_decide_eq_true (h f hf)⟩

theorem Polyhedron.valid_of_validB (B : Polyhedron) (h : B.validB = true) : B.Valid := by
  simp only [Polyhedron.validB, Bool.and_eq_true] at h
  have hc := B.validCore_of_B h.1
  exact ⟨hc.nonempty, hc.faces_valid, hc.center_in_plane, hc.pts_sub, hc.verts_inside, hc.closed,
    B.interior_of_interiorB h.2⟩

theorem Polyhedron.validProper_of_validProperB (B : Polyhedron) (h : B.validProperB = true) : B.ValidProper := by
  simp only [Polyhedron.validProperB, Bool.and_eq_true] at h
  have hc := B.validCore_of_B h.1
  exact ⟨hc.nonempty, hc.faces_valid, hc.center_in_plane, hc.pts_sub, hc.verts_inside, hc.closed,
    B.proper_of_properEdgesB h.2⟩
#print axioms Polyhedron.valid_of_validB

/-- per-instance form: evaluate `validB` (or `validProperB`), obtain `contains = hull` -/
theorem Polyhedron.contains_iff_hull_of_validB (B : Polyhedron) (h : B.validB = true) (x : V3) :
    B.contains x = true ↔ InHull B.verts x := B.contains_iff_hull (B.valid_of_validB h) x

theorem Polyhedron.contains_iff_hull_of_validProperB (B : Polyhedron) (h : B.validProperB = true) (x : V3) :
    B.contains x = true ↔ InHull B.verts x := B.contains_iff_hull_of_proper (B.validProper_of_validProperB h) x

/-! ### (e) instance: every positively oriented tetrahedron is valid -/

theorem triFace_side (p q r v : V3) :
    (triFace p q r).side v = dot (sub v p) (cross (sub q p) (sub r p)) := by
  simp only [Polygon.side, triFace, meanV, sumV, List.foldl, List.length_cons, List.length_nil,
    dot, sub, add, smul, cross, zero]
  push_cast
  ring

theorem sublist_pair_pair {b c q r : V3} (h : List.Sublist [b, c] [q, r]) : b = q ∧ c = r := by
  have := h.eq_of_length (by simp)
  simpa using this

theorem triFace_valid (p q r : V3) (h : cross (sub q p) (sub r p) ≠ zero) : (triFace p q r).Valid := by
  refine ⟨p, q, r, [], rfl, ?_, ?_⟩
  · intro x hx
    simp only [triFace, List.mem_cons, List.not_mem_nil, or_false] at hx
    simp only [triFace, G3D.inPlane, beq_iff_eq]
    rcases hx with rfl | rfl | rfl <;> simp only [dot, cross, sub] <;> ring
  · have hN := normSq_pos h
    refine ⟨?_, ?_, ?_, trivial⟩
    · intro b c hbc
      obtain ⟨rfl, rfl⟩ := sublist_pair_pair hbc
      have : orient (triFace p b c).plane.n p b c = normSq (cross (sub b p) (sub c p)) := by
        simp only [triFace, orient, normSq, dot, cross, sub]
      rw [this]; exact hN
    · intro b c hbc; have := hbc.length_le; simp at this
    · intro b c hbc; have := hbc.length_le; simp at this

theorem triFace_center (p q r : V3) :
    G3D.inPlane (triFace p q r).plane.n (triFace p q r).plane.p (triFace p q r).center = true := by
  simp only [G3D.inPlane, beq_iff_eq, triFace, meanV, sumV, List.foldl, List.length_cons, List.length_nil,
    dot, sub, add, smul, cross, zero]
  push_cast
  ring

theorem perm_of_index {α : Type} (L : List α) (d : α) (I J : List Nat) (h : List.Perm I J) :
    List.Perm (I.map (fun i => L.getD i d)) (J.map (fun i => L.getD i d)) := h.map _

theorem tetra_closed (a b c d : V3) : ClosedSurface ((tetra a b c d).faces.map (·.pts)) := by
  unfold ClosedSurface
  have hL : dirEdges ((tetra a b c d).faces.map (·.pts)) =
      [(a,c),(c,b),(b,a),(a,b),(b,d),(d,a),(a,d),(d,c),(c,a),(b,c),(c,d),(d,b)] := by
    simp [tetra, triFace, dirEdges, closedPairs, consec]
  rw [hL]
  exact perm_of_index [(a,c),(c,b),(b,a),(a,b),(b,d),(d,a),(a,d),(d,c),(c,a),(b,c),(c,d),(d,b)] (a, a)
    [0,1,2,3,4,5,6,7,8,9,10,11] [8,9,3,2,11,6,5,10,0,1,7,4] (by decide)

/-- (e) a positively oriented tetrahedron is a valid polyhedron (in both senses) -/
theorem tetra_valid (a b c d : V3) (h : 0 < trip (sub b a) (sub c a) (sub d a)) :
    (tetra a b c d).Valid ∧ (tetra a b c d).ValidProper := by
  have s1 : (triFace a c b).side d = - trip (sub b a) (sub c a) (sub d a) := by
    rw [triFace_side]; simp only [trip, dot, cross, sub]; ring
  have s2 : (triFace a b d).side c = - trip (sub b a) (sub c a) (sub d a) := by
    rw [triFace_side]; simp only [trip, dot, cross, sub]; ring
  have s3 : (triFace a d c).side b = - trip (sub b a) (sub c a) (sub d a) := by
    rw [triFace_side]; simp only [trip, dot, cross, sub]; ring
  have s4 : (triFace b c d).side a = - trip (sub b a) (sub c a) (sub d a) := by
    rw [triFace_side]; simp only [trip, dot, cross, sub]; ring
  have n1 : cross (sub c a) (sub b a) ≠ zero := by
    intro hz; rw [triFace_side, hz] at s1; simp [dot, zero] at s1; linarith
  have n2 : cross (sub b a) (sub d a) ≠ zero := by
    intro hz; rw [triFace_side, hz] at s2; simp [dot, zero] at s2; linarith
  have n3 : cross (sub d a) (sub c a) ≠ zero := by
    intro hz; rw [triFace_side, hz] at s3; simp [dot, zero] at s3; linarith
  have n4 : cross (sub c b) (sub d b) ≠ zero := by
    intro hz; rw [triFace_side, hz] at s4; simp [dot, zero] at s4; linarith
  have hfv : ∀ f ∈ (tetra a b c d).faces, f.Valid := by
    intro f hf
    simp only [tetra, List.mem_cons, List.not_mem_nil, or_false] at hf
    rcases hf with rfl | rfl | rfl | rfl
    · exact triFace_valid _ _ _ n1
    · exact triFace_valid _ _ _ n2
    · exact triFace_valid _ _ _ n3
    · exact triFace_valid _ _ _ n4
  have hne : (tetra a b c d).faces ≠ [] := by simp [tetra]
  have hcp : ∀ f ∈ (tetra a b c d).faces, G3D.inPlane f.plane.n f.plane.p f.center = true := by
    intro f hf
    simp only [tetra, List.mem_cons, List.not_mem_nil, or_false] at hf
    rcases hf with rfl | rfl | rfl | rfl <;> exact triFace_center _ _ _
  have hsub : ∀ f ∈ (tetra a b c d).faces, ∀ p ∈ f.pts, p ∈ (tetra a b c d).verts := by
    intro f hf p hp
    simp only [tetra, List.mem_cons, List.not_mem_nil, or_false] at hf
    rcases hf with rfl | rfl | rfl | rfl <;>
      · simp only [triFace, List.mem_cons, List.not_mem_nil, or_false] at hp
        simp only [tetra, List.mem_cons, List.not_mem_nil, or_false]
        rcases hp with rfl | rfl | rfl <;> simp
  have hvi : (tetra a b c d).VertsInside := by
    intro f hf v hv
    show f.side v ≤ 0
    simp only [tetra, List.mem_cons, List.not_mem_nil, or_false] at hf hv
    rcases hf with rfl | rfl | rfl | rfl <;> rcases hv with rfl | rfl | rfl | rfl <;>
      · rw [triFace_side]
        simp only [trip, dot, cross, sub] at h ⊢
        linarith
  constructor
  · refine ⟨hne, hfv, hcp, hsub, hvi, tetra_closed a b c d, meanV [a, b, c, d], ?_⟩
    intro f hf
    simp only [tetra, List.mem_cons, List.not_mem_nil, or_false] at hf
    rcases hf with rfl | rfl | rfl | rfl <;>
      · rw [triFace_side]
        simp only [meanV, sumV, List.foldl, List.length_cons, List.length_nil, trip, dot, cross, sub, add, smul,
          zero] at h ⊢
        push_cast
        linarith
  · refine ⟨hne, hfv, hcp, hsub, hvi, tetra_closed a b c d, ?_⟩
    intro f hf e he g hg hrev
    have hf' := hf
    simp only [tetra, List.mem_cons, List.not_mem_nil, or_false] at hf hg
    rcases hg with rfl | rfl | rfl | rfl <;> rcases hf with rfl | rfl | rfl | rfl <;>
      first
      | (refine ⟨d, ?_, ?_⟩; (· simp [triFace]); (· rw [s1]; linarith))
      | (refine ⟨c, ?_, ?_⟩; (· simp [triFace]); (· rw [s2]; linarith))
      | (refine ⟨b, ?_, ?_⟩; (· simp [triFace]); (· rw [s3]; linarith))
      | (refine ⟨a, ?_, ?_⟩; (· simp [triFace]); (· rw [s4]; linarith))
      | exact absurd hrev (fun hr => Polygon.no_rev_edge _ (hfv _ hf') e he hr)
#print axioms tetra_valid

/-- (e) for a positively oriented tetrahedron the four face tests hold exactly on the hull of the four vertices -/
theorem tetra_contains_iff_hull (a b c d : V3) (h : 0 < trip (sub b a) (sub c a) (sub d a)) (x : V3) :
    (tetra a b c d).contains x = true ↔ InHull [a, b, c, d] x :=
  (tetra a b c d).contains_iff_hull (tetra_valid a b c d h).1 x
#print axioms tetra_contains_iff_hull

/-! ### bridge to the executable judge `polyhedronValidB` (faces as (normal, cycle) pairs) -/

theorem mem_addPt (l : List V3) (p q : V3) : q ∈ addPt l p ↔ q ∈ l ∨ q = p := by
  unfold addPt
  by_cases h : p ∈ l
  · rw [if_pos h]
    constructor
    · exact Or.inl
    · rintro (h' | rfl)
      · exact h'
      · exact h
  · rw [if_neg h]; simp

theorem mem_foldl_addPt (l : List V3) : ∀ (acc : List V3) (q : V3), q ∈ l.foldl addPt acc ↔ q ∈ acc ∨ q ∈ l := by
  induction l with
  | nil => intro acc q; simp
  | cons p l ih =>
    intro acc q
    rw [List.foldl_cons, ih, mem_addPt]
    simp only [List.mem_cons]
    tauto

theorem mem_foldl_faces (faces : List (V3 × List V3)) : ∀ (acc : List V3) (q : V3),
    q ∈ faces.foldl (fun acc f => f.2.foldl addPt acc) acc ↔ q ∈ acc ∨ ∃ f ∈ faces, q ∈ f.2 := by
  induction faces with
  | nil => intro acc q; simp
  | cons f fs ih =>
    intro acc q
    rw [List.foldl_cons, ih, mem_foldl_addPt]
    simp only [List.mem_cons, exists_eq_or_imp]
    tauto

/-- the two edge checks of `polyhedronValidB` (every directed edge has its reverse; no directed edge occurs twice)
    give the permutation form of closedness -/
theorem perm_swap_of_checks (L : List (V3 × V3))
    (h3 : L.all (fun e => L.any (fun x => x.1 == e.2 && x.2 == e.1)) = true)
    (h4 : L.all (fun e => (L.filter (fun x => x.1 == e.1 && x.2 == e.2)).length == 1) = true) :
    List.Perm L (L.map Prod.swap) := by
  rw [List.all_eq_true] at h3 h4
  have hnd : L.Nodup := by
    rw [List.nodup_iff_count_eq_one]
    intro e he
    have := h4 e he
    rw [beq_iff_eq] at this
    rw [List.count_eq_countP, List.countP_eq_length_filter, ← this]
    congr 1
  have hrev : ∀ e ∈ L, Prod.swap e ∈ L := by
    intro e he
    have := h3 e he
    rw [List.any_eq_true] at this
    obtain ⟨x, hx, hxe⟩ := this
    rw [Bool.and_eq_true, beq_iff_eq, beq_iff_eq] at hxe
    have : x = Prod.swap e := Prod.ext hxe.1 hxe.2
    rw [← this]; exact hx
  have hnd' : (L.map Prod.swap).Nodup := hnd.map Prod.swap_injective
  rw [List.perm_ext_iff_of_nodup hnd hnd']
  intro e
  constructor
  · intro he
    exact List.mem_map.mpr ⟨Prod.swap e, hrev e he, by simp⟩
  · intro he
    obtain ⟨e', he', rfl⟩ := List.mem_map.mp he
    exact hrev e' he'

theorem faceOf_validB (f : V3 × List V3) : (faceOf f).validB = polygonValidB f.1 f.2 := rfl

/-- a face list accepted by the judge `polyhedronValidB` satisfies the core part of validity -/
theorem Polyhedron.ofFaces_validCore (faces : List (V3 × List V3)) (h : polyhedronValidB faces = true) :
    (Polyhedron.ofFaces faces).ValidCore := by
  have hne : faces ≠ [] := by
    intro h0; rw [h0] at h; exact absurd h (by decide)
  unfold polyhedronValidB at h
  simp only [Bool.and_eq_true] at h
  obtain ⟨⟨⟨⟨h1, h2⟩, h3⟩, h4⟩, _⟩ := h
  rw [List.all_eq_true] at h1 h2
  refine ⟨?_, ?_, ?_, ?_, ?_, ?_⟩
  · intro h0; apply hne; simpa [Polyhedron.ofFaces] using h0
  · intro f hf
    obtain ⟨f', hf', rfl⟩ := List.mem_map.mp hf
    exact (faceOf f').valid_of_validB (by rw [faceOf_validB]; exact h1 f' hf')
  · intro f hf
    obtain ⟨f', _, rfl⟩ := List.mem_map.mp hf
    simp [faceOf, G3D.inPlane, dot, sub]
  · intro f hf p hp'
    obtain ⟨f', hf', rfl⟩ := List.mem_map.mp hf
    exact (mem_foldl_faces faces [] p).mpr (Or.inr ⟨f', hf', hp'⟩)
  · intro f hf v hv
    obtain ⟨f', hf', rfl⟩ := List.mem_map.mp hf
    have := h2 f' hf'
    rw [List.all_eq_true] at this
    exact of_decide_eq_true (this v hv)
  · unfold ClosedSurface
    have hL : dirEdges ((Polyhedron.ofFaces faces).faces.map (·.pts)) = faces.flatMap (fun f => closedPairs f.2) := by
      simp [Polyhedron.ofFaces, faceOf, dirEdges, List.flatMap_map]
    rw [hL]
    exact perm_swap_of_checks _ h3 h4

/-- `polyhedronValidB` plus the interior check gives a valid polyhedron -/
theorem Polyhedron.ofFaces_valid (faces : List (V3 × List V3)) (h : polyhedronValidB faces = true)
    (hi : interiorF faces = true) : (Polyhedron.ofFaces faces).Valid := by
  have hc := Polyhedron.ofFaces_validCore faces h
  exact ⟨hc.nonempty, hc.faces_valid, hc.center_in_plane, hc.pts_sub, hc.verts_inside, hc.closed,
    (Polyhedron.ofFaces faces).interior_of_interiorB hi⟩

/-- `polyhedronValidB` plus the non-coplanarity check gives a properly valid polyhedron -/
theorem Polyhedron.ofFaces_validProper (faces : List (V3 × List V3)) (h : polyhedronValidB faces = true)
    (hp : properEdgesF faces = true) : (Polyhedron.ofFaces faces).ValidProper := by
  have hc := Polyhedron.ofFaces_validCore faces h
  exact ⟨hc.nonempty, hc.faces_valid, hc.center_in_plane, hc.pts_sub, hc.verts_inside, hc.closed,
    (Polyhedron.ofFaces faces).proper_of_properEdgesB hp⟩
#print axioms Polyhedron.ofFaces_valid

/-- C05 (polyhedron) on judged data: if the implementation's face list passes `polyhedronValidB` and the vertex mean is
    strictly inside (or: no coplanar neighbours), the face tests `(x - p_f) . n_f ≤ 0` hold exactly on the convex hull
    of the vertices -/
theorem Polyhedron.ofFaces_contains_iff_hull (faces : List (V3 × List V3)) (h : polyhedronValidB faces = true)
    (hi : interiorF faces = true ∨ properEdgesF faces = true) (x : V3) :
    (Polyhedron.ofFaces faces).contains x = true ↔ InHull (Polyhedron.ofFaces faces).verts x := by
  rcases hi with hi | hi
  · exact (Polyhedron.ofFaces faces).contains_iff_hull (Polyhedron.ofFaces_valid faces h hi) x
  · exact (Polyhedron.ofFaces faces).contains_iff_hull_of_proper (Polyhedron.ofFaces_validProper faces h hi) x

/-! ### concrete instances, evaluated in the kernel -/
theorem unitCube_validB : unitCube.validB = true ∧ unitCube.validProperB = true ∧ unitCube.faceLocalB = true := by
  decide +kernel

theorem unitCube_contains_iff_hull (x : V3) : unitCube.contains x = true ↔ InHull unitCube.verts x :=
  unitCube.contains_iff_hull_of_validB unitCube_validB.1 x
#print axioms unitCube_contains_iff_hull

/-- coplanar neighbouring faces: accepted by the general judge, rejected by the proper one -/
theorem splitCube_validB : splitCube.validB = true ∧ splitCube.validProperB = false ∧
    splitCube.faceLocalB = false := by decide +kernel

theorem splitCube_contains_iff_hull (x : V3) : splitCube.contains x = true ↔ InHull splitCube.verts x :=
  splitCube.contains_iff_hull_of_validB splitCube_validB.1 x

/-- why the general case needs the covering argument: the point (1/4, 3/4, 1) of the split cube passes all face
    tests and lies in the plane of the first top triangle but not in that triangle -/
theorem splitCube_key_lemma_fails :
    splitCube.contains ⟨1/4, 3/4, 1⟩ = true ∧
    ∃ f ∈ splitCube.faces, f.side ⟨1/4, 3/4, 1⟩ = 0 ∧ f.contains ⟨1/4, 3/4, 1⟩ = false := by
  refine ⟨by decide +kernel, cycleFace [⟨0,0,1⟩, ⟨1,0,1⟩, ⟨1,1,1⟩], by decide +kernel, by decide +kernel, by decide +kernel⟩

/-- why an interior point (or `properEdges`) is needed on top of `polyhedronValidB`: the pillow passes the judge
    (closed, Euler, vertices inside), yet its face tests accept a point outside the hull of its vertices -/
theorem pillow_judge_gap :
    polyhedronValidB pillowFaces = true ∧ interiorF pillowFaces = false ∧ properEdgesF pillowFaces = false ∧
    (Polyhedron.ofFaces pillowFaces).contains ⟨5, 5, 0⟩ = true ∧
    ¬ InHull (Polyhedron.ofFaces pillowFaces).verts ⟨5, 5, 0⟩ := by
  refine ⟨by decide +kernel, by decide +kernel, by decide +kernel, by decide +kernel, ?_⟩
  intro hin
  have hsub : ∀ p ∈ (Polyhedron.ofFaces pillowFaces).verts, p ∈ unitCube.verts := by decide +kernel
  have h1 := (unitCube_contains_iff_hull ⟨5, 5, 0⟩).mpr (hin.mono hsub)
  have h2 : unitCube.contains ⟨5, 5, 0⟩ = false := by decide +kernel
  rw [h2] at h1; cases h1
#print axioms pillow_judge_gap

end G3D
