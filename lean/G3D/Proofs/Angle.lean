import G3D.Model.Angle
import G3D.Proofs.Distance

namespace G3D
open V3

theorem cosSqVec_range (u v : V3) (hu : u ≠ zero) (hv : v ≠ zero) : 0 ≤ cosSqVec u v ∧ cosSqVec u v ≤ 1 := by
  have hU := normSq_pos hu; have hV := normSq_pos hv
  unfold cosSqVec
  constructor
  · exact div_nonneg (sq_nonneg _) (le_of_lt (mul_pos hU hV))
  · rw [div_le_one (mul_pos hU hV)]; exact cauchy_schwarz u v

theorem cosSqVec_symm (u v : V3) : cosSqVec u v = cosSqVec v u := by
  simp only [cosSqVec, dot, normSq]; ring

theorem parallel_iff_cosSq_one (u v : V3) (hu : u ≠ zero) (hv : v ≠ zero) :
    V3.parallel u v = true ↔ cosSqVec u v = 1 := by
  have hU := normSq_pos hu; have hV := normSq_pos hv
  unfold V3.parallel cosSqVec
  rw [beq_iff_eq, div_eq_one_iff_eq (ne_of_gt (mul_pos hU hV))]

theorem orthogonal_iff_cosSq_zero (u v : V3) (hu : u ≠ zero) (hv : v ≠ zero) :
    V3.orthogonal u v = true ↔ cosSqVec u v = 0 := by
  have hU := normSq_pos hu; have hV := normSq_pos hv
  unfold V3.orthogonal cosSqVec
  rw [beq_iff_eq, div_eq_zero_iff]
  constructor
  · intro h; left; rw [h]; ring
  · rintro (h | h)
    · exact pow_eq_zero_iff (by norm_num) |>.mp h
    · exact absurd h (ne_of_gt (mul_pos hU hV))

theorem parallel_symm (u v : V3) : V3.parallel u v = V3.parallel v u := by
  simp only [V3.parallel, dot, normSq]
  congr 1 <;> ring

theorem orthogonal_symm (u v : V3) : V3.orthogonal u v = V3.orthogonal v u := by
  simp only [V3.orthogonal, dot]
  congr 1; ring

def AObj.dirOk : AObj → Prop
  | .line l => l.WF
  | .plane p => p.WF
  | .vec v => v ≠ zero

/-- symmetry of the three predicates in their arguments -/
theorem angleRep_symm (a b : AObj) : angleRep a b = angleRep b a := by
  cases a <;> cases b <;> simp [angleRep, cosSqVec_symm]

theorem parallelG_symm (a b : AObj) : parallelG a b = parallelG b a := by
  cases a <;> cases b <;> simp [parallelG, parallel_symm]

theorem orthogonalG_symm (a b : AObj) : orthogonalG a b = orthogonalG b a := by
  cases a <;> cases b <;> simp only [orthogonalG, parallel_symm, orthogonal_symm]
  · congr 1; simp only [dot]; congr 1; ring

/-- `parallel` is true exactly when the returned angle is 0, `orthogonal` exactly when it is π/2:
    for `acute c` the angle is `arccos √c` (0 ⇔ c = 1, π/2 ⇔ c = 0); for `compl c` it is
    `π/2 - arccos √c` (0 ⇔ c = 0, π/2 ⇔ c = 1). -/
def AngleRep.isZero : AngleRep → Prop
  | .acute c => c = 1
  | .compl c => c = 0
def AngleRep.isRight : AngleRep → Prop
  | .acute c => c = 0
  | .compl c => c = 1

theorem parallelG_iff_angle_zero (a b : AObj) (ha : a.dirOk) (hb : b.dirOk) (r : AngleRep)
    (hr : angleRep a b = some r) : parallelG a b = some true ↔ r.isZero := by
  cases a <;> cases b <;> simp only [angleRep, Option.some.injEq, reduceCtorEq] at hr <;> subst hr <;>
    simp only [parallelG, Option.some.injEq, AngleRep.isZero]
  · exact parallel_iff_cosSq_one _ _ ha hb
  · exact orthogonal_iff_cosSq_zero _ _ ha hb
  · exact orthogonal_iff_cosSq_zero _ _ hb ha
  · exact parallel_iff_cosSq_one _ _ ha hb
  · exact parallel_iff_cosSq_one _ _ ha hb

theorem orthogonalG_iff_angle_right (a b : AObj) (ha : a.dirOk) (hb : b.dirOk) (r : AngleRep)
    (hr : angleRep a b = some r) : orthogonalG a b = some true ↔ r.isRight := by
  cases a <;> cases b <;> simp only [angleRep, Option.some.injEq, reduceCtorEq] at hr <;> subst hr <;>
    simp only [orthogonalG, Option.some.injEq, AngleRep.isRight]
  · exact orthogonal_iff_cosSq_zero _ _ ha hb
  · exact parallel_iff_cosSq_one _ _ ha hb
  · exact parallel_iff_cosSq_one _ _ hb ha
  · exact orthogonal_iff_cosSq_zero _ _ ha hb
  · exact orthogonal_iff_cosSq_zero _ _ ha hb
#print axioms parallelG_iff_angle_zero
#print axioms orthogonalG_iff_angle_right
end G3D
