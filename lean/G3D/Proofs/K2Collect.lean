import G3D.Proofs.K2Geom
/-! Kernel K2, handler side: what the coplanar branch of `inter_convexpolygon_convexpolygon` collects.
    * `interSegSeg_point_of_cross`: two well-formed segments on non-parallel carriers with a common point `w`:
      the handler returns `Point w`.
    * `edgeHits_spec`, `crossHits_spec`: the hit-collecting loops never raise on well-formed segments and collect
      exactly the Point results (plus what was there), keeping the list duplicate-free.
    * `coplanarCollect`, `coplanarFinish`, `interPolygonPolygon_coplanar_eq`: the branch as "collect, then build".
    * `coplanarCollect_spec`: for `Valid` operands the collection succeeds, is duplicate-free, and its members
      are exactly: vertices of `a` in `hull b`, vertices of `b` in `hull a`, Point results of edge × edge.
    * `CVertex.mem_collect` (Claim 1): every vertex of the intersection is collected. -/
namespace G3D
open V3

/-! ### segment × segment -/
theorem interSegSeg_IsPS (a b : Seg) (o : Option Geo) (h : interSegSeg a b = .ok o) : IsPS o := by
  unfold interSegSeg at h
  split at h
  · exact ofPointSet_IsPS _ o h
  · split at h
    · cases h; trivial
    · cases h; split <;> trivial
    · cases h
    · cases h

theorem cross_unique {a1 d1 a2 d2 : V3} (hcr : cross d1 d2 ≠ zero) {t1 t2 r1 r2 : Rat}
    (h1 : add a1 (smul t1 d1) = add a2 (smul r1 d2)) (h2 : add a1 (smul t2 d1) = add a2 (smul r2 d2)) :
    t1 = t2 := by
  by_contra hne
  apply hcr
  have hx1 := congrArg V3.x h1; have hy1 := congrArg V3.y h1; have hz1 := congrArg V3.z h1
  have hx2 := congrArg V3.x h2; have hy2 := congrArg V3.y h2; have hz2 := congrArg V3.z h2
  simp only [add, smul] at hx1 hy1 hz1 hx2 hy2 hz2
  have k : t1 - t2 ≠ 0 := sub_ne_zero.mpr hne
  apply smul_eq_zero_of_ne k
  apply V3.ext' <;> simp only [smul, cross, zero]
  · linear_combination d2.z * (hy1 - hy2) - d2.y * (hz1 - hz2)
  · linear_combination d2.x * (hz1 - hz2) - d2.z * (hx1 - hx2)
  · linear_combination d2.y * (hx1 - hx2) - d2.x * (hy1 - hy2)

/-- two points common to two segments on non-parallel carriers coincide -/
theorem seg_cross_unique (s1 s2 : Seg) (hcr : cross (sub s1.b s1.a) (sub s2.b s2.a) ≠ zero) (y z : V3)
    (hy1 : s1.den y) (hy2 : s2.den y) (hz1 : s1.den z) (hz2 : s2.den z) : y = z := by
  obtain ⟨t1, _, _, e1⟩ := hy1
  obtain ⟨r1, _, _, e2⟩ := hy2
  obtain ⟨t2, _, _, e3⟩ := hz1
  obtain ⟨r2, _, _, e4⟩ := hz2
  have := cross_unique hcr (e1.symm.trans e2) (e3.symm.trans e4)
  rw [e1, e3, this]

/-- a transversal crossing is returned as a Point -/
theorem interSegSeg_point_of_cross (s1 s2 : Seg) (h1 : s1.WF) (h2 : s2.WF) (w : V3) (hw1 : s1.den w) (hw2 : s2.den w)
    (hcr : cross (sub s1.b s1.a) (sub s2.b s2.a) ≠ zero) : interSegSeg s1 s2 = .ok (some (.point w)) := by
  obtain ⟨o, ho, hwf, hd⟩ := interSegSeg_exact s1 s2 h1 h2
  have hps := interSegSeg_IsPS s1 s2 o ho
  have hden : denOpt o w := (hd w).mpr ⟨hw1, hw2⟩
  rw [ho]
  cases o with
  | none => exact absurd hden (by simp [denOpt])
  | some g =>
    cases g with
    | point q => simp only [denOpt, Geo.den] at hden; rw [hden]
    | seg s =>
      exfalso
      have hW : s.WF := hwf _ rfl
      have ha := (hd s.a).mp (Seg.den_a s)
      have hb := (hd s.b).mp (Seg.den_b s)
      exact hW.1 (seg_cross_unique s1 s2 hcr s.a s.b ha.1 ha.2 hb.1 hb.2)
    | line _ => exact absurd hps (by simp [IsPS])
    | plane _ => exact absurd hps (by simp [IsPS])
    | halfline _ => exact absurd hps (by simp [IsPS])

/-! ### the collecting loops -/
theorem mem_foldl_addNew : ∀ (l acc : List V3) (p : V3), p ∈ l.foldl addNew acc ↔ p ∈ acc ∨ p ∈ l := by
  intro l
  induction l with
  | nil => intro acc p; simp
  | cons x l ih =>
    intro acc p
    rw [List.foldl_cons, ih, mem_addNew, List.mem_cons]
    tauto

theorem nodup_foldl_addNew : ∀ (l acc : List V3), acc.Nodup → (l.foldl addNew acc).Nodup := by
  intro l
  induction l with
  | nil => intro acc h; exact h
  | cons x l ih => intro acc h; rw [List.foldl_cons]; exact ih _ (nodup_addNew acc x h)

theorem edgeHits_spec (edgePt : Seg → Res) : ∀ (ss : List Seg) (acc : List V3),
    (∀ s ∈ ss, ∃ o, edgePt s = .ok o ∧ IsPS o) →
    ∃ out, edgeHits edgePt ss acc = .ok out ∧
      (∀ p, p ∈ out ↔ p ∈ acc ∨ ∃ s ∈ ss, edgePt s = .ok (some (.point p))) ∧ (acc.Nodup → out.Nodup) := by
  intro ss
  induction ss with
  | nil => intro acc _; exact ⟨acc, rfl, fun p => by simp, fun h => h⟩
  | cons s ss ih =>
    intro acc hs
    obtain ⟨o, ho, hps⟩ := hs s (by simp)
    have hs' : ∀ s' ∈ ss, ∃ o, edgePt s' = .ok o ∧ IsPS o := fun s' h => hs s' (by simp [h])
    cases o with
    | none =>
      obtain ⟨out, h1, h2, h3⟩ := ih acc hs'
      refine ⟨out, by simp only [edgeHits, ho]; exact h1, fun p => ?_, h3⟩
      rw [h2 p]
      constructor
      · rintro (h | ⟨s', hs', hq⟩)
        · exact Or.inl h
        · exact Or.inr ⟨s', by simp [hs'], hq⟩
      · rintro (h | ⟨s', hs', hq⟩)
        · exact Or.inl h
        · rcases List.mem_cons.mp hs' with rfl | hs'
          · rw [ho] at hq; cases hq
          · exact Or.inr ⟨s', hs', hq⟩
    | some g =>
      cases g with
      | point q =>
        obtain ⟨out, h1, h2, h3⟩ := ih (addNew acc q) hs'
        refine ⟨out, by simp only [edgeHits, ho]; exact h1, fun p => ?_, fun h => h3 (nodup_addNew acc q h)⟩
        rw [h2 p, mem_addNew]
        constructor
        · rintro ((h | h) | ⟨s', hs', hq⟩)
          · exact Or.inl h
          · exact Or.inr ⟨s, by simp, by rw [ho, h]⟩
          · exact Or.inr ⟨s', by simp [hs'], hq⟩
        · rintro (h | ⟨s', hs', hq⟩)
          · exact Or.inl (Or.inl h)
          · rcases List.mem_cons.mp hs' with rfl | hs'
            · rw [ho] at hq; cases hq; exact Or.inl (Or.inr rfl)
            · exact Or.inr ⟨s', hs', hq⟩
      | seg r =>
        obtain ⟨out, h1, h2, h3⟩ := ih acc hs'
        refine ⟨out, by simp only [edgeHits, ho]; exact h1, fun p => ?_, h3⟩
        rw [h2 p]
        constructor
        · rintro (h | ⟨s', hs', hq⟩)
          · exact Or.inl h
          · exact Or.inr ⟨s', by simp [hs'], hq⟩
        · rintro (h | ⟨s', hs', hq⟩)
          · exact Or.inl h
          · rcases List.mem_cons.mp hs' with rfl | hs'
            · rw [ho] at hq; cases hq
            · exact Or.inr ⟨s', hs', hq⟩
      | line _ => exact absurd hps (by simp [IsPS])
      | plane _ => exact absurd hps (by simp [IsPS])
      | halfline _ => exact absurd hps (by simp [IsPS])

theorem crossHits_spec (sb : List Seg) (hsb : ∀ t ∈ sb, t.WF) : ∀ (sa : List Seg) (acc : List V3),
    (∀ s ∈ sa, s.WF) →
    ∃ out, crossHits sb sa acc = .ok out ∧
      (∀ p, p ∈ out ↔ p ∈ acc ∨ ∃ s ∈ sa, ∃ t ∈ sb, interSegSeg t s = .ok (some (.point p))) ∧
      (acc.Nodup → out.Nodup) := by
  intro sa
  induction sa with
  | nil => intro acc _; exact ⟨acc, rfl, fun p => by simp, fun h => h⟩
  | cons s ss ih =>
    intro acc hsa
    have hsW := hsa s (by simp)
    obtain ⟨acc', e1, m1, n1⟩ := edgeHits_spec (fun t => interSegSeg t s) sb acc (fun t ht => by
      obtain ⟨o, ho, _, _⟩ := interSegSeg_exact t s (hsb t ht) hsW
      exact ⟨o, ho, interSegSeg_IsPS t s o ho⟩)
    obtain ⟨out, e2, m2, n2⟩ := ih acc' (fun s' h => hsa s' (by simp [h]))
    refine ⟨out, ?_, fun p => ?_, fun h => n2 (n1 h)⟩
    · rw [crossHits]
      unfold crossHitsOne
      rw [e1]
      exact e2
    · rw [m2 p, m1 p]
      constructor
      · rintro ((h | ⟨t, ht, hq⟩) | ⟨s', hs', t, ht, hq⟩)
        · exact Or.inl h
        · exact Or.inr ⟨s, by simp, t, ht, hq⟩
        · exact Or.inr ⟨s', by simp [hs'], t, ht, hq⟩
      · rintro (h | ⟨s', hs', t, ht, hq⟩)
        · exact Or.inl (Or.inl h)
        · rcases List.mem_cons.mp hs' with rfl | hs'
          · exact Or.inl (Or.inr ⟨t, ht, hq⟩)
          · exact Or.inr ⟨s', hs', t, ht, hq⟩

/-! ### the coplanar branch as "collect, then build" -/
/-- the point set collected by the coplanar branch -/
def coplanarCollect (a b : Polygon) : Except BErr (List V3) := do
  let acc := (a.pts.filter b.contains).foldl addNew []
  let acc := (b.pts.filter a.contains).foldl addNew acc
  let sa ← liftC a.segments?
  let sb ← liftC b.segments?
  crossHits sb sa acc

/-- the result built from the collected points -/
def coplanarFinish (acc : List V3) : ResB :=
  match acc with
  | [] => pure none
  | [p] => pt? p
  | [p, q] => do let s ← liftC (if p = q then .error .value else .ok (Seg.mk' p q)); seg? s
  | ps => do
    if (← pointsInALine ps) then throw .bug
    let P ← liftC (Polygon.mk? ps)
    pure (some (.polygon P))

theorem interPolygonPolygon_coplanar_eq (a b : Polygon) (hco : a.plane.eqv b.plane = true) :
    interPolygonPolygon a b = coplanarCollect a b >>= coplanarFinish := by
  have hpp : interPlanePlane a.plane b.plane = .ok (some (.plane a.plane)) := by
    unfold interPlanePlane; rw [if_pos hco]
  unfold interPolygonPolygon coplanarCollect
  rw [hpp]
  simp only [hco, Bool.not_true, Bool.false_eq_true, if_false, bind_assoc]
  rfl

/-- `segments()` of a `Valid` polygon, with the edges as a list of vertex pairs -/
theorem mem_segments_iff (P : Polygon) (s : Seg) :
    s ∈ (closedPairs P.pts).map (fun e => Seg.mk' e.1 e.2) ↔ ∃ e ∈ closedPairs P.pts, s = Seg.mk' e.1 e.2 := by
  rw [List.mem_map]
  constructor
  · rintro ⟨e, he, rfl⟩; exact ⟨e, he, rfl⟩
  · rintro ⟨e, he, rfl⟩; exact ⟨e, he, rfl⟩

theorem Polygon.Valid.edge_ne {P : Polygon} (hv : P.Valid) (e : V3 × V3) (he : e ∈ closedPairs P.pts) : e.1 ≠ e.2 := by
  obtain ⟨p0, p1, p2, rest, hp, _, htp⟩ := hv
  rw [hp] at htp he
  exact G3D.edge_ne P.plane.n p0 p1 p2 rest htp e he

/-- what the handler collects, for `Valid` operands -/
def Collected (a b : Polygon) (p : V3) : Prop :=
  (p ∈ a.pts ∧ InHull b.pts p) ∨ (p ∈ b.pts ∧ InHull a.pts p) ∨
    ∃ e ∈ closedPairs a.pts, ∃ f ∈ closedPairs b.pts,
      interSegSeg (Seg.mk' f.1 f.2) (Seg.mk' e.1 e.2) = .ok (some (.point p))

theorem coplanarCollect_spec (a b : Polygon) (ha : a.Valid) (hb : b.Valid) :
    ∃ out, coplanarCollect a b = .ok out ∧ out.Nodup ∧ ∀ p, p ∈ out ↔ Collected a b p := by
  have hsaW : ∀ s ∈ (closedPairs a.pts).map (fun e => Seg.mk' e.1 e.2), s.WF := by
    intro s hs; obtain ⟨e, he, rfl⟩ := (mem_segments_iff a s).mp hs; exact Seg.mk'_WF (ha.edge_ne e he)
  have hsbW : ∀ s ∈ (closedPairs b.pts).map (fun e => Seg.mk' e.1 e.2), s.WF := by
    intro s hs; obtain ⟨e, he, rfl⟩ := (mem_segments_iff b s).mp hs; exact Seg.mk'_WF (hb.edge_ne e he)
  obtain ⟨out, e, m, n⟩ := crossHits_spec _ hsbW _
    ((b.pts.filter a.contains).foldl addNew ((a.pts.filter b.contains).foldl addNew [])) hsaW
  refine ⟨out, ?_, n (nodup_foldl_addNew _ _ (nodup_foldl_addNew _ _ List.nodup_nil)), fun p => ?_⟩
  · unfold coplanarCollect
    rw [Polygon.segments_eq a ha, Polygon.segments_eq b hb]
    exact e
  · rw [m p, mem_foldl_addNew, mem_foldl_addNew, List.mem_filter, List.mem_filter,
      Polygon.contains_iff a ha, Polygon.contains_iff b hb]
    unfold Collected
    simp only [List.not_mem_nil, false_or]
    constructor
    · rintro ((h | h) | ⟨s, hs, t, ht, hq⟩)
      · exact Or.inl h
      · exact Or.inr (Or.inl h)
      · obtain ⟨e, he, rfl⟩ := (mem_segments_iff a s).mp hs
        obtain ⟨f, hf, rfl⟩ := (mem_segments_iff b t).mp ht
        exact Or.inr (Or.inr ⟨e, he, f, hf, hq⟩)
    · rintro (h | h | ⟨e, he, f, hf, hq⟩)
      · exact Or.inl (Or.inl h)
      · exact Or.inl (Or.inr h)
      · exact Or.inr ⟨_, (mem_segments_iff a _).mpr ⟨e, he, rfl⟩, _, (mem_segments_iff b _).mpr ⟨f, hf, rfl⟩, hq⟩

/-- **Claim 1**: every vertex of `hull a ∩ hull b` is collected -/
theorem CVertex.collected {a b : Polygon} (ha : a.Valid) (hb : b.Valid) {w : V3} (h : CVertex a b w) :
    Collected a b w := by
  rcases h with h | h | ⟨e, he, f, hf, hew, hfw, hcr⟩
  · exact Or.inl h
  · exact Or.inr (Or.inl h)
  · refine Or.inr (Or.inr ⟨e, he, f, hf, ?_⟩)
    exact interSegSeg_point_of_cross _ _ (Seg.mk'_WF (hb.edge_ne f hf)) (Seg.mk'_WF (ha.edge_ne e he)) w
      ((Seg.mk'_den _ _ _).mpr hfw) ((Seg.mk'_den _ _ _).mpr hew) (cross_ne_zero_swap hcr)

/-- every collected point lies in both hulls (soundness of the collection) -/
theorem Collected.inBoth {a b : Polygon} (ha : a.Valid) (hb : b.Valid) {p : V3} (h : Collected a b p) :
    InHull a.pts p ∧ InHull b.pts p := by
  rcases h with h | h | ⟨e, he, f, hf, hq⟩
  · exact ⟨vertex_in_hull _ _ h.1, h.2⟩
  · exact ⟨h.2, vertex_in_hull _ _ h.1⟩
  · have := (interSegSeg_exact _ _ (Seg.mk'_WF (hb.edge_ne f hf)) (Seg.mk'_WF (ha.edge_ne e he))).point_mem p hq
    have hme := closedPairs_mem a.pts e he
    have hmf := closedPairs_mem b.pts f hf
    exact ⟨between_in_hull hme.1 hme.2 this.2, between_in_hull hmf.1 hmf.2 this.1⟩

#print axioms coplanarCollect_spec
#print axioms CVertex.collected
#print axioms interPolygonPolygon_coplanar_eq
end G3D
