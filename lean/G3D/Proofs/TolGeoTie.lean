import G3D.Proofs.TolGeoBase
import G3D.Extracted.Kvec
import G3D.Extracted.Kvecr
import G3D.Extracted.Kmember
import G3D.Extracted.Kmemberr
import G3D.Proofs.KTieKvecPar
import G3D.Proofs.KTieKmemberr
import Mathlib.Tactic.NormNum

/-! # The hand-written tolerance model IS the extracted comparison on the extracted operands

    `G3D/Model/TolGeo.lean` mirrors the Python formulas by hand.  `G3D/Extracted/Kvec.lean`, `Kmember.lean` (ℚ) and
    `G3D/Extracted/Kvecr.lean`, `Kmemberr.lean` (ℝ, with √) are regenerated from the running code: every tolerance comparison is
    recorded as an operand term (`impl_*_residual`, `_scale`, `_rel`, `_startDist`, `_proj`) and a shape string
    (`impl_*_shape`, or the entries of `impl_*_path` in the order in which the code asks them).

    `evalShape` below gives the recorded shape strings their meaning.  Each theorem states that a `TolGeo` predicate is
    `evalShape (recorded shape) eps (recorded operand) (recorded scale)`, combined in the recorded order.  The shape is
    taken FROM the generated constant (not retyped), so a change of an operand, of a comparison, of a right-hand side
    or of the order of the tests in the source changes the generated file and breaks a proof here. -/
namespace G3D.TolGeo
open R3 G3D.Extracted

/-! ## meaning of the recorded comparison shapes -/

/-- the five comparison shapes that occur in the generated files; `R` is the recorded operand, `S` the recorded scale -/
def evalShape (shape : String) (eps R S : ℝ) : Prop :=
  if shape = "abs(R) < eps" then |R| < eps
  else if shape = "abs(R) < (eps * S)" then |R| < eps * S
  else if shape = "R > -eps" then R > -eps
  else if shape = "R < eps" then R < eps
  else if shape = "R < (1 + eps)" then R < 1 + eps
  else False

/-- the shape of the `i`-th comparison on a recorded path -/
def shapeAt (path : List (String × Bool)) (i : Nat) : String := (path.getD i ("", false)).1

/-- the answer scripted for the `i`-th comparison on a recorded path -/
def answerAt (path : List (String × Bool)) (i : Nat) : Bool := (path.getD i ("", false)).2

theorem evalShape_abs (eps R S : ℝ) : evalShape "abs(R) < eps" eps R S ↔ |R| < eps := by
  simp [evalShape]
theorem evalShape_absScaled (eps R S : ℝ) : evalShape "abs(R) < (eps * S)" eps R S ↔ |R| < eps * S := by
  simp [evalShape]
theorem evalShape_gtNeg (eps R S : ℝ) : evalShape "R > -eps" eps R S ↔ R > -eps := by
  simp [evalShape]
theorem evalShape_lt (eps R S : ℝ) : evalShape "R < eps" eps R S ↔ R < eps := by
  simp [evalShape]
theorem evalShape_ltOne (eps R S : ℝ) : evalShape "R < (1 + eps)" eps R S ↔ R < 1 + eps := by
  simp [evalShape]

/-! ## the shape constants relied upon (pinned by `decide`; any change in the generated files breaks these) -/

theorem shapes_real :
    impl_parallel_shape = "abs(R) < (eps * S)" ∧
    impl_lineContains_shape = "abs(R) < (eps * S)" ∧
    impl_planeContainsN_shape = "abs(R) < eps" := by decide

theorem shapes_rat :
    impl_planeContains_shape = "abs(R) < eps" ∧ impl_orthogonal_shape = "abs(R) < eps" ∧
    impl_halfLineContains_shape = "R > -eps" := by decide

/-- **branch order of `Vector.parallel`** as recorded: on the path that reaches the final test the code asks
    `self == zero` (first coordinate, answered False), `other == zero`, `self == other`, and only then
    `abs(R) < eps * S`; the three shortcut paths end with three `abs(R) < eps` answered True, after one more failed
    test for each earlier shortcut.  This is the order of the disjuncts of `parallelT`. -/
theorem parallel_paths :
    impl_parallel_path = [("abs(R) < eps", false), ("abs(R) < eps", false), ("abs(R) < eps", false),
      ("abs(R) < (eps * S)", true)] ∧
    impl_parallelSelfZero_path = [("abs(R) < eps", true), ("abs(R) < eps", true), ("abs(R) < eps", true)] ∧
    impl_parallelOtherZero_path = [("abs(R) < eps", false), ("abs(R) < eps", true), ("abs(R) < eps", true),
      ("abs(R) < eps", true)] ∧
    impl_parallelEqual_path = [("abs(R) < eps", false), ("abs(R) < eps", false), ("abs(R) < eps", true),
      ("abs(R) < eps", true), ("abs(R) < eps", true)] := by decide

/-- the operands of the three failed tests on the main path are, in this order, the first operands of the self-zero,
    other-zero and equal shortcuts -/
theorem parallel_pre_order (a b : RVec) :
    impl_parallel_pre0 a b = impl_parallelSelfZero_residual0 a b ∧
    impl_parallel_pre1 a b = impl_parallelOtherZero_residual0 a b ∧
    impl_parallel_pre2 a b = impl_parallelEqual_residual0 a b := ⟨rfl, rfl, rfl⟩

theorem other_paths :
    impl_lineContains_path = impl_parallel_path ∧
    impl_planeContainsN_path = [("abs(R) < eps", true)] ∧
    impl_vectorEq_path = [("abs(R) < eps", true), ("abs(R) < eps", true), ("abs(R) < eps", true)] ∧
    impl_pointEq_path = [("abs(R) < eps", true), ("abs(R) < eps", true), ("abs(R) < eps", true)] ∧
    impl_segContains_path = [("abs(R) < eps", false), ("abs(R) < eps", false), ("abs(R) < eps", false),
      ("abs(R) < (eps * S)", true), ("R < eps", false), ("R > -eps", true), ("R < (1 + eps)", true)] ∧
    impl_segContainsStart_path = [("abs(R) < eps", false), ("abs(R) < eps", false), ("abs(R) < eps", false),
      ("abs(R) < (eps * S)", false), ("R < eps", true)] ∧
    impl_halfLineContains_path = [("abs(R) < eps", false), ("abs(R) < eps", false), ("abs(R) < eps", false),
      ("abs(R) < (eps * S)", true), ("R > -eps", true)] := by decide

/-! ## `R3 ↔ RVec` -/

/-- a `TolGeo` triple as a triple of the generated files -/
def _root_.G3D.TolGeo.R3.toRVec (a : R3) : RVec := ⟨a.x, a.y, a.z⟩
/-- and back -/
def _root_.G3D.TolGeo.R3.ofRVec (a : RVec) : R3 := ⟨a.x, a.y, a.z⟩
/-- a rational model vector as a `TolGeo` triple -/
def _root_.G3D.TolGeo.R3.ofV3 (a : V3) : R3 := ⟨(a.x : ℝ), (a.y : ℝ), (a.z : ℝ)⟩

@[simp] theorem toRVec_x (a : R3) : a.toRVec.x = a.x := rfl
@[simp] theorem toRVec_y (a : R3) : a.toRVec.y = a.y := rfl
@[simp] theorem toRVec_z (a : R3) : a.toRVec.z = a.z := rfl
@[simp] theorem ofRVec_toRVec (a : R3) : R3.ofRVec a.toRVec = a := rfl
@[simp] theorem toRVec_ofRVec (a : RVec) : (R3.ofRVec a).toRVec = a := rfl
@[simp] theorem ofV3_x (a : V3) : (R3.ofV3 a).x = (a.x : ℝ) := rfl
@[simp] theorem ofV3_y (a : V3) : (R3.ofV3 a).y = (a.y : ℝ) := rfl
@[simp] theorem ofV3_z (a : V3) : (R3.ofV3 a).z = (a.z : ℝ) := rfl
theorem ofV3_toRVec (a : V3) : (R3.ofV3 a).toRVec = a.toR := rfl

@[simp] theorem toRVec_zero : R3.zero.toRVec = RVec.zero := rfl
@[simp] theorem toRVec_add (a b : R3) : (add a b).toRVec = RVec.add a.toRVec b.toRVec := rfl
@[simp] theorem toRVec_sub (a b : R3) : (sub a b).toRVec = RVec.sub a.toRVec b.toRVec := rfl
@[simp] theorem toRVec_smul (k : ℝ) (a : R3) : (smul k a).toRVec = RVec.smul k a.toRVec := rfl
@[simp] theorem toRVec_cross (a b : R3) : (cross a b).toRVec = RVec.cross a.toRVec b.toRVec := rfl
@[simp] theorem toRVec_dot (a b : R3) : RVec.dot a.toRVec b.toRVec = dot a b := rfl
@[simp] theorem toRVec_normSq (a : R3) : RVec.normSq a.toRVec = dot a a := rfl

/-- the code's `v * v` as it is recorded: `0 + x*x + y*y + z*z` -/
theorem sum0' (a : R3) : (0 : ℝ) + a.x * a.x + a.y * a.y + a.z * a.z = dot a a := by
  simp only [dot]; ring

/-- `Vector.length` -/
theorem len_tie (a : R3) : impl_length a.toRVec = len a := by
  simp only [impl_length, toRVec_x, toRVec_y, toRVec_z, sum0', len]

/-- `Vector.normalized` (the code multiplies each coordinate by `1/|v|` on the right) -/
theorem normalized_tie (a : R3) : impl_normalized a.toRVec = (normalized a).toRVec := by
  simp only [impl_normalized, sum0', normalized, smul, R3.toRVec, len]
  congr 1 <;> ring

/-! ## Vector / Point equality -/

/-- `Vector.__eq__` executed on real symbols is recorded inside `Vector.parallel` (`self == other`):
    `vecEq` is the conjunction of the three recorded comparisons, in the recorded order -/
theorem vecEq_tie (eps : ℝ) (a b : R3) :
    vecEq eps a b ↔
      evalShape (shapeAt impl_parallelEqual_path 2) eps (impl_parallelEqual_residual0 a.toRVec b.toRVec) 0 ∧
      evalShape (shapeAt impl_parallelEqual_path 3) eps (impl_parallelEqual_residual1 a.toRVec b.toRVec) 0 ∧
      evalShape (shapeAt impl_parallelEqual_path 4) eps (impl_parallelEqual_residual2 a.toRVec b.toRVec) 0 := by
  simp [vecEq, evalShape, shapeAt, impl_parallelEqual_path, impl_parallelEqual_residual0,
    impl_parallelEqual_residual1, impl_parallelEqual_residual2]

/-- the stand-alone extraction of `Vector.__eq__` and `Point.__eq__` (rational symbols), on casts -/
theorem vecEq_tie_rat (eps : ℝ) (a b : V3) :
    (vecEq eps (R3.ofV3 a) (R3.ofV3 b) ↔
      evalShape (shapeAt impl_vectorEq_path 0) eps ((impl_vectorEq_residual0 a b : ℚ) : ℝ) 0 ∧
      evalShape (shapeAt impl_vectorEq_path 1) eps ((impl_vectorEq_residual1 a b : ℚ) : ℝ) 0 ∧
      evalShape (shapeAt impl_vectorEq_path 2) eps ((impl_vectorEq_residual2 a b : ℚ) : ℝ) 0) ∧
    (vecEq eps (R3.ofV3 a) (R3.ofV3 b) ↔
      evalShape (shapeAt impl_pointEq_path 0) eps ((impl_pointEq_residual0 a b : ℚ) : ℝ) 0 ∧
      evalShape (shapeAt impl_pointEq_path 1) eps ((impl_pointEq_residual1 a b : ℚ) : ℝ) 0 ∧
      evalShape (shapeAt impl_pointEq_path 2) eps ((impl_pointEq_residual2 a b : ℚ) : ℝ) 0) := by
  constructor <;>
  simp [vecEq, evalShape, shapeAt, impl_vectorEq_path, impl_vectorEq_residual0, impl_vectorEq_residual1,
    impl_vectorEq_residual2, impl_pointEq_path, impl_pointEq_residual0, impl_pointEq_residual1,
    impl_pointEq_residual2]

/-- `self == Vector.zero()` -/
theorem isZero_tie_self (eps : ℝ) (a b : R3) :
    isZero eps a ↔
      evalShape (shapeAt impl_parallelSelfZero_path 0) eps (impl_parallelSelfZero_residual0 a.toRVec b.toRVec) 0 ∧
      evalShape (shapeAt impl_parallelSelfZero_path 1) eps (impl_parallelSelfZero_residual1 a.toRVec b.toRVec) 0 ∧
      evalShape (shapeAt impl_parallelSelfZero_path 2) eps (impl_parallelSelfZero_residual2 a.toRVec b.toRVec) 0 := by
  simp [isZero, vecEq, R3.zero, evalShape, shapeAt, impl_parallelSelfZero_path, impl_parallelSelfZero_residual0,
    impl_parallelSelfZero_residual1, impl_parallelSelfZero_residual2]

/-- `other == Vector.zero()` -/
theorem isZero_tie_other (eps : ℝ) (a b : R3) :
    isZero eps b ↔
      evalShape (shapeAt impl_parallelOtherZero_path 1) eps (impl_parallelOtherZero_residual0 a.toRVec b.toRVec) 0 ∧
      evalShape (shapeAt impl_parallelOtherZero_path 2) eps (impl_parallelOtherZero_residual1 a.toRVec b.toRVec) 0 ∧
      evalShape (shapeAt impl_parallelOtherZero_path 3) eps (impl_parallelOtherZero_residual2 a.toRVec b.toRVec) 0 := by
  simp [isZero, vecEq, R3.zero, evalShape, shapeAt, impl_parallelOtherZero_path, impl_parallelOtherZero_residual0,
    impl_parallelOtherZero_residual1, impl_parallelOtherZero_residual2]

/-! ## `Vector.parallel` -/

/-- the recorded operand and scale of the final test -/
theorem parallel_operands (a b : R3) :
    impl_parallel_residual a.toRVec b.toRVec = |dot a b| - len a * len b ∧
    impl_parallel_scale a.toRVec b.toRVec = len a := by
  obtain ⟨h1, h2⟩ := G3D.KTie.Kvec.parallel_tie a.toRVec b.toRVec
  constructor
  · rw [h1]; rfl
  · rw [h2]; rfl

/-- the three shortcut tests and the final test, written with the recorded operands and shapes -/
def parallelExtracted (eps : ℝ) (a b : RVec) : Prop :=
  ((evalShape (shapeAt impl_parallelSelfZero_path 0) eps (impl_parallelSelfZero_residual0 a b) 0 ∧
      evalShape (shapeAt impl_parallelSelfZero_path 1) eps (impl_parallelSelfZero_residual1 a b) 0 ∧
      evalShape (shapeAt impl_parallelSelfZero_path 2) eps (impl_parallelSelfZero_residual2 a b) 0) ∨
    (evalShape (shapeAt impl_parallelOtherZero_path 1) eps (impl_parallelOtherZero_residual0 a b) 0 ∧
      evalShape (shapeAt impl_parallelOtherZero_path 2) eps (impl_parallelOtherZero_residual1 a b) 0 ∧
      evalShape (shapeAt impl_parallelOtherZero_path 3) eps (impl_parallelOtherZero_residual2 a b) 0)) ∨
  (evalShape (shapeAt impl_parallelEqual_path 2) eps (impl_parallelEqual_residual0 a b) 0 ∧
    evalShape (shapeAt impl_parallelEqual_path 3) eps (impl_parallelEqual_residual1 a b) 0 ∧
    evalShape (shapeAt impl_parallelEqual_path 4) eps (impl_parallelEqual_residual2 a b) 0) ∨
  evalShape impl_parallel_shape eps (impl_parallel_residual a b) (impl_parallel_scale a b)

/-- **`parallelT` is the extracted decision of `Vector.parallel`**: (self zero ∨ other zero) ∨ equal ∨ final test, each
    with the recorded operands, shapes and scale, in the recorded order (`parallel_paths`, `parallel_pre_order`) -/
theorem parallelT_tie (eps : ℝ) (a b : R3) : parallelT eps a b ↔ parallelExtracted eps a.toRVec b.toRVec := by
  unfold parallelT parallelExtracted
  rw [← isZero_tie_self eps a b, ← isZero_tie_other eps a b, ← vecEq_tie eps a b, shapes_real.1,
    evalShape_absScaled, (parallel_operands a b).1, (parallel_operands a b).2]

/-- the final comparison alone, and that the shape on the path is the shape constant -/
theorem parallel_final_tie (eps : ℝ) (a b : R3) :
    (|(|dot a b|) - len a * len b| < eps * len a ↔
      evalShape (shapeAt impl_parallel_path 3) eps (impl_parallel_residual a.toRVec b.toRVec)
        (impl_parallel_scale a.toRVec b.toRVec)) ∧
    shapeAt impl_parallel_path 3 = impl_parallel_shape := by
  have hs : shapeAt impl_parallel_path 3 = impl_parallel_shape := by decide
  rw [hs, shapes_real.1, evalShape_absScaled, (parallel_operands a b).1, (parallel_operands a b).2]
  exact ⟨Iff.rfl, rfl⟩

/-! ## `Vector.orthogonal` (rational extraction) -/

theorem orthogonalT_tie_rat (eps : ℝ) (a b : V3) :
    orthogonalT eps (R3.ofV3 a) (R3.ofV3 b) ↔
      evalShape impl_orthogonal_shape eps ((impl_orthogonal_residual a b : ℚ) : ℝ) 0 := by
  rw [shapes_rat.2.1, evalShape_abs]
  unfold orthogonalT
  have : dot (R3.ofV3 a) (R3.ofV3 b) = ((impl_orthogonal_residual a b : ℚ) : ℝ) := by
    simp only [dot, ofV3_x, ofV3_y, ofV3_z, impl_orthogonal_residual]; push_cast; ring
  rw [this]

/-! ## `Line.__contains__(Point)` -/

/-- the recorded operands are those of `parallel` on `(x − sv, dv)` (the generated terms coincide syntactically) -/
theorem lineContains_operands (l : Line) (x : R3) :
    impl_lineContains_residual l.sv.toRVec l.dv.toRVec x.toRVec
      = |dot (sub x l.sv) l.dv| - len (sub x l.sv) * len l.dv ∧
    impl_lineContains_scale l.sv.toRVec l.dv.toRVec x.toRVec = len (sub x l.sv) := by
  obtain ⟨h1, h2⟩ := G3D.KTie.Kmember.lineContains_tie l.sv.toRVec l.dv.toRVec x.toRVec
  rw [h1, h2, ← toRVec_sub]
  exact parallel_operands (sub x l.sv) l.dv

/-- **`Line.containsT` is the extracted decision**: the shortcuts of `parallel` on `(x − sv, dv)`, then the recorded
    final test `evalShape impl_lineContains_shape eps impl_lineContains_residual impl_lineContains_scale` -/
theorem Line.containsT_tie (eps : ℝ) (l : Line) (x : R3) :
    Line.containsT eps l x ↔
      ((evalShape (shapeAt impl_parallelSelfZero_path 0) eps
            (impl_parallelSelfZero_residual0 (RVec.sub x.toRVec l.sv.toRVec) l.dv.toRVec) 0 ∧
          evalShape (shapeAt impl_parallelSelfZero_path 1) eps
            (impl_parallelSelfZero_residual1 (RVec.sub x.toRVec l.sv.toRVec) l.dv.toRVec) 0 ∧
          evalShape (shapeAt impl_parallelSelfZero_path 2) eps
            (impl_parallelSelfZero_residual2 (RVec.sub x.toRVec l.sv.toRVec) l.dv.toRVec) 0) ∨
        (evalShape (shapeAt impl_parallelOtherZero_path 1) eps
            (impl_parallelOtherZero_residual0 (RVec.sub x.toRVec l.sv.toRVec) l.dv.toRVec) 0 ∧
          evalShape (shapeAt impl_parallelOtherZero_path 2) eps
            (impl_parallelOtherZero_residual1 (RVec.sub x.toRVec l.sv.toRVec) l.dv.toRVec) 0 ∧
          evalShape (shapeAt impl_parallelOtherZero_path 3) eps
            (impl_parallelOtherZero_residual2 (RVec.sub x.toRVec l.sv.toRVec) l.dv.toRVec) 0)) ∨
      (evalShape (shapeAt impl_parallelEqual_path 2) eps
          (impl_parallelEqual_residual0 (RVec.sub x.toRVec l.sv.toRVec) l.dv.toRVec) 0 ∧
        evalShape (shapeAt impl_parallelEqual_path 3) eps
          (impl_parallelEqual_residual1 (RVec.sub x.toRVec l.sv.toRVec) l.dv.toRVec) 0 ∧
        evalShape (shapeAt impl_parallelEqual_path 4) eps
          (impl_parallelEqual_residual2 (RVec.sub x.toRVec l.sv.toRVec) l.dv.toRVec) 0) ∨
      evalShape impl_lineContains_shape eps (impl_lineContains_residual l.sv.toRVec l.dv.toRVec x.toRVec)
        (impl_lineContains_scale l.sv.toRVec l.dv.toRVec x.toRVec) := by
  unfold Line.containsT
  rw [parallelT_tie]
  unfold parallelExtracted
  rw [toRVec_sub, shapes_real.1, shapes_real.2.1]
  exact Iff.rfl

/-- `Line.eqT` is two extracted decisions: `Point(m.sv) in l` and `m.dv.parallel(l.dv)` -/
theorem Line.eqT_tie (eps : ℝ) (l m : Line) :
    Line.eqT eps l m ↔
      parallelExtracted eps (RVec.sub m.sv.toRVec l.sv.toRVec) l.dv.toRVec ∧
      parallelExtracted eps m.dv.toRVec l.dv.toRVec := by
  unfold Line.eqT Line.containsT
  rw [parallelT_tie, parallelT_tie, toRVec_sub]

/-! ## `Plane.__contains__(Point)` -/

/-- the normal STORED by the constructor: the generated `impl_planeCtor_n` (raw normal in, unit normal out) is the
    `n` field of `Plane.ofPN` -/
theorem planeCtor_tie (p r : R3) : impl_planeCtor_n p.toRVec r.toRVec = (Plane.ofPN p r).n.toRVec := by
  have : impl_planeCtor_n p.toRVec r.toRVec = impl_normalized r.toRVec := rfl
  rw [this, normalized_tie]; rfl

/-- **`Plane.containsT` on a plane as constructed** (`Plane.ofPN p r` stores `r/|r|`): the generated residual takes the
    RAW normal `r` and contains the normalisation, so the relation is
    `Plane.containsT eps (Plane.ofPN p r) x ↔ evalShape shape eps (impl_planeContainsN_residual p r x)` -/
theorem Plane.containsT_tie (eps : ℝ) (p r x : R3) :
    Plane.containsT eps (Plane.ofPN p r) x ↔
      evalShape impl_planeContainsN_shape eps (impl_planeContainsN_residual p.toRVec r.toRVec x.toRVec) 0 := by
  rw [shapes_real.2.2, evalShape_abs]
  unfold Plane.containsT Plane.ofPN
  have : impl_planeContainsN_residual p.toRVec r.toRVec x.toRVec
      = dot x (normalized r) - dot p (normalized r) := by
    simp only [impl_planeContainsN_residual, toRVec_x, toRVec_y, toRVec_z, sum0', dot, normalized, smul, len]
    ring
  rw [this]

/-- for an arbitrary stored pair `(p, n)` (what the rational extraction `impl_planeContains_residual` sees: the normal
    is used as stored), on casts of rational vectors -/
theorem Plane.containsT_tie_rat (eps : ℝ) (p n x : V3) :
    Plane.containsT eps ⟨R3.ofV3 p, R3.ofV3 n⟩ (R3.ofV3 x) ↔
      evalShape impl_planeContains_shape eps ((impl_planeContains_residual p n x : ℚ) : ℝ) 0 := by
  rw [shapes_rat.1, evalShape_abs]
  unfold Plane.containsT
  have : dot (R3.ofV3 x) (R3.ofV3 n) - dot (R3.ofV3 p) (R3.ofV3 n)
      = ((impl_planeContains_residual p n x : ℚ) : ℝ) := by
    simp only [dot, ofV3_x, ofV3_y, ofV3_z, impl_planeContains_residual]; push_cast; ring
  simp only
  rw [this]

/-- the relation between the two extractions: with a raw normal of length 1 nothing changes; in general the
    residual on the stored unit normal is the raw residual divided by `|r|` -/
theorem planeContainsN_vs_raw (p r x : R3) :
    impl_planeContainsN_residual p.toRVec r.toRVec x.toRVec = (dot x r - dot p r) / len r := by
  simp only [impl_planeContainsN_residual, toRVec_x, toRVec_y, toRVec_z, sum0', dot, len]
  ring

/-- `Plane.eqT` on planes as constructed: `self.p in other` is the extracted point test, `self.n.parallel(other.n)` the
    extracted `parallel` on the two STORED normals (`impl_planeCtor_n`) -/
theorem Plane.eqT_tie (eps : ℝ) (p r q s : R3) :
    Plane.eqT eps (Plane.ofPN p r) (Plane.ofPN q s) ↔
      evalShape impl_planeContainsN_shape eps (impl_planeContainsN_residual q.toRVec s.toRVec p.toRVec) 0 ∧
      parallelExtracted eps (impl_planeCtor_n p.toRVec r.toRVec) (impl_planeCtor_n q.toRVec s.toRVec) := by
  unfold Plane.eqT
  rw [Plane.containsT_tie, parallelT_tie, planeCtor_tie, planeCtor_tie]
  exact Iff.rfl

/-! ## `Segment.__contains__(Point)` -/

theorem segContains_operands (S : Segment) (x : R3) :
    impl_segContains_startDist S.s.toRVec S.e.toRVec x.toRVec = len (sub x S.s) ∧
    impl_segContains_rel S.s.toRVec S.e.toRVec x.toRVec = Segment.rel S x ∧
    impl_segContains_lineResidual S.s.toRVec S.e.toRVec x.toRVec
      = impl_lineContains_residual S.line.sv.toRVec S.line.dv.toRVec x.toRVec ∧
    impl_segContains_lineScale S.s.toRVec S.e.toRVec x.toRVec
      = impl_lineContains_scale S.line.sv.toRVec S.line.dv.toRVec x.toRVec := by
  refine ⟨?_, ?_, rfl, rfl⟩
  · simp only [impl_segContains_startDist, toRVec_x, toRVec_y, toRVec_z, len, dot, sub, zero_add]
  · simp only [impl_segContains_rel, toRVec_x, toRVec_y, toRVec_z, Segment.rel, len, dot, sub, zero_add]

/-- **`Segment.containsT` is the extracted decision.**  Recorded order (`impl_segContains_path`): the carrier-line test
    (entries 0-3: three failed shortcut tests, then `abs(R) < (eps * S)`), the start-distance test `R < eps` (entry 4),
    `R > -eps` (entry 5) and `R < (1 + eps)` (entry 6) on the relative length. -/
theorem Segment.containsT_tie (eps : ℝ) (S : Segment) (x : R3) :
    Segment.containsT eps S x ↔
      evalShape (shapeAt impl_segContains_path 4) eps (impl_segContains_startDist S.s.toRVec S.e.toRVec x.toRVec) 0 ∨
      (¬ evalShape (shapeAt impl_segContains_path 4) eps
            (impl_segContains_startDist S.s.toRVec S.e.toRVec x.toRVec) 0 ∧
        (Line.containsT eps S.line x ∧
          evalShape (shapeAt impl_segContains_path 5) eps (impl_segContains_rel S.s.toRVec S.e.toRVec x.toRVec) 0 ∧
          evalShape (shapeAt impl_segContains_path 6) eps (impl_segContains_rel S.s.toRVec S.e.toRVec x.toRVec) 0)) := by
  obtain ⟨h1, h2, _, _⟩ := segContains_operands S x
  have s4 : shapeAt impl_segContains_path 4 = "R < eps" := by decide
  have s5 : shapeAt impl_segContains_path 5 = "R > -eps" := by decide
  have s6 : shapeAt impl_segContains_path 6 = "R < (1 + eps)" := by decide
  rw [s4, s5, s6, evalShape_lt, evalShape_gtNeg, evalShape_ltOne, h1, h2]
  exact Iff.rfl

/-- … and its carrier-line test is the extracted one with the segment's own operands -/
theorem Segment.lineTest_tie (eps : ℝ) (S : Segment) (x : R3) :
    (|(|dot (sub x S.s) (sub S.e S.s)|) - len (sub x S.s) * len (sub S.e S.s)| < eps * len (sub x S.s) ↔
      evalShape (shapeAt impl_segContains_path 3) eps (impl_segContains_lineResidual S.s.toRVec S.e.toRVec x.toRVec)
        (impl_segContains_lineScale S.s.toRVec S.e.toRVec x.toRVec)) := by
  obtain ⟨_, _, h3, h4⟩ := segContains_operands S x
  have s3 : shapeAt impl_segContains_path 3 = "abs(R) < (eps * S)" := by decide
  obtain ⟨o1, o2⟩ := lineContains_operands S.line x
  rw [s3, evalShape_absScaled, h3, h4, o1, o2]
  exact Iff.rfl

/-! ## `HalfLine.__contains__(Point)` -/

/-- the carrier-line operand is that of `Line(p, v)`; the constructor's length is `|v|` -/
theorem halfLine_operands (H : HalfLine) (x : R3) :
    impl_halfLineContains_lineResidual H.p.toRVec H.v.toRVec x.toRVec
      = impl_lineContains_residual H.line.sv.toRVec H.line.dv.toRVec x.toRVec ∧
    impl_halfLineCtor_length H.p.toRVec H.v.toRVec = len H.v := by
  refine ⟨rfl, ?_⟩
  simp only [impl_halfLineCtor_length, toRVec_x, toRVec_y, toRVec_z, sum0', len]

/-- the projection operand (rational extraction), on casts -/
theorem halfLine_proj_tie (p v x : V3) :
    dot (sub (R3.ofV3 x) (R3.ofV3 p)) (R3.ofV3 v) = ((impl_halfLineContains_proj p v x : ℚ) : ℝ) := by
  simp only [dot, sub, ofV3_x, ofV3_y, ofV3_z, impl_halfLineContains_proj]; push_cast; ring

/-- **`HalfLine.containsT` is the extracted decision** (on casts of rational vectors, where the projection operand is
    extracted): carrier-line test (entries 0-3 of `impl_halfLineContains_path`), then `R > -eps` (entry 4, the shape
    constant) on the recorded projection -/
theorem HalfLine.containsT_tie (eps : ℝ) (p v x : V3) :
    HalfLine.containsT eps ⟨R3.ofV3 p, R3.ofV3 v⟩ (R3.ofV3 x) ↔
      Line.containsT eps ⟨R3.ofV3 p, R3.ofV3 v⟩ (R3.ofV3 x) ∧
      evalShape impl_halfLineContains_shape eps ((impl_halfLineContains_proj p v x : ℚ) : ℝ) 0 := by
  rw [shapes_rat.2.2, evalShape_gtNeg, ← halfLine_proj_tie]
  exact Iff.rfl

theorem halfLine_shape_on_path : shapeAt impl_halfLineContains_path 4 = impl_halfLineContains_shape ∧
    shapeAt impl_halfLineContains_path 3 = impl_lineContains_shape := by decide

/-- `HalfLine.__eq__`: the compared quantity is built from the extracted `normalized` and `length` -/
theorem HalfLine.eqT_tie (eps : ℝ) (H K : HalfLine) :
    HalfLine.eqT eps H K ↔
      vecEq eps H.p K.p ∧
      impl_length (RVec.sub (impl_normalized H.v.toRVec) (impl_normalized K.v.toRVec)) < eps := by
  rw [normalized_tie, normalized_tie, ← toRVec_sub, len_tie]
  exact Iff.rfl

end G3D.TolGeo
