import G3D.Proofs.Euler6

/-! # Euler's polyhedron formula, part 7: variants of the statement and concrete instances

    * `Eu.nodupB` : Bool judge of the additional hypothesis; `Polyhedron.euler_of_judges`
    * `Polyhedron.euler_of_exactHyp` : the statement for `ExactHyp` bodies with an interior point
    * the unit cube `cubeE`, a skew pyramid: hypotheses and counts by kernel evaluation
    * `Eu.doubleCube` : the face list of the cube repeated twice is `Valid` and `FaceLocal` but has
      `V - E + F = 8` — the hypothesis "every directed edge occurs once" cannot be dropped -/
namespace G3D
open V3

/-- Bool judge: every directed edge occurs once -/
def Eu.nodupB (B : Polyhedron) : Bool := decide (B.dirEdgesB.Nodup)

theorem Eu.nodup_of_B (B : Polyhedron) (h : Eu.nodupB B = true) : (dirEdges (B.faces.map (·.pts))).Nodup := by
  rw [← B.dirEdgesB_eq]; exact of_decide_eq_true h

/-- Euler's formula from the three Bool judges -/
theorem Polyhedron.euler_of_judges (B : Polyhedron) (h1 : B.validB = true) (h2 : B.faceLocalB = true)
    (h3 : Eu.nodupB B = true) :
    ((collectVerts B.faces).length : Int) - (edgesOf B.faces []).length + B.faces.length = 2 :=
  B.euler (B.valid_of_validB h1) (B.faceLocal_of_faceLocalB h2) (Eu.nodup_of_B B h3)

/-- Euler's formula for `ExactHyp` bodies with an interior point -/
theorem Polyhedron.euler_of_exactHyp (B : Polyhedron) (hE : B.ExactHyp) (ho : ∃ o : V3, ∀ f ∈ B.faces, f.side o < 0)
    (hnd : (dirEdges (B.faces.map (·.pts))).Nodup) :
    ((collectVerts B.faces).length : Int) - (edgesOf B.faces []).length + B.faces.length = 2 :=
  B.euler ⟨hE.proper.core.nonempty, hE.proper.core.faces_valid, hE.proper.core.center_in_plane,
    hE.proper.core.pts_sub, hE.proper.core.verts_inside, hE.proper.core.closed, ho⟩ hE.proper.faceLocal hnd

/-! ### the unit cube -/
example : cubeE.validB = true ∧ cubeE.faceLocalB = true ∧ Eu.nodupB cubeE = true ∧
    (collectVerts cubeE.faces).length = 8 ∧ (edgesOf cubeE.faces []).length = 12 ∧ cubeE.faces.length = 6 := by
  decide +kernel

theorem Eu.cubeE_euler :
    ((collectVerts cubeE.faces).length : Int) - (edgesOf cubeE.faces []).length + cubeE.faces.length = 2 :=
  cubeE.euler_of_judges (by decide +kernel) (by decide +kernel) (by decide +kernel)

/-! ### a skew pyramid: square base, apex off centre -/
def Eu.skewPyramid : Polyhedron := polyOfCycles
  [ [⟨0,0,0⟩, ⟨0,2,0⟩, ⟨2,2,0⟩, ⟨2,0,0⟩],
    [⟨0,2,0⟩, ⟨0,0,0⟩, ⟨1/2,1/3,3⟩], [⟨2,2,0⟩, ⟨0,2,0⟩, ⟨1/2,1/3,3⟩],
    [⟨2,0,0⟩, ⟨2,2,0⟩, ⟨1/2,1/3,3⟩], [⟨0,0,0⟩, ⟨2,0,0⟩, ⟨1/2,1/3,3⟩] ]

example : Eu.skewPyramid.validB = true ∧ Eu.skewPyramid.faceLocalB = true ∧ Eu.nodupB Eu.skewPyramid = true ∧
    (collectVerts Eu.skewPyramid.faces).length = 5 ∧ (edgesOf Eu.skewPyramid.faces []).length = 8 ∧
    Eu.skewPyramid.faces.length = 5 := by
  decide +kernel

theorem Eu.skewPyramid_euler :
    ((collectVerts Eu.skewPyramid.faces).length : Int) - (edgesOf Eu.skewPyramid.faces []).length +
      Eu.skewPyramid.faces.length = 2 :=
  Eu.skewPyramid.euler_of_judges (by decide +kernel) (by decide +kernel) (by decide +kernel)

/-! ### the additional hypothesis is necessary -/
/-- the unit cube with its face list repeated twice -/
def Eu.doubleCube : Polyhedron := { unitCube with faces := unitCube.faces ++ unitCube.faces }

/-- `Valid` and `FaceLocal` alone do not imply Euler's formula -/
theorem Eu.doubleCube_counterexample :
    Eu.doubleCube.Valid ∧ Eu.doubleCube.FaceLocal ∧ Eu.nodupB Eu.doubleCube = false ∧
    ((collectVerts Eu.doubleCube.faces).length : Int) - (edgesOf Eu.doubleCube.faces []).length +
      Eu.doubleCube.faces.length = 8 := by
  refine ⟨Eu.doubleCube.valid_of_validB (by decide +kernel),
    Eu.doubleCube.faceLocal_of_faceLocalB (by decide +kernel), by decide +kernel, by decide +kernel⟩

/-! ### the additional hypothesis from "different entries of the face list have different hulls" -/

/-- two faces of a valid `FaceLocal` body with a common DIRECTED edge have the same hull
    (`K4.FacetBody.edge_unique` for `Valid ∧ FaceLocal` bodies) -/
theorem Eu.edge_unique (B : Polyhedron) (hV : B.Valid) (hloc : B.FaceLocal) (h1 h2 : Polygon)
    (hh1 : h1 ∈ B.faces) (hh2 : h2 ∈ B.faces) (e : V3 × V3) (he1 : e ∈ closedPairs h1.pts)
    (he2 : e ∈ closedPairs h2.pts) : ∀ x, InHull h1.pts x ↔ InHull h2.pts x := by
  have hP := hV.proper hloc
  have hv1 := hV.faces_valid h1 hh1
  have hv2 := hV.faces_valid h2 hh2
  have vert : ∀ h ∈ B.faces, ∀ v ∈ h.pts, B.contains v = true ∧ h.side v = 0 := fun h hh v hv =>
    ⟨hP.face_sub h hh v (vertex_in_hull _ _ hv), hP.side_of_face h hh v (vertex_in_hull _ _ hv)⟩
  have inner : ∀ h ∈ B.faces, ∀ x, B.contains x = true → h.side x ≤ 0 := fun h hh x hx =>
    (B.contains_iff_side x).mp hx h hh
  have hne := hv1.edges_distinct e he1
  have m1 := closedPairs_mem h1.pts e he1
  have m2 := closedPairs_mem h2.pts e he2
  have h1a := (vert h1 hh1 _ m1.1).2
  have h1b := (vert h1 hh1 _ m1.2).2
  have h2a := (vert h2 hh2 _ m2.1).2
  have h2b := (vert h2 hh2 _ m2.2).2
  have hu : sub e.2 e.1 ≠ zero := fun h => hne (sub_eq_zero_iff.mp h).symm
  have hU := normSq_pos hu
  have hn1 : h1.plane.n ≠ zero := Polygon.plane_WF h1 hv1
  have hn2 : h2.plane.n ≠ zero := Polygon.plane_WF h2 hv2
  have hN1 := normSq_pos hn1
  have hN2 := normSq_pos hn2
  obtain ⟨v1, hv1m, ho1⟩ := K4.third_vertex h1 hv1 e he1
  obtain ⟨v2, hv2m, ho2⟩ := K4.third_vertex h2 hv2 e he2
  have f1 := vert h1 hh1 v1 hv1m
  have f2 := vert h2 hh2 v2 hv2m
  have e1 := K4.side_via_orient h1 h2 e.1 e.2 v1 h1a h1b h2a h2b f1.2
  have e2 := K4.side_via_orient h2 h1 e.1 e.2 v2 h2a h2b h1a h1b f2.2
  have i1 := inner h2 hh2 v1 f1.1
  have i2 := inner h1 hh1 v2 f2.1
  rw [K4.triple_swap] at e2
  have hD : dot h2.plane.n (cross h1.plane.n (sub e.2 e.1)) = 0 := by
    have a1 : dot h2.plane.n (cross h1.plane.n (sub e.2 e.1)) * orient h1.plane.n e.1 e.2 v1 ≤ 0 := by
      rw [← e1]; exact mul_nonpos_of_nonneg_of_nonpos (le_of_lt (mul_pos hN1 hU)) i1
    have a2 : - dot h2.plane.n (cross h1.plane.n (sub e.2 e.1)) * orient h2.plane.n e.1 e.2 v2 ≤ 0 := by
      rw [← e2]; exact mul_nonpos_of_nonneg_of_nonpos (le_of_lt (mul_pos hN2 hU)) i2
    have b1 : dot h2.plane.n (cross h1.plane.n (sub e.2 e.1)) ≤ 0 := by
      by_contra hpos; have := mul_pos (not_le.mp hpos) ho1; linarith
    have b2 : 0 ≤ dot h2.plane.n (cross h1.plane.n (sub e.2 e.1)) := by
      by_contra hneg
      have : 0 < - dot h2.plane.n (cross h1.plane.n (sub e.2 e.1)) := by linarith [not_le.mp hneg]
      have := mul_pos this ho2; linarith
    linarith
  have hc := K4.cross_zero_of_perp h1.plane.n h2.plane.n (sub e.2 e.1) hu
    (by rw [K4.side_diff, h1a, h1b]; ring) (by rw [K4.side_diff, h2a, h2b]; ring) hD
  obtain ⟨l, _, hside⟩ := K4.side_prop_of_cross_zero h1 h2 e.1 h1a h2a hn1 hc
  obtain ⟨o, ho⟩ := hV.interior
  have s1 := ho h1 hh1
  have s2 := ho h2 hh2
  rw [hside] at s2
  have hl0 : l ≠ 0 := by rintro rfl; simp at s2
  intro x
  rw [hP.face_iff h1 hh1 x, hP.face_iff h2 hh2 x, hside]
  constructor
  · rintro ⟨hk, h0⟩; exact ⟨hk, by rw [h0]; ring⟩
  · rintro ⟨hk, h0⟩; exact ⟨hk, (mul_eq_zero.mp h0).resolve_left hl0⟩

/-- if different entries of the face list have different hulls, every directed edge occurs once -/
theorem Eu.nodup_of_distinct (B : Polyhedron) (hV : B.Valid) (hloc : B.FaceLocal)
    (hdist : B.faces.Pairwise (fun h1 h2 => ¬ ∀ x, InHull h1.pts x ↔ InHull h2.pts x)) :
    (dirEdges (B.faces.map (·.pts))).Nodup := by
  rw [K4.FacetBody.dirEdges_eq, List.nodup_flatMap]
  refine ⟨fun h hh => K4.closedPairs_nodup h.pts (hV.faces_valid h hh).nodup, ?_⟩
  refine List.Pairwise.imp_of_mem ?_ hdist
  intro h1 h2 hh1 hh2 hne
  simp only [Function.onFun]
  intro e he1 he2
  exact hne (Eu.edge_unique B hV hloc h1 h2 hh1 hh2 e he1 he2)

/-- **Euler's formula**, geometric form of the additional hypothesis: no two entries of the face list are the same
    facet -/
theorem Polyhedron.euler_of_distinct (B : Polyhedron) (hV : B.Valid) (hloc : B.FaceLocal)
    (hdist : B.faces.Pairwise (fun h1 h2 => ¬ ∀ x, InHull h1.pts x ↔ InHull h2.pts x)) :
    ((collectVerts B.faces).length : Int) - (edgesOf B.faces []).length + B.faces.length = 2 :=
  B.euler hV hloc (Eu.nodup_of_distinct B hV hloc hdist)
#print axioms Polyhedron.euler_of_distinct
#print axioms Eu.doubleCube_counterexample
#print axioms Eu.cubeE_euler

end G3D
