import G3D.Extracted.Mflat
import G3D.Proofs.MethodsTieBase
import G3D.Proofs.Equality
/-! # Tie, group `mflat`, role EQUALITY (C08): `__eq__` of Line, Plane, Segment, HalfLine = `Line.eqv`, `Plane.eqv`, `Seg.same`, `HalfLine.eqv`.
    Conventions, trusted readings and the deviations found: `G3D.Proofs.MethodsTie`, header of `G3D.Model.PyRtM`. -/
set_option linter.unusedSimpArgs false
set_option linter.unusedVariables false
set_option linter.style.nameCheck false
set_option linter.unusedTactic false
set_option linter.unreachableTactic false
namespace G3D.Tie
open V3 PyRt Extracted

theorem m_Line___eq___eq (l o : Line) :
    m_Line___eq__ (Self.ofLine l) (.obj (lnObj o)) = .ok (.bool (l.eqv o)) := by
  unfold m_Line___eq__
  msimp [Line.eqv]

theorem m_Line___eq___other (l : Line) (a : Plane) :
    m_Line___eq__ (Self.ofLine l) (.obj (plObj a)) = .ok (.bool false) := by
  unfold m_Line___eq__
  msimp

theorem m_Plane___eq___eq (a b : Plane) :
    m_Plane___eq__ (Self.ofPlane a) (.obj (plObj b)) = .ok (.bool (a.eqv b)) := by
  unfold m_Plane___eq__
  msimp [Plane.eqv]

theorem m_Plane___eq___other (a : Plane) (l : Line) :
    m_Plane___eq__ (Self.ofPlane a) (.obj (lnObj l)) = .ok (.bool false) := by
  unfold m_Plane___eq__
  msimp

theorem m_Segment___eq___eq (s o : Seg) :
    m_Segment___eq__ (Self.ofSeg s) (.obj (sgObj o)) = .ok (.bool (s.same o)) := by
  unfold m_Segment___eq__
  msimp [Seg.same]

theorem m_HalfLine___eq___raw (h o : HalfLine) :
    m_HalfLine___eq__ (Self.ofHalfLine h) (.obj (.flat (.halfline o))) =
      if h.p = o.p then
        (if h.v = zero ∨ o.v = zero then .error (.ctor .zeroDiv)
         else .ok (.bool (V3.parallel h.v o.v && decide (0 < dot h.v o.v))))
      else .ok (.bool false) := by
  unfold m_HalfLine___eq__
  msimp

theorem m_HalfLine___eq___eq (h o : HalfLine) (hh : h.v ≠ zero) (ho : o.v ≠ zero) :
    m_HalfLine___eq__ (Self.ofHalfLine h) (.obj (.flat (.halfline o))) = .ok (.bool (h.eqv o)) := by
  rw [m_HalfLine___eq___raw]
  by_cases hp : h.p = o.p <;> simp [hp, hh, ho, HalfLine.eqv, Bool.and_assoc]

end G3D.Tie
