import G3D.Model.Move
import G3D.Proofs.Polyhedron
import G3D.Proofs.Equality

namespace G3D
open V3

/-! ### C07, flat types -/
theorem Seg.move_WF (s : Seg) (hs : s.WF) (v : V3) : (s.move v).1.WF ∧ (s.move v).2 = (s.move v).1 := by
  refine ⟨Seg.mk'_WF ?_, rfl⟩
  intro h
  apply hs.1
  have hx := congrArg V3.x h; have hy := congrArg V3.y h; have hz := congrArg V3.z h
  simp only [add] at hx hy hz
  apply V3.ext' <;> linarith

/-- the moved receiver IS the freshly constructed object at the translated position -/
theorem Seg.move_eq_fresh (s : Seg) (v : V3) : (s.move v).1 = Seg.mk' (add s.a v) (add s.b v) := rfl
theorem HalfLine.move_eq_fresh (h : HalfLine) (v : V3) : (h.move v).1 = HalfLine.mk' (add h.p v) h.v := rfl

theorem Seg.move_den (s : Seg) (v x : V3) : (s.move v).1.den (add x v) ↔ s.den x := by
  simp only [Seg.move, Seg.mk', Seg.den]
  constructor
  · rintro ⟨t, h0, h1, h⟩
    refine ⟨t, h0, h1, ?_⟩
    have hx := congrArg V3.x h; have hy := congrArg V3.y h; have hz := congrArg V3.z h
    simp only [add, smul, sub] at hx hy hz
    apply V3.ext' <;> simp only [add, smul, sub] <;> linarith
  · rintro ⟨t, h0, h1, rfl⟩
    exact ⟨t, h0, h1, by apply V3.ext' <;> simp only [add, smul, sub] <;> ring⟩

theorem Seg.move_back (s : Seg) (hs : s.WF) (v : V3) : ((s.move v).1.move (neg v)).1 = s := by
  obtain ⟨_, hl⟩ := hs
  have ha : add (add s.a v) (neg v) = s.a := by apply V3.ext' <;> simp [add, neg]
  have hb : add (add s.b v) (neg v) = s.b := by apply V3.ext' <;> simp [add, neg]
  simp only [Seg.move, Seg.mk', ha, hb]
  cases s; simp_all

/-- histories: after any list of moves the receiver is the fresh segment at the total translation -/
theorem Seg.moves_fold (s : Seg) (vs : List V3) :
    (vs.foldl (fun r v => (r.move v).1) s).a = add s.a (vs.foldl add zero) ∧
    (vs.foldl (fun r v => (r.move v).1) s).b = add s.b (vs.foldl add zero) := by
  suffices h : ∀ (acc : V3) (r : Seg), (vs.foldl (fun r v => (r.move v).1) r).a = add r.a (sub (vs.foldl add acc) acc) ∧
      (vs.foldl (fun r v => (r.move v).1) r).b = add r.b (sub (vs.foldl add acc) acc) by
    have := h zero s
    constructor
    · rw [this.1]; congr 1; apply V3.ext' <;> simp [sub, zero]
    · rw [this.2]; congr 1; apply V3.ext' <;> simp [sub, zero]
  induction vs with
  | nil => intro acc r; constructor <;> (apply V3.ext' <;> simp [add, sub])
  | cons v vs ih =>
    intro acc r
    simp only [List.foldl_cons]
    have := ih (add acc v) (r.move v).1
    constructor
    · rw [this.1]; simp only [Seg.move, Seg.mk']
      have e : vs.foldl add (add acc v) = vs.foldl add (add acc v) := rfl
      apply V3.ext' <;> simp only [add, sub] <;> ring
    · rw [this.2]; simp only [Seg.move, Seg.mk']
      apply V3.ext' <;> simp only [add, sub] <;> ring

/-- D2: on the pinned tree the invariant is lost (witness checked by evaluation) -/
theorem Seg.movePinned_breaks_WF :
    ∃ s : Seg, s.WF ∧ ∃ v, ¬ (s.movePinned v).1.WF := by
  refine ⟨Seg.mk' ⟨0,0,0⟩ ⟨1,0,0⟩, Seg.mk'_WF (by decide), ⟨0,1,0⟩, ?_⟩
  intro h
  have := h.2
  simp only [Seg.movePinned, Seg.mk'] at this
  have hy := congrArg (fun l : Line => l.sv.y) this
  simp [add] at hy

/-! ### C15, constructors never return an object violating its invariant -/
theorem Line.mk?_ok (a dv : V3) (l : Line) (h : Line.mk? a dv = .ok l) : l.WF := by
  unfold Line.mk? at h; split at h
  · cases h
  · rename_i hne; cases h; exact hne
theorem Line.mk?_rejects (a : V3) : Line.mk? a zero = .error .value := by simp [Line.mk?]
theorem Line.ofPoints?_rejects (a : V3) : Line.ofPoints? a a = .error .value := by
  have : sub a a = zero := by apply V3.ext' <;> simp [sub, zero]
  simp [Line.ofPoints?, Line.mk?, this]
theorem Seg.mk?_ok (a b : V3) (s : Seg) (h : Seg.mk? a b = .ok s) : s.WF := by
  unfold Seg.mk? at h; split at h
  · cases h
  · rename_i hne; cases h; exact Seg.mk'_WF hne
theorem Seg.mk?_rejects (a : V3) : Seg.mk? a a = .error .value := by simp [Seg.mk?]
theorem HalfLine.mk?_ok (a b : V3) (hl : HalfLine) (h : HalfLine.mk? a b = .ok hl) : hl.WF := by
  unfold HalfLine.mk? at h; split at h
  · cases h
  · rename_i hne; cases h
    exact ⟨fun h0 => hne (sub_eq_zero_iff.mp h0).symm, rfl⟩
theorem Polygon.mk?_rejects_short (l : List V3) (h : l.length < 3) : Polygon.mk? l = .error .value := by
  simp [Polygon.mk?, h]

/-! ### C05, composite membership: by convexity of the container -/
theorem Line.den_convex (l : Line) (x y : V3) (t : Rat) (hx : l.den x) (hy : l.den y) :
    l.den (add x (smul t (sub y x))) := by
  obtain ⟨a, rfl⟩ := hx; obtain ⟨b, rfl⟩ := hy
  exact ⟨a + t * (b - a), by apply V3.ext' <;> simp only [add, smul, sub] <;> ring⟩

theorem Line.containsSeg_iff (l : Line) (hl : l.WF) (s : Seg) :
    l.containsSeg s = true ↔ ∀ x, s.den x → l.den x := by
  unfold Line.containsSeg
  rw [Bool.and_eq_true, Line.contains_iff l hl, Line.contains_iff l hl]
  constructor
  · rintro ⟨ha, hb⟩ x ⟨t, _, _, rfl⟩; exact Line.den_convex l _ _ t ha hb
  · intro h; exact ⟨h _ s.den_endpoints.1, h _ s.den_endpoints.2⟩

theorem Plane.containsSeg_iff (p : Plane) (s : Seg) :
    p.containsSeg s = true ↔ ∀ x, s.den x → p.den x := by
  unfold Plane.containsSeg
  rw [Bool.and_eq_true, Plane.contains_iff, Plane.contains_iff]
  constructor
  · rintro ⟨ha, hb⟩ x ⟨t, _, _, rfl⟩
    simp only [Plane.den, dot, sub, add, smul] at *
    linear_combination (1 - t) * ha + t * hb
  · intro h; exact ⟨h _ s.den_endpoints.1, h _ s.den_endpoints.2⟩

theorem Polygon.containsSeg_iff (P : Polygon) (hv : P.Valid) (s : Seg) :
    P.containsSeg s = true ↔ ∀ x, s.den x → InHull P.pts x := by
  unfold Polygon.containsSeg
  rw [Bool.and_eq_true, Polygon.contains_iff P hv, Polygon.contains_iff P hv]
  constructor
  · rintro ⟨ha, hb⟩ x ⟨t, h0, h1, rfl⟩; exact ha.convex hb t h0 h1
  · intro h; exact ⟨h _ s.den_endpoints.1, h _ s.den_endpoints.2⟩
#print axioms Seg.moves_fold
#print axioms Polygon.containsSeg_iff
end G3D
