import G3D.Proofs.AlgebraEuler
import G3D.Proofs.Euler6

/-! `EulerAll` — the hypothesis under which C03 / C04 / C12 were stated for all seven types — is a theorem:
    Euler's polyhedron formula is proved for the face complex assembled by polyhedron × polyhedron (`Proofs/Euler1–6.lean`). -/
namespace G3D
theorem eulerAll : EulerAll := fun _ _ hA hB _ hp h2 => K4.eulerOf_parts hA hB hp h2
#print axioms eulerAll
end G3D
