import G3D.Model.Move2
import G3D.Proofs.Move
import G3D.Proofs.Measure
import G3D.Proofs.Volume
import G3D.Proofs.Construct
import Mathlib.Tactic.Ring
import Mathlib.Tactic.Linarith
import Mathlib.Tactic.LinearCombination
import Mathlib.Tactic.FieldSimp

/-! C07 continued: `move` on Point / Line / Plane / HalfLine (WF, denotation, round trip, histories)
    and on ConvexPolygon (vertex list, validity w.r.t. the RECOMPUTED normal, hull, measures). -/
namespace G3D
open V3

/-! ### translation lemmas -/
theorem sub_add_add (a b v : V3) : sub (add a v) (add b v) = sub a b := by
  apply V3.ext' <;> simp only [add, sub] <;> ring

theorem add_neg_cancel_right' (a v : V3) : add (add a v) (neg v) = a := by
  apply V3.ext' <;> simp only [add, neg] <;> ring

theorem add_assoc' (a v w : V3) : add (add a v) w = add a (add v w) := by
  apply V3.ext' <;> simp only [add] <;> ring

theorem add_zero' (a : V3) : add a zero = a := by
  apply V3.ext' <;> simp [add, zero]

theorem zero_add' (a : V3) : add zero a = a := by
  apply V3.ext' <;> simp [add, zero]

theorem add_right_cancel' {a b v : V3} (h : add a v = add b v) : a = b := by
  have hx := congrArg V3.x h; have hy := congrArg V3.y h; have hz := congrArg V3.z h
  simp only [add] at hx hy hz
  apply V3.ext' <;> linarith

theorem add_right_inj' {a b v : V3} : add a v = add b v ↔ a = b :=
  ⟨add_right_cancel', fun h => by rw [h]⟩

/-- total translation of a history, in the two forms used by the fold theorems -/
theorem foldl_add_zero (vs : List V3) : vs.foldl add zero = vsum vs := by
  rw [foldl_add_eq, zero_add']

theorem orient_translate (n a b c v : V3) :
    orient n (add a v) (add b v) (add c v) = orient n a b c := by
  simp only [orient, sub_add_add]

theorem orient_smul (k : Rat) (n a b c : V3) : orient (smul k n) a b c = k * orient n a b c := by
  simp only [orient, dot, cross, sub, smul]; ring

theorem orient_eq_dot_cross (n a b c : V3) : orient n a b c = dot n (cross (sub b a) (sub c a)) := rfl

theorem comb_translate (v : V3) : ∀ (ws : List Rat) (ps : List V3), ws.length = ps.length →
    comb ws (ps.map (fun p => add p v)) = add (comb ws ps) (smul ws.sum v) := by
  intro ws
  induction ws with
  | nil =>
    intro ps h; cases ps
    · apply V3.ext' <;> simp [comb, add, smul, zero]
    · simp at h
  | cons w ws ih =>
    intro ps h
    cases ps with
    | nil => simp at h
    | cons p ps =>
      simp only [List.map_cons, comb, List.sum_cons, ih ps (by simpa using h)]
      apply V3.ext' <;> simp only [add, smul] <;> ring

/-- affine combinations commute with translations -/
theorem comb_translate_one (v : V3) (ws : List Rat) (ps : List V3) (hl : ws.length = ps.length)
    (hs : ws.sum = 1) : comb ws (ps.map (fun p => add p v)) = add (comb ws ps) v := by
  rw [comb_translate v ws ps hl, hs]
  congr 1
  apply V3.ext' <;> simp [smul]

theorem InHull_translate (ps : List V3) (v x : V3) :
    InHull (ps.map (fun p => add p v)) (add x v) ↔ InHull ps x := by
  constructor
  · rintro ⟨ws, hl, hnn, hs, hc⟩
    have hl' : ws.length = ps.length := by simpa using hl
    refine ⟨ws, hl', hnn, hs, ?_⟩
    rw [comb_translate_one v ws ps hl' hs] at hc
    exact add_right_cancel' hc
  · rintro ⟨ws, hl, hnn, hs, hc⟩
    refine ⟨ws, by simpa using hl, hnn, hs, ?_⟩
    rw [comb_translate_one v ws ps hl hs, hc]

theorem consec_map (f : V3 → V3) : ∀ l : List V3,
    consec (l.map f) = (consec l).map (fun e => (f e.1, f e.2)) := by
  intro l
  induction l with
  | nil => simp [consec]
  | cons a l ih =>
    cases l with
    | nil => simp [consec]
    | cons b l =>
      simp only [List.map_cons, consec] at ih ⊢
      rw [ih]

theorem closedPairs_map (f : V3 → V3) (l : List V3) :
    closedPairs (l.map f) = (closedPairs l).map (fun e => (f e.1, f e.2)) := by
  cases l with
  | nil => simp [closedPairs]
  | cons p ps =>
    simp only [List.map_cons, closedPairs]
    rw [← consec_map f (p :: ps ++ [p])]
    simp

/-- positivity of all ordered triples is transported along any map that preserves positive orientation -/
theorem triplesPos_map (f : V3 → V3) (n n' : V3)
    (h : ∀ a b c, 0 < orient n a b c → 0 < orient n' (f a) (f b) (f c)) :
    ∀ l : List V3, triplesPos n l → triplesPos n' (l.map f) := by
  intro l
  induction l with
  | nil => intro _; trivial
  | cons a l ih =>
    intro htp
    refine ⟨?_, ih htp.2⟩
    intro b' c' hs
    obtain ⟨l', hl', hm⟩ := List.sublist_map_iff.mp hs
    match l', hl', hm with
    | [b, c], hl', hm =>
      simp only [List.map_cons, List.map_nil, List.cons.injEq, and_true] at hm
      obtain ⟨rfl, rfl⟩ := hm
      exact h a b c (htp.1 b c hl')

theorem vsum_map_add (v : V3) (l : List V3) :
    vsum (l.map (fun p => add p v)) = add (vsum l) (smul (l.length : Rat) v) := by
  induction l with
  | nil => simp only [List.map_nil, vsum_nil, List.length_nil]; apply V3.ext' <;> simp [add, smul, zero]
  | cons a l ih =>
    rw [List.map_cons, vsum_cons, ih, vsum_cons]
    apply V3.ext' <;> simp only [add, smul, List.length_cons] <;> push_cast <;> ring

/-- the vertex mean commutes with translations (`_get_center_point`) -/
theorem meanV_translate (v : V3) (l : List V3) (hl : l ≠ []) :
    meanV (l.map (fun p => add p v)) = add (meanV l) v := by
  have hpos : (l.length : Rat) ≠ 0 := by
    have : 0 < l.length := List.length_pos_of_ne_nil hl
    exact_mod_cast (Nat.pos_iff_ne_zero.mp this)
  unfold meanV
  rw [sumV_eq_vsum, sumV_eq_vsum, vsum_map_add, List.length_map]
  apply V3.ext' <;> simp only [add, smul] <;> field_simp

/-! ### generic histories -/
/-- if (on an invariant class) moving twice is moving by the sum, a history of moves is one move by
    the total -/
theorem fold_moves {X : Type} (mv : X → V3 → X) (inv : X → Prop)
    (hmm : ∀ x v w, inv x → mv (mv x v) w = mv x (add v w)) :
    ∀ (vs : List V3) (x : X) (v : V3), inv x → vs.foldl mv (mv x v) = mv x (add v (vsum vs)) := by
  intro vs
  induction vs with
  | nil => intro x v _; simp only [List.foldl_nil, vsum_nil, add_zero']
  | cons w vs ih =>
    intro x v hx
    rw [List.foldl_cons, hmm x v w hx, ih x _ hx, vsum_cons, add_assoc']

theorem fold_moves' {X : Type} (mv : X → V3 → X) (hmm : ∀ x v w, mv (mv x v) w = mv x (add v w))
    (x : X) (h0 : mv x zero = x) (vs : List V3) : vs.foldl mv x = mv x (vs.foldl add zero) := by
  have := fold_moves mv (fun _ => True) (fun x v w _ => hmm x v w) vs x zero trivial
  rw [h0, zero_add'] at this
  rw [this, foldl_add_zero]

/-! ### Point -/
theorem Point.move_returned_eq_receiver (p v : V3) : (Point.move p v).2 = (Point.move p v).1 := rfl
/-- a point denotes the singleton `{p}` -/
theorem Point.move_den (p v x : V3) : add x v = (Point.move p v).1 ↔ x = p := by
  simp only [Point.move]; exact add_right_inj'
theorem Point.move_move (p v w : V3) : (Point.move (Point.move p v).1 w).1 = (Point.move p (add v w)).1 :=
  add_assoc' p v w
theorem Point.move_zero (p : V3) : (Point.move p zero).1 = p := add_zero' p
theorem Point.move_back (p v : V3) : (Point.move (Point.move p v).1 (neg v)).1 = p :=
  add_neg_cancel_right' p v
theorem Point.moves_fold (p : V3) (vs : List V3) :
    vs.foldl (fun r v => (Point.move r v).1) p = (Point.move p (vs.foldl add zero)).1 :=
  fold_moves' (fun r v => (Point.move r v).1) Point.move_move p (Point.move_zero p) vs

/-! ### Line -/
theorem Line.move_returned_eq_receiver (l : Line) (v : V3) : (l.move v).2 = (l.move v).1 := rfl
theorem Line.move_WF (l : Line) (hl : l.WF) (v : V3) : (l.move v).1.WF ∧ (l.move v).2 = (l.move v).1 :=
  ⟨hl, rfl⟩
theorem Line.move_den (l : Line) (v x : V3) : (l.move v).1.den (add x v) ↔ l.den x := by
  simp only [Line.move, Line.den]
  constructor
  · rintro ⟨t, h⟩
    refine ⟨t, ?_⟩
    have hx := congrArg V3.x h; have hy := congrArg V3.y h; have hz := congrArg V3.z h
    simp only [add, smul] at hx hy hz
    apply V3.ext' <;> simp only [add, smul] <;> linarith
  · rintro ⟨t, rfl⟩
    exact ⟨t, by apply V3.ext' <;> simp only [add, smul] <;> ring⟩
theorem Line.move_move (l : Line) (v w : V3) : ((l.move v).1.move w).1 = (l.move (add v w)).1 := by
  simp only [Line.move, add_assoc']
theorem Line.move_zero (l : Line) : (l.move zero).1 = l := by
  simp only [Line.move, add_zero']
theorem Line.move_back (l : Line) (v : V3) : ((l.move v).1.move (neg v)).1 = l := by
  simp only [Line.move, add_neg_cancel_right']
theorem Line.moves_fold (l : Line) (vs : List V3) :
    vs.foldl (fun r v => (r.move v).1) l = (l.move (vs.foldl add zero)).1 :=
  fold_moves' (fun r v => (Line.move r v).1) Line.move_move l l.move_zero vs

/-! ### Plane -/
theorem Plane.move_returned_eq_receiver (p : Plane) (v : V3) : (p.move v).2 = (p.move v).1 := rfl
theorem Plane.move_WF (p : Plane) (hp : p.WF) (v : V3) : (p.move v).1.WF ∧ (p.move v).2 = (p.move v).1 :=
  ⟨hp, rfl⟩
theorem Plane.move_den (p : Plane) (v x : V3) : (p.move v).1.den (add x v) ↔ p.den x := by
  simp only [Plane.move, Plane.den, sub_add_add]
theorem Plane.move_move (p : Plane) (v w : V3) : ((p.move v).1.move w).1 = (p.move (add v w)).1 := by
  simp only [Plane.move, add_assoc']
theorem Plane.move_zero (p : Plane) : (p.move zero).1 = p := by
  simp only [Plane.move, add_zero']
theorem Plane.move_back (p : Plane) (v : V3) : ((p.move v).1.move (neg v)).1 = p := by
  simp only [Plane.move, add_neg_cancel_right']
theorem Plane.moves_fold (p : Plane) (vs : List V3) :
    vs.foldl (fun r v => (r.move v).1) p = (p.move (vs.foldl add zero)).1 :=
  fold_moves' (fun r v => (Plane.move r v).1) Plane.move_move p p.move_zero vs

/-! ### HalfLine (cached carrier line rebuilt, as for Segment) -/
theorem HalfLine.move_returned_eq_receiver (h : HalfLine) (v : V3) : (h.move v).2 = (h.move v).1 := rfl
theorem HalfLine.move_WF (h : HalfLine) (hh : h.WF) (v : V3) :
    (h.move v).1.WF ∧ (h.move v).2 = (h.move v).1 :=
  ⟨⟨hh.1, rfl⟩, rfl⟩
theorem HalfLine.move_den (h : HalfLine) (v x : V3) : (h.move v).1.den (add x v) ↔ h.den x := by
  simp only [HalfLine.move, HalfLine.mk', HalfLine.den]
  constructor
  · rintro ⟨t, h0, he⟩
    refine ⟨t, h0, ?_⟩
    have hx := congrArg V3.x he; have hy := congrArg V3.y he; have hz := congrArg V3.z he
    simp only [add, smul] at hx hy hz
    apply V3.ext' <;> simp only [add, smul] <;> linarith
  · rintro ⟨t, h0, rfl⟩
    exact ⟨t, h0, by apply V3.ext' <;> simp only [add, smul] <;> ring⟩
/-- the carrier line moves with the half-line (this is what the pinned `Segment.move` got wrong) -/
theorem HalfLine.move_line (h : HalfLine) (hh : h.WF) (v : V3) : (h.move v).1.line = (h.line.move v).1 := by
  simp only [HalfLine.move, HalfLine.mk', Line.move, hh.2]
theorem HalfLine.move_move (h : HalfLine) (v w : V3) : ((h.move v).1.move w).1 = (h.move (add v w)).1 := by
  simp only [HalfLine.move, HalfLine.mk', add_assoc']
theorem HalfLine.move_zero (h : HalfLine) (hh : h.WF) : (h.move zero).1 = h := by
  obtain ⟨_, hl⟩ := hh
  simp only [HalfLine.move, HalfLine.mk', add_zero']
  cases h; simp_all
theorem HalfLine.move_back (h : HalfLine) (hh : h.WF) (v : V3) : ((h.move v).1.move (neg v)).1 = h := by
  rw [HalfLine.move_move]
  have : add v (neg v) = zero := by apply V3.ext' <;> simp [add, neg, zero]
  rw [this, HalfLine.move_zero h hh]
theorem HalfLine.moves_fold (h : HalfLine) (hh : h.WF) (vs : List V3) :
    vs.foldl (fun r v => (r.move v).1) h = (h.move (vs.foldl add zero)).1 :=
  fold_moves' (fun r v => (HalfLine.move r v).1) HalfLine.move_move h (h.move_zero hh) vs

/-! ### Segment: the missing pieces (exact-equality history, carrier line, length) -/
theorem Seg.move_returned_eq_receiver (s : Seg) (v : V3) : (s.move v).2 = (s.move v).1 := rfl
theorem Seg.move_line (s : Seg) (hs : s.WF) (v : V3) : (s.move v).1.line = (s.line.move v).1 := by
  simp only [Seg.move, Seg.mk', Line.move, hs.2, sub_add_add]
theorem Seg.move_move (s : Seg) (v w : V3) : ((s.move v).1.move w).1 = (s.move (add v w)).1 := by
  simp only [Seg.move, Seg.mk', add_assoc']
theorem Seg.move_zero (s : Seg) (hs : s.WF) : (s.move zero).1 = s := by
  obtain ⟨_, hl⟩ := hs
  simp only [Seg.move, Seg.mk', add_zero']
  cases s; simp_all
theorem Seg.moves_fold_eq (s : Seg) (hs : s.WF) (vs : List V3) :
    vs.foldl (fun r v => (r.move v).1) s = (s.move (vs.foldl add zero)).1 :=
  fold_moves' (fun r v => (Seg.move r v).1) Seg.move_move s (s.move_zero hs) vs
theorem Seg.move_lenSq (s : Seg) (v : V3) : (s.move v).1.lenSq = s.lenSq := by
  simp only [Seg.move, Seg.mk', Seg.lenSq, sub_add_add]

/-! ### ConvexPolygon -/
/-- the vertex tuple is the translated tuple, in the same order (every branch) -/
theorem Polygon.move_pts (P : Polygon) (v : V3) : (P.move v).1.pts = P.pts.map (fun p => add p v) := by
  unfold Polygon.move
  simp only [Point.move]
  split
  · split <;> rfl
  · rfl

/-- hull denotation: `move` translates the polygon -/
theorem Polygon.move_den (P : Polygon) (v x : V3) : InHull (P.move v).1.pts (add x v) ↔ InHull P.pts x := by
  rw [Polygon.move_pts]; exact InHull_translate P.pts v x

/-- what `move` needs in order not to raise: three leading vertices, not collinear -/
def Polygon.Good (P : Polygon) : Prop :=
  ∃ p0 p1 p2 rest, P.pts = p0 :: p1 :: p2 :: rest ∧ cross (sub p1 p0) (sub p2 p0) ≠ zero

/-- every cached field is the one `move` recomputes from the vertex cycle -/
def Polygon.Canon (P : Polygon) : Prop :=
  ∃ p0 p1 p2 rest, P.pts = p0 :: p1 :: p2 :: rest ∧ cross (sub p1 p0) (sub p2 p0) ≠ zero ∧
    P.plane = planeOf3 p0 p1 p2 ∧ P.center = meanV P.pts

theorem Polygon.Canon.good {P : Polygon} (h : P.Canon) : P.Good := by
  obtain ⟨p0, p1, p2, rest, hp, hn, _, _⟩ := h; exact ⟨p0, p1, p2, rest, hp, hn⟩

theorem Polygon.Valid.good {P : Polygon} (hv : P.Valid) : P.Good := by
  obtain ⟨p0, p1, p2, rest, hp, _, htp⟩ := hv
  refine ⟨p0, p1, p2, rest, hp, ?_⟩
  intro h0
  rw [hp] at htp
  have := htp.1 p1 p2 (by simp)
  rw [orient_eq_dot_cross, h0] at this
  simp [dot, zero] at this

/-- the explicit receiver and returned object on the non-raising path -/
theorem Polygon.move_eq (P : Polygon) (p0 p1 p2 : V3) (rest : List V3) (hp : P.pts = p0 :: p1 :: p2 :: rest)
    (hn : cross (sub p1 p0) (sub p2 p0) ≠ zero) (v : V3) :
    P.move v = (⟨P.pts.map (fun p => add p v), ⟨add p0 v, cross (sub p1 p0) (sub p2 p0)⟩, add (meanV P.pts) v⟩,
      Polygon.mk? (P.pts.map (fun p => add p v))) := by
  have hm := meanV_translate v P.pts (by rw [hp]; simp)
  unfold Polygon.move
  simp only [Point.move, hp, List.map_cons, sub_add_add, if_neg hn, planeOf3] at hm ⊢
  rw [hm]

theorem Polygon.move_canon (P : Polygon) (hg : P.Good) (v : V3) : (P.move v).1.Canon := by
  obtain ⟨p0, p1, p2, rest, hp, hn⟩ := hg
  rw [Polygon.move_eq P p0 p1 p2 rest hp hn v]
  refine ⟨add p0 v, add p1 v, add p2 v, rest.map (fun p => add p v), by simp [hp], ?_, ?_, ?_⟩
  · simpa only [sub_add_add] using hn
  · simp only [planeOf3, sub_add_add]
  · simp only; exact (meanV_translate v P.pts (by rw [hp]; simp)).symm

theorem Polygon.move_good (P : Polygon) (hg : P.Good) (v : V3) : (P.move v).1.Good :=
  (Polygon.move_canon P hg v).good

theorem Polygon.move_move (P : Polygon) (hg : P.Good) (v w : V3) :
    ((P.move v).1.move w).1 = (P.move (add v w)).1 := by
  obtain ⟨p0, p1, p2, rest, hp, hn⟩ := hg
  have h1 := Polygon.move_eq P p0 p1 p2 rest hp hn v
  have hn' : cross (sub (add p1 v) (add p0 v)) (sub (add p2 v) (add p0 v)) ≠ zero := by
    simpa only [sub_add_add] using hn
  have hp' : (P.move v).1.pts = add p0 v :: add p1 v :: add p2 v :: rest.map (fun p => add p v) := by
    rw [h1]; simp [hp]
  rw [Polygon.move_eq _ _ _ _ _ hp' hn' w, Polygon.move_eq P p0 p1 p2 rest hp hn (add v w)]
  have hc := meanV_translate v P.pts (by rw [hp]; simp)
  simp only [Polygon.move_pts, List.map_map, Function.comp_def, add_assoc', sub_add_add, hc]

theorem Polygon.move_zero (P : Polygon) (hc : P.Canon) : (P.move zero).1 = P := by
  obtain ⟨p0, p1, p2, rest, hp, hn, hpl, hce⟩ := hc
  rw [Polygon.move_eq P p0 p1 p2 rest hp hn zero]
  simp only [add_zero', List.map_id']
  cases P
  simp only [planeOf3] at hpl hce ⊢
  rw [hpl, hce]

/-- the vertex tuple always makes the round trip -/
theorem Polygon.move_back_pts (P : Polygon) (v : V3) : ((P.move v).1.move (neg v)).1.pts = P.pts := by
  simp only [Polygon.move_pts, List.map_map, Function.comp_def, add_neg_cancel_right', List.map_id']

/-- exact round trip for a polygon whose cached plane and centre are the ones `move` rebuilds -/
theorem Polygon.move_back (P : Polygon) (hc : P.Canon) (v : V3) : ((P.move v).1.move (neg v)).1 = P := by
  rw [Polygon.move_move P hc.good]
  have : add v (neg v) = zero := by apply V3.ext' <;> simp [add, neg, zero]
  rw [this, Polygon.move_zero P hc]

/-- after one move every later round trip is exact -/
theorem Polygon.move_move_back (P : Polygon) (hg : P.Good) (v w : V3) :
    (((P.move v).1.move w).1.move (neg w)).1 = (P.move v).1 :=
  Polygon.move_back _ (Polygon.move_canon P hg v) w

/-- histories: a non-empty list of moves equals one move by the total -/
theorem Polygon.moves_fold (P : Polygon) (hg : P.Good) (v : V3) (vs : List V3) :
    (v :: vs).foldl (fun r v => (r.move v).1) P = (P.move ((v :: vs).foldl add zero)).1 := by
  rw [List.foldl_cons, fold_moves (fun r v => (Polygon.move r v).1) Polygon.Good
      (fun x v w hx => Polygon.move_move x hx v w) vs P v hg,
    foldl_add_zero, vsum_cons]

theorem Polygon.moves_fold_canon (P : Polygon) (hc : P.Canon) (vs : List V3) :
    vs.foldl (fun r v => (r.move v).1) P = (P.move (vs.foldl add zero)).1 := by
  cases vs with
  | nil => simp only [List.foldl_nil]; exact (Polygon.move_zero P hc).symm
  | cons v vs => exact Polygon.moves_fold P hc.good v vs

/-! #### the recomputed normal -/
/-- two vectors orthogonal to `n` have their cross product on the axis of `n` -/
theorem cross_eq_smul_of_orthogonal (n u w : V3) (hn : n ≠ zero) (hu : dot n u = 0) (hw : dot n w = 0) :
    cross u w = smul (dot n (cross u w) / normSq n) n := by
  have hnn : normSq n ≠ 0 := ne_of_gt (normSq_pos hn)
  simp only [dot] at hu hw
  apply V3.ext' <;> simp only [smul] <;> rw [div_mul_eq_mul_div, eq_div_iff hnn] <;>
    simp only [dot, cross, normSq]
  · linear_combination (-(n.y * u.z - n.z * u.y)) * hw + (n.y * w.z - n.z * w.y) * hu
  · linear_combination (-(n.z * u.x - n.x * u.z)) * hw + (n.z * w.x - n.x * w.z) * hu
  · linear_combination (-(n.x * u.y - n.y * u.x)) * hw + (n.x * w.y - n.y * w.x) * hu

/-- for a valid polygon the normal that `move` recomputes from the first three vertices of the cycle is a
    POSITIVE multiple of the stored normal -/
theorem Polygon.recomputed_normal (P : Polygon) (p0 p1 p2 : V3) (rest : List V3)
    (hp : P.pts = p0 :: p1 :: p2 :: rest)
    (hpl : ∀ p ∈ P.pts, G3D.inPlane P.plane.n P.plane.p p = true) (htp : triplesPos P.plane.n P.pts) :
    ∃ k : Rat, 0 < k ∧ cross (sub p1 p0) (sub p2 p0) = smul k P.plane.n := by
  have hn : P.plane.n ≠ zero := Polygon.plane_WF P ⟨p0, p1, p2, rest, hp, hpl, htp⟩
  have h0 := hpl p0 (by rw [hp]; simp)
  have h1 := hpl p1 (by rw [hp]; simp)
  have h2 := hpl p2 (by rw [hp]; simp)
  simp only [G3D.inPlane, beq_iff_eq] at h0 h1 h2
  have hu : dot P.plane.n (sub p1 p0) = 0 := by simp only [dot, sub] at h0 h1 ⊢; linarith
  have hw : dot P.plane.n (sub p2 p0) = 0 := by simp only [dot, sub] at h0 h2 ⊢; linarith
  have hpos : 0 < orient P.plane.n p0 p1 p2 := by
    rw [hp] at htp; exact htp.1 p1 p2 (by simp)
  rw [orient_eq_dot_cross] at hpos
  exact ⟨_, div_pos hpos (normSq_pos hn), cross_eq_smul_of_orthogonal _ _ _ hn hu hw⟩

theorem Polygon.move_normal (P : Polygon) (hv : P.Valid) (v : V3) :
    ∃ k : Rat, 0 < k ∧ (P.move v).1.plane.n = smul k P.plane.n := by
  obtain ⟨p0, p1, p2, rest, hp, hpl, htp⟩ := hv
  obtain ⟨k, hk, hn'⟩ := Polygon.recomputed_normal P p0 p1 p2 rest hp hpl htp
  have hn : cross (sub p1 p0) (sub p2 p0) ≠ zero :=
    let ⟨q0, q1, q2, r, hq, h⟩ := (Polygon.Valid.good ⟨p0, p1, p2, rest, hp, hpl, htp⟩)
    by rw [hp] at hq; cases hq; exact h
  rw [Polygon.move_eq P p0 p1 p2 rest hp hn v]
  exact ⟨k, hk, hn'⟩

/-- `Valid` (coplanar, every ordered triple positively oriented about the STORED normal, ≥ 3 vertices) is
    preserved by `move`, with the stored normal being the recomputed one -/
theorem Polygon.move_valid (P : Polygon) (hv : P.Valid) (v : V3) : (P.move v).1.Valid := by
  have hg := hv.good
  obtain ⟨p0, p1, p2, rest, hp, hpl, htp⟩ := hv
  obtain ⟨k, hk, hn'⟩ := Polygon.recomputed_normal P p0 p1 p2 rest hp hpl htp
  have hn : cross (sub p1 p0) (sub p2 p0) ≠ zero := by
    obtain ⟨q0, q1, q2, r, hq, h⟩ := hg
    rw [hp] at hq; cases hq; exact h
  rw [Polygon.move_eq P p0 p1 p2 rest hp hn v, hn']
  refine ⟨add p0 v, add p1 v, add p2 v, rest.map (fun p => add p v), by simp [hp], ?_, ?_⟩
  · intro p' hp'
    simp only [List.mem_map] at hp'
    obtain ⟨p, hpm, rfl⟩ := hp'
    have h0 := hpl p0 (by rw [hp]; simp)
    have h1 := hpl p hpm
    simp only [G3D.inPlane, beq_iff_eq, sub_add_add] at h0 h1 ⊢
    simp only [dot, sub, smul] at h0 h1 ⊢
    linear_combination k * h1 - k * h0
  · exact triplesPos_map (fun p => add p v) P.plane.n (smul k P.plane.n)
      (fun a b c h => by rw [orient_translate, orient_smul]; exact mul_pos hk h) P.pts htp

/-- the `X.move_WF` shape for polygons: validity is kept and every cached field is the rebuilt one -/
theorem Polygon.move_WF (P : Polygon) (hv : P.Valid) (v : V3) : (P.move v).1.Valid ∧ (P.move v).1.Canon :=
  ⟨Polygon.move_valid P hv v, Polygon.move_canon P hv.good v⟩

theorem Polygon.move_plane_den (P : Polygon) (hv : P.Valid) (v x : V3) :
    (P.move v).1.plane.den (add x v) ↔ P.plane.den x := by
  have hg := hv.good
  obtain ⟨p0, p1, p2, rest, hp, hpl, htp⟩ := hv
  obtain ⟨k, hk, hn'⟩ := Polygon.recomputed_normal P p0 p1 p2 rest hp hpl htp
  have hn : cross (sub p1 p0) (sub p2 p0) ≠ zero := by
    obtain ⟨q0, q1, q2, r, hq, h⟩ := hg
    rw [hp] at hq; cases hq; exact h
  rw [Polygon.move_eq P p0 p1 p2 rest hp hn v, hn']
  have h0 := hpl p0 (by rw [hp]; simp)
  simp only [G3D.inPlane, beq_iff_eq] at h0
  simp only [Plane.den, sub_add_add]
  have e : dot (smul k P.plane.n) (sub x p0) = k * dot P.plane.n (sub x P.plane.p) := by
    simp only [dot, sub, smul] at h0 ⊢; linear_combination (-k) * h0
  rw [e]
  constructor
  · intro h; rcases mul_eq_zero.mp h with h | h
    · exact absurd h (ne_of_gt hk)
    · exact h
  · intro h; rw [h]; ring

/-- the membership test of the moved receiver is the translated membership test -/
theorem Polygon.move_contains (P : Polygon) (hv : P.Valid) (v x : V3) :
    (P.move v).1.contains (add x v) = P.contains x := by
  rw [Bool.eq_iff_iff, Polygon.contains_iff _ (Polygon.move_valid P hv v), Polygon.contains_iff P hv]
  exact Polygon.move_den P v x

/-! #### measures -/
theorem Polygon.move_edgeLenSqs (P : Polygon) (v : V3) : (P.move v).1.edgeLenSqs = P.edgeLenSqs := by
  simp only [Polygon.edgeLenSqs, Polygon.move_pts, closedPairs_map, List.map_map, Function.comp_def,
    sub_add_add]

theorem list_sum_map_mul_left {α : Type} (k : Rat) (f : α → Rat) (l : List α) :
    (l.map (fun e => k * f e)).sum = k * (l.map f).sum := by
  induction l with
  | nil => simp
  | cons a l ih => simp only [List.map_cons, List.sum_cons, ih]; ring

theorem triNum_translate_smul (k : Rat) (hk : 0 ≤ k) (n c a b v : V3) :
    triNum (smul k n) (add c v) (add a v) (add b v) = k * triNum n c a b := by
  unfold triNum
  rw [sub_add_add, sub_add_add, mul_comm, absQ_mul_nonneg _ k hk]
  congr 1
  simp only [dot, smul]; ring

theorem Polygon.move_center (P : Polygon) (hg : P.Good) (v : V3) :
    (P.move v).1.center = add (meanV P.pts) v := by
  obtain ⟨p0, p1, p2, rest, hp, hn⟩ := hg
  rw [Polygon.move_eq P p0 p1 p2 rest hp hn v]

/-- area: `area = areaNum / (2·√(n·n))`.  With the recomputed normal `n' = k·n` (k > 0) the numerator
    scales by `k` and `n'·n'` by `k²`, so the area is unchanged.  `hc`: the stored centre passes the
    edge tests (true when it is the vertex mean, see `Polygon.move_areaNum_mean`). -/
theorem Polygon.move_areaNum (P : Polygon) (hv : P.Valid)
    (hc : ∀ e ∈ closedPairs P.pts, 0 ≤ orient P.plane.n e.1 e.2 P.center) (v : V3) :
    ∃ k : Rat, 0 < k ∧ (P.move v).1.plane.n = smul k P.plane.n ∧
      (P.move v).1.areaNum = k * P.areaNum ∧
      normSq (P.move v).1.plane.n = k ^ 2 * normSq P.plane.n := by
  obtain ⟨k, hk, hn'⟩ := Polygon.move_normal P hv v
  refine ⟨k, hk, hn', ?_, ?_⟩
  · have hcen := Polygon.move_center P hv.good v
    obtain ⟨p0, p1, p2, rest, hp, hpl, htp⟩ := hv
    unfold Polygon.areaNum
    rw [hn', hcen, Polygon.move_pts, closedPairs_map, List.map_map]
    have h1 : ((fun e : V3 × V3 => triNum (smul k P.plane.n) (add (meanV P.pts) v) e.1 e.2) ∘
        fun e : V3 × V3 => (add e.1 v, add e.2 v)) =
        fun e => k * triNum P.plane.n (meanV P.pts) e.1 e.2 := by
      funext e; exact triNum_translate_smul k (le_of_lt hk) _ _ _ _ _
    rw [h1, list_sum_map_mul_left]
    congr 1
    rw [fan_abs_eq_shoelace P.plane.n P.center P.pts hc]
    rw [hp] at hpl htp ⊢
    exact polygon_area_shoelace P.plane.n P.plane.p p0 p1 p2 rest hpl htp
  · rw [hn']; simp only [normSq, dot, smul]; ring

theorem Polygon.move_areaNum_mean (P : Polygon) (hv : P.Valid) (hc : P.center = meanV P.pts) (v : V3) :
    ∃ k : Rat, 0 < k ∧ (P.move v).1.plane.n = smul k P.plane.n ∧
      (P.move v).1.areaNum = k * P.areaNum ∧
      normSq (P.move v).1.plane.n = k ^ 2 * normSq P.plane.n := by
  apply Polygon.move_areaNum P hv _ v
  obtain ⟨p0, p1, p2, rest, hp, hpl, htp⟩ := hv
  rw [hc, hp]; rw [hp] at hpl htp
  exact centroid_passes_tests P.plane.n P.plane.p p0 p1 p2 rest hpl htp

/-- division-free form of "the area is unchanged": `(areaNum')² / (n'·n') = areaNum² / (n·n)` -/
theorem Polygon.move_area_sq (P : Polygon) (hv : P.Valid)
    (hc : ∀ e ∈ closedPairs P.pts, 0 ≤ orient P.plane.n e.1 e.2 P.center) (v : V3) :
    (P.move v).1.areaNum ^ 2 * normSq P.plane.n = P.areaNum ^ 2 * normSq (P.move v).1.plane.n := by
  obtain ⟨k, _, _, ha, hn⟩ := Polygon.move_areaNum P hv hc v
  rw [ha, hn]; ring

/-! #### why the exact round trip needs `Canon`: a constructed polygon whose normal is rescaled -/
/-- what `ConvexPolygon(((0,0,0),(3,3,0),(1,0,0),(0,2,0)))` stores: the plane comes from the first three
    INPUT points, the cycle is re-sorted afterwards, so the first three vertices of the cycle span a
    different triangle.  (In Python the normal is normalised, so this rescaling is invisible there; it is
    an artefact of keeping the normal unnormalised in the exact model.) -/
def rescaleWitness : Polygon :=
  ⟨[⟨0,0,0⟩, ⟨0,2,0⟩, ⟨3,3,0⟩, ⟨1,0,0⟩], ⟨⟨0,0,0⟩, ⟨0,0,-3⟩⟩, ⟨1,5/4,0⟩⟩

theorem rescaleWitness_constructed :
    Polygon.mk? [⟨0,0,0⟩, ⟨3,3,0⟩, ⟨1,0,0⟩, ⟨0,2,0⟩] = .ok rescaleWitness := by
  have hd : dedupV [(⟨0,0,0⟩ : V3), ⟨3,3,0⟩, ⟨1,0,0⟩, ⟨0,2,0⟩] = [⟨0,0,0⟩, ⟨3,3,0⟩, ⟨1,0,0⟩, ⟨0,2,0⟩] := by
    decide
  unfold Polygon.mk?
  simp only [hd]
  norm_num [cross, sub, zero, meanV, sumV, add, smul, dot, Plane.contains, angInsert, angEq, angLt, angCls,
    rescaleWitness, neg]

/-- move / move back on that polygon restores the vertices but doubles the stored normal -/
theorem Polygon.move_back_rescales :
    rescaleWitness.Good ∧ ∀ v, ((rescaleWitness.move v).1.move (neg v)).1.plane.n = ⟨0,0,-6⟩ ∧
      ((rescaleWitness.move v).1.move (neg v)).1 ≠ rescaleWitness := by
  have hc : cross (sub (⟨0,2,0⟩ : V3) ⟨0,0,0⟩) (sub ⟨3,3,0⟩ ⟨0,0,0⟩) = ⟨0,0,-6⟩ := by
    simp only [cross, sub, V3.mk.injEq]; norm_num
  have hne : (⟨0,0,-6⟩ : V3) ≠ zero := by
    intro h; have := congrArg V3.z h; simp only [zero] at this; norm_num at this
  have hg : rescaleWitness.Good := ⟨_, _, _, _, rfl, by rw [hc]; exact hne⟩
  refine ⟨hg, fun v => ?_⟩
  have hn : ((rescaleWitness.move v).1.move (neg v)).1.plane.n = ⟨0,0,-6⟩ := by
    rw [Polygon.move_move _ hg,
      Polygon.move_eq rescaleWitness _ _ _ _ rfl (by rw [hc]; exact hne) (add v (neg v))]
    exact hc
  refine ⟨hn, fun h => ?_⟩
  rw [h] at hn
  have := congrArg V3.z hn
  simp only [rescaleWitness] at this
  norm_num at this

/-! #### the returned object: `ConvexPolygon(self.points)` is the translate of a fresh reconstruction -/
theorem bne_add_right (x a v : V3) : (add x v != add a v) = (x != a) := by
  by_cases h : x = a
  · subst h; simp
  · have h' : add x v ≠ add a v := fun e => h (add_right_cancel' e)
    rw [bne_iff_ne.mpr h', bne_iff_ne.mpr h]

theorem dedupV_translate (v : V3) : ∀ l : List V3,
    dedupV (l.map (fun p => add p v)) = (dedupV l).map (fun p => add p v) := by
  intro l
  induction l with
  | nil => rfl
  | cons a l ih =>
    simp only [List.map_cons, dedupV, ih, List.filter_map, Function.comp_def, bne_add_right]

theorem angInsert_map (f : V3 → V3) (k : Rat × Rat) (p : V3) : ∀ acc : List ((Rat × Rat) × V3),
    angInsert k (f p) (acc.map (fun e => (e.1, f e.2))) = (angInsert k p acc).map (fun e => (e.1, f e.2)) := by
  intro acc
  induction acc with
  | nil => rfl
  | cons e acc ih =>
    obtain ⟨k', p'⟩ := e
    simp only [List.map_cons, angInsert]
    split
    · rfl
    · split
      · rfl
      · simp only [List.map_cons, ih]

theorem foldl_angInsert_map (f : V3 → V3) (key key' : V3 → Rat × Rat) (hk : ∀ p, key' (f p) = key p) :
    ∀ (ded : List V3) (acc : List ((Rat × Rat) × V3)),
      (ded.map f).foldl (fun acc p => angInsert (key' p) p acc) (acc.map (fun e => (e.1, f e.2))) =
      (ded.foldl (fun acc p => angInsert (key p) p acc) acc).map (fun e => (e.1, f e.2)) := by
  intro ded
  induction ded with
  | nil => intro acc; rfl
  | cons d ds ih =>
    intro acc
    simp only [List.map_cons, List.foldl_cons, hk, angInsert_map, ih]

theorem Plane.contains_translate (p0 n x v : V3) :
    (⟨add p0 v, n⟩ : Plane).contains (add x v) = (⟨p0, n⟩ : Plane).contains x := by
  simp only [Plane.contains]
  congr 1
  simp only [dot, add]; ring

/-- the polygon constructor is translation-equivariant: same rejections, and on success the stored
    cycle, plane point and centre are the translated ones and the normal is the same -/
theorem Polygon.mk?_translate (l : List V3) (rev : Bool) (v : V3) :
    Polygon.mk? (l.map (fun p => add p v)) rev = (Polygon.mk? l rev).map (fun P => P.translate v) := by
  unfold Polygon.mk?
  simp only [dedupV_translate, List.length_map]
  by_cases hlen : l.length < 3
  · simp only [if_pos hlen]; rfl
  · simp only [if_neg hlen]
    cases hded : dedupV l with
    | nil => rfl
    | cons p0 r1 =>
      cases r1 with
      | nil => rfl
      | cons p1 r2 =>
        cases r2 with
        | nil => rfl
        | cons p2 rest =>
          have hm : meanV (add p0 v :: add p1 v :: add p2 v :: rest.map (fun p => add p v)) =
              add (meanV (p0 :: p1 :: p2 :: rest)) v := by
            have := meanV_translate v (p0 :: p1 :: p2 :: rest) (by simp)
            simpa using this
          simp only [List.map_cons, sub_add_add, hm]
          by_cases hn0 : cross (sub p1 p0) (sub p2 p0) = zero
          · simp only [if_pos hn0]; rfl
          · simp only [if_neg hn0]
            by_cases hv0 : sub p0 (meanV (p0 :: p1 :: p2 :: rest)) = zero
            · simp only [if_pos hv0]; rfl
            · simp only [if_neg hv0]
              generalize (if rev = true then neg (cross (sub p1 p0) (sub p2 p0)) else cross (sub p1 p0) (sub p2 p0)) = n
              have hall : (add p0 v :: add p1 v :: add p2 v :: rest.map (fun p => add p v)).all
                    (⟨add p0 v, n⟩ : Plane).contains =
                  (p0 :: p1 :: p2 :: rest).all (⟨p0, n⟩ : Plane).contains := by
                have : (add p0 v :: add p1 v :: add p2 v :: rest.map (fun p => add p v)) =
                    (p0 :: p1 :: p2 :: rest).map (fun p => add p v) := by simp
                rw [this, List.all_map]
                congr 1
                funext x
                exact Plane.contains_translate p0 n x v
              rw [hall]
              by_cases hc : (!(p0 :: p1 :: p2 :: rest).all (⟨p0, n⟩ : Plane).contains) = true
              · simp only [if_pos hc]; rfl
              · simp only [if_neg hc]
                have hsort := foldl_angInsert_map (fun p => add p v)
                  (fun p => (dot (sub p (meanV (p0 :: p1 :: p2 :: rest))) (sub p0 (meanV (p0 :: p1 :: p2 :: rest))),
                    dot (sub p (meanV (p0 :: p1 :: p2 :: rest))) (cross n (sub p0 (meanV (p0 :: p1 :: p2 :: rest))))))
                  (fun p => (dot (sub p (add (meanV (p0 :: p1 :: p2 :: rest)) v)) (sub p0 (meanV (p0 :: p1 :: p2 :: rest))),
                    dot (sub p (add (meanV (p0 :: p1 :: p2 :: rest)) v)) (cross n (sub p0 (meanV (p0 :: p1 :: p2 :: rest))))))
                  (fun p => by simp only [sub_add_add]) (p0 :: p1 :: p2 :: rest) []
                simp only [List.map_cons, List.map_nil] at hsort
                simp only [Except.map, Polygon.translate]
                rw [hsort]
                simp only [List.map_map, Function.comp_def]

/-- on the non-raising path the object returned by `move` is the translate of `ConvexPolygon(points)`
    rebuilt from the receiver's vertex cycle before the move -/
theorem Polygon.move_returned (P : Polygon) (hg : P.Good) (v : V3) :
    (P.move v).2 = (Polygon.mk? P.pts).map (fun Q => Q.translate v) := by
  obtain ⟨p0, p1, p2, rest, hp, hn⟩ := hg
  rw [Polygon.move_eq P p0 p1 p2 rest hp hn v]
  exact Polygon.mk?_translate P.pts false v

/-- the translate of a record is what `move` produces, up to the recomputed plane (`Canon` receivers:
    exactly) -/
theorem Polygon.move_eq_translate (P : Polygon) (hc : P.Canon) (v : V3) : (P.move v).1 = P.translate v := by
  obtain ⟨p0, p1, p2, rest, hp, hn, hpl, hce⟩ := hc
  rw [Polygon.move_eq P p0 p1 p2 rest hp hn v]
  simp only [Polygon.translate, hpl, planeOf3, hce]

/-- plane and centre stored by a successful `ConvexPolygon(points)` (no `reverse`) -/
theorem Polygon.mk?_fields (input : List V3) (Q : Polygon) (h : Polygon.mk? input = .ok Q)
    (p0 p1 p2 : V3) (rest : List V3) (hd : dedupV input = p0 :: p1 :: p2 :: rest) :
    Q.plane = planeOf3 p0 p1 p2 ∧ Q.center = meanV (dedupV input) := by
  unfold Polygon.mk? at h
  simp only [hd, Bool.false_eq_true, if_false] at h
  split at h
  · cases h
  · split at h
    · cases h
    · split at h
      · cases h
      · split at h
        · cases h
        · cases h; exact ⟨rfl, by rw [hd]⟩

/-- PARTIAL `move_returned_eq_receiver` for polygons: when the vertex cycle has no repeated vertex
    (`dedupV P.pts = P.pts`) the returned polygon has the receiver's plane and centre and its vertices are
    among the receiver's.  Missing for full equality: that re-sorting an already sorted cycle returns the
    same list (`Q.pts = (P.move v).1.pts`), i.e. a theory of `angInsert` as a sort. -/
theorem Polygon.move_returned_partial (P : Polygon) (hg : P.Good) (hnd : dedupV P.pts = P.pts) (v : V3)
    (Q : Polygon) (h : (P.move v).2 = .ok Q) :
    Q.plane = (P.move v).1.plane ∧ Q.center = (P.move v).1.center ∧ ∀ q ∈ Q.pts, q ∈ (P.move v).1.pts := by
  obtain ⟨p0, p1, p2, rest, hp, hn⟩ := hg
  have hsub := (Polygon.mk?_ok _ false Q (by rw [Polygon.move_eq P p0 p1 p2 rest hp hn v] at h; exact h)).2.2.1
  rw [Polygon.move_eq P p0 p1 p2 rest hp hn v] at h ⊢
  have hd : dedupV (P.pts.map (fun p => add p v)) =
      add p0 v :: add p1 v :: add p2 v :: rest.map (fun p => add p v) := by
    rw [dedupV_translate, hnd, hp]; simp
  obtain ⟨h1, h2⟩ := Polygon.mk?_fields _ Q h _ _ _ _ hd
  refine ⟨by rw [h1]; simp only [planeOf3, sub_add_add], ?_, hsub⟩
  rw [h2, dedupV_translate, hnd]
  exact meanV_translate v P.pts (by rw [hp]; simp)

/-! ### ConvexPolyhedron.move (structure of a successful call) -/
theorem mapM_ok_forall₂ {α β ε : Type} (f : α → Except ε β) : ∀ (l : List α) (out : List β),
    l.mapM f = .ok out → List.Forall₂ (fun a b => f a = .ok b) l out := by
  intro l
  induction l with
  | nil => intro out h; simp [List.mapM_nil, pure, Except.pure] at h; cases h; exact List.Forall₂.nil
  | cons a l ih =>
    intro out h
    rw [List.mapM_cons] at h
    simp only [bind, Except.bind] at h
    cases ha : f a with
    | error e => rw [ha] at h; cases h
    | ok b =>
      rw [ha] at h
      simp only at h
      cases hl : l.mapM f with
      | error e => rw [hl] at h; cases h
      | ok bs =>
        rw [hl] at h
        simp only [pure, Except.pure] at h
        cases h
        exact List.Forall₂.cons ha (ih bs hl)

theorem forall₂_ok_mapM {α β ε : Type} (f : α → Except ε β) : ∀ (l : List α) (out : List β),
    List.Forall₂ (fun a b => f a = .ok b) l out → l.mapM f = .ok out := by
  intro l out h
  induction h with
  | nil => rfl
  | cons ha _ ih =>
    rw [List.mapM_cons]
    simp only [bind, Except.bind, ha, ih]; rfl

theorem moveFace_ok (c : V3) (f : Polygon) (r : Polygon × V3) (h : moveFace c f = .ok r) :
    ¬ dot (sub f.plane.p c) f.plane.n < 0 ∧ ¬ f.plane.contains c = true ∧ r = (f, c) := by
  unfold moveFace at h
  split at h
  · split at h <;> cases h
  · rename_i h1
    split at h
    · cases h
    · rename_i h2; cases h; exact ⟨h1, h2, rfl⟩

/-- a face that passes the loop of `move` is left alone by the loop of the constructor -/
theorem orientFace_of_moveFace (c : V3) (f : Polygon) (r : Polygon × V3) (h : moveFace c f = .ok r) :
    orientFace c f = .ok (f, (f, c)) := by
  obtain ⟨h1, h2, _⟩ := moveFace_ok c f r h
  unfold orientFace
  simp only [if_neg h1, if_neg h2, bind, Except.bind, pure, Except.pure]

theorem moveFace_all (c : V3) : ∀ (faces : List Polygon) (pyr : List (Polygon × V3)),
    List.Forall₂ (fun a b => moveFace c a = .ok b) faces pyr →
    List.Forall₂ (fun a b => orientFace c a = .ok b) faces (faces.map (fun f => (f, (f, c)))) ∧
    pyr = faces.map (fun f => (f, c)) ∧ ∀ f ∈ faces, ¬ f.plane.contains c = true := by
  intro faces pyr hF
  induction hF with
  | nil => exact ⟨List.Forall₂.nil, rfl, fun f hf => by cases hf⟩
  | cons ha _ ih =>
    obtain ⟨i1, i2, i3⟩ := ih
    refine ⟨List.Forall₂.cons (orientFace_of_moveFace _ _ _ ha) i1, ?_, ?_⟩
    · rw [List.map_cons, ← i2, (moveFace_ok _ _ _ ha).2.2]
    · intro f hfm
      rcases List.mem_cons.mp hfm with rfl | hm
      · exact (moveFace_ok _ _ _ ha).2.1
      · exact i3 f hm

theorem liftC2_ok {α : Type} (x : Except CErr α) (a : α) (h : liftC2 x = .ok a) : x = .ok a := by
  cases x with
  | error e => cases h
  | ok b => cases h; rfl

/-- what a non-raising `ConvexPolyhedron.move` leaves behind and returns: the stored faces are the polygons
    RETURNED by the face moves, no face needed flipping, every cached field is rebuilt from them, and the
    returned polyhedron (a fresh `ConvexPolyhedron(self.convex_polygons)`) equals the receiver -/
theorem Polyhedron.move_ok (B : Polyhedron) (v : V3) (B' R : Polyhedron) (h : B.move v = .ok (B', R)) :
    List.Forall₂ (fun f f' => (f.move v).2 = .ok f') B.faces B'.faces ∧
    B'.verts = collectVerts B'.faces ∧ collectEdges B'.faces [] = .ok B'.edges ∧ B'.verts ≠ [] ∧
    B'.center = meanV B'.verts ∧ B'.pyramids = B'.faces.map (fun f => (f, B'.center)) ∧
    (∀ f ∈ B'.faces, 0 ≤ dot (sub f.plane.p B'.center) f.plane.n ∧ ¬ f.plane.contains B'.center = true) ∧
    ((B'.verts.length : Int) - B'.edges.length + B'.faces.length = 2) ∧
    Polyhedron.mk? B'.faces = .ok R ∧ R = B' := by
  unfold Polyhedron.move at h
  simp only [bind, Except.bind] at h
  cases hf : liftC2 (B.faces.mapM (fun f => (f.move v).2)) with
  | error e => rw [hf] at h; cases h
  | ok faces =>
    rw [hf] at h
    simp only at h
    cases he : liftC2 (collectEdges faces []) with
    | error e => rw [he] at h; cases h
    | ok edges =>
      rw [he] at h
      simp only at h
      by_cases hv : (collectVerts faces).length = 0
      · rw [if_pos hv] at h; cases h
      · rw [if_neg hv] at h
        cases hp : faces.mapM (moveFace (meanV (collectVerts faces))) with
        | error e => rw [hp] at h; cases h
        | ok pyr =>
          rw [hp] at h
          simp only at h
          split at h
          · cases h
          · rename_i hnorm
            split at h
            · cases h
            · rename_i heul
              obtain ⟨hor, hpyr, hnc⟩ := moveFace_all _ faces pyr (mapM_ok_forall₂ _ faces pyr hp)
              have horient := forall₂_ok_mapM _ _ _ hor
              have hmk : Polyhedron.mk? faces =
                  .ok ⟨faces, collectVerts faces, edges, pyr, meanV (collectVerts faces)⟩ := by
                unfold Polyhedron.mk?
                simp only [bind, Except.bind, liftC2_ok _ _ he, if_neg hv, horient, List.map_map,
                  Function.comp_def, List.map_id', if_neg hnorm, if_neg heul, pure, Except.pure, hpyr]
              rw [hmk] at h
              simp only [liftC2, pure, Except.pure] at h
              cases h
              refine ⟨mapM_ok_forall₂ _ _ _ (liftC2_ok _ _ hf), rfl, liftC2_ok _ _ he, ?_, rfl, hpyr, ?_, ?_,
                hmk, rfl⟩
              · intro h0
                have h0' : collectVerts faces = [] := h0
                apply hv; rw [h0']; rfl
              · intro f hfm
                have hall : faces.all
                    (fun f => decide (0 ≤ dot (sub f.plane.p (meanV (collectVerts faces))) f.plane.n)) = true := by
                  cases hh : faces.all
                    (fun f => decide (0 ≤ dot (sub f.plane.p (meanV (collectVerts faces))) f.plane.n)) with
                  | true => rfl
                  | false => rw [hh] at hnorm; simp at hnorm
                exact ⟨by simpa using (List.all_eq_true.mp hall) f hfm, hnc f hfm⟩
              · have : ¬ ((collectVerts faces).length : Int) - edges.length + faces.length ≠ 2 := by
                  intro hne; apply heul; simpa using hne
                exact not_not.mp this

/-- `move` returns an object equal to the receiver (as for every other type) -/
theorem Polyhedron.move_returned_eq_receiver (B : Polyhedron) (v : V3) (B' R : Polyhedron)
    (h : B.move v = .ok (B', R)) : R = B' := (Polyhedron.move_ok B v B' R h).2.2.2.2.2.2.2.2.2

/-- each stored face after the move is the translate of the face rebuilt from its own vertex cycle -/
theorem Polyhedron.move_faces (B : Polyhedron) (hg : ∀ f ∈ B.faces, f.Good) (v : V3) (B' R : Polyhedron)
    (h : B.move v = .ok (B', R)) :
    List.Forall₂ (fun f f' => (Polygon.mk? f.pts).map (fun Q => Q.translate v) = .ok f') B.faces B'.faces := by
  have h1 := (Polyhedron.move_ok B v B' R h).1
  clear h
  generalize B.faces = l at h1 hg
  generalize B'.faces = l' at h1
  induction h1 with
  | nil => exact List.Forall₂.nil
  | cons ha _ ih =>
    refine List.Forall₂.cons ?_ (ih (fun f hf => hg f (List.mem_cons_of_mem _ hf)))
    rw [← Polygon.move_returned _ (hg _ (by simp)) v]; exact ha

#print axioms Line.moves_fold
#print axioms Plane.moves_fold
#print axioms HalfLine.moves_fold
#print axioms HalfLine.move_back
#print axioms Seg.moves_fold_eq
#print axioms InHull_translate
#print axioms Polygon.move_valid
#print axioms Polygon.move_den
#print axioms Polygon.move_back
#print axioms Polygon.moves_fold
#print axioms Polygon.move_contains
#print axioms Polygon.move_areaNum
#print axioms Polygon.move_edgeLenSqs
#print axioms Polygon.mk?_translate
#print axioms Polygon.move_returned
#print axioms Polygon.move_back_rescales
#print axioms rescaleWitness_constructed
#print axioms Polygon.move_returned_partial
#print axioms Polyhedron.move_ok
#print axioms Polyhedron.move_faces
end G3D
