import G3D.Proofs.XCPolygon
import G3D.Proofs.MeasBody
import G3D.Proofs.BridgeExact
import G3D.Proofs.SameSet
import Mathlib.Tactic.Ring
import Mathlib.Tactic.Linarith
import Mathlib.Tactic.LinearCombination
import Mathlib.Tactic.Positivity

/-! # C13, constructors: `ConvexPolyhedron(polygons)` commutes with every `T : Xf`

    * `XC.body_valid`, `XC.body_faceLocal`, `XC.body_vertsOnFaces`: the image `T.body B` (outward normals `σ n`, vertex
      cycles reversed under reflections) of a `Valid` / `FaceLocal` / face-vertex-listing body is again one;
      `XC.counts_body`: it has as many distinct face vertices, undirected edges and faces (Euler's formula is
      invariant).
    * `XC.ImgOf T g g'`: `g'` is a valid polygon (centre in its plane) on the transformed vertex set of `g` — e.g.
      `T.polygon g`, `T.face g`, `XC.img T g` (what `ConvexPolygon` stores for the transformed points) or ANY successful
      `ConvexPolygon(points, reverse)` on a listing of the transformed vertices.
    * `XC.polyhedron_ctor_xf`: `input` a reordered re-oriented face list of a `Valid` reference body, `input'`
      face-by-face `ImgOf` it: the constructor accepts `input'` iff it accepts `input`, and then, for the results
      `B`, `B'`: both `Valid`, `B'.contains (T.pt x) = B.contains x`, hull membership transported, vertex list =
      transformed vertex list up to order, centre transformed, squared edge lengths × k² (as a multiset), volume × k³,
      squared face areas × k⁴ (as a multiset), and `B' == T.body B` (`sameB`). -/
namespace G3D
open V3
open XfAux

/-! ### the image body of a valid body is valid -/
theorem XC.face_side (T : Xf) (f : Polygon) (x : V3) : (T.face f).side (T.pt x) = T.k * f.side x := by
  simp only [Polygon.side, Xf.face]
  rw [Xf.pt_sub, T.dot_dir_nrm]

/-- image of a directed edge of a face cycle (reversed under a reflection) -/
def XC.edgeMap (T : Xf) : V3 × V3 → V3 × V3 :=
  fun e => if T.s.det = 1 then (T.pt e.1, T.pt e.2) else (T.pt e.2, T.pt e.1)

theorem XC.closedPairs_cyc_perm (T : Xf) (l : List V3) :
    List.Perm (closedPairs (T.cyc l)) ((closedPairs l).map (XC.edgeMap T)) := T.closedPairs_cyc_perm l

theorem XC.edgeMap_swap (T : Xf) (e : V3 × V3) : XC.edgeMap T e.swap = (XC.edgeMap T e).swap := by
  unfold XC.edgeMap
  split <;> rfl

theorem XC.edgeMap_cases (T : Xf) (e : V3 × V3) :
    XC.edgeMap T e = (T.pt e.1, T.pt e.2) ∨ XC.edgeMap T e = (T.pt e.2, T.pt e.1) := by
  unfold XC.edgeMap
  split
  · exact Or.inl rfl
  · exact Or.inr rfl

theorem XC.dirEdges_cyc_perm (T : Xf) (fs : List (List V3)) :
    List.Perm (dirEdges (fs.map T.cyc)) ((dirEdges fs).map (XC.edgeMap T)) := by
  induction fs with
  | nil => simp [dirEdges]
  | cons f fs ih =>
    simp only [dirEdges, List.map_cons, List.flatMap_cons, List.map_append] at ih ⊢
    exact (XC.closedPairs_cyc_perm T f).append ih

theorem XC.closedSurface_cyc (T : Xf) (fs : List (List V3)) (hc : ClosedSurface fs) :
    ClosedSurface (fs.map T.cyc) := by
  unfold ClosedSurface at hc ⊢
  have h1 := XC.dirEdges_cyc_perm T fs
  have h2 : ((dirEdges fs).map Prod.swap).map (XC.edgeMap T) =
      ((dirEdges fs).map (XC.edgeMap T)).map Prod.swap := by
    rw [List.map_map, List.map_map]
    apply List.map_congr_left
    intro e _
    exact XC.edgeMap_swap T e
  have h3 := hc.map (XC.edgeMap T)
  rw [h2] at h3
  exact h1.trans (h3.trans (h1.map Prod.swap).symm)

theorem XC.body_faces (T : Xf) (B : Polyhedron) : (T.body B).faces = B.faces.map T.face := rfl
theorem XC.body_verts (T : Xf) (B : Polyhedron) : (T.body B).verts = T.pts B.verts := rfl

/-- **the image of a `Valid` body is `Valid`** -/
theorem XC.body_valid (T : Xf) (hk : 0 < T.k) (B : Polyhedron) (hV : B.Valid) : (T.body B).Valid := by
  refine ⟨?_, ?_, ?_, ?_, ?_, ?_, ?_⟩
  · intro h
    rw [XC.body_faces, List.map_eq_nil_iff] at h
    exact hV.nonempty h
  · intro f' hf'
    obtain ⟨f, hf, rfl⟩ := List.mem_map.mp hf'
    exact T.face_valid hk f (hV.faces_valid f hf)
  · intro f' hf'
    obtain ⟨f, hf, rfl⟩ := List.mem_map.mp hf'
    show G3D.inPlane (T.nrm f.plane.n) (T.pt f.plane.p) (T.pt f.center) = true
    rw [T.inPlane_nrm hk]; exact hV.center_in_plane f hf
  · intro f' hf' p hp
    obtain ⟨f, hf, rfl⟩ := List.mem_map.mp hf'
    obtain ⟨x, hx, rfl⟩ := (T.mem_cyc f.pts p).mp hp
    exact List.mem_map.mpr ⟨x, hV.pts_sub f hf x hx, rfl⟩
  · intro f' hf' v' hv'
    obtain ⟨f, hf, rfl⟩ := List.mem_map.mp hf'
    obtain ⟨v, hv, rfl⟩ := List.mem_map.mp hv'
    have h1 : f.side v ≤ 0 := hV.verts_inside f hf v hv
    show (T.face f).side (T.pt v) ≤ 0
    rw [XC.face_side]
    exact mul_nonpos_of_nonneg_of_nonpos (le_of_lt hk) h1
  · have : (T.body B).faces.map (·.pts) = (B.faces.map (·.pts)).map T.cyc := by
      rw [XC.body_faces, List.map_map, List.map_map]; rfl
    rw [this]
    exact XC.closedSurface_cyc T _ hV.closed
  · obtain ⟨o, ho⟩ := hV.interior
    refine ⟨T.pt o, fun f' hf' => ?_⟩
    obtain ⟨f, hf, rfl⟩ := List.mem_map.mp hf'
    rw [XC.face_side]
    exact mul_neg_of_pos_of_neg hk (ho f hf)
#print axioms XC.body_valid

/-- … `FaceLocal` is preserved -/
theorem XC.body_faceLocal (T : Xf) (hk : 0 < T.k) (B : Polyhedron) (hl : B.FaceLocal) : (T.body B).FaceLocal := by
  intro f' hf' e' he'
  obtain ⟨f, hf, rfl⟩ := List.mem_map.mp hf'
  have he'' : e' ∈ (closedPairs f.pts).map (XC.edgeMap T) := (XC.closedPairs_cyc_perm T f.pts).mem_iff.mp he'
  obtain ⟨e, he, rfl⟩ := List.mem_map.mp he''
  obtain ⟨g, hg, h1, h2, v, hv, hlt⟩ := hl f hf e he
  refine ⟨T.face g, List.mem_map.mpr ⟨g, hg, rfl⟩, ?_, ?_, T.pt v, (T.mem_cyc f.pts _).mpr ⟨v, hv, rfl⟩, ?_⟩
  · rcases XC.edgeMap_cases T e with h | h <;> rw [h] <;> simp only [XC.face_side, h1, h2, mul_zero]
  · rcases XC.edgeMap_cases T e with h | h <;> rw [h] <;> simp only [XC.face_side, h1, h2, mul_zero]
  · rw [XC.face_side]; exact mul_neg_of_pos_of_neg hk hlt

/-- … and so is "every listed vertex is a face vertex" -/
theorem XC.body_vertsOnFaces (T : Xf) (B : Polyhedron) (h : B.VertsOnFaces) : (T.body B).VertsOnFaces := by
  intro v' hv'
  obtain ⟨v, hv, rfl⟩ := List.mem_map.mp hv'
  obtain ⟨f, hf, hvf⟩ := h v hv
  exact ⟨T.face f, List.mem_map.mpr ⟨f, hf, rfl⟩, (T.mem_cyc f.pts _).mpr ⟨v, hvf, rfl⟩⟩

/-! ### counting: vertices, edges, faces (Euler's formula is invariant) -/
theorem XC.pt_inj (T : Xf) (hk : 0 < T.k) : Function.Injective T.pt := fun _ _ h => T.pt_injective hk h

/-- `g'` is a valid polygon, stored centre in its plane, on the transformed vertex set of `g` -/
structure XC.ImgOf (T : Xf) (g g' : Polygon) : Prop where
  valid : g'.Valid
  center : G3D.inPlane g'.plane.n g'.plane.p g'.center = true
  same_verts : ∀ p, p ∈ g'.pts ↔ p ∈ T.pts g.pts

theorem XC.mem_pts_collect (T : Xf) (input : List Polygon) (v : V3) :
    v ∈ T.pts (collectVerts input) ↔ ∃ g ∈ input, v ∈ T.pts g.pts := by
  simp only [Xf.pts, List.mem_map, mem_collectVerts]
  constructor
  · rintro ⟨x, ⟨g, hg, hx⟩, rfl⟩; exact ⟨g, hg, x, hx, rfl⟩
  · rintro ⟨g, hg, x, hx, rfl⟩; exact ⟨x, ⟨g, hg, hx⟩, rfl⟩

/-- the vertex list collected from image faces is the image of the collected vertex list, up to order -/
theorem XC.collectVerts_img_perm (T : Xf) (hk : 0 < T.k) (input input' : List Polygon)
    (himg : List.Forall₂ (XC.ImgOf T) input input') :
    List.Perm (collectVerts input') (T.pts (collectVerts input)) := by
  have hnd : (T.pts (collectVerts input)).Nodup := (collectVerts_nodup input).map (XC.pt_inj T hk)
  rw [List.perm_ext_iff_of_nodup (collectVerts_nodup input') hnd]
  intro v
  rw [mem_collectVerts, XC.mem_pts_collect]
  constructor
  · rintro ⟨g', hg', hv⟩
    obtain ⟨g, hg, hi⟩ := Forall₂.exists_left himg g' hg'
    exact ⟨g, hg, (hi.same_verts v).mp hv⟩
  · rintro ⟨g, hg, hv⟩
    obtain ⟨g', hg', hi⟩ := Forall₂.exists_right himg g hg
    exact ⟨g', hg', (hi.same_verts v).mpr hv⟩

theorem XC.collectVerts_face_perm (T : Xf) (hk : 0 < T.k) (fs : List Polygon) :
    List.Perm (collectVerts (fs.map T.face)) (T.pts (collectVerts fs)) := by
  have hnd : (T.pts (collectVerts fs)).Nodup := (collectVerts_nodup fs).map (XC.pt_inj T hk)
  rw [List.perm_ext_iff_of_nodup (collectVerts_nodup _) hnd]
  intro v
  rw [mem_collectVerts, XC.mem_pts_collect]
  constructor
  · rintro ⟨f', hf', hv⟩
    obtain ⟨f, hf, rfl⟩ := List.mem_map.mp hf'
    obtain ⟨x, hx, rfl⟩ := (T.mem_cyc f.pts v).mp hv
    exact ⟨f, hf, List.mem_map.mpr ⟨x, hx, rfl⟩⟩
  · rintro ⟨f, hf, hv⟩
    obtain ⟨x, hx, rfl⟩ := List.mem_map.mp hv
    exact ⟨T.face f, List.mem_map.mpr ⟨f, hf, rfl⟩, (T.mem_cyc f.pts _).mpr ⟨x, hx, rfl⟩⟩

theorem XC.addSeg_map (T : Xf) (hk : 0 < T.k) (acc : List Seg) (s : Seg) :
    addSeg (acc.map T.seg) (T.seg s) = (addSeg acc s).map T.seg := by
  unfold addSeg
  have : (acc.map T.seg).any (fun x => x.same (T.seg s)) = acc.any (fun x => x.same s) := by
    rw [List.any_map]
    congr 1
    funext x
    exact T.seg_same hk x s
  rw [this]
  split <;> simp

theorem XC.foldl_addSeg_map (T : Xf) (hk : 0 < T.k) : ∀ (ss acc : List Seg),
    (ss.map T.seg).foldl addSeg (acc.map T.seg) = (ss.foldl addSeg acc).map T.seg := by
  intro ss
  induction ss with
  | nil => intro acc; rfl
  | cons s ss ih => intro acc; simp only [List.map_cons, List.foldl_cons, XC.addSeg_map T hk, ih]

theorem XC.segs_polygon (T : Xf) (f : Polygon) : (T.polygon f).segs = f.segs.map T.seg := by
  unfold Polygon.segs
  show (closedPairs (T.pts f.pts)).map _ = _
  rw [T.closedPairs_pts, List.map_map, List.map_map]
  rfl

/-- the edge list collected from the faces with the SAME vertex order is exactly the image edge list -/
theorem XC.edgesOf_polygon (T : Xf) (hk : 0 < T.k) (fs : List Polygon) :
    edgesOf (fs.map T.polygon) [] = (edgesOf fs []).map T.seg := by
  unfold edgesOf
  have gen : ∀ (l : List Polygon) (acc : List Seg),
      (l.map T.polygon).foldl (fun acc f => f.segs.foldl addSeg acc) (acc.map T.seg) =
      (l.foldl (fun acc f => f.segs.foldl addSeg acc) acc).map T.seg := by
    intro l
    induction l with
    | nil => intro acc; rfl
    | cons g l ih =>
      intro acc
      simp only [List.map_cons, List.foldl_cons]
      rw [XC.segs_polygon T g, XC.foldl_addSeg_map T hk]
      exact ih _
  exact gen fs []

/-- reversing the cycles (reflections) does not change the undirected edges -/
theorem XC.sameUEdges_face_polygon (T : Xf) (fs : List Polygon) :
    SameUEdges (fs.map T.face) (fs.map T.polygon) := by
  constructor
  · intro f' hf' e he
    obtain ⟨f, hf, rfl⟩ := List.mem_map.mp hf'
    refine ⟨T.polygon f, List.mem_map.mpr ⟨f, hf, rfl⟩, ?_⟩
    have he' : e ∈ (closedPairs f.pts).map (XC.edgeMap T) := (XC.closedPairs_cyc_perm T f.pts).mem_iff.mp he
    obtain ⟨e0, he0, rfl⟩ := List.mem_map.mp he'
    have hm : (T.pt e0.1, T.pt e0.2) ∈ closedPairs (T.polygon f).pts := by
      show _ ∈ closedPairs (T.pts f.pts)
      rw [T.closedPairs_pts]; exact List.mem_map.mpr ⟨e0, he0, rfl⟩
    rcases XC.edgeMap_cases T e0 with h | h <;> rw [h]
    · exact Or.inl hm
    · exact Or.inr hm
  · intro f' hf' e he
    obtain ⟨f, hf, rfl⟩ := List.mem_map.mp hf'
    refine ⟨T.face f, List.mem_map.mpr ⟨f, hf, rfl⟩, ?_⟩
    have he' : e ∈ closedPairs (T.pts f.pts) := he
    rw [T.closedPairs_pts] at he'
    obtain ⟨e0, he0, rfl⟩ := List.mem_map.mp he'
    have hm : XC.edgeMap T e0 ∈ closedPairs (T.face f).pts :=
      (XC.closedPairs_cyc_perm T f.pts).mem_iff.mpr (List.mem_map.mpr ⟨e0, he0, rfl⟩)
    rcases XC.edgeMap_cases T e0 with h | h <;> rw [h] at hm
    · exact Or.inl hm
    · exact Or.inr hm

/-- **Euler's formula is invariant**: the image body has as many distinct face vertices, undirected edges, faces -/
theorem XC.counts_body (T : Xf) (hk : 0 < T.k) (B : Polyhedron) :
    (collectVerts (T.body B).faces).length = (collectVerts B.faces).length ∧
    (edgesOf (T.body B).faces []).length = (edgesOf B.faces []).length ∧
    (T.body B).faces.length = B.faces.length := by
  refine ⟨?_, ?_, ?_⟩
  · rw [XC.body_faces, (XC.collectVerts_face_perm T hk B.faces).length_eq, Xf.pts, List.length_map]
  · rw [XC.body_faces, edgesOf_length_eq _ _ (XC.sameUEdges_face_polygon T B.faces), XC.edgesOf_polygon T hk,
      List.length_map]
  · rw [XC.body_faces, List.length_map]

theorem XC.euler_body (T : Xf) (hk : 0 < T.k) (B : Polyhedron) :
    (((collectVerts (T.body B).faces).length : Int) - (edgesOf (T.body B).faces []).length +
        (T.body B).faces.length = 2) ↔
    (((collectVerts B.faces).length : Int) - (edgesOf B.faces []).length + B.faces.length = 2) := by
  obtain ⟨h1, h2, h3⟩ := XC.counts_body T hk B
  rw [h1, h2, h3]

/-- squared lengths of the undirected edges of the image body: those of the body × k², as a multiset -/
theorem XC.edgeLenSqs_body_perm (T : Xf) (hk : 0 < T.k) (fs : List Polygon) :
    List.Perm ((edgesOf (fs.map T.face) []).map Seg.lenSq) (((edgesOf fs []).map Seg.lenSq).map (T.k^2 * ·)) := by
  refine (Meas.edgesOf_lenSq_perm _ _ (XC.sameUEdges_face_polygon T fs)).trans ?_
  rw [XC.edgesOf_polygon T hk, List.map_map, List.map_map]
  have : (Seg.lenSq ∘ T.seg) = ((fun x => T.k^2 * x) ∘ Seg.lenSq) := by
    funext s; simp only [Function.comp]; exact T.seg_lenSq s
  rw [this]

/-- the vector area of the image cycle of a face -/
theorem XC.normSq_vecArea2_cyc (T : Xf) (l : List V3) :
    normSq (vecArea2 (T.cyc l)) = T.k^4 * normSq (vecArea2 l) := by
  rcases SP.det_cases T.s with h | h
  · rw [T.cyc_of_det_one h]; exact T.normSq_vecArea2_pts l
  · rw [T.cyc_of_det_neg h, vecArea2_of_perm_swap (closedPairs_reverse_perm (T.pts l)), Meas.normSq_neg]
    exact T.normSq_vecArea2_pts l

/-! ### admissible images of an input face -/
theorem XC.imgOf_polygon (T : Xf) (hk : 0 < T.k) (g : Polygon) (hg : g.Valid)
    (hc : G3D.inPlane g.plane.n g.plane.p g.center = true) : XC.ImgOf T g (T.polygon g) :=
  ⟨T.polygon_valid hk g hg, by
    show G3D.inPlane (T.pnrm g.plane.n) (T.pt g.plane.p) (T.pt g.center) = true
    rw [T.inPlane_pnrm hk]; exact hc, fun _ => Iff.rfl⟩

theorem XC.imgOf_face (T : Xf) (hk : 0 < T.k) (g : Polygon) (hg : g.Valid)
    (hc : G3D.inPlane g.plane.n g.plane.p g.center = true) : XC.ImgOf T g (T.face g) :=
  ⟨T.face_valid hk g hg, by
    show G3D.inPlane (T.nrm g.plane.n) (T.pt g.plane.p) (T.pt g.center) = true
    rw [T.inPlane_nrm hk]; exact hc, fun p => by
      rw [show (T.face g).pts = T.cyc g.pts from rfl, T.mem_cyc, Xf.pts, List.mem_map]⟩

/-- what `ConvexPolygon` stores for the transformed points (`XC.mk?_xf`) -/
theorem XC.imgOf_img (T : Xf) (hk : 0 < T.k) (g : Polygon) (hg : g.Valid)
    (hc : G3D.inPlane g.plane.n g.plane.p g.center = true) : XC.ImgOf T g (XC.img T g) :=
  ⟨XC.img_valid T hk g hg, XC.center_inPlane T hk g hc, fun _ => Iff.rfl⟩

/-- ANY successful `ConvexPolygon(points, reverse)` on a listing of the transformed vertices -/
theorem XC.imgOf_mk? (T : Xf) (hk : 0 < T.k) (g : Polygon) (hg : g.Valid) (i : List V3) (rev : Bool) (g' : Polygon)
    (hset : ∀ p, p ∈ i ↔ p ∈ T.pts g.pts) (h : Polygon.mk? i rev = .ok g') :
    XC.ImgOf T g g' ∧ g'.CentreInside := by
  obtain ⟨hr, hci⟩ := Reoriented.of_mk? (T.polygon g) (T.polygon_valid hk g hg) i rev g' hset h
  exact ⟨⟨hr.valid, hr.center, hr.same_verts⟩, hci⟩

theorem XC.centreInside_polygon (T : Xf) (hk : 0 < T.k) (g : Polygon) (hc : g.CentreInside) :
    (T.polygon g).CentreInside := by
  intro e he
  have he' : e ∈ closedPairs (T.pts g.pts) := he
  rw [T.closedPairs_pts] at he'
  obtain ⟨e0, he0, rfl⟩ := List.mem_map.mp he'
  show 0 ≤ orient (T.pnrm g.plane.n) (T.pt e0.1) (T.pt e0.2) (T.pt g.center)
  rw [T.orient_pnrm]
  have := hc e0 he0
  positivity

/-- an image of a re-oriented copy of `f` is a re-oriented copy of the image face `T.face f` -/
theorem XC.reoriented_face (T : Xf) {f g g' : Polygon} (hr : Reoriented f g) (hi : XC.ImgOf T g g') :
    Reoriented (T.face f) g' :=
  ⟨hi.valid, hi.center, fun p => by
    rw [hi.same_verts p, show (T.face f).pts = T.cyc f.pts from rfl, T.mem_cyc, Xf.pts, List.mem_map]
    constructor
    · rintro ⟨x, hx, rfl⟩; exact ⟨x, (hr.same_verts x).mp hx, rfl⟩
    · rintro ⟨x, hx, rfl⟩; exact ⟨x, (hr.same_verts x).mpr hx, rfl⟩⟩

theorem XC.forall₂_comp {α β γ δ : Type} {R : α → β → Prop} {S : β → γ → Prop} {Q : δ → γ → Prop} (φ : α → δ)
    (h : ∀ a b c, R a b → S b c → Q (φ a) c) :
    ∀ {l1 : List α} {l2 : List β} {l3 : List γ}, List.Forall₂ R l1 l2 → List.Forall₂ S l2 l3 →
      List.Forall₂ Q (l1.map φ) l3 := by
  intro l1 l2 l3 h1
  induction h1 generalizing l3 with
  | nil => intro h2; cases h2; exact List.Forall₂.nil
  | cons hab _ ih =>
    intro h2
    cases h2 with
    | cons hbc h2' => exact List.Forall₂.cons (h _ _ _ hab hbc) (ih h2')

theorem XC.forall₂_imgOf_map (T : Xf) (ψ : Polygon → Polygon) (input : List Polygon)
    (h : ∀ g ∈ input, XC.ImgOf T g (ψ g)) : List.Forall₂ (XC.ImgOf T) input (input.map ψ) :=
  Forall₂.map_self ψ input h

/-! ### the constructor -/
/-- **C13, `ConvexPolyhedron(polygons)` commutes with `T`.**
    `B0` a `Valid` reference body, `input` its faces in any order, each replaced by any valid polygon on the same
    vertex set (`Reoriented`), `input'` face by face an admissible image (`XC.ImgOf`) of `input`.  Then the
    constructor accepts `input'` iff it accepts `input`; and for the two results `B`, `B'` … -/
theorem XC.polyhedron_ctor_xf (T : Xf) (hk : 0 < T.k) (B0 : Polyhedron) (hV : B0.Valid)
    (F input input' : List Polygon) (hperm : List.Perm F B0.faces) (hrel : List.Forall₂ Reoriented F input)
    (himg : List.Forall₂ (XC.ImgOf T) input input') :
    ((∃ B', Polyhedron.mk? input' = .ok B') ↔ (∃ B, Polyhedron.mk? input = .ok B)) ∧
    ∀ B B', Polyhedron.mk? input = .ok B → Polyhedron.mk? input' = .ok B' →
      B.Valid ∧ B'.Valid ∧
      (∀ x, B'.contains (T.pt x) = B.contains x) ∧
      (∀ x, InHull B'.verts (T.pt x) ↔ InHull B.verts x) ∧
      (∀ x, B'.contains (T.pt x) = true ↔ InHull B.verts x) ∧
      List.Perm B'.verts (T.pts B.verts) ∧
      B'.center = T.pt B.center ∧
      B'.faces.length = B.faces.length ∧ B'.edges.length = B.edges.length ∧
      List.Perm B'.edgeLenSqs (B.edgeLenSqs.map (T.k^2 * ·)) ∧
      ((∀ g ∈ input, g.CentreInside) → (∀ g' ∈ input', g'.CentreInside) →
        B'.volume = T.k^3 * B.volume ∧
        List.Perm (B'.faces.map Polygon.areaSq) ((B.faces.map Polygon.areaSq).map (T.k^4 * ·))) ∧
      (B0.FaceLocal → B'.sameB (T.body B) = true) := by
  have hV' := XC.body_valid T hk B0 hV
  have hperm' : List.Perm (F.map T.face) (T.body B0).faces := hperm.map T.face
  have hrel' : List.Forall₂ Reoriented (F.map T.face) input' :=
    XC.forall₂_comp (R := Reoriented) (S := XC.ImgOf T) (Q := Reoriented) T.face
      (fun _ _ _ hr hi => XC.reoriented_face T hr hi) hrel himg
  constructor
  · rw [Polyhedron.mk?_reoriented_iff B0 hV F input hperm hrel,
      Polyhedron.mk?_reoriented_iff (T.body B0) hV' _ input' hperm' hrel']
    exact XC.euler_body T hk B0
  intro B B' h h'
  obtain ⟨hBV, hBc, hBv, hBcop, hBm, hBh, _⟩ := Polyhedron.mk?_reoriented_queries B0 hV F input hperm hrel B h
  obtain ⟨hBV', hBc', hBv', hBcop', hBm', hBh', _⟩ :=
    Polyhedron.mk?_reoriented_queries (T.body B0) hV' _ input' hperm' hrel' B' h'
  obtain ⟨hverts, hedges, _, hcen, hfaces, hpyr, _, _, _, hne⟩ := Polyhedron.mk?_eq input B h
  obtain ⟨hverts', hedges', _, hcen', hfaces', hpyr', _, _, _, _⟩ := Polyhedron.mk?_eq input' B' h'
  have hvin : ∀ g ∈ input, g.Valid := fun g hg => by
    obtain ⟨_, _, hr⟩ := Forall₂.exists_left hrel g hg; exact hr.valid
  have hcin : ∀ g ∈ input, G3D.inPlane g.plane.n g.plane.p g.center = true := fun g hg => by
    obtain ⟨_, _, hr⟩ := Forall₂.exists_left hrel g hg; exact hr.center
  have hvin' : ∀ g' ∈ input', g'.Valid := fun g' hg' => by
    obtain ⟨_, _, hr⟩ := Forall₂.exists_left hrel' g' hg'; exact hr.valid
  -- vertices
  have hvp : List.Perm B'.verts (T.pts B.verts) := by
    rw [hverts, hverts']; exact XC.collectVerts_img_perm T hk input input' himg
  have hcontains : ∀ x, B'.contains (T.pt x) = B.contains x := fun x => by
    rw [hBm', T.body_contains hk, hBm]
  have hhull : ∀ x, InHull B'.verts (T.pt x) ↔ InHull B.verts x := fun x => by
    rw [← T.InHull_pts hk B.verts x]
    exact SameSet.hull_congr (fun p hp => hvp.mem_iff.mp hp) (fun p hp => hvp.mem_iff.mpr hp) (T.pt x)
  have hcenter : B'.center = T.pt B.center := by
    rw [hcen', hcen, ← T.meanV_pts _ hne]
    exact meanV_perm (XC.collectVerts_img_perm T hk input input' himg)
  -- edges
  have hue : SameUEdges input B0.faces := Meas.sameUEdges_reoriented B0 hV F input hperm hrel
  have hue' : SameUEdges input' (T.body B0).faces :=
    Meas.sameUEdges_reoriented (T.body B0) hV' _ input' hperm' hrel'
  have hel : List.Perm B'.edgeLenSqs (B.edgeLenSqs.map (T.k^2 * ·)) := by
    unfold Polyhedron.edgeLenSqs
    rw [hedges, hedges']
    refine (Meas.edgesOf_lenSq_perm _ _ hue').trans ?_
    refine (XC.edgeLenSqs_body_perm T hk B0.faces).trans ?_
    exact ((Meas.edgesOf_lenSq_perm _ _ hue).map _).symm
  refine ⟨hBV, hBV', hcontains, hhull, fun x => by rw [hcontains, hBh], hvp, hcenter, ?_, ?_, hel, ?_, ?_⟩
  · rw [hfaces, hfaces', List.length_map, List.length_map, himg.length_eq]
  · have := hel.length_eq
    simpa [Polyhedron.edgeLenSqs] using this
  · intro hci hci'
    constructor
    · -- volume, pyramid by pyramid
      unfold Polyhedron.volume
      rw [hpyr, hpyr', List.map_map, List.map_map, ← list_sum_map_mul_left]
      congr 1
      symm
      apply forall₂_map_eq
      refine Forall₂.imp_mem himg (fun g hg g' hg' hi => ?_)
      simp only [Function.comp]
      have hvg := hvin g hg
      have hr : Reoriented (T.polygon g) g' := ⟨hi.valid, hi.center, hi.same_verts⟩
      have hne' : g.pts ≠ [] := by
        obtain ⟨p0, _, _, _, hp, _, _⟩ := hvg
        rw [hp]; simp
      rw [hcenter, pyramidVolume_reoriented (T.polygon g) g' (T.polygon_valid hk g hvg)
        (XC.imgOf_polygon T hk g hvg (hcin g hg)).center hr (XC.centreInside_polygon T hk g (hci g hg))
        (hci' g' hg') (T.pt B.center)]
      exact (T.pyramidVolume_polygon hk g hne' B.center).symm
    · obtain ⟨_, _, _, _, har, _⟩ := Polyhedron.mk?_reoriented_measures B0 hV F input hperm hrel hci B h
      obtain ⟨_, _, _, _, har', _⟩ :=
        Polyhedron.mk?_reoriented_measures (T.body B0) hV' _ input' hperm' hrel' hci' B' h'
      refine har'.trans ?_
      refine List.Perm.trans ?_ (har.map _).symm
      rw [XC.body_faces, List.map_map, List.map_map]
      have : ∀ f ∈ B0.faces, ((fun f : Polygon => normSq (vecArea2 f.pts) / 4) ∘ T.face) f =
          ((fun x => T.k^4 * x) ∘ fun f : Polygon => normSq (vecArea2 f.pts) / 4) f := by
        intro f _
        simp only [Function.comp]
        rw [show (T.face f).pts = T.cyc f.pts from rfl, XC.normSq_vecArea2_cyc]; ring
      rw [List.map_congr_left this]
  · intro hloc
    -- `B` itself as the reference body
    obtain ⟨_, hE⟩ := Polyhedron.mk?_reoriented_exactHyp_of_ok B0 hV hloc F input hperm hrel B h
    have hBloc : B.FaceLocal := hE.proper.faceLocal
    have hBvf : B.VertsOnFaces := Polyhedron.mk?_vertsOnFaces input hvin B h
    have hrB : List.Forall₂ Reoriented B.faces input := by
      rw [hfaces]
      have h1 : List.Forall₂ (fun g f => Reoriented f g) input (input.map (flipOf B.center)) :=
        Forall₂.map_self (flipOf B.center) input (fun g hg =>
          ⟨hvin g hg, hcin g hg, fun p => (SameSet.flipOf_mem B.center g (hvin g hg) p).symm⟩)
      exact h1.flip
    have hrB' : List.Forall₂ Reoriented ((T.body B).faces) input' := by
      rw [XC.body_faces]
      exact XC.forall₂_comp (R := Reoriented) (S := XC.ImgOf T) (Q := Reoriented) T.face
        (fun _ _ _ hr hi => XC.reoriented_face T hr hi) hrB himg
    exact Polyhedron.mk?_reoriented_sameB_ref (T.body B) (XC.body_valid T hk B hBV) (XC.body_faceLocal T hk B hBloc)
      (XC.body_vertsOnFaces T B hBvf) _ input' (List.Perm.refl _) hrB' B' h'
#print axioms XC.polyhedron_ctor_xf

/-! ### the usual image inputs -/
/-- the faces `ConvexPolygon` builds from the transformed points (`XC.mk?_xf`) -/
theorem XC.forall₂_imgOf_img (T : Xf) (hk : 0 < T.k) (F input : List Polygon)
    (hrel : List.Forall₂ Reoriented F input) : List.Forall₂ (XC.ImgOf T) input (input.map (XC.img T)) :=
  XC.forall₂_imgOf_map T _ input (fun g hg => by
    obtain ⟨_, _, hr⟩ := Forall₂.exists_left hrel g hg
    exact XC.imgOf_img T hk g hr.valid hr.center)

/-- the transformed polygons `T.polygon g` (same vertex order, pseudo-vector normal) -/
theorem XC.forall₂_imgOf_polygon (T : Xf) (hk : 0 < T.k) (F input : List Polygon)
    (hrel : List.Forall₂ Reoriented F input) : List.Forall₂ (XC.ImgOf T) input (input.map T.polygon) :=
  XC.forall₂_imgOf_map T _ input (fun g hg => by
    obtain ⟨_, _, hr⟩ := Forall₂.exists_left hrel g hg
    exact XC.imgOf_polygon T hk g hr.valid hr.center)

theorem XC.centreInside_map_img (T : Xf) (hk : 0 < T.k) (input : List Polygon)
    (hc : ∀ g ∈ input, g.CentreInside) : ∀ g' ∈ input.map (XC.img T), g'.CentreInside := by
  intro g' hg'
  obtain ⟨g, hg, rfl⟩ := List.mem_map.mp hg'
  exact XC.img_centreInside T hk g (hc g hg)

theorem XC.centreInside_map_polygon (T : Xf) (hk : 0 < T.k) (input : List Polygon)
    (hc : ∀ g ∈ input, g.CentreInside) : ∀ g' ∈ input.map T.polygon, g'.CentreInside := by
  intro g' hg'
  obtain ⟨g, hg, rfl⟩ := List.mem_map.mp hg'
  exact XC.centreInside_polygon T hk g (hc g hg)

/-- a whole face list built by `ConvexPolygon(points, reverse)` from transformed point lists: same exception, or the
    list of image records -/
theorem XC.mapM_mk?_xf (T : Xf) (hk : 0 < T.k) : ∀ pls : List (List V3 × Bool),
    (pls.map (fun pr => (T.pts pr.1, pr.2))).mapM (fun pr => Polygon.mk? pr.1 pr.2) =
      (pls.mapM (fun pr => Polygon.mk? pr.1 pr.2)).map (List.map (XC.img T)) := by
  intro pls
  induction pls with
  | nil => rfl
  | cons pr pls ih =>
    rw [List.map_cons, List.mapM_cons, List.mapM_cons, ih]
    simp only [XC.mk?_xf T hk]
    cases Polygon.mk? pr.1 pr.2 with
    | error e => rfl
    | ok P =>
      cases List.mapM (fun pr => Polygon.mk? pr.1 pr.2) pls with
      | error e => rfl
      | ok Ps => rfl

end G3D
