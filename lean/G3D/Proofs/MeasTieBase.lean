import G3D.Model.MeasRt
import G3D.Model.Measure
import G3D.Proofs.VecRLemmas
import G3D.Proofs.Heron
import G3D.Proofs.FlatPolygon
import G3D.Proofs.Measure
import Mathlib.Analysis.Real.Sqrt
import Mathlib.Tactic.Ring
import Mathlib.Tactic.Linarith
import Mathlib.Tactic.FieldSimp
import Mathlib.Tactic.Positivity
/-! # Measure ties, shared hand-written part (independent of every generated file)
    * the objects of the measure runtime (`G3D/Model/MeasRt.lean`) that READ a model object: `Seg.toM`, `Polygon.toM`,
      `pyrToM`, `Polyhedron.toM` — coordinates cast to ℝ, the plane normal stored NORMALISED as `Plane._init_pn` does;
    * list lemmas: the index loop `for i in range(len(points))` with the wrap-around index is the sum over the cyclic edge
      list (`cyc_fold`), accumulator loops are sums (`foldl_add_sum`, `foldlM_add_sum`), sums do not depend on the order
      (`sum_map_perm` — the two Python sets may be iterated in any order);
    * geometry: half the cross-product length of a triangle lying in the plane is `triNum / (2|n|)` (`tri_half_cross`);
      `v · n̂`, `|n̂| = 1`, `n̂.normalized() = n̂` for the stored unit normal. -/
namespace G3D.MeasTie
open G3D G3D.MeasRt G3D.KTie Real

/-! ### the runtime objects that read a model object -/
/-- a `Segment` : its two end points -/
def segToM (s : Seg) : MSegment := ⟨s.a.toR, s.b.toR⟩

/-- a `Plane` : the point and the STORED normal `n.normalized()` (`Plane._init_pn`) -/
noncomputable def planeToM (pl : Plane) : MPlane := ⟨pl.p.toR, vNormalized pl.n.toR⟩

/-- a `ConvexPolygon` : `points`, `center_point`, `plane` -/
noncomputable def polyToM (P : Polygon) : MPolygon := ⟨P.pts.map V3.toR, P.center.toR, planeToM P.plane⟩

/-- a `Pyramid(polygon, apex)` -/
noncomputable def pyrToM (pa : Polygon × V3) : MPyramid := ⟨polyToM pa.1, pa.2.toR⟩

/-- a `ConvexPolyhedron` : `convex_polygons`, `pyramid_set`, `segment_set` in the model's (insertion) order -/
noncomputable def bodyToM (B : Polyhedron) : MPolyhedron :=
  ⟨B.faces.map polyToM, B.pyramids.map pyrToM, B.edges.map segToM⟩

/-- what the area / volume ties need of a polygon: `Valid` (≥ 3 vertices, all in the stored plane, strictly convex
    about the stored normal) and the stored centre in the plane (true for the vertex mean: `MeasOK.of_mean`) -/
def MeasOK (P : Polygon) : Prop := P.Valid ∧ G3D.inPlane P.plane.n P.plane.p P.center = true

theorem MeasOK.of_mean {P : Polygon} (hv : P.Valid) (hc : P.center = meanV P.pts) : MeasOK P := by
  refine ⟨hv, ?_⟩
  have hne : P.pts ≠ [] := by
    obtain ⟨p0, p1, p2, rest, hp, _, _⟩ := hv
    rw [hp]; exact List.cons_ne_nil _ _
  have hd := Polygon.hull_in_plane P hv (meanV P.pts) (mean_in_hull P.pts hne)
  rw [hc]
  simpa [G3D.inPlane, Plane.den] using hd

/-! ### lists -/
theorem foldl_add_sum {α : Type} (l : List α) (h : α → ℝ) (acc : ℝ) :
    l.foldl (fun a x => a + h x) acc = acc + (l.map h).sum := by
  induction l generalizing acc with
  | nil => simp
  | cons x l ih => simp only [List.foldl_cons, ih, List.map_cons, List.sum_cons]; ring

/-- an accumulator loop whose steps all succeed -/
theorem foldlM_add_sum {α : Type} (l : List α) (f : α → PyE ℝ) (h : α → ℝ) (hf : ∀ x ∈ l, f x = .ok (h x)) (acc : ℝ) :
    l.foldlM (fun a x => do let a : ℝ := (a + (← f x)); pure a) acc = (.ok (acc + (l.map h).sum) : PyE ℝ) := by
  induction l generalizing acc with
  | nil => simp [pure, Except.pure]
  | cons x l ih =>
    rw [List.foldlM_cons, hf x (List.mem_cons_self)]
    show l.foldlM _ (acc + h x) = _
    rw [ih (fun y hy => hf y (List.mem_cons_of_mem _ hy))]
    simp only [List.map_cons, List.sum_cons]
    congr 1; ring

theorem sum_map_perm {α : Type} {l1 l2 : List α} (hp : List.Perm l1 l2) (h : α → ℝ) :
    (l1.map h).sum = (l2.map h).sum := by
  induction hp with
  | nil => rfl
  | cons x _ ih => simp only [List.map_cons, List.sum_cons, ih]
  | swap x y l => simp only [List.map_cons, List.sum_cons]; ring
  | trans _ _ ih1 ih2 => exact ih1.trans ih2

theorem cast_sum (l : List ℚ) : ((l.sum : ℚ) : ℝ) = (List.map (fun (q : ℚ) => ((q : ℚ) : ℝ)) l).sum := by
  induction l with
  | nil => simp
  | cons x l ih => simp only [List.sum_cons, List.map_cons, Rat.cast_add, ih]

theorem cast_sum_map {α : Type} (l : List α) (f : α → ℚ) :
    (((l.map f).sum : ℚ) : ℝ) = (List.map (fun (x : α) => ((f x : ℚ) : ℝ)) l).sum := by
  rw [cast_sum, List.map_map]; rfl

theorem sum_map_congr {α : Type} (l : List α) (f g : α → ℝ) (h : ∀ x ∈ l, f x = g x) :
    (l.map f).sum = (l.map g).sum := by
  rw [List.map_congr_left h]

theorem sum_map_div_const {α : Type} (l : List α) (f : α → ℝ) (k : ℝ) :
    (l.map (fun x => f x / k)).sum = (l.map f).sum / k := by
  induction l with
  | nil => simp
  | cons a l ih => simp only [List.map_cons, List.sum_cons, ih]; ring

/-- the cyclic edge list of a vertex cycle, for any element type: `(p0,p1), …, (p_{k-1},p0)` -/
def cycPairs {α : Type} : List α → List (α × α)
  | [] => []
  | p :: ps => (p :: ps).zip (ps ++ [p])

theorem consec_snoc_zip : ∀ (l : List V3) (x p : V3), consec (x :: l ++ [p]) = (x :: l).zip (l ++ [p]) := by
  intro l
  induction l with
  | nil => intro x p; rfl
  | cons y r ih =>
    intro x p
    show (x, y) :: consec (y :: r ++ [p]) = _
    rw [ih y p]; rfl

theorem closedPairs_eq_cycPairs (l : List V3) : closedPairs l = cycPairs l := by
  cases l with
  | nil => rfl
  | cons p ps => exact consec_snoc_zip ps p p

theorem cycPairs_map {α β : Type} (g : α → β) (l : List α) :
    cycPairs (l.map g) = (cycPairs l).map (Prod.map g g) := by
  cases l with
  | nil => rfl
  | cons p ps =>
    simp only [List.map_cons, cycPairs]
    rw [← List.zip_map]
    simp

theorem cycPairs_eq_range {α : Type} (l : List α) (d : α) :
    cycPairs l = (List.range l.length).map
      (fun k => (l.getD k d, l.getD (if k + 1 = l.length then 0 else k + 1) d)) := by
  cases l with
  | nil => rfl
  | cons p ps =>
    apply List.ext_getElem
    · simp [cycPairs]
    · intro k h1 h2
      have hk : k < ps.length + 1 := by simpa [cycPairs] using h1
      simp only [cycPairs, List.getElem_zip, List.getElem_map, List.getElem_range, List.length_cons]
      congr 1
      · simp [List.getD_eq_getElem?_getD, hk]
      · by_cases he : k + 1 = ps.length + 1
        · have hk' : k = ps.length := by omega
          subst hk'
          simp
        · have hk' : k < ps.length := by omega
          have hne : ¬ k = ps.length := by omega
          simp [hne, List.getD_eq_getElem?_getD, List.getElem_append_left, hk']

theorem pyRange_len {α : Type} (l : List α) : pyRange (pyLen l) = (List.range l.length).map Int.ofNat := by
  simp [pyRange, pyLen]

theorem pyGetD_nat {α : Type} (l : List α) (k : ℕ) (d : α) : pyGetD l (k : ℤ) d = l.getD k d := by
  simp [pyGetD]

/-- **the index loop of `ConvexPolygon.area`** : `for i in range(len(points))` reading `points[i]` and
    `points[0 if i == len(points) - 1 else i + 1]` sums over the cyclic edge list -/
theorem cyc_fold {α : Type} (l : List α) (d : α) (g : α → α → ℝ) (acc : ℝ) :
    (pyRange (pyLen l)).foldl (fun acc i =>
        acc + g (pyGetD l i d) (pyGetD l (if i = pyLen l - 1 then 0 else i + 1) d)) acc
      = acc + ((cycPairs l).map (fun e => g e.1 e.2)).sum := by
  rw [foldl_add_sum, pyRange_len, List.map_map, cycPairs_eq_range l d, List.map_map]
  congr 2
  apply List.map_congr_left
  intro k hk
  have hk' : k < l.length := List.mem_range.mp hk
  simp only [Function.comp]
  have e1 : pyGetD l (Int.ofNat k) d = l.getD k d := pyGetD_nat l k d
  rw [e1]
  by_cases he : k + 1 = l.length
  · have : Int.ofNat k = pyLen l - 1 := by simp [pyLen]; omega
    rw [if_pos this, if_pos he]
    exact congrArg _ (pyGetD_nat l 0 d)
  · have : ¬ Int.ofNat k = pyLen l - 1 := by simp [pyLen]; omega
    rw [if_neg this, if_neg he]
    exact congrArg _ (pyGetD_nat l (k + 1) d)

theorem pyGetD_zero_map (l : List V3) : pyGetD (l.map V3.toR) 0 RVec.zero = (l.headD V3.zero).toR := by
  cases l with
  | nil => simp [pyGetD, toR_zero]
  | cons p ps => simp [pyGetD]

/-! ### casts -/
theorem cast_absQ (x : ℚ) : ((absQ x : ℚ) : ℝ) = |(x : ℝ)| := by
  unfold absQ
  split
  · rename_i h
    have : (x : ℝ) < 0 := by exact_mod_cast h
    rw [abs_of_neg this]; push_cast; ring
  · rename_i h
    have : (0 : ℝ) ≤ (x : ℝ) := by exact_mod_cast (not_lt.mp h)
    rw [abs_of_nonneg this]

theorem absQ_nonneg (x : ℚ) : 0 ≤ absQ x := by
  unfold absQ; split <;> linarith

theorem nn_pos {n : V3} (hn : n ≠ V3.zero) : (0 : ℝ) < ((V3.normSq n : ℚ) : ℝ) := by
  exact_mod_cast G3D.normSq_pos hn

theorem toR_ne_zero {n : V3} (hn : n ≠ V3.zero) : n.toR ≠ RVec.zero :=
  fun h => hn (toR_inj.mp (h.trans toR_zero.symm))

/-! ### the stored unit normal -/
theorem dot_vNormalized (v n : RVec) : RVec.dot v (vNormalized n) = RVec.dot v n / √(RVec.normSq n) := by
  simp only [vNormalized, vLength, RVec.dot, RVec.smul, RVec.normSq]; ring

theorem dot_vNormalized_left (v n : RVec) : RVec.dot (vNormalized n) v = RVec.dot n v / √(RVec.normSq n) := by
  simp only [vNormalized, vLength, RVec.dot, RVec.smul, RVec.normSq]; ring

theorem normSq_vNormalized {n : RVec} (h : n ≠ RVec.zero) : RVec.normSq (vNormalized n) = 1 := by
  have hN := nsq_pos h
  have hs : √(RVec.normSq n) ≠ 0 := (Real.sqrt_pos.mpr hN).ne'
  have : RVec.normSq (vNormalized n) = RVec.normSq n / (√(RVec.normSq n) * √(RVec.normSq n)) := by
    simp only [vNormalized, vLength, RVec.dot, RVec.smul, RVec.normSq]
    field_simp
  rw [this, Real.mul_self_sqrt hN.le, div_self hN.ne']

/-- normalising the stored unit normal once more (`plane.n.normalized()` in `Pyramid.height`) changes nothing -/
theorem vNormalized_idem {n : RVec} (h : n ≠ RVec.zero) : vNormalized (vNormalized n) = vNormalized n := by
  have h1 := normSq_vNormalized h
  have : vLength (vNormalized n) = 1 := by
    show √(RVec.dot (vNormalized n) (vNormalized n)) = 1
    have : RVec.dot (vNormalized n) (vNormalized n) = 1 := h1
    rw [this, Real.sqrt_one]
  show RVec.smul (1 / vLength (vNormalized n)) (vNormalized n) = vNormalized n
  rw [this]
  apply RVec.ext' <;> simp [RVec.smul]

/-! ### a triangle in the plane -/
theorem cross_n_cross_zero (n u v : V3) (hu : V3.dot n u = 0) (hv : V3.dot n v = 0) :
    V3.cross n (V3.cross u v) = V3.zero := by
  simp only [V3.dot] at hu hv
  apply V3.ext' <;> simp only [V3.cross, V3.zero]
  · linear_combination u.x * hv - v.x * hu
  · linear_combination u.y * hv - v.y * hu
  · linear_combination u.z * hv - v.z * hu

/-- for a triangle `c a b` in a plane with normal `n` half the length of `(a-c) × (b-c)` — the value of Heron's formula —
    is the model's `triNum / (2|n|)` -/
theorem tri_half_cross (n c a b : V3) (hn : n ≠ V3.zero)
    (ha : V3.dot n (V3.sub a c) = 0) (hb : V3.dot n (V3.sub b c) = 0) :
    (1 / 2 : ℝ) * √(RVec.normSq (RVec.cross (RVec.sub a.toR c.toR) (RVec.sub b.toR c.toR)))
      = ((triNum n c a b : ℚ) : ℝ) / (2 * √((V3.normSq n : ℚ) : ℝ)) := by
  rw [toR_sub, toR_sub, toR_cross, toR_normSq]
  have hsq := triNum_sq n c a b (cross_n_cross_zero n _ _ ha hb)
  have hN := nn_pos hn
  have hsN : 0 < √((V3.normSq n : ℚ) : ℝ) := Real.sqrt_pos.mpr hN
  have hT : (0 : ℝ) ≤ ((triNum n c a b : ℚ) : ℝ) := by
    have : (0 : ℚ) ≤ triNum n c a b := absQ_nonneg _
    exact_mod_cast this
  set W : ℚ := V3.normSq (V3.cross (V3.sub a c) (V3.sub b c)) with hW
  have hsqR : ((triNum n c a b : ℚ) : ℝ) ^ 2 = ((V3.normSq n : ℚ) : ℝ) * (W : ℝ) := by exact_mod_cast hsq
  have hWN : √(W : ℝ) * √((V3.normSq n : ℚ) : ℝ) = ((triNum n c a b : ℚ) : ℝ) := by
    rw [← Real.sqrt_mul' _ hN.le, mul_comm, ← hsqR, Real.sqrt_sq hT]
  rw [← hWN]
  field_simp

/-- the in-plane predicate of the model, as an equation -/
theorem inPlane_dot {n p x : V3} (h : G3D.inPlane n p x = true) : V3.dot n (V3.sub x p) = 0 := by
  simpa [G3D.inPlane] using h

theorem dot_sub_of_inPlane {n p x c : V3} (hx : G3D.inPlane n p x = true) (hc : G3D.inPlane n p c = true) :
    V3.dot n (V3.sub x c) = 0 := by
  have h1 := inPlane_dot hx
  have h2 := inPlane_dot hc
  simp only [V3.dot, V3.sub] at h1 h2 ⊢
  linear_combination h1 - h2

/-- `distance(point, plane)` on a plane that stores the unit normal `n/|n|` -/
theorem distPointPlane_unit (x p n : RVec) (h : n ≠ RVec.zero) :
    distPointPlane x ⟨p, vNormalized n⟩ = |RVec.dot n (RVec.sub x p)| / √(RVec.normSq n) := by
  simp only [distPointPlane]
  rw [normSq_vNormalized h, Real.sqrt_one, div_one, dot_vNormalized_left, abs_div,
    abs_of_nonneg (Real.sqrt_nonneg _)]

/-- the first vertex of a `Valid` polygon lies in the stored plane -/
theorem head_inPlane (f : Polygon) (hv : f.Valid) :
    V3.dot f.plane.n (V3.sub (f.pts.headD V3.zero) f.plane.p) = 0 := by
  obtain ⟨p0, p1, p2, rest, hp, hpl, _⟩ := hv
  have : f.pts.headD V3.zero ∈ f.pts := by rw [hp]; simp
  exact inPlane_dot (hpl _ this)

/-- `distance(apex, plane)` of a `Valid` polygon is the model's `heightNum / √(n·n)` (the height measured from `points[0]`) -/
theorem distPointPlane_model (f : Polygon) (apex : V3) (hv : f.Valid) :
    distPointPlane apex.toR (planeToM f.plane)
      = ((pyramidHeightNum f apex : ℚ) : ℝ) / √((V3.normSq f.plane.n : ℚ) : ℝ) := by
  have hn : f.plane.n ≠ V3.zero := Polygon.plane_WF f hv
  simp only [planeToM]
  rw [distPointPlane_unit _ _ _ (toR_ne_zero hn), toR_sub, toR_dot, toR_normSq]
  unfold pyramidHeightNum
  rw [cast_absQ]
  have h0 := head_inPlane f hv
  have : V3.dot f.plane.n (V3.sub apex f.plane.p) = V3.dot (V3.sub apex (f.pts.headD V3.zero)) f.plane.n := by
    simp only [V3.dot, V3.sub] at h0 ⊢
    linear_combination h0
  rw [this]

end G3D.MeasTie
