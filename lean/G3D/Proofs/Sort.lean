import G3D.Model.Body
import G3D.Proofs.Construct
import Mathlib.Tactic.Ring
import Mathlib.Tactic.Linarith

/-! The exact angular sort of the polygon constructor (`angCls`, `angLt`, `angEq`, `angInsert`):
    `angLt` is a strict weak order on keys whose incomparability relation is `angEq`; `angInsert` is an
    insertion sort step (with replacement on equal angle); the constructor returns a permutation of the
    de-duplicated input when no two points have the same angle about the centroid. -/
namespace G3D
open V3

/-! ### the class function -/
abbrev Key := Rat × Rat

/-- 2-D cross product of two keys -/
def kcross (k1 k2 : Key) : Rat := k1.1 * k2.2 - k1.2 * k2.1

/-- class of a key -/
def kcls (k : Key) : Nat := angCls k.1 k.2

theorem angCls_cases (y z : Rat) :
    (angCls y z = 0 ∧ z = 0 ∧ 0 ≤ y) ∨ (angCls y z = 1 ∧ 0 < z) ∨
    (angCls y z = 2 ∧ z = 0 ∧ y < 0) ∨ (angCls y z = 3 ∧ z < 0) := by
  unfold angCls
  by_cases hz : z = 0
  · rw [if_pos hz]
    by_cases hy : 0 ≤ y
    · rw [if_pos hy]; exact Or.inl ⟨rfl, hz, hy⟩
    · rw [if_neg hy]; exact Or.inr (Or.inr (Or.inl ⟨rfl, hz, lt_of_not_ge hy⟩))
  · rw [if_neg hz]
    by_cases hp : 0 < z
    · rw [if_pos hp]; exact Or.inr (Or.inl ⟨rfl, hp⟩)
    · rw [if_neg hp]
      exact Or.inr (Or.inr (Or.inr ⟨rfl, lt_of_le_of_ne (le_of_not_gt hp) hz⟩))

theorem kcls_cases (k : Key) :
    (kcls k = 0 ∧ k.2 = 0 ∧ 0 ≤ k.1) ∨ (kcls k = 1 ∧ 0 < k.2) ∨
    (kcls k = 2 ∧ k.2 = 0 ∧ k.1 < 0) ∨ (kcls k = 3 ∧ k.2 < 0) := angCls_cases k.1 k.2

theorem kcls_eq_zero {k : Key} : kcls k = 0 ↔ k.2 = 0 ∧ 0 ≤ k.1 := by
  rcases kcls_cases k with h | h | h | h
  · simp [h.1, h.2.1, h.2.2]
  · simp [h.1, ne_of_gt h.2]
  · simp [h.1, h.2.1, not_le.mpr h.2.2]
  · simp [h.1, ne_of_lt h.2]

theorem kcls_eq_one {k : Key} : kcls k = 1 ↔ 0 < k.2 := by
  rcases kcls_cases k with h | h | h | h
  · simp [h.1, h.2.1]
  · simp [h.1, h.2]
  · simp [h.1, h.2.1]
  · simp [h.1, not_lt.mpr (le_of_lt h.2)]

theorem kcls_eq_two {k : Key} : kcls k = 2 ↔ k.2 = 0 ∧ k.1 < 0 := by
  rcases kcls_cases k with h | h | h | h
  · simp [h.1, h.2.1, not_lt.mpr h.2.2]
  · simp [h.1, ne_of_gt h.2]
  · simp [h.1, h.2.1, h.2.2]
  · simp [h.1, ne_of_lt h.2]

theorem kcls_eq_three {k : Key} : kcls k = 3 ↔ k.2 < 0 := by
  rcases kcls_cases k with h | h | h | h
  · simp [h.1, h.2.1]
  · simp [h.1, not_lt.mpr (le_of_lt h.2)]
  · simp [h.1, h.2.1]
  · simp [h.1, h.2]

theorem kcls_lt_four (k : Key) : kcls k < 4 := by
  rcases kcls_cases k with h | h | h | h <;> rw [h.1] <;> decide

/-- the centroid itself (key `(0,0)`) falls in class 0 -/
theorem kcls_zero : kcls (0, 0) = 0 := kcls_eq_zero.mpr ⟨rfl, le_refl _⟩

/-! ### Prop-level reading of `angLt`, `angEq` -/
theorem angLt_iff (k1 k2 : Key) : angLt k1 k2 = true ↔
    kcls k1 < kcls k2 ∨ (kcls k1 = kcls k2 ∧ (kcls k1 = 1 ∨ kcls k1 = 3) ∧ 0 < kcross k1 k2) := by
  unfold angLt kcls kcross
  simp only
  by_cases h1 : angCls k1.1 k1.2 < angCls k2.1 k2.2
  · simp [h1]
  · rw [if_neg h1]
    by_cases h2 : angCls k1.1 k1.2 = angCls k2.1 k2.2 ∧ (angCls k1.1 k1.2 = 1 ∨ angCls k1.1 k1.2 = 3)
    · rw [if_pos h2]
      simp only [decide_eq_true_eq]
      constructor
      · intro h; exact Or.inr ⟨h2.1, h2.2, h⟩
      · rintro (h | h)
        · exact absurd h h1
        · exact h.2.2
    · rw [if_neg h2]
      constructor
      · intro h; cases h
      · rintro (h | h)
        · exact absurd h h1
        · exact absurd ⟨h.1, h.2.1⟩ h2

theorem angEq_iff (k1 k2 : Key) : angEq k1 k2 = true ↔
    kcls k1 = kcls k2 ∧ ((kcls k1 = 0 ∨ kcls k1 = 2) ∨ kcross k1 k2 = 0) := by
  unfold angEq kcls kcross
  simp only [Bool.and_eq_true, Bool.or_eq_true, beq_iff_eq]

/-- the scaled "three-term" identity of 2-D cross products (z-components) -/
theorem kcross_z (k1 k2 k3 : Key) : k2.2 * kcross k1 k3 = k3.2 * kcross k1 k2 + k1.2 * kcross k2 k3 := by
  unfold kcross; ring
theorem kcross_y (k1 k2 k3 : Key) : k2.1 * kcross k1 k3 = k3.1 * kcross k1 k2 + k1.1 * kcross k2 k3 := by
  unfold kcross; ring
theorem kcross_anti (k1 k2 : Key) : kcross k2 k1 = - kcross k1 k2 := by unfold kcross; ring
theorem kcross_self (k : Key) : kcross k k = 0 := by unfold kcross; ring

/-! ### `angLt` is a strict weak order, `angEq` its equivalence -/
theorem angLt_irrefl (k : Key) : angLt k k = false := by
  cases h : angLt k k with
  | false => rfl
  | true =>
    rcases (angLt_iff k k).mp h with h' | ⟨_, _, h'⟩
    · exact absurd h' (lt_irrefl _)
    · rw [kcross_self] at h'; exact absurd h' (lt_irrefl _)

theorem angLt_asymm {k1 k2 : Key} (h : angLt k1 k2 = true) : angLt k2 k1 = false := by
  cases h2 : angLt k2 k1 with
  | false => rfl
  | true =>
    rcases (angLt_iff k1 k2).mp h with a | ⟨a1, _, a3⟩ <;> rcases (angLt_iff k2 k1).mp h2 with b | ⟨b1, _, b3⟩
    · omega
    · omega
    · omega
    · rw [kcross_anti] at b3; linarith

theorem angLt_trans {k1 k2 k3 : Key} (h12 : angLt k1 k2 = true) (h23 : angLt k2 k3 = true) :
    angLt k1 k3 = true := by
  rw [angLt_iff] at h12 h23 ⊢
  rcases h12 with a | ⟨a1, a2, a3⟩ <;> rcases h23 with b | ⟨b1, b2, b3⟩
  · left; omega
  · left; omega
  · left; omega
  · right
    refine ⟨a1.trans b1, a2, ?_⟩
    have hz := kcross_z k1 k2 k3
    rcases a2 with c | c
    · have z1 := kcls_eq_one.mp c
      have z2 := kcls_eq_one.mp (a1 ▸ c)
      have z3 := kcls_eq_one.mp (b1 ▸ a1 ▸ c)
      have : 0 < k2.2 * kcross k1 k3 := by
        rw [hz]; exact add_pos (mul_pos z3 a3) (mul_pos z1 b3)
      exact (pos_iff_pos_of_mul_pos this).mp z2
    · have z1 := kcls_eq_three.mp c
      have z2 := kcls_eq_three.mp (a1 ▸ c)
      have z3 := kcls_eq_three.mp (b1 ▸ a1 ▸ c)
      have : k2.2 * kcross k1 k3 < 0 := by
        rw [hz]; exact add_neg (mul_neg_of_neg_of_pos z3 a3) (mul_neg_of_neg_of_pos z1 b3)
      by_contra hc
      have hc' : kcross k1 k3 ≤ 0 := le_of_not_gt hc
      have := mul_nonneg_of_nonpos_of_nonpos (le_of_lt z2) hc'
      linarith

theorem angEq_refl (k : Key) : angEq k k = true := by
  rw [angEq_iff]; exact ⟨rfl, Or.inr (kcross_self k)⟩

theorem angEq_symm {k1 k2 : Key} (h : angEq k1 k2 = true) : angEq k2 k1 = true := by
  rw [angEq_iff] at h ⊢
  obtain ⟨h1, h2⟩ := h
  refine ⟨h1.symm, ?_⟩
  rcases h2 with h2 | h2
  · left; rw [← h1]; exact h2
  · right; rw [kcross_anti, h2]; ring

theorem angEq_comm (k1 k2 : Key) : angEq k1 k2 = angEq k2 k1 := by
  cases h : angEq k1 k2 with
  | true => exact (angEq_symm h).symm
  | false =>
    cases h' : angEq k2 k1 with
    | false => rfl
    | true => rw [angEq_symm h'] at h; cases h

theorem angEq_trans {k1 k2 k3 : Key} (h12 : angEq k1 k2 = true) (h23 : angEq k2 k3 = true) :
    angEq k1 k3 = true := by
  rw [angEq_iff] at h12 h23 ⊢
  obtain ⟨a1, a2⟩ := h12
  obtain ⟨b1, b2⟩ := h23
  refine ⟨a1.trans b1, ?_⟩
  rcases a2 with a2 | a2
  · exact Or.inl a2
  · rcases b2 with b2 | b2
    · left; rw [a1]; exact b2
    · rcases kcls_cases k2 with c | c | c | c
      · left; left; rw [a1]; exact c.1
      · right
        have hz := kcross_z k1 k2 k3
        rw [a2, b2] at hz
        rcases mul_eq_zero.mp (by linarith : k2.2 * kcross k1 k3 = 0) with h | h
        · exact absurd h (ne_of_gt c.2)
        · exact h
      · left; right; rw [a1]; exact c.1
      · right
        have hz := kcross_z k1 k2 k3
        rw [a2, b2] at hz
        rcases mul_eq_zero.mp (by linarith : k2.2 * kcross k1 k3 = 0) with h | h
        · exact absurd h (ne_of_lt c.2)
        · exact h

/-- trichotomy, existence: any two keys (including the key `(0,0)` of the centroid) are comparable or equivalent -/
theorem ang_trichotomy (k1 k2 : Key) : angLt k1 k2 = true ∨ angEq k1 k2 = true ∨ angLt k2 k1 = true := by
  rw [angLt_iff, angEq_iff, angLt_iff]
  rcases Nat.lt_trichotomy (kcls k1) (kcls k2) with h | h | h
  · exact Or.inl (Or.inl h)
  · rcases kcls_cases k1 with c | c | c | c
    · exact Or.inr (Or.inl ⟨h, Or.inl (Or.inl c.1)⟩)
    · rcases lt_trichotomy (kcross k1 k2) 0 with x | x | x
      · refine Or.inr (Or.inr (Or.inr ⟨h.symm, Or.inl (h ▸ c.1), ?_⟩))
        rw [kcross_anti]; linarith
      · exact Or.inr (Or.inl ⟨h, Or.inr x⟩)
      · exact Or.inl (Or.inr ⟨h, Or.inl c.1, x⟩)
    · exact Or.inr (Or.inl ⟨h, Or.inl (Or.inr c.1)⟩)
    · rcases lt_trichotomy (kcross k1 k2) 0 with x | x | x
      · refine Or.inr (Or.inr (Or.inr ⟨h.symm, Or.inr (h ▸ c.1), ?_⟩))
        rw [kcross_anti]; linarith
      · exact Or.inr (Or.inl ⟨h, Or.inr x⟩)
      · exact Or.inl (Or.inr ⟨h, Or.inr c.1, x⟩)
  · exact Or.inr (Or.inr (Or.inl h))

/-- trichotomy, exclusivity -/
theorem angEq_not_lt {k1 k2 : Key} (h : angEq k1 k2 = true) : angLt k1 k2 = false := by
  cases h2 : angLt k1 k2 with
  | false => rfl
  | true =>
    rw [angEq_iff] at h; rw [angLt_iff] at h2
    obtain ⟨a1, a2⟩ := h
    rcases h2 with b | ⟨_, b2, b3⟩
    · omega
    · rcases a2 with a2 | a2
      · omega
      · rw [a2] at b3; exact absurd b3 (lt_irrefl _)

theorem angEq_not_gt {k1 k2 : Key} (h : angEq k1 k2 = true) : angLt k2 k1 = false :=
  angEq_not_lt (angEq_symm h)

/-- exactly one of `angLt k1 k2`, `angEq k1 k2`, `angLt k2 k1` -/
theorem ang_trichotomy_unique (k1 k2 : Key) :
    (angLt k1 k2 = true ∧ angEq k1 k2 = false ∧ angLt k2 k1 = false) ∨
    (angLt k1 k2 = false ∧ angEq k1 k2 = true ∧ angLt k2 k1 = false) ∨
    (angLt k1 k2 = false ∧ angEq k1 k2 = false ∧ angLt k2 k1 = true) := by
  rcases ang_trichotomy k1 k2 with h | h | h
  · refine Or.inl ⟨h, ?_, angLt_asymm h⟩
    cases he : angEq k1 k2 with
    | false => rfl
    | true => rw [angEq_not_lt he] at h; cases h
  · exact Or.inr (Or.inl ⟨angEq_not_lt h, h, angEq_not_gt h⟩)
  · refine Or.inr (Or.inr ⟨angLt_asymm h, ?_, h⟩)
    cases he : angEq k1 k2 with
    | false => rfl
    | true => rw [angEq_not_gt he] at h; cases h

/-- `angEq` is compatible with `angLt` on the left -/
theorem angLt_congr_left {k1 k2 k3 : Key} (he : angEq k1 k2 = true) (h : angLt k1 k3 = true) :
    angLt k2 k3 = true := by
  rcases ang_trichotomy k2 k3 with h' | h' | h'
  · exact h'
  · rw [angEq_not_lt (angEq_trans he h')] at h; cases h
  · -- k3 < k2 and k1 < k3 give k1 < k2, contradicting k1 ~ k2
    have := angLt_trans h h'
    rw [angEq_not_lt he] at this; cases this

/-- `angEq` is compatible with `angLt` on the right -/
theorem angLt_congr_right {k1 k2 k3 : Key} (he : angEq k1 k2 = true) (h : angLt k3 k1 = true) :
    angLt k3 k2 = true := by
  rcases ang_trichotomy k3 k2 with h' | h' | h'
  · exact h'
  · rw [angEq_not_gt (angEq_trans he (angEq_symm h'))] at h; cases h
  · have := angLt_trans h' h
    rw [angEq_not_gt he] at this; cases this

theorem angLt_congr {k1 k2 k3 k4 : Key} (h12 : angEq k1 k2 = true) (h34 : angEq k3 k4 = true) :
    angLt k1 k3 = angLt k2 k4 := by
  cases h : angLt k1 k3 with
  | true => exact (angLt_congr_right h34 (angLt_congr_left h12 h)).symm
  | false =>
    cases h' : angLt k2 k4 with
    | false => rfl
    | true =>
      have := angLt_congr_right (angEq_symm h34) (angLt_congr_left (angEq_symm h12) h')
      rw [this] at h; cases h

#print axioms angLt_trans
#print axioms ang_trichotomy_unique
#print axioms angLt_congr

/-! ### scaling the second coordinate (a longer or a flipped normal) -/
theorem kcls_scale_pos {s : Rat} (hs : 0 < s) (k : Key) : kcls (k.1, s * k.2) = kcls k := by
  rcases kcls_cases k with h | h | h | h
  · rw [h.1, kcls_eq_zero]; simp [h.2.1, h.2.2]
  · rw [h.1, kcls_eq_one]; exact mul_pos hs h.2
  · rw [h.1, kcls_eq_two]; simp [h.2.1, h.2.2]
  · rw [h.1, kcls_eq_three]; exact mul_neg_of_pos_of_neg hs h.2

theorem kcls_scale_neg {s : Rat} (hs : s < 0) (k : Key) :
    kcls (k.1, s * k.2) = if kcls k = 1 then 3 else if kcls k = 3 then 1 else kcls k := by
  rcases kcls_cases k with h | h | h | h
  · rw [h.1]; simp only [Nat.reduceEqDiff, if_false]; rw [kcls_eq_zero]; simp [h.2.1, h.2.2]
  · rw [h.1]; simp only [if_true]; rw [kcls_eq_three]; exact mul_neg_of_neg_of_pos hs h.2
  · rw [h.1]; simp only [Nat.reduceEqDiff, if_false]; rw [kcls_eq_two]; simp [h.2.1, h.2.2]
  · rw [h.1]; simp only [Nat.reduceEqDiff, if_false, if_true]; rw [kcls_eq_one]; exact mul_pos_of_neg_of_neg hs h.2

theorem kcross_scale (s : Rat) (k1 k2 : Key) : kcross (k1.1, s * k1.2) (k2.1, s * k2.2) = s * kcross k1 k2 := by
  unfold kcross; ring

/-- `angEq` does not see a rescaling (even a sign flip) of the second frame vector -/
theorem angEq_scale {s : Rat} (hs : s ≠ 0) (k1 k2 : Key) :
    angEq (k1.1, s * k1.2) (k2.1, s * k2.2) = angEq k1 k2 := by
  have key : angEq (k1.1, s * k1.2) (k2.1, s * k2.2) = true ↔ angEq k1 k2 = true := by
    rw [angEq_iff, angEq_iff, kcross_scale]
    have hmul : s * kcross k1 k2 = 0 ↔ kcross k1 k2 = 0 := by
      constructor
      · intro h; rcases mul_eq_zero.mp h with h | h
        · exact absurd h hs
        · exact h
      · intro h; rw [h]; ring
    rw [hmul]
    rcases lt_or_gt_of_ne hs with hneg | hpos
    · rw [kcls_scale_neg hneg, kcls_scale_neg hneg]
      have b1 := kcls_lt_four k1
      have b2 := kcls_lt_four k2
      generalize kcls k1 = c1 at b1 ⊢
      generalize kcls k2 = c2 at b2 ⊢
      have e1 : c1 = 0 ∨ c1 = 1 ∨ c1 = 2 ∨ c1 = 3 := by omega
      have e2 : c2 = 0 ∨ c2 = 1 ∨ c2 = 2 ∨ c2 = 3 := by omega
      rcases e1 with rfl | rfl | rfl | rfl <;> rcases e2 with rfl | rfl | rfl | rfl <;> simp
    · rw [kcls_scale_pos hpos, kcls_scale_pos hpos]
  cases h : angEq k1 k2 with
  | true => exact key.mpr h
  | false =>
    cases h' : angEq (k1.1, s * k1.2) (k2.1, s * k2.2) with
    | false => rfl
    | true => rw [key.mp h'] at h; cases h

/-- a positive rescaling of the second frame vector does not change the order -/
theorem angLt_scale_pos {s : Rat} (hs : 0 < s) (k1 k2 : Key) :
    angLt (k1.1, s * k1.2) (k2.1, s * k2.2) = angLt k1 k2 := by
  have key : angLt (k1.1, s * k1.2) (k2.1, s * k2.2) = true ↔ angLt k1 k2 = true := by
    rw [angLt_iff, angLt_iff, kcross_scale, kcls_scale_pos hs, kcls_scale_pos hs]
    have hmul : 0 < s * kcross k1 k2 ↔ 0 < kcross k1 k2 := by
      constructor
      · intro h; exact (pos_iff_pos_of_mul_pos h).mp hs
      · intro h; exact mul_pos hs h
    rw [hmul]
  cases h : angLt k1 k2 with
  | true => exact key.mpr h
  | false =>
    cases h' : angLt (k1.1, s * k1.2) (k2.1, s * k2.2) with
    | false => rfl
    | true => rw [key.mp h'] at h; cases h

/-- flipping the second frame vector (a reversed normal) reverses the order of two keys outside class 0 -/
theorem angLt_scale_neg {s : Rat} (hs : s < 0) (k1 k2 : Key) (h1 : kcls k1 ≠ 0) (h2 : kcls k2 ≠ 0) :
    angLt (k1.1, s * k1.2) (k2.1, s * k2.2) = angLt k2 k1 := by
  have key : angLt (k1.1, s * k1.2) (k2.1, s * k2.2) = true ↔ angLt k2 k1 = true := by
    rw [angLt_iff, angLt_iff, kcross_scale, kcls_scale_neg hs, kcls_scale_neg hs, kcross_anti k1 k2]
    have hmul : 0 < s * kcross k1 k2 ↔ 0 < - kcross k1 k2 := by
      constructor
      · intro h
        by_contra hc
        have : 0 ≤ kcross k1 k2 := by linarith
        have := mul_nonpos_of_nonpos_of_nonneg (le_of_lt hs) this
        linarith
      · intro h
        have : kcross k1 k2 < 0 := by linarith
        exact mul_pos_of_neg_of_neg hs this
    rw [hmul]
    have b1 := kcls_lt_four k1
    have b2 := kcls_lt_four k2
    generalize kcls k1 = c1 at b1 h1 ⊢
    generalize kcls k2 = c2 at b2 h2 ⊢
    have e1 : c1 = 1 ∨ c1 = 2 ∨ c1 = 3 := by omega
    have e2 : c2 = 1 ∨ c2 = 2 ∨ c2 = 3 := by omega
    rcases e1 with rfl | rfl | rfl <;> rcases e2 with rfl | rfl | rfl <;> simp
  cases h : angLt k2 k1 with
  | true => exact key.mpr h
  | false =>
    cases h' : angLt (k1.1, s * k1.2) (k2.1, s * k2.2) with
    | false => rfl
    | true => rw [key.mp h'] at h; cases h

#print axioms angEq_scale
#print axioms angLt_scale_pos
#print axioms angLt_scale_neg

/-! ### `angInsert` as an insertion-sort step -/
/-- keys strictly increasing (pairwise) w.r.t. `angLt` -/
def KSorted (l : List (Key × V3)) : Prop := l.Pairwise (fun a b => angLt a.1 b.1 = true)

theorem KSorted.nil : KSorted [] := List.Pairwise.nil

theorem angInsert_key_mem (k : Key) (p : V3) : ∀ (l : List (Key × V3)) (e : Key × V3),
    e ∈ angInsert k p l → e.1 = k ∨ ∃ e' ∈ l, e'.1 = e.1 := by
  intro l
  induction l with
  | nil =>
    intro e h
    simp only [angInsert, List.mem_singleton] at h
    exact Or.inl (by rw [h])
  | cons a rest ih =>
    intro e h
    obtain ⟨k', p'⟩ := a
    simp only [angInsert] at h
    split at h
    · rcases List.mem_cons.mp h with h | h
      · exact Or.inr ⟨(k', p'), List.mem_cons_self, by rw [h]⟩
      · exact Or.inr ⟨e, List.mem_cons_of_mem _ h, rfl⟩
    · split at h
      · rcases List.mem_cons.mp h with h | h
        · exact Or.inl (by rw [h])
        · exact Or.inr ⟨e, h, rfl⟩
      · rcases List.mem_cons.mp h with h | h
        · exact Or.inr ⟨(k', p'), List.mem_cons_self, by rw [h]⟩
        · rcases ih e h with h' | ⟨e', he', h'⟩
          · exact Or.inl h'
          · exact Or.inr ⟨e', List.mem_cons_of_mem _ he', h'⟩

/-- inserting into a strictly `angLt`-increasing list yields a strictly `angLt`-increasing list -/
theorem angInsert_sorted (k : Key) (p : V3) : ∀ (l : List (Key × V3)), KSorted l → KSorted (angInsert k p l) := by
  intro l
  induction l with
  | nil => intro _; simp [angInsert, KSorted]
  | cons a rest ih =>
    intro hs
    obtain ⟨k', p'⟩ := a
    unfold KSorted at hs
    rw [List.pairwise_cons] at hs
    obtain ⟨h1, h2⟩ := hs
    simp only [angInsert]
    split
    · exact List.pairwise_cons.mpr ⟨h1, h2⟩
    · rename_i hne
      split
      · rename_i hlt
        refine List.pairwise_cons.mpr ⟨?_, List.pairwise_cons.mpr ⟨h1, h2⟩⟩
        intro e he
        rcases List.mem_cons.mp he with he | he
        · rw [he]; exact hlt
        · exact angLt_trans hlt (h1 e he)
      · rename_i hnlt
        have hgt : angLt k' k = true := by
          rcases ang_trichotomy k k' with h | h | h
          · exact absurd h hnlt
          · exact absurd h hne
          · exact h
        refine List.pairwise_cons.mpr ⟨?_, ih h2⟩
        intro e he
        rcases angInsert_key_mem k p rest e he with h | ⟨e', he', h⟩
        · show angLt k' e.1 = true
          rw [h]; exact hgt
        · show angLt k' e.1 = true
          rw [← h]; exact h1 e' he'

/-- no key of the list has the angle of the new key: plain insertion, a permutation of `(k,p) :: l` -/
theorem angInsert_perm (k : Key) (p : V3) : ∀ (l : List (Key × V3)), (∀ e ∈ l, angEq k e.1 = false) →
    List.Perm (angInsert k p l) ((k, p) :: l) := by
  intro l
  induction l with
  | nil => intro _; exact List.Perm.refl _
  | cons a rest ih =>
    intro hne
    obtain ⟨k', p'⟩ := a
    have h0 : angEq k k' = false := hne (k', p') List.mem_cons_self
    simp only [angInsert, h0, Bool.false_eq_true, if_false]
    split
    · exact List.Perm.refl _
    · exact ((ih (fun e he => hne e (List.mem_cons_of_mem _ he))).cons (k', p')).trans (List.Perm.swap _ _ _)

/-- some key of the (sorted) list has the angle of the new key: the key list is unchanged and the point
    stored under that angle is REPLACED by the new point (`angle_point_dict[angle] = point`) -/
theorem angInsert_replace (k : Key) (p : V3) : ∀ (l : List (Key × V3)), KSorted l →
    (∃ e ∈ l, angEq k e.1 = true) →
    angInsert k p l = l.map (fun e => if angEq k e.1 = true then (e.1, p) else e) := by
  intro l
  induction l with
  | nil => rintro _ ⟨e, he, _⟩; cases he
  | cons a rest ih =>
    intro hs hex
    obtain ⟨k', p'⟩ := a
    unfold KSorted at hs
    rw [List.pairwise_cons] at hs
    obtain ⟨h1, h2⟩ := hs
    simp only [angInsert, List.map_cons]
    by_cases he : angEq k k' = true
    · rw [if_pos he, if_pos he]
      congr 1
      have : ∀ e ∈ rest, (if angEq k e.1 = true then (e.1, p) else e) = e := by
        intro e hmem
        have hlt : angLt k e.1 = true := angLt_congr_left (angEq_symm he) (h1 e hmem)
        have : ¬ angEq k e.1 = true := by
          intro h; rw [angEq_not_lt h] at hlt; cases hlt
        rw [if_neg this]
      rw [List.map_congr_left this, List.map_id']
    · rw [if_neg he, if_neg he]
      have hex' : ∃ e ∈ rest, angEq k e.1 = true := by
        obtain ⟨e, hmem, h⟩ := hex
        rcases List.mem_cons.mp hmem with rfl | hmem
        · exact absurd h he
        · exact ⟨e, hmem, h⟩
      by_cases hlt : angLt k k' = true
      · exfalso
        obtain ⟨e, hmem, h⟩ := hex'
        have := angLt_trans hlt (h1 e hmem)
        rw [angEq_not_lt h] at this; cases this
      · rw [if_neg hlt, ih h2 hex']

/-- the key list after insertion (sorted list): unchanged when the angle is already present, otherwise a
    permutation of `k :: keys` -/
theorem angInsert_keys (k : Key) (p : V3) (l : List (Key × V3)) (hs : KSorted l) :
    ((∃ e ∈ l, angEq k e.1 = true) ∧ (angInsert k p l).map (·.1) = l.map (·.1)) ∨
    ((∀ e ∈ l, angEq k e.1 = false) ∧ List.Perm ((angInsert k p l).map (·.1)) (k :: l.map (·.1))) := by
  by_cases hex : ∃ e ∈ l, angEq k e.1 = true
  · left
    refine ⟨hex, ?_⟩
    rw [angInsert_replace k p l hs hex, List.map_map]
    apply List.map_congr_left
    intro e _
    simp only [Function.comp]
    split <;> rfl
  · right
    have hne : ∀ e ∈ l, angEq k e.1 = false := by
      intro e he
      cases h : angEq k e.1 with
      | false => rfl
      | true => exact absurd ⟨e, he, h⟩ hex
    exact ⟨hne, (angInsert_perm k p l hne).map (·.1)⟩

/-- the number of stored points never exceeds the number inserted -/
theorem angInsert_length_le (k : Key) (p : V3) : ∀ (l : List (Key × V3)),
    (angInsert k p l).length ≤ l.length + 1 := by
  intro l
  induction l with
  | nil => simp [angInsert]
  | cons a rest ih =>
    obtain ⟨k', p'⟩ := a
    simp only [angInsert]
    split
    · simp
    · split
      · simp
      · simp only [List.length_cons]; omega

/-- two strictly sorted lists with the same elements are equal -/
theorem KSorted.eq_of_perm : ∀ (l1 l2 : List (Key × V3)), KSorted l1 → KSorted l2 → List.Perm l1 l2 → l1 = l2 := by
  intro l1
  induction l1 with
  | nil => intro l2 _ _ hp; exact hp.nil_eq
  | cons a t1 ih =>
    intro l2 h1 h2 hp
    cases l2 with
    | nil => exact absurd hp.symm.nil_eq (by simp)
    | cons b t2 =>
      unfold KSorted at h1 h2
      rw [List.pairwise_cons] at h1 h2
      have hab : a = b := by
        by_contra hne
        have ha : a ∈ t2 := by
          have : a ∈ b :: t2 := hp.subset List.mem_cons_self
          rcases List.mem_cons.mp this with h | h
          · exact absurd h hne
          · exact h
        have hb : b ∈ t1 := by
          have : b ∈ a :: t1 := hp.symm.subset List.mem_cons_self
          rcases List.mem_cons.mp this with h | h
          · exact absurd h.symm hne
          · exact h
        have x := h1.1 b hb
        have y := h2.1 a ha
        rw [angLt_asymm x] at y; cases y
      subst hab
      rw [ih t2 h1.2 h2.2 hp.cons_inv]

#print axioms angInsert_sorted
#print axioms angInsert_perm
#print axioms angInsert_replace
#print axioms angInsert_keys
#print axioms KSorted.eq_of_perm

/-! ### the fold of the constructor -/
/-- `_check_and_sort_points`' loop + `sorted(dict)`: the association list (angle key, point) -/
def angSort (key : V3 → Key) (ded : List V3) : List (Key × V3) :=
  ded.foldl (fun acc p => angInsert (key p) p acc) []

theorem foldl_angInsert_sorted (key : V3 → Key) : ∀ (ded : List V3) (acc : List (Key × V3)), KSorted acc →
    KSorted (ded.foldl (fun acc p => angInsert (key p) p acc) acc) := by
  intro ded
  induction ded with
  | nil => intro acc h; exact h
  | cons d ds ih => intro acc h; exact ih _ (angInsert_sorted (key d) d acc h)

/-- the result of the sort is always strictly increasing in angle (whatever the input) -/
theorem angSort_sorted (key : V3 → Key) (ded : List V3) : KSorted (angSort key ded) :=
  foldl_angInsert_sorted key ded [] KSorted.nil

theorem foldl_angInsert_length_le (key : V3 → Key) : ∀ (ded : List V3) (acc : List (Key × V3)),
    (ded.foldl (fun acc p => angInsert (key p) p acc) acc).length ≤ acc.length + ded.length := by
  intro ded
  induction ded with
  | nil => intro acc; simp
  | cons d ds ih =>
    intro acc
    have h1 := ih (angInsert (key d) d acc)
    have h2 := angInsert_length_le (key d) d acc
    simp only [List.foldl_cons, List.length_cons]
    omega

theorem notAngEq_symm (key : V3 → Key) {p q : V3} (h : angEq (key p) (key q) = false) :
    angEq (key q) (key p) = false := by rw [angEq_comm]; exact h

theorem foldl_angInsert_perm (key : V3 → Key) : ∀ (ded : List V3) (acc : List (Key × V3)),
    (∀ e ∈ acc, e.1 = key e.2) →
    (acc.map (·.2) ++ ded).Pairwise (fun p q => angEq (key p) (key q) = false) →
    List.Perm (ded.foldl (fun acc p => angInsert (key p) p acc) acc) (acc ++ ded.map (fun p => (key p, p))) := by
  intro ded
  induction ded with
  | nil => intro acc _ _; simp
  | cons d ds ih =>
    intro acc hk hp
    have hp' := List.pairwise_append.mp hp
    have hne : ∀ e ∈ acc, angEq (key d) e.1 = false := by
      intro e he
      rw [hk e he]
      exact notAngEq_symm key (hp'.2.2 e.2 (List.mem_map_of_mem he) d List.mem_cons_self)
    have hins : List.Perm (angInsert (key d) d acc) ((key d, d) :: acc) := angInsert_perm (key d) d acc hne
    have hk' : ∀ e ∈ angInsert (key d) d acc, e.1 = key e.2 := by
      intro e he
      rcases List.mem_cons.mp (hins.subset he) with rfl | he'
      · rfl
      · exact hk e he'
    have hperm2 : List.Perm ((angInsert (key d) d acc).map (·.2) ++ ds) (acc.map (·.2) ++ d :: ds) := by
      have h1 : List.Perm ((angInsert (key d) d acc).map (·.2)) (d :: acc.map (·.2)) := by
        have := hins.map (·.2)
        simpa using this
      have h2 : List.Perm ((d :: acc.map (·.2)) ++ ds) (acc.map (·.2) ++ d :: ds) := by
        rw [List.cons_append]; exact List.perm_middle.symm
      exact (h1.append_right ds).trans h2
    have hpw : ((angInsert (key d) d acc).map (·.2) ++ ds).Pairwise (fun p q => angEq (key p) (key q) = false) :=
      (List.Perm.pairwise_iff (fun {x y} h => notAngEq_symm key h) hperm2).mpr hp
    have := ih (angInsert (key d) d acc) hk' hpw
    simp only [List.foldl_cons, List.map_cons]
    refine this.trans ?_
    have h2 : List.Perm (((key d, d) :: acc) ++ ds.map (fun p => (key p, p)))
        (acc ++ (key d, d) :: ds.map (fun p => (key p, p))) := by
      rw [List.cons_append]; exact List.perm_middle.symm
    exact (hins.append_right _).trans h2

/-- pairwise distinct angles from `Nodup` + distinct points have distinct angles -/
theorem pairwise_notAngEq_of_nodup (key : V3 → Key) (ded : List V3) (hnd : ded.Nodup)
    (hne : ∀ p ∈ ded, ∀ q ∈ ded, p ≠ q → angEq (key p) (key q) = false) :
    ded.Pairwise (fun p q => angEq (key p) (key q) = false) :=
  List.Pairwise.imp_of_mem (fun {a b} ha hb hab => hne a ha b hb hab) hnd

/-- pairwise distinct angles force a duplicate-free list -/
theorem nodup_of_pairwise_notAngEq (key : V3 → Key) (ded : List V3)
    (h : ded.Pairwise (fun p q => angEq (key p) (key q) = false)) : ded.Nodup :=
  List.Pairwise.imp (fun {a b} hab he => by rw [he, angEq_refl] at hab; cases hab) h

/-- the angular sort of points with pairwise different angles: the stored points are a permutation of the
    input, the association list is strictly increasing and every stored key is the key of its point -/
theorem angSort_perm (key : V3 → Key) (ded : List V3)
    (h : ded.Pairwise (fun p q => angEq (key p) (key q) = false)) :
    List.Perm (angSort key ded) (ded.map (fun p => (key p, p))) := by
  have := foldl_angInsert_perm key ded [] (by simp) (by simpa using h)
  simpa [angSort] using this

theorem sorted_perm (key : V3 → Key) (ded : List V3)
    (h : ded.Pairwise (fun p q => angEq (key p) (key q) = false)) :
    List.Perm ((ded.foldl (fun acc p => angInsert (key p) p acc) []).map (·.2)) ded ∧
    ((ded.foldl (fun acc p => angInsert (key p) p acc) []).map (·.2)).Pairwise
      (fun p q => angLt (key p) (key q) = true) := by
  have hp := angSort_perm key ded h
  have hs := angSort_sorted key ded
  unfold angSort at hp hs
  constructor
  · have := hp.map (·.2)
    simpa [List.map_map, Function.comp_def] using this
  · rw [List.pairwise_map]
    unfold KSorted at hs
    refine List.Pairwise.imp_of_mem ?_ hs
    intro a b ha hb hab
    have ka : a.1 = key a.2 := by
      obtain ⟨p, _, hp'⟩ := List.mem_map.mp (hp.subset ha)
      rw [← hp']
    have kb : b.1 = key b.2 := by
      obtain ⟨p, _, hp'⟩ := List.mem_map.mp (hp.subset hb)
      rw [← hp']
    rw [← ka, ← kb]; exact hab

/-- `sorted_perm` from the hypothesis in its "no two distinct points have the same angle" form -/
theorem sorted_perm' (key : V3 → Key) (ded : List V3) (hnd : ded.Nodup)
    (hne : ∀ p ∈ ded, ∀ q ∈ ded, p ≠ q → angEq (key p) (key q) = false) :
    List.Perm ((ded.foldl (fun acc p => angInsert (key p) p acc) []).map (·.2)) ded ∧
    ((ded.foldl (fun acc p => angInsert (key p) p acc) []).map (·.2)).Pairwise
      (fun p q => angLt (key p) (key q) = true) :=
  sorted_perm key ded (pairwise_notAngEq_of_nodup key ded hnd hne)

#print axioms angSort_sorted
#print axioms sorted_perm

/-! ### `dedupV` -/
theorem dedupV_nodup : ∀ l : List V3, (dedupV l).Nodup := by
  intro l
  induction l with
  | nil => simp [dedupV]
  | cons a l ih =>
    simp only [dedupV, List.nodup_cons, List.mem_filter]
    refine ⟨?_, List.Pairwise.filter _ ih⟩
    rintro ⟨_, h⟩
    simp at h

theorem dedupV_mem_iff : ∀ (l : List V3) (q : V3), q ∈ dedupV l ↔ q ∈ l := by
  intro l
  induction l with
  | nil => intro q; simp [dedupV]
  | cons a l ih =>
    intro q
    simp only [dedupV, List.mem_cons, List.mem_filter, ih]
    constructor
    · rintro (h | h)
      · exact Or.inl h
      · exact Or.inr h.1
    · rintro (h | h)
      · exact Or.inl h
      · by_cases hq : q = a
        · exact Or.inl hq
        · exact Or.inr ⟨h, by simpa using hq⟩

theorem dedupV_of_nodup : ∀ l : List V3, l.Nodup → dedupV l = l := by
  intro l
  induction l with
  | nil => intro _; rfl
  | cons a l ih =>
    intro h
    rw [List.nodup_cons] at h
    simp only [dedupV, ih h.2]
    congr 1
    rw [List.filter_eq_self]
    intro b hb
    have : b ≠ a := fun e => h.1 (e ▸ hb)
    simpa using this

theorem dedupV_idem (l : List V3) : dedupV (dedupV l) = dedupV l := dedupV_of_nodup _ (dedupV_nodup l)

/-! ### the constructor -/
/-- the angle key of a point in the frame (centre `c`, first point `p0`, normal `n`):
    `(pv . v0, pv . (n × v0))` with `pv = p - c`, `v0 = p0 - c` -/
def frameKey (c p0 n : V3) (p : V3) : Key :=
  (dot (sub p c) (sub p0 c), dot (sub p c) (cross n (sub p0 c)))

/-- the angle key used inside the constructor that produced `P` -/
def Polygon.key (P : Polygon) : V3 → Key := frameKey P.center P.plane.p P.plane.n

/-- everything a successful `ConvexPolygon(points, reverse)` stores, with the vertex list as the angular sort
    of the de-duplicated input in the polygon's own frame -/
theorem Polygon.mk?_shape (input : List V3) (rev : Bool) (P : Polygon) (h : Polygon.mk? input rev = .ok P) :
    ∃ p0 p1 p2 rest, dedupV input = p0 :: p1 :: p2 :: rest ∧
      cross (sub p1 p0) (sub p2 p0) ≠ zero ∧
      P.plane = ⟨p0, if rev = true then neg (cross (sub p1 p0) (sub p2 p0)) else cross (sub p1 p0) (sub p2 p0)⟩ ∧
      P.center = meanV (dedupV input) ∧
      sub p0 P.center ≠ zero ∧
      (∀ p ∈ dedupV input, P.plane.contains p = true) ∧
      P.pts = (angSort P.key (dedupV input)).map (·.2) := by
  unfold Polygon.mk? at h
  simp only at h
  by_cases hlen : input.length < 3
  · rw [if_pos hlen] at h; cases h
  · rw [if_neg hlen] at h
    cases hded : dedupV input with
    | nil => rw [hded] at h; cases h
    | cons p0 r1 =>
      cases r1 with
      | nil => rw [hded] at h; cases h
      | cons p1 r2 =>
        cases r2 with
        | nil => rw [hded] at h; cases h
        | cons p2 rest =>
          rw [hded] at h
          simp only at h
          by_cases hn0 : cross (sub p1 p0) (sub p2 p0) = zero
          · rw [if_pos hn0] at h; cases h
          · rw [if_neg hn0] at h
            generalize hn : (if rev = true then neg (cross (sub p1 p0) (sub p2 p0)) else cross (sub p1 p0) (sub p2 p0)) = n at h
            by_cases hv0 : sub p0 (meanV (p0 :: p1 :: p2 :: rest)) = zero
            · rw [if_pos hv0] at h; cases h
            · rw [if_neg hv0] at h
              by_cases hall : (!(p0 :: p1 :: p2 :: rest).all (⟨p0, n⟩ : Plane).contains) = true
              · rw [if_pos hall] at h; cases h
              · rw [if_neg hall] at h
                cases h
                subst hn
                refine ⟨p0, p1, p2, rest, rfl, hn0, rfl, rfl, hv0, ?_, rfl⟩
                intro p hp
                have : (p0 :: p1 :: p2 :: rest).all (⟨p0, if rev = true then neg (cross (sub p1 p0) (sub p2 p0))
                    else cross (sub p1 p0) (sub p2 p0)⟩ : Plane).contains = true := by
                  cases hh : (p0 :: p1 :: p2 :: rest).all (⟨p0, if rev = true then neg (cross (sub p1 p0) (sub p2 p0))
                    else cross (sub p1 p0) (sub p2 p0)⟩ : Plane).contains with
                  | true => rfl
                  | false => rw [hh] at hall; simp at hall
                exact List.all_eq_true.mp this p hp

/-- converse of `mk?_shape`: the constructor succeeds when its four checks pass, and what it returns -/
theorem Polygon.mk?_eq_ok (input : List V3) (rev : Bool) (p0 p1 p2 : V3) (rest : List V3)
    (hlen : 3 ≤ input.length) (hd : dedupV input = p0 :: p1 :: p2 :: rest)
    (hn0 : cross (sub p1 p0) (sub p2 p0) ≠ zero) (hv0 : sub p0 (meanV (dedupV input)) ≠ zero)
    (hall : ∀ p ∈ dedupV input, (⟨p0, if rev = true then neg (cross (sub p1 p0) (sub p2 p0))
        else cross (sub p1 p0) (sub p2 p0)⟩ : Plane).contains p = true) :
    Polygon.mk? input rev = .ok
      ⟨(angSort (frameKey (meanV (dedupV input)) p0 (if rev = true then neg (cross (sub p1 p0) (sub p2 p0))
          else cross (sub p1 p0) (sub p2 p0))) (dedupV input)).map (·.2),
       ⟨p0, if rev = true then neg (cross (sub p1 p0) (sub p2 p0)) else cross (sub p1 p0) (sub p2 p0)⟩,
       meanV (dedupV input)⟩ := by
  unfold Polygon.mk?
  simp only
  rw [if_neg (by omega)]
  rw [hd] at hv0 hall ⊢
  simp only
  rw [if_neg hn0, if_neg hv0]
  have : (p0 :: p1 :: p2 :: rest).all (⟨p0, if rev = true then neg (cross (sub p1 p0) (sub p2 p0))
        else cross (sub p1 p0) (sub p2 p0)⟩ : Plane).contains = true := List.all_eq_true.mpr hall
  rw [if_neg (by rw [this]; simp)]
  rfl

/-- **the constructor returns a permutation of the de-duplicated input** when no two distinct points have
    the same angle about the centroid (in the frame the constructor uses, `P.key`) -/
theorem Polygon.mk?_perm (input : List V3) (rev : Bool) (P : Polygon) (h : Polygon.mk? input rev = .ok P)
    (hne : ∀ p ∈ dedupV input, ∀ q ∈ dedupV input, p ≠ q → angEq (P.key p) (P.key q) = false) :
    List.Perm P.pts (dedupV input) := by
  obtain ⟨p0, p1, p2, rest, _, _, _, _, _, _, hpts⟩ := Polygon.mk?_shape input rev P h
  rw [hpts]
  exact (sorted_perm' P.key (dedupV input) (dedupV_nodup input) hne).1

/-- the stored cycle is strictly increasing in angle (always), -/
theorem Polygon.mk?_sorted (input : List V3) (rev : Bool) (P : Polygon) (h : Polygon.mk? input rev = .ok P)
    (hne : ∀ p ∈ dedupV input, ∀ q ∈ dedupV input, p ≠ q → angEq (P.key p) (P.key q) = false) :
    P.pts.Pairwise (fun p q => angLt (P.key p) (P.key q) = true) := by
  obtain ⟨p0, p1, p2, rest, _, _, _, _, _, _, hpts⟩ := Polygon.mk?_shape input rev P h
  rw [hpts]
  exact (sorted_perm' P.key (dedupV input) (dedupV_nodup input) hne).2

/-- consequences of `mk?_perm`: same vertex set as the input, no repeated vertex, at least three vertices -/
theorem Polygon.mk?_mem_iff (input : List V3) (rev : Bool) (P : Polygon) (h : Polygon.mk? input rev = .ok P)
    (hne : ∀ p ∈ dedupV input, ∀ q ∈ dedupV input, p ≠ q → angEq (P.key p) (P.key q) = false) :
    (∀ p, p ∈ P.pts ↔ p ∈ input) ∧ P.pts.Nodup ∧ P.pts.length = (dedupV input).length ∧ 3 ≤ P.pts.length := by
  have hp := Polygon.mk?_perm input rev P h hne
  obtain ⟨p0, p1, p2, rest, hd, _⟩ := Polygon.mk?_shape input rev P h
  refine ⟨fun p => (hp.mem_iff).trans (dedupV_mem_iff input p), (hp.nodup_iff).mpr (dedupV_nodup input),
    hp.length_eq, ?_⟩
  rw [hp.length_eq, hd]; simp

/-- without any hypothesis the constructor may only DROP points (equal angles overwrite each other) -/
theorem Polygon.mk?_length_le (input : List V3) (rev : Bool) (P : Polygon) (h : Polygon.mk? input rev = .ok P) :
    P.pts.length ≤ (dedupV input).length := by
  obtain ⟨p0, p1, p2, rest, _, _, _, _, _, _, hpts⟩ := Polygon.mk?_shape input rev P h
  rw [hpts, List.length_map]
  have := foldl_angInsert_length_le P.key (dedupV input) []
  simpa [angSort] using this

/-! ### the frame: first point has angle 0 and heads the sorted cycle; centroid is order-independent -/
theorem sumV_perm {l1 l2 : List V3} (h : List.Perm l1 l2) : sumV l1 = sumV l2 := by
  unfold sumV
  exact h.foldl_eq' (fun x _ y _ z => by apply V3.ext' <;> simp only [add] <;> ring) zero

theorem meanV_perm {l1 l2 : List V3} (h : List.Perm l1 l2) : meanV l1 = meanV l2 := by
  unfold meanV; rw [sumV_perm h, h.length_eq]

/-- the reference point of the frame has key `(|v0|², 0)`: class 0 -/
theorem frameKey_self (c p0 n : V3) : kcls (frameKey c p0 n p0) = 0 := by
  rw [kcls_eq_zero]
  simp only [frameKey]
  constructor
  · simp only [dot, cross]; ring
  · simp only [dot]
    nlinarith [sq_nonneg (sub p0 c).x, sq_nonneg (sub p0 c).y, sq_nonneg (sub p0 c).z]

/-- in a strictly increasing list a class-0 element can only be the head -/
theorem sorted_head_of_cls0 (key : V3 → Key) : ∀ (l : List V3),
    l.Pairwise (fun p q => angLt (key p) (key q) = true) → ∀ p0 ∈ l, kcls (key p0) = 0 → l.head? = some p0 := by
  intro l hs p0 hp0 h0
  cases l with
  | nil => cases hp0
  | cons q t =>
    rcases List.mem_cons.mp hp0 with rfl | hmem
    · rfl
    · exfalso
      have := (List.pairwise_cons.mp hs).1 p0 hmem
      rw [angLt_iff, h0] at this
      rcases this with h | ⟨h1, h2, _⟩
      · exact absurd h (Nat.not_lt_zero _)
      · omega

/-- with pairwise different angles the first input point is the first vertex of the stored cycle, so the
    plane point is a vertex and heads the cycle -/
theorem Polygon.mk?_head (input : List V3) (rev : Bool) (P : Polygon) (h : Polygon.mk? input rev = .ok P)
    (hne : ∀ p ∈ dedupV input, ∀ q ∈ dedupV input, p ≠ q → angEq (P.key p) (P.key q) = false) :
    P.pts.head? = some P.plane.p ∧ (dedupV input).head? = some P.plane.p := by
  have hs := Polygon.mk?_sorted input rev P h hne
  have hp := Polygon.mk?_perm input rev P h hne
  obtain ⟨p0, p1, p2, rest, hd, _, hpl, _⟩ := Polygon.mk?_shape input rev P h
  have hp0 : P.plane.p = p0 := by rw [hpl]
  refine ⟨sorted_head_of_cls0 P.key P.pts hs P.plane.p ?_ ?_, by rw [hd, hp0]; rfl⟩
  · rw [hp.mem_iff, hd, hp0]; exact List.mem_cons_self
  · exact frameKey_self _ _ _

#print axioms Polygon.mk?_shape
#print axioms Polygon.mk?_head
#print axioms Polygon.mk?_eq_ok
#print axioms Polygon.mk?_perm
#print axioms Polygon.mk?_sorted
#print axioms Polygon.mk?_mem_iff
end G3D
