import G3D.Extracted.Mpolygon
import G3D.Proofs.MethodsTiePolygonShared
import G3D.Proofs.MethodsTiePolygonSegments
/-! # Tie, group `mpolygon`, role LENGTH (C06): `length` = the list of squared edge lengths `Polygon.edgeLenSqs`.
    Imports `MethodsTiePolygonSegments` (`length` calls `segments`).  Conventions, trusted readings and the deviations found: `G3D.Proofs.MethodsTie`, header of `G3D.Model.PyRtM`. -/
set_option linter.unusedSimpArgs false
set_option linter.unusedVariables false
set_option linter.style.nameCheck false
set_option linter.unusedTactic false
set_option linter.unreachableTactic false
namespace G3D.Tie
open V3 PyRt Extracted

theorem m_ConvexPolygon_length_eq (P : Polygon) :
    m_ConvexPolygon_length (Self.ofPolygon P) =
      match P.segments? with
      | .error e => .error (.ctor e)
      | .ok ss => .ok (sqrtSumRepr (ss.map Seg.lenSq)) := by
  unfold m_ConvexPolygon_length
  rw [m_ConvexPolygon_segments_eq _ P.pts rfl]
  have hs : P.segments? = (closedPairs P.pts).mapM segOf := rfl
  rw [hs]
  cases (closedPairs P.pts).mapM segOf with
  | error e => simp [liftC]
  | ok ss =>
    simp only [liftC, pyrt, List.map_map]
    rw [show Val.int 0 = sqrtSumRepr [] from rfl]
    rw [forIn_repr (Val.obj ∘ sgObj) sqrtSumRepr ss _ (fun s acc => .ok (.yield (acc ++ [s.lenSq])))]
    · rw [forIn_yield ss (fun acc s => acc ++ [s.lenSq]), foldl_snoc_map]
      simp
    · intro s _ acc
      by_cases ha : acc = []
      · simp [Function.comp, sgObj, sqrtSumRepr, ha, pySqrtSumAdd, ForInStep.map']
      · simp [Function.comp, sgObj, sqrtSumRepr, ha, pySqrtSumAdd, ForInStep.map']

/-- the radicands are the model's squared edge lengths -/
theorem segments_lenSq (P : Polygon) (ss : List Seg) (h : P.segments? = .ok ss) : ss.map Seg.lenSq = P.edgeLenSqs :=
  mapM_segOf_lenSq _ ss h

end G3D.Tie
