import G3D.Extracted.Mflat
import G3D.Proofs.MethodsTieBase
/-! # Tie, group `mflat`, role CONSTRUCTION (C09; the error branches serve C15): `Line.__init__`, `Plane._init_pn`, `Plane.__neg__`, `Segment.__init__`, `HalfLine.__init__` = `Line.mk?` / `ofPoints?`, `Plane.ofPN`, `Plane.neg`, `Seg.mk?` / `ofVec?`, `HalfLine.mk?` / `ofVec?`.
    Conventions, trusted readings and the deviations found: `G3D.Proofs.MethodsTie`, header of `G3D.Model.PyRtM`. -/
set_option linter.unusedSimpArgs false
set_option linter.unusedVariables false
set_option linter.style.nameCheck false
set_option linter.unusedTactic false
set_option linter.unreachableTactic false
namespace G3D.Tie
open V3 PyRt Extracted

theorem new_Line_pp (a b : V3) :
    new_Line (.obj (ptObj a)) (.obj (ptObj b)) = ofCtor lnObj (Line.ofPoints? a b) := by
  unfold new_Line m_Line___init__
  msimp [Line.ofPoints?, Line.mk?]
  by_cases h : sub b a = zero <;> simp [h]

theorem new_Line_pv (a d : V3) :
    new_Line (.obj (ptObj a)) (.vec d) = ofCtor lnObj (Line.mk? a d) := by
  unfold new_Line m_Line___init__
  msimp [Line.mk?]
  by_cases h : d = zero <;> simp [h]

theorem new_Line_vv (a d : V3) :
    new_Line (.vec a) (.vec d) = ofCtor lnObj (Line.mk? a d) := by
  unfold new_Line m_Line___init__
  msimp [Line.mk?]
  by_cases h : d = zero <;> simp [h]

theorem m_Plane__init_pn_eq (p n : V3) :
    (do let r ← m_Plane__init_pn Self.empty (.obj (ptObj p)) (.vec n); pyPack_Plane r.1) = ofCtor plObj (Plane.ofPN p n) := by
  unfold m_Plane__init_pn
  msimp [Plane.ofPN]
  by_cases h : n = zero <;> simp [h]

theorem m_Plane___neg___raw (a : Plane) :
    m_Plane___neg__ (Self.ofPlane a) = if a.n = zero then .error (.ctor .zeroDiv) else .ok (.obj (plObj a.neg)) := by
  unfold m_Plane___neg__
  msimp [Plane.ofPN, Plane.neg, neg_eq_zero_iff]
  by_cases h : a.n = zero <;> simp [h]

theorem new_Segment_pp (a b : V3) :
    new_Segment (.obj (ptObj a)) (.obj (ptObj b)) = ofCtor sgObj (Seg.mk? a b) := by
  unfold new_Segment m_Segment___init__
  msimp [Seg.mk?, Seg.mk', Line.ofPoints?, Line.mk?]
  by_cases h : a = b
  · simp [h]
  · have h' : ¬ sub b a = zero := fun e => h (sub_eq_zero_iff.mp e).symm
    simp [h, h']

theorem new_Segment_pv (a v : V3) :
    new_Segment (.obj (ptObj a)) (.vec v) = ofCtor sgObj (Seg.ofVec? a v) := by
  unfold new_Segment m_Segment___init__
  msimp [Seg.ofVec?, Seg.mk', Line.mk?, normSq_le_zero_iff, normSq_eq_zero, sub_add_cancel_left']
  by_cases h : v = zero <;> simp [h]

theorem new_HalfLine_pp (a b : V3) :
    new_HalfLine (.obj (ptObj a)) (.obj (ptObj b)) = ofCtor (fun h => .flat (.halfline h)) (HalfLine.mk? a b) := by
  unfold new_HalfLine m_HalfLine___init__
  msimp [HalfLine.mk?, HalfLine.mk', Line.ofPoints?, Line.mk?]
  by_cases h : a = b
  · simp [h]
  · have h' : ¬ sub b a = zero := fun e => h (sub_eq_zero_iff.mp e).symm
    simp [h, h']

theorem new_HalfLine_pv (a v : V3) :
    new_HalfLine (.obj (ptObj a)) (.vec v) = ofCtor (fun h => .flat (.halfline h)) (HalfLine.ofVec? a v) := by
  unfold new_HalfLine m_HalfLine___init__
  msimp [HalfLine.ofVec?, HalfLine.mk', Line.mk?, normSq_le_zero_iff, normSq_eq_zero]
  by_cases h : v = zero <;> simp [h]

theorem m_Plane___neg___eq (a : Plane) (h : a.WF) : m_Plane___neg__ (Self.ofPlane a) = .ok (.obj (plObj a.neg)) := by
  rw [m_Plane___neg___raw, if_neg h]

end G3D.Tie
