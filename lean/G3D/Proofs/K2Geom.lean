import G3D.Proofs.BodySound
import G3D.Proofs.SortCycle
import G3D.Proofs.K5
/-! Kernel K2, geometric core (independent of the handler code).
    Two `Valid` polygons `a`, `b` in one plane, `C = hull a ∩ hull b`.
    * `Polygon.feas_iff`, `Polygon.slopes`: the edge inequalities of a polygon along a parametrised line of its
      plane, as a 1-D linear programme; slopes of both signs (closed cycle).
    * `chord`: every point of `C` lies between two points of `C` that sit on an edge of `a` or of `b`.
    * `edge_clip`: a point of `hull Q` on a segment `[p, q]` of the plane of `Q` lies between two points of
      `[p, q] ∩ hull Q` each of which is `p`, `q`, or a transversal crossing with an edge of `Q`.
    * `CVertex a b w`: `w` is a vertex of `a` inside `b`, a vertex of `b` inside `a`, or a transversal crossing
      of an edge of `a` with an edge of `b`.
    * `coplanar_hull_of_vertices`: every point of `C` is a convex combination of (at most four) `CVertex` points. -/
namespace G3D
open V3

/-- the edge inequalities `0 ≤ orient n e.1 e.2 (sv + t dv)` as affine constraints `0 ≤ α + β t` -/
def edgeCons (n : V3) (pts : List V3) (sv dv : V3) : List (Rat × Rat) :=
  (closedPairs pts).map (fun e => (orient n e.1 e.2 sv, dot n (cross (sub e.2 e.1) dv)))

theorem Polygon.feas_iff (P : Polygon) (hv : P.Valid) (sv dv : V3)
    (hs : G3D.inPlane P.plane.n P.plane.p sv = true) (hd : dot P.plane.n dv = 0) (t : Rat) :
    Feas (edgeCons P.plane.n P.pts sv dv) t ↔ InHull P.pts (pt sv dv t) := by
  obtain ⟨p0, p1, p2, rest, hp, hpl, htp⟩ := hv
  rw [hp] at hpl htp ⊢
  rw [← polyContains_iff_hull P.plane.n P.plane.p p0 p1 p2 rest hpl htp]
  unfold polyContains Feas edgeCons
  rw [Bool.and_eq_true, List.all_eq_true]
  constructor
  · intro h
    refine ⟨inPlane_pt hs hd t, ?_⟩
    intro e he
    have := h _ (List.mem_map.mpr ⟨e, he, rfl⟩)
    simp only [decide_eq_true_eq]; rw [orient_pt]; exact this
  · rintro ⟨_, h⟩ c hc
    obtain ⟨e, he, rfl⟩ := List.mem_map.mp hc
    have := h e he
    simp only [decide_eq_true_eq] at this; rw [orient_pt] at this; exact this

/-- a closed strictly convex cycle has edges turning both ways against any in-plane direction -/
theorem Polygon.slopes (P : Polygon) (hv : P.Valid) (sv dv : V3) (hdv : dv ≠ zero) (hd : dot P.plane.n dv = 0) :
    (∃ c ∈ edgeCons P.plane.n P.pts sv dv, 0 < c.2) ∧ (∃ c ∈ edgeCons P.plane.n P.pts sv dv, c.2 < 0) := by
  have hn := Polygon.plane_WF P hv
  obtain ⟨p0, p1, p2, rest, hp, hpl, htp⟩ := hv
  rw [hp] at hpl htp ⊢
  set n := P.plane.n with hn'
  set pts := p0 :: p1 :: p2 :: rest with hpts
  set C := edgeCons n pts sv dv with hC
  have hsum : (C.map (·.2)).sum = 0 := by
    have : C.map (·.2) = (closedPairs pts).map (fun e => dot n (cross (sub e.2 e.1) dv)) := by
      rw [hC, edgeCons, List.map_map]; rfl
    rw [this]
    have h2 : ((closedPairs pts).map (fun e => dot n (cross (sub e.2 e.1) dv))).sum =
        dot n (cross (vsum ((closedPairs pts).map (fun e => sub e.2 e.1))) dv) := by
      rw [cross_vsum_left, dot_vsum, List.map_map, List.map_map]; rfl
    rw [h2, closed_diff_sum]; simp [dot, cross, zero]
  have hnz : ∃ b ∈ C.map (·.2), b ≠ 0 := by
    by_contra hall
    push Not at hall
    have hcp : closedPairs pts = (p0, p1) :: (p1, p2) :: consec (p2 :: rest ++ [p0]) := by
      simp [hpts, closedPairs, consec]
    have hb1 : dot n (cross (sub p1 p0) dv) = 0 :=
      hall _ (by rw [hC, edgeCons, List.map_map]; exact List.mem_map.mpr ⟨(p0, p1), by rw [hcp]; simp, rfl⟩)
    have hb2 : dot n (cross (sub p2 p1) dv) = 0 :=
      hall _ (by rw [hC, edgeCons, List.map_map]; exact List.mem_map.mpr ⟨(p1, p2), by rw [hcp]; simp, rfl⟩)
    have hq0 := hpl p0 (by simp [hpts]); have hq1 := hpl p1 (by simp [hpts]); have hq2 := hpl p2 (by simp [hpts])
    have c1 := coplanar_cross_zero hn (inPlane_diff hq0 hq1) hd hb1
    have c2 := coplanar_cross_zero hn (inPlane_diff hq1 hq2) hd hb2
    obtain ⟨k1, hk1⟩ : ∃ k, sub p1 p0 = smul k dv := ⟨_, exists_smul_of_cross_zero hdv c1⟩
    obtain ⟨k2, hk2⟩ : ∃ k, sub p2 p1 = smul k dv := ⟨_, exists_smul_of_cross_zero hdv c2⟩
    have hpos := htp.1 p1 p2 (by simp)
    have : orient n p0 p1 p2 = 0 := by
      have e : sub p2 p0 = smul (k1 + k2) dv := by
        have a1 := congrArg V3.x hk1; have a2 := congrArg V3.y hk1; have a3 := congrArg V3.z hk1
        have b1 := congrArg V3.x hk2; have b2 := congrArg V3.y hk2; have b3 := congrArg V3.z hk2
        simp only [sub, smul] at a1 a2 a3 b1 b2 b3
        apply V3.ext' <;> simp only [sub, smul] <;> linarith
      unfold orient; rw [hk1, e]; simp only [dot, cross, smul]; ring
    rw [this] at hpos; exact lt_irrefl _ hpos
  obtain ⟨⟨bp, hbp, hbpos⟩, ⟨bn, hbn, hbneg⟩⟩ := exists_pos_neg_of_sum_zero _ hsum hnz
  obtain ⟨cp, hcp, rfl⟩ := List.mem_map.mp hbp
  obtain ⟨cn, hcn, rfl⟩ := List.mem_map.mp hbn
  exact ⟨⟨cp, hcp, hbpos⟩, ⟨cn, hcn, hbneg⟩⟩

/-- a tight edge constraint at a feasible parameter: the point lies on that edge -/
theorem Polygon.tight_on_edge (P : Polygon) (hv : P.Valid) (sv dv : V3) (t : Rat)
    (hin : InHull P.pts (pt sv dv t)) (c : Rat × Rat) (hc : c ∈ edgeCons P.plane.n P.pts sv dv)
    (ht : c.1 + c.2 * t = 0) :
    ∃ e ∈ closedPairs P.pts, Between e.1 e.2 (pt sv dv t) ∧ c.2 = dot P.plane.n (cross (sub e.2 e.1) dv) := by
  obtain ⟨p0, p1, p2, rest, hp, hpl, htp⟩ := hv
  unfold edgeCons at hc
  obtain ⟨e, he, rfl⟩ := List.mem_map.mp hc
  simp only at ht
  have hor : orient P.plane.n e.1 e.2 (pt sv dv t) = 0 := by rw [orient_pt]; exact ht
  exact ⟨e, he, on_edge_of_tight P.plane.n P.pts htp e he _ hin hor, rfl⟩

theorem Feas_append (C D : List (Rat × Rat)) (t : Rat) : Feas (C ++ D) t ↔ Feas C t ∧ Feas D t := by
  unfold Feas
  constructor
  · intro h; exact ⟨fun c hc => h c (List.mem_append_left _ hc), fun c hc => h c (List.mem_append_right _ hc)⟩
  · rintro ⟨h1, h2⟩ c hc
    rcases List.mem_append.mp hc with h | h
    · exact h1 c h
    · exact h2 c h

theorem pt_zero (o d : V3) : pt o d 0 = o := by
  apply V3.ext' <;> simp [pt, add, smul]

theorem inPlane_iff_den (pl : Plane) (x : V3) : inPlane pl.n pl.p x = true ↔ pl.den x := by
  rw [← Plane.contains_eq_inPlane, Plane.contains_iff]

/-- two coplanar `Valid` polygons: in-plane points / directions of one are in-plane for the other -/
theorem coplanar_inPlane (a b : Polygon) (ha : a.Valid) (hb : b.Valid) (hco : a.plane.eqv b.plane = true) (x : V3) :
    inPlane a.plane.n a.plane.p x = true ↔ inPlane b.plane.n b.plane.p x = true := by
  rw [inPlane_iff_den, inPlane_iff_den]
  exact Plane.eqv_den a.plane b.plane (Polygon.plane_WF a ha) (Polygon.plane_WF b hb) hco x

theorem hull_inPlane (P : Polygon) (hv : P.Valid) (x : V3) (hx : InHull P.pts x) :
    inPlane P.plane.n P.plane.p x = true :=
  (inPlane_iff_den _ _).mpr (Polygon.hull_in_plane P hv x hx)

/-- a point of both hulls lying on an edge of `a` or of `b` -/
def OnBd (a b : Polygon) (u : V3) : Prop :=
  InHull a.pts u ∧ InHull b.pts u ∧
    ((∃ e ∈ closedPairs a.pts, Between e.1 e.2 u) ∨ (∃ f ∈ closedPairs b.pts, Between f.1 f.2 u))

/-- **chord**: every common point lies between two common points on the boundary of `a` or `b` -/
theorem chord (a b : Polygon) (ha : a.Valid) (hb : b.Valid) (hco : a.plane.eqv b.plane = true)
    (x : V3) (hxa : InHull a.pts x) (hxb : InHull b.pts x) :
    ∃ u v, OnBd a b u ∧ OnBd a b v ∧ Between u v x := by
  obtain ⟨p0, p1, p2, rest, hp, hpl, htp⟩ := id ha
  -- direction: the first edge of `a`
  have h01 : p0 ≠ p1 := by
    intro h; rw [hp] at htp; have := htp.1 p1 p2 (by simp); rw [h, orient_same] at this
    exact lt_irrefl _ this
  set d := sub p1 p0 with hd
  have hdz : d ≠ zero := fun h => h01 (sub_eq_zero_iff.mp h).symm
  have hq0 : inPlane a.plane.n a.plane.p p0 = true := hpl p0 (by rw [hp]; simp)
  have hq1 : inPlane a.plane.n a.plane.p p1 = true := hpl p1 (by rw [hp]; simp)
  have hda : dot a.plane.n d = 0 := inPlane_diff hq0 hq1
  have hdb : dot b.plane.n d = 0 :=
    inPlane_diff ((coplanar_inPlane a b ha hb hco p0).mp hq0) ((coplanar_inPlane a b ha hb hco p1).mp hq1)
  have hsa := hull_inPlane a ha x hxa
  have hsb := hull_inPlane b hb x hxb
  set CA := edgeCons a.plane.n a.pts x d with hCA
  set CB := edgeCons b.plane.n b.pts x d with hCB
  have hfeas : ∀ t, Feas (CA ++ CB) t ↔ InHull a.pts (pt x d t) ∧ InHull b.pts (pt x d t) := by
    intro t
    rw [Feas_append, Polygon.feas_iff a ha x d hsa hda t, Polygon.feas_iff b hb x d hsb hdb t]
  have h0 : Feas (CA ++ CB) 0 := by rw [hfeas, pt_zero]; exact ⟨hxa, hxb⟩
  obtain ⟨⟨cp, hcp, hcpp⟩, ⟨cn, hcn, hcnn⟩⟩ := Polygon.slopes a ha x d hdz hda
  obtain ⟨tlo, hflo, hlo, clo, hclo, _, hclot⟩ := lp_lo (CA ++ CB) 0 h0 ⟨cp, List.mem_append_left _ hcp, hcpp⟩
  obtain ⟨thi, hfhi, hhi, chi, hchi, _, hchit⟩ := lp_hi (CA ++ CB) 0 h0 ⟨cn, List.mem_append_left _ hcn, hcnn⟩
  have key : ∀ t c, Feas (CA ++ CB) t → c ∈ CA ++ CB → c.1 + c.2 * t = 0 → OnBd a b (pt x d t) := by
    intro t c hft hc hct
    obtain ⟨h1, h2⟩ := (hfeas t).mp hft
    refine ⟨h1, h2, ?_⟩
    rcases List.mem_append.mp hc with hc | hc
    · obtain ⟨e, he, hbt, _⟩ := Polygon.tight_on_edge a ha x d t h1 c hc hct
      exact Or.inl ⟨e, he, hbt⟩
    · obtain ⟨e, he, hbt, _⟩ := Polygon.tight_on_edge b hb x d t h2 c hc hct
      exact Or.inr ⟨e, he, hbt⟩
  refine ⟨pt x d tlo, pt x d thi, key tlo clo hflo hclo hclot, key thi chi hfhi hchi hchit, ?_⟩
  have l0 : tlo ≤ 0 := hlo 0 h0
  have l1 : 0 ≤ thi := hhi 0 h0
  rw [Between_pt (le_trans l0 l1)]
  exact ⟨0, l0, l1, (pt_zero x d).symm⟩

/-- end point of the clipped edge: an end point of `[p, q]` or a transversal crossing with an edge of `Q` -/
def ClipEnd (Q : Polygon) (p q w : V3) : Prop :=
  InHull Q.pts w ∧ Between p q w ∧
    (w = p ∨ w = q ∨ ∃ f ∈ closedPairs Q.pts, Between f.1 f.2 w ∧ cross (sub f.2 f.1) (sub q p) ≠ zero)

theorem pt_one_sub (p q : V3) : pt p (sub q p) 1 = q := by
  apply V3.ext' <;> simp [pt, add, smul, sub]

/-- **edge clip**: `[p, q] ∩ hull Q` is spanned by end points of `[p, q]` and transversal crossings -/
theorem edge_clip (Q : Polygon) (hv : Q.Valid) (p q : V3)
    (hp : inPlane Q.plane.n Q.plane.p p = true) (hq : inPlane Q.plane.n Q.plane.p q = true)
    (u : V3) (hu : Between p q u) (huQ : InHull Q.pts u) :
    ∃ w1 w2, ClipEnd Q p q w1 ∧ ClipEnd Q p q w2 ∧ Between w1 w2 u := by
  set d := sub q p with hd
  have hdn : dot Q.plane.n d = 0 := inPlane_diff hp hq
  obtain ⟨tu, htu0, htu1, hut⟩ := hu
  have hut' : u = pt p d tu := hut
  set CQ := edgeCons Q.plane.n Q.pts p d with hCQ
  set C : List (Rat × Rat) := (0, 1) :: (1, -1) :: CQ with hC
  have hfeas : ∀ t, Feas C t ↔ (0 ≤ t ∧ t ≤ 1 ∧ InHull Q.pts (pt p d t)) := by
    intro t
    rw [← Polygon.feas_iff Q hv p d hp hdn t]
    unfold Feas
    rw [hC]
    constructor
    · intro h
      have h1 := h (0, 1) (by simp)
      have h2 := h (1, -1) (by simp)
      simp only at h1 h2
      exact ⟨by linarith, by linarith, fun c hc => h c (List.mem_cons_of_mem _ (List.mem_cons_of_mem _ hc))⟩
    · rintro ⟨h1, h2, h3⟩ c hc
      rcases List.mem_cons.mp hc with rfl | hc
      · simp only; linarith
      rcases List.mem_cons.mp hc with rfl | hc
      · simp only; linarith
      · exact h3 c hc
  have h0 : Feas C tu := by rw [hfeas]; rw [hut'] at huQ; exact ⟨htu0, htu1, huQ⟩
  obtain ⟨tlo, hflo, hlo, clo, hclo, hclop, hclot⟩ := lp_lo C tu h0 ⟨(0, 1), by simp [hC], by norm_num⟩
  obtain ⟨thi, hfhi, hhi, chi, hchi, hchin, hchit⟩ := lp_hi C tu h0 ⟨(1, -1), by simp [hC], by norm_num⟩
  have key : ∀ t c, Feas C t → c ∈ C → c.2 ≠ 0 → c.1 + c.2 * t = 0 → ClipEnd Q p q (pt p d t) := by
    intro t c hft hc hne hct
    obtain ⟨h1, h2, h3⟩ := (hfeas t).mp hft
    refine ⟨h3, ⟨t, h1, h2, rfl⟩, ?_⟩
    rw [hC] at hc
    rcases List.mem_cons.mp hc with rfl | hc
    · left
      simp only at hct
      have : t = 0 := by linarith
      rw [this, pt_zero]
    rcases List.mem_cons.mp hc with rfl | hc
    · right; left
      simp only at hct
      have : t = 1 := by linarith
      rw [this, hd, pt_one_sub]
    · right; right
      obtain ⟨f, hf, hbt, hsl⟩ := Polygon.tight_on_edge Q hv p d t h3 c hc hct
      refine ⟨f, hf, hbt, ?_⟩
      intro hz
      apply hne
      rw [hsl, hz]; simp [dot, zero]
  refine ⟨pt p d tlo, pt p d thi, key tlo clo hflo hclo (ne_of_gt hclop) hclot,
    key thi chi hfhi hchi (ne_of_lt hchin) hchit, ?_⟩
  have l0 : tlo ≤ tu := hlo tu h0
  have l1 : tu ≤ thi := hhi tu h0
  rw [Between_pt (le_trans l0 l1)]
  exact ⟨tu, l0, l1, hut'⟩

/-- **vertex of `hull a ∩ hull b`** (the three kinds of points the handler collects) -/
def CVertex (a b : Polygon) (w : V3) : Prop :=
  (w ∈ a.pts ∧ InHull b.pts w) ∨ (w ∈ b.pts ∧ InHull a.pts w) ∨
    (∃ e ∈ closedPairs a.pts, ∃ f ∈ closedPairs b.pts, Between e.1 e.2 w ∧ Between f.1 f.2 w ∧
      cross (sub e.2 e.1) (sub f.2 f.1) ≠ zero)

theorem cross_ne_zero_swap {u v : V3} (h : cross u v ≠ zero) : cross v u ≠ zero := by
  intro hz; apply h; rw [cross_anticomm, hz]; apply V3.ext' <;> simp [neg, zero]

/-- a boundary point of `C` lies between two `CVertex` points -/
theorem onBd_between_vertices (a b : Polygon) (ha : a.Valid) (hb : b.Valid) (hco : a.plane.eqv b.plane = true)
    (u : V3) (hu : OnBd a b u) : ∃ w1 w2, CVertex a b w1 ∧ CVertex a b w2 ∧ Between w1 w2 u := by
  obtain ⟨hua, hub, hedge⟩ := hu
  rcases hedge with ⟨e, he, hbt⟩ | ⟨f, hf, hbt⟩
  · have hm := closedPairs_mem a.pts e he
    have hpa := ha.pts_in_plane
    have h1 : inPlane b.plane.n b.plane.p e.1 = true :=
      (coplanar_inPlane a b ha hb hco e.1).mp (by rw [← Plane.contains_eq_inPlane]; exact hpa _ hm.1)
    have h2 : inPlane b.plane.n b.plane.p e.2 = true :=
      (coplanar_inPlane a b ha hb hco e.2).mp (by rw [← Plane.contains_eq_inPlane]; exact hpa _ hm.2)
    obtain ⟨w1, w2, c1, c2, hb12⟩ := edge_clip b hb e.1 e.2 h1 h2 u hbt hub
    have conv : ∀ w, ClipEnd b e.1 e.2 w → CVertex a b w := by
      rintro w ⟨hwb, hwe, h | h | ⟨f, hf, hfw, hcr⟩⟩
      · exact Or.inl ⟨by rw [h]; exact hm.1, hwb⟩
      · exact Or.inl ⟨by rw [h]; exact hm.2, hwb⟩
      · exact Or.inr (Or.inr ⟨e, he, f, hf, hwe, hfw, cross_ne_zero_swap hcr⟩)
    exact ⟨w1, w2, conv w1 c1, conv w2 c2, hb12⟩
  · have hm := closedPairs_mem b.pts f hf
    have hpb := hb.pts_in_plane
    have h1 : inPlane a.plane.n a.plane.p f.1 = true :=
      (coplanar_inPlane a b ha hb hco f.1).mpr (by rw [← Plane.contains_eq_inPlane]; exact hpb _ hm.1)
    have h2 : inPlane a.plane.n a.plane.p f.2 = true :=
      (coplanar_inPlane a b ha hb hco f.2).mpr (by rw [← Plane.contains_eq_inPlane]; exact hpb _ hm.2)
    obtain ⟨w1, w2, c1, c2, hb12⟩ := edge_clip a ha f.1 f.2 h1 h2 u hbt hua
    have conv : ∀ w, ClipEnd a f.1 f.2 w → CVertex a b w := by
      rintro w ⟨hwa, hwf, h | h | ⟨e, he, hew, hcr⟩⟩
      · exact Or.inr (Or.inl ⟨by rw [h]; exact hm.1, hwa⟩)
      · exact Or.inr (Or.inl ⟨by rw [h]; exact hm.2, hwa⟩)
      · exact Or.inr (Or.inr ⟨e, he, f, hf, hew, hwf, hcr⟩)
    exact ⟨w1, w2, conv w1 c1, conv w2 c2, hb12⟩

/-- **K2, geometric completeness.**  Two `Valid` polygons in one plane: every point of `hull a ∩ hull b` is a
    convex combination of at most four vertices of the intersection (`CVertex`: contained vertices of either
    polygon and transversal edge crossings). -/
theorem coplanar_hull_of_vertices (a b : Polygon) (ha : a.Valid) (hb : b.Valid) (hco : a.plane.eqv b.plane = true)
    (x : V3) (hxa : InHull a.pts x) (hxb : InHull b.pts x) :
    ∃ w1 w2 w3 w4, CVertex a b w1 ∧ CVertex a b w2 ∧ CVertex a b w3 ∧ CVertex a b w4 ∧
      InHull [w1, w2, w3, w4] x := by
  obtain ⟨u, v, hu, hv, huv⟩ := chord a b ha hb hco x hxa hxb
  obtain ⟨w1, w2, c1, c2, h12⟩ := onBd_between_vertices a b ha hb hco u hu
  obtain ⟨w3, w4, c3, c4, h34⟩ := onBd_between_vertices a b ha hb hco v hv
  refine ⟨w1, w2, w3, w4, c1, c2, c3, c4, ?_⟩
  have hu' : InHull [w1, w2, w3, w4] u := between_in_hull (by simp) (by simp) h12
  have hv' : InHull [w1, w2, w3, w4] v := between_in_hull (by simp) (by simp) h34
  exact InHull.between hu' hv' huv

#print axioms coplanar_hull_of_vertices
end G3D
