import G3D.Extracted.Mflat
import G3D.Proofs.MethodsTieBase
import G3D.Proofs.Equality
/-! # Tie, group `mflat` (properties C05 / C07 / C08 / C09 / C15 / C20): the methods of Line, Plane, Segment, HalfLine —
    extracted body (`G3D.Extracted.Mflat`, tools/extract_mflat.py over tools/mextract.py) = hand-written model
    (`G3D.Model.Flat`, `Move`, `PlaneForms`, `InterFlat.HalfLine.containsHL`, `Proofs.Equality.HalfLine.eqv`).

    One theorem per method and operand kind, for ALL operands of that kind.  `*_raw` theorems state the exact behaviour of
    the code including the exceptions the model does not have (the model's functions are total); the `*_eq` corollaries
    are the model equations under the well-formedness condition that excludes those exceptions:
    * `Line.move`, `Segment.move`, `HalfLine.move` re-run `Line(..)` (and `Segment(..)` / `HalfLine(..)`), which raise
      ValueError on a zero direction — impossible for constructed objects (`Line.WF`, `Seg.WF`, `HalfLine.WF`);
    * `Plane.__neg__`, `Plane.move` re-normalise the normal: ZeroDivisionError on a zero normal (`Plane.WF`);
    * `Segment.__contains__(Point)` divides by `|end - start|²` (ZeroDivisionError for a degenerate segment unless the
      point is the start point); the model computes `x / 0 = 0`;
    * `HalfLine.__eq__` normalises both vectors (ZeroDivisionError on a zero vector, only reached when the points agree).
    Inner calls of other methods (`x in self.line`, `Line(a, b)`, `p.move(v)`, `self.parallel(o)`) are the model's
    functions (`pyInM`, `pyLineM`, ..): each is tied by its own theorem here, so together they cover the call tree. -/
set_option linter.unusedSimpArgs false
set_option linter.unusedVariables false
set_option linter.style.nameCheck false
namespace G3D.Tie
open V3 PyRt Extracted

/-! ## Line -/
theorem new_Line_pp (a b : V3) :
    new_Line (.obj (ptObj a)) (.obj (ptObj b)) = ofCtor lnObj (Line.ofPoints? a b) := by
  unfold new_Line m_Line___init__
  msimp [Line.ofPoints?, Line.mk?]
  by_cases h : sub b a = zero <;> simp [h]

theorem new_Line_pv (a d : V3) :
    new_Line (.obj (ptObj a)) (.vec d) = ofCtor lnObj (Line.mk? a d) := by
  unfold new_Line m_Line___init__
  msimp [Line.mk?]
  by_cases h : d = zero <;> simp [h]

theorem new_Line_vv (a d : V3) :
    new_Line (.vec a) (.vec d) = ofCtor lnObj (Line.mk? a d) := by
  unfold new_Line m_Line___init__
  msimp [Line.mk?]
  by_cases h : d = zero <;> simp [h]

theorem m_Line___contains___point (l : Line) (p : V3) :
    m_Line___contains__ (Self.ofLine l) (.obj (ptObj p)) = .ok (.bool (l.contains p)) := by
  unfold m_Line___contains__
  msimp [Line.contains]

theorem m_Line___contains___seg (l : Line) (s : Seg) :
    m_Line___contains__ (Self.ofLine l) (.obj (sgObj s)) = .ok (.bool (l.containsSeg s)) := by
  unfold m_Line___contains__
  msimp

theorem m_Line___contains___halfline (l : Line) (h : HalfLine) :
    m_Line___contains__ (Self.ofLine l) (.obj (.flat (.halfline h))) = .ok (.bool (l.containsHalfLine h)) := by
  unfold m_Line___contains__
  msimp

theorem m_Line___contains___polygon (l : Line) (P : Polygon) :
    m_Line___contains__ (Self.ofLine l) (.obj (.polygon P)) = .error .notImpl := by
  unfold m_Line___contains__
  msimp

theorem m_Line___contains___line (l o : Line) :
    m_Line___contains__ (Self.ofLine l) (.obj (lnObj o)) = .error .notImpl := by
  unfold m_Line___contains__
  msimp

theorem m_Line___eq___eq (l o : Line) :
    m_Line___eq__ (Self.ofLine l) (.obj (lnObj o)) = .ok (.bool (l.eqv o)) := by
  unfold m_Line___eq__
  msimp [Line.eqv]

theorem m_Line___eq___other (l : Line) (a : Plane) :
    m_Line___eq__ (Self.ofLine l) (.obj (plObj a)) = .ok (.bool false) := by
  unfold m_Line___eq__
  msimp

theorem m_Line_move_raw (l : Line) (v : V3) :
    m_Line_move (Self.ofLine l) (.vec v) =
      if l.dv = zero then .error (.ctor .value)
      else .ok (Self.ofLine (l.move v).1, .obj (lnObj (l.move v).2)) := by
  unfold m_Line_move
  msimp [Line.move, Line.mk?, add]
  by_cases h : l.dv = zero <;> simp [h]

/-! ## Plane -/
theorem m_Plane__init_pn_eq (p n : V3) :
    (do let r ← m_Plane__init_pn Self.empty (.obj (ptObj p)) (.vec n); pyPack_Plane r.1) = ofCtor plObj (Plane.ofPN p n) := by
  unfold m_Plane__init_pn
  msimp [Plane.ofPN]
  by_cases h : n = zero <;> simp [h]

theorem m_Plane___contains___eq_point (a : Plane) (x : V3) :
    m_Plane___contains__ (Self.ofPlane a) (.obj (ptObj x)) = .ok (.bool (a.contains x)) := by
  unfold m_Plane___contains__
  msimp [Plane.contains, abs_sub_tol]

theorem m_Plane___contains___eq_line (a : Plane) (l : Line) :
    m_Plane___contains__ (Self.ofPlane a) (.obj (lnObj l)) = .ok (.bool (a.containsLine l)) := by
  unfold m_Plane___contains__
  msimp [Plane.containsLine]

theorem m_Plane___contains___eq_seg (a : Plane) (s : Seg) :
    m_Plane___contains__ (Self.ofPlane a) (.obj (sgObj s)) = .ok (.bool (a.containsSeg s)) := by
  unfold m_Plane___contains__
  msimp

theorem m_Plane___contains___eq_halfline (a : Plane) (h : HalfLine) :
    m_Plane___contains__ (Self.ofPlane a) (.obj (.flat (.halfline h))) = .ok (.bool (a.containsHalfLine h)) := by
  unfold m_Plane___contains__
  msimp

theorem m_Plane___contains___eq_polygon (a : Plane) (P : Polygon) :
    m_Plane___contains__ (Self.ofPlane a) (.obj (.polygon P)) = .ok (.bool (P.inPlane a)) := by
  unfold m_Plane___contains__
  msimp

theorem m_Plane___contains___eq_plane (a b : Plane) :
    m_Plane___contains__ (Self.ofPlane a) (.obj (plObj b)) = .error .notImpl := by
  unfold m_Plane___contains__
  msimp

theorem m_Plane___eq___eq (a b : Plane) :
    m_Plane___eq__ (Self.ofPlane a) (.obj (plObj b)) = .ok (.bool (a.eqv b)) := by
  unfold m_Plane___eq__
  msimp [Plane.eqv]

theorem m_Plane___eq___other (a : Plane) (l : Line) :
    m_Plane___eq__ (Self.ofPlane a) (.obj (lnObj l)) = .ok (.bool false) := by
  unfold m_Plane___eq__
  msimp

theorem m_Plane___neg___raw (a : Plane) :
    m_Plane___neg__ (Self.ofPlane a) = if a.n = zero then .error (.ctor .zeroDiv) else .ok (.obj (plObj a.neg)) := by
  unfold m_Plane___neg__
  msimp [Plane.ofPN, Plane.neg, neg_eq_zero_iff]
  by_cases h : a.n = zero <;> simp [h]

theorem m_Plane_move_raw (a : Plane) (v : V3) :
    m_Plane_move (Self.ofPlane a) (.vec v) =
      if a.n = zero then .error (.ctor .zeroDiv) else .ok (Self.ofPlane (a.move v).1, .obj (plObj (a.move v).2)) := by
  unfold m_Plane_move
  msimp [Plane.ofPN, Plane.move]
  by_cases h : a.n = zero <;> simp [h]

/-! ## Segment -/
theorem new_Segment_pp (a b : V3) :
    new_Segment (.obj (ptObj a)) (.obj (ptObj b)) = ofCtor sgObj (Seg.mk? a b) := by
  unfold new_Segment m_Segment___init__
  msimp [Seg.mk?, Seg.mk', Line.ofPoints?, Line.mk?]
  by_cases h : a = b
  · simp [h]
  · have h' : ¬ sub b a = zero := fun e => h (sub_eq_zero_iff.mp e).symm
    simp [h, h']

theorem new_Segment_pv (a v : V3) :
    new_Segment (.obj (ptObj a)) (.vec v) = ofCtor sgObj (Seg.ofVec? a v) := by
  unfold new_Segment m_Segment___init__
  msimp [Seg.ofVec?, Seg.mk', Line.mk?, normSq_le_zero_iff, normSq_eq_zero, sub_add_cancel_left']
  by_cases h : v = zero <;> simp [h]

theorem m_Segment___contains___raw_point (s : Seg) (x : V3) :
    m_Segment___contains__ (Self.ofSeg s) (.obj (ptObj x)) =
      if sub x s.a = zero then .ok (.bool true)
      else if s.b = s.a then .error (.ctor .zeroDiv) else .ok (.bool (s.contains x)) := by
  unfold m_Segment___contains__
  msimp [Seg.contains, normSq_le_zero_iff, normSq_eq_zero, sub_eq_zero_iff]
  by_cases h1 : x = s.a
  · simp [h1]
  · by_cases h2 : s.b = s.a
    · simp [h1, h2]
    · simp [h1, h2]
      cases s.line.contains x <;> simp [pyAnd_bool, Bool.and_assoc]

theorem m_Segment___contains___eq_seg (s o : Seg) :
    m_Segment___contains__ (Self.ofSeg s) (.obj (sgObj o)) = .ok (.bool (s.containsSeg o)) := by
  unfold m_Segment___contains__
  msimp [Seg.containsSeg]

theorem m_Segment___contains___eq_other (s : Seg) (l : Line) :
    m_Segment___contains__ (Self.ofSeg s) (.obj (lnObj l)) = .ok (.bool false) := by
  unfold m_Segment___contains__
  msimp

theorem m_Segment_in__eq_line (s : Seg) (l : Line) :
    m_Segment_in_ (Self.ofSeg s) (.obj (lnObj l)) = .ok (.bool (l.containsSeg s)) := by
  unfold m_Segment_in_
  msimp [Line.containsSeg]

theorem m_Segment_in__eq_plane (s : Seg) (a : Plane) :
    m_Segment_in_ (Self.ofSeg s) (.obj (plObj a)) = .ok (.bool (a.containsSeg s)) := by
  unfold m_Segment_in_
  msimp [Plane.containsSeg]

theorem m_Segment___eq___eq (s o : Seg) :
    m_Segment___eq__ (Self.ofSeg s) (.obj (sgObj o)) = .ok (.bool (s.same o)) := by
  unfold m_Segment___eq__
  msimp [Seg.same]

theorem m_Segment_move_raw (s : Seg) (v : V3) :
    m_Segment_move (Self.ofSeg s) (.vec v) =
      if s.a = s.b then .error (.ctor .value) else .ok (Self.ofSeg (s.move v).1, .obj (sgObj (s.move v).2)) := by
  unfold m_Segment_move
  msimp [Seg.move, Seg.mk', Seg.mk?, Line.ofPoints?, Line.mk?, sub_add_add, sub_eq_zero_iff, add_right_inj']
  by_cases h : s.a = s.b
  · simp [h]
  · have h' : ¬ s.b = s.a := fun e => h e.symm
    simp [h, h']

/-! ## HalfLine -/
theorem new_HalfLine_pp (a b : V3) :
    new_HalfLine (.obj (ptObj a)) (.obj (ptObj b)) = ofCtor (fun h => .flat (.halfline h)) (HalfLine.mk? a b) := by
  unfold new_HalfLine m_HalfLine___init__
  msimp [HalfLine.mk?, HalfLine.mk', Line.ofPoints?, Line.mk?]
  by_cases h : a = b
  · simp [h]
  · have h' : ¬ sub b a = zero := fun e => h (sub_eq_zero_iff.mp e).symm
    simp [h, h']

theorem new_HalfLine_pv (a v : V3) :
    new_HalfLine (.obj (ptObj a)) (.vec v) = ofCtor (fun h => .flat (.halfline h)) (HalfLine.ofVec? a v) := by
  unfold new_HalfLine m_HalfLine___init__
  msimp [HalfLine.ofVec?, HalfLine.mk', Line.mk?, normSq_le_zero_iff, normSq_eq_zero]
  by_cases h : v = zero <;> simp [h]

theorem m_HalfLine___contains___eq_point (h : HalfLine) (x : V3) :
    m_HalfLine___contains__ (Self.ofHalfLine h) (.obj (ptObj x)) = .ok (.bool (h.contains x)) := by
  unfold m_HalfLine___contains__
  msimp [HalfLine.contains]
  cases h.line.contains x <;> simp

theorem m_HalfLine___contains___eq_seg (h : HalfLine) (s : Seg) :
    m_HalfLine___contains__ (Self.ofHalfLine h) (.obj (sgObj s)) = .ok (.bool (h.containsSeg s)) := by
  unfold m_HalfLine___contains__
  msimp [HalfLine.containsSeg]

theorem m_HalfLine___contains___eq_halfline (h o : HalfLine) :
    m_HalfLine___contains__ (Self.ofHalfLine h) (.obj (.flat (.halfline o))) = .ok (.bool (h.containsHL o)) := by
  unfold m_HalfLine___contains__
  msimp [HalfLine.containsHL, Bool.and_assoc]

theorem m_HalfLine___contains___eq_other (h : HalfLine) (l : Line) :
    m_HalfLine___contains__ (Self.ofHalfLine h) (.obj (lnObj l)) = .ok (.bool false) := by
  unfold m_HalfLine___contains__
  msimp

theorem m_HalfLine_in__eq_line (h : HalfLine) (l : Line) :
    m_HalfLine_in_ (Self.ofHalfLine h) (.obj (lnObj l)) = .ok (.bool (l.containsHalfLine h)) := by
  unfold m_HalfLine_in_
  msimp [Line.containsHalfLine]

theorem m_HalfLine_in__eq_plane (h : HalfLine) (a : Plane) :
    m_HalfLine_in_ (Self.ofHalfLine h) (.obj (plObj a)) = .ok (.bool (a.containsHalfLine h)) := by
  unfold m_HalfLine_in_
  msimp [Plane.containsHalfLine]

theorem m_HalfLine___eq___raw (h o : HalfLine) :
    m_HalfLine___eq__ (Self.ofHalfLine h) (.obj (.flat (.halfline o))) =
      if h.p = o.p then
        (if h.v = zero ∨ o.v = zero then .error (.ctor .zeroDiv)
         else .ok (.bool (V3.parallel h.v o.v && decide (0 < dot h.v o.v))))
      else .ok (.bool false) := by
  unfold m_HalfLine___eq__
  msimp

theorem m_HalfLine_move_raw (h : HalfLine) (v : V3) :
    m_HalfLine_move (Self.ofHalfLine h) (.vec v) =
      if h.v = zero then .error (.ctor .value)
      else .ok (Self.ofHalfLine (h.move v).1, .obj (.flat (.halfline (h.move v).2))) := by
  unfold m_HalfLine_move
  msimp [HalfLine.move, HalfLine.mk', HalfLine.ofVec?, Line.mk?, normSq_eq_zero]
  by_cases hz : h.v = zero <;> simp [hz]


/-! ## the model equations under well-formedness -/

theorem m_Line_move_eq (l : Line) (v : V3) (h : l.WF) :
    m_Line_move (Self.ofLine l) (.vec v) = .ok (Self.ofLine (l.move v).1, .obj (lnObj (l.move v).2)) := by
  rw [m_Line_move_raw, if_neg h]

theorem m_Plane___neg___eq (a : Plane) (h : a.WF) : m_Plane___neg__ (Self.ofPlane a) = .ok (.obj (plObj a.neg)) := by
  rw [m_Plane___neg___raw, if_neg h]

theorem m_Plane_move_eq (a : Plane) (v : V3) (h : a.WF) :
    m_Plane_move (Self.ofPlane a) (.vec v) = .ok (Self.ofPlane (a.move v).1, .obj (plObj (a.move v).2)) := by
  rw [m_Plane_move_raw, if_neg h]

theorem m_Segment___contains___eq_point (s : Seg) (x : V3) (h : s.a ≠ s.b) :
    m_Segment___contains__ (Self.ofSeg s) (.obj (ptObj x)) = .ok (.bool (s.contains x)) := by
  rw [m_Segment___contains___raw_point]
  by_cases hx : sub x s.a = zero
  · simp [hx, Seg.contains, normSq_eq_zero]
  · have h' : ¬ s.b = s.a := fun e => h e.symm
    simp [hx, h']

theorem m_Segment_move_eq (s : Seg) (v : V3) (h : s.a ≠ s.b) :
    m_Segment_move (Self.ofSeg s) (.vec v) = .ok (Self.ofSeg (s.move v).1, .obj (sgObj (s.move v).2)) := by
  rw [m_Segment_move_raw, if_neg h]

theorem m_HalfLine___eq___eq (h o : HalfLine) (hh : h.v ≠ zero) (ho : o.v ≠ zero) :
    m_HalfLine___eq__ (Self.ofHalfLine h) (.obj (.flat (.halfline o))) = .ok (.bool (h.eqv o)) := by
  rw [m_HalfLine___eq___raw]
  by_cases hp : h.p = o.p <;> simp [hp, hh, ho, HalfLine.eqv, Bool.and_assoc]

theorem m_HalfLine_move_eq (h : HalfLine) (v : V3) (hh : h.v ≠ zero) :
    m_HalfLine_move (Self.ofHalfLine h) (.vec v) = .ok (Self.ofHalfLine (h.move v).1, .obj (.flat (.halfline (h.move v).2))) := by
  rw [m_HalfLine_move_raw, if_neg hh]

/-! ## references stored / returned (C20): which constructor arguments are copied, which references are kept -/

theorem m_Line___init___effects_eq : m_Line___init___effects =
    ["store: self.sv = new|param:a", "store: self.dv = param:b", "store: self.dv = new"] := rfl
theorem m_Line_move_effects_eq : m_Line_move_effects =
    ["inplace: self.sv[..] += ..", "inplace: self.sv[..] += ..", "inplace: self.sv[..] += ..",
     "return: new Line(self.sv, self.dv)"] := rfl
theorem m_Plane__init_pn_effects_eq : m_Plane__init_pn_effects = ["store: self.p = param:p", "store: self.n = new"] := rfl
theorem m_Plane___neg___effects_eq : m_Plane___neg___effects = ["return: new Plane(self.p, new)"] := rfl
theorem m_Plane_move_effects_eq : m_Plane_move_effects =
    ["inplace: self.p.move(..)", "return: new Plane(self.p, self.n)"] := rfl
theorem m_Segment___init___effects_eq : m_Segment___init___effects =
    ["store: self.line = new Line(copy, copy)", "store: self.start_point = copy", "store: self.end_point = copy",
     "store: self.line = new Line(copy, copy)", "store: self.start_point = copy", "store: self.end_point = new"] := rfl
theorem m_Segment_move_effects_eq : m_Segment_move_effects =
    ["inplace: self.start_point.move(..)", "inplace: self.end_point.move(..)",
     "store: self.line = new Line(self.start_point, self.end_point)"] := rfl
theorem m_HalfLine___init___effects_eq : m_HalfLine___init___effects =
    ["store: self.line = new Line(copy, copy)", "store: self.point = copy", "store: self.vector = new",
     "store: self.line = new Line(copy, copy)", "store: self.point = copy", "store: self.vector = copy"] := rfl
theorem m_HalfLine_move_effects_eq : m_HalfLine_move_effects =
    ["inplace: self.point.move(..)", "store: self.line = new Line(self.point, self.vector)"] := rfl
/-- the read-only methods store nothing and return no reference to an attribute -/
theorem mflat_readonly_effects :
    m_Line___contains___effects = [] ∧ m_Line___eq___effects = [] ∧ m_Plane___contains___effects = [] ∧
    m_Plane___eq___effects = [] ∧ m_Segment___contains___effects = [] ∧ m_Segment___eq___effects = [] ∧
    m_HalfLine___contains___effects = [] ∧ m_HalfLine___eq___effects = [] ∧
    m_Segment_in__effects = ["anomaly: returns NotImplementedError('') (an exception instance) instead of raising it"] ∧
    m_HalfLine_in__effects = ["anomaly: returns NotImplementedError('') (an exception instance) instead of raising it"] :=
  ⟨rfl, rfl, rfl, rfl, rfl, rfl, rfl, rfl, rfl, rfl⟩

theorem mflat_complete : mflatFailed = [] := rfl

/-! ## `move` rejects a non-Vector argument (C15) -/
theorem m_Line_move_reject (self : Self) (o : Obj) : m_Line_move self (.obj o) = .error .notImpl := by
  unfold m_Line_move; simp [pyrt]
theorem m_Plane_move_reject (self : Self) (o : Obj) : m_Plane_move self (.obj o) = .error .notImpl := by
  unfold m_Plane_move; simp [pyrt]
theorem m_Segment_move_reject (self : Self) (o : Obj) : m_Segment_move self (.obj o) = .error .notImpl := by
  unfold m_Segment_move; simp [pyrt]
theorem m_HalfLine_move_reject (self : Self) (o : Obj) : m_HalfLine_move self (.obj o) = .error .notImpl := by
  unfold m_HalfLine_move; simp [pyrt]

end G3D.Tie
