import Mathlib.Analysis.SpecialFunctions.Trigonometric.Basic
import Mathlib.Tactic.Ring
import Mathlib.Tactic.Linarith
import Mathlib.Tactic.LinearCombination
import Mathlib.Tactic.FieldSimp
import Mathlib.Tactic.Positivity
import Mathlib.Algebra.BigOperators.Group.Finset.Basic
import G3D.Proofs.BuildersSphere

/-! C14 over ℝ, CONVEXITY of the inscribed Sphere solid: every vertex lies on the inner side (≤ 0) of the plane of
    every face (outward normal = shoelace vector area `vecArea2R` of the face cycle as the constructor leaves it,
    reference point = first vertex of the face), strictly for the vertices not on the face — every n1 ≥ 3, n2 ≥ 2.
    (The analogue of `cylinder_side_inner` / `cone_side_inner`.) -/
namespace G3D
namespace BuildersReal
open Real Builders R3

/-- cylindrical coordinates about the axis `c + ℝ·k`: `c + z·k + ρ·(cos θ·u + sin θ·v)` -/
noncomputable def BA.cyl (c k u v : R3) (ρ z θ : ℝ) : R3 := add (add c (smul z k)) (smul ρ (rad u v θ))

theorem BA.sphPt_cyl (c k u v : R3) (r φ θ : ℝ) :
    BA.sphPt c k u v r φ θ = BA.cyl c k u v (r * cos φ) (r * sin φ) θ := BA.sphPt_eq c k u v r φ θ

/-- the scalar factor of the side test -/
noncomputable def BA.sidePsi (ρ z ρ1 z1 ρ2 z2 θ θs θe : ℝ) : ℝ :=
  (z2 - z1) * (ρ * (sin (θe - θ) - sin (θs - θ)) - ρ1 * sin (θe - θs)) + (ρ1 - ρ2) * (z - z1) * sin (θe - θs)

/-- side test of a band quadrilateral `(A_s, A_e, B_e, B_s)` (rings `(ρ1, z1)`, `(ρ2, z2)`, longitudes `θs`, `θe`)
    against the point `(ρ, z, θ)`: a triple product, i.e. `k·(u × v)` times a determinant of coordinates -/
theorem BA.quad_side (c k u v : R3) (ρ z ρ1 z1 ρ2 z2 θ θs θe : ℝ) :
    dot (sub (BA.cyl c k u v ρ z θ) (BA.cyl c k u v ρ1 z1 θs))
      (vecArea2R [BA.cyl c k u v ρ1 z1 θs, BA.cyl c k u v ρ1 z1 θe, BA.cyl c k u v ρ2 z2 θe,
        BA.cyl c k u v ρ2 z2 θs]) =
      dot k (cross u v) * (ρ1 + ρ2) * BA.sidePsi ρ z ρ1 z1 ρ2 z2 θ θs θe := by
  unfold BA.cyl
  rw [BA.quadVA]
  unfold BA.sidePsi
  rw [sin_sub, sin_sub, sin_sub]
  simp only [rad, dot, cross, sub, add, smul]
  ring

/-- side test of a cap triangle `(p, A_s, A_e)`, `p = c + z2·k` on the axis -/
theorem BA.tri_side (c k u v : R3) (ρ z ρ1 z1 z2 θ θs θe : ℝ) :
    dot (sub (BA.cyl c k u v ρ z θ) (add c (smul z2 k)))
      (vecArea2R [add c (smul z2 k), BA.cyl c k u v ρ1 z1 θs, BA.cyl c k u v ρ1 z1 θe]) =
      dot k (cross u v) * ρ1 * BA.sidePsi ρ z ρ1 z1 0 z2 θ θs θe := by
  unfold BA.cyl
  rw [tri_vecArea2]
  unfold BA.sidePsi
  rw [sin_sub, sin_sub, sin_sub]
  simp only [rad, dot, cross, sub, add, smul]
  ring

/-! ### the trigonometric factorisation -/
/-- the latitude–longitude factor: `cos φm·cos ψ·C + cos η·(sin φm·sin ψ − cos ε)`, `C = cos(θ − θm)` -/
noncomputable def BA.sidePhi (φm ψ ε η C : ℝ) : ℝ := cos φm * cos ψ * C + cos η * (sin φm * sin ψ - cos ε)

/-- band between the latitudes `φm ∓ ε`, sector between the longitudes `θm ∓ η`, point at `(ψ, θ)` of the sphere -/
theorem BA.sidePsi_trig (r ψ θ φm ε θm η : ℝ) :
    BA.sidePsi (r * cos ψ) (r * sin ψ) (r * cos (φm - ε)) (r * sin (φm - ε)) (r * cos (φm + ε)) (r * sin (φm + ε))
        θ (θm - η) (θm + η) =
      2 * sin η * (2 * r ^ 2 * sin ε) * BA.sidePhi φm ψ ε η (cos (θ - θm)) := by
  have t1 : sin (θm + η - θ) - sin (θm - η - θ) = 2 * cos (θ - θm) * sin η := by
    have e1 : θm + η - θ = η - (θ - θm) := by ring
    have e2 : θm - η - θ = -(η + (θ - θm)) := by ring
    rw [e1, e2, sin_neg, sin_sub, sin_add]; ring
  have t2 : sin (θm + η - (θm - η)) = 2 * sin η * cos η := by
    have : θm + η - (θm - η) = 2 * η := by ring
    rw [this, sin_two_mul]
  unfold BA.sidePsi BA.sidePhi
  rw [t1, t2, sin_sub φm ε, cos_sub φm ε, sin_add φm ε, cos_add φm ε]
  linear_combination (-(4 * r ^ 2 * sin η * sin ε * cos η * cos ε)) * cos_sq_add_sin_sq φm

/-- the factor is ≤ 0 as soon as the longitude and the latitude of the point are at least half a step away from the
    face's mid-longitude / mid-latitude -/
theorem BA.sidePhi_le (φm ψ ε η C : ℝ) (hφ : 0 ≤ cos φm) (hψ : 0 ≤ cos ψ) (hη : 0 ≤ cos η) (hC : C ≤ cos η)
    (hlat : cos (ψ - φm) ≤ cos ε) : BA.sidePhi φm ψ ε η C ≤ 0 := by
  rw [cos_sub] at hlat
  unfold BA.sidePhi
  nlinarith [mul_nonneg (mul_nonneg hφ hψ) (sub_nonneg.2 hC), mul_nonneg hη (sub_nonneg.2 hlat)]

theorem BA.sidePhi_lt_lat (φm ψ ε η C : ℝ) (hφ : 0 ≤ cos φm) (hψ : 0 ≤ cos ψ) (hη : 0 < cos η) (hC : C ≤ cos η)
    (hlat : cos (ψ - φm) < cos ε) : BA.sidePhi φm ψ ε η C < 0 := by
  rw [cos_sub] at hlat
  unfold BA.sidePhi
  nlinarith [mul_nonneg (mul_nonneg hφ hψ) (sub_nonneg.2 hC), mul_pos hη (sub_pos.2 hlat)]

theorem BA.sidePhi_lt_lon (φm ψ ε η C : ℝ) (hφ : 0 < cos φm) (hψ : 0 < cos ψ) (hη : 0 ≤ cos η) (hC : C < cos η)
    (hlat : cos (ψ - φm) ≤ cos ε) : BA.sidePhi φm ψ ε η C < 0 := by
  rw [cos_sub] at hlat
  unfold BA.sidePhi
  nlinarith [mul_pos (mul_pos hφ hψ) (sub_pos.2 hC), mul_nonneg hη (sub_nonneg.2 hlat)]

/-! ### the grid -/
theorem BA.cos_le_cos_of_abs (η x : ℝ) (h0 : 0 ≤ η) (h1 : η ≤ |x|) (h2 : |x| ≤ 2 * π - η) : cos x ≤ cos η := by
  rw [← cos_abs x]
  have := cos_sub_cos |x| η
  have s1 : 0 ≤ sin ((|x| + η) / 2) := sin_nonneg_of_nonneg_of_le_pi (by linarith) (by linarith)
  have s2 : 0 ≤ sin ((|x| - η) / 2) := sin_nonneg_of_nonneg_of_le_pi (by linarith) (by linarith [pi_pos])
  nlinarith [mul_nonneg s1 s2]

theorem BA.cos_lt_cos_of_abs (η x : ℝ) (h0 : 0 ≤ η) (h1 : η < |x|) (h2 : |x| < 2 * π - η) : cos x < cos η := by
  rw [← cos_abs x]
  have := cos_sub_cos |x| η
  have s1 : 0 < sin ((|x| + η) / 2) := sin_pos_of_pos_of_lt_pi (by linarith) (by linarith)
  have s2 : 0 < sin ((|x| - η) / 2) := sin_pos_of_pos_of_lt_pi (by linarith) (by linarith [pi_pos])
  nlinarith [mul_pos s1 s2]

/-- longitudes: every point of a ring is at least half a step `π/n` away from the mid-longitude of sector `i` -/
theorem BA.lon_grid (n i k : ℕ) (hi : i < n) (hk : k < n) :
    cos (stepAngle n k - (stepAngle n i + π / n)) ≤ cos (π / n) := by
  have hn' : (0 : ℝ) < n := by exact_mod_cast (by omega : 0 < n)
  have hp := pi_pos
  have hη : 0 < π / n := by positivity
  have hnη : π / n * n = π := by field_simp
  have ex : stepAngle n k - (stepAngle n i + π / n) = π / n * (2 * k - 2 * i - 1) := by unfold stepAngle; ring
  have hi' : (i : ℝ) + 1 ≤ n := by exact_mod_cast hi
  have hk' : (k : ℝ) + 1 ≤ n := by exact_mod_cast hk
  rw [ex]
  apply BA.cos_le_cos_of_abs _ _ hη.le
  · rcases Nat.lt_or_ge i k with h | h
    · have h' : (i : ℝ) + 1 ≤ k := by exact_mod_cast h
      rw [abs_of_nonneg (by nlinarith)]; nlinarith
    · have h' : (k : ℝ) ≤ i := by exact_mod_cast h
      rw [abs_of_nonpos (by nlinarith)]; nlinarith
  · rcases Nat.lt_or_ge i k with h | h
    · have h' : (i : ℝ) + 1 ≤ k := by exact_mod_cast h
      rw [abs_of_nonneg (by nlinarith)]; nlinarith
    · have h' : (k : ℝ) ≤ i := by exact_mod_cast h
      rw [abs_of_nonpos (by nlinarith)]; nlinarith

/-- … strictly more for the points other than the two ends `i`, `(i+1) mod n` of the sector -/
theorem BA.lon_grid_strict (n i k : ℕ) (hi : i < n) (hk : k < n) (hki : k ≠ i) (hki' : k ≠ (i + 1) % n) :
    cos (stepAngle n k - (stepAngle n i + π / n)) < cos (π / n) := by
  have hn' : (0 : ℝ) < n := by exact_mod_cast (by omega : 0 < n)
  have hp := pi_pos
  have hη : 0 < π / n := by positivity
  have hnη : π / n * n = π := by field_simp
  have ex : stepAngle n k - (stepAngle n i + π / n) = π / n * (2 * k - 2 * i - 1) := by unfold stepAngle; ring
  rw [ex]
  apply BA.cos_lt_cos_of_abs _ _ hη.le
  · rcases Nat.lt_or_ge i k with h | h
    · have h2 : i + 2 ≤ k := by
        rcases sm_cases hi with ⟨_, e⟩ | ⟨e, _⟩
        · rw [e] at hki'; omega
        · omega
      have h' : (i : ℝ) + 2 ≤ k := by exact_mod_cast h2
      rw [abs_of_nonneg (by nlinarith)]; nlinarith
    · have h2 : k + 1 ≤ i := by omega
      have h' : (k : ℝ) + 1 ≤ i := by exact_mod_cast h2
      rw [abs_of_nonpos (by nlinarith)]; nlinarith
  · rcases Nat.lt_or_ge i k with h | h
    · have h' : (i : ℝ) + 1 ≤ k := by exact_mod_cast h
      have hk' : (k : ℝ) + 1 ≤ n := by exact_mod_cast hk
      rw [abs_of_nonneg (by nlinarith)]; nlinarith
    · have h' : (k : ℝ) ≤ i := by exact_mod_cast h
      have h2 : i + 2 ≤ n + k := by
        rcases sm_cases hi with ⟨e, _⟩ | ⟨_, e⟩
        · omega
        · rw [e] at hki'; omega
      have h2' : (i : ℝ) + 2 ≤ n + k := by exact_mod_cast h2
      rw [abs_of_nonpos (by nlinarith)]; nlinarith

/-- latitude of the ring with signed index `m` (`m = −n2 … n2`; negative: the lower rings `bc`) -/
noncomputable def BA.latZ (n2 : ℕ) (m : ℤ) : ℝ := π / 2 / n2 * m

theorem BA.latZ_nat (n2 m : ℕ) : BA.latZ n2 (m : ℤ) = BA.lat n2 m := by simp [BA.latZ, BA.lat]
theorem BA.latZ_neg (n2 : ℕ) (m : ℤ) : BA.latZ n2 (-m) = - BA.latZ n2 m := by simp [BA.latZ]

theorem BA.latZ_range (n2 : ℕ) (m : ℤ) (h2 : 0 < n2) (hm1 : -(n2 : ℤ) ≤ m) (hm2 : m ≤ n2) :
    -(π / 2) ≤ BA.latZ n2 m ∧ BA.latZ n2 m ≤ π / 2 := by
  have hn' : (0 : ℝ) < n2 := by exact_mod_cast h2
  have hp := pi_pos
  have hΔ : 0 < π / 2 / n2 := by positivity
  have hnΔ : π / 2 / n2 * n2 = π / 2 := by field_simp
  have h1 : -(n2 : ℝ) ≤ m := by exact_mod_cast hm1
  have h2' : (m : ℝ) ≤ n2 := by exact_mod_cast hm2
  unfold BA.latZ
  constructor <;> nlinarith

/-- latitudes: every ring is at least half a step `π/4/n2` away from the mid-latitude of band `j` -/
theorem BA.lat_grid (n2 j : ℕ) (m : ℤ) (hj : j < n2) (hm1 : -(n2 : ℤ) ≤ m) (hm2 : m ≤ n2) :
    cos (BA.latZ n2 m - (BA.lat n2 j + π / 4 / n2)) ≤ cos (π / 4 / n2) := by
  have hn' : (0 : ℝ) < n2 := by exact_mod_cast (by omega : 0 < n2)
  have hp := pi_pos
  have hε : 0 < π / 4 / n2 := by positivity
  have hnε : π / 4 / n2 * n2 = π / 4 := by field_simp
  have ex : BA.latZ n2 m - (BA.lat n2 j + π / 4 / n2) = π / 4 / n2 * (2 * m - 2 * j - 1) := by
    unfold BA.latZ BA.lat; ring
  have h1 : -(n2 : ℝ) ≤ m := by exact_mod_cast hm1
  have h2 : (m : ℝ) ≤ n2 := by exact_mod_cast hm2
  have hj' : (j : ℝ) + 1 ≤ n2 := by exact_mod_cast hj
  have hj0 : (0 : ℝ) ≤ j := Nat.cast_nonneg j
  rw [ex]
  apply BA.cos_le_cos_of_abs _ _ hε.le
  · rcases lt_or_ge (j : ℤ) m with h | h
    · have h' : (j : ℝ) + 1 ≤ m := by exact_mod_cast h
      rw [abs_of_nonneg (by nlinarith)]; nlinarith
    · have h' : (m : ℝ) ≤ j := by exact_mod_cast h
      rw [abs_of_nonpos (by nlinarith)]; nlinarith
  · rcases lt_or_ge (j : ℤ) m with h | h
    · have h' : (j : ℝ) + 1 ≤ m := by exact_mod_cast h
      rw [abs_of_nonneg (by nlinarith)]; nlinarith
    · have h' : (m : ℝ) ≤ j := by exact_mod_cast h
      rw [abs_of_nonpos (by nlinarith)]; nlinarith

/-- … strictly more for the rings other than the two rings `j`, `j+1` of the band -/
theorem BA.lat_grid_strict (n2 j : ℕ) (m : ℤ) (hj : j < n2) (hm1 : -(n2 : ℤ) ≤ m) (hm2 : m ≤ n2)
    (hmj : m ≠ j) (hmj' : m ≠ j + 1) :
    cos (BA.latZ n2 m - (BA.lat n2 j + π / 4 / n2)) < cos (π / 4 / n2) := by
  have hn' : (0 : ℝ) < n2 := by exact_mod_cast (by omega : 0 < n2)
  have hp := pi_pos
  have hε : 0 < π / 4 / n2 := by positivity
  have hnε : π / 4 / n2 * n2 = π / 4 := by field_simp
  have ex : BA.latZ n2 m - (BA.lat n2 j + π / 4 / n2) = π / 4 / n2 * (2 * m - 2 * j - 1) := by
    unfold BA.latZ BA.lat; ring
  have h1 : -(n2 : ℝ) ≤ m := by exact_mod_cast hm1
  have h2 : (m : ℝ) ≤ n2 := by exact_mod_cast hm2
  have hj' : (j : ℝ) + 1 ≤ n2 := by exact_mod_cast hj
  have hj0 : (0 : ℝ) ≤ j := Nat.cast_nonneg j
  rw [ex]
  apply BA.cos_lt_cos_of_abs _ _ hε.le
  · rcases lt_or_ge (j : ℤ) m with h | h
    · have h2 : (j : ℤ) + 2 ≤ m := by omega
      have h' : (j : ℝ) + 2 ≤ m := by exact_mod_cast h2
      rw [abs_of_nonneg (by nlinarith)]; nlinarith
    · have h2 : m + 1 ≤ (j : ℤ) := by omega
      have h' : (m : ℝ) + 1 ≤ j := by exact_mod_cast h2
      rw [abs_of_nonpos (by nlinarith)]; nlinarith
  · rcases lt_or_ge (j : ℤ) m with h | h
    · have h' : (j : ℝ) + 1 ≤ m := by exact_mod_cast h
      rw [abs_of_nonneg (by nlinarith)]; nlinarith
    · have h' : (m : ℝ) ≤ j := by exact_mod_cast h
      rw [abs_of_nonpos (by nlinarith)]; nlinarith

/-! ### value of the side test on the faces -/
/-- band quadrilateral `(A_s, A_e, B_e, B_s)` between the latitudes `φm ∓ ε` and the longitudes `θm ∓ η`,
    tested against the sphere point `(ψ, θ)` -/
theorem BA.band_face_value (c k u v : R3) (r ψ θ φm ε θm η : ℝ) :
    dot (sub (BA.sphPt c k u v r ψ θ) (BA.sphPt c k u v r (φm - ε) (θm - η)))
      (vecArea2R [BA.sphPt c k u v r (φm - ε) (θm - η), BA.sphPt c k u v r (φm - ε) (θm + η),
        BA.sphPt c k u v r (φm + ε) (θm + η), BA.sphPt c k u v r (φm + ε) (θm - η)]) =
      dot k (cross u v) * (r * cos (φm - ε) + r * cos (φm + ε)) *
        (2 * sin η * (2 * r ^ 2 * sin ε) * BA.sidePhi φm ψ ε η (cos (θ - θm))) := by
  simp only [BA.sphPt_cyl]
  rw [BA.quad_side, BA.sidePsi_trig]

/-- cap triangle `(pole, A_s, A_e)`, the pole at latitude `φm + ε = ±π/2` -/
theorem BA.cap_face_value (c k u v : R3) (r z2 ψ θ φm ε θm η : ℝ) (hz : z2 = r * sin (φm + ε))
    (hpole : cos (φm + ε) = 0) :
    dot (sub (BA.sphPt c k u v r ψ θ) (add c (smul z2 k)))
      (vecArea2R [add c (smul z2 k), BA.sphPt c k u v r (φm - ε) (θm - η),
        BA.sphPt c k u v r (φm - ε) (θm + η)]) =
      dot k (cross u v) * (r * cos (φm - ε)) *
        (2 * sin η * (2 * r ^ 2 * sin ε) * BA.sidePhi φm ψ ε η (cos (θ - θm))) := by
  simp only [BA.sphPt_cyl]
  rw [BA.tri_side, ← BA.sidePsi_trig, hpole, mul_zero, hz]

theorem BA.sidePhi_mirror (φm ψ ε η C : ℝ) : BA.sidePhi (-φm) ψ (-ε) η C = BA.sidePhi φm (-ψ) ε η C := by
  unfold BA.sidePhi; simp only [cos_neg, sin_neg]; ring

theorem BA.sign_le (D S a b Φ : ℝ) (hD : 0 < D) (hS : 0 ≤ S) (ha : 0 ≤ a) (hb : 0 ≤ b) (hΦ : Φ ≤ 0) :
    D * S * (2 * a * (2 * b) * Φ) ≤ 0 := by
  have e : D * S * (2 * a * (2 * b) * Φ) = (D * S * (2 * a * (2 * b))) * Φ := by ring
  rw [e]; exact mul_nonpos_of_nonneg_of_nonpos (by positivity) hΦ

theorem BA.sign_lt (D S a b Φ : ℝ) (hD : 0 < D) (hS : 0 < S) (ha : 0 < a) (hb : 0 < b) (hΦ : Φ < 0) :
    D * S * (2 * a * (2 * b) * Φ) < 0 := by
  have e : D * S * (2 * a * (2 * b) * Φ) = (D * S * (2 * a * (2 * b))) * Φ := by ring
  rw [e]; exact mul_neg_of_pos_of_neg (by positivity) hΦ

/-! ### the grid: signs -/
theorem BA.grid_lon_facts (n1 : ℕ) (hn1 : 2 ≤ n1) : 0 < sin (π / n1) ∧ 0 ≤ cos (π / n1) ∧ (3 ≤ n1 → 0 < cos (π / n1)) := by
  have hn' : (2 : ℝ) ≤ n1 := by exact_mod_cast hn1
  have hp := pi_pos
  have hη : 0 < π / n1 := by positivity
  have hη2 : π / n1 ≤ π / 2 := by
    rw [div_le_iff₀ (by linarith)]; nlinarith
  refine ⟨sin_pos_of_pos_of_lt_pi hη (by linarith), cos_nonneg_of_mem_Icc ⟨by linarith, hη2⟩, ?_⟩
  intro h3
  have hn3 : (3 : ℝ) ≤ n1 := by exact_mod_cast h3
  have : π / n1 < π / 2 := by
    rw [div_lt_iff₀ (by linarith)]; nlinarith
  exact cos_pos_of_mem_Ioo ⟨by linarith, this⟩

theorem BA.grid_lat_facts (n2 j : ℕ) (hj : j < n2) :
    0 < sin (π / 4 / n2) ∧ 0 < cos (BA.lat n2 j + π / 4 / n2) ∧ 0 < cos (BA.lat n2 j) ∧
      0 ≤ cos (BA.lat n2 (j + 1)) := by
  have hn' : (0 : ℝ) < n2 := by exact_mod_cast (by omega : 0 < n2)
  have hn1 : (1 : ℝ) ≤ n2 := by exact_mod_cast (by omega : 1 ≤ n2)
  have hp := pi_pos
  have hε : 0 < π / 4 / n2 := by positivity
  have hnε : π / 4 / n2 * n2 = π / 4 := by field_simp
  have hj' : (j : ℝ) + 1 ≤ n2 := by exact_mod_cast hj
  have hj0 : (0 : ℝ) ≤ j := Nat.cast_nonneg j
  have el : BA.lat n2 j = π / 4 / n2 * (2 * j) := by unfold BA.lat; ring
  have el' : BA.lat n2 (j + 1) = π / 4 / n2 * (2 * j + 2) := by unfold BA.lat; push_cast; ring
  have hε4 : π / 4 / n2 ≤ π / 4 := by nlinarith
  refine ⟨sin_pos_of_pos_of_lt_pi hε (by linarith), ?_, ?_, ?_⟩
  · apply cos_pos_of_mem_Ioo; rw [el]; constructor <;> nlinarith
  · apply cos_pos_of_mem_Ioo; rw [el]; constructor <;> nlinarith
  · apply cos_nonneg_of_mem_Icc; rw [el']; constructor <;> nlinarith

theorem BA.cos_latZ_nonneg (n2 : ℕ) (m : ℤ) (h2 : 0 < n2) (hm1 : -(n2 : ℤ) ≤ m) (hm2 : m ≤ n2) :
    0 ≤ cos (BA.latZ n2 m) := by
  obtain ⟨h1, h2'⟩ := BA.latZ_range n2 m h2 hm1 hm2
  exact cos_nonneg_of_mem_Icc ⟨h1, h2'⟩

theorem BA.cos_latZ_pos (n2 : ℕ) (m : ℤ) (h2 : 0 < n2) (hm1 : -(n2 : ℤ) < m) (hm2 : m < n2) :
    0 < cos (BA.latZ n2 m) := by
  have hn' : (0 : ℝ) < n2 := by exact_mod_cast h2
  have hp := pi_pos
  have hΔ : 0 < π / 2 / n2 := by positivity
  have hnΔ : π / 2 / n2 * n2 = π / 2 := by field_simp
  have h1 : -(n2 : ℝ) + 1 ≤ m := by exact_mod_cast hm1
  have h2' : (m : ℝ) + 1 ≤ n2 := by exact_mod_cast hm2
  apply cos_pos_of_mem_Ioo
  unfold BA.latZ
  constructor <;> nlinarith

/-- the factor `Φ` on the grid: band `j` (rings `j`, `j+1`), sector `i`, vertex (ring `m`, point `k'`) -/
theorem BA.sidePhi_grid_le (n1 n2 j i k' : ℕ) (m : ℤ) (hn1 : 2 ≤ n1) (hj : j < n2) (hi : i < n1) (hk : k' < n1)
    (hm1 : -(n2 : ℤ) ≤ m) (hm2 : m ≤ n2) :
    BA.sidePhi (BA.lat n2 j + π / 4 / n2) (BA.latZ n2 m) (π / 4 / n2) (π / n1)
      (cos (stepAngle n1 k' - (stepAngle n1 i + π / n1))) ≤ 0 :=
  BA.sidePhi_le _ _ _ _ _ (BA.grid_lat_facts n2 j hj).2.1.le (BA.cos_latZ_nonneg n2 m (by omega) hm1 hm2)
    (BA.grid_lon_facts n1 hn1).2.1 (BA.lon_grid n1 i k' hi hk) (BA.lat_grid n2 j m hj hm1 hm2)

/-- … strictly negative for a vertex that is not a corner of the face -/
theorem BA.sidePhi_grid_lt (n1 n2 j i k' : ℕ) (m : ℤ) (hn1 : 3 ≤ n1) (hj : j < n2) (hi : i < n1) (hk : k' < n1)
    (hm1 : -(n2 : ℤ) ≤ m) (hm2 : m ≤ n2)
    (hne : (m ≠ j ∧ m ≠ j + 1) ∨ (k' ≠ i ∧ k' ≠ (i + 1) % n1 ∧ -(n2 : ℤ) < m ∧ m < n2)) :
    BA.sidePhi (BA.lat n2 j + π / 4 / n2) (BA.latZ n2 m) (π / 4 / n2) (π / n1)
      (cos (stepAngle n1 k' - (stepAngle n1 i + π / n1))) < 0 := by
  rcases hne with ⟨h1, h2⟩ | ⟨h1, h2, h3, h4⟩
  · exact BA.sidePhi_lt_lat _ _ _ _ _ (BA.grid_lat_facts n2 j hj).2.1.le
      (BA.cos_latZ_nonneg n2 m (by omega) hm1 hm2) ((BA.grid_lon_facts n1 (by omega)).2.2 hn1)
      (BA.lon_grid n1 i k' hi hk) (BA.lat_grid_strict n2 j m hj hm1 hm2 h1 h2)
  · exact BA.sidePhi_lt_lon _ _ _ _ _ (BA.grid_lat_facts n2 j hj).2.1
      (BA.cos_latZ_pos n2 m (by omega) h3 h4) (BA.grid_lon_facts n1 (by omega)).2.1
      (BA.lon_grid_strict n1 i k' hi hk h1 h2) (BA.lat_grid n2 j m hj hm1 hm2)

/-! ### the faces of the solid -/
/-- vertex of the solid: ring with signed index `m ∈ [−n2, n2]` (`m ≥ 0`: `mc`, `tc[m−1]`, top pole; `m < 0`:
    `bc[−m−1]`, bottom pole), point `i` of the ring -/
noncomputable def BA.vtx (c k u v : R3) (r : ℝ) (n1 n2 : ℕ) (m : ℤ) (i : ℕ) : R3 :=
  BA.sphPt c k u v r (BA.latZ n2 m) (stepAngle n1 i)

theorem BA.up_eq_vtx (c k u v : R3) (r : ℝ) (n1 n2 m i : ℕ) :
    BA.up c k u v r n1 n2 m i = BA.vtx c k u v r n1 n2 (m : ℤ) i := by
  unfold BA.up BA.vtx; rw [BA.latZ_nat]

theorem BA.lo_eq_vtx (c k u v : R3) (r : ℝ) (n1 n2 m i : ℕ) :
    BA.lo c k u v r n1 n2 m i = BA.vtx c k u v r n1 n2 (-(m : ℤ)) i := by
  unfold BA.lo BA.vtx; rw [BA.latZ_neg, BA.latZ_nat]

theorem BA.grid_angles (n1 n2 i j : ℕ) :
    stepAngle n1 i + π / n1 - π / n1 = stepAngle n1 i ∧ stepAngle n1 i + π / n1 + π / n1 = stepAngle n1 (i + 1) ∧
    BA.lat n2 j + π / 4 / n2 - π / 4 / n2 = BA.lat n2 j ∧ BA.lat n2 j + π / 4 / n2 + π / 4 / n2 = BA.lat n2 (j + 1) := by
  refine ⟨by ring, ?_, by ring, ?_⟩
  · unfold stepAngle; push_cast; ring
  · unfold BA.lat; push_cast; ring

/-- abbreviation: the common positive factor times `Φ` -/
noncomputable def BA.faceVal (D S r : ℝ) (n1 n2 j i k' : ℕ) (m : ℤ) : ℝ :=
  D * S * (2 * sin (π / n1) * (2 * (r ^ 2 * sin (π / 4 / n2))) *
    BA.sidePhi (BA.lat n2 j + π / 4 / n2) (BA.latZ n2 m) (π / 4 / n2) (π / n1)
      (cos (stepAngle n1 k' - (stepAngle n1 i + π / n1))))

/-- upper band `j`, sector `i` (as coded), against the vertex (ring `m`, point `k'`) -/
theorem BA.upper_value (c k u v : R3) (r : ℝ) (n1 n2 j i k' : ℕ) (m : ℤ) :
    dot (sub (BA.vtx c k u v r n1 n2 m k') (BA.up c k u v r n1 n2 j i)) (vecArea2R (BA.qUp c k u v r n1 n2 j i)) =
      BA.faceVal (dot k (cross u v)) (r * cos (BA.lat n2 j) + r * cos (BA.lat n2 (j + 1))) r n1 n2 j i k' m := by
  have := BA.band_face_value c k u v r (BA.latZ n2 m) (stepAngle n1 k') (BA.lat n2 j + π / 4 / n2) (π / 4 / n2)
    (stepAngle n1 i + π / n1) (π / n1)
  obtain ⟨e1, e2, e3, e4⟩ := BA.grid_angles n1 n2 i j
  rw [e1, e2, e3, e4] at this
  unfold BA.qUp BA.up BA.vtx BA.faceVal
  rw [this]; ring

/-- lower band `j`, sector `i`, flipped by the constructor, against the vertex (ring `m`, point `k'`):
    the mirror image of the upper one -/
theorem BA.lower_value (c k u v : R3) (r : ℝ) (n1 n2 j i k' : ℕ) (m : ℤ) :
    dot (sub (BA.vtx c k u v r n1 n2 m k') (BA.lo c k u v r n1 n2 j i))
        (vecArea2R (flipCycle (BA.qLo c k u v r n1 n2 j i))) =
      BA.faceVal (dot k (cross u v)) (r * cos (BA.lat n2 j) + r * cos (BA.lat n2 (j + 1))) r n1 n2 j i k' (-m) := by
  have := BA.band_face_value c k u v r (BA.latZ n2 m) (stepAngle n1 k') (-(BA.lat n2 j + π / 4 / n2)) (-(π / 4 / n2))
    (stepAngle n1 i + π / n1) (π / n1)
  obtain ⟨e1, e2, e3, e4⟩ := BA.grid_angles n1 n2 i j
  have e3' : -(BA.lat n2 j + π / 4 / n2) - -(π / 4 / n2) = -BA.lat n2 j := by ring
  have e4' : -(BA.lat n2 j + π / 4 / n2) + -(π / 4 / n2) = -BA.lat n2 (j + 1) := by rw [← e4]; ring
  rw [e1, e2, e3', e4', BA.sidePhi_mirror] at this
  rw [vecArea2R_flip]
  have hd : ∀ a b : R3, dot a (smul (-1) b) = - dot a b := by intro a b; simp only [dot, smul]; ring
  rw [hd]
  unfold BA.qLo BA.lo BA.vtx BA.faceVal
  rw [this, BA.latZ_neg]
  simp only [cos_neg, sin_neg]
  ring

/-- top cap, sector `i`, flipped by the constructor: `(top_point, tc[n2−2][s], tc[n2−2][e])` -/
theorem BA.top_value (c k u v : R3) (r : ℝ) (n1 n2 i k' : ℕ) (m : ℤ) (h2 : 1 ≤ n2) :
    dot (sub (BA.vtx c k u v r n1 n2 m k') (add c (smul r k))) (vecArea2R (flipCycle (BA.capT c k u v r n1 n2 i))) =
      BA.faceVal (dot k (cross u v)) (r * cos (BA.lat n2 (n2 - 1))) r n1 n2 (n2 - 1) i k' m := by
  obtain ⟨e1, e2, e3, e4⟩ := BA.grid_angles n1 n2 i (n2 - 1)
  have en : n2 - 1 + 1 = n2 := by omega
  rw [en, BA.lat_pole n2 (by omega)] at e4
  have := BA.cap_face_value c k u v r r (BA.latZ n2 m) (stepAngle n1 k') (BA.lat n2 (n2 - 1) + π / 4 / n2) (π / 4 / n2)
    (stepAngle n1 i + π / n1) (π / n1) (by rw [e4, sin_pi_div_two, mul_one]) (by rw [e4, cos_pi_div_two])
  rw [e1, e2, e3] at this
  have hf : flipCycle (BA.capT c k u v r n1 n2 i) = [add c (smul r k), BA.up c k u v r n1 n2 (n2 - 1) i,
      BA.up c k u v r n1 n2 (n2 - 1) (i + 1)] := by simp [BA.capT, flipCycle]
  rw [hf]
  unfold BA.up BA.vtx BA.faceVal
  rw [this]; ring

/-- bottom cap, sector `i`, as coded: `(bottom_point, bc[n2−2][e], bc[n2−2][s])` -/
theorem BA.bottom_value (c k u v : R3) (r : ℝ) (n1 n2 i k' : ℕ) (m : ℤ) (h2 : 1 ≤ n2) :
    dot (sub (BA.vtx c k u v r n1 n2 m k') (add c (smul (-r) k))) (vecArea2R (BA.capB c k u v r n1 n2 i)) =
      BA.faceVal (dot k (cross u v)) (r * cos (BA.lat n2 (n2 - 1))) r n1 n2 (n2 - 1) i k' (-m) := by
  obtain ⟨e1, e2, e3, e4⟩ := BA.grid_angles n1 n2 i (n2 - 1)
  have en : n2 - 1 + 1 = n2 := by omega
  rw [en, BA.lat_pole n2 (by omega)] at e4
  have e3' : -(BA.lat n2 (n2 - 1) + π / 4 / n2) - -(π / 4 / n2) = -BA.lat n2 (n2 - 1) := by ring
  have e4' : -(BA.lat n2 (n2 - 1) + π / 4 / n2) + -(π / 4 / n2) = -(π / 2) := by rw [← e4]; ring
  have := BA.cap_face_value c k u v r (-r) (BA.latZ n2 m) (stepAngle n1 k') (-(BA.lat n2 (n2 - 1) + π / 4 / n2))
    (-(π / 4 / n2)) (stepAngle n1 i + π / n1) (π / n1) (by rw [e4', sin_neg, sin_pi_div_two]; ring)
    (by rw [e4', cos_neg, cos_pi_div_two])
  rw [e1, e2, e3', BA.sidePhi_mirror] at this
  rw [BA.capB_eq, vecArea2R_flip]
  have hd : ∀ a b : R3, dot a (smul (-1) b) = - dot a b := by intro a b; simp only [dot, smul]; ring
  rw [hd]
  unfold BA.lo BA.vtx BA.faceVal
  rw [this, BA.latZ_neg]
  simp only [cos_neg, sin_neg]
  ring

/-- sign of the common value -/
theorem BA.faceVal_le (D S r : ℝ) (n1 n2 j i k' : ℕ) (m : ℤ) (hD : 0 < D) (hS : 0 ≤ S) (hn1 : 2 ≤ n1)
    (hj : j < n2) (hi : i < n1) (hk : k' < n1) (hm1 : -(n2 : ℤ) ≤ m) (hm2 : m ≤ n2) :
    BA.faceVal D S r n1 n2 j i k' m ≤ 0 :=
  BA.sign_le D S _ _ _ hD hS (BA.grid_lon_facts n1 hn1).1.le
    (mul_nonneg (sq_nonneg r) (BA.grid_lat_facts n2 j hj).1.le)
    (BA.sidePhi_grid_le n1 n2 j i k' m hn1 hj hi hk hm1 hm2)

theorem BA.faceVal_lt (D S r : ℝ) (n1 n2 j i k' : ℕ) (m : ℤ) (hD : 0 < D) (hS : 0 < S) (hr : 0 < r) (hn1 : 3 ≤ n1)
    (hj : j < n2) (hi : i < n1) (hk : k' < n1) (hm1 : -(n2 : ℤ) ≤ m) (hm2 : m ≤ n2)
    (hne : (m ≠ j ∧ m ≠ j + 1) ∨ (k' ≠ i ∧ k' ≠ (i + 1) % n1 ∧ -(n2 : ℤ) < m ∧ m < n2)) :
    BA.faceVal D S r n1 n2 j i k' m < 0 :=
  BA.sign_lt D S _ _ _ hD hS (BA.grid_lon_facts n1 (by omega)).1
    (mul_pos (by positivity) (BA.grid_lat_facts n2 j hj).1)
    (BA.sidePhi_grid_lt n1 n2 j i k' m hn1 hj hi hk hm1 hm2 hne)

theorem BA.ringSum_pos (r : ℝ) (n2 j : ℕ) (hr : 0 < r) (hj : j < n2) :
    0 < r * cos (BA.lat n2 j) + r * cos (BA.lat n2 (j + 1)) ∧ 0 < r * cos (BA.lat n2 j) := by
  obtain ⟨_, _, h3, h4⟩ := BA.grid_lat_facts n2 j hj
  have := mul_pos hr h3
  have := mul_nonneg hr.le h4
  constructor <;> linarith

/-! ### C14, convexity of the Sphere solid, face by face
    Hypotheses: `0 < k·(u × v)` (the frame of `get_circle_point_list` is counter-clockwise about the normal:
    `frame_real_positive`), `0 < r`, `n1 ≥ 2` (strict version: `n1 ≥ 3`), ring index `|m| ≤ n2`. -/

/-- upper band `j` (rings `j`, `j+1`; `j ≤ n2−2` in the solid), sector `i`, oriented as coded
    `(ring_j[s], ring_j[e], ring_{j+1}[e], ring_{j+1}[s])`: every vertex is on the inner side of the face plane -/
theorem BA.sphere_upper_inner (c k u v : R3) (r : ℝ) (n1 n2 j i k' : ℕ) (m : ℤ) (hD : 0 < dot k (cross u v))
    (hr : 0 < r) (hn1 : 2 ≤ n1) (hj : j < n2) (hi : i < n1) (hk : k' < n1) (hm1 : -(n2 : ℤ) ≤ m) (hm2 : m ≤ n2) :
    dot (sub (BA.vtx c k u v r n1 n2 m k') (BA.up c k u v r n1 n2 j i))
      (vecArea2R (BA.qUp c k u v r n1 n2 j i)) ≤ 0 := by
  rw [BA.upper_value]
  exact BA.faceVal_le _ _ r n1 n2 j i k' m hD (BA.ringSum_pos r n2 j hr hj).1.le hn1 hj hi hk hm1 hm2

/-- … strictly, unless the vertex is one of the four corners (rings `j`, `j+1`, points `i`, `(i+1) mod n1`) -/
theorem BA.sphere_upper_inner_strict (c k u v : R3) (r : ℝ) (n1 n2 j i k' : ℕ) (m : ℤ)
    (hD : 0 < dot k (cross u v)) (hr : 0 < r) (hn1 : 3 ≤ n1) (hj : j < n2) (hi : i < n1) (hk : k' < n1)
    (hm1 : -(n2 : ℤ) ≤ m) (hm2 : m ≤ n2)
    (hne : (m ≠ j ∧ m ≠ j + 1) ∨ (k' ≠ i ∧ k' ≠ (i + 1) % n1 ∧ -(n2 : ℤ) < m ∧ m < n2)) :
    dot (sub (BA.vtx c k u v r n1 n2 m k') (BA.up c k u v r n1 n2 j i))
      (vecArea2R (BA.qUp c k u v r n1 n2 j i)) < 0 := by
  rw [BA.upper_value]
  exact BA.faceVal_lt _ _ r n1 n2 j i k' m hD (BA.ringSum_pos r n2 j hr hj).1 hr hn1 hj hi hk hm1 hm2 hne

/-- lower band `j`, sector `i`, after the constructor's flip -/
theorem BA.sphere_lower_inner (c k u v : R3) (r : ℝ) (n1 n2 j i k' : ℕ) (m : ℤ) (hD : 0 < dot k (cross u v))
    (hr : 0 < r) (hn1 : 2 ≤ n1) (hj : j < n2) (hi : i < n1) (hk : k' < n1) (hm1 : -(n2 : ℤ) ≤ m) (hm2 : m ≤ n2) :
    dot (sub (BA.vtx c k u v r n1 n2 m k') (BA.lo c k u v r n1 n2 j i))
      (vecArea2R (flipCycle (BA.qLo c k u v r n1 n2 j i))) ≤ 0 := by
  rw [BA.lower_value]
  exact BA.faceVal_le _ _ r n1 n2 j i k' (-m) hD (BA.ringSum_pos r n2 j hr hj).1.le hn1 hj hi hk (by omega) (by omega)

theorem BA.sphere_lower_inner_strict (c k u v : R3) (r : ℝ) (n1 n2 j i k' : ℕ) (m : ℤ)
    (hD : 0 < dot k (cross u v)) (hr : 0 < r) (hn1 : 3 ≤ n1) (hj : j < n2) (hi : i < n1) (hk : k' < n1)
    (hm1 : -(n2 : ℤ) ≤ m) (hm2 : m ≤ n2)
    (hne : (m ≠ -(j : ℤ) ∧ m ≠ -((j : ℤ) + 1)) ∨ (k' ≠ i ∧ k' ≠ (i + 1) % n1 ∧ -(n2 : ℤ) < m ∧ m < n2)) :
    dot (sub (BA.vtx c k u v r n1 n2 m k') (BA.lo c k u v r n1 n2 j i))
      (vecArea2R (flipCycle (BA.qLo c k u v r n1 n2 j i))) < 0 := by
  rw [BA.lower_value]
  refine BA.faceVal_lt _ _ r n1 n2 j i k' (-m) hD (BA.ringSum_pos r n2 j hr hj).1 hr hn1 hj hi hk (by omega)
    (by omega) ?_
  rcases hne with ⟨h1, h2⟩ | ⟨h1, h2, h3, h4⟩
  · exact Or.inl ⟨by omega, by omega⟩
  · exact Or.inr ⟨h1, h2, by omega, by omega⟩

/-- top cap triangle of sector `i` after the flip `(top_point, tc[n2−2][s], tc[n2−2][e])` -/
theorem BA.sphere_top_inner (c k u v : R3) (r : ℝ) (n1 n2 i k' : ℕ) (m : ℤ) (hD : 0 < dot k (cross u v))
    (hr : 0 < r) (hn1 : 2 ≤ n1) (h2 : 1 ≤ n2) (hi : i < n1) (hk : k' < n1) (hm1 : -(n2 : ℤ) ≤ m) (hm2 : m ≤ n2) :
    dot (sub (BA.vtx c k u v r n1 n2 m k') (add c (smul r k)))
      (vecArea2R (flipCycle (BA.capT c k u v r n1 n2 i))) ≤ 0 := by
  rw [BA.top_value c k u v r n1 n2 i k' m h2]
  exact BA.faceVal_le _ _ r n1 n2 (n2 - 1) i k' m hD (BA.ringSum_pos r n2 (n2 - 1) hr (by omega)).2.le hn1
    (by omega) hi hk hm1 hm2

theorem BA.sphere_top_inner_strict (c k u v : R3) (r : ℝ) (n1 n2 i k' : ℕ) (m : ℤ) (hD : 0 < dot k (cross u v))
    (hr : 0 < r) (hn1 : 3 ≤ n1) (h2 : 1 ≤ n2) (hi : i < n1) (hk : k' < n1) (hm1 : -(n2 : ℤ) ≤ m) (hm2 : m ≤ n2)
    (hne : (m ≠ (n2 : ℤ) - 1 ∧ m ≠ n2) ∨ (k' ≠ i ∧ k' ≠ (i + 1) % n1 ∧ -(n2 : ℤ) < m ∧ m < n2)) :
    dot (sub (BA.vtx c k u v r n1 n2 m k') (add c (smul r k)))
      (vecArea2R (flipCycle (BA.capT c k u v r n1 n2 i))) < 0 := by
  rw [BA.top_value c k u v r n1 n2 i k' m h2]
  refine BA.faceVal_lt _ _ r n1 n2 (n2 - 1) i k' m hD (BA.ringSum_pos r n2 (n2 - 1) hr (by omega)).2 hr hn1
    (by omega) hi hk hm1 hm2 ?_
  rcases hne with ⟨h1, h2'⟩ | h
  · exact Or.inl ⟨by omega, by omega⟩
  · exact Or.inr h

/-- bottom cap triangle of sector `i` as coded `(bottom_point, bc[n2−2][e], bc[n2−2][s])` -/
theorem BA.sphere_bottom_inner (c k u v : R3) (r : ℝ) (n1 n2 i k' : ℕ) (m : ℤ) (hD : 0 < dot k (cross u v))
    (hr : 0 < r) (hn1 : 2 ≤ n1) (h2 : 1 ≤ n2) (hi : i < n1) (hk : k' < n1) (hm1 : -(n2 : ℤ) ≤ m) (hm2 : m ≤ n2) :
    dot (sub (BA.vtx c k u v r n1 n2 m k') (add c (smul (-r) k)))
      (vecArea2R (BA.capB c k u v r n1 n2 i)) ≤ 0 := by
  rw [BA.bottom_value c k u v r n1 n2 i k' m h2]
  exact BA.faceVal_le _ _ r n1 n2 (n2 - 1) i k' (-m) hD (BA.ringSum_pos r n2 (n2 - 1) hr (by omega)).2.le hn1
    (by omega) hi hk (by omega) (by omega)

theorem BA.sphere_bottom_inner_strict (c k u v : R3) (r : ℝ) (n1 n2 i k' : ℕ) (m : ℤ)
    (hD : 0 < dot k (cross u v)) (hr : 0 < r) (hn1 : 3 ≤ n1) (h2 : 1 ≤ n2) (hi : i < n1) (hk : k' < n1)
    (hm1 : -(n2 : ℤ) ≤ m) (hm2 : m ≤ n2)
    (hne : (m ≠ -((n2 : ℤ) - 1) ∧ m ≠ -(n2 : ℤ)) ∨ (k' ≠ i ∧ k' ≠ (i + 1) % n1 ∧ -(n2 : ℤ) < m ∧ m < n2)) :
    dot (sub (BA.vtx c k u v r n1 n2 m k') (add c (smul (-r) k)))
      (vecArea2R (BA.capB c k u v r n1 n2 i)) < 0 := by
  rw [BA.bottom_value c k u v r n1 n2 i k' m h2]
  refine BA.faceVal_lt _ _ r n1 n2 (n2 - 1) i k' (-m) hD (BA.ringSum_pos r n2 (n2 - 1) hr (by omega)).2 hr hn1
    (by omega) hi hk (by omega) (by omega) ?_
  rcases hne with ⟨h1, h2'⟩ | ⟨h1, h2', h3, h4⟩
  · exact Or.inl ⟨by omega, by omega⟩
  · exact Or.inr ⟨h1, h2', by omega, by omega⟩

/-! ### the whole solid -/
/-- every placed id is a grid vertex -/
theorem BA.spherePlace_is_vtx (c k u v : R3) (r : ℝ) (n1 n2 id : ℕ) (hn1 : 0 < n1) (h2 : 1 ≤ n2) :
    ∃ (m : ℤ) (k' : ℕ), -(n2 : ℤ) ≤ m ∧ m ≤ n2 ∧ k' < n1 ∧
      BA.spherePlace c k u v r n1 n2 id = BA.vtx c k u v r n1 n2 m k' := by
  unfold BA.spherePlace
  split_ifs with h1 h3 h4
  · have : id / n1 < n2 := Nat.div_lt_of_lt_mul (by rw [Nat.mul_comm]; exact h1)
    have hm := Nat.mod_lt id hn1
    generalize id / n1 = q at *
    exact ⟨(q : ℕ), id % n1, by omega, by omega, hm, BA.up_eq_vtx ..⟩
  · have : id / n1 < 2 * n2 - 1 := Nat.div_lt_of_lt_mul (by rw [Nat.mul_comm]; exact h3)
    have hm := Nat.mod_lt id hn1
    generalize id / n1 = q at *
    exact ⟨-((q - n2 + 1 : ℕ) : ℤ), id % n1, by omega, by omega, hm, BA.lo_eq_vtx ..⟩
  · refine ⟨(n2 : ℤ), 0, by omega, by omega, hn1, ?_⟩
    rw [← BA.up_eq_vtx, BA.up_pole c k u v r n1 n2 0 (by omega)]
  · refine ⟨-(n2 : ℤ), 0, by omega, by omega, hn1, ?_⟩
    rw [← BA.lo_eq_vtx, BA.lo_pole c k u v r n1 n2 0 (by omega)]

/-- C14, Sphere CONVEXITY, every n1 ≥ 2, n2 ≥ 2: for every face of the solid (outward normal: the shoelace vector
    area of the face cycle as the constructor leaves it; reference point: the face's first vertex) every vertex
    (ring `m`, point `k'`) is on the inner side -/
theorem BA.sphere_convex (c k u v : R3) (r : ℝ) (n1 n2 : ℕ) (hD : 0 < dot k (cross u v)) (hr : 0 < r)
    (hn1 : 2 ≤ n1) (h2 : 2 ≤ n2) :
    ∀ f ∈ BA.sphereSolid c k u v r n1 n2, ∀ (m : ℤ) (k' : ℕ), -(n2 : ℤ) ≤ m → m ≤ n2 → k' < n1 →
      dot (sub (BA.vtx c k u v r n1 n2 m k') (f.headD zero)) (vecArea2R f) ≤ 0 := by
  intro f hf m k' hm1 hm2 hk
  unfold BA.sphereSolid at hf
  obtain ⟨i, hi, hfi⟩ := List.mem_flatMap.mp hf
  have hi' : i < n1 := List.mem_range.mp hi
  unfold BA.sphereBlock at hfi
  simp only [List.mem_append, List.mem_cons, List.mem_flatMap, List.not_mem_nil, or_false] at hfi
  rcases hfi with ((rfl | rfl) | ⟨j, hj, (rfl | rfl)⟩) | (rfl | rfl)
  · exact BA.sphere_upper_inner c k u v r n1 n2 0 i k' m hD hr hn1 (by omega) hi' hk hm1 hm2
  · rw [headD_flipCycle]
    exact BA.sphere_lower_inner c k u v r n1 n2 0 i k' m hD hr hn1 (by omega) hi' hk hm1 hm2
  · obtain ⟨_, hj2⟩ := List.mem_range'_1.mp hj
    exact BA.sphere_upper_inner c k u v r n1 n2 j i k' m hD hr hn1 (by omega) hi' hk hm1 hm2
  · obtain ⟨_, hj2⟩ := List.mem_range'_1.mp hj
    rw [headD_flipCycle]
    exact BA.sphere_lower_inner c k u v r n1 n2 j i k' m hD hr hn1 (by omega) hi' hk hm1 hm2
  · rw [headD_flipCycle]
    exact BA.sphere_top_inner c k u v r n1 n2 i k' m hD hr hn1 (by omega) hi' hk hm1 hm2
  · exact BA.sphere_bottom_inner c k u v r n1 n2 i k' m hD hr hn1 (by omega) hi' hk hm1 hm2

/-- the same on the model's face list and placement: for every face of `sphereOriented n1 n2` placed by
    `BA.spherePlace` and every vertex id, the vertex is on the inner side of the face plane -/
theorem BA.sphere_convex_placed (c k u v : R3) (r : ℝ) (n1 n2 : ℕ) (hD : 0 < dot k (cross u v)) (hr : 0 < r)
    (hn1 : 2 ≤ n1) (h2 : 2 ≤ n2) :
    ∀ f ∈ (sphereOriented n1 n2).map (List.map (BA.spherePlace c k u v r n1 n2)), ∀ id : ℕ,
      dot (sub (BA.spherePlace c k u v r n1 n2 id) (f.headD zero)) (vecArea2R f) ≤ 0 := by
  intro f hf id
  rw [BA.sphere_placed c k u v r n1 n2 h2] at hf
  obtain ⟨m, k', hm1, hm2, hk, e⟩ := BA.spherePlace_is_vtx c k u v r n1 n2 id (by omega) (by omega)
  rw [e]
  exact BA.sphere_convex c k u v r n1 n2 hD hr hn1 h2 f hf m k' hm1 hm2 hk

/-- … with the frame of `get_circle_point_list` (unit normal `k`, base vector `b` not parallel to it) -/
theorem BA.sphere_convex_closed_form (c k b : R3) (r : ℝ) (n1 n2 : ℕ) (hr : 0 < r) (hn1 : 2 ≤ n1) (h2 : 2 ≤ n2)
    (hk : 0 < normSq k) (hb : 0 < normSq (cross k b)) :
    ∀ f ∈ (sphereOriented n1 n2).map (List.map (BA.spherePlace c k (frameU k b 1) (frameV k b 1) r n1 n2)),
      ∀ id : ℕ, dot (sub (BA.spherePlace c k (frameU k b 1) (frameV k b 1) r n1 n2 id) (f.headD zero))
        (vecArea2R f) ≤ 0 :=
  BA.sphere_convex_placed c k _ _ r n1 n2 (frame_real_positive k b 1 one_pos hk hb).2 hr hn1 h2

#print axioms BA.sphere_upper_inner_strict
#print axioms BA.sphere_lower_inner_strict
#print axioms BA.sphere_top_inner_strict
#print axioms BA.sphere_bottom_inner_strict
#print axioms BA.sphere_convex
#print axioms BA.sphere_convex_placed
#print axioms BA.sphere_convex_closed_form
end BuildersReal
end G3D
