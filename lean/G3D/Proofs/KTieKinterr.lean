import G3D.Extracted.Kinterr
import G3D.Extracted.Kinter
import G3D.Proofs.KTieKinter
import G3D.Proofs.VecRLemmas
import G3D.Proofs.Flat
import Mathlib.Analysis.Real.Sqrt
import Mathlib.Tactic.Ring
import Mathlib.Tactic.Linarith
import Mathlib.Tactic.FieldSimp
import Mathlib.Tactic.Positivity
/-! # kinter (real part): `inter_plane_plane` (unit normals as stored, two further normalisations on the way)  (C01).
    `inter_plane_plane` delegates to `inter_line_plane`: the model-level tie uses the ties of the rational part.
    `G3D.Extracted.impl_*` are regenerated on every run (tools/extract_kinterr.py, engine tools/kernels_engine.py): the REAL code is run on
    symbolic numbers, every comparison against the tolerance is recorded (operands and shape) and answered from a scripted
    path.  Each kernel has its own `section`: when the walk of ONE kernel fails the generated file holds only the marker
    `impl_<kernel>_EXTRACTION_FAILED` for it and exactly the theorems of that section stop compiling. -/
namespace G3D.KTie.Kinter
open G3D G3D.Extracted Real

section interPlanePlane
variable (p1 n1 p2 n2 : RVec)

/-- the four square roots met on the path: `|n1|`, `|n2|`, `|n̂1 × n̂2|`, `|(n̂1 × n̂2)^ × n̂1|`, in terms of the raw normals -/
theorem interPlanePlane_sqrts :
    impl_interPlanePlane_sqrt0 p1 n1 p2 n2 = √(RVec.normSq n1) ∧
    impl_interPlanePlane_sqrt1 p1 n1 p2 n2 = √(RVec.normSq n2) ∧
    impl_interPlanePlane_sqrt2 p1 n1 p2 n2 = √(RVec.normSq (RVec.cross n1 n2) *
      (1 / impl_interPlanePlane_sqrt0 p1 n1 p2 n2 * (1 / impl_interPlanePlane_sqrt1 p1 n1 p2 n2)) ^ 2) ∧
    impl_interPlanePlane_sqrt3 p1 n1 p2 n2 = √(RVec.normSq (RVec.cross (RVec.cross n1 n2) n1) *
      (1 / impl_interPlanePlane_sqrt0 p1 n1 p2 n2 * (1 / impl_interPlanePlane_sqrt1 p1 n1 p2 n2) *
        (1 / impl_interPlanePlane_sqrt2 p1 n1 p2 n2) * (1 / impl_interPlanePlane_sqrt0 p1 n1 p2 n2)) ^ 2) := by
  refine ⟨?_, ?_, ?_, ?_⟩
  · simp only [impl_interPlanePlane_sqrt0, sum0]
  · simp only [impl_interPlanePlane_sqrt1, sum0]
  · rw [impl_interPlanePlane_sqrt2]; congr 1
    simp only [RVec.normSq, RVec.dot, RVec.cross]; ring
  · rw [impl_interPlanePlane_sqrt3]; congr 1
    simp only [RVec.normSq, RVec.dot, RVec.cross]; ring

theorem interPlanePlane_sqrts_pos (h1 : n1 ≠ RVec.zero) (h2 : n2 ≠ RVec.zero) (hc : RVec.cross n1 n2 ≠ RVec.zero) :
    0 < impl_interPlanePlane_sqrt0 p1 n1 p2 n2 ∧ 0 < impl_interPlanePlane_sqrt1 p1 n1 p2 n2 ∧
    0 < impl_interPlanePlane_sqrt2 p1 n1 p2 n2 ∧ 0 < impl_interPlanePlane_sqrt3 p1 n1 p2 n2 := by
  obtain ⟨e0, e1, e2, e3⟩ := interPlanePlane_sqrts p1 n1 p2 n2
  have s0 : 0 < impl_interPlanePlane_sqrt0 p1 n1 p2 n2 := by rw [e0]; exact Real.sqrt_pos.mpr (nsq_pos h1)
  have s1 : 0 < impl_interPlanePlane_sqrt1 p1 n1 p2 n2 := by rw [e1]; exact Real.sqrt_pos.mpr (nsq_pos h2)
  have s2 : 0 < impl_interPlanePlane_sqrt2 p1 n1 p2 n2 := by
    rw [e2]; apply Real.sqrt_pos.mpr; have := nsq_pos hc; positivity
  have hd : 0 < RVec.normSq (RVec.cross (RVec.cross n1 n2) n1) := by
    have : RVec.normSq (RVec.cross (RVec.cross n1 n2) n1) = RVec.normSq (RVec.cross n1 n2) * RVec.normSq n1 := by
      simp only [RVec.normSq, RVec.dot, RVec.cross]; ring
    rw [this]; exact mul_pos (nsq_pos hc) (nsq_pos h1)
  refine ⟨s0, s1, s2, ?_⟩
  rw [e3]; apply Real.sqrt_pos.mpr; positivity

/-- the direction of the returned line is a positive multiple of `n1 × n2` (the model's direction) -/
theorem interPlanePlane_dv_real :
    impl_interPlanePlane_dv p1 n1 p2 n2 =
      RVec.smul (1 / impl_interPlanePlane_sqrt0 p1 n1 p2 n2 * (1 / impl_interPlanePlane_sqrt1 p1 n1 p2 n2) *
        (1 / impl_interPlanePlane_sqrt2 p1 n1 p2 n2)) (RVec.cross n1 n2) := by
  apply RVec.ext' <;> simp only [impl_interPlanePlane_dv, RVec.smul, RVec.cross] <;> ring

theorem ipp_key (px dx N0 D0 k1 K : ℝ) (hk1 : k1 ≠ 0) (hK : K ≠ 0) (hD : D0 ≠ 0) :
    px + (K * dx) * ((k1 * N0) / (k1 * (K * D0))) = px + (N0 / D0) * dx := by
  field_simp

/-- the support point of the returned line is the model's: all four normalisation factors cancel -/
theorem interPlanePlane_sv_real (h1 : n1 ≠ RVec.zero) (h2 : n2 ≠ RVec.zero) (hc : RVec.cross n1 n2 ≠ RVec.zero) :
    impl_interPlanePlane_sv p1 n1 p2 n2 =
      RVec.add p1 (RVec.smul ((RVec.dot n2 p2 - RVec.dot n2 p1) / RVec.dot n2 (RVec.cross (RVec.cross n1 n2) n1))
        (RVec.cross (RVec.cross n1 n2) n1)) := by
  obtain ⟨s0, s1, s2, s3⟩ := interPlanePlane_sqrts_pos p1 n1 p2 n2 h1 h2 hc
  have hD : RVec.dot n2 (RVec.cross (RVec.cross n1 n2) n1) ≠ 0 := by
    have : RVec.dot n2 (RVec.cross (RVec.cross n1 n2) n1) = RVec.normSq (RVec.cross n1 n2) := by
      simp only [RVec.normSq, RVec.dot, RVec.cross]; ring
    rw [this]; exact (nsq_pos hc).ne'
  rw [impl_interPlanePlane_sv]
  generalize impl_interPlanePlane_sqrt0 p1 n1 p2 n2 = t0 at s0 ⊢
  generalize impl_interPlanePlane_sqrt1 p1 n1 p2 n2 = t1 at s1 ⊢
  generalize impl_interPlanePlane_sqrt2 p1 n1 p2 n2 = t2 at s2 ⊢
  generalize impl_interPlanePlane_sqrt3 p1 n1 p2 n2 = t3 at s3 ⊢
  have hk1 : (1 / t1) ≠ 0 := (one_div_pos.mpr s1).ne'
  have hK : (1 / t0 * (1 / t1) * (1 / t2) * (1 / t0) * (1 / t3)) ≠ 0 := by positivity
  apply RVec.ext'
  · have := ipp_key p1.x (RVec.cross (RVec.cross n1 n2) n1).x (RVec.dot n2 p2 - RVec.dot n2 p1)
      (RVec.dot n2 (RVec.cross (RVec.cross n1 n2) n1)) _ _ hk1 hK hD
    simp only [RVec.add, RVec.smul]; rw [← this]
    simp only [RVec.dot, RVec.cross, zero_add]; ring
  · have := ipp_key p1.y (RVec.cross (RVec.cross n1 n2) n1).y (RVec.dot n2 p2 - RVec.dot n2 p1)
      (RVec.dot n2 (RVec.cross (RVec.cross n1 n2) n1)) _ _ hk1 hK hD
    simp only [RVec.add, RVec.smul]; rw [← this]
    simp only [RVec.dot, RVec.cross, zero_add]; ring
  · have := ipp_key p1.z (RVec.cross (RVec.cross n1 n2) n1).z (RVec.dot n2 p2 - RVec.dot n2 p1)
      (RVec.dot n2 (RVec.cross (RVec.cross n1 n2) n1)) _ _ hk1 hK hD
    simp only [RVec.add, RVec.smul]; rw [← this]
    simp only [RVec.dot, RVec.cross, zero_add]; ring
end interPlanePlane

section interPlanePlaneModel
/-- for rational planes, on the path walked (different, not parallel): the model returns the line `⟨q, n1 × n2⟩`; the
    extracted support point IS `q`, the extracted direction is a positive multiple of `n1 × n2` -/
theorem interPlanePlane_tie (a b : Plane) (ha : a.WF) (hb : b.WF) (hne : a.eqv b = false)
    (hpar : V3.parallel a.n b.n = false) :
    ∃ q : V3, interPlanePlane a b = .ok (some (.line ⟨q, V3.cross a.n b.n⟩)) ∧
      impl_interPlanePlane_sv a.p.toR a.n.toR b.p.toR b.n.toR = q.toR ∧
      ∃ k : ℝ, 0 < k ∧
        impl_interPlanePlane_dv a.p.toR a.n.toR b.p.toR b.n.toR = RVec.smul k (V3.cross a.n b.n).toR := by
  have hcr : V3.cross a.n b.n ≠ V3.zero := by
    intro h; rw [(G3D.parallel_iff_cross a.n b.n).mpr h] at hpar; exact Bool.noConfusion hpar
  have hD : V3.dot b.n (V3.cross (V3.cross a.n b.n) a.n) ≠ 0 := by
    have : V3.dot b.n (V3.cross (V3.cross a.n b.n) a.n) = V3.normSq (V3.cross a.n b.n) := by
      simp only [V3.normSq, V3.dot, V3.cross]; ring
    rw [this]; exact (G3D.normSq_pos hcr).ne'
  have h1 : a.n.toR ≠ RVec.zero := fun h => ha (toR_inj.mp (h.trans toR_zero.symm))
  have h2 : b.n.toR ≠ RVec.zero := fun h => hb (toR_inj.mp (h.trans toR_zero.symm))
  have hc : RVec.cross a.n.toR b.n.toR ≠ RVec.zero := by
    rw [toR_cross]; exact fun h => hcr (toR_inj.mp (h.trans toR_zero.symm))
  have hi := interLinePlane_tie' ⟨a.p, V3.cross (V3.cross a.n b.n) a.n⟩ b hD
  refine ⟨impl_interLinePlane_point a.p (V3.cross (V3.cross a.n b.n) a.n) b.p b.n, ?_, ?_, ?_⟩
  · simp only [interPlanePlane, hne, hpar, Bool.false_eq_true, if_false, hi]
  · have e : impl_interLinePlane_point a.p (V3.cross (V3.cross a.n b.n) a.n) b.p b.n
        = V3.add a.p (V3.smul (impl_interLinePlane_mu a.p (V3.cross (V3.cross a.n b.n) a.n) b.p b.n)
            (V3.cross (V3.cross a.n b.n) a.n)) :=
      interLinePlane_point_tie ⟨a.p, V3.cross (V3.cross a.n b.n) a.n⟩ b
    have m : impl_interLinePlane_mu a.p (V3.cross (V3.cross a.n b.n) a.n) b.p b.n
        = (V3.dot b.n b.p - V3.dot b.n a.p) / V3.dot b.n (V3.cross (V3.cross a.n b.n) a.n) :=
      interLinePlane_mu_tie ⟨a.p, V3.cross (V3.cross a.n b.n) a.n⟩ b
    rw [interPlanePlane_sv_real _ _ _ _ h1 h2 hc, e, m, ← toR_add, ← toR_smul, toR_cross, toR_cross, toR_dot, toR_dot, toR_dot]
    push_cast; rfl
  · obtain ⟨s0, s1, s2, _⟩ := interPlanePlane_sqrts_pos a.p.toR a.n.toR b.p.toR b.n.toR h1 h2 hc
    refine ⟨_, ?_, by rw [interPlanePlane_dv_real, toR_cross]⟩
    positivity

theorem interPlanePlane_path :
    impl_interPlanePlane_path = [("abs(R) < eps", false), ("abs(R) < eps", false), ("abs(R) < eps", false),
      ("abs(R) < eps", false), ("abs(R) < (eps * S)", false), ("abs(R) < eps", false), ("abs(R) < eps", false),
      ("abs(R) < eps", false), ("abs(R) < eps", false)] := by decide
end interPlanePlaneModel

end G3D.KTie.Kinter
