import G3D.Model.Tol
import Mathlib.Tactic.Ring
import Mathlib.Tactic.Linarith
import Mathlib.Tactic.Positivity
import Mathlib.Algebra.Order.Field.Rat
import Mathlib.Algebra.Order.Field.Power
import Mathlib.Tactic.FieldSimp

namespace G3D.Tol

/-- the invariant of constant.py: `SIG_FIGURES = round(log10(1/FLOAT_EPS))` -/
def Inv (c : Cfg) : Prop := isSigOf c.eps c.sig = true

theorem sigOf_spec (e : Rat) (k : Int) (h : sigOf e = some k) : isSigOf e k = true := by
  unfold sigOf at h
  exact List.find?_some h

theorem pow10_pos (k : Nat) : 0 < pow10 k := by unfold pow10; positivity

theorem pow10_succ (k : Nat) : pow10 (k+1) = 10 * pow10 k := by unfold pow10; ring

theorem pow10_add (a b : Nat) : pow10 (a + b) = pow10 a * pow10 b := by unfold pow10; ring

theorem pow10_lt (a b : Nat) (h : a < b) : pow10 a < pow10 b := by
  unfold pow10
  exact pow_lt_pow_right₀ (by norm_num) h

theorem pow10_le (a b : Nat) (h : a ≤ b) : pow10 a ≤ pow10 b := by
  unfold pow10
  exact pow_le_pow_right₀ (by norm_num) h

/-- `set_sig_figures(n)` with `n ≥ 0` (the documented use) establishes the invariant -/
theorem setSig_inv (c : Cfg) (n : Nat) : Inv (setSig c (n : Int)) := by
  unfold Inv setSig isSigOf
  simp only [Bool.and_eq_true, decide_eq_true_eq]
  have hp := pow10_pos n
  have he : pow10neg (n : Int) = 1 / pow10 n := by simp [pow10neg]
  rw [he]
  have hsq : 1 / (1 / pow10 n * (1 / pow10 n)) = pow10 (n + n) := by
    rw [pow10_add]
    have hne : pow10 n ≠ 0 := ne_of_gt hp
    field_simp
  rw [hsq]
  refine ⟨⟨by positivity, ?_⟩, ?_⟩
  · -- 10^(2n-1) ≤ 10^(2n)
    cases n with
    | zero => simp [pow10neg, pow10]; norm_num
    | succ m =>
      have h1 : -(2 * ((m + 1 : Nat) : Int) - 1) < 0 := by push_cast; omega
      have : pow10neg (-(2 * ((m + 1 : Nat) : Int) - 1)) = pow10 (2 * m + 1) := by
        unfold pow10neg
        rw [if_neg (by omega)]
        congr 1
        push_cast; omega
      rw [this]
      exact pow10_le _ _ (by omega)
  · have h1 : ¬ (0 ≤ -(2 * (n : Int) + 1)) := by omega
    have : pow10neg (-(2 * (n : Int) + 1)) = pow10 (2 * n + 1) := by
      unfold pow10neg
      rw [if_neg h1]
      congr 1
    rw [this]
    exact pow10_lt _ _ (by omega)

theorem setEps_inv (c : Cfg) (e : Rat) (c' : Cfg) (h : setEps c e = some c') : Inv c' := by
  unfold setEps at h
  cases hs : sigOf e with
  | none => rw [hs] at h; cases h
  | some k => rw [hs] at h; cases h; exact sigOf_spec e k hs

/-- C19 (configuration): after ANY sequence of setter calls (with non-negative digit counts) the two
    globals are consistent -/
def Op.ok : Op → Prop
  | .setSig n => 0 ≤ n
  | _ => True

theorem init_inv : Inv init := by
  have := setSig_inv init 10
  simpa [setSig, init, pow10neg] using this

theorem step_inv (c : Cfg) (op : Op) (hok : op.ok) (c' : Cfg) (h : step c op = some c') : Inv c' := by
  cases op with
  | setEps e => exact setEps_inv c e c' h
  | setSig n =>
    simp only [step, Option.some.injEq] at h
    subst h
    obtain ⟨m, rfl⟩ := Int.eq_ofNat_of_zero_le hok
    exact setSig_inv c m
  | setEpsDefault => exact setEps_inv c _ c' h
  | setSigDefault =>
    simp only [step, Option.some.injEq] at h
    subst h
    exact setSig_inv c 10

theorem run_inv : ∀ (ops : List Op) (c : Cfg), Inv c → (∀ op ∈ ops, op.ok) → ∀ c', run c ops = some c' → Inv c' := by
  intro ops
  induction ops with
  | nil => intro c hc _ c' h; simp [run] at h; subst h; exact hc
  | cons op ops ih =>
    intro c hc hok c' h
    simp only [run] at h
    cases hs : step c op with
    | none => rw [hs] at h; simp at h
    | some c1 =>
      rw [hs] at h
      simp only [Option.bind_some] at h
      exact ih c1 (step_inv c op (hok op (by simp)) c1 hs) (fun o ho => hok o (by simp [ho])) c' h

/-- restoring the previous eps restores the previous configuration -/
theorem restore (c : Cfg) (hc : Inv c) (e : Rat) (c1 c2 : Cfg) (h1 : setEps c e = some c1)
    (h2 : setEps c1 c.eps = some c2) : c2.eps = c.eps := by
  unfold setEps at h2
  cases hs : sigOf c.eps with
  | none => rw [hs] at h2; cases h2
  | some k => rw [hs] at h2; cases h2; rfl

/-- Points / Vectors: a difference of at most eps/1000 is equal, more than 4·eps in a coordinate is not -/
theorem coordEq_within (c : Cfg) (hpos : 0 < c.eps) (a b : Rat) (h : absR (a - b) ≤ c.eps / 1000) :
    coordEq c a b = true := by
  unfold coordEq; simp only [decide_eq_true_eq]
  have : c.eps / 1000 < c.eps := by linarith
  linarith

theorem coordEq_beyond (c : Cfg) (hpos : 0 < c.eps) (a b : Rat) (h : 4 * c.eps < absR (a - b)) :
    coordEq c a b = false := by
  unfold coordEq; simp only [decide_eq_false_iff_not, not_lt]
  linarith
#print axioms run_inv
end G3D.Tol
