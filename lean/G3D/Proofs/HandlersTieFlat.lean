import G3D.Extracted.Hflat
import G3D.Proofs.HandlersTieShared
/-! # Tie, group `hflat` (property C01): the twelve flat handlers of calc/intersection.py that are written in terms of
    other handlers / membership tests — extracted body (`G3D.Extracted.Hflat`, tools/extract_hflat.py) = hand model.
    See `G3D.Proofs.HandlersTie` for the conventions. -/
set_option linter.unusedSimpArgs false
set_option linter.unusedVariables false
namespace G3D.Tie
open V3 PyRt Extracted

/-! ## the flat handlers of calc/intersection.py that are written in terms of other handlers -/

@[pyrt] theorem pySetAdd_nil_pt (q : V3) :
    pySetAdd (.set []) (.obj (.flat (.point q))) = .ok (.set ((addNew [] q).map ptObj)) :=
  pySetAdd_pt [] q

/-- the tail of the collinear handlers, after evaluation of the runtime primitives:
    `if len(s) == 0: return None; l = list(s); if len(s) == 1: return l[0]; elif len(s) == 2: Segment(l[0], l[1]); else Bug` -/
theorem pointTail2_eq (acc : List V3) :
    (if (((acc.map ptObj).length : Int) == 0) = true then Except.ok Val.none
     else if (((acc.map ptObj).length : Int) == 1) = true then pyIndex (Val.seq (acc.map ptObj)) (Val.int 0)
     else if (((acc.map ptObj).length : Int) == 2) = true then do
       let x ← pyIndex (Val.seq (acc.map ptObj)) (Val.int 0)
       let y ← pyIndex (Val.seq (acc.map ptObj)) (Val.int 1)
       pySegment x y
     else Except.error BErr.bug) = Val.ofRes (liftFlat (ofPointSet acc)) := by
  have := ofPoints_cases acc
  unfold ofPoints at this
  rw [this]
  match acc with
  | [] => simp [pyrt]
  | [p] => simp [pyrt, ptObj]
  | [p, q] => simp [pyrt, ptObj]
  | p :: q :: r :: rest =>
    have h0 : ¬ ((rest.length : Int) + 1 + 1 + 1 = 0) := by omega
    have h1 : ¬ ((rest.length : Int) + 1 + 1 = 0) := by omega
    have h2 : ¬ ((rest.length : Int) + 1 + 1 + 1 = 2) := by omega
    simp [pyrt, h0, h1, h2]

theorem h_inter_segment_segment_eq (a b : Seg) :
    h_inter_segment_segment (.obj (.flat (.seg a))) (.obj (.flat (.seg b))) =
      Val.ofRes (liftFlat (interSegSeg a b)) := by
  unfold h_inter_segment_segment
  simp only [pyrt, List.map_map, interSegSeg]
  by_cases heq : a.line.eqv b.line = true
  · simp only [heq, if_true]
    by_cases h1 : b.contains a.a = true <;> by_cases h2 : b.contains a.b = true <;>
      by_cases h3 : a.contains b.a = true <;> by_cases h4 : a.contains b.b = true <;>
      simp only [h1, h2, h3, h4, if_true, if_false, pySetAdd_pt, pySetAdd_nil_pt, ok_bind, Bool.false_eq_true] <;>
      first
        | exact pointTail2_eq []
        | (generalize addNew _ _ = acc; exact pointTail2_eq acc)
  · simp only [heq, if_false, Bool.false_eq_true]
    rcases interLineLine a.line b.line with e | o
    · cases e <;> simp [pyrt, liftFlat]
    rcases o with _ | g
    · simp [pyrt]
    cases g with
    | point q => by_cases h1 : a.contains q = true <;> by_cases h2 : b.contains q = true <;> simp [pyrt, h1, h2]
    | _ => simp [pyrt]

theorem h_inter_segment_halfline_eq (a : Seg) (b : HalfLine) :
    h_inter_segment_halfline (.obj (.flat (.seg a))) (.obj (.flat (.halfline b))) =
      Val.ofRes (liftFlat (interSegHalfLine a b)) := by
  unfold h_inter_segment_halfline
  simp only [pyrt, List.map_map, interSegHalfLine]
  by_cases heq : a.line.eqv b.line = true
  · simp only [heq, if_true]
    by_cases h1 : b.contains a.a = true <;> by_cases h2 : b.contains a.b = true <;>
      by_cases h3 : a.contains b.p = true <;>
      simp only [h1, h2, h3, if_true, if_false, pySetAdd_pt, pySetAdd_nil_pt, ok_bind, Bool.false_eq_true] <;>
      first
        | exact pointTail2_eq []
        | (generalize addNew _ _ = acc; exact pointTail2_eq acc)
  · simp only [heq, if_false, Bool.false_eq_true]
    rcases interLineLine a.line b.line with e | o
    · cases e <;> simp [pyrt, liftFlat]
    rcases o with _ | g
    · simp [pyrt]
    cases g with
    | point q => by_cases h1 : a.contains q = true <;> by_cases h2 : b.contains q = true <;> simp [pyrt, h1, h2]
    | _ => simp [pyrt]

theorem h_inter_halfline_halfline_eq (a b : HalfLine) :
    h_inter_halfline_halfline (.obj (.flat (.halfline a))) (.obj (.flat (.halfline b))) =
      Val.ofRes (liftFlat (interHalfLineHalfLine a b)) := by
  unfold h_inter_halfline_halfline
  simp only [pyrt, List.map_map, interHalfLineHalfLine]
  by_cases heq : a.line.eqv b.line = true
  · simp only [heq, if_true]
    by_cases hab : b.containsHL a = true
    · simp [hab, pyrt]
    by_cases hba : a.containsHL b = true
    · simp [hab, hba, pyrt]
    simp only [hab, hba, if_false, Bool.false_eq_true]
    by_cases h1 : b.contains a.p = true <;> by_cases h2 : a.contains b.p = true <;>
      simp only [h1, h2, if_true, if_false, pySetAdd_pt, pySetAdd_nil_pt, ok_bind, Bool.false_eq_true] <;>
      first
        | exact pointTail2_eq []
        | (generalize addNew _ _ = acc; exact pointTail2_eq acc)
  · simp only [heq, if_false, Bool.false_eq_true]
    rcases interLineLine a.line b.line with e | o
    · cases e <;> simp [pyrt, liftFlat]
    rcases o with _ | g
    · simp [pyrt]
    cases g with
    | point q => by_cases h1 : a.contains q = true <;> by_cases h2 : b.contains q = true <;> simp [pyrt, h1, h2]
    | _ => simp [pyrt]

theorem h_inter_line_segment_eq (l : Line) (s : Seg) :
    h_inter_line_segment (.obj (.flat (.line l))) (.obj (.flat (.seg s))) = Val.ofRes (liftFlat (interLineSeg l s)) := by
  unfold h_inter_line_segment
  simp only [pyrt, interLineSeg]
  rcases interLineLine l s.line with e | o
  · cases e <;> simp [pyrt, liftFlat]
  rcases o with _ | g
  · simp [pyrt]
  cases g <;> simp [pyrt]

theorem h_inter_line_halfline_eq (l : Line) (h : HalfLine) :
    h_inter_line_halfline (.obj (.flat (.line l))) (.obj (.flat (.halfline h))) =
      Val.ofRes (liftFlat (interLineHalfLine l h)) := by
  unfold h_inter_line_halfline
  simp only [pyrt, interLineHalfLine]
  rcases interLineLine l h.line with e | o
  · cases e <;> simp [pyrt, liftFlat]
  rcases o with _ | g
  · simp [pyrt]
  cases g <;> simp [pyrt]

theorem h_inter_plane_segment_eq (a : Plane) (s : Seg) :
    h_inter_plane_segment (.obj (.flat (.plane a))) (.obj (.flat (.seg s))) = Val.ofRes (liftFlat (interPlaneSeg a s)) := by
  unfold h_inter_plane_segment
  simp only [pyrt, interPlaneSeg]
  rcases interLinePlane s.line a with e | o
  · cases e <;> simp [pyrt, liftFlat]
  rcases o with _ | g
  · simp [pyrt]
  cases g <;> simp [pyrt]

theorem h_inter_plane_halfline_eq (a : Plane) (h : HalfLine) :
    h_inter_plane_halfline (.obj (.flat (.plane a))) (.obj (.flat (.halfline h))) =
      Val.ofRes (liftFlat (interPlaneHalfLine a h)) := by
  unfold h_inter_plane_halfline
  simp only [pyrt, interPlaneHalfLine]
  rcases interLinePlane h.line a with e | o
  · cases e <;> simp [pyrt, liftFlat]
  rcases o with _ | g
  · simp [pyrt]
  cases g <;> simp [pyrt]

/-! ### the five `inter_point_*` flat handlers -/
theorem h_inter_point_point_eq (p q : V3) :
    h_inter_point_point (.obj (.flat (.point p))) (.obj (.flat (.point q))) = Val.ofRes (liftFlat (interPointPoint p q)) := by
  unfold h_inter_point_point
  by_cases h : p = q <;> simp [pyrt, interPointPoint, h]

theorem h_inter_point_line_eq (p : V3) (l : Line) :
    h_inter_point_line (.obj (.flat (.point p))) (.obj (.flat (.line l))) = Val.ofRes (liftFlat (interPointLine p l)) := by
  unfold h_inter_point_line
  by_cases h : l.contains p = true <;> simp [pyrt, interPointLine, h]

theorem h_inter_point_plane_eq (p : V3) (a : Plane) :
    h_inter_point_plane (.obj (.flat (.point p))) (.obj (.flat (.plane a))) = Val.ofRes (liftFlat (interPointPlane p a)) := by
  unfold h_inter_point_plane
  by_cases h : a.contains p = true <;> simp [pyrt, interPointPlane, h]

theorem h_inter_point_segment_eq (p : V3) (s : Seg) :
    h_inter_point_segment (.obj (.flat (.point p))) (.obj (.flat (.seg s))) = Val.ofRes (liftFlat (interPointSeg p s)) := by
  unfold h_inter_point_segment
  by_cases h : s.contains p = true <;> simp [pyrt, interPointSeg, h]

theorem h_inter_point_halfline_eq (p : V3) (hl : HalfLine) :
    h_inter_point_halfline (.obj (.flat (.point p))) (.obj (.flat (.halfline hl))) =
      Val.ofRes (liftFlat (interPointHalfLine p hl)) := by
  unfold h_inter_point_halfline
  by_cases h : hl.contains p = true <;> simp [pyrt, interPointHalfLine, h]

/-! ## axiom audit -/
#print axioms h_inter_segment_segment_eq
#print axioms h_inter_segment_halfline_eq
#print axioms h_inter_halfline_halfline_eq
#print axioms h_inter_line_segment_eq
#print axioms h_inter_line_halfline_eq
#print axioms h_inter_plane_segment_eq
#print axioms h_inter_plane_halfline_eq
#print axioms h_inter_point_point_eq
#print axioms h_inter_point_line_eq
#print axioms h_inter_point_plane_eq
#print axioms h_inter_point_segment_eq
#print axioms h_inter_point_halfline_eq

end G3D.Tie
