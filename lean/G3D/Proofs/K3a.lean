import G3D.Proofs.K5
import G3D.Proofs.BodySoundAll

/-! # Kernel K3, part a: completeness (hence exactness) of Point / Line × ConvexPolyhedron

    * `Polyhedron.Proper` : the hypothesis bundle (`ValidCore` + `FaceLocal`; follows from `ValidProper`);
      `Polyhedron.HullCore` : the weaker bundle (`ValidCore` + `contains ⊆ hull`) that also every `Valid` body
      (coplanar neighbouring faces allowed) satisfies
    * `Polyhedron.exists_face_along`, `Polyhedron.bounded` : boundedness (some face looks along every direction; every
      line meets the body in a bounded parameter set) — for `HullCore`
    * `Polyhedron.line_interval` : `l ∩ K` is a closed parameter interval whose ends are tight on faces — `HullCore`
    * `segmentFromPointList_exact` : `get_segment_from_point_list` on a collected list
    * `interPointPolyhedron_exact` (no hypothesis), `interLinePolyhedron_exact` (`Proper`),
      `interLinePolyhedron_exact_partial` (`Valid`, provided the early return is not taken) -/
namespace G3D
open V3

/-! ### 1. Point × ConvexPolyhedron -/
theorem interPointPolyhedron_exact (p : V3) (B : Polyhedron) :
    ExactW (interPointPolyhedron p B) (· = p) (BodyDen B) := by
  unfold interPointPolyhedron
  by_cases hc : B.contains p = true
  · rw [if_pos hc]
    refine ⟨_, rfl, trivial, fun x => ?_⟩
    simp only [denOptB, ObjDen, Geo.den]
    constructor
    · rintro rfl; exact ⟨rfl, hc⟩
    · exact fun h => h.1
  · rw [if_neg hc]
    refine ⟨none, rfl, trivial, fun x => ?_⟩
    simp only [denOptB, false_iff]
    rintro ⟨rfl, h⟩; exact hc h

/-! ### the hypothesis bundle -/

/-- core validity (faces valid polygons with centre in plane, vertices listed and inside, closed surface) plus
    `FaceLocal` (across every edge of a face there is a face not coplanar with it) -/
structure Polyhedron.Proper (B : Polyhedron) : Prop where
  core : B.ValidCore
  faceLocal : B.FaceLocal

theorem Polyhedron.ValidProper.proper {B : Polyhedron} (hV : B.ValidProper) : B.Proper :=
  ⟨⟨hV.nonempty, hV.faces_valid, hV.center_in_plane, hV.pts_sub, hV.verts_inside, hV.closed⟩, hV.faceLocal⟩

theorem Polyhedron.Valid.proper {B : Polyhedron} (hV : B.Valid) (hloc : B.FaceLocal) : B.Proper :=
  ⟨⟨hV.nonempty, hV.faces_valid, hV.center_in_plane, hV.pts_sub, hV.verts_inside, hV.closed⟩, hloc⟩

theorem Polyhedron.Proper.hull {B : Polyhedron} (hP : B.Proper) (x : V3) (hx : B.contains x = true) :
    InHull B.verts x :=
  B.contains_subset_hull_of_faceLocal hP.core.nonempty hP.core.faces_valid hP.core.center_in_plane
    hP.core.pts_sub hP.core.closed hP.faceLocal x hx

theorem Polyhedron.Proper.contains_iff_hull {B : Polyhedron} (hP : B.Proper) (x : V3) :
    B.contains x = true ↔ InHull B.verts x :=
  ⟨hP.hull x, B.hull_subset_contains hP.core.verts_inside x⟩

/-- face ⊆ body -/
theorem Polyhedron.Proper.face_sub {B : Polyhedron} (hP : B.Proper) (f : Polygon) (hf : f ∈ B.faces) (x : V3)
    (hx : InHull f.pts x) : B.contains x = true :=
  Polyhedron.contains_of_hull B f.pts
    (fun v hv => Polyhedron.contains_vert B hP.core.verts_inside v (hP.core.pts_sub f hf v hv)) x hx

/-- body ∩ plane(face) ⊆ face -/
theorem Polyhedron.Proper.tight {B : Polyhedron} (hP : B.Proper) (y : V3) (hy : B.contains y = true)
    (f : Polygon) (hf : f ∈ B.faces) (ht : f.side y = 0) : InHull f.pts y :=
  (Polygon.contains_iff f (hP.core.faces_valid f hf) y).mp
    (B.face_of_tight hP.core.faces_valid hP.core.center_in_plane hP.faceLocal y hy f hf ht)

/-- a point of a face lies in its plane -/
theorem Polyhedron.Proper.side_of_face {B : Polyhedron} (hP : B.Proper) (f : Polygon) (hf : f ∈ B.faces) (x : V3)
    (hx : InHull f.pts x) : f.side x = 0 := by
  have h1 := Polygon.hull_in_plane f (hP.core.faces_valid f hf) x hx
  apply (f.side_zero_inPlane (hP.core.center_in_plane f hf) x).mpr
  simp only [G3D.inPlane, beq_iff_eq]
  exact h1

/-- body ∩ plane(face) = face -/
theorem Polyhedron.Proper.face_iff {B : Polyhedron} (hP : B.Proper) (f : Polygon) (hf : f ∈ B.faces) (x : V3) :
    InHull f.pts x ↔ (B.contains x = true ∧ f.side x = 0) :=
  ⟨fun h => ⟨hP.face_sub f hf x h, hP.side_of_face f hf x h⟩, fun h => hP.tight x h.1 f hf h.2⟩

/-- what boundedness needs: core validity and `contains ⊆ hull` (K5).  Holds for `Valid` bodies (coplanar
    neighbouring faces allowed) and for `Proper` bodies -/
structure Polyhedron.HullCore (B : Polyhedron) : Prop where
  core : B.ValidCore
  hull : ∀ x, B.contains x = true → InHull B.verts x

theorem Polyhedron.Proper.hullCore {B : Polyhedron} (hP : B.Proper) : B.HullCore := ⟨hP.core, hP.hull⟩

theorem Polyhedron.Valid.hullCore {B : Polyhedron} (hV : B.Valid) : B.HullCore :=
  ⟨⟨hV.nonempty, hV.faces_valid, hV.center_in_plane, hV.pts_sub, hV.verts_inside, hV.closed⟩,
    B.contains_subset_hull hV⟩

/-- face ⊆ body -/
theorem Polyhedron.HullCore.face_sub {B : Polyhedron} (hH : B.HullCore) (f : Polygon) (hf : f ∈ B.faces) (x : V3)
    (hx : InHull f.pts x) : B.contains x = true :=
  Polyhedron.contains_of_hull B f.pts
    (fun v hv => Polyhedron.contains_vert B hH.core.verts_inside v (hH.core.pts_sub f hf v hv)) x hx

/-! ### boundedness -/

/-- a convex combination of points of a half-space lies in the half-space -/
theorem InHull.halfspace {pts : List V3} {x : V3} (hx : InHull pts x) (c n : V3)
    (h : ∀ p ∈ pts, dot (sub p c) n ≤ 0) : dot (sub x c) n ≤ 0 := by
  let B' : Polyhedron := ⟨[⟨[], ⟨c, n⟩, c⟩], [], [], [], c⟩
  have hv : ∀ v ∈ pts, B'.contains v = true := by
    intro v hv
    simp only [B', Polyhedron.contains, List.all_cons, List.all_nil, Bool.and_true, decide_eq_true_eq]
    exact h v hv
  have := Polyhedron.contains_of_hull B' pts hv x hx
  simpa only [B', Polyhedron.contains, List.all_cons, List.all_nil, Bool.and_true, decide_eq_true_eq] using this

/-- the hull of finitely many points contains no ray -/
theorem hull_ray_absurd (pts : List V3) (o d : V3) (hd : d ≠ zero)
    (h : ∀ t : Rat, 0 ≤ t → InHull pts (pt o d t)) : False := by
  have h0 := h 0 (le_refl _)
  have hne : pts ≠ [] := by
    intro e
    obtain ⟨ws, hlen, _, hsum, _⟩ := h0
    rw [e] at hlen
    have : ws = [] := List.length_eq_zero_iff.mp (by simpa using hlen)
    rw [this] at hsum; simp at hsum
  obtain ⟨v, _, hmax⟩ := exists_max_of_list (fun p => dot p d) pts hne
  have hN := normSq_pos hd
  have hall : ∀ p ∈ pts, dot (sub p v) d ≤ 0 := by
    intro p hp
    have := hmax p hp
    simp only [dot, sub] at this ⊢
    linarith
  have e0 := h0.halfspace v d hall
  have hpt0 : pt o d 0 = o := by apply V3.ext' <;> simp [pt, add, smul]
  rw [hpt0] at e0
  set t := (dot v d - dot o d) / normSq d + 1 with ht
  have ht0 : 0 ≤ t := by
    have : 0 ≤ (dot v d - dot o d) / normSq d := by
      apply div_nonneg _ (le_of_lt hN)
      simp only [dot, sub] at e0 ⊢; linarith
    linarith
  have e1 := (h t ht0).halfspace v d hall
  have e2 : dot (sub (pt o d t) v) d = dot o d - dot v d + t * normSq d := by
    simp only [pt, dot, sub, add, smul, normSq]; ring
  have e3 : t * normSq d = dot v d - dot o d + normSq d := by
    rw [ht]; field_simp
  rw [e2, e3] at e1
  linarith

/-- **boundedness**: a valid closed convex polyhedron has a face looking along every direction -/
theorem Polyhedron.exists_face_along (B : Polyhedron) (hH : B.HullCore) (d : V3) (hd : d ≠ zero) :
    ∃ f ∈ B.faces, 0 < dot f.plane.n d := by
  by_contra hcon
  push Not at hcon
  obtain ⟨f0, hf0⟩ := List.exists_mem_of_ne_nil _ hH.core.nonempty
  obtain ⟨p0, p1, p2, rest, hp, _, _⟩ := hH.core.faces_valid f0 hf0
  have hp0 : p0 ∈ B.verts := hH.core.pts_sub f0 hf0 p0 (by rw [hp]; simp)
  have hc0 := Polyhedron.contains_vert B hH.core.verts_inside p0 hp0
  apply hull_ray_absurd B.verts p0 d hd
  intro t ht
  apply hH.hull
  rw [B.contains_iff_side]
  intro f hf
  rw [f.side_pt]
  have h1 := (B.contains_iff_side p0).mp hc0 f hf
  have h2 := hcon f hf
  nlinarith

theorem Polyhedron.exists_face_against (B : Polyhedron) (hH : B.HullCore) (d : V3) (hd : d ≠ zero) :
    ∃ f ∈ B.faces, dot f.plane.n d < 0 := by
  have hnd : neg d ≠ zero := by
    intro h; apply hd
    have hx := congrArg V3.x h; have hy := congrArg V3.y h; have hz := congrArg V3.z h
    simp only [neg, zero] at hx hy hz
    apply V3.ext' <;> simp only [zero] <;> linarith
  obtain ⟨f, hf, h⟩ := B.exists_face_along hH (neg d) hnd
  refine ⟨f, hf, ?_⟩
  have : dot f.plane.n (neg d) = - dot f.plane.n d := by simp only [dot, neg]; ring
  rw [this] at h; linarith

/-- **`Polyhedron.bounded`**: every line meets the body in a bounded parameter set -/
theorem Polyhedron.bounded (B : Polyhedron) (hH : B.HullCore) (o d : V3) (hd : d ≠ zero) :
    ∃ M : Rat, ∀ t, B.contains (pt o d t) = true → -M ≤ t ∧ t ≤ M := by
  obtain ⟨f, hf, hfd⟩ := B.exists_face_along hH d hd
  obtain ⟨g, hg, hgd⟩ := B.exists_face_against hH d hd
  refine ⟨max (|f.side o / dot f.plane.n d|) (|g.side o / dot g.plane.n d|), ?_⟩
  intro t ht
  have h1 := (B.contains_iff_side _).mp ht f hf
  have h2 := (B.contains_iff_side _).mp ht g hg
  rw [Polygon.side_pt] at h1 h2
  have a1 : t ≤ - (f.side o / dot f.plane.n d) := by
    rw [le_neg, div_le_iff₀ hfd]; linarith
  have a2 : - (g.side o / dot g.plane.n d) ≤ t := by
    rw [neg_le, le_div_iff_of_neg hgd]; linarith
  constructor
  · have := le_max_right (|f.side o / dot f.plane.n d|) (|g.side o / dot g.plane.n d|)
    have := le_abs_self (g.side o / dot g.plane.n d)
    linarith
  · have := le_max_left (|f.side o / dot f.plane.n d|) (|g.side o / dot g.plane.n d|)
    have := neg_le_abs (f.side o / dot f.plane.n d)
    linarith

/-- **`Polyhedron.line_interval`**: a line that meets the body meets it in a closed parameter interval; the lower
    end is tight on a face looking against the direction, the upper end on a face looking along it -/
theorem Polyhedron.line_interval (B : Polyhedron) (hH : B.HullCore) (o d : V3) (hd : d ≠ zero)
    (hne : ∃ t, B.contains (pt o d t) = true) :
    ∃ tlo thi : Rat, tlo ≤ thi ∧ (∀ t, B.contains (pt o d t) = true ↔ (tlo ≤ t ∧ t ≤ thi)) ∧
      (∃ f ∈ B.faces, f.side (pt o d tlo) = 0 ∧ dot f.plane.n d < 0) ∧
      (∃ f ∈ B.faces, f.side (pt o d thi) = 0 ∧ 0 < dot f.plane.n d) := by
  obtain ⟨t0, ht0⟩ := hne
  obtain ⟨fp, hfp, hfpd⟩ := B.exists_face_along hH d hd
  obtain ⟨fn, hfn, hfnd⟩ := B.exists_face_against hH d hd
  set C : List (Rat × Rat) := B.faces.map (fun f => (- f.side o, - dot f.plane.n d)) with hC
  have hfeas : ∀ t, Feas C t ↔ B.contains (pt o d t) = true := by
    intro t
    rw [B.contains_iff_side]
    unfold Feas
    constructor
    · intro h f hf
      have := h _ (List.mem_map.mpr ⟨f, hf, rfl⟩)
      simp only at this
      rw [f.side_pt]; linarith
    · intro h c hc'
      obtain ⟨f, hf, rfl⟩ := List.mem_map.mp hc'
      have := h f hf
      rw [f.side_pt] at this
      simp only; linarith
  have hF0 : Feas C t0 := (hfeas t0).mpr ht0
  obtain ⟨thi, hthi, hmax, c1, hc1, hc1s, hc1t⟩ := lp_hi C t0 hF0
    ⟨_, List.mem_map.mpr ⟨fp, hfp, rfl⟩, by simp only; linarith⟩
  obtain ⟨tlo, htlo, hmin, c2, hc2, hc2s, hc2t⟩ := lp_lo C t0 hF0
    ⟨_, List.mem_map.mpr ⟨fn, hfn, rfl⟩, by simp only; linarith⟩
  obtain ⟨f1, hf1, rfl⟩ := List.mem_map.mp hc1
  obtain ⟨f2, hf2, rfl⟩ := List.mem_map.mp hc2
  simp only at hc1t hc2t hc1s hc2s
  refine ⟨tlo, thi, le_trans (hmin t0 hF0) (hmax t0 hF0), ?_,
    ⟨f2, hf2, by rw [f2.side_pt]; linarith, by linarith⟩, ⟨f1, hf1, by rw [f1.side_pt]; linarith, by linarith⟩⟩
  intro t
  rw [← hfeas]
  exact ⟨fun h => ⟨hmin t h, hmax t h⟩, fun h => Feas_convex C tlo thi t htlo hthi h.1 h.2⟩
#print axioms Polyhedron.bounded
#print axioms Polyhedron.line_interval


/-! ### `get_segment_from_point_list` on a duplicate-free list spanning `[P, Q]` -/
theorem K3.foldl_min_le : ∀ (l : List Rat) (a : Rat), l.foldl min a ≤ a ∧ ∀ x ∈ l, l.foldl min a ≤ x
  | [], a => ⟨le_refl _, fun x hx => by cases hx⟩
  | y :: l, a => by
    rw [List.foldl_cons]
    obtain ⟨h1, h2⟩ := K3.foldl_min_le l (min a y)
    refine ⟨le_trans h1 (min_le_left _ _), ?_⟩
    intro x hx
    rcases List.mem_cons.mp hx with rfl | hx
    · exact le_trans h1 (min_le_right _ _)
    · exact h2 x hx

theorem K3.le_foldl_max : ∀ (l : List Rat) (a : Rat), a ≤ l.foldl max a ∧ ∀ x ∈ l, x ≤ l.foldl max a
  | [], a => ⟨le_refl _, fun x hx => by cases hx⟩
  | y :: l, a => by
    rw [List.foldl_cons]
    obtain ⟨h1, h2⟩ := K3.le_foldl_max l (max a y)
    refine ⟨le_trans (le_max_left _ _) h1, ?_⟩
    intro x hx
    rcases List.mem_cons.mp hx with rfl | hx
    · exact le_trans (le_max_right _ _) h1
    · exact h2 x hx

/-- least / greatest element of a list containing `0` -/
theorem K3.foldl_min_eq (R : List Rat) (h0 : (0 : Rat) ∈ R) (m : Rat) (hm : m ∈ R) (hle : ∀ r ∈ R, m ≤ r) :
    R.foldl min 0 = m := by
  apply le_antisymm
  · exact (K3.foldl_min_le R 0).2 m hm
  · rcases BS.foldl_min_mem R 0 with h | h
    · rw [h]; exact hle 0 h0
    · exact hle _ h

theorem K3.foldl_max_eq (R : List Rat) (h0 : (0 : Rat) ∈ R) (m : Rat) (hm : m ∈ R) (hle : ∀ r ∈ R, r ≤ m) :
    R.foldl max 0 = m := by
  apply le_antisymm
  · rcases BS.foldl_max_mem R 0 with h | h
    · rw [h]; exact hle 0 h0
    · exact hle _ h
  · exact (K3.le_foldl_max R 0).2 m hm

theorem K3.rel_eq (P D : V3) (hD : D ≠ zero) (u u0 k : Rat) (hk : k ≠ 0) :
    dot (sub (pt P D u) (pt P D u0)) (smul k D) / normSq (smul k D) = (u - u0) / k := by
  have hN : normSq D ≠ 0 := ne_of_gt (normSq_pos hD)
  have e1 : dot (sub (pt P D u) (pt P D u0)) (smul k D) = (u - u0) * k * normSq D := by
    simp only [pt, dot, sub, add, smul, normSq]; ring
  have e2 : normSq (smul k D) = k * k * normSq D := by
    simp only [dot, smul, normSq]; ring
  rw [e1, e2]; field_simp

theorem K3.sub_pt (P D : V3) (u u0 : Rat) : sub (pt P D u) (pt P D u0) = smul (u - u0) D := by
  apply V3.ext' <;> simp only [pt, sub, add, smul] <;> ring

/-- `get_segment_from_point_list` applied to a duplicate-free list of at least two points of the segment `[P, Q]`
    that contains `P` and `Q` returns (a well-formed Segment denoting) `[P, Q]` -/
theorem segmentFromPointList_exact (ps : List V3) (P Q : V3) (hnd : ps.Nodup) (hlen : 2 ≤ ps.length)
    (hP : P ∈ ps) (hQ : Q ∈ ps) (hsub : ∀ p ∈ ps, Between P Q p) :
    ∃ s, segmentFromPointList ps = .ok s ∧ s.WF ∧ ∀ x, s.den x ↔ Between P Q x := by
  match ps, hnd, hlen, hP, hQ, hsub with
  | [], _, hlen, _, _, _ => simp at hlen
  | [_], _, hlen, _, _, _ => simp at hlen
  | p0 :: p1 :: rest, hnd, _, hP, hQ, hsub =>
    set D := sub Q P with hDdef
    have hpar : ∀ p ∈ p0 :: p1 :: rest, ∃ u : Rat, 0 ≤ u ∧ u ≤ 1 ∧ p = pt P D u := fun p hp => hsub p hp
    have h01 : p0 ≠ p1 := by
      intro h; rw [List.nodup_cons] at hnd; exact hnd.1 (by simp [h])
    obtain ⟨u0, hu00, hu01, hp0⟩ := hpar p0 (by simp)
    obtain ⟨u1, hu10, hu11, hp1⟩ := hpar p1 (by simp)
    have hk : u1 - u0 ≠ 0 := by
      intro h
      have : u1 = u0 := by linarith
      apply h01; rw [hp0, hp1, this]
    have hD : D ≠ zero := by
      intro h
      apply h01; rw [hp0, hp1, h]
      apply V3.ext' <;> simp [pt, add, smul, zero]
    set k := u1 - u0 with hkdef
    have hv : sub p1 p0 = smul k D := by rw [hp0, hp1]; exact K3.sub_pt P D u1 u0
    have hv0 : smul k D ≠ zero := by
      rw [← hv]; intro h; exact h01 (sub_eq_zero_iff.mp h).symm
    have hP0 : P = pt P D 0 := by apply V3.ext' <;> simp [pt, add, smul]
    have hQ1 : Q = pt P D 1 := by apply V3.ext' <;> simp [hDdef, pt, add, smul, sub]
    unfold segmentFromPointList
    simp only
    have hany : ¬ (rest.any fun pi => !(V3.parallel (sub pi p0) (sub p1 p0))) = true := by
      intro h
      rw [List.any_eq_true] at h
      obtain ⟨pi, hpi, hb⟩ := h
      obtain ⟨ui, _, _, hpie⟩ := hpar pi (by simp [hpi])
      have : V3.parallel (sub pi p0) (sub p1 p0) = true := by
        rw [parallel_iff_cross, hv, hpie, hp0, K3.sub_pt]
        apply V3.ext' <;> simp only [cross, smul, zero] <;> ring
      rw [this] at hb; simp at hb
    rw [if_neg hany]
    have hz : ¬ (rest ≠ [] ∧ normSq (sub p1 p0) = 0) := by
      rintro ⟨_, h⟩
      rw [hv] at h
      exact hv0 (normSq_eq_zero.mp h)
    rw [if_neg hz]
    set R : List Rat := (0 : Rat) :: 1 :: rest.map (fun pi => dot (sub pi p0) (sub p1 p0) / normSq (sub p1 p0)) with hR
    -- every relative parameter is `(u - u0) / k` for the parameter `u ∈ [0, 1]` of one of the points
    have hRrep : ∀ r ∈ R, ∃ u : Rat, 0 ≤ u ∧ u ≤ 1 ∧ r = (u - u0) / k := by
      intro r hr
      rw [hR] at hr
      simp only [List.mem_cons, List.mem_map] at hr
      rcases hr with rfl | rfl | ⟨pi, hpi, rfl⟩
      · exact ⟨u0, hu00, hu01, by simp⟩
      · exact ⟨u1, hu10, hu11, by rw [← hkdef]; field_simp⟩
      · obtain ⟨ui, hui0, hui1, hpie⟩ := hpar pi (by simp [hpi])
        exact ⟨ui, hui0, hui1, by rw [hv, hpie, hp0]; exact K3.rel_eq P D hD ui u0 k hk⟩
    have hRmem : ∀ p ∈ p0 :: p1 :: rest, ∀ u : Rat, p = pt P D u → (u - u0) / k ∈ R := by
      intro p hp u hpu
      simp only [List.mem_cons] at hp
      rcases hp with rfl | rfl | hp
      · have : u = u0 := pt_inj hD (hpu.symm.trans hp0)
        rw [this, hR]; simp
      · have : u = u1 := pt_inj hD (hpu.symm.trans hp1)
        rw [this, ← hkdef, hR]
        have : k / k = 1 := by field_simp
        rw [this]; simp
      · rw [hR]
        simp only [List.mem_cons, List.mem_map]
        right; right
        exact ⟨p, hp, by rw [hv, hpu, hp0]; exact K3.rel_eq P D hD u u0 k hk⟩
    have h0R : (0 : Rat) ∈ R := by rw [hR]; simp
    have hrP : (0 - u0) / k ∈ R := hRmem P hP 0 hP0
    have hrQ : (1 - u0) / k ∈ R := hRmem Q hQ 1 hQ1
    have hPQ : P ≠ Q := by
      intro h; apply hD; rw [hDdef, h]; exact sub_eq_zero_iff.mpr rfl
    have hstart : ∀ r : Rat, add p0 (smul r (sub p1 p0)) = pt P D (u0 + r * k) := by
      intro r; rw [hv, hp0]; apply V3.ext' <;> simp only [pt, add, smul] <;> ring
    rcases lt_or_gt_of_ne hk with hneg | hpos
    · -- k < 0 : the least parameter belongs to Q, the greatest to P
      have hlo : R.foldl min 0 = (1 - u0) / k := by
        apply K3.foldl_min_eq R h0R _ hrQ
        intro r hr
        obtain ⟨u, hu0, hu1, rfl⟩ := hRrep r hr
        rw [div_le_div_right_of_neg hneg]; linarith
      have hhi : R.foldl max 0 = (0 - u0) / k := by
        apply K3.foldl_max_eq R h0R _ hrP
        intro r hr
        obtain ⟨u, hu0, hu1, rfl⟩ := hRrep r hr
        rw [div_le_div_right_of_neg hneg]; linarith
      have ha : add p0 (smul (R.foldl min 0) (sub p1 p0)) = Q := by
        rw [hlo, hstart, hQ1]; congr 1; field_simp; ring
      have hb : add p0 (smul (R.foldl max 0) (sub p1 p0)) = P := by
        rw [hhi, hstart]; conv_rhs => rw [hP0]
        congr 1; field_simp; ring
      rw [ha, hb, if_neg (Ne.symm hPQ)]
      exact ⟨Seg.mk' Q P, rfl, Seg.mk'_WF (Ne.symm hPQ), fun x => by rw [Seg.mk'_den, Between_swap]⟩
    · have hlo : R.foldl min 0 = (0 - u0) / k := by
        apply K3.foldl_min_eq R h0R _ hrP
        intro r hr
        obtain ⟨u, hu0, hu1, rfl⟩ := hRrep r hr
        rw [div_le_div_iff_of_pos_right hpos]; linarith
      have hhi : R.foldl max 0 = (1 - u0) / k := by
        apply K3.foldl_max_eq R h0R _ hrQ
        intro r hr
        obtain ⟨u, hu0, hu1, rfl⟩ := hRrep r hr
        rw [div_le_div_iff_of_pos_right hpos]; linarith
      have ha : add p0 (smul (R.foldl min 0) (sub p1 p0)) = P := by
        rw [hlo, hstart]; conv_rhs => rw [hP0]
        congr 1; field_simp; ring
      have hb : add p0 (smul (R.foldl max 0) (sub p1 p0)) = Q := by
        rw [hhi, hstart, hQ1]; congr 1; field_simp; ring
      rw [ha, hb, if_neg hPQ]
      exact ⟨Seg.mk' P Q, rfl, Seg.mk'_WF hPQ, fun x => by rw [Seg.mk'_den]⟩
#print axioms segmentFromPointList_exact


/-! ### hits on faces -/

theorem K3.pt_zero (o d : V3) : pt o d 0 = o := by apply V3.ext' <;> simp [pt, add, smul]

/-- the line is not parallel to the face plane: at most one parameter lies in the plane -/
theorem K3.side_inj (f : Polygon) (o d : V3) (hs : dot f.plane.n d ≠ 0) {t t' : Rat}
    (h : f.side (pt o d t) = 0) (h' : f.side (pt o d t') = 0) : t = t' := by
  rw [f.side_pt] at h h'
  have : (t - t') * dot f.plane.n d = 0 := by linarith
  rcases mul_eq_zero.mp this with h1 | h1
  · linarith
  · exact absurd h1 hs

/-- **a boundary point tight on a transversal face is returned as a Point hit**: `r` is the (exact, flat) result
    of intersecting the face `f` with a subset `X` of the line; the point `pt o d t` of `X ∩ K` lies in the plane
    of `f`, which the line crosses transversally -/
theorem K3.face_point_hit (B : Polyhedron) (hP : B.Proper) (o d : V3) (X : V3 → Prop)
    (hX : ∀ x, X x → ∃ t, x = pt o d t) (f : Polygon) (hf : f ∈ B.faces) (r : ResB)
    (hr : ExactPS r X (InHull f.pts)) (t : Rat) (hXt : X (pt o d t)) (hK : B.contains (pt o d t) = true)
    (hs : f.side (pt o d t) = 0) (hslope : dot f.plane.n d ≠ 0) :
    r = .ok (some (.flat (.point (pt o d t)))) := by
  obtain ⟨ob, ho, hw, hden⟩ := hr
  have hin : InHull f.pts (pt o d t) := hP.tight _ hK f hf hs
  have hmem : denOptB ob (pt o d t) := (hden _).mpr ⟨hXt, hin⟩
  rcases ObjFlatWF_cases ob hw with rfl | ⟨q, rfl⟩ | ⟨s, rfl, hsW⟩
  · exact absurd hmem (by simp [denOptB])
  · have : pt o d t = q := hmem
    rw [ho, this]
  · exfalso
    have ha := (hden s.a).mp s.den_a
    have hb := (hden s.b).mp s.den_b
    obtain ⟨ta, hta⟩ := hX _ ha.1
    obtain ⟨tb, htb⟩ := hX _ hb.1
    have sa := hP.side_of_face f hf _ ha.2
    have sb := hP.side_of_face f hf _ hb.2
    rw [hta] at sa; rw [htb] at sb
    have := K3.side_inj f o d hslope sa sb
    apply hsW.1; rw [hta, htb, this]

/-- a line through two distinct points of the plane of `f` lies in that plane -/
theorem K3.side_zero_of_two (f : Polygon) (o d : V3) {ta tb : Rat} (hne : ta ≠ tb)
    (ha : f.side (pt o d ta) = 0) (hb : f.side (pt o d tb) = 0) (t : Rat) : f.side (pt o d t) = 0 := by
  rw [f.side_pt] at ha hb ⊢
  have h1 : (ta - tb) * dot f.plane.n d = 0 := by linarith
  have h2 : dot f.plane.n d = 0 := (mul_eq_zero.mp h1).resolve_left (sub_ne_zero.mpr hne)
  rw [h2] at ha ⊢; linarith

/-! ### 2. Line × ConvexPolyhedron -/

theorem interLinePolyhedron_loop_cases (l : Line) : ∀ (fs : List Polygon) (acc : List V3),
    (∀ f ∈ fs, ∃ o, interLinePolygon l f = .ok o ∧ ObjFlatWF o) →
    (∃ f ∈ fs, ∃ s, interLinePolygon l f = .ok (some (.flat (.seg s))) ∧
        interLinePolyhedron.loop l fs acc = seg? s) ∨
    (∃ acc', interLinePolyhedron.loop l fs acc = interLinePolyhedron.loop l [] acc' ∧
       (∀ p, p ∈ acc' ↔ (p ∈ acc ∨ ∃ f ∈ fs, interLinePolygon l f = .ok (some (.flat (.point p))))) ∧
       (acc.Nodup → acc'.Nodup)) := by
  intro fs
  induction fs with
  | nil =>
    intro acc _
    exact Or.inr ⟨acc, rfl, fun p => by simp, fun h => h⟩
  | cons f fs ih =>
    intro acc hfs
    obtain ⟨o, ho, hw⟩ := hfs f (by simp)
    have hfs' : ∀ f' ∈ fs, ∃ o, interLinePolygon l f' = .ok o ∧ ObjFlatWF o :=
      fun f' hm => hfs f' (by simp [hm])
    rcases ObjFlatWF_cases o hw with rfl | ⟨q, rfl⟩ | ⟨s, rfl, _⟩
    · have e : interLinePolyhedron.loop l (f :: fs) acc = interLinePolyhedron.loop l fs acc := by
        rw [interLinePolyhedron.loop, ho]
      rcases ih acc hfs' with ⟨g, hg, s, hgs, hloop⟩ | ⟨acc', hloop, hmem, hnd⟩
      · exact Or.inl ⟨g, by simp [hg], s, hgs, by rw [e, hloop]⟩
      · refine Or.inr ⟨acc', by rw [e, hloop], fun p => ?_, hnd⟩
        rw [hmem p]
        constructor
        · rintro (h | ⟨g, hg, hgp⟩)
          · exact Or.inl h
          · exact Or.inr ⟨g, by simp [hg], hgp⟩
        · rintro (h | ⟨g, hg, hgp⟩)
          · exact Or.inl h
          · rcases List.mem_cons.mp hg with rfl | hg
            · rw [ho] at hgp; cases hgp
            · exact Or.inr ⟨g, hg, hgp⟩
    · have e : interLinePolyhedron.loop l (f :: fs) acc = interLinePolyhedron.loop l fs (addNew acc q) := by
        rw [interLinePolyhedron.loop, ho]
      rcases ih (addNew acc q) hfs' with ⟨g, hg, s, hgs, hloop⟩ | ⟨acc', hloop, hmem, hnd⟩
      · exact Or.inl ⟨g, by simp [hg], s, hgs, by rw [e, hloop]⟩
      · refine Or.inr ⟨acc', by rw [e, hloop], fun p => ?_, fun h => hnd (nodup_addNew acc q h)⟩
        rw [hmem p, mem_addNew]
        constructor
        · rintro ((h | rfl) | ⟨g, hg, hgp⟩)
          · exact Or.inl h
          · exact Or.inr ⟨f, by simp, ho⟩
          · exact Or.inr ⟨g, by simp [hg], hgp⟩
        · rintro (h | ⟨g, hg, hgp⟩)
          · exact Or.inl (Or.inl h)
          · rcases List.mem_cons.mp hg with rfl | hg
            · rw [ho] at hgp; cases hgp; exact Or.inl (Or.inr rfl)
            · exact Or.inr ⟨g, hg, hgp⟩
    · refine Or.inl ⟨f, by simp, s, ho, ?_⟩
      rw [interLinePolyhedron.loop, ho]

theorem interLinePolyhedron_loop_many (l : Line) (p q : V3) (rest : List V3) :
    interLinePolyhedron.loop l [] (p :: q :: rest) =
      (segmentFromPointList (p :: q :: rest) >>= fun s => seg? s) := by
  rw [interLinePolyhedron.loop] <;> simp

/-- the generic branch of the Line handler: `acc` are the collected Point hits, every one of them in `l ∩ K`, and
    every point of `l ∩ K` lying in the plane of a face crossed transversally is among them -/
theorem interLinePolyhedron_collect_exact (l : Line) (hl : l.WF) (B : Polyhedron) (hH : B.HullCore) (acc : List V3)
    (haccnd : acc.Nodup) (hsound : ∀ p ∈ acc, l.den p ∧ B.contains p = true)
    (hcov : ∀ t f, f ∈ B.faces → B.contains (pt l.sv l.dv t) = true → f.side (pt l.sv l.dv t) = 0 →
      dot f.plane.n l.dv ≠ 0 → pt l.sv l.dv t ∈ acc) :
    ExactW (interLinePolyhedron.loop l [] acc) l.den (BodyDen B) := by
  by_cases hne : ∃ t, B.contains (pt l.sv l.dv t) = true
  · obtain ⟨tlo, thi, hle, hiff, ⟨f2, hf2, hs2, hd2⟩, ⟨f1, hf1, hs1, hd1⟩⟩ :=
      B.line_interval hH l.sv l.dv hl hne
    have hlo : pt l.sv l.dv tlo ∈ acc :=
      hcov tlo f2 hf2 ((hiff tlo).mpr ⟨le_refl _, hle⟩) hs2 (ne_of_lt hd2)
    have hhi : pt l.sv l.dv thi ∈ acc :=
      hcov thi f1 hf1 ((hiff thi).mpr ⟨hle, le_refl _⟩) hs1 (ne_of_gt hd1)
    have hcommon : ∀ x, (l.den x ∧ BodyDen B x) ↔ Between (pt l.sv l.dv tlo) (pt l.sv l.dv thi) x := by
      intro x
      rw [Between_pt hle]
      constructor
      · rintro ⟨⟨t, rfl⟩, h2⟩
        have := (hiff t).mp h2
        exact ⟨t, this.1, this.2, rfl⟩
      · rintro ⟨t, h1, h2, rfl⟩
        exact ⟨⟨t, rfl⟩, (hiff t).mpr ⟨h1, h2⟩⟩
    have hbetween : ∀ p ∈ acc, Between (pt l.sv l.dv tlo) (pt l.sv l.dv thi) p :=
      fun p hp => (hcommon p).mp (hsound p hp)
    match acc, hlo, hhi, haccnd, hbetween with
    | [], hlo, _, _, _ => cases hlo
    | [p], hlo, hhi, _, _ =>
      rw [interLinePolyhedron.loop]
      refine ⟨_, rfl, trivial, fun x => ?_⟩
      have e1 : pt l.sv l.dv tlo = p := by simpa using hlo
      have e2 : pt l.sv l.dv thi = p := by simpa using hhi
      rw [hcommon, e1, e2, Between_self]
      rfl
    | p :: q :: rest, hlo, hhi, hnd', hbet =>
      obtain ⟨s, hs, hsW, hsden⟩ := segmentFromPointList_exact (p :: q :: rest) _ _ hnd' (by simp) hlo hhi hbet
      rw [interLinePolyhedron_loop_many]
      simp only [hs, bind, Except.bind]
      refine ⟨_, rfl, hsW, fun x => ?_⟩
      rw [hcommon]
      exact hsden x
  · -- the line misses the body
    have : acc = [] := by
      apply List.eq_nil_iff_forall_not_mem.mpr
      intro p hp
      obtain ⟨⟨t, rfl⟩, h2⟩ := hsound p hp
      exact hne ⟨t, h2⟩
    rw [this, interLinePolyhedron.loop]
    refine ⟨none, rfl, trivial, fun x => ?_⟩
    simp only [denOptB, false_iff]
    rintro ⟨⟨t, rfl⟩, h2⟩
    exact hne ⟨t, h2⟩

/-- **Line × ConvexPolyhedron is exact**: for a well-formed line and a `Proper` polyhedron (core validity and
    `FaceLocal`; in particular every `ValidProper` polyhedron) the handler returns `None`, a Point or a well-formed
    Segment denoting exactly `l ∩ K`, `K` the set of points passing the membership test -/
theorem interLinePolyhedron_exact (l : Line) (hl : l.WF) (B : Polyhedron) (hP : B.Proper) :
    ExactW (interLinePolyhedron l B) l.den (BodyDen B) := by
  have hface : ∀ f ∈ B.faces, ExactPS (interLinePolygon l f) l.den (InHull f.pts) :=
    fun f hf => interLinePolygon_exact l hl f (hP.core.faces_valid f hf)
  have hX : ∀ x, l.den x → ∃ t, x = pt l.sv l.dv t := fun x hx => hx
  unfold interLinePolyhedron
  rcases interLinePolyhedron_loop_cases l B.faces []
      (fun f hf => by obtain ⟨o, ho, hw, _⟩ := hface f hf; exact ⟨o, ho, hw⟩) with
    ⟨f, hf, s, hfs, hloop⟩ | ⟨acc, hloop, hmem, hnd⟩
  · -- early return: the line lies in the plane of `f`
    obtain ⟨o, ho, hw, hden⟩ := hface f hf
    rw [hfs] at ho; cases ho
    have hsW : s.WF := hw
    rw [hloop]
    refine ⟨_, rfl, hsW, fun x => ?_⟩
    have hsden : ∀ y, s.den y ↔ l.den y ∧ InHull f.pts y := fun y => by
      simpa [denOptB, ObjDen, Geo.den] using hden y
    have ha := (hsden s.a).mp s.den_a
    have hb := (hsden s.b).mp s.den_b
    obtain ⟨ta, hta⟩ := hX _ ha.1
    obtain ⟨tb, htb⟩ := hX _ hb.1
    have hne : ta ≠ tb := by intro h; apply hsW.1; rw [hta, htb, h]
    have sa := hP.side_of_face f hf _ ha.2
    have sb := hP.side_of_face f hf _ hb.2
    rw [hta] at sa; rw [htb] at sb
    show s.den x ↔ _
    rw [hsden]
    constructor
    · rintro ⟨h1, h2⟩; exact ⟨h1, hP.face_sub f hf x h2⟩
    · rintro ⟨h1, h2⟩
      refine ⟨h1, ?_⟩
      obtain ⟨t, rfl⟩ := hX x h1
      exact hP.tight _ h2 f hf (K3.side_zero_of_two f l.sv l.dv hne sa sb t)
  · rw [hloop]
    -- the collected points are exactly the Point hits
    have hmem' : ∀ p, p ∈ acc ↔ ∃ f ∈ B.faces, interLinePolygon l f = .ok (some (.flat (.point p))) := by
      intro p; rw [hmem p]; simp
    refine interLinePolyhedron_collect_exact l hl B hP.hullCore acc (hnd List.nodup_nil) ?_ ?_
    · intro p hp
      obtain ⟨f, hf, hfp⟩ := (hmem' p).mp hp
      have := (hface f hf).toExactB.point_mem p hfp
      exact ⟨this.1, hP.face_sub f hf p this.2⟩
    · intro t f hf hK hs hsl
      rw [hmem']
      exact ⟨f, hf, K3.face_point_hit B hP l.sv l.dv l.den hX f hf _ (hface f hf) t ⟨t, rfl⟩ hK hs hsl⟩
#print axioms interLinePolyhedron_exact

/-- **partial variant for `Valid` bodies (coplanar neighbouring faces allowed)**: if no face yields a Segment (the
    early return of the handler is not taken) the result is exact.  With coplanar neighbours the early return can be
    a proper subset of `l ∩ K` (`splitCubeE_line_not_exact`). -/
theorem interLinePolyhedron_exact_partial (l : Line) (hl : l.WF) (B : Polyhedron) (hV : B.Valid)
    (hno : ∀ f ∈ B.faces, ∀ s, interLinePolygon l f ≠ .ok (some (.flat (.seg s)))) :
    ExactW (interLinePolyhedron l B) l.den (BodyDen B) := by
  have hface : ∀ f ∈ B.faces, ExactPS (interLinePolygon l f) l.den (InHull f.pts) :=
    fun f hf => interLinePolygon_exact l hl f (hV.faces_valid f hf)
  unfold interLinePolyhedron
  rcases interLinePolyhedron_loop_cases l B.faces []
      (fun f hf => by obtain ⟨o, ho, hw, _⟩ := hface f hf; exact ⟨o, ho, hw⟩) with
    ⟨f, hf, s, hfs, _⟩ | ⟨acc, hloop, hmem, hnd⟩
  · exact absurd hfs (hno f hf s)
  · rw [hloop]
    have hmem' : ∀ p, p ∈ acc ↔ ∃ f ∈ B.faces, interLinePolygon l f = .ok (some (.flat (.point p))) := by
      intro p; rw [hmem p]; simp
    refine interLinePolyhedron_collect_exact l hl B hV.hullCore acc (hnd List.nodup_nil) ?_ ?_
    · intro p hp
      obtain ⟨f, hf, hfp⟩ := (hmem' p).mp hp
      have := (hface f hf).toExactB.point_mem p hfp
      exact ⟨this.1, hV.hullCore.face_sub f hf p this.2⟩
    · intro t f hf hK hs _
      obtain ⟨o, ho⟩ := hV.interior
      obtain ⟨g, hg, hgy⟩ := B.cover hV.faces_valid hV.center_in_plane hV.pts_sub hV.verts_inside hV.closed o ho
        _ hK f hf hs
      have hin : InHull g.pts (pt l.sv l.dv t) := (Polygon.contains_iff g (hV.faces_valid g hg) _).mp hgy
      obtain ⟨ob, hob, hw, hden⟩ := hface g hg
      have hm : denOptB ob (pt l.sv l.dv t) := (hden _).mpr ⟨⟨t, rfl⟩, hin⟩
      rw [hmem']
      rcases ObjFlatWF_cases ob hw with rfl | ⟨q, rfl⟩ | ⟨s, rfl, _⟩
      · exact absurd hm (by simp [denOptB])
      · have : pt l.sv l.dv t = q := hm
        exact ⟨g, hg, by rw [hob, this]⟩
      · exact absurd hob (hno g hg s)
#print axioms interLinePolyhedron_exact_partial

/-- with the hull of the vertices as the denotation of the body -/
theorem interLinePolyhedron_exact_hull (l : Line) (hl : l.WF) (B : Polyhedron) (hP : B.Proper) :
    ExactW (interLinePolyhedron l B) l.den (InHull B.verts) := by
  obtain ⟨o, ho, hw, hd⟩ := interLinePolyhedron_exact l hl B hP
  refine ⟨o, ho, hw, fun x => ?_⟩
  rw [hd x]
  exact and_congr Iff.rfl (hP.contains_iff_hull x)

theorem interPointPolyhedron_exact_hull (p : V3) (B : Polyhedron) (hP : B.Proper) :
    ExactW (interPointPolyhedron p B) (· = p) (InHull B.verts) := by
  obtain ⟨o, ho, hw, hd⟩ := interPointPolyhedron_exact p B
  refine ⟨o, ho, hw, fun x => ?_⟩
  rw [hd x]
  exact and_congr Iff.rfl (hP.contains_iff_hull x)

end G3D
