import G3D.Extracted.Mmeas
import G3D.Proofs.MeasTieBase
import G3D.Proofs.MeasTieVolume
import G3D.Proofs.MeasTiePyramid
import G3D.Proofs.MeasTiePolyhedronVolume
/-! # mmeas, property C06 "`volume(x)` equals `x.volume()`"
    The function `volume` of calc/volume.py recomputes the height of a pyramid through `distance(point, plane)` (foot of the
    perpendicular from the plane's base point `plane.p`), the method `Pyramid.volume` measures it from `points[0]` along the
    re-normalised normal.  They agree as soon as `points[0]` lies in the stored plane and the stored normal is a unit vector
    `n/|n|`, `n ≠ 0` (`PyrWF`; no convexity, no hypothesis on the centre): `volume_fn_eq_method_pyramid_real`,
    `volume_fn_eq_method_polyhedron_real` — statements about the GENERATED definitions only.
    The model-level forms (`…_pyramid`, `…_polyhedron`) follow for pyramids on `Valid` polygons. -/
namespace G3D.MeasTie.VolumeEq
open G3D G3D.MeasRt G3D.KTie G3D.Extracted G3D.MeasTie Real

/-- the stored normal is `n/|n|` for some `n ≠ 0`, and `points[0]` lies in the plane `(plane.p, n)` -/
def PyrWF (M : MPyramid) : Prop :=
  ∃ n : RVec, n ≠ RVec.zero ∧ M.convex_polygon.plane.n = vNormalized n ∧
    RVec.dot n (RVec.sub (pyGetD M.convex_polygon.points 0 RVec.zero) M.convex_polygon.plane.p) = 0

section height
/-- the two ways of computing the height agree -/
theorem distance_eq_height (M : MPyramid) (h : PyrWF M) :
    distPointPlane M.point M.convex_polygon.plane = m_Pyramid_height M := by
  obtain ⟨n, hn, hst, h0⟩ := h
  obtain ⟨⟨pts, c, ⟨p, m⟩⟩, apex⟩ := M
  simp only at hst h0 ⊢
  subst hst
  rw [distPointPlane_unit _ _ _ hn, Pyramid.m_Pyramid_height_real _ _ _ _ _ hn]
  congr 2
  simp only [RVec.dot, RVec.sub] at h0 ⊢
  linear_combination h0
end height

section pyramid
/-- **`volume(p) = p.volume()` for a pyramid**, every recursion allowance ≥ 1 -/
theorem volume_fn_eq_method_pyramid_real (k : ℕ) (M : MPyramid) (h : PyrWF M) :
    m_volume (k + 1) (MObj.pyramid M) = .ok (m_Pyramid_volume M) := by
  rw [Volume.m_volume_pyramid_real, Pyramid.m_Pyramid_volume_unfold, distance_eq_height M h]

theorem pyrWF_of_valid (f : Polygon) (apex : V3) (hv : f.Valid) : PyrWF (pyrToM (f, apex)) := by
  have hn : f.plane.n ≠ V3.zero := Polygon.plane_WF f hv
  refine ⟨f.plane.n.toR, toR_ne_zero hn, rfl, ?_⟩
  simp only [pyrToM, polyToM, planeToM]
  rw [pyGetD_zero_map, toR_sub, toR_dot, head_inPlane f hv]
  simp

/-- for a pyramid on a `Valid` polygon of the model -/
theorem volume_fn_eq_method_pyramid (k : ℕ) (f : Polygon) (apex : V3) (hv : f.Valid) :
    m_volume (k + 1) (MObj.pyramid (pyrToM (f, apex))) = .ok (m_Pyramid_volume (pyrToM (f, apex))) :=
  volume_fn_eq_method_pyramid_real k _ (pyrWF_of_valid f apex hv)
end pyramid

section polyhedron
/-- **`volume(b) = b.volume()` for a polyhedron**, every recursion allowance ≥ 2 (same iteration order of the set in both) -/
theorem volume_fn_eq_method_polyhedron_real (k : ℕ) (M : MPolyhedron) (h : ∀ p ∈ M.pyramid_set, PyrWF p) :
    m_volume (k + 2) (MObj.polyhedron M) = .ok (m_ConvexPolyhedron_volume M) := by
  rw [Volume.m_volume_polyhedron_real (k + 1) M m_Pyramid_volume
    (fun p hp => volume_fn_eq_method_pyramid_real k p (h p hp)), Polyhedron.m_ConvexPolyhedron_volume_sum]

/-- for a body of the model whose pyramids stand on `Valid` polygons -/
theorem volume_fn_eq_method_polyhedron (k : ℕ) (B : Polyhedron) (hp : ∀ pa ∈ B.pyramids, pa.1.Valid) :
    m_volume (k + 2) (MObj.polyhedron (bodyToM B)) = .ok (m_ConvexPolyhedron_volume (bodyToM B)) := by
  apply volume_fn_eq_method_polyhedron_real
  intro p hpm
  obtain ⟨pa, hpa, rfl⟩ := List.mem_map.mp hpm
  exact pyrWF_of_valid pa.1 pa.2 (hp pa hpa)
end polyhedron

#print axioms distance_eq_height
#print axioms volume_fn_eq_method_pyramid_real
#print axioms volume_fn_eq_method_pyramid
#print axioms volume_fn_eq_method_polyhedron_real
#print axioms volume_fn_eq_method_polyhedron
end G3D.MeasTie.VolumeEq
