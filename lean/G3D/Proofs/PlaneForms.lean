import G3D.Model.PlaneForms
import G3D.Proofs.Equality

namespace G3D
open V3 Solver2

theorem gaussRec_nil (f nc j : Nat) : gaussRec f nc j [] = [] := by
  cases f with
  | zero => rfl
  | succ f => unfold gaussRec; split <;> rfl

theorem takePivot_single (r : Row) : takePivot [r] 0 = (r, []) := by simp [takePivot]

theorem gaussRec_single (nc : Nat) (r : Row) : ∀ (f j : Nat), gaussRec f nc j [r] = [r] := by
  intro f
  induction f with
  | zero => intro j; rfl
  | succ f ih =>
    intro j
    unfold gaussRec
    by_cases hj : j + 1 ≥ nc
    · simp [hj]
    · simp only [hj, if_false]
      cases hp : pivotIdx [r] j with
      | none => simp only; exact ih (j+1)
      | some k =>
        simp only
        have hk := (pivotIdx_some hp).1
        have hk0 : k = 0 := by simpa using hk
        subst hk0
        rw [takePivot_single]
        simp [gaussRec_nil]

theorem solve_single (r : Row) : solve [r] = [r] := by
  unfold solve gauss; exact gaussRec_single _ r _ _

/-- C17: `Plane(a, b, c, d)` contains exactly the points with `a x + b y + c z = d`, for every
    `(a, b, c) ≠ 0` including zero leading coefficients -/
theorem plane_gf_contains_iff (a b c d : Rat) (hn : (⟨a, b, c⟩ : V3) ≠ zero) :
    ∃ P, Plane.ofGF a b c d = .ok P ∧ P.n = ⟨a, b, c⟩ ∧
      ∀ x : V3, P.den x ↔ a * x.x + b * x.y + c * x.z = d := by
  have hu : Uniform (3+1) [[a, b, c, d]] := by intro r hr; simp at hr; subst hr; rfl
  have hne : ([[a, b, c, d]] : Mat) ≠ [] := by simp
  -- the system is consistent
  have hcons : ∃ x : List Rat, x.length = 3 ∧ Sat [[a, b, c, d]] x := by
    by_cases ha : a = 0
    · by_cases hb : b = 0
      · have hc : c ≠ 0 := by
          intro hc; apply hn; rw [ha, hb, hc]; rfl
        refine ⟨[0, 0, d / c], rfl, ?_⟩
        intro row hrow; simp at hrow; subst hrow
        simp [rowSat, rowDot]; field_simp; ring
      · refine ⟨[0, d / b, 0], rfl, ?_⟩
        intro row hrow; simp at hrow; subst hrow
        simp [rowSat, rowDot]; field_simp; ring
    · refine ⟨[d / a, 0, 0], rfl, ?_⟩
      intro row hrow; simp at hrow; subst hrow
      simp [rowSat, rowDot]; field_simp; ring
  have hs : solvable (solve [[a, b, c, d]]) = true := (solvable_iff_consistent 3 _ hu hne).mpr hcons
  have hva : varargs 3 (solve [[a, b, c, d]]) = 2 := by
    rw [solve_single]
    have hnn : nullRow [a, b, c, d] = false := by
      by_contra h
      simp only [Bool.not_eq_false] at h
      rw [nullRow_iff] at h
      apply hn
      rw [h a (by simp), h b (by simp), h c (by simp)]; rfl
    simp [varargs, nonNullRows, hnn]
  obtain ⟨vals, hcall, hlen, hsome, hsat⟩ := call_satisfies 3 _ hu hne hs [1, 1] (by rw [hva]; rfl)
  match vals, hlen, hsome, hsat with
  | [o1, o2, o3], _, hsome, hsat =>
    have s1 := hsome 0 (by norm_num); have s2 := hsome 1 (by norm_num); have s3 := hsome 2 (by norm_num)
    simp at s1 s2 s3
    obtain ⟨x0, rfl⟩ := Option.ne_none_iff_exists'.mp s1
    obtain ⟨y0, rfl⟩ := Option.ne_none_iff_exists'.mp s2
    obtain ⟨z0, rfl⟩ := Option.ne_none_iff_exists'.mp s3
    have hp : a * x0 + b * y0 + c * z0 = d := by
      have := hsat [a, b, c, d] (by simp)
      simp [rowSat, rowDot, tot] at this
      linarith
    refine ⟨⟨⟨x0, y0, z0⟩, ⟨a, b, c⟩⟩, ?_, rfl, ?_⟩
    · unfold Plane.ofGF; rw [if_neg hn, hcall]
    · intro x
      simp only [Plane.den, dot, sub]
      constructor <;> intro h <;> linarith

/-- `Plane(*P.general_form()) == P` -/
theorem plane_gf_roundtrip (P : Plane) (hP : P.WF) :
    ∃ Q, Plane.ofGF P.generalForm.1 P.generalForm.2.1 P.generalForm.2.2.1 P.generalForm.2.2.2 = .ok Q ∧
      Q.eqv P = true := by
  have hn : (⟨P.n.x, P.n.y, P.n.z⟩ : V3) ≠ zero := hP
  obtain ⟨Q, hQ, hQn, hQd⟩ := plane_gf_contains_iff P.n.x P.n.y P.n.z (dot P.n P.p) hn
  refine ⟨Q, hQ, ?_⟩
  have hQW : Q.WF := by rw [Plane.WF, hQn]; exact hn
  rw [Plane.eqv_iff Q P hQW hP]
  intro x
  rw [hQd x]
  simp only [Plane.den, dot, sub]
  constructor <;> intro h <;> linarith

theorem plane_3pt_contains (a b c : V3) (P : Plane) (h : Plane.ofPoints a b c = .ok P) :
    P.den a ∧ P.den b ∧ P.den c ∧ P.WF := by
  unfold Plane.ofPoints at h
  simp only at h
  split at h
  · cases h
  · rename_i hne
    cases h
    refine ⟨?_, ?_, ?_, hne⟩ <;> simp only [Plane.den, dot, cross, sub] <;> ring

theorem plane_neg (P : Plane) : (∀ x, P.neg.den x ↔ P.den x) ∧ P.neg.n = V3.neg P.n := by
  refine ⟨fun x => ?_, rfl⟩
  simp only [Plane.neg, Plane.den, dot, sub, V3.neg]
  constructor <;> intro h <;> linarith
#print axioms plane_gf_contains_iff
#print axioms plane_gf_roundtrip
end G3D
