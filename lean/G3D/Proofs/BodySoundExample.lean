import G3D.Proofs.GoodB
import G3D.Proofs.BodySoundInter

/-! # Non-vacuity of the hypotheses: a constructed tetrahedron is `Good`

    `Polyhedron.Good` is decidable (`Polyhedron.goodB_iff`); the tetrahedron built by the MODEL constructors
    `Polygon.mk?` / `Polyhedron.mk?` from its four triangles satisfies it (kernel evaluation, `decide +kernel`:
    no axiom beyond the usual three), so the soundness theorems apply to it. -/
namespace G3D.BodySoundExample
open G3D V3

def tetraFaces : Except CErr (List Polygon) := do
  let o : V3 := ⟨0,0,0⟩; let a : V3 := ⟨1,0,0⟩; let b : V3 := ⟨0,1,0⟩; let c : V3 := ⟨0,0,1⟩
  let f1 ← Polygon.mk? [o,a,b]
  let f2 ← Polygon.mk? [o,a,c]
  let f3 ← Polygon.mk? [o,b,c]
  let f4 ← Polygon.mk? [a,b,c]
  pure [f1,f2,f3,f4]

def tetra : Except CErr Polyhedron := do Polyhedron.mk? (← tetraFaces)

theorem tetra_goodB : (match tetra with | .ok B => B.goodB | _ => false) = true := by decide +kernel

theorem tetra_good : ∃ B, tetra = .ok B ∧ B.Good := by
  have h := tetra_goodB
  cases ht : tetra with
  | error e => rw [ht] at h; simp at h
  | ok B => rw [ht] at h; exact ⟨B, rfl, (Polyhedron.goodB_iff B).mp h⟩
#print axioms tetra_good

/-- the theorems apply: e.g. whatever the tetrahedron ∩ itself returns lies in the tetrahedron -/
example : ∃ B, tetra = .ok B ∧ ∀ o, inter (.polyhedron B) (.polyhedron B) = .ok o →
    ∀ x, denOptB o x → B.contains x = true := by
  obtain ⟨B, hB, hg⟩ := tetra_good
  exact ⟨B, hB, fun o ho x hx => (inter_result_subset (.polyhedron B) (.polyhedron B) hg hg o ho x hx).1⟩

end G3D.BodySoundExample
