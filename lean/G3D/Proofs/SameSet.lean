import G3D.Model.SameSet
import G3D.Proofs.BridgeExact

/-! # Equality of composites ⇔ same point set

    `ConvexPolygon.__eq__` / `ConvexPolyhedron.__eq__` compare hashes built from the SET of vertices and the carrier
    plane up to sign (polygon) / the sets of vertices and faces (polyhedron).  The model's idealisations are
    `Polygon.same` and `Polyhedron.sameB`.  Here: on valid objects they decide equality of the denoted point sets
    (the convex hull of the vertex list).

    * `Polygon.same_iff_same_hull` (both directions, `Valid` polygons);
    * `Polyhedron.sameB_iff_same_hull` (both directions, `Proper` bodies whose listed vertices are face vertices);
    * reflexivity / symmetry / transitivity as Bool equalities.

    Key facts: an exposed point of a finite set lying in the hull of a second set, all of whose points lie in the
    hull of the first, belongs to the second set (`SameSet.exposed_mem`); every vertex of a valid polygon is exposed
    (`Polygon.Valid.strictConvexPos`); every face vertex of a `Proper` body is exposed
    (`Polyhedron.Proper.vertex_exposed`); a face of a `Proper` body is cut out of ANY `Proper` body with the same
    hull by one of its own face planes (`SameSet.face_partner`, via `Polyhedron.line_interval`). -/
namespace G3D
open V3

/-! ### exposed points -/

/-- a non-negative combination either puts all its weight on the exposed point `p` or is strictly below it -/
theorem SameSet.comb_exposed (d p : V3) : ∀ (ws : List Rat) (ps : List V3), ws.length = ps.length →
    (∀ w ∈ ws, 0 ≤ w) → (∀ q ∈ ps, q ≠ p → dot d q < dot d p) →
    ((ws.sum = 0 ∨ p ∈ ps) ∧ comb ws ps = smul ws.sum p) ∨ dot d (comb ws ps) < ws.sum * dot d p := by
  intro ws
  induction ws with
  | nil =>
    intro ps h _ _
    cases ps with
    | nil => exact Or.inl ⟨Or.inl rfl, by apply V3.ext' <;> simp [comb, smul, zero]⟩
    | cons _ _ => simp at h
  | cons w ws ih =>
    intro ps h hw hq
    cases ps with
    | nil => simp at h
    | cons q ps =>
      have hw0 : 0 ≤ w := hw w (by simp)
      have ih' := ih ps (by simpa using h) (fun w' h' => hw w' (by simp [h']))
        (fun q' h' => hq q' (by simp [h']))
      have hdot : dot d (comb (w :: ws) (q :: ps)) = w * dot d q + dot d (comb ws ps) := by
        simp only [comb, dot, add, smul]; ring
      have hsm : ∀ s : Rat, dot d (smul s p) = s * dot d p := by
        intro s; simp only [dot, smul]; ring
      rw [List.sum_cons]
      by_cases hqp : q = p
      · rcases ih' with ⟨_, hc⟩ | hlt
        · refine Or.inl ⟨Or.inr (by simp [hqp]), ?_⟩
          simp only [comb]
          rw [hc, hqp]
          apply V3.ext' <;> simp only [add, smul] <;> ring
        · right
          rw [hdot, hqp]
          linarith
      · by_cases hwz : w = 0
        · rcases ih' with ⟨hor, hc⟩ | hlt
          · refine Or.inl ⟨?_, ?_⟩
            · rcases hor with h0 | hm
              · exact Or.inl (by rw [hwz, h0]; ring)
              · exact Or.inr (List.mem_cons_of_mem _ hm)
            · simp only [comb]
              rw [hc, hwz]
              apply V3.ext' <;> simp only [add, smul] <;> ring
          · right
            rw [hdot, hwz]
            linarith
        · have hwpos : 0 < w := lt_of_le_of_ne hw0 (Ne.symm hwz)
          have hlt' : dot d q < dot d p := hq q (by simp) hqp
          have hwq : w * dot d q < w * dot d p := mul_lt_mul_of_pos_left hlt' hwpos
          right
          rcases ih' with ⟨_, hc⟩ | hlt
          · rw [hdot, hc, hsm]; linarith
          · rw [hdot]; linarith

/-- a point of the hull is the exposed point or strictly below it -/
theorem SameSet.hull_exposed {L : List V3} {x d p : V3} (hx : InHull L x)
    (hexp : ∀ q ∈ L, q ≠ p → dot d q < dot d p) : x = p ∨ dot d x < dot d p := by
  obtain ⟨ws, hlen, hnn, hsum, hc⟩ := hx
  rcases SameSet.comb_exposed d p ws L hlen hnn hexp with ⟨_, h⟩ | h
  · left
    rw [← hc, h, hsum]
    apply V3.ext' <;> simp [smul]
  · right
    rw [hc, hsum] at h
    linarith

/-- **exposed points are generators**: if `p` is exposed in `L`, every point of `M` lies in the hull of `L`, and `p`
    lies in the hull of `M`, then `p ∈ M` -/
theorem SameSet.exposed_mem {L M : List V3} {d p : V3} (hexp : ∀ q ∈ L, q ≠ p → dot d q < dot d p)
    (hM : ∀ m ∈ M, InHull L m) (hp : InHull M p) : p ∈ M := by
  obtain ⟨ws, hlen, hnn, hsum, hc⟩ := hp
  rcases SameSet.comb_exposed d p ws M hlen hnn
    (fun q hq hne => (SameSet.hull_exposed (hM q hq) hexp).resolve_left hne) with ⟨hor, _⟩ | h
  · rcases hor with h0 | hm
    · rw [hsum] at h0; exact absurd h0 one_ne_zero
    · exact hm
  · rw [hc, hsum] at h
    linarith

/-- two lists in strictly convex position with the same hull have the same members -/
theorem SameSet.mem_of_same_hull {L M : List V3} (hL : StrictConvexPos L)
    (h : ∀ x, InHull L x ↔ InHull M x) : ∀ p ∈ L, p ∈ M := by
  intro p hp
  obtain ⟨d, hd⟩ := hL p hp
  exact SameSet.exposed_mem hd (fun m hm => (h m).mpr (vertex_in_hull M m hm)) ((h p).mp (vertex_in_hull L p hp))

/-- the hull depends on the set of generators only -/
theorem SameSet.hull_congr {L M : List V3} (h1 : ∀ p ∈ L, p ∈ M) (h2 : ∀ p ∈ M, p ∈ L) (x : V3) :
    InHull L x ↔ InHull M x := ⟨fun h => h.mono h1, fun h => h.mono h2⟩

/-! ### polygons -/

theorem Polygon.same_iff (P Q : Polygon) :
    P.same Q = true ↔ (∀ p ∈ P.pts, p ∈ Q.pts) ∧ (∀ q ∈ Q.pts, q ∈ P.pts) ∧ P.plane.eqv Q.plane = true := by
  simp only [Polygon.same, Bool.and_eq_true, List.all_eq_true, decide_eq_true_eq, and_assoc]

theorem SameSet.den_of_valid (P : Polygon) (hv : P.Valid) (p : V3) (hp : p ∈ P.pts) : P.plane.den p := by
  obtain ⟨_, _, _, _, _, hpl, _⟩ := hv
  have := hpl p hp
  simpa only [G3D.inPlane, beq_iff_eq, Plane.den] using this

/-- a valid polygon all of whose vertices are vertices of a second valid polygon lies in the same carrier plane -/
theorem SameSet.plane_eqv_of_sub (P Q : Polygon) (hP : P.Valid) (hQ : Q.Valid) (hsub : ∀ p ∈ P.pts, p ∈ Q.pts) :
    P.plane.eqv Q.plane = true := by
  obtain ⟨k, _, hn⟩ := normal_parallel P Q hP hQ hsub
  have hpar : V3.parallel P.plane.n Q.plane.n = true := by
    rw [parallel_iff_cross, hn]
    apply V3.ext' <;> simp only [cross, smul, zero] <;> ring
  have hP' := hP
  obtain ⟨p0, _, _, _, hp, _, _⟩ := hP'
  have hm : p0 ∈ P.pts := by rw [hp]; simp
  exact Plane.eqv_of_parallel_common P.plane Q.plane (Polygon.plane_WF P hP) (Polygon.plane_WF Q hQ) hpar p0
    (SameSet.den_of_valid P hP p0 hm) (SameSet.den_of_valid Q hQ p0 (hsub p0 hm))

/-- **`ConvexPolygon.__eq__` decides equality of the point sets** (valid polygons) -/
theorem Polygon.same_iff_same_hull (P Q : Polygon) (hP : P.Valid) (hQ : Q.Valid) :
    P.same Q = true ↔ ∀ x, InHull P.pts x ↔ InHull Q.pts x := by
  rw [Polygon.same_iff]
  constructor
  · rintro ⟨h1, h2, _⟩ x
    exact SameSet.hull_congr h1 h2 x
  · intro h
    have h1 := SameSet.mem_of_same_hull hP.strictConvexPos h
    have h2 := SameSet.mem_of_same_hull hQ.strictConvexPos (fun x => (h x).symm)
    exact ⟨h1, h2, SameSet.plane_eqv_of_sub P Q hP hQ h1⟩
#print axioms Polygon.same_iff_same_hull

/-- with the membership test instead of the hull -/
theorem Polygon.same_iff_same_contains (P Q : Polygon) (hP : P.Valid) (hQ : Q.Valid) :
    P.same Q = true ↔ ∀ x, P.contains x = Q.contains x := by
  rw [Polygon.same_iff_same_hull P Q hP hQ]
  constructor
  · intro h x
    rw [Bool.eq_iff_iff, Polygon.contains_iff P hP, Polygon.contains_iff Q hQ]; exact h x
  · intro h x
    rw [← Polygon.contains_iff P hP, ← Polygon.contains_iff Q hQ, h x]

/-- on valid polygons the carrier-plane component of `__eq__` is implied by the vertex-set component -/
theorem Polygon.same_iff_same_verts (P Q : Polygon) (hP : P.Valid) (hQ : Q.Valid) :
    P.same Q = true ↔ ∀ p, p ∈ P.pts ↔ p ∈ Q.pts := by
  rw [Polygon.same_iff]
  constructor
  · rintro ⟨h1, h2, _⟩ p; exact ⟨h1 p, h2 p⟩
  · intro h
    exact ⟨fun p => (h p).mp, fun p => (h p).mpr, SameSet.plane_eqv_of_sub P Q hP hQ (fun p => (h p).mp)⟩

theorem Polygon.same_refl (P : Polygon) (hP : P.Valid) : P.same P = true :=
  (Polygon.same_iff_same_hull P P hP hP).mpr (fun _ => Iff.rfl)

theorem Polygon.same_comm (P Q : Polygon) (hP : P.Valid) (hQ : Q.Valid) : P.same Q = Q.same P := by
  rw [Bool.eq_iff_iff, Polygon.same_iff_same_hull P Q hP hQ, Polygon.same_iff_same_hull Q P hQ hP]
  exact ⟨fun h x => (h x).symm, fun h x => (h x).symm⟩

theorem Polygon.same_trans (P Q R : Polygon) (hP : P.Valid) (hQ : Q.Valid) (hR : R.Valid)
    (h1 : P.same Q = true) (h2 : Q.same R = true) : P.same R = true := by
  rw [Polygon.same_iff_same_hull _ _ hP hQ] at h1
  rw [Polygon.same_iff_same_hull _ _ hQ hR] at h2
  exact (Polygon.same_iff_same_hull _ _ hP hR).mpr (fun x => (h1 x).trans (h2 x))

/-- equal polygons are indistinguishable for `same` -/
theorem Polygon.same_congr_left (P Q R : Polygon) (hP : P.Valid) (hQ : Q.Valid) (hR : R.Valid)
    (h : P.same Q = true) : P.same R = Q.same R := by
  rw [Bool.eq_iff_iff]
  exact ⟨fun h' => Polygon.same_trans Q P R hQ hP hR (by rw [Polygon.same_comm Q P hQ hP]; exact h) h',
    fun h' => Polygon.same_trans P Q R hP hQ hR h h'⟩


/-! ### polyhedra: `sameB` ⇒ same point set -/

theorem Polyhedron.sameB_iff (A B : Polyhedron) :
    A.sameB B = true ↔ (∀ v ∈ A.verts, v ∈ B.verts) ∧ (∀ v ∈ B.verts, v ∈ A.verts) ∧
      (∀ f ∈ A.faces, ∃ g ∈ B.faces, f.same g = true) ∧ (∀ g ∈ B.faces, ∃ f ∈ A.faces, g.same f = true) := by
  simp only [Polyhedron.sameB, Bool.and_eq_true, List.all_eq_true, List.any_eq_true, decide_eq_true_eq, and_assoc]

/-- equal bodies have the same convex hull (no hypothesis) -/
theorem Polyhedron.sameB_same_hull (A B : Polyhedron) (h : A.sameB B = true) (x : V3) :
    InHull A.verts x ↔ InHull B.verts x := by
  obtain ⟨h1, h2, _⟩ := (Polyhedron.sameB_iff A B).mp h
  exact SameSet.hull_congr h1 h2 x

/-- equal `Proper` bodies have the same membership test -/
theorem Polyhedron.sameB_same_contains (A B : Polyhedron) (hA : A.Proper) (hB : B.Proper)
    (h : A.sameB B = true) (x : V3) : A.contains x = B.contains x := by
  rw [Bool.eq_iff_iff, hA.contains_iff_hull, hB.contains_iff_hull]
  exact Polyhedron.sameB_same_hull A B h x

/-! ### every face vertex of a `Proper` body is an exposed point of the body -/

/-- a functional `M n + d` with `M` large is maximal at `v` only, when `n` is maximal at `v` and `d` is maximal at
    `v` only among the maximisers of `n` -/
theorem SameSet.exists_M (n d v : V3) : ∀ l : List V3, (∀ u ∈ l, dot n u ≤ dot n v) →
    (∀ u ∈ l, dot n u = dot n v → u ≠ v → dot d u < dot d v) →
    ∃ M0 : Rat, ∀ M, M0 ≤ M → ∀ u ∈ l, u ≠ v → M * dot n u + dot d u < M * dot n v + dot d v := by
  intro l
  induction l with
  | nil => intro _ _; exact ⟨0, fun M _ u hu => by cases hu⟩
  | cons a l ih =>
    intro h1 h2
    obtain ⟨M0, hM0⟩ := ih (fun u hu => h1 u (List.mem_cons_of_mem _ hu))
      (fun u hu => h2 u (List.mem_cons_of_mem _ hu))
    by_cases hav : a = v
    · refine ⟨M0, fun M hM u hu hne => ?_⟩
      rcases List.mem_cons.mp hu with hua | hu
      · exact absurd (hua.trans hav) hne
      · exact hM0 M hM u hu hne
    · by_cases heq : dot n a = dot n v
      · refine ⟨M0, fun M hM u hu hne => ?_⟩
        rcases List.mem_cons.mp hu with hua | hu
        · have := h2 a (by simp) heq hav
          rw [hua, heq]; linarith
        · exact hM0 M hM u hu hne
      · have hlt : dot n a < dot n v := lt_of_le_of_ne (h1 a (by simp)) heq
        have hδpos : 0 < dot n v - dot n a := by linarith
        refine ⟨max M0 ((dot d a - dot d v) / (dot n v - dot n a) + 1), fun M hM u hu hne => ?_⟩
        rcases List.mem_cons.mp hu with hua | hu
        · have hM1 : (dot d a - dot d v) / (dot n v - dot n a) + 1 ≤ M := le_trans (le_max_right _ _) hM
          have e : (dot d a - dot d v) / (dot n v - dot n a) * (dot n v - dot n a) = dot d a - dot d v :=
            div_mul_cancel₀ _ (ne_of_gt hδpos)
          have h3 := mul_le_mul_of_nonneg_right hM1 (le_of_lt hδpos)
          rw [hua]
          nlinarith
        · exact hM0 M (le_trans (le_max_left _ _) hM) u hu hne

theorem SameSet.side_eq (f : Polygon) (x : V3) : f.side x = dot f.plane.n x - dot f.plane.n f.center := by
  simp only [Polygon.side, dot, sub]; ring

/-- **every vertex of a face of a `Proper` body is an exposed point of the vertex set** -/
theorem Polyhedron.Proper.vertex_exposed {A : Polyhedron} (hP : A.Proper) (f : Polygon) (hf : f ∈ A.faces)
    (v : V3) (hv : v ∈ f.pts) : ∃ D : V3, ∀ u ∈ A.verts, u ≠ v → dot D u < dot D v := by
  obtain ⟨d, hd⟩ := (hP.core.faces_valid f hf).strictConvexPos v hv
  have hsv : f.side v = 0 := hP.side_of_face f hf v (vertex_in_hull f.pts v hv)
  rw [SameSet.side_eq] at hsv
  have h1 : ∀ u ∈ A.verts, dot f.plane.n u ≤ dot f.plane.n v := by
    intro u hu
    have h := hP.core.verts_inside f hf u hu
    have e : dot (sub u f.center) f.plane.n = f.side u := rfl
    rw [e, SameSet.side_eq] at h
    linarith
  have h2 : ∀ u ∈ A.verts, dot f.plane.n u = dot f.plane.n v → u ≠ v → dot d u < dot d v := by
    intro u hu heq hne
    have hsu : f.side u = 0 := by rw [SameSet.side_eq, heq]; exact hsv
    have hcu : A.contains u = true := Polyhedron.contains_vert A hP.core.verts_inside u hu
    exact (SameSet.hull_exposed (hP.tight u hcu f hf hsu) hd).resolve_left hne
  obtain ⟨M0, hM⟩ := SameSet.exists_M f.plane.n d v A.verts h1 h2
  refine ⟨add (smul M0 f.plane.n) d, fun u hu hne => ?_⟩
  have h := hM M0 (le_refl _) u hu hne
  have e : ∀ x, dot (add (smul M0 f.plane.n) d) x = M0 * dot f.plane.n x + dot d x := by
    intro x; simp only [dot, add, smul]; ring
  rw [e, e]; exact h
#print axioms Polyhedron.Proper.vertex_exposed

/-- every listed vertex is a vertex of some face -/
def Polyhedron.VertsOnFaces (A : Polyhedron) : Prop := ∀ v ∈ A.verts, ∃ f ∈ A.faces, v ∈ f.pts

theorem Polyhedron.vertsOnFacesB_iff (A : Polyhedron) : A.vertsOnFacesB = true ↔ A.VertsOnFaces := by
  simp only [Polyhedron.vertsOnFacesB, Polyhedron.VertsOnFaces, List.all_eq_true, List.any_eq_true,
    decide_eq_true_eq]

/-- the vertex list of a `Proper` body that lists face vertices only is in strictly convex position -/
theorem Polyhedron.Proper.verts_strictConvexPos {A : Polyhedron} (hP : A.Proper) (hR : A.VertsOnFaces) :
    StrictConvexPos A.verts := by
  intro v hv
  obtain ⟨f, hf, hvf⟩ := hR v hv
  exact hP.vertex_exposed f hf v hvf

/-- **same hull ⇒ same vertex set** -/
theorem Polyhedron.same_verts_of_same_hull (A B : Polyhedron) (hA : A.Proper) (hB : B.Proper)
    (hAv : A.VertsOnFaces) (hBv : B.VertsOnFaces) (h : ∀ x, InHull A.verts x ↔ InHull B.verts x) :
    ∀ v, v ∈ A.verts ↔ v ∈ B.verts := fun v =>
  ⟨SameSet.mem_of_same_hull (hA.verts_strictConvexPos hAv) h v,
   SameSet.mem_of_same_hull (hB.verts_strictConvexPos hBv) (fun x => (h x).symm) v⟩

/-! ### same hull ⇒ same faces -/

theorem SameSet.side_zero_iff_den (g : Polygon) (hc : G3D.inPlane g.plane.n g.plane.p g.center = true) (x : V3) :
    g.side x = 0 ↔ g.plane.den x := by
  rw [g.side_zero_inPlane hc x]
  simp only [G3D.inPlane, beq_iff_eq, Plane.den]

/-- **a face of a `Proper` body has a partner among the faces of every `Proper` body with the same hull.**
    The line through the centroid `z` of three vertices of `f` along the normal of `f` leaves the common body at
    `z`; there it is tight on a face `g` of `B` (`Polyhedron.line_interval`); `g ≤ 0` on the three vertices and
    `g = 0` at their centroid, so the plane of `g` contains them and is the plane of `f`; body ∩ plane = face for
    both. -/
theorem SameSet.face_partner {A B : Polyhedron} (hA : A.Proper) (hB : B.Proper)
    (h : ∀ x, InHull A.verts x ↔ InHull B.verts x) (f : Polygon) (hf : f ∈ A.faces) :
    ∃ g ∈ B.faces, f.same g = true := by
  have hcon : ∀ x, A.contains x = true ↔ B.contains x = true := fun x => by
    rw [hA.contains_iff_hull, hB.contains_iff_hull]; exact h x
  have hfv := hA.core.faces_valid f hf
  have hn : f.plane.n ≠ zero := Polygon.plane_WF f hfv
  obtain ⟨p0, p1, p2, rest, hp, _, htp⟩ := hfv
  have hm0 : p0 ∈ f.pts := by rw [hp]; simp
  have hm1 : p1 ∈ f.pts := by rw [hp]; simp
  have hm2 : p2 ∈ f.pts := by rw [hp]; simp
  -- the centroid of the first three vertices
  have hz3 : InHull [p0, p1, p2] (smul (1/3) (add p0 (add p1 p2))) := by
    refine ⟨[1/3, 1/3, 1/3], rfl, ?_, by norm_num, ?_⟩
    · intro w hw
      simp only [List.mem_cons, List.not_mem_nil, or_false, or_self] at hw
      rw [hw]; norm_num
    · apply V3.ext' <;> simp only [comb, add, smul, zero] <;> ring
  generalize hzdef : smul (1/3) (add p0 (add p1 p2)) = z at hz3
  have hzf : InHull f.pts z := hz3.mono (by
    intro p hp'
    simp only [List.mem_cons, List.not_mem_nil, or_false] at hp'
    rcases hp' with rfl | rfl | rfl
    · exact hm0
    · exact hm1
    · exact hm2)
  have hzA : A.contains z = true := hA.face_sub f hf z hzf
  have hzs : f.side z = 0 := hA.side_of_face f hf z hzf
  have hzB : B.contains z = true := (hcon z).mp hzA
  obtain ⟨tlo, thi, hle, hint, _, ⟨g, hg, hgs, _⟩⟩ :=
    B.line_interval hB.hullCore z f.plane.n hn ⟨0, by rw [K3.pt_zero]; exact hzB⟩
  have h0 : tlo ≤ 0 ∧ 0 ≤ thi := (hint 0).mp (by rw [K3.pt_zero]; exact hzB)
  have hthi : thi ≤ 0 := by
    have hc : A.contains (pt z f.plane.n thi) = true := (hcon _).mpr ((hint thi).mpr ⟨hle, le_refl _⟩)
    have h' := (A.contains_iff_side _).mp hc f hf
    rw [f.side_pt, hzs] at h'
    have hN : 0 < dot f.plane.n f.plane.n := normSq_pos hn
    by_contra hcon'
    have := mul_pos (not_le.mp hcon') hN
    linarith
  have hthi0 : thi = 0 := le_antisymm hthi h0.2
  rw [hthi0, K3.pt_zero] at hgs
  -- `g` vanishes on the three vertices
  have hgle : ∀ p ∈ f.pts, g.side p ≤ 0 := by
    intro p hpm
    have hcA : A.contains p = true := hA.face_sub f hf p (vertex_in_hull f.pts p hpm)
    exact (B.contains_iff_side p).mp ((hcon p).mp hcA) g hg
  have hsum : g.side z = (g.side p0 + g.side p1 + g.side p2) / 3 := by
    rw [← hzdef]; simp only [Polygon.side, dot, sub, add, smul]; ring
  have e0 := hgle p0 hm0
  have e1 := hgle p1 hm1
  have e2 := hgle p2 hm2
  rw [hgs] at hsum
  have hg0 : g.side p0 = 0 := by linarith
  have hg1 : g.side p1 = 0 := by linarith
  have hg2 : g.side p2 = 0 := by linarith
  -- hence the planes agree
  have hcg := hB.core.center_in_plane g hg
  have hcf := hA.core.center_in_plane f hf
  have hgv := hB.core.faces_valid g hg
  have hfv := hA.core.faces_valid f hf
  have dg0 := (SameSet.side_zero_iff_den g hcg p0).mp hg0
  have dg1 := (SameSet.side_zero_iff_den g hcg p1).mp hg1
  have dg2 := (SameSet.side_zero_iff_den g hcg p2).mp hg2
  have df0 := SameSet.den_of_valid f hfv p0 hm0
  have df1 := SameSet.den_of_valid f hfv p1 hm1
  have df2 := SameSet.den_of_valid f hfv p2 hm2
  have hN : cross (sub p1 p0) (sub p2 p0) ≠ zero := by
    intro hz
    rw [hp] at htp
    have := htp.1 p1 p2 (by simp)
    simp only [orient] at this
    rw [hz] at this
    simp [dot, zero] at this
  obtain ⟨k1, hk1⟩ := parallel_of_perp _ _ f.plane.n hN (K3.den_sub_perp f.plane df0 df1)
    (K3.den_sub_perp f.plane df0 df2)
  obtain ⟨k2, hk2⟩ := parallel_of_perp _ _ g.plane.n hN (K3.den_sub_perp g.plane dg0 dg1)
    (K3.den_sub_perp g.plane dg0 dg2)
  have hpar : V3.parallel f.plane.n g.plane.n = true := by
    rw [parallel_iff_cross, hk1, hk2]
    apply V3.ext' <;> simp only [cross, smul, zero] <;> ring
  have heqv : f.plane.eqv g.plane = true :=
    Plane.eqv_of_parallel_common f.plane g.plane hn (Polygon.plane_WF g hgv) hpar p0 df0 dg0
  have hden := Plane.eqv_den f.plane g.plane hn (Polygon.plane_WF g hgv) heqv
  -- body ∩ plane = face, for both
  refine ⟨g, hg, (Polygon.same_iff_same_hull f g hfv hgv).mpr (fun x => ?_)⟩
  rw [hA.face_iff f hf x, hB.face_iff g hg x, hcon x, SameSet.side_zero_iff_den f hcf,
    SameSet.side_zero_iff_den g hcg, hden x]
#print axioms SameSet.face_partner

/-! ### `ConvexPolyhedron.__eq__` decides equality of the point sets -/

/-- **`ConvexPolyhedron.__eq__` ⇔ same point set**, for `Proper` bodies that list face vertices only (which every
    constructed body does) -/
theorem Polyhedron.sameB_iff_same_hull (A B : Polyhedron) (hA : A.Proper) (hB : B.Proper)
    (hAv : A.VertsOnFaces) (hBv : B.VertsOnFaces) :
    A.sameB B = true ↔ ∀ x, InHull A.verts x ↔ InHull B.verts x := by
  constructor
  · exact Polyhedron.sameB_same_hull A B
  · intro h
    have hv := Polyhedron.same_verts_of_same_hull A B hA hB hAv hBv h
    exact (Polyhedron.sameB_iff A B).mpr ⟨fun v => (hv v).mp, fun v => (hv v).mpr,
      fun f hf => SameSet.face_partner hA hB h f hf,
      fun g hg => SameSet.face_partner hB hA (fun x => (h x).symm) g hg⟩
#print axioms Polyhedron.sameB_iff_same_hull

/-- the same with the membership test as the denotation -/
theorem Polyhedron.sameB_iff_same_contains (A B : Polyhedron) (hA : A.Proper) (hB : B.Proper)
    (hAv : A.VertsOnFaces) (hBv : B.VertsOnFaces) :
    A.sameB B = true ↔ ∀ x, A.contains x = B.contains x := by
  rw [Polyhedron.sameB_iff_same_hull A B hA hB hAv hBv]
  constructor
  · intro h x
    rw [Bool.eq_iff_iff, hA.contains_iff_hull, hB.contains_iff_hull]; exact h x
  · intro h x
    rw [← hA.contains_iff_hull, ← hB.contains_iff_hull, h x]

/-- in particular the face component of `__eq__` is implied by the vertex component -/
theorem Polyhedron.sameB_iff_same_verts (A B : Polyhedron) (hA : A.Proper) (hB : B.Proper)
    (hAv : A.VertsOnFaces) (hBv : B.VertsOnFaces) :
    A.sameB B = true ↔ ∀ v, v ∈ A.verts ↔ v ∈ B.verts := by
  constructor
  · intro h v
    obtain ⟨h1, h2, _⟩ := (Polyhedron.sameB_iff A B).mp h
    exact ⟨h1 v, h2 v⟩
  · intro h
    exact (Polyhedron.sameB_iff_same_hull A B hA hB hAv hBv).mpr
      (fun x => SameSet.hull_congr (fun v => (h v).mp) (fun v => (h v).mpr) x)

theorem Polyhedron.sameB_refl (A : Polyhedron) (hfv : ∀ f ∈ A.faces, f.Valid) : A.sameB A = true :=
  (Polyhedron.sameB_iff A A).mpr ⟨fun _ h => h, fun _ h => h,
    fun f hf => ⟨f, hf, Polygon.same_refl f (hfv f hf)⟩, fun f hf => ⟨f, hf, Polygon.same_refl f (hfv f hf)⟩⟩

theorem Polyhedron.sameB_comm (A B : Polyhedron) : A.sameB B = B.sameB A := by
  rw [Bool.eq_iff_iff, Polyhedron.sameB_iff, Polyhedron.sameB_iff]
  exact ⟨fun ⟨a, b, c, d⟩ => ⟨b, a, d, c⟩, fun ⟨a, b, c, d⟩ => ⟨b, a, d, c⟩⟩

theorem Polyhedron.sameB_trans (A B C : Polyhedron) (hA : ∀ f ∈ A.faces, f.Valid) (hB : ∀ f ∈ B.faces, f.Valid)
    (hC : ∀ f ∈ C.faces, f.Valid) (h1 : A.sameB B = true) (h2 : B.sameB C = true) : A.sameB C = true := by
  obtain ⟨a1, b1, c1, d1⟩ := (Polyhedron.sameB_iff A B).mp h1
  obtain ⟨a2, b2, c2, d2⟩ := (Polyhedron.sameB_iff B C).mp h2
  refine (Polyhedron.sameB_iff A C).mpr ⟨fun v hv => a2 v (a1 v hv), fun v hv => b1 v (b2 v hv), ?_, ?_⟩
  · intro f hf
    obtain ⟨g, hg, hfg⟩ := c1 f hf
    obtain ⟨k, hk, hgk⟩ := c2 g hg
    exact ⟨k, hk, Polygon.same_trans f g k (hA f hf) (hB g hg) (hC k hk) hfg hgk⟩
  · intro k hk
    obtain ⟨g, hg, hkg⟩ := d2 k hk
    obtain ⟨f, hf, hgf⟩ := d1 g hg
    exact ⟨f, hf, Polygon.same_trans k g f (hC k hk) (hB g hg) (hA f hf) hkg hgf⟩


/-! ### constructed bodies -/

theorem SameSet.flipOf_mem (c : V3) (g : Polygon) (hg : g.Valid) (p : V3) : p ∈ (flipOf c g).pts ↔ p ∈ g.pts := by
  by_cases hd : dot (sub g.plane.p c) g.plane.n < 0
  · obtain ⟨Q, q0, rest, hgp, hQ, _, hQp, _⟩ := Polygon.neg?_of_valid g hg
    have hflip : flipOf c g = Q := by unfold flipOf; rw [if_pos hd, hQ]
    rw [hflip, hQp, hgp]; simp
  · have hflip : flipOf c g = g := by unfold flipOf; rw [if_neg hd]
    rw [hflip]

/-- every constructed body lists face vertices only -/
theorem Polyhedron.mk?_vertsOnFaces (input : List Polygon) (hv : ∀ g ∈ input, g.Valid) (B : Polyhedron)
    (h : Polyhedron.mk? input = .ok B) : B.VertsOnFaces := by
  obtain ⟨hverts, _, _, _, hF, _⟩ := Polyhedron.mk?_eq input B h
  intro v hvB
  rw [hverts, mem_collectVerts] at hvB
  obtain ⟨g, hg, hvg⟩ := hvB
  refine ⟨flipOf B.center g, ?_, (SameSet.flipOf_mem _ g (hv g hg) v).mpr hvg⟩
  rw [hF]; exact List.mem_map.mpr ⟨g, hg, rfl⟩

/-- so does the body `move` leaves behind -/
theorem Polyhedron.moved_vertsOnFaces (B : Polyhedron) (hV : B.Valid) (v : V3) : (B.moved v).VertsOnFaces := by
  intro w hw
  obtain ⟨p, hp, rfl⟩ := List.mem_map.mp (show w ∈ (collectVerts B.faces).map (fun p => add p v) from hw)
  obtain ⟨f, hf, hpf⟩ := (mem_collectVerts _ p).mp hp
  have hpts := (moved_face f (hV.faces_valid f hf) (hV.center_in_plane f hf) v).2.2.2.1
  refine ⟨(rebuild f).translate v, List.mem_map.mpr ⟨f, hf, rfl⟩, ?_⟩
  rw [hpts]; exact List.mem_map.mpr ⟨p, hpf, rfl⟩

/-- **equality is canonical for constructed bodies**: two successful constructions from two reordered, re-oriented
    face lists of the same `Valid`, `FaceLocal` body compare equal -/
theorem Polyhedron.mk?_reoriented_sameB (B0 : Polyhedron) (hV : B0.Valid) (hloc : B0.FaceLocal)
    (F1 F2 input1 input2 : List Polygon)
    (hperm1 : List.Perm F1 B0.faces) (hrel1 : List.Forall₂ Reoriented F1 input1)
    (hperm2 : List.Perm F2 B0.faces) (hrel2 : List.Forall₂ Reoriented F2 input2)
    (B1 B2 : Polyhedron) (h1 : Polyhedron.mk? input1 = .ok B1) (h2 : Polyhedron.mk? input2 = .ok B2) :
    B1.sameB B2 = true := by
  have hv1 : ∀ g ∈ input1, g.Valid := fun g hg => by
    obtain ⟨_, _, hr⟩ := Forall₂.exists_left hrel1 g hg; exact hr.valid
  have hv2 : ∀ g ∈ input2, g.Valid := fun g hg => by
    obtain ⟨_, _, hr⟩ := Forall₂.exists_left hrel2 g hg; exact hr.valid
  obtain ⟨_, hE1⟩ := Polyhedron.mk?_reoriented_exactHyp_of_ok B0 hV hloc F1 input1 hperm1 hrel1 B1 h1
  obtain ⟨_, hE2⟩ := Polyhedron.mk?_reoriented_exactHyp_of_ok B0 hV hloc F2 input2 hperm2 hrel2 B2 h2
  obtain ⟨_, _, _, _, m1, _⟩ := Polyhedron.mk?_reoriented_queries B0 hV F1 input1 hperm1 hrel1 B1 h1
  obtain ⟨_, _, _, _, m2, _⟩ := Polyhedron.mk?_reoriented_queries B0 hV F2 input2 hperm2 hrel2 B2 h2
  exact (Polyhedron.sameB_iff_same_contains B1 B2 hE1.proper hE2.proper
    (Polyhedron.mk?_vertsOnFaces input1 hv1 B1 h1) (Polyhedron.mk?_vertsOnFaces input2 hv2 B2 h2)).mpr
    (fun x => by rw [m1, m2])
#print axioms Polyhedron.mk?_reoriented_sameB

/-- … and compare equal to the reference body itself when that lists face vertices only -/
theorem Polyhedron.mk?_reoriented_sameB_ref (B0 : Polyhedron) (hV : B0.Valid) (hloc : B0.FaceLocal)
    (hv0 : B0.VertsOnFaces) (F input : List Polygon)
    (hperm : List.Perm F B0.faces) (hrel : List.Forall₂ Reoriented F input)
    (B : Polyhedron) (h : Polyhedron.mk? input = .ok B) : B.sameB B0 = true := by
  have hv : ∀ g ∈ input, g.Valid := fun g hg => by
    obtain ⟨_, _, hr⟩ := Forall₂.exists_left hrel g hg; exact hr.valid
  obtain ⟨_, hE⟩ := Polyhedron.mk?_reoriented_exactHyp_of_ok B0 hV hloc F input hperm hrel B h
  obtain ⟨_, _, _, _, m, _⟩ := Polyhedron.mk?_reoriented_queries B0 hV F input hperm hrel B h
  exact (Polyhedron.sameB_iff_same_contains B B0 hE.proper (hV.proper hloc)
    (Polyhedron.mk?_vertsOnFaces input hv B h) hv0).mpr m

/-! ### concrete instances -/

/-- the unit square, counter-clockwise from the origin -/
def SameSet.sq1 : Polygon := cycleFace [⟨0,0,0⟩, ⟨1,0,0⟩, ⟨1,1,0⟩, ⟨0,1,0⟩]
/-- the unit square, clockwise from the opposite corner (normal reversed) -/
def SameSet.sq2 : Polygon := cycleFace [⟨1,1,0⟩, ⟨1,0,0⟩, ⟨0,0,0⟩, ⟨0,1,0⟩]
/-- a triangle on three of its corners -/
def SameSet.tri : Polygon := cycleFace [⟨0,0,0⟩, ⟨1,0,0⟩, ⟨1,1,0⟩]

theorem SameSet.sq_valid : SameSet.sq1.Valid ∧ SameSet.sq2.Valid ∧ SameSet.tri.Valid :=
  ⟨Polygon.valid_of_validB _ (by decide +kernel), Polygon.valid_of_validB _ (by decide +kernel),
   Polygon.valid_of_validB _ (by decide +kernel)⟩

/-- equal as objects (by evaluation), hence equal as point sets (by the theorem) -/
example : SameSet.sq1.same SameSet.sq2 = true ∧ SameSet.sq1 ≠ SameSet.sq2 ∧
    ∀ x, InHull SameSet.sq1.pts x ↔ InHull SameSet.sq2.pts x :=
  ⟨by decide +kernel, by decide +kernel,
   (Polygon.same_iff_same_hull _ _ SameSet.sq_valid.1 SameSet.sq_valid.2.1).mp (by decide +kernel)⟩

/-- unequal as objects (by evaluation), hence different point sets (by the theorem) -/
example : ¬ ∀ x, InHull SameSet.sq1.pts x ↔ InHull SameSet.tri.pts x := fun h =>
  absurd ((Polygon.same_iff_same_hull _ _ SameSet.sq_valid.1 SameSet.sq_valid.2.2).mpr h) (by decide +kernel)

theorem cubeE_vertsOnFaces : cubeE.VertsOnFaces := (cubeE.vertsOnFacesB_iff).mp (by decide +kernel)

/-- the unit cube rebuilt by the constructor from its faces listed backwards and turned inside out equals the unit
    cube: by the theorem … -/
example (B : Polyhedron) (h : Polyhedron.mk? Bridge.cubeInput = .ok B) : B.sameB cubeE = true := by
  have hv : ∀ g ∈ Bridge.cubeInput, g.Valid := fun g hg => by
    obtain ⟨_, _, hr⟩ := Forall₂.exists_left Bridge.cubeInput_hyp.2 g hg; exact hr.valid
  obtain ⟨_, hE⟩ := Polyhedron.mk?_reoriented_exactHyp_of_ok unitCube unitCube_valid unitCube_faceLocal _ _
    Bridge.cubeInput_hyp.1 Bridge.cubeInput_hyp.2 B h
  obtain ⟨_, _, _, _, m, _⟩ := Polyhedron.mk?_reoriented_queries unitCube unitCube_valid _ _
    Bridge.cubeInput_hyp.1 Bridge.cubeInput_hyp.2 B h
  exact (Polyhedron.sameB_iff_same_contains B cubeE hE.proper cubeE_exactHyp.proper
    (Polyhedron.mk?_vertsOnFaces _ hv B h) cubeE_vertsOnFaces).mpr m

/-- … and by evaluation (the stored bodies differ: other face order, other vertex order) -/
example : (match Polyhedron.mk? Bridge.cubeInput with
    | .ok B => B.sameB cubeE && cubeE.sameB B && !(B.verts == cubeE.verts) && !(B.faces == cubeE.faces)
    | .error _ => false) = true := by decide +kernel

/-- the unit cube and its translate by `(1, 0, 0)` are unequal as objects (by evaluation), hence are different
    point sets (by the theorem) -/
example : ¬ ∀ x, InHull cubeE.verts x ↔ InHull (unitCube.moved ⟨1, 0, 0⟩).verts x := fun h =>
  absurd ((Polyhedron.sameB_iff_same_hull cubeE (unitCube.moved ⟨1, 0, 0⟩) cubeE_exactHyp.proper
    (unitCube.moved_exactHyp unitCube_valid unitCube_faceLocal _).proper cubeE_vertsOnFaces
    (unitCube.moved_vertsOnFaces unitCube_valid _)).mpr h) (by decide +kernel)

end G3D

#print axioms G3D.Polygon.same_iff_same_hull
#print axioms G3D.Polyhedron.sameB_iff_same_hull
#print axioms G3D.Polyhedron.mk?_reoriented_sameB_ref
#print axioms G3D.cubeE_vertsOnFaces
#print axioms G3D.SameSet.sq_valid
