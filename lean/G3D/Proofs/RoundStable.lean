import Mathlib.Algebra.Order.Field.Rat
import Mathlib.Algebra.Order.Field.Power
import Mathlib.Tactic.Linarith
import Mathlib.Tactic.Ring
import Mathlib.Tactic.Positivity

/-! Model of Python's `round(x, k)` as round-half-even of `x·10^k` over `Rat`, and the stability lemma
    behind "hash equal under eps/1000 perturbations when every hashed quantity is at least 7% of a
    step away from a rounding boundary" (`Point.__hash__` / `Vector.__hash__` round to SIG digits). -/
namespace G3D.Round

/-- round-half-even of a rational to an integer -/
def rhe (t : Rat) : Int :=
  let f := t.floor
  let r := t - (f : Rat)
  if r < 1/2 then f
  else if 1/2 < r then f + 1
  else if f % 2 = 0 then f else f + 1

/-- `round(x, k)` in units of `10^(-k)`: round-half-even of `x·10^k` -/
def roundDec (k : Nat) (x : Rat) : Int := rhe (x * (10 : Rat)^k)

theorem floor_le' (t : Rat) : (t.floor : Rat) ≤ t := Rat.floor_le t
theorem lt_floor_add_one' (t : Rat) : t < (t.floor : Rat) + 1 := by
  have := Rat.lt_floor_add_one t
  push_cast at this
  exact this

theorem floor_eq_of (t : Rat) (n : Int) (h1 : (n : Rat) ≤ t) (h2 : t < (n : Rat) + 1) : t.floor = n := by
  apply le_antisymm
  · have hlt : (t.floor : Rat) < ((n + 1 : Int) : Rat) := by
      push_cast; linarith [floor_le' t]
    have : t.floor < n + 1 := by exact_mod_cast hlt
    omega
  · exact Rat.le_floor_iff.mpr h1

/-- any `u` strictly within half a unit of the integer `n` rounds to `n` -/
theorem rhe_of_near (u : Rat) (n : Int) (h1 : (n : Rat) - 1/2 < u) (h2 : u < (n : Rat) + 1/2) :
    rhe u = n := by
  by_cases hge : (n : Rat) ≤ u
  · have hf : u.floor = n := floor_eq_of u n hge (by linarith)
    unfold rhe
    simp only [hf]
    rw [if_pos (by linarith)]
  · have hlt : u < (n : Rat) := lt_of_not_ge hge
    have hf : u.floor = n - 1 := floor_eq_of u (n - 1) (by push_cast; linarith) (by push_cast; linarith)
    unfold rhe
    simp only [hf]
    rw [if_neg (by push_cast; linarith), if_pos (by push_cast; linarith)]
    omega

/-- an integer rounds to itself -/
theorem rhe_int (n : Int) : rhe (n : Rat) = n :=
  rhe_of_near _ n (by linarith) (by linarith)

/-- rounding error is at most half a unit -/
theorem rhe_err (t : Rat) : |(rhe t : Rat) - t| ≤ 1/2 := by
  have h1 := floor_le' t
  have h2 := lt_floor_add_one' t
  unfold rhe
  simp only
  rw [abs_le]
  split
  · constructor <;> linarith
  · split
    · push_cast; constructor <;> linarith
    · rename_i ha hb
      have : t - (t.floor : Rat) = 1/2 := le_antisymm (not_lt.mp hb) (not_lt.mp ha)
      split
      · constructor <;> linarith
      · push_cast; constructor <;> linarith

/-- core stability: if `t` is at distance ≥ m (in the fractional part) from the rounding boundary and
    `|u - t| < m`, both round to the same integer -/
theorem rhe_stable (t u m : Rat) (hm : m ≤ |t - (t.floor : Rat) - 1/2|) (hut : |u - t| < m) :
    rhe u = rhe t := by
  have h1 := floor_le' t
  have h2 := lt_floor_add_one' t
  have hu := abs_lt.mp hut
  rcases le_abs.mp hm with h | h
  · -- frac t ≥ 1/2 + m : both round to floor + 1
    have hm2 : m < 1/2 := by linarith
    have ht : rhe t = t.floor + 1 :=
      rhe_of_near t (t.floor + 1) (by push_cast; linarith) (by push_cast; linarith)
    have hu' : rhe u = t.floor + 1 :=
      rhe_of_near u (t.floor + 1) (by push_cast; linarith) (by push_cast; linarith)
    rw [ht, hu']
  · -- frac t ≤ 1/2 - m : both round to floor
    have hm2 : m ≤ 1/2 := by linarith
    have ht : rhe t = t.floor := rhe_of_near t t.floor (by linarith) (by linarith)
    have hu' : rhe u = t.floor := rhe_of_near u t.floor (by linarith) (by linarith)
    rw [ht, hu']

/-- **round_stable**: a perturbation smaller than the margin to the rounding boundary does not change
    the rounded value -/
theorem round_stable (k : Nat) (x y m : Rat)
    (hm : m ≤ |x * (10:Rat)^k - ((x * (10:Rat)^k).floor : Rat) - 1/2|)
    (hxy : |y - x| * (10:Rat)^k < m) : roundDec k y = roundDec k x := by
  unfold roundDec
  apply rhe_stable _ _ m hm
  have hp : (0:Rat) < (10:Rat)^k := by positivity
  have : y * (10:Rat)^k - x * (10:Rat)^k = (y - x) * (10:Rat)^k := by ring
  rw [this, abs_mul, abs_of_pos hp]
  exact hxy

/-- the form used for hashing: `eps = 10^(-k)`, perturbation at most `eps/1000`, margin 7% of a step -/
theorem round_stable_eps1000 (k : Nat) (x y : Rat)
    (hm : 7/100 ≤ |x * (10:Rat)^k - ((x * (10:Rat)^k).floor : Rat) - 1/2|)
    (hxy : |y - x| ≤ (1 / (10:Rat)^k) / 1000) : roundDec k y = roundDec k x := by
  apply round_stable k x y (7/100) hm
  have hp : (0:Rat) < (10:Rat)^k := by positivity
  have h1 : |y - x| * (10:Rat)^k ≤ (1 / (10:Rat)^k) / 1000 * (10:Rat)^k :=
    mul_le_mul_of_nonneg_right hxy (le_of_lt hp)
  have h2 : (1 / (10:Rat)^k) / 1000 * (10:Rat)^k = 1/1000 := by
    rw [div_mul_eq_mul_div, one_div, inv_mul_cancel₀ (ne_of_gt hp)]
  rw [h2] at h1
  linarith

/-- **roundDec_exact**: a value that is a multiple of `10^(-k)` is not changed by rounding -/
theorem roundDec_exact (k : Nat) (x : Rat) (n : Int) (h : x * (10:Rat)^k = (n : Rat)) :
    roundDec k x = n := by
  unfold roundDec; rw [h]; exact rhe_int n

theorem roundDec_exact' (k : Nat) (x : Rat) (n : Int) (h : x * (10:Rat)^k = (n : Rat)) :
    ((roundDec k x : Int) : Rat) = x * (10:Rat)^k := by
  rw [roundDec_exact k x n h, h]

/-- `|round(x,k) - x| ≤ 10^(-k)/2` (in units of `10^(-k)`) -/
theorem roundDec_err (k : Nat) (x : Rat) : |(roundDec k x : Rat) - x * (10:Rat)^k| ≤ 1/2 :=
  rhe_err _

/-- the stability hypothesis cannot be weakened to margin 0: half-way cases do move.
    `round(0.5) = 0`, `round(0.5 + δ) = 1` for every small `δ > 0`. -/
theorem rhe_tie_unstable (d : Rat) (hd : 0 < d) (hd1 : d < 1/2) : rhe (1/2) = 0 ∧ rhe (1/2 + d) = 1 := by
  constructor
  · have hf : (1/2 : Rat).floor = 0 := floor_eq_of _ 0 (by norm_num) (by norm_num)
    unfold rhe
    simp only [hf]
    norm_num
  · exact rhe_of_near _ 1 (by push_cast; linarith) (by push_cast; linarith)

#print axioms round_stable
#print axioms round_stable_eps1000
#print axioms roundDec_exact
#print axioms roundDec_err
#print axioms rhe_tie_unstable
end G3D.Round
