import G3D.Proofs.MethodsTieBase
/-! # group `mpolygon`: helper lemmas about the runtime only (NO extracted definition occurs here, so this module never breaks when a method changes) -/
set_option linter.unusedSimpArgs false
set_option linter.unusedVariables false
set_option linter.style.nameCheck false
set_option linter.unusedTactic false
set_option linter.unreachableTactic false
namespace G3D.Tie
open V3 PyRt 

def segOf (e : V3 × V3) : Except CErr Seg := if e.1 = e.2 then .error .value else .ok (Seg.mk' e.1 e.2)

theorem pyPack_ConvexPolygon_of (P : Polygon) : pyPack_ConvexPolygon (Self.ofPolygon P) = .ok (.obj (.polygon P)) := by
  simp [pyPack_ConvexPolygon, Self.ofPolygon, Val.ptSeq, plObj, ptObj]

theorem foldl_snoc_map {α β : Type} (f : α → β) (xs : List α) (acc : List β) :
    xs.foldl (fun acc x => acc ++ [f x]) acc = acc ++ xs.map f := by
  induction xs generalizing acc with
  | nil => simp
  | cons x xs ih => simp [ih]

/-- a sum of square roots, represented by its radicands (`0` while empty) -/
def sqrtSumRepr (l : List Rat) : Val := if l = [] then .int 0 else .nums l

theorem mapM_segOf_lenSq : ∀ (cp : List (V3 × V3)) (ss : List Seg), cp.mapM segOf = .ok ss →
    ss.map Seg.lenSq = cp.map (fun e => normSq (sub e.2 e.1)) := by
  intro cp
  induction cp with
  | nil => intro ss h; simp at h; cases h; rfl
  | cons e cp ih =>
    intro ss h
    rw [List.mapM_cons] at h
    by_cases he : e.1 = e.2
    · simp [segOf, he] at h
    · cases hm : cp.mapM segOf with
      | error x => simp [segOf, he, hm] at h
      | ok ts =>
        simp [segOf, he, hm] at h
        cases h
        simp [ih ts hm, Seg.lenSq, Seg.mk']

end G3D.Tie
