import G3D.Proofs.Collinear
import G3D.Proofs.Equality

/-! C12 for flat primitives: corollaries of `interFlat_exact`. -/
namespace G3D
open V3

/-- result of a first intersection fed into a second one (`None` absorbs) -/
def interOptL (o : Option Geo) (c : Geo) : Res :=
  match o with
  | none => .ok none
  | some g => interFlat g c

def interOptR (a : Geo) (o : Option Geo) : Res :=
  match o with
  | none => .ok none
  | some g => interFlat a g

/-- associativity on the denoted sets, for all 125 type triples of flat primitives -/
theorem interFlat_assoc (a b c : Geo) (ha : a.WF) (hb : b.WF) (hc : c.WF) :
    ∃ ab bc l r, interFlat a b = .ok ab ∧ interFlat b c = .ok bc ∧
      interOptL ab c = .ok l ∧ interOptR a bc = .ok r ∧
      ∀ x, denOpt l x ↔ denOpt r x := by
  obtain ⟨ab, hab, wab, dab⟩ := interFlat_exact a b ha hb
  obtain ⟨bc, hbc, wbc, dbc⟩ := interFlat_exact b c hb hc
  have hl : ∃ l, interOptL ab c = .ok l ∧ ∀ x, denOpt l x ↔ (a.den x ∧ b.den x) ∧ c.den x := by
    cases ab with
    | none => exact ⟨none, rfl, fun x => by simp only [denOpt, false_iff]; rintro ⟨h, _⟩; exact (dab x).mpr h⟩
    | some g =>
      obtain ⟨l, hl, _, dl⟩ := interFlat_exact g c (wab g rfl) hc
      exact ⟨l, hl, fun x => by rw [dl x]; have := dab x; simp only [denOpt] at this; rw [this]⟩
  have hr : ∃ r, interOptR a bc = .ok r ∧ ∀ x, denOpt r x ↔ a.den x ∧ (b.den x ∧ c.den x) := by
    cases bc with
    | none => exact ⟨none, rfl, fun x => by simp only [denOpt, false_iff]; rintro ⟨_, h⟩; exact (dbc x).mpr h⟩
    | some g =>
      obtain ⟨r, hr, _, dr⟩ := interFlat_exact a g ha (wbc g rfl)
      exact ⟨r, hr, fun x => by rw [dr x]; have := dbc x; simp only [denOpt] at this; rw [this]⟩
  obtain ⟨l, hl1, hl2⟩ := hl
  obtain ⟨r, hr1, hr2⟩ := hr
  exact ⟨ab, bc, l, r, hab, hbc, hl1, hr1, fun x => by rw [hl2 x, hr2 x]; tauto⟩

/-- `intersection(a, a)` denotes `a` -/
theorem interFlat_self (a : Geo) (ha : a.WF) :
    ∃ g, interFlat a a = .ok (some g) ∧ g.WF ∧ ∀ x, g.den x ↔ a.den x := by
  obtain ⟨o, ho, hw, hd⟩ := interFlat_exact a a ha ha
  -- every flat object has a point
  have hne : ∃ x, a.den x := by
    cases a with
    | point p => exact ⟨p, rfl⟩
    | line l => exact ⟨l.sv, 0, by apply V3.ext' <;> simp [add, smul]⟩
    | plane pl => exact ⟨pl.p, by simp [Geo.den, Plane.den, dot, sub]⟩
    | seg s => exact ⟨s.a, s.den_endpoints.1⟩
    | halfline h => exact ⟨h.p, 0, le_refl _, by apply V3.ext' <;> simp [add, smul]⟩
  cases o with
  | none => obtain ⟨x, hx⟩ := hne; exact absurd ((hd x).mpr ⟨hx, hx⟩) (by simp [denOpt])
  | some g => exact ⟨g, ho, hw g rfl, fun x => by have := hd x; simp only [denOpt] at this; rw [this]; tauto⟩

/-- if `a ⊆ b` then `intersection(a, b)` denotes `a` -/
theorem interFlat_of_subset (a b : Geo) (ha : a.WF) (hb : b.WF) (hsub : ∀ x, a.den x → b.den x)
    (hne : ∃ x, a.den x) :
    ∃ g, interFlat a b = .ok (some g) ∧ ∀ x, g.den x ↔ a.den x := by
  obtain ⟨o, ho, _, hd⟩ := interFlat_exact a b ha hb
  cases o with
  | none => obtain ⟨x, hx⟩ := hne; exact absurd ((hd x).mpr ⟨hx, hsub x hx⟩) (by simp [denOpt])
  | some g =>
    exact ⟨g, ho, fun x => by
      have := hd x; simp only [denOpt] at this; rw [this]
      exact ⟨fun h => h.1, fun h => ⟨h, hsub x h⟩⟩⟩

/-- symmetry on the denoted sets -/
theorem interFlat_symm (a b : Geo) (ha : a.WF) (hb : b.WF) :
    ∃ o1 o2, interFlat a b = .ok o1 ∧ interFlat b a = .ok o2 ∧ ∀ x, denOpt o1 x ↔ denOpt o2 x := by
  obtain ⟨o1, h1, _, d1⟩ := interFlat_exact a b ha hb
  obtain ⟨o2, h2, _, d2⟩ := interFlat_exact b a hb ha
  exact ⟨o1, o2, h1, h2, fun x => by rw [d1 x, d2 x]; tauto⟩
#print axioms interFlat_assoc
#print axioms interFlat_self
end G3D
