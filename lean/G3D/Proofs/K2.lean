import G3D.Proofs.K2Collect
import G3D.Proofs.BodySoundSets
/-! Kernel K2: **exactness of the coplanar branch of ConvexPolygon × ConvexPolygon.**
    For two `Valid` polygons in one plane `interPolygonPolygon a b` never raises and denotes exactly
    `hull a ∩ hull b` (`interPolygonPolygon_coplanar_exact`); with the non-coplanar cases already proved,
    `interPolygonPolygon_exact` for every relative position of the planes.
    Route: (c) completeness `hull a ∩ hull b ⊆ hull (collected)` from the chord / edge-clip argument of K2Geom and
    Claim 1 of K2Collect; soundness of the collection; every collected point is a strictly exposed point of the
    intersection (`Collected.exposed`), so the collected list is in strictly convex position and K6 applies:
    the constructor succeeds, keeps all points, and the hull of its cycle is the hull of the collected list. -/
namespace G3D
open V3

/-! ### (c) completeness / exactness of the collected list -/
theorem InHull.of_hull {l l' : List V3} (h : ∀ p ∈ l, InHull l' p) {x : V3} (hx : InHull l x) : InHull l' x :=
  InHull.sub_of_conv (D := InHull l') (fun _ _ _ hu hv hb => InHull.between hu hv hb) l h x hx

/-- **(c)** every common point of the two hulls is a convex combination of collected points -/
theorem collected_complete (a b : Polygon) (ha : a.Valid) (hb : b.Valid) (hco : a.plane.eqv b.plane = true)
    (out : List V3) (hout : ∀ p, Collected a b p → p ∈ out)
    (x : V3) (hxa : InHull a.pts x) (hxb : InHull b.pts x) : InHull out x := by
  obtain ⟨w1, w2, w3, w4, c1, c2, c3, c4, hx⟩ := coplanar_hull_of_vertices a b ha hb hco x hxa hxb
  refine InHull.mono hx ?_
  intro p hp
  simp only [List.mem_cons, List.not_mem_nil, or_false] at hp
  rcases hp with rfl | rfl | rfl | rfl
  · exact hout _ (c1.collected ha hb)
  · exact hout _ (c2.collected ha hb)
  · exact hout _ (c3.collected ha hb)
  · exact hout _ (c4.collected ha hb)

/-- the hull of the collected list is exactly the intersection of the hulls -/
theorem collected_hull_iff (a b : Polygon) (ha : a.Valid) (hb : b.Valid) (hco : a.plane.eqv b.plane = true)
    (out : List V3) (hout : ∀ p, p ∈ out ↔ Collected a b p) (x : V3) :
    InHull out x ↔ (InHull a.pts x ∧ InHull b.pts x) := by
  constructor
  · intro hx
    exact ⟨InHull.of_hull (fun p hp => (((hout p).mp hp).inBoth ha hb).1) hx,
      InHull.of_hull (fun p hp => (((hout p).mp hp).inBoth ha hb).2) hx⟩
  · rintro ⟨h1, h2⟩
    exact collected_complete a b ha hb hco out (fun p hp => (hout p).mpr hp) x h1 h2

/-- **(c), handler form**: whatever list the handler's collection returns, every point of `hull a ∩ hull b` is a
    convex combination of it -/
theorem interPolygonPolygon_coplanar_complete (a b : Polygon) (ha : a.Valid) (hb : b.Valid)
    (hco : a.plane.eqv b.plane = true) (out : List V3) (h : coplanarCollect a b = .ok out) (x : V3) :
    InHull out x ↔ (InHull a.pts x ∧ InHull b.pts x) := by
  obtain ⟨out', h', _, hm⟩ := coplanarCollect_spec a b ha hb
  rw [h] at h'; cases h'
  exact collected_hull_iff a b ha hb hco out hm x

/-! ### strict exposure -/
theorem exposed_sum (d p : V3) : ∀ (ws : List Rat) (l : List V3), ws.length = l.length → (∀ w ∈ ws, 0 ≤ w) →
    (∀ q ∈ l, q ≠ p → dot d (sub q p) < 0) →
    (List.zipWith (fun w q => w * dot d (sub q p)) ws l).sum ≤ 0 ∧
    ((List.zipWith (fun w q => w * dot d (sub q p)) ws l).sum = 0 → comb ws l = smul ws.sum p) := by
  intro ws
  induction ws with
  | nil =>
    intro l hl _ _
    cases l with
    | nil => exact ⟨by simp, fun _ => by apply V3.ext' <;> simp [comb, smul, zero]⟩
    | cons q l => simp at hl
  | cons w ws ih =>
    intro l hl hw hf
    cases l with
    | nil => simp at hl
    | cons q l =>
      simp only [List.zipWith_cons_cons, List.sum_cons, comb]
      have hw0 : 0 ≤ w := hw w (by simp)
      obtain ⟨h2, h3⟩ := ih l (by simpa using hl) (fun w' h => hw w' (by simp [h])) (fun q' h => hf q' (by simp [h]))
      by_cases hqp : q = p
      · have e0 : dot d (sub q p) = 0 := by rw [hqp]; simp [dot, sub]
        rw [e0]
        refine ⟨by linarith, fun h0 => ?_⟩
        rw [h3 (by linarith), hqp]
        apply V3.ext' <;> simp only [add, smul] <;> ring
      · have hfq : dot d (sub q p) < 0 := hf q (by simp) hqp
        have h1 : w * dot d (sub q p) ≤ 0 := mul_nonpos_of_nonneg_of_nonpos hw0 (le_of_lt hfq)
        refine ⟨by linarith, fun h0 => ?_⟩
        have hz1 : w * dot d (sub q p) = 0 := by linarith
        have hz2 : (List.zipWith (fun w q => w * dot d (sub q p)) ws l).sum = 0 := by linarith
        have : w = 0 := by
          rcases mul_eq_zero.mp hz1 with h | h
          · exact h
          · exact absurd h (ne_of_lt hfq)
        rw [h3 hz2, this]
        apply V3.ext' <;> simp only [add, smul] <;> ring

/-- a functional with its strict maximum over the generators at `p` has its strict maximum over the hull at `p` -/
theorem exposed_hull {d p : V3} {l : List V3} (h : ∀ q ∈ l, q ≠ p → dot d q < dot d p) {y : V3}
    (hy : InHull l y) (hne : y ≠ p) : dot d y < dot d p := by
  obtain ⟨ws, hl, hnn, hs, hc⟩ := hy
  have h1 := dot_comb d p ws l hl
  rw [hs] at h1
  have e : sub (add (comb ws l) (smul (1 - 1) p)) p = sub y p := by
    rw [hc]; apply V3.ext' <;> simp [sub, add, smul]
  rw [e] at h1
  have hf : ∀ q ∈ l, q ≠ p → dot d (sub q p) < 0 := by
    intro q hq hqp
    have := h q hq hqp
    have e : dot d (sub q p) = dot d q - dot d p := by simp only [dot, sub]; ring
    rw [e]; linarith
  obtain ⟨h2, h3⟩ := exposed_sum d p ws l hl hnn hf
  have e2 : dot d (sub y p) = dot d y - dot d p := by simp only [dot, sub]; ring
  rcases lt_or_eq_of_le h2 with hlt | heq
  · linarith
  · exfalso
    apply hne
    rw [← hc, h3 heq, hs]
    apply V3.ext' <;> simp [smul]

theorem Polygon.edge_nonneg (P : Polygon) (hv : P.Valid) (y : V3) (hy : InHull P.pts y) (e : V3 × V3)
    (he : e ∈ closedPairs P.pts) : 0 ≤ orient P.plane.n e.1 e.2 y := by
  have := (Polygon.contains_iff P hv y).mpr hy
  unfold Polygon.contains at this
  rw [Bool.and_eq_true, List.all_eq_true] at this
  have h := this.2 e he
  simp only [decide_eq_true_eq] at h
  rwa [edgeSide_eq_orient] at h

theorem Polygon.edge_tight (P : Polygon) (hv : P.Valid) (y : V3) (hy : InHull P.pts y) (e : V3 × V3)
    (he : e ∈ closedPairs P.pts) (h0 : orient P.plane.n e.1 e.2 y = 0) : Between e.1 e.2 y := by
  obtain ⟨_, _, _, _, _, _, htp⟩ := hv
  exact on_edge_of_tight P.plane.n P.pts htp e he y hy h0

/-- **every collected point is a strictly exposed point of `hull a ∩ hull b`** -/
theorem Collected.exposed {a b : Polygon} (ha : a.Valid) (hb : b.Valid) {p : V3} (h : Collected a b p) :
    ∃ d : V3, ∀ y, InHull a.pts y → InHull b.pts y → y ≠ p → dot d y < dot d p := by
  rcases h with ⟨hp, _⟩ | ⟨hp, _⟩ | ⟨e, he, f, hf, hq⟩
  · obtain ⟨d, hd⟩ := ha.strictConvexPos p hp
    exact ⟨d, fun y hya _ hne => exposed_hull hd hya hne⟩
  · obtain ⟨d, hd⟩ := hb.strictConvexPos p hp
    exact ⟨d, fun y _ hyb hne => exposed_hull hd hyb hne⟩
  · obtain ⟨o, ho, _, hden⟩ := interSegSeg_exact _ _ (Seg.mk'_WF (hb.edge_ne f hf)) (Seg.mk'_WF (ha.edge_ne e he))
    rw [hq] at ho; cases ho
    have hpp := (hden p).mp rfl
    have hpf : Between f.1 f.2 p := hpp.1
    have hpe : Between e.1 e.2 p := hpp.2
    have za := orient_between_zero a.plane.n e.1 e.2 p hpe
    have zb := orient_between_zero b.plane.n f.1 f.2 p hpf
    refine ⟨neg (add (cross a.plane.n (sub e.2 e.1)) (cross b.plane.n (sub f.2 f.1))), fun y hya hyb hne => ?_⟩
    have ga := Polygon.edge_nonneg a ha y hya e he
    have gb := Polygon.edge_nonneg b hb y hyb f hf
    have hid : dot (neg (add (cross a.plane.n (sub e.2 e.1)) (cross b.plane.n (sub f.2 f.1)))) y -
        dot (neg (add (cross a.plane.n (sub e.2 e.1)) (cross b.plane.n (sub f.2 f.1)))) p =
        - (orient a.plane.n e.1 e.2 y - orient a.plane.n e.1 e.2 p) -
          (orient b.plane.n f.1 f.2 y - orient b.plane.n f.1 f.2 p) := by
      simp only [orient, dot, cross, sub, add, neg]; ring
    rw [za, zb] at hid
    by_contra hcon
    have h1 : orient a.plane.n e.1 e.2 y = 0 := by linarith
    have h2 : orient b.plane.n f.1 f.2 y = 0 := by linarith
    have b1 := Polygon.edge_tight a ha y hya e he h1
    have b2 := Polygon.edge_tight b hb y hyb f hf h2
    have : denOpt (some (Geo.point p)) y := (hden y).mpr ⟨b2, b1⟩
    exact hne this

/-- the collected list is in strictly convex position -/
theorem collected_strictConvex (a b : Polygon) (ha : a.Valid) (hb : b.Valid) (out : List V3)
    (hout : ∀ p ∈ out, Collected a b p) : StrictConvexPos out := by
  intro p hp
  obtain ⟨d, hd⟩ := (hout p hp).exposed ha hb
  refine ⟨d, fun q hq hne => ?_⟩
  obtain ⟨h1, h2⟩ := (hout q hq).inBoth ha hb
  exact hd q h1 h2 hne

/-! ### the hull of short lists -/
theorem InHull_nil (x : V3) : ¬ InHull [] x := by
  rintro ⟨ws, hl, _, hs, _⟩
  cases ws with
  | nil => simp at hs
  | cons w ws => simp at hl

theorem InHull_single (p x : V3) : InHull [p] x ↔ x = p := by
  constructor
  · intro h
    have : Between p p x := by
      obtain ⟨ws, hl, _, hs, hc⟩ := h
      match ws, hl with
      | [w], _ =>
        simp only [List.sum_cons, List.sum_nil, add_zero] at hs
        refine ⟨0, le_refl _, by norm_num, ?_⟩
        rw [← hc, hs]; apply V3.ext' <;> simp [comb, add, smul, sub, zero]
    exact (Between_self p x).mp this
  · rintro rfl; exact vertex_in_hull _ _ (by simp)

theorem InHull_pair (p q x : V3) : InHull [p, q] x ↔ Between p q x := by
  constructor
  · rintro ⟨ws, hl, hnn, hs, hc⟩
    match ws, hl with
    | [w1, w2], _ =>
      simp only [List.sum_cons, List.sum_nil, add_zero] at hs
      have h2 : 0 ≤ w2 := hnn w2 (by simp)
      have h1 : 0 ≤ w1 := hnn w1 (by simp)
      refine ⟨w2, h2, by linarith, ?_⟩
      have e : w1 = 1 - w2 := by linarith
      rw [← hc, e]; apply V3.ext' <;> simp only [comb, add, smul, sub, zero] <;> ring
  · intro h; exact between_in_hull (by simp) (by simp) h

/-! ### three mutually perpendicular-to-`n` vectors are linearly dependent -/
theorem trip_zero_of_perp {n u v w : V3} (hn : n ≠ zero) (hu : dot n u = 0) (hv : dot n v = 0) (hw : dot n w = 0) :
    dot (cross u v) w = 0 := by
  have hN := normSq_pos hn
  have hid : dot (cross u v) w * normSq n =
      dot n u * dot n (cross v w) + dot n v * dot n (cross w u) + dot n w * dot n (cross u v) := by
    simp only [normSq, dot, cross]; ring
  rw [hu, hv, hw] at hid
  rcases mul_eq_zero.mp (by rw [hid]; ring : dot (cross u v) w * normSq n = 0) with h | h
  · exact h
  · exact absurd h (ne_of_gt hN)

/-! ### the result built from the collected list -/
/-- **(d)** the handler's construction from a collected list that is duplicate-free and whose hull is the
    intersection, all of whose points are strictly exposed there -/
theorem coplanarFinish_exact (a b : Polygon) (ha : a.Valid) (hb : b.Valid) (hco : a.plane.eqv b.plane = true)
    (out : List V3) (hnd : out.Nodup) (hout : ∀ p, p ∈ out ↔ Collected a b p) :
    ExactW (coplanarFinish out) (InHull a.pts) (InHull b.pts) := by
  have hhull := collected_hull_iff a b ha hb hco out hout
  match out, hnd, hout, hhull with
  | [], _, _, hhull =>
    refine ⟨none, rfl, trivial, fun x => ?_⟩
    rw [← hhull x]
    simp only [denOptB, false_iff]
    exact InHull_nil x
  | [p], _, _, hhull =>
    refine ⟨some (.flat (.point p)), rfl, trivial, fun x => ?_⟩
    rw [← hhull x, InHull_single]
    rfl
  | [p, q], hnd, _, hhull =>
    have hpq : p ≠ q := by
      intro h; rw [List.nodup_cons] at hnd; exact hnd.1 (by simp [h])
    refine ⟨some (.flat (.seg (Seg.mk' p q))), ?_, Seg.mk'_WF hpq, fun x => ?_⟩
    · simp only [coplanarFinish, if_neg hpq, liftC]; rfl
    · rw [← hhull x, InHull_pair]
      rfl
  | p0 :: p1 :: p2 :: rest, hnd, hout, hhull =>
    have hsc : StrictConvexPos (p0 :: p1 :: p2 :: rest) :=
      collected_strictConvex a b ha hb _ (fun p hp => (hout p).mp hp)
    have hded : dedupV (p0 :: p1 :: p2 :: rest) = p0 :: p1 :: p2 :: rest := dedupV_of_nodup _ hnd
    have h01 : p0 ≠ p1 := by
      intro e; rw [List.nodup_cons] at hnd; exact hnd.1 (by rw [e]; simp)
    have h02 : p0 ≠ p2 := by
      intro e; rw [List.nodup_cons] at hnd; exact hnd.1 (by rw [e]; simp)
    have h12 : p1 ≠ p2 := by
      intro e; rw [List.nodup_cons, List.nodup_cons] at hnd; exact hnd.2.1 (by rw [e]; simp)
    have m0 : p0 ∈ p0 :: p1 :: p2 :: rest := by simp
    have m1 : p1 ∈ p0 :: p1 :: p2 :: rest := by simp
    have m2 : p2 ∈ p0 :: p1 :: p2 :: rest := by simp
    have hn0 : cross (sub p1 p0) (sub p2 p0) ≠ zero := by
      obtain ⟨d0, h0⟩ := hsc p0 m0
      obtain ⟨d1, h1⟩ := hsc p1 m1
      obtain ⟨d2, h2⟩ := hsc p2 m2
      exact exposed_not_collinear p0 p1 p2 ⟨d0, h0 p1 m1 h01.symm, h0 p2 m2 h02.symm⟩
        ⟨d1, h1 p0 m0 h01, h1 p2 m2 h12.symm⟩ ⟨d2, h2 p0 m0 h02, h2 p1 m1 h12⟩
    -- not all on one line
    have hd10 : sub p1 p0 ≠ zero := fun h => h01 (sub_eq_zero_iff.mp h).symm
    have hpil : pointsInALine (p0 :: p1 :: p2 :: rest) = .ok false := by
      have hc2 : (⟨p0, sub p1 p0⟩ : Line).contains p2 = false := by
        rw [Bool.eq_false_iff]
        intro hc
        rw [Line.contains_iff _ hd10] at hc
        obtain ⟨t, ht⟩ := hc
        apply hn0
        have hx := congrArg V3.x ht; have hy := congrArg V3.y ht; have hz := congrArg V3.z ht
        simp only [add, smul, sub] at hx hy hz
        apply V3.ext' <;> simp only [cross, sub, zero, hx, hy, hz] <;> ring
      simp only [pointsInALine, reduceCtorEq, if_false, if_neg (Ne.symm h01), List.all_cons, hc2, Bool.false_and]
    -- in the plane of the first three
    have hnW := Polygon.plane_WF a ha
    have hinp : ∀ p ∈ p0 :: p1 :: p2 :: rest, G3D.inPlane a.plane.n a.plane.p p = true :=
      fun p hp => hull_inPlane a ha p (((hout p).mp hp).inBoth ha hb).1
    have hpl : ∀ p ∈ dedupV (p0 :: p1 :: p2 :: rest),
        dot (cross (sub p1 p0) (sub p2 p0)) (sub p p0) = 0 := by
      intro p hp
      rw [hded] at hp
      exact trip_zero_of_perp hnW (inPlane_diff (hinp p0 m0) (hinp p1 m1)) (inPlane_diff (hinp p0 m0) (hinp p2 m2))
        (inPlane_diff (hinp p0 m0) (hinp p hp))
    obtain ⟨P, hP, hPv, hperm⟩ := Polygon.mk?_ok_of_strictConvex (p0 :: p1 :: p2 :: rest) false p0 p1 p2 rest hded
      (by rw [hded]; exact hsc) hpl
    rw [hded] at hperm
    refine ⟨some (.polygon P), ?_, trivial, fun x => ?_⟩
    · simp only [coplanarFinish, hpil, hP, liftC]; rfl
    · rw [← hhull x]
      simp only [denOptB, ObjDen]
      exact ⟨fun h => InHull.mono h (fun p hp => hperm.subset hp),
        fun h => InHull.mono h (fun p hp => hperm.symm.subset hp)⟩

/-- **K2.** Two `Valid` convex polygons in one plane: the handler never raises, and its result — `None`, a Point,
    a well-formed Segment or a ConvexPolygon — denotes exactly `hull a ∩ hull b`. -/
theorem interPolygonPolygon_coplanar_exact (a b : Polygon) (ha : a.Valid) (hb : b.Valid)
    (hco : a.plane.eqv b.plane = true) :
    ExactW (interPolygonPolygon a b) (InHull a.pts) (InHull b.pts) := by
  rw [interPolygonPolygon_coplanar_eq a b hco]
  obtain ⟨out, hout, hnd, hm⟩ := coplanarCollect_spec a b ha hb
  rw [hout]
  exact coplanarFinish_exact a b ha hb hco out hnd hm

/-- moreover a returned polygon is `Valid`, and its vertex cycle is a permutation of the collected list -/
theorem interPolygonPolygon_coplanar_polygon_valid (a b : Polygon) (ha : a.Valid) (hb : b.Valid)
    (hco : a.plane.eqv b.plane = true) (P : Polygon) (h : interPolygonPolygon a b = .ok (some (.polygon P))) :
    P.Valid ∧ ∃ out, coplanarCollect a b = .ok out ∧ List.Perm P.pts out := by
  rw [interPolygonPolygon_coplanar_eq a b hco] at h
  obtain ⟨out, hout, hnd, hm⟩ := coplanarCollect_spec a b ha hb
  rw [hout] at h
  have h' : coplanarFinish out = .ok (some (.polygon P)) := h
  have hsc : StrictConvexPos out := collected_strictConvex a b ha hb _ (fun p hp => (hm p).mp hp)
  have hded : dedupV out = out := dedupV_of_nodup _ hnd
  have hmk : Polygon.mk? out false = .ok P := by
    match out, h' with
    | [], h' => cases h'
    | [p], h' => cases h'
    | [p, q], h' =>
      simp only [coplanarFinish] at h'
      by_cases hpq : p = q
      · rw [if_pos hpq] at h'; cases h'
      · rw [if_neg hpq] at h'; cases h'
    | p0 :: p1 :: p2 :: rest, h' =>
      simp only [coplanarFinish] at h'
      cases hpl : pointsInALine (p0 :: p1 :: p2 :: rest) with
      | error e => rw [hpl] at h'; cases h'
      | ok c =>
        rw [hpl] at h'
        cases c with
        | true => cases h'
        | false =>
          cases hmk : Polygon.mk? (p0 :: p1 :: p2 :: rest) false with
          | error e => rw [hmk] at h'; cases h'
          | ok P' => rw [hmk] at h'; cases h'; rfl
  obtain ⟨hv, hp, _⟩ := Polygon.mk?_valid_of_strictConvex out false P hmk (by rw [hded]; exact hsc)
  rw [hded] at hp
  exact ⟨hv, out, hout, hp⟩

/-- **ConvexPolygon × ConvexPolygon is exact**, every relative position of the carrier planes -/
theorem interPolygonPolygon_exact (a b : Polygon) (ha : a.Valid) (hb : b.Valid) :
    ExactW (interPolygonPolygon a b) (InHull a.pts) (InHull b.pts) := by
  cases hco : a.plane.eqv b.plane with
  | true => exact interPolygonPolygon_coplanar_exact a b ha hb hco
  | false => exact interPolygonPolygon_noncoplanar_exactW a b ha hb hco

#print axioms interPolygonPolygon_coplanar_complete
#print axioms collected_strictConvex
#print axioms interPolygonPolygon_coplanar_exact
#print axioms interPolygonPolygon_coplanar_polygon_valid
#print axioms interPolygonPolygon_exact
end G3D
