import G3D.Proofs.K4l
import G3D.Proofs.K4g

/-! # Kernel K4: the returned polyhedron as an operand — concrete instances

    The polyhedron returned for the two overlapping unit cubes `cube0`, `cubeH` satisfies `ExactHyp` and is `Valid`
    (by the theorem `interPolyhedronPolyhedron_result_exactHyp`, and, independently, by kernel evaluation of the Bool
    judges on the returned body); it can therefore be intersected again: with a third cube the handler returns
    (kernel evaluation) the cube `[3/4, 1]³`, which by the theorems is exactly the triple intersection. -/
namespace G3D
open V3

/-- observer: the Bool judges of `ExactHyp` and `Valid` on a returned polyhedron -/
def K4.polyJudges (r : ResB) : Bool :=
  match r with
  | .ok (some (.polyhedron R)) => R.exactHypB && R.validB
  | _ => false

/-- by the theorem -/
theorem K4.cube0_cubeH_result :
    ∃ R, interPolyhedronPolyhedron K4.cube0 K4.cubeH = .ok (some (.polyhedron R)) ∧ R.Valid ∧ R.ExactHyp ∧
      (∀ x, R.contains x = true ↔ (InHull K4.cube0.verts x ∧ InHull K4.cubeH.verts x)) := by
  obtain ⟨R, hR, _⟩ := K4.of_polyVerts _ _ K4.cube0_cubeH_eval
  obtain ⟨h1, h2, h3, _⟩ :=
    interPolyhedronPolyhedron_result_exactHyp K4.cube0 K4.cubeH K4.cube0_exactHyp K4.cubeH_exactHyp R hR
  exact ⟨R, hR, h1, h2, h3⟩

/-- by evaluation: the Bool judges accept the returned body -/
theorem K4.cube0_cubeH_result_judged :
    K4.polyJudges (interPolyhedronPolyhedron K4.cube0 K4.cubeH) = true := by decide +kernel

def K4.cubeQ : Polyhedron := K4.cubeAt (3/4) (3/4) (3/4)
theorem K4.cubeQ_exactHyp : K4.cubeQ.ExactHyp := K4.cubeQ.exactHyp_of_B (by decide +kernel)

/-- `intersection(intersection(cube0, cubeH), cubeQ)` -/
def K4.chain : ResB :=
  match interPolyhedronPolyhedron K4.cube0 K4.cubeH with
  | .ok (some (.polyhedron R)) => interPolyhedronPolyhedron R K4.cubeQ
  | _ => .error .bug

theorem K4.chain_eval :
    K4.polyVerts K4.chain =
      some [⟨3/4,3/4,1⟩, ⟨3/4,1,1⟩, ⟨1,1,1⟩, ⟨1,3/4,1⟩, ⟨3/4,1,3/4⟩, ⟨1,1,3/4⟩, ⟨1,3/4,3/4⟩, ⟨3/4,3/4,3/4⟩] := by
  decide +kernel

/-- the chained result is exactly the intersection of the three cubes, and again an admissible operand -/
theorem K4.chain_exact :
    ∃ R2, K4.chain = .ok (some (.polyhedron R2)) ∧ R2.ExactHyp ∧
      ∀ x, InHull R2.verts x ↔
        ((InHull K4.cube0.verts x ∧ InHull K4.cubeH.verts x) ∧ InHull K4.cubeQ.verts x) := by
  obtain ⟨R, hR, _, hRE, _⟩ := K4.cube0_cubeH_result
  have hRhull := (interPolyhedronPolyhedron_result_exactHyp K4.cube0 K4.cubeH K4.cube0_exactHyp K4.cubeH_exactHyp
    R hR).2.2.2
  obtain ⟨R2, hR2, _⟩ := K4.of_polyVerts _ _ K4.chain_eval
  have hch : K4.chain = interPolyhedronPolyhedron R K4.cubeQ := by unfold K4.chain; rw [hR]
  rw [hch] at hR2
  obtain ⟨_, h2, _, h4⟩ := interPolyhedronPolyhedron_result_exactHyp R K4.cubeQ hRE K4.cubeQ_exactHyp R2 hR2
  refine ⟨R2, by rw [hch]; exact hR2, h2, fun x => ?_⟩
  rw [h4 x, hRhull x]
#print axioms K4.cube0_cubeH_result
#print axioms K4.chain_exact

end G3D
