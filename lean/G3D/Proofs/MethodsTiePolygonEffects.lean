import G3D.Extracted.Mpolygon
/-! # Tie, group `mpolygon`, role EFFECTS (C20): provenance pins, dropped in-place effects; by `rfl`. -/
namespace G3D.Tie
open V3 PyRt Extracted

theorem m_ConvexPolygon___init___effects_eq : m_ConvexPolygon___init___effects =
    ["store: self.points = new[new[copy]]", "store: self.plane = new",
     "store: self.plane = new Plane(ref:self.points[0], ref:self.points[1], ref:self.points[2])",
     "store: self.center_point = new", "call self._check_and_sort_points() (assigns attributes)"] := rfl

theorem m_ConvexPolygon__check_and_sort_points_effects_eq :
    m_ConvexPolygon__check_and_sort_points_effects = ["store: self.points = new[new[elem:self.points]]"] := rfl

theorem m_ConvexPolygon_move_effects_eq : m_ConvexPolygon_move_effects =
    ["dropped: in-place effect of point.move(..) on the elements of self.points (dead: self.center_point, self.plane, self.points re-assigned afterwards)",
     "store: self.points = new[new]",
     "store: self.plane = new Plane(ref:self.points[0], ref:self.points[1], ref:self.points[2])",
     "store: self.center_point = new"] := rfl

theorem mpolygon_readonly_effects :
    m_ConvexPolygon__get_center_point_effects = [] ∧ m_ConvexPolygon_segments_effects = [] ∧
    m_ConvexPolygon___contains___effects = [] ∧ m_ConvexPolygon_in__effects = [] ∧ m_ConvexPolygon___eq___effects = [] ∧
    m_ConvexPolygon___neg___effects = [] ∧ m_ConvexPolygon_length_effects = [] := ⟨rfl, rfl, rfl, rfl, rfl, rfl, rfl⟩

end G3D.Tie
