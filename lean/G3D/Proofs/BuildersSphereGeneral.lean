import Mathlib.Tactic.Ring
import Mathlib.Tactic.Linarith
import G3D.Proofs.Builders
import G3D.Proofs.BuildersSphere

/-! C14, Sphere skeleton for EVERY n1 ≥ 3, n2 ≥ 2 (removes the bounds n1 ≤ 12, n2 ≤ 5 of the kernel table
    `sphere_skeleton`): V = n1(2n2 − 1) + 2, E = n1(4n2 − 1), F = 2·n1·n2, Euler, simplicity, every undirected edge on
    exactly two faces, and after the constructor's orientation repair every directed edge once and its reverse once.

    Method: the ids of `sphereFaces` are `ring·n1 + position`; the face list is the image, under this injective
    coding, of a face list over coordinates `(ring, position)` (n2 = m + 2: upper rings 0..m+1, lower rings
    m+2..2m+2, poles (2m+3, 0), (2m+3, 1)); over coordinates all the comparisons are linear (`omega`). -/
namespace G3D
namespace Builders
open G3D.BuildersReal

/-! ### coordinates -/
abbrev SC := Nat × Nat

/-- id of the coordinate `(ring, position)` -/
def sEnc (n1 : Nat) (c : SC) : Nat := c.1 * n1 + c.2

/-- ring coordinate of the lower ring `j` (`j = 0`: the equator, shared with the upper half) -/
def sLr (m j : Nat) : Nat := if j = 0 then 0 else m + 2 + (j - 1)

@[simp] theorem sLr_zero (m : Nat) : sLr m 0 = 0 := rfl
@[simp] theorem sLr_succ (m j : Nat) : sLr m (j + 1) = m + 2 + j := by simp [sLr]

theorem sLr_spec (m j : Nat) : (j = 0 ∧ sLr m j = 0) ∨ (0 < j ∧ sLr m j = m + 1 + j) := by
  unfold sLr
  by_cases h : j = 0
  · exact Or.inl ⟨h, by simp [h]⟩
  · exact Or.inr ⟨by omega, by simp [h]; omega⟩

/-- the two faces of band `j`, sector `i`, after the orientation repair -/
def sBandC (n1 m i j : Nat) : List (List SC) :=
  [[(j, i), (j, (i + 1) % n1), (j + 1, (i + 1) % n1), (j + 1, i)],
    flipCycle [(sLr m j, i), (sLr m j, (i + 1) % n1), (m + 2 + j, (i + 1) % n1), (m + 2 + j, i)]]

/-- the two cap triangles of sector `i`, after the orientation repair -/
def sCapC (n1 m i : Nat) : List (List SC) :=
  [flipCycle [(2 * m + 3, 0), (m + 1, (i + 1) % n1), (m + 1, i)],
    [(2 * m + 3, 1), (2 * m + 2, (i + 1) % n1), (2 * m + 2, i)]]

def sBlockC (n1 m i : Nat) : List (List SC) := (List.range (m + 1)).flatMap (sBandC n1 m i) ++ sCapC n1 m i

def sOrientedC (n1 m : Nat) : List (List SC) := (List.range n1).flatMap (sBlockC n1 m)

theorem range_succ_eq_cons (m : Nat) : List.range (m + 1) = 0 :: List.range' 1 m := by
  rw [List.range_eq_range', List.range'_succ]

/-- the repaired Sphere face list is the coded coordinate face list (n2 = m + 2) -/
theorem sphereOriented_coords (n1 m : Nat) :
    sphereOriented n1 (m + 2) = (sOrientedC n1 m).map (List.map (sEnc n1)) := by
  rw [BA.sphereOriented_eq, sOrientedC, List.map_flatMap]
  apply List.flatMap_congr
  intro i _
  unfold BA.sphereBlockIds sBlockC
  have e : m + 2 - 2 = m := by omega
  rw [e, range_succ_eq_cons, List.flatMap_cons, List.map_append, List.map_append, List.map_flatMap]
  congr 1
  · congr 1
    · simp only [sBandC, sEnc, sMc, sTc, sBc, flipCycle, List.map_cons, List.map_nil, sLr_zero, List.reverse_cons,
        List.reverse_nil, List.nil_append, List.cons_append]
      simp only [List.cons.injEq, and_true]
      and_intros <;> first | trivial | ring
    · apply List.flatMap_congr
      intro j hj
      obtain ⟨hj1, _⟩ := List.mem_range'_1.mp hj
      obtain ⟨j', rfl⟩ : ∃ j', j = j' + 1 := ⟨j - 1, by omega⟩
      simp only [sBandC, sEnc, sTc, sBc, flipCycle, List.map_cons, List.map_nil, sLr_succ, List.reverse_cons,
        List.reverse_nil, List.nil_append, List.cons_append, Nat.add_sub_cancel]
      simp only [List.cons.injEq, and_true]
      and_intros <;> first | trivial | ring
  · simp only [sCapC, sEnc, sTop, sBot, sTc, sBc, flipCycle, List.map_cons, List.map_nil, List.reverse_cons,
      List.reverse_nil, List.nil_append, List.cons_append]
    have e1 : 2 * (m + 2) - 1 = 2 * m + 3 := by omega
    rw [e1]
    simp only [List.cons.injEq, and_true]
    and_intros <;> first | trivial | ring

/-! ### the directed edges over coordinates -/
abbrev SE := SC × SC

/-- the 8 directed edges of band `j`, sector `i`: the upper quadrilateral `(j,s) → (j,e) → (j+1,e) → (j+1,s)` and the
    flipped lower one `(l,s) → (L,s) → (L,e) → (l,e)` -/
def sBandE (n1 m i j : Nat) : List SE :=
  [((j, i), (j, (i + 1) % n1)), ((j, (i + 1) % n1), (j + 1, (i + 1) % n1)), ((j + 1, (i + 1) % n1), (j + 1, i)),
    ((j + 1, i), (j, i)),
    ((sLr m j, i), (m + 2 + j, i)), ((m + 2 + j, i), (m + 2 + j, (i + 1) % n1)),
    ((m + 2 + j, (i + 1) % n1), (sLr m j, (i + 1) % n1)), ((sLr m j, (i + 1) % n1), (sLr m j, i))]

/-- the 6 directed edges of the two cap triangles of sector `i` -/
def sCapE (n1 m i : Nat) : List SE :=
  [((2 * m + 3, 0), (m + 1, i)), ((m + 1, i), (m + 1, (i + 1) % n1)), ((m + 1, (i + 1) % n1), (2 * m + 3, 0)),
    ((2 * m + 3, 1), (2 * m + 2, (i + 1) % n1)), ((2 * m + 2, (i + 1) % n1), (2 * m + 2, i)),
    ((2 * m + 2, i), (2 * m + 3, 1))]

def sEdgesC (n1 m : Nat) : List SE :=
  (List.range n1).flatMap (fun i => (List.range (m + 1)).flatMap (sBandE n1 m i) ++ sCapE n1 m i)

theorem sEdgesC_eq (n1 m : Nat) : (sOrientedC n1 m).flatMap cyc = sEdgesC n1 m := by
  unfold sOrientedC sEdgesC
  rw [List.flatMap_assoc]
  apply List.flatMap_congr
  intro i _
  unfold sBlockC
  rw [List.flatMap_append, List.flatMap_assoc]
  congr 1

theorem mem_sEdgesC (n1 m : Nat) (x : SE) : x ∈ sEdgesC n1 m ↔
    ∃ i, i < n1 ∧ ((∃ j, j < m + 1 ∧ x ∈ sBandE n1 m i j) ∨ x ∈ sCapE n1 m i) := by
  simp only [sEdgesC, List.mem_flatMap, List.mem_append, List.mem_range]

/-- an edge determines its sector and band -/
theorem sBandE_inj (n1 m i i' j j' : Nat) (h3 : 3 ≤ n1) (hi : i < n1) (hi' : i' < n1) (hj : j < m + 1)
    (hj' : j' < m + 1) (x : SE) (h1 : x ∈ sBandE n1 m i j) (h2 : x ∈ sBandE n1 m i' j') : i = i' ∧ j = j' := by
  have hE := sm_cases hi
  have hE' := sm_cases hi'
  have hL := sLr_spec m j
  have hL' := sLr_spec m j'
  unfold sBandE at h1 h2
  generalize (i + 1) % n1 = e at *
  generalize (i' + 1) % n1 = e' at *
  generalize sLr m j = l at *
  generalize sLr m j' = l' at *
  simp only [List.mem_cons, List.not_mem_nil, or_false] at h1 h2
  rcases h1 with rfl | rfl | rfl | rfl | rfl | rfl | rfl | rfl <;>
    rcases h2 with h2 | h2 | h2 | h2 | h2 | h2 | h2 | h2 <;>
    simp only [Prod.mk.injEq] at h2 <;> omega

theorem sCapE_inj (n1 m i i' : Nat) (_h3 : 3 ≤ n1) (hi : i < n1) (hi' : i' < n1) (x : SE)
    (h1 : x ∈ sCapE n1 m i) (h2 : x ∈ sCapE n1 m i') : i = i' := by
  have hE := sm_cases hi
  have hE' := sm_cases hi'
  unfold sCapE at h1 h2
  generalize (i + 1) % n1 = e at *
  generalize (i' + 1) % n1 = e' at *
  simp only [List.mem_cons, List.not_mem_nil, or_false] at h1 h2
  rcases h1 with rfl | rfl | rfl | rfl | rfl | rfl <;>
    rcases h2 with h2 | h2 | h2 | h2 | h2 | h2 <;>
    simp only [Prod.mk.injEq] at h2 <;> omega

theorem sBand_cap_disj (n1 m i i' j : Nat) (h3 : 3 ≤ n1) (hi : i < n1) (hi' : i' < n1) (hj : j < m + 1) (x : SE)
    (h1 : x ∈ sBandE n1 m i j) (h2 : x ∈ sCapE n1 m i') : False := by
  have hE := sm_cases hi
  have hE' := sm_cases hi'
  have hL := sLr_spec m j
  unfold sBandE at h1
  unfold sCapE at h2
  generalize (i + 1) % n1 = e at *
  generalize (i' + 1) % n1 = e' at *
  generalize sLr m j = l at *
  simp only [List.mem_cons, List.not_mem_nil, or_false] at h1 h2
  rcases h1 with rfl | rfl | rfl | rfl | rfl | rfl | rfl | rfl <;>
    rcases h2 with h2 | h2 | h2 | h2 | h2 | h2 <;>
    simp only [Prod.mk.injEq] at h2 <;> omega

theorem sBandE_nodup (n1 m i j : Nat) (h3 : 3 ≤ n1) (hi : i < n1) (hj : j < m + 1) : (sBandE n1 m i j).Nodup := by
  have hE := sm_cases hi
  have hL := sLr_spec m j
  unfold sBandE
  generalize (i + 1) % n1 = e at *
  generalize sLr m j = l at *
  simp only [List.nodup_cons, List.mem_cons, List.not_mem_nil, or_false, Prod.mk.injEq, List.nodup_nil, and_true,
    not_or, true_and, not_false_eq_true]
  omega

theorem sCapE_nodup (n1 m i : Nat) (_h3 : 3 ≤ n1) (hi : i < n1) : (sCapE n1 m i).Nodup := by
  have hE := sm_cases hi
  unfold sCapE
  generalize (i + 1) % n1 = e at *
  simp only [List.nodup_cons, List.mem_cons, List.not_mem_nil, or_false, Prod.mk.injEq, List.nodup_nil, and_true,
    not_or, true_and, not_false_eq_true]
  omega

/-- every directed edge of the repaired Sphere occurs once (coordinates) -/
theorem sEdgesC_nodup (n1 m : Nat) (h3 : 3 ≤ n1) : (sEdgesC n1 m).Nodup := by
  unfold sEdgesC
  rw [List.nodup_flatMap]
  constructor
  · intro i hi
    have hi := List.mem_range.mp hi
    rw [List.nodup_append]
    refine ⟨?_, sCapE_nodup n1 m i h3 hi, ?_⟩
    · rw [List.nodup_flatMap]
      constructor
      · intro j hj
        exact sBandE_nodup n1 m i j h3 hi (List.mem_range.mp hj)
      · apply List.Pairwise.imp_of_mem _ (List.pairwise_lt_range (n := m + 1))
        intro j j' hj hj' hjj
        simp only [Function.onFun, List.Disjoint]
        intro x h1 h2
        have := (sBandE_inj n1 m i i j j' h3 hi hi (List.mem_range.mp hj) (List.mem_range.mp hj') x h1 h2).2
        omega
    · intro a ha b hb hab
      subst hab
      obtain ⟨j, hj, ha⟩ := List.mem_flatMap.mp ha
      exact sBand_cap_disj n1 m i i j h3 hi hi (List.mem_range.mp hj) a ha hb
  · apply List.Pairwise.imp_of_mem _ (List.pairwise_lt_range (n := n1))
    intro i i' hi hi' hii
    have hi := List.mem_range.mp hi
    have hi' := List.mem_range.mp hi'
    simp only [Function.onFun, List.Disjoint]
    intro x h1 h2
    rcases List.mem_append.mp h1 with h1 | h1 <;> rcases List.mem_append.mp h2 with h2 | h2
    · obtain ⟨j, hj, h1⟩ := List.mem_flatMap.mp h1
      obtain ⟨j', hj', h2⟩ := List.mem_flatMap.mp h2
      have := (sBandE_inj n1 m i i' j j' h3 hi hi' (List.mem_range.mp hj) (List.mem_range.mp hj') x h1 h2).1
      omega
    · obtain ⟨j, hj, h1⟩ := List.mem_flatMap.mp h1
      exact sBand_cap_disj n1 m i i' j h3 hi hi' (List.mem_range.mp hj) x h1 h2
    · obtain ⟨j', hj', h2⟩ := List.mem_flatMap.mp h2
      exact sBand_cap_disj n1 m i' i j' h3 hi' hi (List.mem_range.mp hj') x h2 h1
    · have := sCapE_inj n1 m i i' h3 hi hi' x h1 h2
      omega

/-- positions are below n1 -/
theorem sEdgesC_valid (n1 m : Nat) (h3 : 2 ≤ n1) (x : SE) (h : x ∈ sEdgesC n1 m) : x.1.2 < n1 ∧ x.2.2 < n1 := by
  obtain ⟨i, hi, ⟨j, _, h⟩ | h⟩ := (mem_sEdgesC n1 m x).mp h
  · have he : (i + 1) % n1 < n1 := Nat.mod_lt _ (by omega)
    simp only [sBandE, List.mem_cons, List.not_mem_nil, or_false] at h
    rcases h with rfl | rfl | rfl | rfl | rfl | rfl | rfl | rfl <;> exact ⟨by simp only []; omega, by simp only []; omega⟩
  · have he : (i + 1) % n1 < n1 := Nat.mod_lt _ (by omega)
    simp only [sCapE, List.mem_cons, List.not_mem_nil, or_false] at h
    rcases h with rfl | rfl | rfl | rfl | rfl | rfl <;> exact ⟨by simp only []; omega, by simp only []; omega⟩

/-- no loops -/
theorem sEdgesC_noloop (n1 m : Nat) (h3 : 3 ≤ n1) (x : SE) (h : x ∈ sEdgesC n1 m) : x.1 ≠ x.2 := by
  obtain ⟨i, hi, ⟨j, _, h⟩ | h⟩ := (mem_sEdgesC n1 m x).mp h
  · have hE := sm_cases hi
    have hL := sLr_spec m j
    unfold sBandE at h
    generalize (i + 1) % n1 = e at *
    generalize sLr m j = l at *
    simp only [List.mem_cons, List.not_mem_nil, or_false] at h
    rcases h with rfl | rfl | rfl | rfl | rfl | rfl | rfl | rfl <;> simp only [ne_eq, Prod.mk.injEq] <;> omega
  · have hE := sm_cases hi
    unfold sCapE at h
    generalize (i + 1) % n1 = e at *
    simp only [List.mem_cons, List.not_mem_nil, or_false] at h
    rcases h with rfl | rfl | rfl | rfl | rfl | rfl <;> simp only [ne_eq, Prod.mk.injEq] <;> omega

theorem mem_sEdgesC_band (n1 m i j : Nat) (x : SE) (hi : i < n1) (hj : j < m + 1) (h : x ∈ sBandE n1 m i j) :
    x ∈ sEdgesC n1 m := (mem_sEdgesC n1 m x).mpr ⟨i, hi, Or.inl ⟨j, hj, h⟩⟩

theorem mem_sEdgesC_cap (n1 m i : Nat) (x : SE) (hi : i < n1) (h : x ∈ sCapE n1 m i) :
    x ∈ sEdgesC n1 m := (mem_sEdgesC n1 m x).mpr ⟨i, hi, Or.inr h⟩

/-- the reverse of every directed edge occurs too (coordinates) -/
theorem sEdgesC_rev (n1 m : Nat) (h3 : 3 ≤ n1) (x : SE) (h : x ∈ sEdgesC n1 m) : (x.2, x.1) ∈ sEdgesC n1 m := by
  obtain ⟨i, hi, ⟨j, hj, h⟩ | h⟩ := (mem_sEdgesC n1 m x).mp h
  · have he : (i + 1) % n1 < n1 := Nat.mod_lt _ (by omega)
    obtain ⟨hp, hs⟩ := pred_mod hi
    simp only [sBandE, List.mem_cons, List.not_mem_nil, or_false] at h
    rcases h with rfl | rfl | rfl | rfl | rfl | rfl | rfl | rfl
    · -- forward on the upper ring j
      rcases j with _ | j0
      · exact mem_sEdgesC_band n1 m i 0 _ hi (by omega) (by simp [sBandE])
      · exact mem_sEdgesC_band n1 m i j0 _ hi (by omega) (by simp [sBandE])
    · exact mem_sEdgesC_band n1 m ((i + 1) % n1) j _ he hj (by simp [sBandE])
    · rcases Nat.lt_or_ge (j + 1) (m + 1) with h1 | h1
      · exact mem_sEdgesC_band n1 m i (j + 1) _ hi h1 (by simp [sBandE])
      · have : j = m := by omega
        subst this
        exact mem_sEdgesC_cap n1 j i _ hi (by simp [sCapE])
    · exact mem_sEdgesC_band n1 m ((i + n1 - 1) % n1) j _ hp hj (by simp [sBandE, hs])
    · exact mem_sEdgesC_band n1 m ((i + n1 - 1) % n1) j _ hp hj (by simp [sBandE, hs])
    · rcases Nat.lt_or_ge (j + 1) (m + 1) with h1 | h1
      · exact mem_sEdgesC_band n1 m i (j + 1) _ hi h1 (by simp [sBandE])
      · have : j = m := by omega
        subst this
        refine mem_sEdgesC_cap n1 j i _ hi ?_
        have e2 : j + 2 + j = 2 * j + 2 := by omega
        simp [sCapE, e2]
    · exact mem_sEdgesC_band n1 m ((i + 1) % n1) j _ he hj (by simp [sBandE])
    · rcases j with _ | j0
      · exact mem_sEdgesC_band n1 m i 0 _ hi (by omega) (by simp [sBandE])
      · exact mem_sEdgesC_band n1 m i j0 _ hi (by omega) (by simp [sBandE])
  · have he : (i + 1) % n1 < n1 := Nat.mod_lt _ (by omega)
    obtain ⟨hp, hs⟩ := pred_mod hi
    simp only [sCapE, List.mem_cons, List.not_mem_nil, or_false] at h
    rcases h with rfl | rfl | rfl | rfl | rfl | rfl
    · exact mem_sEdgesC_cap n1 m ((i + n1 - 1) % n1) _ hp (by simp [sCapE, hs])
    · exact mem_sEdgesC_band n1 m i m _ hi (by omega) (by simp [sBandE])
    · exact mem_sEdgesC_cap n1 m ((i + 1) % n1) _ he (by simp [sCapE])
    · exact mem_sEdgesC_cap n1 m ((i + 1) % n1) _ he (by simp [sCapE])
    · refine mem_sEdgesC_band n1 m i m _ hi (by omega) ?_
      have e2 : m + 2 + m = 2 * m + 2 := by omega
      simp [sBandE, e2]
    · exact mem_sEdgesC_cap n1 m ((i + n1 - 1) % n1) _ hp (by simp [sCapE, hs])

/-! ### transfer to the ids -/
theorem dirEdges_mapG {α : Type} (g : α → Nat) (fs : List (List α)) :
    dirEdges (fs.map (List.map g)) = (fs.flatMap cyc).map (Prod.map g g) := by
  unfold dirEdges
  induction fs with
  | nil => rfl
  | cons f fs ih => simp only [List.map_cons, List.flatMap_cons, List.map_append, cyc_map, ih]

theorem sphere_dirEdges (n1 m : Nat) :
    dirEdges (sphereOriented n1 (m + 2)) = (sEdgesC n1 m).map (Prod.map (sEnc n1) (sEnc n1)) := by
  rw [sphereOriented_coords, dirEdges_mapG, sEdgesC_eq]

theorem sEnc_inj (n1 : Nat) (c c' : SC) (h : c.2 < n1) (h' : c'.2 < n1) (he : sEnc n1 c = sEnc n1 c') : c = c' := by
  obtain ⟨h1, h2⟩ := key_inj h h' he
  exact Prod.ext h1 h2

/-- C14, Sphere, every n1 ≥ 3, n2 ≥ 2: after the orientation repair every directed edge occurs exactly once and its
    reverse exactly once -/
theorem sphere_closedDir_general (n1 n2 : Nat) (h3 : 3 ≤ n1) (h2 : 2 ≤ n2) : ClosedDir (sphereOriented n1 n2) := by
  obtain ⟨m, rfl⟩ : ∃ m, n2 = m + 2 := ⟨n2 - 2, by omega⟩
  apply closedDir_of_nodup
  · rw [sphere_dirEdges]
    apply List.Nodup.map_on _ (sEdgesC_nodup n1 m h3)
    intro x hx y hy h
    obtain ⟨hx1, hx2⟩ := sEdgesC_valid n1 m (by omega) x hx
    obtain ⟨hy1, hy2⟩ := sEdgesC_valid n1 m (by omega) y hy
    simp only [Prod.map, Prod.mk.injEq] at h
    exact Prod.ext (sEnc_inj n1 _ _ hx1 hy1 h.1) (sEnc_inj n1 _ _ hx2 hy2 h.2)
  · intro e he
    rw [sphere_dirEdges] at he ⊢
    obtain ⟨x, hx, rfl⟩ := List.mem_map.mp he
    exact List.mem_map.mpr ⟨(x.2, x.1), sEdgesC_rev n1 m h3 x hx, rfl⟩

theorem sphere_noloop (n1 m : Nat) (h3 : 3 ≤ n1) : ∀ e ∈ dirEdges (sphereOriented n1 (m + 2)), e.1 ≠ e.2 := by
  intro e he
  rw [sphere_dirEdges] at he
  obtain ⟨x, hx, rfl⟩ := List.mem_map.mp he
  obtain ⟨hx1, hx2⟩ := sEdgesC_valid n1 m (by omega) x hx
  intro h
  exact sEdgesC_noloop n1 m h3 x hx (sEnc_inj n1 _ _ hx1 hx2 h)

theorem sphereFlips_length (n1 n2 : Nat) : (sphereFlips n1 n2).length = (sphereFaces n1 n2).length := by
  simp [sphereFlips, sphereFaces, List.length_flatMap]

/-- C14, Sphere, every n1 ≥ 3, n2 ≥ 2: every undirected edge of the face list as coded lies on exactly two faces -/
theorem sphere_closedUndir_general (n1 n2 : Nat) (h3 : 3 ≤ n1) (h2 : 2 ≤ n2) : ClosedUndir (sphereFaces n1 n2) := by
  have hcd := sphere_closedDir_general n1 n2 h3 h2
  obtain ⟨m, rfl⟩ : ∃ m, n2 = m + 2 := ⟨n2 - 2, by omega⟩
  exact closedUndir_perm (applyFlips_undirected (sphereFlips n1 (m + 2)) (sphereFaces n1 (m + 2))
    (sphereFlips_length n1 (m + 2))) (closedUndir_of_closedDir _ hcd (sphere_noloop n1 m h3))

theorem sEdgesC_length (n1 m : Nat) : (sEdgesC n1 m).length = n1 * (8 * (m + 1) + 6) := by
  simp only [sEdgesC, List.length_flatMap, List.length_append, sBandE, sCapE, List.length_cons, List.length_nil,
    List.map_const', List.sum_replicate, List.length_range, smul_eq_mul]
  ring

/-- C14, Sphere, every n1 ≥ 3, n2 ≥ 2: E = n1·(4·n2 − 1) -/
theorem sphere_edgeCount_general (n1 n2 : Nat) (h3 : 3 ≤ n1) (h2 : 2 ≤ n2) :
    edgeCount (sphereFaces n1 n2) = n1 * (4 * n2 - 1) := by
  have hcu := sphere_closedUndir_general n1 n2 h3 h2
  obtain ⟨m, rfl⟩ : ∃ m, n2 = m + 2 := ⟨n2 - 2, by omega⟩
  have h := two_mul_edgeCount _ hcu
  have hl : (dirEdges (sphereFaces n1 (m + 2))).length = (dirEdges (sphereOriented n1 (m + 2))).length := by
    have := (applyFlips_undirected (sphereFlips n1 (m + 2)) (sphereFaces n1 (m + 2))
      (sphereFlips_length n1 (m + 2))).length_eq
    simpa [sphereOriented] using this.symm
  rw [hl, sphere_dirEdges, List.length_map, sEdgesC_length] at h
  have e : 4 * (m + 2) - 1 = 4 * m + 7 := by omega
  rw [e]
  have : 2 * edgeCount (sphereFaces n1 (m + 2)) = 2 * (n1 * (4 * m + 7)) := by rw [h]; ring
  exact Nat.eq_of_mul_eq_mul_left (by omega) this

/-! ### simplicity -/
theorem flipCycle_length {α : Type} (f : List α) : (flipCycle f).length = f.length := by
  cases f <;> simp [flipCycle]

theorem flipCycle_nodup {α : Type} (f : List α) : (flipCycle f).Nodup ↔ f.Nodup := by
  cases f <;> simp [flipCycle]

theorem mem_flipCycle {α : Type} (f : List α) (a : α) : a ∈ flipCycle f ↔ a ∈ f := by
  cases f <;> simp [flipCycle]

theorem simple_of_applyFlips : ∀ (mask : List Bool) (fs : List Face), mask.length = fs.length →
    Simple (applyFlips mask fs) → Simple fs := by
  intro mask
  induction mask with
  | nil => intro fs h _; cases fs with
    | nil => intro f hf; simp at hf
    | cons f fs => simp at h
  | cons b mask ih =>
    intro fs h hs
    cases fs with
    | nil => intro f hf; simp at hf
    | cons f fs =>
      have hs' : Simple (applyFlips mask fs) := by
        intro g hg
        apply hs
        unfold applyFlips at hg ⊢
        simp only [List.zipWith_cons_cons, List.mem_cons]
        exact Or.inr hg
      have ih' := ih fs (by simpa using h) hs'
      intro g hg
      rcases List.mem_cons.mp hg with rfl | hg
      · have := hs (if b = true then flipCycle g else g) (by unfold applyFlips; simp)
        cases b
        · simpa using this
        · simpa [flipCycle_length, flipCycle_nodup] using this
      · exact ih' g hg

theorem mem_sOrientedC (n1 m : Nat) (g : List SC) : g ∈ sOrientedC n1 m ↔
    ∃ i, i < n1 ∧ ((∃ j, j < m + 1 ∧ g ∈ sBandC n1 m i j) ∨ g ∈ sCapC n1 m i) := by
  simp only [sOrientedC, sBlockC, List.mem_flatMap, List.mem_append, List.mem_range]

/-- every coordinate face has ≥ 3 different vertices, positions below n1 -/
theorem sFaceC_props (n1 m : Nat) (h3 : 3 ≤ n1) (g : List SC) (hg : g ∈ sOrientedC n1 m) :
    3 ≤ g.length ∧ g.Nodup ∧ ∀ c ∈ g, c.2 < n1 := by
  obtain ⟨i, hi, ⟨j, hj, h⟩ | h⟩ := (mem_sOrientedC n1 m g).mp hg
  · have hE := sm_cases hi
    have hL := sLr_spec m j
    have he : (i + 1) % n1 < n1 := Nat.mod_lt _ (by omega)
    unfold sBandC at h
    generalize (i + 1) % n1 = e at *
    generalize sLr m j = l at *
    simp only [flipCycle, List.reverse_cons, List.reverse_nil, List.nil_append, List.cons_append, List.mem_cons,
      List.not_mem_nil, or_false] at h
    rcases h with rfl | rfl
    · refine ⟨by simp, ?_, ?_⟩
      · simp only [List.nodup_cons, List.mem_cons, List.not_mem_nil, or_false, Prod.mk.injEq, List.nodup_nil,
          and_true, not_or, true_and, not_false_eq_true]
        omega
      · intro c hc
        simp only [List.mem_cons, List.not_mem_nil, or_false] at hc
        rcases hc with rfl | rfl | rfl | rfl <;> simp only [] <;> omega
    · refine ⟨by simp, ?_, ?_⟩
      · simp only [List.nodup_cons, List.mem_cons, List.not_mem_nil, or_false, Prod.mk.injEq, List.nodup_nil,
          and_true, not_or, true_and, not_false_eq_true]
        omega
      · intro c hc
        simp only [List.mem_cons, List.not_mem_nil, or_false] at hc
        rcases hc with rfl | rfl | rfl | rfl <;> simp only [] <;> omega
  · have hE := sm_cases hi
    have he : (i + 1) % n1 < n1 := Nat.mod_lt _ (by omega)
    unfold sCapC at h
    generalize (i + 1) % n1 = e at *
    simp only [flipCycle, List.reverse_cons, List.reverse_nil, List.nil_append, List.cons_append, List.mem_cons,
      List.not_mem_nil, or_false] at h
    rcases h with rfl | rfl
    · refine ⟨by simp, ?_, ?_⟩
      · simp only [List.nodup_cons, List.mem_cons, List.not_mem_nil, or_false, Prod.mk.injEq, List.nodup_nil,
          and_true, not_or, true_and, not_false_eq_true]
        omega
      · intro c hc
        simp only [List.mem_cons, List.not_mem_nil, or_false] at hc
        rcases hc with rfl | rfl | rfl <;> simp only [] <;> omega
    · refine ⟨by simp, ?_, ?_⟩
      · simp only [List.nodup_cons, List.mem_cons, List.not_mem_nil, or_false, Prod.mk.injEq, List.nodup_nil,
          and_true, not_or, true_and, not_false_eq_true]
        omega
      · intro c hc
        simp only [List.mem_cons, List.not_mem_nil, or_false] at hc
        rcases hc with rfl | rfl | rfl <;> simp only [] <;> omega

/-- C14, Sphere, every n1 ≥ 3, n2 ≥ 2: every face as coded has at least three, pairwise different vertices -/
theorem sphere_simple_general (n1 n2 : Nat) (h3 : 3 ≤ n1) (h2 : 2 ≤ n2) : Simple (sphereFaces n1 n2) := by
  obtain ⟨m, rfl⟩ : ∃ m, n2 = m + 2 := ⟨n2 - 2, by omega⟩
  apply simple_of_applyFlips (sphereFlips n1 (m + 2)) _ (sphereFlips_length n1 (m + 2))
  show Simple (sphereOriented n1 (m + 2))
  rw [sphereOriented_coords]
  intro f hf
  obtain ⟨g, hg, rfl⟩ := List.mem_map.mp hf
  obtain ⟨h1, h2', h3'⟩ := sFaceC_props n1 m h3 g hg
  refine ⟨by rw [List.length_map]; exact h1, ?_⟩
  apply List.Nodup.map_on _ h2'
  intro x hx y hy h
  exact sEnc_inj n1 x y (h3' x hx) (h3' y hy) h

/-! ### vertices -/
theorem mem_flatten_applyFlips (v : Nat) : ∀ (mask : List Bool) (fs : List Face), mask.length = fs.length →
    (v ∈ (applyFlips mask fs).flatten ↔ v ∈ fs.flatten) := by
  intro mask
  induction mask with
  | nil => intro fs h; cases fs with
    | nil => simp [applyFlips]
    | cons f fs => simp at h
  | cons b mask ih =>
    intro fs h
    cases fs with
    | nil => simp [applyFlips]
    | cons f fs =>
      have ih' := ih fs (by simpa using h)
      unfold applyFlips at ih' ⊢
      simp only [List.zipWith_cons_cons, List.flatten_cons, List.mem_append, ih']
      cases b <;> simp [mem_flipCycle]

/-- the coordinates used by the faces: all ring points and the two poles -/
theorem mem_sOrientedC_flatten (n1 m : Nat) (h3 : 3 ≤ n1) (c : SC) : c ∈ (sOrientedC n1 m).flatten ↔
    (c.1 ≤ 2 * m + 2 ∧ c.2 < n1) ∨ c = (2 * m + 3, 0) ∨ c = (2 * m + 3, 1) := by
  rw [List.mem_flatten]
  constructor
  · rintro ⟨g, hg, hc⟩
    obtain ⟨i, hi, ⟨j, hj, h⟩ | h⟩ := (mem_sOrientedC n1 m g).mp hg
    · have hL := sLr_spec m j
      have he : (i + 1) % n1 < n1 := Nat.mod_lt _ (by omega)
      unfold sBandC at h
      generalize (i + 1) % n1 = e at *
      generalize sLr m j = l at *
      simp only [flipCycle, List.reverse_cons, List.reverse_nil, List.nil_append, List.cons_append, List.mem_cons,
        List.not_mem_nil, or_false] at h
      rcases h with rfl | rfl <;> simp only [List.mem_cons, List.not_mem_nil, or_false] at hc <;>
        rcases hc with rfl | rfl | rfl | rfl <;> exact Or.inl ⟨by simp only []; omega, by simp only []; omega⟩
    · have he : (i + 1) % n1 < n1 := Nat.mod_lt _ (by omega)
      unfold sCapC at h
      generalize (i + 1) % n1 = e at *
      simp only [flipCycle, List.reverse_cons, List.reverse_nil, List.nil_append, List.cons_append, List.mem_cons,
        List.not_mem_nil, or_false] at h
      rcases h with rfl | rfl <;> simp only [List.mem_cons, List.not_mem_nil, or_false] at hc <;>
        rcases hc with rfl | rfl | rfl
      · exact Or.inr (Or.inl rfl)
      · exact Or.inl ⟨by simp only []; omega, by simp only []; omega⟩
      · exact Or.inl ⟨by simp only []; omega, by simp only []; omega⟩
      · exact Or.inr (Or.inr rfl)
      · exact Or.inl ⟨by simp only []; omega, by simp only []; omega⟩
      · exact Or.inl ⟨by simp only []; omega, by simp only []; omega⟩
  · obtain ⟨r, p⟩ := c
    rintro (⟨hr, hp⟩ | h | h)
    · simp only [] at hr hp
      rcases Nat.lt_or_ge r (m + 1) with h1 | h1
      · exact ⟨_, (mem_sOrientedC n1 m _).mpr ⟨p, hp, Or.inl ⟨r, h1, List.mem_cons_self ..⟩⟩, by simp⟩
      · rcases Nat.lt_or_ge r (m + 2) with h2 | h2
        · have : r = m + 1 := by omega
          subst this
          exact ⟨_, (mem_sOrientedC n1 m _).mpr ⟨p, hp, Or.inl ⟨m, by omega, List.mem_cons_self ..⟩⟩, by simp⟩
        · obtain ⟨j, rfl⟩ : ∃ j, r = m + 2 + j := ⟨r - (m + 2), by omega⟩
          refine ⟨flipCycle [(sLr m j, p), (sLr m j, (p + 1) % n1), (m + 2 + j, (p + 1) % n1), (m + 2 + j, p)],
            (mem_sOrientedC n1 m _).mpr ⟨p, hp, Or.inl ⟨j, by omega, ?_⟩⟩, ?_⟩
          · simp [sBandC]
          · simp [flipCycle]
    · rw [h]
      exact ⟨_, (mem_sOrientedC n1 m _).mpr ⟨0, by omega, Or.inr (List.mem_cons_self ..)⟩, by simp [flipCycle]⟩
    · rw [h]
      refine ⟨[(2 * m + 3, 1), (2 * m + 2, (0 + 1) % n1), (2 * m + 2, 0)],
        (mem_sOrientedC n1 m _).mpr ⟨0, by omega, Or.inr ?_⟩, by simp⟩
      simp [sCapC]

/-- C14, Sphere, every n1 ≥ 3, n2 ≥ 2: V = n1·(2·n2 − 1) + 2 -/
theorem sphere_vertexCount_general (n1 n2 : Nat) (h3 : 3 ≤ n1) (h2 : 2 ≤ n2) :
    vertexCount (sphereFaces n1 n2) = n1 * (2 * n2 - 1) + 2 := by
  obtain ⟨m, rfl⟩ : ∃ m, n2 = m + 2 := ⟨n2 - 2, by omega⟩
  have e : 2 * (m + 2) - 1 = 2 * m + 3 := by omega
  rw [e]
  unfold vertexCount
  apply dedup_length_of_mem_iff_lt
  intro v
  rw [← mem_flatten_applyFlips v (sphereFlips n1 (m + 2)) _ (sphereFlips_length n1 (m + 2))]
  show v ∈ (sphereOriented n1 (m + 2)).flatten ↔ _
  rw [sphereOriented_coords, ← List.map_flatten, List.mem_map]
  constructor
  · rintro ⟨c, hc, rfl⟩
    rcases (mem_sOrientedC_flatten n1 m h3 c).mp hc with ⟨hr, hp⟩ | rfl | rfl
    · unfold sEnc
      have : (c.1 + 1) * n1 ≤ (2 * m + 3) * n1 := Nat.mul_le_mul_right _ (by omega)
      have e1 : (c.1 + 1) * n1 = c.1 * n1 + n1 := by ring
      have e2 : n1 * (2 * m + 3) = (2 * m + 3) * n1 := by ring
      omega
    · unfold sEnc
      have e2 : n1 * (2 * m + 3) = (2 * m + 3) * n1 := by ring
      simp only []; omega
    · unfold sEnc
      have e2 : n1 * (2 * m + 3) = (2 * m + 3) * n1 := by ring
      simp only []; omega
  · intro hv
    rcases Nat.lt_or_ge v (n1 * (2 * m + 3)) with h | h
    · refine ⟨(v / n1, v % n1), (mem_sOrientedC_flatten n1 m h3 _).mpr (Or.inl ⟨?_, Nat.mod_lt _ (by omega)⟩), ?_⟩
      · have := Nat.div_lt_of_lt_mul h
        simp only []; omega
      · unfold sEnc
        exact Nat.div_add_mod' v n1
    · rcases Nat.eq_or_lt_of_le h with h | h
      · exact ⟨(2 * m + 3, 0), (mem_sOrientedC_flatten n1 m h3 _).mpr (Or.inr (Or.inl rfl)), by
          unfold sEnc; simp only []; rw [← h]; ring⟩
      · have : v = n1 * (2 * m + 3) + 1 := by omega
        exact ⟨(2 * m + 3, 1), (mem_sOrientedC_flatten n1 m h3 _).mpr (Or.inr (Or.inr rfl)), by
          unfold sEnc; simp only []; rw [this]; ring⟩

/-- C14, Sphere skeleton for EVERY n1 ≥ 3, n2 ≥ 2: 2·n2 − 1 rings of n1 points and two poles,
    V = n1(2n2 − 1) + 2, E = n1(4n2 − 1), F = 2·n1·n2, Euler, every face simple, every undirected edge on exactly two
    faces, and after the orientation repair of the constructor every directed edge once and its reverse once -/
theorem sphere_skeleton_general (n1 n2 : Nat) (h3 : 3 ≤ n1) (h2 : 2 ≤ n2) :
    vertexCount (sphereFaces n1 n2) = n1 * (2 * n2 - 1) + 2 ∧ edgeCount (sphereFaces n1 n2) = n1 * (4 * n2 - 1) ∧
      faceCount (sphereFaces n1 n2) = 2 * n1 * n2 ∧ Euler (sphereFaces n1 n2) ∧ Simple (sphereFaces n1 n2) ∧
      ClosedUndir (sphereFaces n1 n2) ∧ ClosedDir (sphereOriented n1 n2) := by
  have hV := sphere_vertexCount_general n1 n2 h3 h2
  have hE := sphere_edgeCount_general n1 n2 h3 h2
  have hF : faceCount (sphereFaces n1 n2) = 2 * n1 * n2 := (faceCount_general 0 n1 n2 h2).2.2.2
  refine ⟨hV, hE, hF, ?_, sphere_simple_general n1 n2 h3 h2, sphere_closedUndir_general n1 n2 h3 h2,
    sphere_closedDir_general n1 n2 h3 h2⟩
  unfold Euler
  rw [hV, hE, hF]
  obtain ⟨m, rfl⟩ : ∃ m, n2 = m + 2 := ⟨n2 - 2, by omega⟩
  have e1 : 2 * (m + 2) - 1 = 2 * m + 3 := by omega
  have e2 : 4 * (m + 2) - 1 = 4 * m + 7 := by omega
  rw [e1, e2]
  ring

/-- every placement of the ids in space of the repaired Sphere skeleton is a `ClosedSurface`, every n1 ≥ 3, n2 ≥ 2 -/
theorem sphere_closedSurface_general (n1 n2 : Nat) (h3 : 3 ≤ n1) (h2 : 2 ≤ n2) (g : Nat → V3) :
    ClosedSurface ((sphereOriented n1 n2).map (List.map g)) :=
  closedSurface_of_closedDir _ (sphere_closedDir_general n1 n2 h3 h2) g

#print axioms sphere_closedDir_general
#print axioms sphere_closedUndir_general
#print axioms sphere_edgeCount_general
#print axioms sphere_simple_general
#print axioms sphere_vertexCount_general
#print axioms sphere_skeleton_general
#print axioms sphere_closedSurface_general
end Builders
end G3D
