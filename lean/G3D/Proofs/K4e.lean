import G3D.Proofs.K4d

/-! # Kernel K4, part e: the case with an interior point — every point of `A ∩ B` is spanned by the polygon clips

    * `K4.OnGon` : the point lies on a clip that is a polygon
    * `K4.onGon_of_three` : a clip containing three non-collinear points is a polygon
    * `K4.onGon_of_generic` : a boundary point at which all tight constraints describe the same half-space
    * `K4.onGon_of_boundary` : EVERY boundary point of `A ∩ B` lies on a polygon clip, if `A ∩ B` has an interior point
    * `K4.chord_interior` : an interior point lies between two points on polygon clips -/
namespace G3D
open V3

/-- `y` lies on a clip that is a polygon -/
def K4.OnGon (A B : Polyhedron) (y : V3) : Prop :=
  ∃ f Q, K4.IsPiece A B f (some (.polygon Q)) ∧ InHull Q.pts y

theorem K4.face_valid {A B : Polyhedron} (hA : A.ExactHyp) (hB : B.ExactHyp) (f : Polygon)
    (hf : f ∈ A.faces ++ B.faces) : f.Valid := by
  rcases List.mem_append.mp hf with h | h
  · exact hA.proper.core.faces_valid f h
  · exact hB.proper.core.faces_valid f h

theorem K4.cross_cross (a n : V3) : cross a (cross n a) = sub (smul (normSq a) n) (smul (dot a n) a) := by
  apply V3.ext' <;> simp only [cross, sub, smul, normSq, dot] <;> ring

theorem K4.smul_ne_zero {k : Rat} {v : V3} (hk : k ≠ 0) (hv : v ≠ zero) : smul k v ≠ zero := by
  intro h
  apply hv
  have hx := congrArg V3.x h
  have hy := congrArg V3.y h
  have hz := congrArg V3.z h
  simp only [smul, zero] at hx hy hz
  apply V3.ext' <;> simp only [zero]
  · exact (mul_eq_zero.mp hx).resolve_left hk
  · exact (mul_eq_zero.mp hy).resolve_left hk
  · exact (mul_eq_zero.mp hz).resolve_left hk

/-- a clip containing three non-collinear points is a polygon -/
theorem K4.onGon_of_three {A B : Polyhedron} (hA : A.ExactHyp) (hB : B.ExactHyp) (f : Polygon)
    (hf : f ∈ A.faces ++ B.faces) (x z1 z2 : V3)
    (hx : K4.InK A B x) (fx : f.side x = 0) (hz1 : K4.InK A B z1) (fz1 : f.side z1 = 0)
    (hz2 : K4.InK A B z2) (fz2 : f.side z2 = 0) (hN : cross (sub z1 x) (sub z2 x) ≠ zero) :
    ∃ Q, K4.IsPiece A B f (some (.polygon Q)) ∧ InHull Q.pts x := by
  obtain ⟨o, hpc⟩ := K4.exists_piece hA hB f hf
  obtain ⟨hsh, hd⟩ := hpc.spec hA hB
  have dx := (hd x).mpr ⟨hx, fx⟩
  have dz1 := (hd z1).mpr ⟨hz1, fz1⟩
  have dz2 := (hd z2).mpr ⟨hz2, fz2⟩
  cases hsh with
  | none => exact dx.elim
  | point q =>
    exfalso; apply hN
    have e1 : x = q := dx
    have e2 : z1 = q := dz1
    rw [e1, e2]; apply V3.ext' <;> simp only [cross, sub, zero] <;> ring
  | seg s hw => exact absurd (K4.seg_collinear s x z1 z2 dx dz1 dz2) hN
  | gon Q hv => exact ⟨Q, hpc, dx⟩

/-- a point of `A ∩ B` at which all tight constraints describe the same half-space lies on a polygon clip -/
theorem K4.onGon_of_generic {A B : Polyhedron} (hA : A.ExactHyp) (hB : B.ExactHyp) (y : V3) (hy : K4.InK A B y)
    (f : Polygon) (hf : f ∈ A.faces ++ B.faces) (hfy : f.side y = 0)
    (hall : ∀ g ∈ A.faces ++ B.faces, g.side y = 0 → SamePlane f g) : K4.OnGon A B y := by
  have hn : f.plane.n ≠ zero := Polygon.plane_WF f (K4.face_valid hA hB f hf)
  obtain ⟨he1, he1n⟩ := K3.perp_spec f.plane.n
  set e1 := K3.perp f.plane.n with he1d
  set e2 := cross f.plane.n e1 with he2d
  have he2 : dot f.plane.n e2 = 0 := dot_cross_self _ _
  have hyside := (K4.InK_iff_side A B y).mp hy
  have cond : ∀ e, dot f.plane.n e = 0 → ∀ g ∈ A.faces ++ B.faces,
      g.side y < 0 ∨ (g.side y ≤ 0 ∧ dot g.plane.n e ≤ 0) := by
    intro e he g hg
    rcases lt_or_eq_of_le (hyside g hg) with h | h
    · exact Or.inl h
    · obtain ⟨k, _, hk, _⟩ := hall g hg h
      refine Or.inr ⟨le_of_eq h, ?_⟩
      have : dot g.plane.n e = k * dot f.plane.n e := by rw [hk]; simp only [dot, smul]; ring
      rw [this, he]; simp
  obtain ⟨ε1, hε1, hs1⟩ := K4.small_step _ y e1 (cond e1 he1)
  obtain ⟨ε2, hε2, hs2⟩ := K4.small_step _ y e2 (cond e2 he2)
  have hz1 : K4.InK A B (pt y e1 ε1) := (K4.InK_iff_side A B _).mpr (hs1 ε1 (le_of_lt hε1) (le_refl _))
  have hz2 : K4.InK A B (pt y e2 ε2) := (K4.InK_iff_side A B _).mpr (hs2 ε2 (le_of_lt hε2) (le_refl _))
  have fz1 : f.side (pt y e1 ε1) = 0 := by rw [f.side_pt, hfy, he1]; ring
  have fz2 : f.side (pt y e2 ε2) = 0 := by rw [f.side_pt, hfy, he2]; ring
  have hN : cross (sub (pt y e1 ε1) y) (sub (pt y e2 ε2) y) ≠ zero := by
    have e : cross (sub (pt y e1 ε1) y) (sub (pt y e2 ε2) y) = smul (ε1 * ε2) (cross e1 e2) := by
      apply V3.ext' <;> simp only [cross, sub, pt, add, smul] <;> ring
    have e' : cross e1 e2 = smul (normSq e1) f.plane.n := by
      rw [he2d, K4.cross_cross]
      have : dot e1 f.plane.n = 0 := by
        have : dot e1 f.plane.n = dot f.plane.n e1 := by simp only [dot]; ring
        rw [this, he1]
      rw [this]; apply V3.ext' <;> simp [sub, smul]
    rw [e, e']
    exact K4.smul_ne_zero (ne_of_gt (mul_pos hε1 hε2))
      (K4.smul_ne_zero (ne_of_gt (normSq_pos he1n)) hn)
  obtain ⟨Q, hQ, hin⟩ := K4.onGon_of_three hA hB f hf y _ _ hy hfy hz1 fz1 hz2 fz2 hN
  exact ⟨f, Q, hQ, hin⟩

theorem K4.neg_neg_dot (m w : V3) : dot m (V3.neg w) = - dot m w := by simp only [dot, V3.neg]; ring

/-- **every boundary point lies on a polygon clip**, if the common part has an interior point -/
theorem K4.onGon_of_boundary {A B : Polyhedron} (hA : A.ExactHyp) (hB : B.ExactHyp) (o : V3)
    (ho : ∀ f ∈ A.faces ++ B.faces, f.side o < 0) (x : V3) (hx : K4.InK A B x)
    (f0 : Polygon) (hf0 : f0 ∈ A.faces ++ B.faces) (hf0x : f0.side x = 0) : K4.OnGon A B x := by
  set L := A.faces ++ B.faces with hL
  set T := L.filter (fun f => decide (f.side x = 0)) with hT
  have hTL : ∀ f ∈ T, f ∈ L := fun f hf => (List.mem_filter.mp hf).1
  have hTx : ∀ f ∈ T, f.side x = 0 := fun f hf => by simpa using (List.mem_filter.mp hf).2
  have hTmem : ∀ f ∈ L, f.side x = 0 → f ∈ T := fun f hf h => List.mem_filter.mpr ⟨hf, by simpa using h⟩
  have hf0T : f0 ∈ T := hTmem f0 hf0 hf0x
  have hxside := (K4.InK_iff_side A B x).mp hx
  have hn0 : f0.plane.n ≠ zero := Polygon.plane_WF f0 (K4.face_valid hA hB f0 hf0)
  -- u = x - o is not zero
  have hu : sub x o ≠ zero := by
    intro h
    have : x = o := sub_eq_zero_iff.mp h
    have := ho f0 hf0
    rw [← ‹x = o›, hf0x] at this
    exact lt_irrefl _ this
  obtain ⟨hp1, hp2⟩ := K3.perp_spec (sub x o)
  -- a generic direction, looking along the normal of f0, not parallel to u
  obtain ⟨w0, hgen0, hex0⟩ := K4.exists_generic_dir o L [K3.perp (sub x o), f0.plane.n]
    (by intro m hm; simp only [List.mem_cons, List.not_mem_nil, or_false] at hm
        rcases hm with rfl | rfl
        · exact hp2
        · exact hn0)
  obtain ⟨w, hgen, hwp, hwn⟩ : ∃ w, K4.Generic o L w ∧ dot (K3.perp (sub x o)) w ≠ 0 ∧ 0 < dot f0.plane.n w := by
    have h1 := hex0 (K3.perp (sub x o)) (by simp)
    have h2 := hex0 f0.plane.n (by simp)
    rcases lt_or_gt_of_ne h2 with h | h
    · refine ⟨V3.neg w0, hgen0.neg, ?_, ?_⟩
      · rw [K4.neg_neg_dot]; exact neg_ne_zero.mpr h1
      · rw [K4.neg_neg_dot]; linarith
    · exact ⟨w0, hgen0, h1, h⟩
  -- leave the cone of the constraints tight at x
  obtain ⟨t, ht, hyT, fs, hfsT, hfsy⟩ := K4.exit T o w (fun f hf => ho f (hTL f hf)) ⟨f0, hf0T, hwn⟩
  set y := pt o w t with hy
  have hsame : ∀ g ∈ T, g.side y = 0 → SamePlane fs g := fun g hg h =>
    K4.exit_generic T o w (fun f hf => ho f (hTL f hf)) (hgen.sub hTL) t fs g hfsT hg hfsy h
  have hfsL := hTL fs hfsT
  have hns : fs.plane.n ≠ zero := Polygon.plane_WF fs (K4.face_valid hA hB fs hfsL)
  have hfsx := hTx fs hfsT
  -- y ≠ x
  have hv : sub y x ≠ zero := by
    intro h
    have hyx : y = x := sub_eq_zero_iff.mp h
    have e1 : dot (K3.perp (sub x o)) (sub y o) = t * dot (K3.perp (sub x o)) w := by
      simp only [hy, pt, dot, sub, add, smul]; ring
    rw [hyx] at e1
    have e2 : dot (K3.perp (sub x o)) (sub x o) = 0 := by
      have : dot (K3.perp (sub x o)) (sub x o) = dot (sub x o) (K3.perp (sub x o)) := by simp only [dot]; ring
      rw [this, hp1]
    rw [e2] at e1
    rcases mul_eq_zero.mp e1.symm with h | h
    · exact absurd h (ne_of_gt ht)
    · exact hwp h
  have side_diff : ∀ (g : Polygon) (a b : V3), dot g.plane.n (sub b a) = g.side b - g.side a := by
    intro g a b; simp only [Polygon.side, dot, sub]; ring
  have hnv : dot fs.plane.n (sub y x) = 0 := by rw [side_diff, hfsy, hfsx]; ring
  set e := cross fs.plane.n (sub y x) with he
  have hne : dot fs.plane.n e = 0 := dot_cross_self _ _
  -- a second point of the cone in the plane of fs
  obtain ⟨ε, hε, hstep⟩ := K4.small_step T y e (by
    intro g hg
    rcases lt_or_eq_of_le (hyT g hg) with h | h
    · exact Or.inl h
    · obtain ⟨k, _, hk, _⟩ := hsame g hg h
      refine Or.inr ⟨le_of_eq h, ?_⟩
      have : dot g.plane.n e = k * dot fs.plane.n e := by rw [hk]; simp only [dot, smul]; ring
      rw [this, hne]; simp)
  set y' := pt y e ε with hy'
  have hy'T : ∀ g ∈ T, g.side y' ≤ 0 := hstep ε (le_of_lt hε) (le_refl _)
  have hfsy' : fs.side y' = 0 := by rw [hy', fs.side_pt, hfsy, hne]; ring
  -- move from x a little towards y and towards y'
  have toward : ∀ yy : V3, (∀ g ∈ T, g.side yy ≤ 0) →
      ∀ g ∈ L, g.side x < 0 ∨ (g.side x ≤ 0 ∧ dot g.plane.n (sub yy x) ≤ 0) := by
    intro yy hyy g hg
    rcases lt_or_eq_of_le (hxside g hg) with h | h
    · exact Or.inl h
    · refine Or.inr ⟨le_of_eq h, ?_⟩
      rw [side_diff, h]
      have := hyy g (hTmem g hg h)
      linarith
  obtain ⟨δ1, hδ1, hs1⟩ := K4.small_step L x (sub y x) (toward y hyT)
  obtain ⟨δ2, hδ2, hs2⟩ := K4.small_step L x (sub y' x) (toward y' hy'T)
  have hz1 : K4.InK A B (pt x (sub y x) δ1) := (K4.InK_iff_side A B _).mpr (hs1 δ1 (le_of_lt hδ1) (le_refl _))
  have hz2 : K4.InK A B (pt x (sub y' x) δ2) := (K4.InK_iff_side A B _).mpr (hs2 δ2 (le_of_lt hδ2) (le_refl _))
  have fz1 : fs.side (pt x (sub y x) δ1) = 0 := by rw [fs.side_pt, hfsx, hnv]; ring
  have fz2 : fs.side (pt x (sub y' x) δ2) = 0 := by rw [fs.side_pt, hfsx, side_diff, hfsy', hfsx]; ring
  have hN : cross (sub (pt x (sub y x) δ1) x) (sub (pt x (sub y' x) δ2) x) ≠ zero := by
    have e1 : cross (sub (pt x (sub y x) δ1) x) (sub (pt x (sub y' x) δ2) x) =
        smul (δ1 * δ2 * ε) (cross (sub y x) e) := by
      rw [hy']
      apply V3.ext' <;> simp only [cross, sub, pt, add, smul] <;> ring
    have e2 : cross (sub y x) e = smul (normSq (sub y x)) fs.plane.n := by
      rw [he, K4.cross_cross]
      have : dot (sub y x) fs.plane.n = 0 := by
        have : dot (sub y x) fs.plane.n = dot fs.plane.n (sub y x) := by simp only [dot]; ring
        rw [this, hnv]
      rw [this]; apply V3.ext' <;> simp [sub, smul]
    rw [e1, e2]
    exact K4.smul_ne_zero (ne_of_gt (mul_pos (mul_pos hδ1 hδ2) hε))
      (K4.smul_ne_zero (ne_of_gt (normSq_pos hv)) hns)
  obtain ⟨Q, hQ, hin⟩ := K4.onGon_of_three hA hB fs hfsL x _ _ hx hfsx hz1 fz1 hz2 fz2 hN
  exact ⟨fs, Q, hQ, hin⟩
#print axioms K4.onGon_of_boundary

/-- an interior point lies between two points on polygon clips -/
theorem K4.chord_interior {A B : Polyhedron} (hA : A.ExactHyp) (hB : B.ExactHyp) (x : V3)
    (hx : ∀ f ∈ A.faces ++ B.faces, f.side x < 0) :
    ∃ y1 y2, K4.OnGon A B y1 ∧ K4.OnGon A B y2 ∧ Between y1 y2 x := by
  set L := A.faces ++ B.faces with hL
  obtain ⟨w, hgen, hex⟩ := K4.exists_generic_dir x L [⟨1, 0, 0⟩] (by
    intro m hm; simp only [List.mem_cons, List.not_mem_nil, or_false] at hm
    rw [hm]; intro h; have := congrArg V3.x h; simp [zero] at this)
  have hw : w ≠ zero := by
    intro h
    apply hex ⟨1, 0, 0⟩ (by simp)
    rw [h]; simp [dot, zero]
  obtain ⟨fp, hfp, hfpw⟩ := A.exists_face_along hA.proper.hullCore w hw
  obtain ⟨fn, hfn, hfnw⟩ := A.exists_face_against hA.proper.hullCore w hw
  obtain ⟨t1, ht1, hy1, f1, hf1, hf1y⟩ := K4.exit L x w hx ⟨fp, List.mem_append_left _ hfp, hfpw⟩
  obtain ⟨t2, ht2, hy2, f2, hf2, hf2y⟩ := K4.exit L x (V3.neg w) hx
    ⟨fn, List.mem_append_left _ hfn, by rw [K4.neg_neg_dot]; linarith⟩
  have g1 := K4.onGon_of_generic hA hB (pt x w t1) ((K4.InK_iff_side A B _).mpr hy1) f1 hf1 hf1y
    (fun g hg h => K4.exit_generic L x w hx hgen t1 f1 g hf1 hg hf1y h)
  have g2 := K4.onGon_of_generic hA hB (pt x (V3.neg w) t2) ((K4.InK_iff_side A B _).mpr hy2) f2 hf2 hf2y
    (fun g hg h => K4.exit_generic L x (V3.neg w) hx hgen.neg t2 f2 g hf2 hg hf2y h)
  refine ⟨_, _, g1, g2, t1 / (t1 + t2), div_nonneg (le_of_lt ht1) (by linarith), ?_, ?_⟩
  · rw [div_le_one (by linarith)]; linarith
  · have hne : t1 + t2 ≠ 0 := by linarith
    apply V3.ext' <;> simp only [pt, add, smul, sub, V3.neg] <;> field_simp <;> ring
#print axioms K4.chord_interior

end G3D
