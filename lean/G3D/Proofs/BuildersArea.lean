import Mathlib.Analysis.SpecialFunctions.Trigonometric.Basic
import Mathlib.Tactic.Ring
import Mathlib.Tactic.Linarith
import Mathlib.Tactic.LinearCombination
import Mathlib.Tactic.FieldSimp
import Mathlib.Tactic.Positivity
import Mathlib.Algebra.BigOperators.Group.Finset.Basic
import G3D.Proofs.BuildersReal

/-! C14 over ℝ, surface AREA of the inscribed Cylinder and Cone in closed form.

    The area of a planar convex face is half the Euclidean length of the shoelace vector area of its vertex cycle
    (`vecArea2R`; this is what the model's `areaNum / (2|n|)` computes); the surface area of a solid is the sum over
    its face list.  The face lists are the ones of G3D/Model/Builders.lean (`cylinderOriented`, `coneOriented`: the
    Python `cpg_list` after the orientation repair of the constructor) placed by `cylinderPlace` / `conePlace`; the
    area does not depend on the orientation repair (`BA.surfArea_applyFlips`), so the same closed forms hold for the
    lists as coded (`cylinderFaces`, `coneFaces`). -/
namespace G3D
namespace BuildersReal
open Real Builders R3

/-- Euclidean length -/
noncomputable def BA.norm (a : R3) : ℝ := √(normSq a)

/-- area of a planar face: half the length of the shoelace vector area of its vertex cycle -/
noncomputable def BA.faceArea (l : List R3) : ℝ := BA.norm (vecArea2R l) / 2

/-- surface area of a face list -/
noncomputable def BA.surfArea (fs : List (List R3)) : ℝ := (fs.map BA.faceArea).sum

theorem BA.norm_smul (t : ℝ) (a : R3) : BA.norm (smul t a) = |t| * BA.norm a := by
  unfold BA.norm
  have : normSq (smul t a) = t ^ 2 * normSq a := by simp only [normSq, dot, smul]; ring
  rw [this, sqrt_mul (sq_nonneg t), sqrt_sq_eq_abs]

theorem BA.norm_of_sq (a : R3) (m : ℝ) (hm : 0 ≤ m) (h : normSq a = m ^ 2) : BA.norm a = m := by
  unfold BA.norm; rw [h, sqrt_sq hm]

/-- Lagrange: `|a × b|² = |a|²|b|² − (a·b)²` -/
theorem BA.normSq_cross (a b : R3) : normSq (cross a b) = normSq a * normSq b - (dot a b) ^ 2 := by
  simp only [normSq, dot, cross]; ring

theorem BA.norm_cross_frame (nrm u v : R3) (r : ℝ) (F : Frame nrm u v r) : BA.norm (cross u v) = r ^ 2 := by
  obtain ⟨hu, hv, huv, _, _⟩ := F
  apply BA.norm_of_sq _ _ (sq_nonneg r)
  rw [BA.normSq_cross, hu, hv, huv]; ring

/-- the orientation repair does not change a face's area -/
theorem BA.faceArea_flip (l : List R3) : BA.faceArea (flipCycle l) = BA.faceArea l := by
  unfold BA.faceArea
  rw [vecArea2R_flip, BA.norm_smul]; simp

/-- … nor the surface area -/
theorem BA.surfArea_applyFlips : ∀ (mask : List Bool) (fs : List (List R3)), fs.length ≤ mask.length →
    BA.surfArea (applyFlips mask fs) = BA.surfArea fs := by
  intro mask
  induction mask with
  | nil => intro fs h; cases fs with
    | nil => simp [applyFlips]
    | cons f fs => simp at h
  | cons b mask ih =>
    intro fs h
    cases fs with
    | nil => simp [applyFlips]
    | cons f fs =>
      have h' : fs.length ≤ mask.length := by simpa using h
      have := ih fs h'
      unfold applyFlips BA.surfArea at this ⊢
      simp only [List.zipWith_cons_cons, List.map_cons, List.sum_cons, this]
      cases b <;> simp [BA.faceArea_flip]

theorem BA.sin_two_pi_div_nonneg (n : ℕ) (hn : 2 ≤ n) : 0 ≤ sin (2 * π / n) := by
  have hn' : (2 : ℝ) ≤ n := by exact_mod_cast hn
  have hp := pi_pos
  apply sin_nonneg_of_nonneg_of_le_pi
  · positivity
  · rw [div_le_iff₀ (by linarith)]; nlinarith

theorem BA.sin_pi_div_nonneg (n : ℕ) (hn : 1 ≤ n) : 0 ≤ sin (π / n) := by
  have hn' : (1 : ℝ) ≤ n := by exact_mod_cast hn
  have hp := pi_pos
  apply sin_nonneg_of_nonneg_of_le_pi
  · positivity
  · rw [div_le_iff₀ (by linarith)]; nlinarith

/-- C14, area of an inscribed n-gon (Circle; caps of the Cylinder; base of the Cone) as the face area of the point
    list returned by `get_circle_point_list`: `n/2·r²·sin(2π/n)` -/
theorem BA.ring_faceArea (a nrm u v : R3) (r : ℝ) (n : ℕ) (hn : 2 ≤ n) (F : Frame nrm u v r) :
    BA.faceArea ((List.range n).map (fun i => circlePoint a u v (stepAngle n i))) =
      n / 2 * r ^ 2 * sin (2 * π / n) := by
  unfold BA.faceArea
  rw [ring_vecArea2 a u v n (by omega), BA.norm_smul, BA.norm_cross_frame nrm u v r F,
    abs_of_nonneg (mul_nonneg (Nat.cast_nonneg n) (BA.sin_two_pi_div_nonneg n hn))]
  ring

/-- C14, Circle area (the polygon `Circle(center, normal, radius, n)`) -/
theorem BA.circle_faceArea (c nrm u v : R3) (r : ℝ) (n : ℕ) (hn : 2 ≤ n) (F : Frame nrm u v r) :
    BA.surfArea ((circleFaces n).map (List.map (fun i => circlePoint c u v (stepAngle n i)))) =
      n / 2 * r ^ 2 * sin (2 * π / n) := by
  simp only [circleFaces, BA.surfArea, List.map_cons, List.map_nil, List.sum_cons, List.sum_nil, add_zero]
  exact BA.ring_faceArea c nrm u v r n hn F

/-! ### chord -/
/-- the chord of one angular step: `|P_{i+1} − P_i| = 2·r·sin(π/n)` -/
theorem BA.chord_len (c nrm u v : R3) (r : ℝ) (n i : ℕ) (hn : 1 ≤ n) (hr : 0 ≤ r) (F : Frame nrm u v r) :
    BA.norm (sub (circlePoint c u v (stepAngle n (i + 1))) (circlePoint c u v (stepAngle n i))) =
      2 * r * sin (π / n) := by
  apply BA.norm_of_sq _ _ (mul_nonneg (by linarith) (BA.sin_pi_div_nonneg n hn))
  rw [circle_chord c nrm u v r n i F]
  have e : 2 * π / n = 2 * (π / n) := by ring
  rw [e, cos_two_mul]
  have := cos_sq_add_sin_sq (π / n)
  linear_combination (-4 * r ^ 2) * this

/-! ### Cylinder -/
/-- the chord is orthogonal to the axis -/
theorem BA.chord_dot_axis (c h u v : R3) (r α β : ℝ) (F : Frame h u v r) :
    dot (sub (circlePoint c u v β) (circlePoint c u v α)) h = 0 := by
  obtain ⟨_, h1⟩ := circle_points c h u v r α F
  obtain ⟨_, h2⟩ := circle_points c h u v r β F
  simp only [dot, sub] at h1 h2 ⊢
  linear_combination h2 - h1

/-- per-face formula, side rectangle of the Cylinder (`top_s, top_e, bottom_e, bottom_s`, after the repair
    `top_s, bottom_s, bottom_e, top_e`): area = chord × |h| = `2·r·sin(π/n)·|h|`  (axis ⟂ frame) -/
theorem BA.cylinder_side_faceArea (c h u v : R3) (r : ℝ) (n i : ℕ) (hn : 1 ≤ n) (hr : 0 ≤ r) (F : Frame h u v r) :
    BA.faceArea [add (circlePoint c u v (stepAngle n i)) h, circlePoint c u v (stepAngle n i),
        circlePoint c u v (stepAngle n (i + 1)), add (circlePoint c u v (stepAngle n (i + 1))) h] =
      2 * r * sin (π / n) * BA.norm h := by
  unfold BA.faceArea
  rw [quad_vecArea2, BA.norm_smul]
  have hc := BA.chord_len c h u v r n i hn hr F
  have hd := BA.chord_dot_axis c h u v r (stepAngle n i) (stepAngle n (i + 1)) F
  have : BA.norm (cross (sub (circlePoint c u v (stepAngle n (i + 1))) (circlePoint c u v (stepAngle n i))) h) =
      BA.norm (sub (circlePoint c u v (stepAngle n (i + 1))) (circlePoint c u v (stepAngle n i))) * BA.norm h := by
    unfold BA.norm
    rw [BA.normSq_cross, hd, ← sqrt_mul (normSq_nonneg _)]; congr 1; ring
  rw [this, hc]; simp

theorem BA.sum_map_const (n : ℕ) (K : ℝ) (G : ℕ → ℝ) (hG : ∀ i, i < n → G i = K) :
    ((List.range n).map G).sum = n * K := by
  have : (List.range n).map G = (List.range n).map (fun _ => K) :=
    List.map_congr_left (fun i hi => hG i (List.mem_range.mp hi))
  rw [this]; simp

/-- C14, Cylinder surface area, every n ≥ 2: the faces of `Cylinder(circle_center, radius, height_vector, n)`
    (`[top_circle, bottom_circle] + n side quadrilaterals`, oriented as the constructor leaves them) have total area
    `2·(n/2·r²·sin(2π/n)) + n·(2·r·sin(π/n))·|h|` — two n-gon caps and n rectangles chord × |h| -/
theorem BA.cylinder_area (c h u v : R3) (r : ℝ) (n : ℕ) (hn : 2 ≤ n) (hr : 0 ≤ r) (F : Frame h u v r) :
    BA.surfArea ((cylinderOriented n).map (List.map (cylinderPlace c h u v n))) =
      2 * (n / 2 * r ^ 2 * sin (2 * π / n)) + n * (2 * r * sin (π / n) * BA.norm h) := by
  have hn0 : 0 < n := by omega
  rw [cylinderOriented_eq]
  simp only [List.map_append, List.map_cons, List.map_nil]
  rw [← flipCycle_map]
  simp only [List.map_map]
  have htop : (List.range n).map (cylinderPlace c h u v n) =
      (List.range n).map (fun i => circlePoint (add c h) u v (stepAngle n i)) := by
    apply List.map_congr_left
    intro i hi
    simp only [cylinderPlace, if_pos (List.mem_range.mp hi), cylinder_top]
  have hbot : (List.range n).map (cylinderPlace c h u v n ∘ (n + ·)) =
      (List.range n).map (fun i => circlePoint c u v (stepAngle n i)) := by
    apply List.map_congr_left
    intro i _
    simp [cylinderPlace]
  have hside : (List.range n).map (List.map (cylinderPlace c h u v n) ∘ fun i => [i, n + i, n + (i + 1) % n, (i + 1) % n]) =
      (List.range n).map (fun i => [add (circlePoint c u v (stepAngle n i)) h, circlePoint c u v (stepAngle n i),
        circlePoint c u v (stepAngle n (i + 1)), add (circlePoint c u v (stepAngle n (i + 1))) h]) := by
    apply List.map_congr_left
    intro i hi
    have hi' := List.mem_range.mp hi
    have hm : (i + 1) % n < n := Nat.mod_lt _ hn0
    simp [cylinderPlace, hi', hm, circlePoint_step_mod c u v n i hi']
  rw [htop, hbot, hside]
  unfold BA.surfArea
  simp only [List.map_cons, List.map_append, List.sum_cons, List.sum_append, List.map_map, List.map_nil, List.sum_nil]
  rw [BA.faceArea_flip, BA.ring_faceArea _ h u v r n hn F, BA.ring_faceArea _ h u v r n hn F,
    BA.sum_map_const n (2 * r * sin (π / n) * BA.norm h)]
  · ring
  · intro i _
    exact BA.cylinder_side_faceArea c h u v r n i (by omega) hr F

/-- the same for the face list as coded (before the orientation repair) -/
theorem BA.cylinder_area_coded (c h u v : R3) (r : ℝ) (n : ℕ) (hn : 2 ≤ n) (hr : 0 ≤ r) (F : Frame h u v r) :
    BA.surfArea ((cylinderFaces n).map (List.map (cylinderPlace c h u v n))) =
      2 * (n / 2 * r ^ 2 * sin (2 * π / n)) + n * (2 * r * sin (π / n) * BA.norm h) := by
  rw [← BA.cylinder_area c h u v r n hn hr F, cylinderOriented, ← applyFlips_map, BA.surfArea_applyFlips]
  simp [cylinderFlips, cylinderFaces]

/-- closed form with the frame of `get_circle_point_list` (normal = height vector `h ≠ 0`, base vector not parallel) -/
theorem BA.cylinder_area_closed_form (c h b : R3) (r : ℝ) (n : ℕ) (hn : 2 ≤ n) (hr : 0 ≤ r)
    (hh : 0 < normSq h) (hb : 0 < normSq (cross h b)) :
    BA.surfArea ((cylinderOriented n).map (List.map (cylinderPlace c h (frameU h b r) (frameV h b r) n))) =
      2 * (n / 2 * r ^ 2 * sin (2 * π / n)) + n * (2 * r * sin (π / n) * √(normSq h)) :=
  BA.cylinder_area c h _ _ r n hn hr (frame_real h b r hh hb)

/-! ### Cone -/
theorem BA.rad_facts (h u v : R3) (r α β : ℝ) (F : Frame h u v r) :
    dot (rad u v α) (rad u v β) = r ^ 2 * cos (β - α) ∧ dot (rad u v α) h = 0 := by
  obtain ⟨hu, hv, huv, hun, hvn⟩ := F
  simp only [normSq, dot] at hu hv huv hun hvn
  constructor
  · rw [cos_sub]
    simp only [rad, dot, add, smul]
    linear_combination (cos α * cos β) * hu + (sin α * sin β) * hv + (cos α * sin β + sin α * cos β) * huv
  · simp only [rad, dot, add, smul]
    linear_combination cos α * hun + sin α * hvn

/-- squared vector area of a mantle triangle (apex, P(α), P(β)) -/
theorem BA.cone_tri_normSq (c h u v : R3) (r α β : ℝ) (F : Frame h u v r) :
    normSq (cross (sub (circlePoint c u v α) (add c h)) (sub (circlePoint c u v β) (add c h))) =
      (r ^ 2 + normSq h) ^ 2 - (r ^ 2 * cos (β - α) + normSq h) ^ 2 := by
  rw [BA.normSq_cross, cone_slant c h u v r α F, cone_slant c h u v r β F]
  have e : dot (sub (circlePoint c u v α) (add c h)) (sub (circlePoint c u v β) (add c h)) =
      dot (rad u v α) (rad u v β) - dot (rad u v α) h - dot (rad u v β) h + normSq h := by
    simp only [circlePoint_eq, normSq, dot, sub, add]; ring
  rw [e, (BA.rad_facts h u v r α β F).1, (BA.rad_facts h u v r α β F).2, (BA.rad_facts h u v r β α F).2]
  ring

/-- per-face formula, mantle triangle of the Cone `(top_point, c_s, c_e)`: area = ½ · chord · slant height
    = `½·(2·r·sin(π/n))·√(|h|² + (r·cos(π/n))²)`  (the slant height is the distance from the apex to the chord's
    midpoint, at distance `r·cos(π/n)` from the axis) -/
theorem BA.cone_side_faceArea (c h u v : R3) (r : ℝ) (n i : ℕ) (hn : 1 ≤ n) (hr : 0 ≤ r) (F : Frame h u v r) :
    BA.faceArea [add c h, circlePoint c u v (stepAngle n i), circlePoint c u v (stepAngle n (i + 1))] =
      1 / 2 * (2 * r * sin (π / n)) * √(normSq h + (r * cos (π / n)) ^ 2) := by
  unfold BA.faceArea
  rw [tri_vecArea2]
  have hs := BA.sin_pi_div_nonneg n hn
  have hH := normSq_nonneg h
  have hpos : 0 ≤ normSq h + (r * cos (π / n)) ^ 2 := by positivity
  have : BA.norm (cross (sub (circlePoint c u v (stepAngle n i)) (add c h))
      (sub (circlePoint c u v (stepAngle n (i + 1))) (add c h))) =
      2 * r * sin (π / n) * √(normSq h + (r * cos (π / n)) ^ 2) := by
    apply BA.norm_of_sq _ _ (by positivity)
    rw [BA.cone_tri_normSq c h u v r _ _ F, stepAngle_succ, mul_pow, sq_sqrt hpos]
    have e : 2 * π / n = 2 * (π / n) := by ring
    rw [e, cos_two_mul]
    have := cos_sq_add_sin_sq (π / n)
    linear_combination (-4 * r ^ 2 * (normSq h + r ^ 2 * cos (π / n) ^ 2)) * this
  rw [this]; ring

/-- C14, Cone surface area, every n ≥ 2: the faces of `Cone(circle_center, radius, height_vector, n)`
    (`[circle] + n triangles (top_point, c_s, c_e)`, the base flipped by the constructor) have total area
    `n/2·r²·sin(2π/n) + n·½·(2·r·sin(π/n))·√(|h|² + (r·cos(π/n))²)` -/
theorem BA.cone_area (c h u v : R3) (r : ℝ) (n : ℕ) (hn : 2 ≤ n) (hr : 0 ≤ r) (F : Frame h u v r) :
    BA.surfArea ((coneOriented n).map (List.map (conePlace c h u v n))) =
      n / 2 * r ^ 2 * sin (2 * π / n) +
        n * (1 / 2 * (2 * r * sin (π / n)) * √(normSq h + (r * cos (π / n)) ^ 2)) := by
  have hn0 : 0 < n := by omega
  rw [coneOriented_eq]
  simp only [List.map_cons, List.map_map]
  rw [← flipCycle_map]
  have hbase : (List.range n).map (conePlace c h u v n) =
      (List.range n).map (fun i => circlePoint c u v (stepAngle n i)) := by
    apply List.map_congr_left
    intro i hi
    simp only [conePlace, if_pos (List.mem_range.mp hi)]
  have hside : (List.range n).map (List.map (conePlace c h u v n) ∘ fun i => [n, i, (i + 1) % n]) =
      (List.range n).map (fun i => [add c h, circlePoint c u v (stepAngle n i),
        circlePoint c u v (stepAngle n (i + 1))]) := by
    apply List.map_congr_left
    intro i hi
    have hi' := List.mem_range.mp hi
    have hm : (i + 1) % n < n := Nat.mod_lt _ hn0
    simp [conePlace, hi', hm, circlePoint_step_mod c u v n i hi']
  rw [hbase, hside]
  unfold BA.surfArea
  simp only [List.map_cons, List.sum_cons, List.map_map]
  rw [BA.faceArea_flip, BA.ring_faceArea _ h u v r n hn F,
    BA.sum_map_const n (1 / 2 * (2 * r * sin (π / n)) * √(normSq h + (r * cos (π / n)) ^ 2))]
  intro i _
  exact BA.cone_side_faceArea c h u v r n i (by omega) hr F

/-- the same for the face list as coded (before the orientation repair) -/
theorem BA.cone_area_coded (c h u v : R3) (r : ℝ) (n : ℕ) (hn : 2 ≤ n) (hr : 0 ≤ r) (F : Frame h u v r) :
    BA.surfArea ((coneFaces n).map (List.map (conePlace c h u v n))) =
      n / 2 * r ^ 2 * sin (2 * π / n) +
        n * (1 / 2 * (2 * r * sin (π / n)) * √(normSq h + (r * cos (π / n)) ^ 2)) := by
  rw [← BA.cone_area c h u v r n hn hr F, coneOriented, ← applyFlips_map, BA.surfArea_applyFlips]
  simp [coneFlips, coneFaces]

/-- closed form with the frame of `get_circle_point_list` -/
theorem BA.cone_area_closed_form (c h b : R3) (r : ℝ) (n : ℕ) (hn : 2 ≤ n) (hr : 0 ≤ r)
    (hh : 0 < normSq h) (hb : 0 < normSq (cross h b)) :
    BA.surfArea ((coneOriented n).map (List.map (conePlace c h (frameU h b r) (frameV h b r) n))) =
      n / 2 * r ^ 2 * sin (2 * π / n) +
        n * (1 / 2 * (2 * r * sin (π / n)) * √(normSq h + (r * cos (π / n)) ^ 2)) :=
  BA.cone_area c h _ _ r n hn hr (frame_real h b r hh hb)

#print axioms BA.circle_faceArea
#print axioms BA.cylinder_area
#print axioms BA.cylinder_area_coded
#print axioms BA.cylinder_area_closed_form
#print axioms BA.cone_area
#print axioms BA.cone_area_coded
#print axioms BA.cone_area_closed_form
end BuildersReal
end G3D
