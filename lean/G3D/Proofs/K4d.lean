import G3D.Proofs.K4c

/-! # Kernel K4, part d: the case with an interior point — geometry

    A finite system of half-spaces `f.side x ≤ 0` (`f ∈ L`) with a strictly interior point `o`.
    * `K4.exists_generic` : a direction avoiding finitely many planes through the origin
    * `K4.Generic`, `K4.exit`, `K4.exit_generic` : along a generic direction the ray from `o` leaves the system at a
      point where all tight constraints describe the same half-space (`SamePlane`)
    * `K4.small_step` : moving a little along a direction that does not increase the tight constraints -/
namespace G3D
open V3

/-! ### a generic direction -/
theorem K4.exists_gt : ∀ (bad : List Rat), ∃ ε : Rat, 0 < ε ∧ ∀ b ∈ bad, b < ε := by
  intro bad
  induction bad with
  | nil => exact ⟨1, one_pos, fun b hb => by cases hb⟩
  | cons a l ih =>
    obtain ⟨ε, hε, h⟩ := ih
    refine ⟨max ε (a + 1), lt_of_lt_of_le hε (le_max_left _ _), ?_⟩
    intro b hb
    rcases List.mem_cons.mp hb with rfl | hb
    · exact lt_of_lt_of_le (by linarith) (le_max_right _ _)
    · exact lt_of_lt_of_le (h b hb) (le_max_left _ _)

/-- finitely many planes through the origin do not cover space -/
theorem K4.exists_generic : ∀ (ms : List V3), (∀ m ∈ ms, m ≠ zero) → ∃ w : V3, ∀ m ∈ ms, dot m w ≠ 0 := by
  intro ms
  induction ms with
  | nil => intro _; exact ⟨zero, fun m hm => by cases hm⟩
  | cons m ms ih =>
    intro hne
    obtain ⟨w0, hw0⟩ := ih (fun m' hm' => hne m' (by simp [hm']))
    have hm : m ≠ zero := hne m (by simp)
    have hN := normSq_pos hm
    obtain ⟨ε, hε, hbad⟩ := K4.exists_gt ((ms.map (fun m' => - dot m' w0 / dot m' m)) ++ [- dot m w0 / normSq m])
    refine ⟨add w0 (smul ε m), ?_⟩
    intro m' hm'
    have e : dot m' (add w0 (smul ε m)) = dot m' w0 + ε * dot m' m := by simp only [dot, add, smul]; ring
    rw [e]
    rcases List.mem_cons.mp hm' with rfl | hm'
    · intro h0
      have hb := hbad (- dot m' w0 / normSq m') (by simp)
      have : ε = - dot m' w0 / normSq m' := by
        rw [eq_div_iff (ne_of_gt hN)]
        have : dot m' m' = normSq m' := rfl
        rw [← this]; linarith
      linarith
    · intro h0
      by_cases hmm : dot m' m = 0
      · rw [hmm] at h0
        exact hw0 m' hm' (by linarith)
      · have hb := hbad (- dot m' w0 / dot m' m)
          (List.mem_append_left _ (List.mem_map.mpr ⟨m', hm', rfl⟩))
        have : ε = - dot m' w0 / dot m' m := by
          rw [eq_div_iff hmm]; linarith
        linarith

/-! ### generic rays in a system of half-spaces -/

/-- the ray from `o` along `w` meets the planes of `f` and `g` at the same parameter iff `w ⟂ mvec o f g` -/
def K4.mvec (o : V3) (f g : Polygon) : V3 := sub (smul (g.side o) f.plane.n) (smul (f.side o) g.plane.n)

theorem K4.side_affine (f : Polygon) (o x : V3) : f.side x = f.side o + dot (sub x o) f.plane.n := by
  simp only [Polygon.side, dot, sub]; ring

theorem K4.samePlane_of_mvec (o : V3) (f g : Polygon) (hf : f.side o < 0) (hg : g.side o < 0)
    (h : K4.mvec o f g = zero) : SamePlane f g := by
  have hf0 : f.side o ≠ 0 := ne_of_lt hf
  have hx := congrArg V3.x h
  have hy := congrArg V3.y h
  have hz := congrArg V3.z h
  simp only [K4.mvec, sub, smul, zero] at hx hy hz
  have hn : g.plane.n = smul (g.side o / f.side o) f.plane.n := by
    apply V3.ext' <;> simp only [smul] <;> field_simp <;> linarith
  refine ⟨g.side o / f.side o, div_pos_of_neg_of_neg hg hf, hn, fun x => ?_⟩
  rw [K4.side_affine g o x, K4.side_affine f o x, hn]
  simp only [dot, smul]
  field_simp

/-- `w` is generic for the base point `o` and the system `L` -/
def K4.Generic (o : V3) (L : List Polygon) (w : V3) : Prop :=
  ∀ f ∈ L, ∀ g ∈ L, K4.mvec o f g ≠ zero → dot (K4.mvec o f g) w ≠ 0

theorem K4.Generic.neg {o : V3} {L : List Polygon} {w : V3} (h : K4.Generic o L w) : K4.Generic o L (neg w) := by
  intro f hf g hg hm
  have : dot (K4.mvec o f g) (V3.neg w) = - dot (K4.mvec o f g) w := by simp only [dot, V3.neg]; ring
  rw [this]
  exact neg_ne_zero.mpr (h f hf g hg hm)

theorem K4.Generic.sub {o : V3} {L T : List Polygon} {w : V3} (h : K4.Generic o L w) (hT : ∀ f ∈ T, f ∈ L) :
    K4.Generic o T w := fun f hf g hg hm => h f (hT f hf) g (hT g hg) hm

theorem K4.exists_generic_dir (o : V3) (L : List Polygon) (extra : List V3) (hex : ∀ m ∈ extra, m ≠ zero) :
    ∃ w, K4.Generic o L w ∧ ∀ m ∈ extra, dot m w ≠ 0 := by
  obtain ⟨w, hw⟩ := K4.exists_generic
    (extra ++ (L.flatMap (fun f => L.map (fun g => K4.mvec o f g))).filter (fun m => decide (m ≠ zero)))
    (by
      intro m hm
      rcases List.mem_append.mp hm with h | h
      · exact hex m h
      · simpa using (List.mem_filter.mp h).2)
  refine ⟨w, ?_, fun m hm => hw m (List.mem_append_left _ hm)⟩
  intro f hf g hg hm
  apply hw
  apply List.mem_append_right
  rw [List.mem_filter]
  refine ⟨List.mem_flatMap.mpr ⟨f, hf, List.mem_map.mpr ⟨g, hg, rfl⟩⟩, by simpa using hm⟩

/-- the ray from a strictly interior point `o` along `w` leaves the system at a positive parameter, on a constraint
    that looks along `w` -/
theorem K4.exit (L : List Polygon) (o w : V3) (ho : ∀ f ∈ L, f.side o < 0)
    (hw : ∃ f ∈ L, 0 < dot f.plane.n w) :
    ∃ t, 0 < t ∧ (∀ f ∈ L, f.side (pt o w t) ≤ 0) ∧ ∃ f ∈ L, f.side (pt o w t) = 0 := by
  set C : List (Rat × Rat) := L.map (fun f => (- f.side o, - dot f.plane.n w)) with hC
  have hfeas : ∀ t, Feas C t ↔ ∀ f ∈ L, f.side (pt o w t) ≤ 0 := by
    intro t
    unfold Feas
    constructor
    · intro h f hf
      have := h _ (List.mem_map.mpr ⟨f, hf, rfl⟩)
      simp only at this
      rw [f.side_pt]; linarith
    · intro h c hc'
      obtain ⟨f, hf, rfl⟩ := List.mem_map.mp hc'
      have := h f hf
      rw [f.side_pt] at this
      simp only; linarith
  have hF0 : Feas C 0 := (hfeas 0).mpr (fun f hf => by rw [K3.pt_zero]; exact le_of_lt (ho f hf))
  obtain ⟨f1, hf1, hf1w⟩ := hw
  obtain ⟨thi, hthi, _, c1, hc1, hc1s, hc1t⟩ := lp_hi C 0 hF0
    ⟨_, List.mem_map.mpr ⟨f1, hf1, rfl⟩, by simp only; linarith⟩
  obtain ⟨f2, hf2, rfl⟩ := List.mem_map.mp hc1
  simp only at hc1s hc1t
  have htight : f2.side (pt o w thi) = 0 := by rw [f2.side_pt]; linarith
  refine ⟨thi, ?_, (hfeas thi).mp hthi, f2, hf2, htight⟩
  have h1 := ho f2 hf2
  have h2 : 0 < dot f2.plane.n w := by linarith
  by_contra hle
  have hle := not_lt.mp hle
  have : dot f2.plane.n w * thi ≤ 0 := mul_nonpos_of_nonneg_of_nonpos (le_of_lt h2) hle
  linarith

/-- at a point of a generic ray all tight constraints describe the same half-space -/
theorem K4.exit_generic (L : List Polygon) (o w : V3) (ho : ∀ f ∈ L, f.side o < 0) (hgen : K4.Generic o L w)
    (t : Rat) (f g : Polygon) (hf : f ∈ L) (hg : g ∈ L) (hft : f.side (pt o w t) = 0)
    (hgt : g.side (pt o w t) = 0) : SamePlane f g := by
  apply K4.samePlane_of_mvec o f g (ho f hf) (ho g hg)
  by_contra hm
  apply hgen f hf g hg hm
  rw [f.side_pt] at hft
  rw [g.side_pt] at hgt
  have e : dot (K4.mvec o f g) w = g.side o * dot f.plane.n w - f.side o * dot g.plane.n w := by
    simp only [K4.mvec, dot, sub, smul]; ring
  rw [e]
  have h1 : f.side o = - (t * dot f.plane.n w) := by linarith
  have h2 : g.side o = - (t * dot g.plane.n w) := by linarith
  rw [h1, h2]; ring

/-- a small step along `e` stays in the system, if `e` does not increase the constraints that are tight -/
theorem K4.small_step : ∀ (L : List Polygon) (y e : V3),
    (∀ g ∈ L, g.side y < 0 ∨ (g.side y ≤ 0 ∧ dot g.plane.n e ≤ 0)) →
    ∃ ε : Rat, 0 < ε ∧ ∀ t, 0 ≤ t → t ≤ ε → ∀ g ∈ L, g.side (pt y e t) ≤ 0 := by
  intro L
  induction L with
  | nil => intro y e _; exact ⟨1, one_pos, fun t _ _ g hg => by cases hg⟩
  | cons g L ih =>
    intro y e h
    obtain ⟨ε', hε', h'⟩ := ih y e (fun g' hg' => h g' (by simp [hg']))
    have hg := h g (by simp)
    by_cases hpos : 0 < dot g.plane.n e
    · have hlt : g.side y < 0 := by
        rcases hg with h1 | h1
        · exact h1
        · exact absurd hpos (not_lt.mpr h1.2)
      refine ⟨min ε' (- g.side y / dot g.plane.n e), lt_min hε' (div_pos (by linarith) hpos), ?_⟩
      intro t ht0 ht g' hg'
      rcases List.mem_cons.mp hg' with rfl | hg'
      · rw [g'.side_pt]
        have h1 : t ≤ - g'.side y / dot g'.plane.n e := le_trans ht (min_le_right _ _)
        rw [le_div_iff₀ hpos] at h1
        linarith
      · exact h' t ht0 (le_trans ht (min_le_left _ _)) g' hg'
    · have hnp := not_lt.mp hpos
      refine ⟨ε', hε', ?_⟩
      intro t ht0 ht g' hg'
      rcases List.mem_cons.mp hg' with rfl | hg'
      · rw [g'.side_pt]
        have h1 : g'.side y ≤ 0 := by
          rcases hg with h1 | h1
          · exact le_of_lt h1
          · exact h1.1
        have : t * dot g'.plane.n e ≤ 0 := mul_nonpos_of_nonneg_of_nonpos ht0 hnp
        linarith
      · exact h' t ht0 ht g' hg'

end G3D
