import G3D.Proofs.MeasPolygon
import G3D.Proofs.MovePolyhedron
import Mathlib.Tactic.Ring
import Mathlib.Tactic.Linarith
import Mathlib.Tactic.FieldSimp

/-! # C06, polyhedron: volume, edge lengths and face areas are the true measures, whatever the order of the faces,
    the starting vertex of their cycles and the orientation of their normals

    * `Polyhedron.volume_eq_surface_integral`: for a `Valid` body stored the way the constructor stores it
      (`Polyhedron.Stored`: every pyramid stands on a valid polygon with the vertices of the corresponding stored face,
      its apex is the stored centre, and the centre is on the inner side of every face)
      `volume = ⅙ Σ_faces (p₀ − q)·A_f` for EVERY reference point `q` — the divergence-theorem volume of the closed
      surface, with the positive sign.
    * `Polyhedron.mk?_stored`: every successful constructor call on valid polygons whose result is `Valid` is `Stored`.
    * `Polyhedron.mk?_reoriented_measures`: the constructor on the faces of a valid reference body `B0` given in any
      order / with any starting vertex / either orientation: the volume is the surface integral over `B0`, the edge
      lengths are those of the undirected edges of `B0`, the face areas are those of the faces of `B0`.
    * `Polyhedron.mk?_reoriented_measures_two`: two such inputs give the same volume, edge lengths and face areas. -/
namespace G3D
open V3

/-! ### lists of representatives of the same classes -/
/-- two lists of pairwise inequivalent representatives of the same classes have the same multiset of values of any
    class function -/
theorem Meas.perm_map_of_classes {α β : Type} (R : α → α → Prop) (hs : ∀ a b, R a b → R b a)
    (ht : ∀ a b c, R a b → R b c → R a c) (φ : α → β) (hφ : ∀ a b, R a b → φ a = φ b) :
    ∀ l1 l2 : List α, l1.Pairwise (fun a b => ¬ R a b) → l2.Pairwise (fun a b => ¬ R a b) →
      (∀ a ∈ l1, ∃ b ∈ l2, R a b) → (∀ b ∈ l2, ∃ a ∈ l1, R a b) → List.Perm (l1.map φ) (l2.map φ) := by
  intro l1
  induction l1 with
  | nil =>
    intro l2 _ _ _ h2
    cases l2 with
    | nil => exact List.Perm.refl _
    | cons b l2 => obtain ⟨a, ha, _⟩ := h2 b (by simp); cases ha
  | cons a t ih =>
    intro l2 p1 p2 h1 h2
    obtain ⟨b, hb, hab⟩ := h1 a (by simp)
    obtain ⟨s, u, rfl⟩ := List.append_of_mem hb
    rw [List.pairwise_cons] at p1
    have p2' := p2
    rw [List.pairwise_append, List.pairwise_cons] at p2'
    obtain ⟨ps, ⟨pbu, pu⟩, psu⟩ := p2'
    have hrec : List.Perm (t.map φ) ((s ++ u).map φ) := by
      apply ih (s ++ u) p1.2
      · rw [List.pairwise_append]
        exact ⟨ps, pu, fun x hx y hy => psu x hx y (List.mem_cons_of_mem _ hy)⟩
      · intro a' ha'
        obtain ⟨b', hb', hab'⟩ := h1 a' (List.mem_cons_of_mem _ ha')
        refine ⟨b', ?_, hab'⟩
        rcases List.mem_append.mp hb' with h | h
        · exact List.mem_append_left _ h
        · rcases List.mem_cons.mp h with rfl | h
          · exact absurd (ht _ _ _ hab (hs _ _ hab')) (p1.1 a' ha')
          · exact List.mem_append_right _ h
      · intro b' hb'
        have hb2 : b' ∈ s ++ b :: u := by
          rcases List.mem_append.mp hb' with h | h
          · exact List.mem_append_left _ h
          · exact List.mem_append_right _ (List.mem_cons_of_mem _ h)
        obtain ⟨a', ha', hab'⟩ := h2 b' hb2
        rcases List.mem_cons.mp ha' with rfl | ha'
        · exfalso
          rcases List.mem_append.mp hb' with h | h
          · exact psu b' h b (by simp) (ht _ _ _ (hs _ _ hab') hab)
          · exact pbu b' h (ht _ _ _ (hs _ _ hab) hab')
        · exact ⟨a', ha', hab'⟩
    have h3 : List.Perm ((s ++ b :: u).map φ) (φ b :: (s ++ u).map φ) := by
      rw [List.map_append, List.map_cons, List.map_append]
      exact List.perm_middle
    rw [List.map_cons, hφ a b hab]
    exact (List.Perm.cons _ hrec).trans h3.symm

theorem Meas.lenSq_same {s o : Seg} (h : s.same o = true) : s.lenSq = o.lenSq := by
  rcases (Seg.same_iff s o).mp h with ⟨ha, hb⟩ | ⟨ha, hb⟩
  · unfold Seg.lenSq; rw [ha, hb]
  · unfold Seg.lenSq; rw [ha, hb]; exact Meas.normSq_sub_comm _ _

/-- face lists with the same undirected edges give edge lists with the same multiset of squared lengths -/
theorem Meas.edgesOf_lenSq_perm (i1 i2 : List Polygon) (h : SameUEdges i1 i2) :
    List.Perm ((edgesOf i1 []).map Seg.lenSq) ((edgesOf i2 []).map Seg.lenSq) := by
  apply Meas.perm_map_of_classes (fun a b : Seg => a.same b = true) (fun _ _ => Seg.same_symm)
    (fun _ _ _ => Seg.same_trans) Seg.lenSq (fun _ _ => Meas.lenSq_same) _ _
    (edgesOf_noSame i1 [] List.Pairwise.nil) (edgesOf_noSame i2 [] List.Pairwise.nil)
    (edgesOf_class_sub i1 i2 h.1)
  intro b hb
  obtain ⟨a, ha, hab⟩ := edgesOf_class_sub i2 i1 h.2 b hb
  exact ⟨a, ha, Seg.same_symm hab⟩

theorem Meas.sameUEdges_symm {i1 i2 : List Polygon} (h : SameUEdges i1 i2) : SameUEdges i2 i1 := ⟨h.2, h.1⟩

theorem Meas.sameUEdges_trans {i1 i2 i3 : List Polygon} (h : SameUEdges i1 i2) (h' : SameUEdges i2 i3) :
    SameUEdges i1 i3 := by
  constructor
  · intro f hf e he
    obtain ⟨g, hg, hge⟩ := h.1 f hf e he
    rcases hge with hge | hge
    · exact h'.1 g hg e hge
    · obtain ⟨k, hk, hke⟩ := h'.1 g hg _ hge
      exact ⟨k, hk, hke.symm⟩
  · intro f hf e he
    obtain ⟨g, hg, hge⟩ := h'.2 f hf e he
    rcases hge with hge | hge
    · exact h.2 g hg e hge
    · obtain ⟨k, hk, hke⟩ := h.2 g hg _ hge
      exact ⟨k, hk, hke.symm⟩

/-- two valid polygons on the same vertex set have the same undirected edges -/
theorem Meas.uedges_of_same_verts (f g : Polygon) (hf : f.Valid) (hg : g.Valid) (hmem : ∀ p, p ∈ g.pts ↔ p ∈ f.pts) :
    (∀ e, e ∈ closedPairs g.pts → e ∈ closedPairs f.pts ∨ (e.2, e.1) ∈ closedPairs f.pts) ∧
    (∀ e, e ∈ closedPairs f.pts → e ∈ closedPairs g.pts ∨ (e.2, e.1) ∈ closedPairs g.pts) := by
  obtain ⟨k, _, _, h⟩ := Meas.cycle_cases f g hf hg hmem
  rcases h with ⟨_, hp⟩ | ⟨_, hp⟩
  · exact ⟨fun e he => Or.inl (hp.mem_iff.mp he), fun e he => Or.inl (hp.mem_iff.mpr he)⟩
  · constructor
    · intro e he
      right
      obtain ⟨e', he', hsw⟩ := List.mem_map.mp (hp.mem_iff.mp he)
      have : e' = (e.2, e.1) := by rw [← hsw]; rfl
      rw [← this]; exact he'
    · intro e he
      right
      exact hp.mem_iff.mpr (List.mem_map.mpr ⟨e, he, rfl⟩)

/-- a reordered, re-oriented face list has the undirected edges of the reference body -/
theorem Meas.sameUEdges_reoriented (B0 : Polyhedron) (hV : B0.Valid) (F input : List Polygon)
    (hperm : List.Perm F B0.faces) (hrel : List.Forall₂ Reoriented F input) : SameUEdges input B0.faces := by
  constructor
  · intro g hg e he
    obtain ⟨f, hf, hr⟩ := Forall₂.exists_left hrel g hg
    have hf0 := hperm.mem_iff.mp hf
    exact ⟨f, hf0, (Meas.uedges_of_same_verts f g (hV.faces_valid f hf0) hr.valid hr.same_verts).1 e he⟩
  · intro f hf e he
    obtain ⟨g, hg, hr⟩ := Forall₂.exists_right hrel f (hperm.mem_iff.mpr hf)
    exact ⟨g, hg, (Meas.uedges_of_same_verts f g (hV.faces_valid f hf) hr.valid hr.same_verts).2 e he⟩

/-! ### the cone term of one face -/
/-- `(p₀ − q)·A` : six times the signed volume of the cone over the vertex cycle `l` with apex `q`
    (`p₀` the first vertex, `A` twice the vector area).  `vol6 fs q` is the sum of these terms. -/
def coneTerm (l : List V3) (q : V3) : Rat := dot (sub (l.headD zero) q) (vecArea2 l)

theorem vol6_eq_sum_coneTerm (fs : List (List V3)) (q : V3) : vol6 fs q = (fs.map (fun l => coneTerm l q)).sum := rfl

/-- the anchor vertex does not matter: all vertices lie in the face plane and the vector area is normal to it -/
theorem Meas.cone_anchor (f : Polygon) (hf : f.Valid) (a b : V3) (ha : a ∈ f.pts) (hb : b ∈ f.pts) (c : V3) :
    dot (sub a c) (vecArea2 f.pts) = dot (sub b c) (vecArea2 f.pts) := by
  have hn : f.plane.n ≠ zero := Polygon.plane_WF f hf
  obtain ⟨_, _, _, _, _, hpl, _⟩ := hf
  have hpar := vecArea2_parallel f.plane.n f.plane.p hn f.pts hpl
  have hd : dot f.plane.n (sub a b) = 0 := inPlane_diff (hpl _ hb) (hpl _ ha)
  rw [hpar]
  generalize dot f.plane.n (vecArea2 f.pts) / normSq f.plane.n = κ
  simp only [dot, sub, smul] at hd ⊢
  linear_combination κ * hd

theorem Meas.headD_mem (f : Polygon) (hf : f.Valid) : f.pts.headD zero ∈ f.pts := by
  obtain ⟨p0, p1, p2, rest, hp, _, _⟩ := hf
  rw [hp]; simp

/-- the cone term of a second valid polygon on the same vertices is `±` that of the first -/
theorem Meas.coneTerm_cases (f g : Polygon) (hf : f.Valid) (hg : g.Valid) (hmem : ∀ p, p ∈ g.pts ↔ p ∈ f.pts)
    (c : V3) : coneTerm g.pts c = coneTerm f.pts c ∨ coneTerm g.pts c = - coneTerm f.pts c := by
  obtain ⟨k, _, _, h⟩ := Meas.vecArea2_cases f g hf hg hmem
  have hanchor := Meas.cone_anchor f hf (g.pts.headD zero) (f.pts.headD zero)
    ((hmem _).mp (Meas.headD_mem g hg)) (Meas.headD_mem f hf) c
  unfold coneTerm
  rcases h with ⟨_, h⟩ | ⟨_, h⟩
  · left; rw [h, hanchor]
  · right
    rw [h, ← hanchor]
    simp only [dot, neg]; ring

/-- an outward copy (rotated cycle, same direction of the normal) has the same cone term -/
theorem Meas.coneTerm_outwardCopy (f h : Polygon) (hf : f.Valid) (hc : OutwardCopy f h) (c : V3) :
    coneTerm h.pts c = coneTerm f.pts c := by
  have hanchor := Meas.cone_anchor f hf (h.pts.headD zero) (f.pts.headD zero)
    ((hc.mem_iff _).mp (Meas.headD_mem h hc.valid)) (Meas.headD_mem f hf) c
  unfold coneTerm
  rw [vecArea2_of_perm hc.closedPairs_perm, hanchor]

/-- a valid cycle is positively oriented about its normal: `0 ≤ n·A` -/
theorem Meas.dot_n_vecArea2_nonneg (f : Polygon) (hf : f.Valid) : 0 ≤ dot f.plane.n (vecArea2 f.pts) := by
  obtain ⟨p0, p1, p2, rest, hp, hpl, htp⟩ := hf
  rw [hp] at hpl htp ⊢
  unfold vecArea2
  rw [← polygon_area_shoelace f.plane.n f.plane.p p0 p1 p2 rest hpl htp]
  apply List.sum_nonneg
  intro x hx
  obtain ⟨e, _, rfl⟩ := List.mem_map.mp hx
  unfold triNum absQ; split <;> linarith

/-- seen from a point on the inner side of an outward face the cone term is non-negative -/
theorem Meas.coneTerm_nonneg (f : Polygon) (hf : f.Valid)
    (hcf : G3D.inPlane f.plane.n f.plane.p f.center = true) (c : V3) (hc : f.side c ≤ 0) :
    0 ≤ coneTerm f.pts c := by
  have hn : f.plane.n ≠ zero := Polygon.plane_WF f hf
  have hN := normSq_pos hn
  have hA := Meas.dot_n_vecArea2_nonneg f hf
  have hm := Meas.headD_mem f hf
  obtain ⟨_, _, _, _, _, hpl, _⟩ := hf
  have hpar := vecArea2_parallel f.plane.n f.plane.p hn f.pts hpl
  have h0 := hpl _ hm
  simp only [G3D.inPlane, beq_iff_eq] at h0 hcf
  unfold coneTerm
  rw [hpar]
  set κ := dot f.plane.n (vecArea2 f.pts) / normSq f.plane.n with hκ
  have hκ0 : 0 ≤ κ := div_nonneg hA (le_of_lt hN)
  have e1 : dot (sub (f.pts.headD zero) c) (smul κ f.plane.n) =
      κ * (dot f.plane.n (sub (f.pts.headD zero) f.plane.p) - dot f.plane.n (sub f.center f.plane.p)
        - f.side c) := by
    simp only [Polygon.side, dot, sub, smul]; ring
  rw [e1, h0, hcf]
  apply mul_nonneg hκ0
  linarith

theorem Meas.absQ_of_nonneg {x : Rat} (h : 0 ≤ x) : absQ x = x := by
  unfold absQ; rw [if_neg (not_lt.mpr h)]

/-- `Pyramid(g, c).volume()` in cone form -/
theorem Meas.pyramidVolume_cone (g : Polygon) (hg : g.Valid) (hcg : g.CentreInside) (c : V3) :
    pyramidVolume g c = absQ (coneTerm g.pts c) / 6 := by
  rw [pyramidVolume_eq_cone g hg hcg c]
  congr 1
  unfold coneTerm
  rw [← absQ_neg_q]
  congr 1
  simp only [dot, sub]; ring

/-- the pyramid over ANY valid polygon `g` on the vertices of an outward face `f`, apex on the inner side of `f`:
    its volume is the (non-negative) cone term of `f` over six -/
theorem Meas.pyramidVolume_of_face (f g : Polygon) (hf : f.Valid)
    (hcf : G3D.inPlane f.plane.n f.plane.p f.center = true) (hg : g.Valid) (hcg : g.CentreInside)
    (hmem : ∀ p, p ∈ g.pts ↔ p ∈ f.pts) (c : V3) (hc : f.side c ≤ 0) :
    pyramidVolume g c = coneTerm f.pts c / 6 := by
  rw [Meas.pyramidVolume_cone g hg hcg c]
  have h0 := Meas.coneTerm_nonneg f hf hcf c hc
  rcases Meas.coneTerm_cases f g hf hg hmem c with h | h
  · rw [h, Meas.absQ_of_nonneg h0]
  · rw [h, absQ_neg_q, Meas.absQ_of_nonneg h0]

/-! ### the volume is the surface integral -/
/-- the body is stored the way the constructor stores it: pyramid `i` stands on a valid polygon (stored centre inside)
    with the vertices of face `i`, its apex is the stored centre, and the stored centre is on the inner side of every
    face -/
structure Polyhedron.Stored (B : Polyhedron) : Prop where
  pyr : List.Forall₂ (fun f (pa : Polygon × V3) => pa.1.Valid ∧ pa.1.CentreInside ∧
    (∀ p, p ∈ pa.1.pts ↔ p ∈ f.pts) ∧ pa.2 = B.center) B.faces B.pyramids
  inside : ∀ f ∈ B.faces, f.side B.center ≤ 0

theorem Meas.sum_map_div (l : List (List V3)) (g : List V3 → Rat) (k : Rat) :
    (l.map (fun x => g x / k)).sum = (l.map g).sum / k := by
  induction l with
  | nil => simp
  | cons a l ih => simp only [List.map_cons, List.sum_cons, ih]; ring

/-- **C06, volume is the surface integral.**  For a `Valid` body stored as the constructor stores it, the sum of the
    pyramid volumes `Σ h·A/3` is `⅙ Σ_faces (p₀ − q)·A_f` for EVERY reference point `q`; in particular that surface
    integral is non-negative (outward faces). -/
theorem Polyhedron.volume_eq_surface_integral (B : Polyhedron) (hV : B.Valid) (hS : B.Stored) (q : V3) :
    B.volume = vol6 (B.faces.map (·.pts)) q / 6 ∧ 0 ≤ vol6 (B.faces.map (·.pts)) q := by
  rw [vol6_ref_independent _ hV.closed q B.center]
  have hterm : ∀ f ∈ B.faces, 0 ≤ coneTerm f.pts B.center := fun f hf =>
    Meas.coneTerm_nonneg f (hV.faces_valid f hf) (hV.center_in_plane f hf) _ (hS.inside f hf)
  constructor
  · unfold Polyhedron.volume
    have h1 : B.pyramids.map (fun pa => pyramidVolume pa.1 pa.2) =
        B.faces.map (fun f => coneTerm f.pts B.center / 6) := by
      symm
      apply forall₂_map_eq
      exact Forall₂.imp_mem hS.pyr (fun f hf pa _ ⟨hg, hcg, hmem, hap⟩ => by
        rw [hap]
        exact (Meas.pyramidVolume_of_face f pa.1 (hV.faces_valid f hf) (hV.center_in_plane f hf) hg hcg hmem
          B.center (hS.inside f hf)).symm)
    rw [h1, vol6_eq_sum_coneTerm, List.map_map]
    have := Meas.sum_map_div (B.faces.map (·.pts)) (fun l => coneTerm l B.center) 6
    rw [List.map_map, List.map_map] at this
    exact this
  · rw [vol6_eq_sum_coneTerm, List.map_map]
    apply List.sum_nonneg
    intro x hx
    obtain ⟨f, hf, rfl⟩ := List.mem_map.mp hx
    exact hterm f hf
#print axioms Polyhedron.volume_eq_surface_integral

/-- the absolute-value form, for every reference point -/
theorem Polyhedron.volume_eq_abs_surface_integral (B : Polyhedron) (hV : B.Valid) (hS : B.Stored) (q : V3) :
    B.volume = absQ (vol6 (B.faces.map (·.pts)) q) / 6 := by
  obtain ⟨h1, h2⟩ := B.volume_eq_surface_integral hV hS q
  rw [Meas.absQ_of_nonneg h2]; exact h1

/-! ### the constructor stores bodies this way -/
theorem Meas.flipOf_facts (c : V3) (g : Polygon) (hg : g.Valid) (hcg : g.CentreInside) :
    (flipOf c g).Valid ∧ (flipOf c g).CentreInside ∧ (∀ p, p ∈ (flipOf c g).pts ↔ p ∈ g.pts) := by
  by_cases hd : dot (sub g.plane.p c) g.plane.n < 0
  · obtain ⟨Q, _, _, _, hQ, _⟩ := Polygon.neg?_of_valid g hg
    have hflip : flipOf c g = Q := by unfold flipOf; rw [if_pos hd, hQ]
    obtain ⟨h1, h2, _, _, _, h3⟩ := Polygon.neg?_measures g hg hcg Q hQ
    rw [hflip]; exact ⟨h1, h2, h3⟩
  · have hflip : flipOf c g = g := by unfold flipOf; rw [if_neg hd]
    rw [hflip]; exact ⟨hg, hcg, fun _ => Iff.rfl⟩

theorem Meas.forall₂_map_map {α β γ : Type} (R : β → γ → Prop) (φ : α → β) (ψ : α → γ) (l : List α)
    (h : ∀ a ∈ l, R (φ a) (ψ a)) : List.Forall₂ R (l.map φ) (l.map ψ) := by
  induction l with
  | nil => exact List.Forall₂.nil
  | cons a l ih =>
    exact List.Forall₂.cons (h a (by simp)) (ih (fun b hb => h b (List.mem_cons_of_mem _ hb)))

/-- **every `Valid` result of the constructor on valid polygons (stored centres inside) is `Stored`** -/
theorem Polyhedron.mk?_stored (input : List Polygon) (hv : ∀ g ∈ input, g.Valid)
    (hc : ∀ g ∈ input, g.CentreInside) (B : Polyhedron) (h : Polyhedron.mk? input = .ok B) (hV : B.Valid) :
    B.Stored := by
  obtain ⟨_, _, _, _, hF, hP, _, hout, _, _⟩ := Polyhedron.mk?_eq input B h
  constructor
  · rw [hF, hP]
    apply Meas.forall₂_map_map
    intro g hg
    exact ⟨hv g hg, hc g hg, fun p => ((Meas.flipOf_facts B.center g (hv g hg) (hc g hg)).2.2 p).symm, rfl⟩
  · intro f hf
    rw [hF] at hf
    obtain ⟨g, hg, rfl⟩ := List.mem_map.mp hf
    have hmem : flipOf B.center g ∈ B.faces := by rw [hF]; exact List.mem_map.mpr ⟨g, hg, rfl⟩
    have := hout g hg
    rw [Polygon.side_eq_neg_planeTest _ (hV.center_in_plane _ hmem)] at this
    linarith
#print axioms Polyhedron.mk?_stored

/-! ### the constructor on a reordered, re-oriented face list of a valid reference body -/
/-- **C06, polyhedron: order of the faces, starting vertices, orientation of the normals.**
    `input`: the faces of the `Valid` body `B0` in any order, each replaced by any valid polygon on the same vertex
    set (rotated cycle, `-f`, rescaled normal …) whose stored centre is inside (true for the vertex mean).  For every
    successful `ConvexPolyhedron(input)`:
    * the volume is the surface integral `⅙ Σ_{f ∈ B0.faces} (p₀ − q)·A_f` of the reference body, for every `q`;
    * the squared edge lengths are, as a multiset, those of the undirected edges of `B0`;
    * the squared face areas are, as a multiset, the squared true areas `|½ Σ pᵢ × pᵢ₊₁|²` of the faces of `B0`;
    * the centre is the mean of the distinct face vertices of `B0`. -/
theorem Polyhedron.mk?_reoriented_measures (B0 : Polyhedron) (hV : B0.Valid) (F input : List Polygon)
    (hperm : List.Perm F B0.faces) (hrel : List.Forall₂ Reoriented F input)
    (hc : ∀ g ∈ input, g.CentreInside) (B : Polyhedron) (h : Polyhedron.mk? input = .ok B) :
    B.Valid ∧ B.Stored ∧
    (∀ q, B.volume = vol6 (B0.faces.map (·.pts)) q / 6) ∧
    List.Perm B.edgeLenSqs ((edgesOf B0.faces []).map Seg.lenSq) ∧
    List.Perm (B.faces.map Polygon.areaSq) (B0.faces.map (fun f => normSq (vecArea2 f.pts) / 4)) ∧
    B.center = meanV (collectVerts B0.faces) := by
  obtain ⟨hBV, hBc, _, hcop, _, _, _⟩ := Polyhedron.mk?_reoriented_queries B0 hV F input hperm hrel B h
  have hvin : ∀ g ∈ input, g.Valid := by
    intro g hg
    obtain ⟨f, _, hr⟩ := Forall₂.exists_left hrel g hg
    exact hr.valid
  have hS := Polyhedron.mk?_stored input hvin hc B h hBV
  obtain ⟨_, hE, _, _, hF, _⟩ := Polyhedron.mk?_eq input B h
  have hFmem : ∀ f ∈ F, f ∈ B0.faces := fun f hf => hperm.mem_iff.mp hf
  refine ⟨hBV, hS, ?_, ?_, ?_, hBc⟩
  · intro q
    rw [(B.volume_eq_surface_integral hBV hS B.center).1, vol6_ref_independent _ hV.closed q B.center]
    congr 1
    rw [vol6_eq_sum_coneTerm, vol6_eq_sum_coneTerm, List.map_map, List.map_map]
    have h1 : B.faces.map ((fun l => coneTerm l B.center) ∘ fun f => f.pts) =
        F.map ((fun l => coneTerm l B.center) ∘ fun f => f.pts) := by
      symm
      apply forall₂_map_eq
      exact Forall₂.imp_mem hcop (fun f hf h' _ hoc => by
        simp only [Function.comp]
        exact (Meas.coneTerm_outwardCopy f h' (hV.faces_valid f (hFmem f hf)) hoc B.center).symm)
    rw [h1]
    exact (hperm.map _).sum_eq
  · unfold Polyhedron.edgeLenSqs
    rw [hE]
    exact Meas.edgesOf_lenSq_perm _ _ (Meas.sameUEdges_reoriented B0 hV F input hperm hrel)
  · have h1 : B.faces.map Polygon.areaSq = F.map (fun f => normSq (vecArea2 f.pts) / 4) := by
      symm
      apply forall₂_map_eq
      exact Forall₂.imp_mem hcop (fun f hf h' hh' hoc => by
        have hci : h'.CentreInside := by
          rw [hF] at hh'
          obtain ⟨g, hg, rfl⟩ := List.mem_map.mp hh'
          exact (Meas.flipOf_facts B.center g (hvin g hg) (hc g hg)).2.1
        rw [h'.areaSq_eq_vecArea hoc.valid hci, vecArea2_of_perm hoc.closedPairs_perm])
    rw [h1]
    exact hperm.map _
#print axioms Polyhedron.mk?_reoriented_measures

/-- the link with the polygon constructor: ANY successful `ConvexPolygon(points, reverse)` on a point list with the
    vertex set of the valid face `f` (any order, repetitions allowed) is an admissible input face for
    `Polyhedron.mk?_reoriented_measures` -/
theorem Reoriented.of_mk? (f : Polygon) (hf : f.Valid) (i : List V3) (rev : Bool) (g : Polygon)
    (hset : ∀ p, p ∈ i ↔ p ∈ f.pts) (h : Polygon.mk? i rev = .ok g) : Reoriented f g ∧ g.CentreInside := by
  have hperm : List.Perm (dedupV i) f.pts := by
    rw [List.perm_ext_iff_of_nodup (dedupV_nodup i) hf.nodup]
    intro p; rw [dedupV_mem_iff]; exact hset p
  have hx : StrictConvexPos (dedupV i) := hf.strictConvexPos.perm hperm
  obtain ⟨hv, hci, hp, _, hc⟩ := Polygon.mk?_measure_facts i rev g h hx
  have hvg := hv
  obtain ⟨q0, _, _, _, hq, hplg, _⟩ := hvg
  refine ⟨⟨hv, ?_, fun p => by rw [hp.mem_iff, hperm.mem_iff]⟩, hci⟩
  have hne : g.pts ≠ [] := by rw [hq]; simp
  have := meanV_inplane g.plane.n g.plane.p g.pts hne (by
    intro p hpm
    simpa [G3D.inPlane] using hplg p hpm)
  rw [hc]; simpa [G3D.inPlane] using this

/-- **two inputs**: any two reordered, re-oriented face lists of the same valid body give bodies with the same volume,
    the same multiset of squared edge lengths, the same multiset of squared face areas and the same centre -/
theorem Polyhedron.mk?_reoriented_measures_two (B0 : Polyhedron) (hV : B0.Valid)
    (F1 F2 input1 input2 : List Polygon)
    (hperm1 : List.Perm F1 B0.faces) (hrel1 : List.Forall₂ Reoriented F1 input1)
    (hperm2 : List.Perm F2 B0.faces) (hrel2 : List.Forall₂ Reoriented F2 input2)
    (hc1 : ∀ g ∈ input1, g.CentreInside) (hc2 : ∀ g ∈ input2, g.CentreInside)
    (B1 B2 : Polyhedron) (h1 : Polyhedron.mk? input1 = .ok B1) (h2 : Polyhedron.mk? input2 = .ok B2) :
    B1.volume = B2.volume ∧ List.Perm B1.edgeLenSqs B2.edgeLenSqs ∧
    List.Perm (B1.faces.map Polygon.areaSq) (B2.faces.map Polygon.areaSq) ∧ B1.center = B2.center := by
  obtain ⟨_, _, v1, e1, a1, c1⟩ := Polyhedron.mk?_reoriented_measures B0 hV F1 input1 hperm1 hrel1 hc1 B1 h1
  obtain ⟨_, _, v2, e2, a2, c2⟩ := Polyhedron.mk?_reoriented_measures B0 hV F2 input2 hperm2 hrel2 hc2 B2 h2
  exact ⟨by rw [v1 zero, v2 zero], e1.trans e2.symm, a1.trans a2.symm, by rw [c1, c2]⟩
#print axioms Polyhedron.mk?_reoriented_measures_two

#print axioms Reoriented.of_mk?
#print axioms Polyhedron.volume_eq_abs_surface_integral
end G3D
