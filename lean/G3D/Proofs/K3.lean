import G3D.Proofs.K3c
import G3D.Proofs.GoodB

/-! # Kernel K3: flat × ConvexPolyhedron is EXACT (completeness on top of the soundness of BodySoundBase.lean)

    Parts: K3a.lean (Point, Line; boundedness, `line_interval`, `segmentFromPointList_exact`),
    K3b.lean (Segment, HalfLine), K3c.lean (Plane: section = hull of the edge hits, hits strictly convex).
    This file: the Bool judge of the hypotheses, the summary theorem, a concrete instance (unit cube with its
    12 edges) and the counterexample showing that `FaceLocal` cannot be dropped (split cube).

    Hypotheses (`Polyhedron.ExactHyp`):
    * `Proper` = `ValidCore` (a face exists; faces are valid polygons with the stored centre in the plane; face vertices
      are listed; listed vertices pass all face tests; the directed edges form a closed surface) + `FaceLocal`
      (across every edge of a face there is a face through that edge having a vertex of the face strictly inside:
      no coplanar neighbours).  Every `ValidProper` polyhedron is `Proper`.  Used by all handlers.
    * `edgeWF`, `EdgesReal` (listed edges are well-formed Segments and edges of faces): Segment, HalfLine, Plane.
    * `EdgesComplete` (every face edge is listed): Plane only. -/
namespace G3D
open V3

/-! ### Bool judges -/
theorem Seg.isEdge_iff (s : Seg) (e : V3 × V3) :
    s.isEdge e = true ↔ ((s.a = e.1 ∧ s.b = e.2) ∨ (s.a = e.2 ∧ s.b = e.1)) := by
  simp [Seg.isEdge, Bool.or_eq_true, Bool.and_eq_true]

theorem Polyhedron.edgesRealB_iff (B : Polyhedron) : B.edgesRealB = true ↔ B.EdgesReal := by
  unfold Polyhedron.edgesRealB Polyhedron.EdgesReal
  simp only [List.all_eq_true, List.any_eq_true, Seg.isEdge_iff]

theorem Polyhedron.edgesCompleteB_iff (B : Polyhedron) : B.edgesCompleteB = true ↔ B.EdgesComplete := by
  unfold Polyhedron.edgesCompleteB Polyhedron.EdgesComplete
  simp only [List.all_eq_true, List.any_eq_true, Seg.isEdge_iff]

/-- all hypotheses of the exactness theorems -/
structure Polyhedron.ExactHyp (B : Polyhedron) : Prop where
  proper : B.Proper
  edgeWF : ∀ s ∈ B.edges, s.WF
  real : B.EdgesReal
  complete : B.EdgesComplete

theorem Polyhedron.exactHyp_of_B (B : Polyhedron) (h : B.exactHypB = true) : B.ExactHyp := by
  simp only [Polyhedron.exactHypB, Bool.and_eq_true] at h
  obtain ⟨⟨⟨⟨h1, h2⟩, h3⟩, h4⟩, h5⟩ := h
  rw [List.all_eq_true] at h3
  exact ⟨⟨B.validCore_of_B h1, B.faceLocal_of_faceLocalB h2⟩, fun s hs => (Seg.wfB_iff s).mp (h3 s hs),
    (B.edgesRealB_iff).mp h4, (B.edgesCompleteB_iff).mp h5⟩

/-- a `ValidProper` polyhedron with well-formed, real and complete edge list satisfies the hypotheses -/
theorem Polyhedron.ValidProper.exactHyp {B : Polyhedron} (hV : B.ValidProper) (hEW : ∀ s ∈ B.edges, s.WF)
    (hR : B.EdgesReal) (hC : B.EdgesComplete) : B.ExactHyp := ⟨hV.proper, hEW, hR, hC⟩

/-! ### summary: the five flat × ConvexPolyhedron handlers are exact -/

/-- denotation of a flat operand -/
theorem flat_polyhedron_exact (B : Polyhedron) (hH : B.ExactHyp) :
    (∀ p : V3, ExactW (interPointPolyhedron p B) (· = p) (BodyDen B)) ∧
    (∀ l : Line, l.WF → ExactW (interLinePolyhedron l B) l.den (BodyDen B)) ∧
    (∀ s : Seg, s.WF → ExactW (interSegPolyhedron s B) s.den (BodyDen B)) ∧
    (∀ h : HalfLine, h.WF → ExactW (interPolyhedronHalfLine B h) h.den (BodyDen B)) ∧
    (∀ a : Plane, a.WF → ExactW (interPlanePolyhedron a B) a.den (BodyDen B)) :=
  ⟨fun p => interPointPolyhedron_exact p B,
   fun l hl => interLinePolyhedron_exact l hl B hH.proper,
   fun s hs => interSegPolyhedron_exact s hs B hH.proper hH.edgeWF hH.real,
   fun h hh => interPolyhedronHalfLine_exact B hH.proper hH.edgeWF hH.real h hh,
   fun a ha => interPlanePolyhedron_exact a ha B hH.proper hH.edgeWF hH.real hH.complete⟩

theorem interPlanePolyhedron_exact_hull (a : Plane) (ha : a.WF) (B : Polyhedron) (hH : B.ExactHyp) :
    ExactW (interPlanePolyhedron a B) a.den (InHull B.verts) := by
  obtain ⟨o, ho, hw, hd⟩ := interPlanePolyhedron_exact a ha B hH.proper hH.edgeWF hH.real hH.complete
  exact ⟨o, ho, hw, fun x => by rw [hd x]; exact and_congr Iff.rfl (hH.proper.contains_iff_hull x)⟩

/-- the same with the convex hull of the vertex list as the denotation of the body (K5) -/
theorem flat_polyhedron_exact_hull (B : Polyhedron) (hH : B.ExactHyp) :
    (∀ p : V3, ExactW (interPointPolyhedron p B) (· = p) (InHull B.verts)) ∧
    (∀ l : Line, l.WF → ExactW (interLinePolyhedron l B) l.den (InHull B.verts)) ∧
    (∀ s : Seg, s.WF → ExactW (interSegPolyhedron s B) s.den (InHull B.verts)) ∧
    (∀ h : HalfLine, h.WF → ExactW (interPolyhedronHalfLine B h) h.den (InHull B.verts)) ∧
    (∀ a : Plane, a.WF → ExactW (interPlanePolyhedron a B) a.den (InHull B.verts)) :=
  ⟨fun p => interPointPolyhedron_exact_hull p B hH.proper,
   fun l hl => interLinePolyhedron_exact_hull l hl B hH.proper,
   fun s hs => interSegPolyhedron_exact_hull s hs B hH.proper hH.edgeWF hH.real,
   fun h hh => interPolyhedronHalfLine_exact_hull B hH.proper hH.edgeWF hH.real h hh,
   fun a ha => interPlanePolyhedron_exact_hull a ha B hH⟩
#print axioms flat_polyhedron_exact
#print axioms flat_polyhedron_exact_hull

/-! ### the polygon returned by the plane handler -/

/-- when the plane handler returns a polygon it is a face or a `Valid` polygon (K6 via strict convexity of the
    hits) -/
theorem interPlanePolyhedron_polygon_valid (a : Plane) (ha : a.WF) (B : Polyhedron) (hH : B.ExactHyp) (Q : Polygon)
    (hQ : interPlanePolyhedron a B = .ok (some (.polygon Q))) : Q.Valid := by
  unfold interPlanePolyhedron at hQ
  cases hfind : B.faces.find? (fun f => f.inPlane a) with
  | some f =>
    rw [hfind] at hQ
    simp only at hQ
    cases hQ
    exact hH.proper.core.faces_valid Q (List.mem_of_find?_eq_some hfind)
  | none =>
    rw [hfind] at hQ
    simp only at hQ
    have hno : ∀ f ∈ B.faces, f.plane.eqv a = false := by
      intro f hf
      have := List.find?_eq_none.mp hfind f hf
      simpa [Polygon.inPlane] using this
    obtain ⟨out, hout, hmem, hnd⟩ := edgeHits_spec (interPlaneSeg a) B.edges []
      (fun s hs => by
        obtain ⟨o, ho, _, _⟩ := interPlaneSeg_exact a s (hH.edgeWF s hs)
        exact ⟨o, ho, interPlaneSeg_IsPS a s o ho⟩)
    have hnd' : out.Nodup := hnd List.nodup_nil
    have S : K3.Section a B out :=
      ⟨ha, hH.proper, hH.edgeWF, hH.real, hH.complete, hno, fun p => by rw [hmem p]; simp⟩
    rw [interPlanePolyhedron_loop_eq, hout] at hQ
    match out, hnd', S, hQ with
    | [], _, _, hQ => cases hQ
    | [p], _, _, hQ => cases hQ
    | [p, q], _, _, hQ =>
      simp only at hQ
      by_cases hpq : p = q
      · rw [if_pos hpq] at hQ; simp [liftC, bind, Except.bind] at hQ
      · rw [if_neg hpq] at hQ; simp [liftC, bind, Except.bind, seg?] at hQ
    | p0 :: p1 :: p2 :: rest, hnd3, S, hQ =>
      have hded : dedupV (p0 :: p1 :: p2 :: rest) = p0 :: p1 :: p2 :: rest := dedupV_of_nodup _ hnd3
      have hx : StrictConvexPos (dedupV (p0 :: p1 :: p2 :: rest)) := by rw [hded]; exact S.strictConvexPos
      simp only at hQ
      cases hm : Polygon.mk? (p0 :: p1 :: p2 :: rest) with
      | error e => rw [hm] at hQ; simp [liftC, bind, Except.bind] at hQ
      | ok R =>
        rw [hm] at hQ
        simp only [liftC, bind, Except.bind, pure, Except.pure] at hQ
        cases hQ
        exact (Polygon.mk?_valid_of_strictConvex _ false Q hm hx).1

/-! ### a concrete instance: the unit cube with its twelve edges -/

/-- the edge list the constructor computes from the faces (`Segment(p_i, p_{i+1})`, duplicates removed) -/
def faceEdges (B : Polyhedron) : List Seg :=
  (B.faces.flatMap (fun f => (closedPairs f.pts).map (fun e => Seg.mk' e.1 e.2))).foldl addSeg []

def cubeE : Polyhedron := { unitCube with edges := faceEdges unitCube }

theorem cubeE_edges : cubeE.edges.length = 12 := by decide +kernel

theorem cubeE_exactHyp : cubeE.ExactHyp := cubeE.exactHyp_of_B (by decide +kernel)

/-- for the unit cube all five flat handlers are exact -/
theorem cubeE_exact :
    (∀ p : V3, ExactW (interPointPolyhedron p cubeE) (· = p) (InHull cubeE.verts)) ∧
    (∀ l : Line, l.WF → ExactW (interLinePolyhedron l cubeE) l.den (InHull cubeE.verts)) ∧
    (∀ s : Seg, s.WF → ExactW (interSegPolyhedron s cubeE) s.den (InHull cubeE.verts)) ∧
    (∀ h : HalfLine, h.WF → ExactW (interPolyhedronHalfLine cubeE h) h.den (InHull cubeE.verts)) ∧
    (∀ a : Plane, a.WF → ExactW (interPlanePolyhedron a cubeE) a.den (InHull cubeE.verts)) :=
  flat_polyhedron_exact_hull cubeE cubeE_exactHyp
#print axioms cubeE_exact


/-! ### `FaceLocal` cannot be dropped: the cube with a triangulated top face

    `splitCubeE` passes every other hypothesis (`validB`: closed, convex, interior point; edges well formed, real,
    complete) but has two coplanar neighbouring faces.  For the line / segment `y = 3/4, z = 1` in the top plane
    * `intersection(Line, body)` returns the part inside the FIRST top triangle only (early return), a proper subset;
    * `intersection(Segment, body)` collects three points (entry, exit, crossing of the diagonal edge) and raises
      "Bug detected".
    (The Python library shows exactly this behaviour.) -/

def splitCubeE : Polyhedron := { splitCube with edges := faceEdges splitCube }

def lineTop : Line := ⟨⟨0, 3/4, 1⟩, ⟨1, 0, 0⟩⟩
def segTop : Seg := Seg.mk' ⟨-1, 3/4, 1⟩ ⟨2, 3/4, 1⟩
def halfTop : HalfLine := HalfLine.mk' ⟨-1, 3/4, 1⟩ ⟨1, 0, 0⟩

def ResB.isSeg (r : ResB) (a b : V3) : Bool :=
  match r with
  | .ok (some (.flat (.seg s))) => s.a == a && s.b == b
  | _ => false

def ResB.isBug (r : ResB) : Bool :=
  match r with
  | .error .bug => true
  | _ => false

theorem ResB.of_isSeg (r : ResB) (a b : V3) (h : r.isSeg a b = true) :
    ∃ s, r = .ok (some (.flat (.seg s))) ∧ s.a = a ∧ s.b = b := by
  unfold ResB.isSeg at h
  split at h
  · rename_i s
    rw [Bool.and_eq_true, beq_iff_eq, beq_iff_eq] at h
    exact ⟨s, rfl, h.1, h.2⟩
  · cases h

theorem ResB.of_isBug (r : ResB) (h : r.isBug = true) : r = .error .bug := by
  unfold ResB.isBug at h
  split at h
  · rfl
  · cases h

theorem splitCubeE_judges :
    splitCubeE.validB = true ∧ splitCubeE.edges.all (·.wfB) = true ∧ splitCubeE.edgesRealB = true ∧
    splitCubeE.edgesCompleteB = true ∧ splitCubeE.goodB = true ∧ splitCubeE.faceLocalB = false := by
  decide +kernel

/-- the Line handler is sound but NOT complete on the split cube -/
theorem splitCubeE_line_not_exact :
    ¬ ExactB (interLinePolyhedron lineTop splitCubeE) lineTop.den (BodyDen splitCubeE) := by
  rintro ⟨o, ho, hd⟩
  obtain ⟨s, hs, hsa, hsb⟩ := ResB.of_isSeg (interLinePolyhedron lineTop splitCubeE) ⟨1, 3/4, 1⟩ ⟨3/4, 3/4, 1⟩
    (by decide +kernel)
  rw [hs] at ho; cases ho
  have hx : lineTop.den ⟨1/4, 3/4, 1⟩ ∧ BodyDen splitCubeE ⟨1/4, 3/4, 1⟩ := by
    refine ⟨⟨1/4, ?_⟩, by unfold BodyDen; decide +kernel⟩
    apply V3.ext' <;> simp [lineTop, add, smul]
  obtain ⟨t, _, ht1, hxt⟩ : s.den ⟨1/4, 3/4, 1⟩ := (hd _).mpr hx
  rw [hsa, hsb] at hxt
  have := congrArg V3.x hxt
  simp only [add, smul, sub] at this
  linarith

/-- the Segment and HalfLine handlers raise "Bug detected" on the split cube -/
theorem splitCubeE_seg_bug : interSegPolyhedron segTop splitCubeE = .error .bug :=
  ResB.of_isBug _ (by decide +kernel)

theorem splitCubeE_halfline_bug : interPolyhedronHalfLine splitCubeE halfTop = .error .bug :=
  ResB.of_isBug _ (by decide +kernel)
#print axioms splitCubeE_line_not_exact
#print axioms splitCubeE_seg_bug

end G3D
