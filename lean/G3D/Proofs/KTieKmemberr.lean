import G3D.Extracted.Kmemberr
import G3D.Extracted.Kvecr
import G3D.Proofs.KTieKvecPar
import G3D.Proofs.VecRLemmas
import G3D.Proofs.Flat
import Mathlib.Analysis.Real.Sqrt
import Mathlib.Tactic.Ring
import Mathlib.Tactic.Linarith
import Mathlib.Tactic.FieldSimp
import Mathlib.Tactic.Positivity
/-! # kmember (real part): `Line.__contains__`, `Segment.__contains__`, the carrier line of `HalfLine`, `Plane.__contains__` on the
    stored unit normal  (C05, C19).  `Line.__contains__` delegates to `Vector.parallel`: its ties are stated on the extracted
    terms of kvecr (a change of `Vector.parallel` rightly concerns both).
    `G3D.Extracted.impl_*` are regenerated on every run (tools/extract_kmemberr.py, engine tools/kernels_engine.py): the REAL code is run on
    symbolic numbers, every comparison against the tolerance is recorded (operands and shape) and answered from a scripted
    path.  Each kernel has its own `section`: when the walk of ONE kernel fails the generated file holds only the marker
    `impl_<kernel>_EXTRACTION_FAILED` for it and exactly the theorems of that section stop compiling.
    (the constructor pins of this group are in KTieKmemberrCtor) -/
namespace G3D.KTie.Kmember
open G3D G3D.Extracted Real G3D.KTie.Kvec

section lineContains
theorem lineContains_tie (sv dv x : RVec) :
    impl_lineContains_residual sv dv x = impl_parallel_residual (RVec.sub x sv) dv ∧
    impl_lineContains_scale sv dv x = impl_parallel_scale (RVec.sub x sv) dv := ⟨rfl, rfl⟩

theorem lineContains_cast (l : Line) (x : V3) :
    impl_lineContains_residual l.sv.toR l.dv.toR x.toR = 0 ↔ l.contains x = true := by
  rw [(lineContains_tie _ _ _).1, toR_sub, parallel_cast]; rfl

theorem lineContains_shape :
    impl_lineContains_shape = "abs(R) < (eps * S)" ∧
    impl_lineContains_path = [("abs(R) < eps", false), ("abs(R) < eps", false), ("abs(R) < eps", false),
      ("abs(R) < (eps * S)", true)] := by decide
end lineContains

section segContains
theorem segContains_parts_tie (a b x : RVec) :
    impl_segContains_lineResidual a b x = impl_lineContains_residual a (RVec.sub b a) x ∧
    impl_segContains_lineScale a b x = impl_lineContains_scale a (RVec.sub b a) x ∧
    impl_segContains_startDist a b x = √(RVec.normSq (RVec.sub x a)) := by
  refine ⟨rfl, rfl, ?_⟩
  simp only [impl_segContains_startDist]
  congr 1
  simp only [RVec.normSq, RVec.dot, RVec.sub]; ring

/-- the relative length `v1*v / |v| / |v|` is `v1.v / v.v` (the two square roots cancel, unconditionally) -/
theorem segContains_rel_tie (a b x : RVec) :
    impl_segContains_rel a b x = RVec.dot (RVec.sub x a) (RVec.sub b a) / RVec.normSq (RVec.sub b a) := by
  have hN := nsq_nonneg (RVec.sub b a)
  have key : ∀ d N : ℝ, 0 ≤ N → d / √N / √N = d / N := by
    intro d N h; rw [div_div, Real.mul_self_sqrt h]
  have := key (RVec.dot (RVec.sub x a) (RVec.sub b a)) _ hN
  rw [← this]
  simp only [impl_segContains_rel, RVec.normSq, RVec.dot, RVec.sub, zero_add]

theorem segContains_rel_cast (a b x : V3) :
    impl_segContains_rel a.toR b.toR x.toR
      = ((V3.dot (V3.sub x a) (V3.sub b a) / V3.normSq (V3.sub b a) : ℚ) : ℝ) := by
  rw [segContains_rel_tie, toR_sub, toR_sub, toR_dot, toR_normSq]; push_cast; rfl

/-- `Segment.__contains__` of the model = the code's decision read exactly:
    `|v1| < eps` as `|v1| = 0`, the carrier-line test as `R = 0`, `rel > -eps` as `0 ≤ rel`, `rel < 1 + eps` as `rel ≤ 1` -/
theorem segContains_iff (a b x : V3) :
    (Seg.mk' a b).contains x = true ↔
      impl_segContains_startDist a.toR b.toR x.toR = 0 ∨
      (impl_segContains_lineResidual a.toR b.toR x.toR = 0 ∧ 0 ≤ impl_segContains_rel a.toR b.toR x.toR ∧
        impl_segContains_rel a.toR b.toR x.toR ≤ 1) := by
  obtain ⟨h1, _, h3⟩ := segContains_parts_tie a.toR b.toR x.toR
  rw [h1, h3, segContains_rel_cast, toR_sub, toR_sub, toR_normSq,
    show impl_lineContains_residual a.toR (V3.sub b a).toR x.toR = 0 ↔ (⟨a, V3.sub b a⟩ : Line).contains x = true
      from lineContains_cast ⟨a, V3.sub b a⟩ x]
  have hnn : (0 : ℝ) ≤ ((V3.normSq (V3.sub x a) : ℚ) : ℝ) := by exact_mod_cast G3D.normSq_nonneg (V3.sub x a)
  rw [Real.sqrt_eq_zero hnn]
  simp only [Seg.contains, Seg.mk']
  by_cases h0 : V3.normSq (V3.sub x a) = 0
  · simp [h0]
  · have h0' : ¬ ((V3.normSq (V3.sub x a) : ℚ) : ℝ) = 0 := by exact_mod_cast h0
    simp only [beq_iff_eq, h0, if_false, Bool.and_eq_true, h0', false_or, and_assoc]
    constructor
    · rintro ⟨hl, hr0, hr1⟩
      exact ⟨hl, by exact_mod_cast of_decide_eq_true hr0, by exact_mod_cast of_decide_eq_true hr1⟩
    · rintro ⟨hl, hr0, hr1⟩
      exact ⟨hl, decide_eq_true (by exact_mod_cast hr0), decide_eq_true (by exact_mod_cast hr1)⟩

theorem segContains_paths_main :
    impl_segContains_path = [("abs(R) < eps", false), ("abs(R) < eps", false), ("abs(R) < eps", false), ("abs(R) < (eps * S)", true), ("R < eps", false), ("R > -eps", true), ("R < (1 + eps)", true)] ∧
    impl_segContainsStart_path = [("abs(R) < eps", false), ("abs(R) < eps", false), ("abs(R) < eps", false), ("abs(R) < (eps * S)", false), ("R < eps", true)] ∧
    impl_segContainsOffLine_path = [("abs(R) < eps", false), ("abs(R) < eps", false), ("abs(R) < eps", false), ("abs(R) < (eps * S)", false), ("R < eps", false)] := by decide
end segContains

section halfLineCarrier
/-- `HalfLine`: the carrier-line test is that of `Line(p, v)` -/
theorem halfLineCarrier_tie (p v x : RVec) :
    impl_halfLineContains_lineResidual p v x = impl_lineContains_residual p v x := rfl
end halfLineCarrier

section planeContainsN
theorem planeCtor_n_tie (p n : RVec) : impl_planeCtor_n p n = RVec.smul (1 / √(RVec.normSq n)) n := by
  apply RVec.ext' <;> simp only [impl_planeCtor_n, sum0, RVec.smul] <;> ring

theorem planeContainsN_tie (p n x : RVec) :
    impl_planeContainsN_residual p n x = RVec.dot (RVec.sub x p) n / √(RVec.normSq n) := by
  simp only [impl_planeContainsN_residual, sum0, RVec.dot, RVec.sub]; ring

/-- the residual on the stored unit normal vanishes exactly where the model's residual on the raw normal does -/
theorem planeContainsN_cast (pl : Plane) (hw : pl.WF) (x : V3) :
    impl_planeContainsN_residual pl.p.toR pl.n.toR x.toR = 0 ↔ pl.contains x = true := by
  rw [planeContainsN_tie, toR_sub, toR_dot, toR_normSq]
  have hN : (0 : ℝ) < ((V3.normSq pl.n : ℚ) : ℝ) := by exact_mod_cast G3D.normSq_pos hw
  rw [div_eq_zero_iff, or_iff_left (Real.sqrt_pos.mpr hN).ne']
  simp only [Plane.contains, beq_iff_eq, Rat.cast_eq_zero, V3.dot, V3.sub]
  constructor <;> intro h <;> linarith

theorem planeContainsN_shape :
    impl_planeContainsN_shape = "abs(R) < eps" ∧ impl_planeContainsN_path = [("abs(R) < eps", true)] := by decide
end planeContainsN

end G3D.KTie.Kmember
