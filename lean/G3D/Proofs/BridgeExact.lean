import G3D.Proofs.K3
import G3D.Proofs.CtorQueries
import G3D.Proofs.MovePolyhedron
import G3D.Proofs.CtorExample

/-! # Bridge: the body returned by `ConvexPolyhedron(...)` meets the hypotheses of the exactness theorems (K3)

    * `Polyhedron.mk?_edges_exact`: for every successful constructor call on `Valid` input polygons the stored edge
      list consists of well-formed Segments, each of them an edge of a stored face (`EdgesReal`), and every edge of
      every stored face is listed (`EdgesComplete`).
    * `Polyhedron.mk?_reoriented_exactHyp`: the constructor applied to the faces of a `Valid`, `FaceLocal` reference
      body (any order / starting vertex / orientation) returns a body satisfying `Polyhedron.ExactHyp`.
    * `Polyhedron.moved_exactHyp`: so does the body left behind by `move`. -/
namespace G3D
open V3

/-! ### the edge list, as a function of a face list -/

theorem Bridge.seg_mk'_WF (a b : V3) (h : a ≠ b) : (Seg.mk' a b).WF := ⟨h, rfl⟩

/-- every stored edge is `Segment(p_i, p_{i+1})` of some polygon of the list, and is well-formed -/
theorem Bridge.edgesOf_real (fs : List Polygon) (hd : ∀ f ∈ fs, ∀ e ∈ closedPairs f.pts, e.1 ≠ e.2)
    (s : Seg) (hs : s ∈ edgesOf fs []) :
    s.WF ∧ ∃ f ∈ fs, ∃ e ∈ closedPairs f.pts, s.a = e.1 ∧ s.b = e.2 := by
  rcases edgesOf_mem fs [] s hs with h | ⟨f, hf, e, he, rfl⟩
  · cases h
  · exact ⟨Bridge.seg_mk'_WF _ _ (hd f hf e he), f, hf, e, he, rfl, rfl⟩

/-- every edge of every polygon of the list is stored, in one of the two directions -/
theorem Bridge.edgesOf_complete (fs : List Polygon) (f : Polygon) (hf : f ∈ fs) (e : V3 × V3)
    (he : e ∈ closedPairs f.pts) :
    ∃ s ∈ edgesOf fs [], (s.a = e.1 ∧ s.b = e.2) ∨ (s.a = e.2 ∧ s.b = e.1) := by
  obtain ⟨x, hx, hxs⟩ := edgesOf_covers fs [] f hf e he
  refine ⟨x, hx, ?_⟩
  rcases (Seg.same_iff x (Seg.mk' e.1 e.2)).mp hxs with h | h
  · exact Or.inl h
  · exact Or.inr ⟨h.2, h.1⟩

/-- the same two facts for a second face list with the same undirected edges -/
theorem Bridge.edgesOf_exact_of_sameUEdges (fs gs : List Polygon)
    (hd : ∀ f ∈ fs, ∀ e ∈ closedPairs f.pts, e.1 ≠ e.2) (hU : SameUEdges fs gs) :
    (∀ s ∈ edgesOf fs [], s.WF) ∧
    (∀ s ∈ edgesOf fs [], ∃ g ∈ gs, ∃ e ∈ closedPairs g.pts, (s.a = e.1 ∧ s.b = e.2) ∨ (s.a = e.2 ∧ s.b = e.1)) ∧
    (∀ g ∈ gs, ∀ e ∈ closedPairs g.pts, ∃ s ∈ edgesOf fs [], (s.a = e.1 ∧ s.b = e.2) ∨ (s.a = e.2 ∧ s.b = e.1)) := by
  refine ⟨fun s hs => (Bridge.edgesOf_real fs hd s hs).1, ?_, ?_⟩
  · intro s hs
    obtain ⟨_, f, hf, e, he, ha, hb⟩ := Bridge.edgesOf_real fs hd s hs
    obtain ⟨g, hg, hge⟩ := hU.1 f hf e he
    rcases hge with hge | hge
    · exact ⟨g, hg, e, hge, Or.inl ⟨ha, hb⟩⟩
    · exact ⟨g, hg, (e.2, e.1), hge, Or.inr ⟨ha, hb⟩⟩
  · intro g hg e he
    obtain ⟨f, hf, hfe⟩ := hU.2 g hg e he
    rcases hfe with hfe | hfe
    · exact Bridge.edgesOf_complete fs f hf e hfe
    · obtain ⟨s, hs, h⟩ := Bridge.edgesOf_complete fs f hf (e.2, e.1) hfe
      exact ⟨s, hs, h.symm⟩

/-! ### the stored face has the undirected edges of the input face -/

/-- `flipOf c g` is `g` or `-g`; for a `Valid` polygon `-g` is the reversed cycle -/
theorem Bridge.flipOf_edges (c : V3) (g : Polygon) (hg : g.Valid) :
    (∀ e, e ∈ closedPairs (flipOf c g).pts → e ∈ closedPairs g.pts ∨ (e.2, e.1) ∈ closedPairs g.pts) ∧
    (∀ e, e ∈ closedPairs g.pts → e ∈ closedPairs (flipOf c g).pts ∨ (e.2, e.1) ∈ closedPairs (flipOf c g).pts) := by
  by_cases hd : dot (sub g.plane.p c) g.plane.n < 0
  · obtain ⟨Q, q0, rest, hgp, hQ, _, hQp, _⟩ := Polygon.neg?_of_valid g hg
    have hflip : flipOf c g = Q := by unfold flipOf; rw [if_pos hd, hQ]
    have hperm := closedPairs_cons_reverse q0 rest
    rw [hflip, hQp, hgp]
    constructor
    · intro e he
      obtain ⟨e', he', hsw⟩ := List.mem_map.mp (hperm.mem_iff.mp he)
      right
      have : e' = (e.2, e.1) := by rw [← hsw]; rfl
      rw [← this]; exact he'
    · intro e he
      right
      exact hperm.mem_iff.mpr (List.mem_map.mpr ⟨e, he, rfl⟩)
  · have hflip : flipOf c g = g := by unfold flipOf; rw [if_neg hd]
    rw [hflip]
    exact ⟨fun e he => Or.inl he, fun e he => Or.inl he⟩

theorem Bridge.sameUEdges_flip (c : V3) (input : List Polygon) (hv : ∀ g ∈ input, g.Valid) :
    SameUEdges input (input.map (flipOf c)) := by
  constructor
  · intro f hf e he
    exact ⟨flipOf c f, List.mem_map.mpr ⟨f, hf, rfl⟩, (Bridge.flipOf_edges c f (hv f hf)).2 e he⟩
  · intro g' hg' e he
    obtain ⟨g, hg, rfl⟩ := List.mem_map.mp hg'
    exact ⟨g, hg, (Bridge.flipOf_edges c g (hv g hg)).1 e he⟩

/-! ### Task 1a: the edge list of any constructed body -/

/-- **the stored edges are exact.**  For EVERY successful `ConvexPolyhedron(input)` on `Valid` polygons: the stored
    edges are well-formed Segments, each is an edge of a stored face, and every edge of every stored face is stored
    (in one direction).  Validity of the input polygons is used for `-polygon` (a flipped face is the reversed cycle
    only when the angular sort reproduces the cycle, i.e. for a strictly convex cycle). -/
theorem Polyhedron.mk?_edges_exact (input : List Polygon) (hv : ∀ g ∈ input, g.Valid) (B : Polyhedron)
    (h : Polyhedron.mk? input = .ok B) :
    (∀ s ∈ B.edges, s.WF) ∧ B.EdgesReal ∧ B.EdgesComplete := by
  obtain ⟨_, hE, hd, _, hF, _⟩ := Polyhedron.mk?_eq input B h
  have hU := Bridge.sameUEdges_flip B.center input hv
  obtain ⟨h1, h2, h3⟩ := Bridge.edgesOf_exact_of_sameUEdges input (input.map (flipOf B.center)) hd hU
  unfold Polyhedron.EdgesReal Polyhedron.EdgesComplete
  rw [hE, hF]
  exact ⟨h1, h2, h3⟩
#print axioms Polyhedron.mk?_edges_exact

/-- the same for a body that stores a face list and the edge list computed from it (receiver of `move`, judged
    bodies): no flip is involved, distinct consecutive vertices suffice -/
theorem Bridge.edges_exact_of_eq (B : Polyhedron) (hE : B.edges = edgesOf B.faces [])
    (hd : ∀ f ∈ B.faces, ∀ e ∈ closedPairs f.pts, e.1 ≠ e.2) :
    (∀ s ∈ B.edges, s.WF) ∧ B.EdgesReal ∧ B.EdgesComplete := by
  unfold Polyhedron.EdgesReal Polyhedron.EdgesComplete
  rw [hE]
  refine ⟨fun s hs => (Bridge.edgesOf_real B.faces hd s hs).1, ?_, fun f hf e he =>
    Bridge.edgesOf_complete B.faces f hf e he⟩
  intro s hs
  obtain ⟨_, f, hf, e, he, ha, hb⟩ := Bridge.edgesOf_real B.faces hd s hs
  exact ⟨f, hf, e, he, Or.inl ⟨ha, hb⟩⟩

/-! ### `FaceLocal` is invariant under outward copies and permutation of the faces -/

theorem Bridge.faceLocal_of_outwardCopy (fs hs : List Polygon)
    (h1 : ∀ h ∈ hs, ∃ f ∈ fs, OutwardCopy f h) (h2 : ∀ f ∈ fs, ∃ h ∈ hs, OutwardCopy f h)
    (hloc : ∀ f ∈ fs, ∀ e ∈ closedPairs f.pts,
      ∃ g ∈ fs, g.side e.1 = 0 ∧ g.side e.2 = 0 ∧ ∃ v ∈ f.pts, g.side v < 0) :
    ∀ f' ∈ hs, ∀ e ∈ closedPairs f'.pts,
      ∃ g' ∈ hs, g'.side e.1 = 0 ∧ g'.side e.2 = 0 ∧ ∃ v ∈ f'.pts, g'.side v < 0 := by
  intro f' hf' e he
  obtain ⟨f, hf, hoc⟩ := h1 f' hf'
  obtain ⟨g, hg, ha, hb, v, hvf, hvs⟩ := hloc f hf e (hoc.closedPairs_perm.mem_iff.mp he)
  obtain ⟨g', hg', hoc'⟩ := h2 g hg
  obtain ⟨k, hk, _, hside⟩ := hoc'.samePlane
  refine ⟨g', hg', by rw [hside, ha, mul_zero], by rw [hside, hb, mul_zero], v, (hoc.mem_iff v).mpr hvf, ?_⟩
  rw [hside]
  exact mul_neg_of_pos_of_neg hk hvs

/-! ### Task 1b: the constructor on the faces of a `Valid`, `FaceLocal` reference body -/

/-- **bridge, any successful call.**  `input` = the faces of the `Valid`, `FaceLocal` body `B0` in any order, with any
    starting vertex and any orientation.  Every body the constructor returns on `input` satisfies the hypotheses of
    the exactness theorems. -/
theorem Polyhedron.mk?_reoriented_exactHyp_of_ok (B0 : Polyhedron) (hV : B0.Valid) (hloc : B0.FaceLocal)
    (F input : List Polygon) (hperm : List.Perm F B0.faces) (hrel : List.Forall₂ Reoriented F input)
    (B : Polyhedron) (h : Polyhedron.mk? input = .ok B) : B.Valid ∧ B.ExactHyp := by
  obtain ⟨hBV, _, _, hcop, _⟩ := Polyhedron.mk?_reoriented_queries B0 hV F input hperm hrel B h
  have hvin : ∀ g ∈ input, g.Valid := by
    intro g hg
    obtain ⟨f, _, hr⟩ := Forall₂.exists_left hrel g hg
    exact hr.valid
  obtain ⟨e1, e2, e3⟩ := Polyhedron.mk?_edges_exact input hvin B h
  have hl : B.FaceLocal := by
    apply Bridge.faceLocal_of_outwardCopy B0.faces B.faces
    · intro h' hh'
      obtain ⟨f, hf, hoc⟩ := Forall₂.exists_left hcop h' hh'
      exact ⟨f, hperm.mem_iff.mp hf, hoc⟩
    · intro f hf
      exact Forall₂.exists_right hcop f (hperm.mem_iff.mpr hf)
    · exact hloc
  exact ⟨hBV, hBV.proper hl, e1, e2, e3⟩
#print axioms Polyhedron.mk?_reoriented_exactHyp_of_ok

/-- **bridge, in the situation of `Polyhedron.mk?_reoriented`** (Euler's formula for `B0` assumed): the constructor
    succeeds and the result satisfies `Polyhedron.ExactHyp` -/
theorem Polyhedron.mk?_reoriented_exactHyp (B0 : Polyhedron) (hV : B0.Valid) (hloc : B0.FaceLocal)
    (F input : List Polygon) (hperm : List.Perm F B0.faces) (hrel : List.Forall₂ Reoriented F input)
    (hEuler : ((collectVerts B0.faces).length : Int) - (edgesOf B0.faces []).length + B0.faces.length = 2) :
    ∃ B, Polyhedron.mk? input = .ok B ∧ B.Valid ∧ B.ExactHyp := by
  obtain ⟨B, hB, _⟩ := Polyhedron.mk?_reoriented B0 hV F input hperm hrel hEuler
  exact ⟨B, hB, Polyhedron.mk?_reoriented_exactHyp_of_ok B0 hV hloc F input hperm hrel B hB⟩
#print axioms Polyhedron.mk?_reoriented_exactHyp

/-- consequence: the five flat × ConvexPolyhedron handlers are exact on every constructed body -/
theorem Polyhedron.mk?_reoriented_flat_exact (B0 : Polyhedron) (hV : B0.Valid) (hloc : B0.FaceLocal)
    (F input : List Polygon) (hperm : List.Perm F B0.faces) (hrel : List.Forall₂ Reoriented F input)
    (B : Polyhedron) (h : Polyhedron.mk? input = .ok B) :
    (∀ p : V3, ExactW (interPointPolyhedron p B) (· = p) (InHull B.verts)) ∧
    (∀ l : Line, l.WF → ExactW (interLinePolyhedron l B) l.den (InHull B.verts)) ∧
    (∀ s : Seg, s.WF → ExactW (interSegPolyhedron s B) s.den (InHull B.verts)) ∧
    (∀ hl : HalfLine, hl.WF → ExactW (interPolyhedronHalfLine B hl) hl.den (InHull B.verts)) ∧
    (∀ a : Plane, a.WF → ExactW (interPlanePolyhedron a B) a.den (InHull B.verts)) :=
  flat_polyhedron_exact_hull B (Polyhedron.mk?_reoriented_exactHyp_of_ok B0 hV hloc F input hperm hrel B h).2

/-! ### Task 1c: `move` -/

/-- the body `move` leaves behind (and returns) satisfies the hypotheses again -/
theorem Polyhedron.moved_exactHyp (B : Polyhedron) (hV : B.Valid) (hloc : B.FaceLocal) (v : V3) :
    (B.moved v).ExactHyp := by
  obtain ⟨hMV, _⟩ := B.moved_valid hV v
  have hfacts : ∀ f ∈ B.faces, _ := fun f hf => moved_face f (hV.faces_valid f hf) (hV.center_in_plane f hf) v
  have hpts : ∀ f ∈ B.faces, ((rebuild f).translate v).pts = f.pts.map (fun p => add p v) :=
    fun f hf => (hfacts f hf).2.2.2.1
  -- edges
  have hE : (B.moved v).edges = edgesOf (B.moved v).faces [] := by
    show (edgesOf B.faces []).map (segT v) = edgesOf (B.faces.map (fun f => (rebuild f).translate v)) []
    exact (edgesOf_map v _ B.faces hpts).symm
  obtain ⟨e1, e2, e3⟩ := Bridge.edges_exact_of_eq (B.moved v) hE
    (fun f hf => (hMV.faces_valid f hf).edges_distinct)
  -- face locality
  have hl : (B.moved v).FaceLocal := by
    intro f' hf' e he
    obtain ⟨f, hf, rfl⟩ := List.mem_map.mp hf'
    rw [hpts f hf, closedPairs_map] at he
    obtain ⟨e0, he0, rfl⟩ := List.mem_map.mp he
    obtain ⟨g, hg, ha, hb, w, hwf, hws⟩ := hloc f hf e0 he0
    obtain ⟨_, _, _, _, _, t, ht, _, hside, _⟩ := hfacts g hg
    refine ⟨(rebuild g).translate v, List.mem_map.mpr ⟨g, hg, rfl⟩, ?_, ?_, add w v, ?_, ?_⟩
    · show ((rebuild g).translate v).side (add e0.1 v) = 0
      rw [hside, ha, mul_zero]
    · show ((rebuild g).translate v).side (add e0.2 v) = 0
      rw [hside, hb, mul_zero]
    · rw [hpts f hf]; exact List.mem_map.mpr ⟨w, hwf, rfl⟩
    · rw [hside]; exact mul_neg_of_pos_of_neg ht hws
  exact ⟨hMV.proper hl, e1, e2, e3⟩
#print axioms Polyhedron.moved_exactHyp

/-- any successful `move` of a `Valid`, `FaceLocal` body: receiver-after and returned body satisfy `ExactHyp` -/
theorem Polyhedron.move_ok_exactHyp (B : Polyhedron) (hV : B.Valid) (hloc : B.FaceLocal) (v : V3)
    (B' R : Polyhedron) (h : B.move v = .ok (B', R)) : B'.ExactHyp ∧ R.ExactHyp := by
  obtain ⟨hR, hB', _⟩ := Polyhedron.move_ok_valid B hV v B' R h
  rw [hR, hB']
  exact ⟨B.moved_exactHyp hV hloc v, B.moved_exactHyp hV hloc v⟩

end G3D

/-! ### a concrete instance: the unit cube, faces listed backwards and every face turned inside out -/
namespace G3D
open V3

/-- `-f` (or `f` if that raised) -/
def Bridge.negOf (f : Polygon) : Polygon := match f.neg? with | .ok q => q | .error _ => f

theorem Bridge.reoriented_negOf (f : Polygon) (hf : f.Valid) : Reoriented f (Bridge.negOf f) := by
  obtain ⟨Q, _, _, _, hQ, _⟩ := Polygon.neg?_of_valid f hf
  have : Bridge.negOf f = Q := by unfold Bridge.negOf; rw [hQ]
  rw [this]
  exact Reoriented.of_neg f Q hf hQ

/-- the six faces of the unit cube in reverse order, every one replaced by its negative (normals pointing inwards,
    cycles reversed) -/
def Bridge.cubeInput : List Polygon := unitCube.faces.reverse.map Bridge.negOf

theorem unitCube_faceLocal : unitCube.FaceLocal := unitCube.faceLocal_of_faceLocalB unitCube_validB.2.2

/-- the hypotheses of `Polyhedron.mk?_reoriented_exactHyp` hold for this input -/
theorem Bridge.cubeInput_hyp :
    List.Perm unitCube.faces.reverse unitCube.faces ∧
    List.Forall₂ Reoriented unitCube.faces.reverse Bridge.cubeInput :=
  ⟨List.reverse_perm _, Forall₂.map_self Bridge.negOf _ (fun f hf =>
    Bridge.reoriented_negOf f (unitCube_valid.faces_valid f (List.mem_reverse.mp hf)))⟩

/-- … so the constructor accepts it and the result satisfies `ExactHyp` (by the theorem) -/
example : ∃ B, Polyhedron.mk? Bridge.cubeInput = .ok B ∧ B.Valid ∧ B.ExactHyp :=
  Polyhedron.mk?_reoriented_exactHyp unitCube unitCube_valid unitCube_faceLocal _ _
    Bridge.cubeInput_hyp.1 Bridge.cubeInput_hyp.2 unitCube_euler

/-- … and the same by evaluation: the constructor returns a body with 12 edges on which the Bool judge of `ExactHyp`
    says yes, none of the stored faces being the input face (all six are flipped back) -/
example : (match Polyhedron.mk? Bridge.cubeInput with
    | .ok B => B.exactHypB && B.edges.length == 12 && B.faces.all (fun f => !Bridge.cubeInput.contains f)
    | .error _ => false) = true := by decide +kernel

/-- the moved unit cube, by the theorem and by evaluation -/
example (v : V3) : (unitCube.moved v).ExactHyp := unitCube.moved_exactHyp unitCube_valid unitCube_faceLocal v
example : (unitCube.moved ⟨1/2, -3, 7/5⟩).exactHypB = true := by decide +kernel
end G3D
