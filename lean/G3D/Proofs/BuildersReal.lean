import Mathlib.Analysis.SpecialFunctions.Trigonometric.Basic
import Mathlib.Tactic.Ring
import Mathlib.Tactic.Linarith
import Mathlib.Tactic.LinearCombination
import Mathlib.Tactic.FieldSimp
import Mathlib.Algebra.BigOperators.Group.Finset.Basic
import G3D.Proofs.Builders

/-! C14 over ℝ: the points produced by `get_circle_point_list`
      `center + cos(2π/n·i)·v1 + sin(2π/n·i)·v2`,   `v1 = r·(n̂ × b)^`, `v2 = r·(n̂ × v1^)`
    lie on the circle (radius, plane), at equal angular steps; they form a convex, counter-clockwise polygon with the
    closed-form area `n/2·r²·sin(2π/n)`; the Sphere rings lie on the sphere; Cylinder / Cone points lie on the cylinder
    / at `centre + height vector`; Cylinder and Cone are convex and have the closed-form volumes `A·|h|`, `A·|h|/3`
    (surface integral over the oriented skeletons of G3D/Model/Builders.lean, every n).
    Plain real triples, no `EuclideanSpace`. -/
namespace G3D
namespace BuildersReal
open Real Builders

structure R3 where
  x : ℝ
  y : ℝ
  z : ℝ

namespace R3
def zero : R3 := ⟨0, 0, 0⟩
def add (a b : R3) : R3 := ⟨a.x + b.x, a.y + b.y, a.z + b.z⟩
def sub (a b : R3) : R3 := ⟨a.x - b.x, a.y - b.y, a.z - b.z⟩
def smul (k : ℝ) (a : R3) : R3 := ⟨k * a.x, k * a.y, k * a.z⟩
def dot (a b : R3) : ℝ := a.x * b.x + a.y * b.y + a.z * b.z
def cross (a b : R3) : R3 := ⟨a.y * b.z - a.z * b.y, a.z * b.x - a.x * b.z, a.x * b.y - a.y * b.x⟩
def normSq (a : R3) : ℝ := dot a a
end R3
open R3

theorem R3.ext' {a b : R3} (hx : a.x = b.x) (hy : a.y = b.y) (hz : a.z = b.z) : a = b := by
  cases a; cases b; simp_all

/-- `center.move(v1·cos θ + v2·sin θ)` -/
noncomputable def circlePoint (c u v : R3) (θ : ℝ) : R3 := add c (add (smul (cos θ) u) (smul (sin θ) v))

/-- `angle_i = math.pi * 2 / n * i` -/
noncomputable def stepAngle (n i : ℕ) : ℝ := π * 2 / n * i

/-- hypotheses on the scaled frame: `|u| = |v| = r`, `u ⟂ v`, both ⟂ the normal -/
structure Frame (nrm u v : R3) (r : ℝ) : Prop where
  hu : normSq u = r ^ 2
  hv : normSq v = r ^ 2
  huv : dot u v = 0
  hun : dot u nrm = 0
  hvn : dot v nrm = 0

/-! ### the frame of `get_circle_point_list` over ℝ satisfies the hypotheses -/
/-- `v1 = (n̂ × b)^·r`, `v2 = (n̂ × v1^)·r`; in unnormalised form `w1 = n × b`, `w2 = n × w1`,
    `v1 = r/|w1|·w1`, `v2 = r/(|n||w1|)·w2` -/
noncomputable def frameU (nrm b : R3) (r : ℝ) : R3 := smul (r / √(normSq (cross nrm b))) (cross nrm b)
noncomputable def frameV (nrm b : R3) (r : ℝ) : R3 :=
  smul (r / (√(normSq nrm) * √(normSq (cross nrm b)))) (cross nrm (cross nrm b))

theorem normSq_nonneg (a : R3) : 0 ≤ normSq a := by
  simp only [normSq, dot]; nlinarith [sq_nonneg a.x, sq_nonneg a.y, sq_nonneg a.z]

theorem frame_real (nrm b : R3) (r : ℝ) (hn : 0 < normSq nrm) (hb : 0 < normSq (cross nrm b)) :
    Frame nrm (frameU nrm b r) (frameV nrm b r) r := by
  have s1 : √(normSq (cross nrm b)) ^ 2 = normSq (cross nrm b) := sq_sqrt (le_of_lt hb)
  have s2 : √(normSq nrm) ^ 2 = normSq nrm := sq_sqrt (le_of_lt hn)
  have p1 : 0 < √(normSq (cross nrm b)) := sqrt_pos.mpr hb
  have p2 : 0 < √(normSq nrm) := sqrt_pos.mpr hn
  have hw2 : normSq (cross nrm (cross nrm b)) = normSq nrm * normSq (cross nrm b) := by
    simp only [normSq, dot, cross]; ring
  constructor
  · have : normSq (frameU nrm b r) = (r / √(normSq (cross nrm b))) ^ 2 * normSq (cross nrm b) := by
      simp only [frameU, normSq, dot, smul]; ring
    rw [this, div_pow, s1]; field_simp
  · have : normSq (frameV nrm b r) =
        (r / (√(normSq nrm) * √(normSq (cross nrm b)))) ^ 2 * normSq (cross nrm (cross nrm b)) := by
      simp only [frameV, normSq, dot, smul]; ring
    rw [this, hw2, div_pow, mul_pow, s1, s2]; field_simp
  · simp only [frameU, frameV, dot, smul, cross]; ring
  · simp only [frameU, dot, smul, cross]; ring
  · simp only [frameV, dot, smul, cross]; ring

/-- counter-clockwise about the normal: `u × v = r²·n̂` -/
theorem frame_real_handed (nrm b : R3) (r : ℝ) (hn : 0 < normSq nrm) (hb : 0 < normSq (cross nrm b)) :
    cross (frameU nrm b r) (frameV nrm b r) = smul (r ^ 2 / √(normSq nrm)) nrm := by
  have s1 : √(normSq (cross nrm b)) ^ 2 = normSq (cross nrm b) := sq_sqrt (le_of_lt hb)
  have p1 : 0 < √(normSq (cross nrm b)) := sqrt_pos.mpr hb
  have p2 : 0 < √(normSq nrm) := sqrt_pos.mpr hn
  have key : cross (cross nrm b) (cross nrm (cross nrm b)) = smul (normSq (cross nrm b)) nrm := by
    apply R3.ext' <;> simp only [normSq, dot, cross, smul] <;> ring
  have : cross (frameU nrm b r) (frameV nrm b r) =
      smul ((r / √(normSq (cross nrm b))) * (r / (√(normSq nrm) * √(normSq (cross nrm b)))))
        (cross (cross nrm b) (cross nrm (cross nrm b))) := by
    apply R3.ext' <;> simp only [frameU, frameV, cross, smul] <;> ring
  rw [this, key]
  have hk : (r / √(normSq (cross nrm b))) * (r / (√(normSq nrm) * √(normSq (cross nrm b)))) *
      normSq (cross nrm b) = r ^ 2 / √(normSq nrm) := by
    obtain ⟨a, ha⟩ : ∃ a, a = √(normSq (cross nrm b)) := ⟨_, rfl⟩
    rw [← ha] at s1 p1 ⊢
    rw [← s1]; field_simp
  apply R3.ext' <;> simp only [smul] <;> rw [← mul_assoc, hk]

/-! ### points on the circle -/
/-- C14: every point is at distance `r` from the centre and lies in the plane through the centre normal to `nrm` -/
theorem circle_points (c nrm u v : R3) (r θ : ℝ) (F : Frame nrm u v r) :
    normSq (sub (circlePoint c u v θ) c) = r ^ 2 ∧ dot (sub (circlePoint c u v θ) c) nrm = 0 := by
  obtain ⟨hu, hv, huv, hun, hvn⟩ := F
  have h1 := cos_sq_add_sin_sq θ
  simp only [normSq, dot] at hu hv huv hun hvn
  constructor
  · simp only [circlePoint, normSq, dot, sub, add, smul]
    linear_combination (cos θ) ^ 2 * hu + (sin θ) ^ 2 * hv + 2 * cos θ * sin θ * huv + r ^ 2 * h1
  · simp only [circlePoint, dot, sub, add, smul]
    linear_combination cos θ * hun + sin θ * hvn

/-- squared chord between two points of the circle: `2r²(1 − cos(θ₁ − θ₂))` -/
theorem chord_sq (c nrm u v : R3) (r θ₁ θ₂ : ℝ) (F : Frame nrm u v r) :
    normSq (sub (circlePoint c u v θ₁) (circlePoint c u v θ₂)) = 2 * r ^ 2 * (1 - cos (θ₁ - θ₂)) := by
  obtain ⟨hu, hv, huv, _, _⟩ := F
  have h1 := cos_sq_add_sin_sq θ₁
  have h2 := cos_sq_add_sin_sq θ₂
  simp only [normSq, dot] at hu hv huv
  rw [cos_sub]
  simp only [circlePoint, normSq, dot, sub, add, smul]
  linear_combination (cos θ₁ - cos θ₂) ^ 2 * hu + (sin θ₁ - sin θ₂) ^ 2 * hv +
    2 * (cos θ₁ - cos θ₂) * (sin θ₁ - sin θ₂) * huv + r ^ 2 * h1 + r ^ 2 * h2

theorem stepAngle_succ (n i : ℕ) : stepAngle n (i + 1) - stepAngle n i = 2 * π / n := by
  unfold stepAngle; push_cast; ring

/-- C14, equal angular steps: consecutive points differ by the rotation angle `2π/n` — the squared chord is
    `2r²(1 − cos(2π/n))`, independent of `i` -/
theorem circle_chord (c nrm u v : R3) (r : ℝ) (n i : ℕ) (F : Frame nrm u v r) :
    normSq (sub (circlePoint c u v (stepAngle n (i + 1))) (circlePoint c u v (stepAngle n i))) =
      2 * r ^ 2 * (1 - cos (2 * π / n)) := by
  rw [chord_sq c nrm u v r _ _ F, stepAngle_succ]

/-- the list closes up: point `n` is point `0`, so the last edge `(n−1, 0)` has the same chord -/
theorem circlePoint_closed (c u v : R3) (n : ℕ) (hn : n ≠ 0) :
    circlePoint c u v (stepAngle n n) = circlePoint c u v (stepAngle n 0) := by
  have hn' : (n : ℝ) ≠ 0 := Nat.cast_ne_zero.mpr hn
  have e1 : stepAngle n n = 2 * π := by unfold stepAngle; field_simp
  have e0 : stepAngle n 0 = 0 := by unfold stepAngle; simp
  rw [e1, e0]
  simp [circlePoint, cos_two_pi, sin_two_pi]

/-! ### convexity and orientation -/
theorem sin_sum_identity (a b : ℝ) :
    sin a + sin b - sin (a + b) = 4 * sin (a / 2) * sin (b / 2) * sin ((a + b) / 2) := by
  have ha : a = 2 * (a / 2) := by ring
  have hb : b = 2 * (b / 2) := by ring
  have hab : (a + b) / 2 = a / 2 + b / 2 := by ring
  rw [hab]
  generalize a / 2 = x at *
  generalize b / 2 = y at *
  rw [ha, hb, sin_add (2 * x) (2 * y), sin_two_mul, sin_two_mul, cos_two_mul, cos_two_mul, sin_add]
  have hx := cos_sq_add_sin_sq x
  have hy := cos_sq_add_sin_sq y
  linear_combination (-4 * sin x * cos x) * hy + (-4 * sin y * cos y) * hx

/-- orientation determinant of three circle points about the normal direction `u × v` -/
theorem circle_orient (c u v : R3) (α β γ : ℝ) :
    dot (cross u v)
        (cross (sub (circlePoint c u v β) (circlePoint c u v α)) (sub (circlePoint c u v γ) (circlePoint c u v α))) =
      normSq (cross u v) * (4 * sin ((β - α) / 2) * sin ((γ - β) / 2) * sin ((γ - α) / 2)) := by
  have hid := sin_sum_identity (β - α) (γ - β)
  have e : β - α + (γ - β) = γ - α := by ring
  rw [e] at hid
  rw [← hid, sin_sub, sin_sub, sin_sub]
  simp only [circlePoint, normSq, dot, cross, sub, add, smul]
  ring

/-- C14, convexity: any three points taken in increasing angle (within one turn) are strictly counter-clockwise
    about `u × v`; hence the inscribed polygon is convex and its vertex order is the cyclic order -/
theorem circle_triple_pos (c nrm u v : R3) (r α β γ : ℝ) (F : Frame nrm u v r) (hr : 0 < r)
    (h1 : α < β) (h2 : β < γ) (h3 : γ < α + 2 * π) :
    0 < dot (cross u v)
        (cross (sub (circlePoint c u v β) (circlePoint c u v α)) (sub (circlePoint c u v γ) (circlePoint c u v α))) := by
  rw [circle_orient c u v α β γ]
  have hN : normSq (cross u v) = r ^ 4 := by
    obtain ⟨hu, hv, huv, _, _⟩ := F
    have : normSq (cross u v) = normSq u * normSq v - (dot u v) ^ 2 := by
      simp only [normSq, dot, cross]; ring
    rw [this, hu, hv, huv]; ring
  rw [hN]
  have s1 : 0 < sin ((β - α) / 2) := sin_pos_of_pos_of_lt_pi (by linarith) (by linarith)
  have s2 : 0 < sin ((γ - β) / 2) := sin_pos_of_pos_of_lt_pi (by linarith) (by linarith)
  have s3 : 0 < sin ((γ - α) / 2) := sin_pos_of_pos_of_lt_pi (by linarith) (by linarith)
  positivity

theorem stepAngle_lt (n i j : ℕ) (hn : 0 < n) (h : i < j) : stepAngle n i < stepAngle n j := by
  unfold stepAngle
  have : (0 : ℝ) < π * 2 / n := by have := pi_pos; positivity
  have hij : (i : ℝ) < j := by exact_mod_cast h
  nlinarith

theorem stepAngle_lt_turn (n i k : ℕ) (hn : 0 < n) (hk : k < n) : stepAngle n k < stepAngle n i + 2 * π := by
  unfold stepAngle
  have hn' : (0 : ℝ) < n := by exact_mod_cast hn
  have hk' : (k : ℝ) < n := by exact_mod_cast hk
  have hi : (0 : ℝ) ≤ i := Nat.cast_nonneg i
  have hp := pi_pos
  have h1 : π * 2 / n * k < 2 * π := by
    rw [div_mul_eq_mul_div, div_lt_iff₀ hn']; nlinarith
  have h2 : 0 ≤ π * 2 / n * i := by positivity
  linarith

/-- C14, Circle: every vertex triple `i < j < k < n` of the returned point list is strictly counter-clockwise about
    `u × v` (the Judge's `triplesPos` over ℝ) -/
theorem circle_polygon_convex (c nrm u v : R3) (r : ℝ) (n i j k : ℕ) (F : Frame nrm u v r) (hr : 0 < r)
    (hij : i < j) (hjk : j < k) (hkn : k < n) :
    0 < dot (cross u v)
        (cross (sub (circlePoint c u v (stepAngle n j)) (circlePoint c u v (stepAngle n i)))
          (sub (circlePoint c u v (stepAngle n k)) (circlePoint c u v (stepAngle n i)))) :=
  circle_triple_pos c nrm u v r _ _ _ F hr (stepAngle_lt n i j (by omega) hij) (stepAngle_lt n j k (by omega) hjk)
    (stepAngle_lt_turn n i k (by omega) hkn)

/-! ### area -/
/-- fan triangle `(centre, P(α), P(β))`: `(P(α) − c) × (P(β) − c) = sin(β − α)·(u × v)` -/
theorem fan_cross (c u v : R3) (α β : ℝ) :
    cross (sub (circlePoint c u v α) c) (sub (circlePoint c u v β) c) = smul (sin (β - α)) (cross u v) := by
  rw [sin_sub]
  apply R3.ext' <;> simp only [circlePoint, cross, sub, add, smul] <;> ring

/-- C14, Circle area: the vector areas of the `n` fan triangles about the centre are all `½·sin(2π/n)·(u × v)`,
    `|u × v| = r²`; so the polygon area is `n/2·r²·sin(2π/n)` -/
theorem circle_fan_area (c nrm u v : R3) (r : ℝ) (n i : ℕ) (F : Frame nrm u v r) :
    cross (sub (circlePoint c u v (stepAngle n i)) c) (sub (circlePoint c u v (stepAngle n (i + 1))) c) =
      smul (sin (2 * π / n)) (cross u v) ∧ normSq (cross u v) = (r ^ 2) ^ 2 := by
  refine ⟨by rw [fan_cross, stepAngle_succ], ?_⟩
  obtain ⟨hu, hv, huv, _, _⟩ := F
  have : normSq (cross u v) = normSq u * normSq v - (dot u v) ^ 2 := by
    simp only [normSq, dot, cross]; ring
  rw [this, hu, hv, huv]; ring

/-- the summed form: `Σ_{i<n} (P_i − c) × (P_{i+1} − c) = n·sin(2π/n)·(u × v)` (twice the vector area), component-wise -/
theorem circle_area_sum (c nrm u v : R3) (r : ℝ) (n : ℕ) (F : Frame nrm u v r) :
    (Finset.range n).sum (fun i =>
      dot (cross u v) (cross (sub (circlePoint c u v (stepAngle n i)) c) (sub (circlePoint c u v (stepAngle n (i + 1))) c))) =
      n * sin (2 * π / n) * (r ^ 2) ^ 2 := by
  have h := fun i => (circle_fan_area c nrm u v r n i F)
  have hN := (h 0).2
  have : ∀ i ∈ Finset.range n, dot (cross u v) (cross (sub (circlePoint c u v (stepAngle n i)) c)
      (sub (circlePoint c u v (stepAngle n (i + 1))) c)) = sin (2 * π / n) * (r ^ 2) ^ 2 := by
    intro i _
    rw [(h i).1, ← hN]
    simp only [normSq, dot, smul]; ring
  rw [Finset.sum_congr rfl this, Finset.sum_const, Finset.card_range, nsmul_eq_mul]; ring

/-! ### Cylinder, Cone, Sphere -/
/-- Cylinder: the top circle is the bottom circle moved by the height vector (same frame: same normal) -/
theorem cylinder_top (c h u v : R3) (θ : ℝ) :
    circlePoint (add c h) u v θ = add (circlePoint c u v θ) h := by
  apply R3.ext' <;> simp only [circlePoint, add] <;> ring

/-- Cylinder: every vertex (bottom `t = 0`, top `t = 1`) lies on the cylinder of radius `r` about the axis
    `c + ℝ·h`: the component of `P − c` orthogonal to `h` has squared length `r²` -/
theorem cylinder_points (c h u v : R3) (r θ t : ℝ) (F : Frame h u v r) :
    normSq (sub (sub (circlePoint (add c (smul t h)) u v θ) c) (smul t h)) = r ^ 2 ∧
      dot (sub (sub (circlePoint (add c (smul t h)) u v θ) c) (smul t h)) h = 0 := by
  have e : sub (sub (circlePoint (add c (smul t h)) u v θ) c) (smul t h) = sub (circlePoint c u v θ) c := by
    apply R3.ext' <;> simp only [circlePoint, sub, add, smul] <;> ring
  rw [e]; exact circle_points c h u v r θ F

/-- Cone: apex at `centre + height vector`; the slant edges all have squared length `r² + |h|²` -/
theorem cone_slant (c h u v : R3) (r θ : ℝ) (F : Frame h u v r) :
    normSq (sub (circlePoint c u v θ) (add c h)) = r ^ 2 + normSq h := by
  obtain ⟨h1, h2⟩ := circle_points c h u v r θ F
  simp only [normSq, dot, sub, add] at h1 h2 ⊢
  linear_combination h1 - 2 * h2

/-- Sphere: `r_i = r·cos φ`, `height_i = r·sin φ` -/
theorem sphere_ring_radius (r φ : ℝ) : (r * cos φ) ^ 2 + (r * sin φ) ^ 2 = r ^ 2 := by
  have := cos_sq_add_sin_sq φ
  linear_combination r ^ 2 * this

/-- C14, Sphere: a ring of radius `r·cos φ` about the axis `k` (unit) at height `±r·sin φ` lies on the sphere of
    radius `r` about `c` -/
theorem sphere_ring (c k u v : R3) (r φ θ s : ℝ) (hk : normSq k = 1) (hs : s ^ 2 = 1)
    (F : Frame k u v (r * cos φ)) :
    normSq (sub (circlePoint (add c (smul (s * (r * sin φ)) k)) u v θ) c) = r ^ 2 := by
  obtain ⟨h1, h2⟩ := circle_points c k u v (r * cos φ) θ F
  have h3 := sphere_ring_radius r φ
  have e : sub (circlePoint (add c (smul (s * (r * sin φ)) k)) u v θ) c =
      add (sub (circlePoint c u v θ) c) (smul (s * (r * sin φ)) k) := by
    apply R3.ext' <;> simp only [circlePoint, sub, add, smul] <;> ring
  rw [e]
  have : ∀ a : R3, ∀ m : ℝ, normSq (add a (smul m k)) = normSq a + 2 * m * dot a k + m ^ 2 * normSq k := by
    intro a m; simp only [normSq, dot, add, smul]; ring
  rw [this, h1, h2, hk]
  linear_combination h3 + (r * sin φ) ^ 2 * hs

/-- latitudes: `angle_i = π/2/n2·(i+1)`, equal steps of a quarter circle divided by `n2`; the poles
    `center ± radius·z` are the (degenerate) rings of index `i + 1 = n2` -/
noncomputable def latAngle (n2 i : ℕ) : ℝ := π / 2 / n2 * (i + 1)

theorem latAngle_step (n2 i : ℕ) : latAngle n2 (i + 1) - latAngle n2 i = π / 2 / n2 := by
  unfold latAngle; push_cast; ring

theorem latAngle_pole (n2 : ℕ) (h : n2 ≠ 0) :
    r * cos (latAngle n2 (n2 - 1)) = 0 ∧ r * sin (latAngle n2 (n2 - 1)) = r := by
  have hn : (n2 : ℝ) ≠ 0 := Nat.cast_ne_zero.mpr h
  have h1 : 1 ≤ n2 := Nat.one_le_iff_ne_zero.mpr h
  have : latAngle n2 (n2 - 1) = π / 2 := by
    unfold latAngle; rw [Nat.cast_sub h1]; push_cast; field_simp; ring
  rw [this, cos_pi_div_two, sin_pi_div_two]; simp

/-- latitudes of the rings `i = 0 .. n2−2` are strictly between the equator and the pole -/
theorem latAngle_range (n2 i : ℕ) (h : i + 1 < n2) : 0 < latAngle n2 i ∧ latAngle n2 i < π / 2 := by
  unfold latAngle
  have hn : (0 : ℝ) < n2 := by exact_mod_cast (by omega : 0 < n2)
  have hi : ((i : ℝ) + 1) < n2 := by exact_mod_cast h
  have hp := pi_pos
  constructor
  · positivity
  · rw [div_mul_eq_mul_div, div_lt_iff₀ hn]; nlinarith

/-- Sphere: the poles `center ± radius·z` lie on the sphere -/
theorem sphere_pole (c k : R3) (r s : ℝ) (hk : normSq k = 1) (hs : s ^ 2 = 1) :
    normSq (sub (add c (smul (s * r) k)) c) = r ^ 2 := by
  have : normSq (sub (add c (smul (s * r) k)) c) = (s * r) ^ 2 * normSq k := by
    simp only [normSq, dot, sub, add, smul]; ring
  rw [this, hk]; linear_combination r ^ 2 * hs

/-- Sphere: all rings use the same normal `z`, hence the same unit frame `(û, v̂)` scaled by the ring radius; a band
    quadrilateral `(A_s, A_e, B_e, B_s)` between two rings (centres `c1`, `c2`, radii `ρ1`, `ρ2`) is planar
    (a trapezoid: the two chords are parallel) -/
theorem sphere_band_planar (c1 c2 u v : R3) (ρ1 ρ2 α β : ℝ) :
    dot (sub (circlePoint c1 (smul ρ1 u) (smul ρ1 v) β) (circlePoint c1 (smul ρ1 u) (smul ρ1 v) α))
      (cross (sub (circlePoint c2 (smul ρ2 u) (smul ρ2 v) β) (circlePoint c1 (smul ρ1 u) (smul ρ1 v) α))
        (sub (circlePoint c2 (smul ρ2 u) (smul ρ2 v) α) (circlePoint c1 (smul ρ1 u) (smul ρ1 v) α))) = 0 := by
  simp only [circlePoint, dot, cross, sub, add, smul]; ring

/-- the scaled frames of the rings: `Frame k (ρ·û) (ρ·v̂) ρ` from a unit frame -/
theorem frame_scale (k u v : R3) (ρ : ℝ) (F : Frame k u v 1) : Frame k (smul ρ u) (smul ρ v) ρ := by
  obtain ⟨hu, hv, huv, hun, hvn⟩ := F
  simp only [normSq, dot] at hu hv huv hun hvn
  constructor
  · simp only [normSq, dot, smul]; linear_combination ρ ^ 2 * hu
  · simp only [normSq, dot, smul]; linear_combination ρ ^ 2 * hv
  · simp only [dot, smul]; linear_combination ρ ^ 2 * huv
  · simp only [dot, smul]; linear_combination ρ * hun
  · simp only [dot, smul]; linear_combination ρ * hvn

/-- C14, Sphere: every ring vertex (`mc`: φ = 0; `tc[i]`, `bc[i]`: φ = π/2/n2·(i+1), sign s = ±1) is at distance
    `r` from the centre, for the unit frame `(û, v̂)` of the normal `k` -/
theorem sphere_vertex (c k u v : R3) (r φ θ s : ℝ) (hk : normSq k = 1) (hs : s ^ 2 = 1) (F : Frame k u v 1) :
    normSq (sub (circlePoint (add c (smul (s * (r * sin φ)) k)) (smul (r * cos φ) u) (smul (r * cos φ) v) θ) c) =
      r ^ 2 :=
  sphere_ring c k _ _ r φ θ s hk hs (frame_scale k u v (r * cos φ) F)

/-! ### convexity of the Cylinder and the Cone -/
/-- vector form of the orientation identity: the cross product of two chords from `P(α)` -/
theorem chord_cross (c u v : R3) (α β γ : ℝ) :
    cross (sub (circlePoint c u v β) (circlePoint c u v α)) (sub (circlePoint c u v γ) (circlePoint c u v α)) =
      smul (4 * sin ((β - α) / 2) * sin ((γ - β) / 2) * sin ((γ - α) / 2)) (cross u v) := by
  have hid := sin_sum_identity (β - α) (γ - β)
  have e : β - α + (γ - β) = γ - α := by ring
  rw [e] at hid
  rw [← hid, sin_sub, sin_sub, sin_sub]
  apply R3.ext' <;> simp only [circlePoint, cross, sub, add, smul] <;> ring

theorem circlePoint_add_two_pi (c u v : R3) (θ : ℝ) : circlePoint c u v (θ + 2 * π) = circlePoint c u v θ := by
  simp [circlePoint, cos_add_two_pi, sin_add_two_pi]

/-- the edge test of the inscribed polygon: every other vertex `k` is strictly to the left of the directed edge
    `i → i+1` (indices mod n; `stepAngle n (i+1)` for `i = n−1` is the full turn, the same point as index 0) -/
theorem circle_edge_factor (n i k : ℕ) (hi : i < n) (hk : k < n) (hki : k ≠ i) (hki' : k ≠ (i + 1) % n) :
    ∃ γ : ℝ, (∀ c u v : R3, circlePoint c u v γ = circlePoint c u v (stepAngle n k)) ∧
      stepAngle n (i + 1) < γ ∧ γ < stepAngle n i + 2 * π := by
  have hn : 0 < n := by omega
  have hn' : (0 : ℝ) < n := by exact_mod_cast hn
  have hp := pi_pos
  have hstep : (0 : ℝ) < π * 2 / n := by positivity
  by_cases h : i + 1 < k
  · refine ⟨stepAngle n k, fun _ _ _ => rfl, stepAngle_lt n _ _ hn h, stepAngle_lt_turn n i k hn hk⟩
  · have hlt : k < i := by
      rcases Nat.lt_or_ge k i with h1 | h1
      · exact h1
      · exfalso
        have : k = i + 1 := by omega
        rw [Nat.mod_eq_of_lt (by omega)] at hki'
        exact hki' this
    refine ⟨stepAngle n k + 2 * π, fun c u v => circlePoint_add_two_pi c u v _, ?_, ?_⟩
    · -- stepAngle (i+1) ≤ 2π < stepAngle k + 2π unless k = 0 = (i+1) % n
      have h1 : stepAngle n (i + 1) ≤ 2 * π := by
        unfold stepAngle
        have : ((i + 1 : ℕ) : ℝ) ≤ n := by exact_mod_cast hi
        rw [div_mul_eq_mul_div, div_le_iff₀ hn']; nlinarith
      rcases Nat.eq_zero_or_pos k with h0 | h0
      · -- k = 0: then i + 1 < n (else k = (i+1) % n)
        have hi1 : i + 1 < n := by
          rcases Nat.lt_or_ge (i + 1) n with h2 | h2
          · exact h2
          · exfalso
            have : i + 1 = n := by omega
            rw [this, Nat.mod_self] at hki'
            exact hki' h0
        have : stepAngle n (i + 1) < 2 * π := by
          unfold stepAngle
          have : ((i + 1 : ℕ) : ℝ) < n := by exact_mod_cast hi1
          rw [div_mul_eq_mul_div, div_lt_iff₀ hn']; nlinarith
        have h00 : stepAngle n k = 0 := by rw [h0]; unfold stepAngle; simp
        linarith
      · have : 0 < stepAngle n k := by
          unfold stepAngle
          have : (0 : ℝ) < k := by exact_mod_cast h0
          positivity
        linarith
    · have := stepAngle_lt n k i hn hlt
      linarith

/-- C14, convexity of the Circle polygon / of the Cylinder's and Cone's mantle: for every edge `i → i+1` and every
    other vertex `k` the triple is strictly counter-clockwise about `u × v` -/
theorem circle_edge_test (c u v : R3) (n i k : ℕ)
    (hi : i < n) (hk : k < n) (hki : k ≠ i) (hki' : k ≠ (i + 1) % n) :
    ∃ s : ℝ, 0 < s ∧
      cross (sub (circlePoint c u v (stepAngle n (i + 1))) (circlePoint c u v (stepAngle n i)))
        (sub (circlePoint c u v (stepAngle n k)) (circlePoint c u v (stepAngle n i))) = smul s (cross u v) := by
  obtain ⟨γ, hγ, h1, h2⟩ := circle_edge_factor n i k hi hk hki hki'
  have h0 : stepAngle n i < stepAngle n (i + 1) := stepAngle_lt n _ _ (by omega) (Nat.lt_succ_self i)
  refine ⟨4 * sin ((stepAngle n (i + 1) - stepAngle n i) / 2) * sin ((γ - stepAngle n (i + 1)) / 2) *
    sin ((γ - stepAngle n i) / 2), ?_, ?_⟩
  · have s1 : 0 < sin ((stepAngle n (i + 1) - stepAngle n i) / 2) :=
      sin_pos_of_pos_of_lt_pi (by linarith) (by linarith)
    have s2 : 0 < sin ((γ - stepAngle n (i + 1)) / 2) := sin_pos_of_pos_of_lt_pi (by linarith) (by linarith)
    have s3 : 0 < sin ((γ - stepAngle n i) / 2) := sin_pos_of_pos_of_lt_pi (by linarith) (by linarith)
    positivity
  · rw [← hγ c u v, chord_cross]

/-- Cylinder, side face `i` (outward normal `(P_{i+1} − P_i) × h`): every vertex `P_k + t·h` (`t = 0` bottom,
    `t = 1` top) other than the face's own lies strictly inside -/
theorem cylinder_side_inner (c h u v : R3) (t : ℝ) (n i k : ℕ)
    (hD : 0 < dot h (cross u v))
    (hi : i < n) (hk : k < n) (hki : k ≠ i) (hki' : k ≠ (i + 1) % n) :
    dot (sub (add (circlePoint c u v (stepAngle n k)) (smul t h)) (circlePoint c u v (stepAngle n i)))
      (cross (sub (circlePoint c u v (stepAngle n (i + 1))) (circlePoint c u v (stepAngle n i))) h) < 0 := by
  obtain ⟨s, hs, he⟩ := circle_edge_test c u v n i k hi hk hki hki'
  have key : ∀ A B C : R3, dot (sub (add C (smul t h)) A) (cross (sub B A) h) =
      - dot h (cross (sub B A) (sub C A)) := by
    intro A B C; simp only [dot, cross, sub, add, smul]; ring
  rw [key, he]
  have : dot h (smul s (cross u v)) = s * dot h (cross u v) := by simp only [dot, smul]; ring
  rw [this]; nlinarith

/-- Cylinder, top (normal `h`, through `c + h`) and bottom (normal `−h`, through `c`) faces -/
theorem cylinder_caps_inner (c h u v : R3) (r t θ : ℝ) (F : Frame h u v r) (ht : 0 ≤ t ∧ t ≤ 1) :
    dot (sub (add (circlePoint c u v θ) (smul t h)) (add c h)) h ≤ 0 ∧
      dot (sub (add (circlePoint c u v θ) (smul t h)) c) (smul (-1) h) ≤ 0 := by
  obtain ⟨_, h2⟩ := circle_points c h u v r θ F
  have hN := normSq_nonneg h
  have e1 : dot (sub (add (circlePoint c u v θ) (smul t h)) (add c h)) h =
      dot (sub (circlePoint c u v θ) c) h + (t - 1) * normSq h := by
    simp only [normSq, dot, sub, add, smul]; ring
  have e2 : dot (sub (add (circlePoint c u v θ) (smul t h)) c) (smul (-1) h) =
      - dot (sub (circlePoint c u v θ) c) h - t * normSq h := by
    simp only [normSq, dot, sub, add, smul]; ring
  rw [e1, e2, h2]
  constructor <;> nlinarith [ht.1, ht.2]

/-- Cone, side face `i` = (apex, P_i, P_{i+1}) with outward normal `(P_i − apex) × (P_{i+1} − apex)`: every other
    base vertex lies strictly inside; the base face (normal `−h`) has the apex strictly inside -/
theorem cone_side_inner (c h u v : R3) (n i k : ℕ)
    (hD : 0 < dot h (cross u v))
    (hi : i < n) (hk : k < n) (hki : k ≠ i) (hki' : k ≠ (i + 1) % n) :
    dot (sub (circlePoint c u v (stepAngle n k)) (add c h))
      (cross (sub (circlePoint c u v (stepAngle n i)) (add c h))
        (sub (circlePoint c u v (stepAngle n (i + 1))) (add c h))) < 0 := by
  obtain ⟨s, hs, he⟩ := circle_edge_test c u v n i k hi hk hki hki'
  have key : ∀ α β γ : ℝ, dot (sub (circlePoint c u v γ) (add c h))
      (cross (sub (circlePoint c u v α) (add c h)) (sub (circlePoint c u v β) (add c h))) =
      - dot h (cross (sub (circlePoint c u v β) (circlePoint c u v α))
        (sub (circlePoint c u v γ) (circlePoint c u v α))) := by
    intro α β γ; simp only [circlePoint, dot, cross, sub, add, smul]; ring
  rw [key, he]
  have : dot h (smul s (cross u v)) = s * dot h (cross u v) := by simp only [dot, smul]; ring
  rw [this]; nlinarith

/-- Cone, base face (normal `−h`): the apex `c + h` is strictly inside -/
theorem cone_base_inner (c h : R3) (hh : 0 < normSq h) : dot (sub (add c h) c) (smul (-1) h) < 0 := by
  have : dot (sub (add c h) c) (smul (-1) h) = - normSq h := by simp only [normSq, dot, sub, add, smul]; ring
  rw [this]; linarith

/-- the orientation factor of the frame of `get_circle_point_list`: `h·(u × v) = r²·|h| > 0` -/
theorem frame_real_positive (h b : R3) (r : ℝ) (hr : 0 < r) (hn : 0 < normSq h) (hb : 0 < normSq (cross h b)) :
    dot h (cross (frameU h b r) (frameV h b r)) = r ^ 2 * √(normSq h) ∧
      0 < dot h (cross (frameU h b r) (frameV h b r)) := by
  have p2 : 0 < √(normSq h) := sqrt_pos.mpr hn
  have s2 : √(normSq h) ^ 2 = normSq h := sq_sqrt (le_of_lt hn)
  have e : dot h (cross (frameU h b r) (frameV h b r)) = r ^ 2 * √(normSq h) := by
    rw [frame_real_handed h b r hn hb]
    have : dot h (smul (r ^ 2 / √(normSq h)) h) = r ^ 2 / √(normSq h) * normSq h := by
      simp only [normSq, dot, smul]; ring
    rw [this]
    obtain ⟨a, ha⟩ : ∃ a, a = √(normSq h) := ⟨_, rfl⟩
    rw [← ha] at s2 p2 ⊢
    rw [← s2]; field_simp
  exact ⟨e, by rw [e]; positivity⟩

/-! ### volume of the Cylinder and the Cone (surface-integral form on the oriented skeleton, every n) -/
def vsumR (l : List R3) : R3 := ⟨(l.map R3.x).sum, (l.map R3.y).sum, (l.map R3.z).sum⟩

/-- twice the vector area of a vertex cycle (shoelace) -/
def vecArea2R (l : List R3) : R3 := vsumR ((cyc l).map (fun e => cross e.1 e.2))

/-- six times the signed volume seen from `q` (the real counterpart of `vol6` in G3D/Proofs/Volume.lean) -/
def vol6R (fs : List (List R3)) (q : R3) : ℝ :=
  (fs.map (fun l => dot (sub (l.headD zero) q) (vecArea2R l))).sum

theorem sum_map_range (f : ℕ → ℝ) (n : ℕ) : ((List.range n).map f).sum = (Finset.range n).sum f := by
  induction n with
  | zero => simp
  | succ k ih => rw [List.range_succ, List.map_append, List.sum_append, ih, Finset.sum_range_succ]; simp

theorem vsumR_reverse (l : List R3) : vsumR l.reverse = vsumR l := by
  simp [vsumR, List.map_reverse, List.sum_reverse]

theorem vecArea2R_flip (l : List R3) : vecArea2R (flipCycle l) = smul (-1) (vecArea2R l) := by
  unfold vecArea2R
  rw [cyc_flipCycle, List.map_reverse, vsumR_reverse, List.map_map]
  have : ((fun e : R3 × R3 => cross e.1 e.2) ∘ Prod.swap) = fun e => smul (-1) (cross e.1 e.2) := by
    funext e; apply R3.ext' <;> simp only [Function.comp, Prod.swap, cross, smul] <;> ring
  rw [this]
  generalize cyc l = es
  induction es with
  | nil => apply R3.ext' <;> simp [vsumR, smul]
  | cons e es ih =>
    have hx := congrArg R3.x ih
    have hy := congrArg R3.y ih
    have hz := congrArg R3.z ih
    simp only [vsumR, smul] at hx hy hz
    apply R3.ext' <;> simp only [vsumR, smul, List.map_cons, List.sum_cons] <;> linarith

theorem sum_telescope (f : ℕ → ℝ) (K : ℝ) (n : ℕ) (G : ℕ → ℝ) (hG : ∀ i, G i = f (i + 1) - f i + K) :
    ((List.range n).map G).sum = f n - f 0 + n * K := by
  rw [sum_map_range, Finset.sum_congr rfl (fun i _ => hG i), Finset.sum_add_distrib, Finset.sum_range_sub,
    Finset.sum_const, Finset.card_range, nsmul_eq_mul]

theorem vsumR_telescope (F : ℕ → R3) (K : R3) (n : ℕ) (G : ℕ → R3)
    (hG : ∀ i, G i = add (sub (F (i + 1)) (F i)) K) :
    vsumR ((List.range n).map G) = add (sub (F n) (F 0)) (smul n K) := by
  apply R3.ext' <;> simp only [vsumR, List.map_map, add, sub, smul]
  · exact sum_telescope (fun i => (F i).x) K.x n _ (fun i => by simp [hG i, add, sub])
  · exact sum_telescope (fun i => (F i).y) K.y n _ (fun i => by simp [hG i, add, sub])
  · exact sum_telescope (fun i => (F i).z) K.z n _ (fun i => by simp [hG i, add, sub])

/-- the radius vector `cos θ·u + sin θ·v` -/
noncomputable def rad (u v : R3) (θ : ℝ) : R3 := add (smul (cos θ) u) (smul (sin θ) v)

theorem circlePoint_eq (c u v : R3) (θ : ℝ) : circlePoint c u v θ = add c (rad u v θ) := rfl

theorem rad_closed (u v : R3) (n : ℕ) (hn : n ≠ 0) : rad u v (stepAngle n n) = rad u v (stepAngle n 0) := by
  have hn' : (n : ℝ) ≠ 0 := Nat.cast_ne_zero.mpr hn
  have e1 : stepAngle n n = 2 * π := by unfold stepAngle; field_simp
  have e0 : stepAngle n 0 = 0 := by unfold stepAngle; simp
  rw [e1, e0]; simp [rad, cos_two_pi, sin_two_pi]

theorem rad_cross (u v : R3) (n i : ℕ) :
    cross (rad u v (stepAngle n i)) (rad u v (stepAngle n (i + 1))) = smul (sin (2 * π / n)) (cross u v) := by
  rw [← stepAngle_succ n i, sin_sub]
  apply R3.ext' <;> simp only [rad, cross, add, smul] <;> ring

/-- the point with index `(i+1) mod n` is the point at angle `2π/n·(i+1)` -/
theorem circlePoint_step_mod (c u v : R3) (n i : ℕ) (hi : i < n) :
    circlePoint c u v (stepAngle n ((i + 1) % n)) = circlePoint c u v (stepAngle n (i + 1)) := by
  rcases Nat.lt_or_ge (i + 1) n with h | h
  · rw [Nat.mod_eq_of_lt h]
  · have : i + 1 = n := by omega
    rw [this, Nat.mod_self]
    exact (circlePoint_closed c u v n (by omega)).symm

theorem cyc_map_range {α : Type} (g : ℕ → α) (n : ℕ) :
    cyc ((List.range n).map g) = (List.range n).map (fun i => (g i, g ((i + 1) % n))) := by
  rw [cyc_map, cyc_range, List.map_map]; rfl

/-- shoelace vector area of the ring `P_0 … P_{n−1}` about any centre `a`: `n·sin(2π/n)·(u × v)` -/
theorem ring_vecArea2 (a u v : R3) (n : ℕ) (hn : 0 < n) :
    vecArea2R ((List.range n).map (fun i => circlePoint a u v (stepAngle n i))) =
      smul (n * sin (2 * π / n)) (cross u v) := by
  unfold vecArea2R
  rw [cyc_map_range, List.map_map]
  have hcongr : (List.range n).map ((fun e : R3 × R3 => cross e.1 e.2) ∘
      (fun i => (circlePoint a u v (stepAngle n i), circlePoint a u v (stepAngle n ((i + 1) % n))))) =
      (List.range n).map (fun i => cross (circlePoint a u v (stepAngle n i)) (circlePoint a u v (stepAngle n (i + 1)))) := by
    apply List.map_congr_left
    intro i hi
    simp only [Function.comp]
    rw [circlePoint_step_mod a u v n i (List.mem_range.mp hi)]
  rw [hcongr]
  rw [vsumR_telescope (fun i => cross a (rad u v (stepAngle n i))) (smul (sin (2 * π / n)) (cross u v)) n]
  · rw [rad_closed u v n (by omega)]
    apply R3.ext' <;> simp only [add, sub, smul] <;> ring
  · intro i
    rw [← rad_cross u v n i]
    apply R3.ext' <;> simp only [circlePoint_eq, cross, add, sub] <;> ring

theorem headD_map_range (f : ℕ → R3) (n : ℕ) (hn : 0 < n) (z : R3) : ((List.range n).map f).headD z = f 0 := by
  cases n with
  | zero => omega
  | succ k => rw [List.range_eq_range', List.range'_succ]; rfl

theorem headD_flipCycle (l : List R3) (z : R3) : (flipCycle l).headD z = l.headD z := by
  cases l <;> rfl

/-- placement of the Cylinder ids: `i ↦ P_i + h` (top ring), `n + i ↦ P_i` (bottom ring) -/
noncomputable def cylinderPlace (c h u v : R3) (n : ℕ) (k : ℕ) : R3 :=
  if k < n then add (circlePoint c u v (stepAngle n k)) h else circlePoint c u v (stepAngle n (k - n))

/-- vector area of a side quadrilateral `A+h, A, B, B+h` -/
theorem quad_vecArea2 (A B h : R3) : vecArea2R [add A h, A, B, add B h] = smul 2 (cross (sub B A) h) := by
  apply R3.ext' <;>
    simp [vecArea2R, vsumR, cyc, consecG, cross, add, sub, smul] <;> ring

/-- C14, Cylinder volume, every n ≥ 1, every reference point `q`: the surface integral over the faces as oriented
    by the constructor is `6·V = 3·n·sin(2π/n)·h·(u × v)`; with the frame of `get_circle_point_list`
    (`h·(u × v) = r²·|h|`): `V = (n/2·r²·sin(2π/n))·|h|` = base area × height -/
theorem cylinder_volume (c h u v q : R3) (n : ℕ) (hn : 0 < n) :
    vol6R ((cylinderOriented n).map (List.map (cylinderPlace c h u v n))) q =
      3 * n * sin (2 * π / n) * dot h (cross u v) := by
  rw [cylinderOriented_eq]
  simp only [List.map_append, List.map_cons, List.map_nil]
  rw [← flipCycle_map]
  simp only [List.map_map]
  -- the three groups of faces
  have htop : (List.range n).map (cylinderPlace c h u v n) =
      (List.range n).map (fun i => circlePoint (add c h) u v (stepAngle n i)) := by
    apply List.map_congr_left
    intro i hi
    simp only [cylinderPlace, if_pos (List.mem_range.mp hi), cylinder_top]
  have hbot : (List.range n).map (cylinderPlace c h u v n ∘ (n + ·)) =
      (List.range n).map (fun i => circlePoint c u v (stepAngle n i)) := by
    apply List.map_congr_left
    intro i _
    simp [cylinderPlace]
  have hside : (List.range n).map (List.map (cylinderPlace c h u v n) ∘ fun i => [i, n + i, n + (i + 1) % n, (i + 1) % n]) =
      (List.range n).map (fun i => [add (circlePoint c u v (stepAngle n i)) h, circlePoint c u v (stepAngle n i),
        circlePoint c u v (stepAngle n (i + 1)), add (circlePoint c u v (stepAngle n (i + 1))) h]) := by
    apply List.map_congr_left
    intro i hi
    have hi' := List.mem_range.mp hi
    have hm : (i + 1) % n < n := Nat.mod_lt _ hn
    simp [cylinderPlace, hi', hm, circlePoint_step_mod c u v n i hi']
  rw [htop, hbot, hside]
  unfold vol6R
  simp only [List.map_cons, List.map_append, List.sum_cons, List.sum_append, List.map_nil, List.sum_nil,
    List.map_map]
  rw [headD_flipCycle, vecArea2R_flip, headD_map_range _ n hn, headD_map_range _ n hn, ring_vecArea2 _ u v n hn,
    ring_vecArea2 _ u v n hn]
  have hsides : ((List.range n).map ((fun l : List R3 => dot (sub (l.headD zero) q) (vecArea2R l)) ∘ fun i =>
      [add (circlePoint c u v (stepAngle n i)) h, circlePoint c u v (stepAngle n i),
        circlePoint c u v (stepAngle n (i + 1)), add (circlePoint c u v (stepAngle n (i + 1))) h])).sum =
      n * (2 * sin (2 * π / n) * dot h (cross u v)) := by
    rw [sum_telescope (fun i => 2 * dot (sub c q) (cross (rad u v (stepAngle n i)) h))
      (2 * sin (2 * π / n) * dot h (cross u v)) n]
    · rw [rad_closed u v n (by omega)]; ring
    · intro i
      simp only [Function.comp, List.headD_cons, quad_vecArea2]
      have hr := rad_cross u v n i
      have hd : dot h (cross (rad u v (stepAngle n i)) (rad u v (stepAngle n (i + 1)))) =
          sin (2 * π / n) * dot h (cross u v) := by
        rw [hr]; simp only [dot, smul]; ring
      simp only [circlePoint_eq, dot, cross, add, sub, smul] at hd ⊢
      linear_combination 2 * hd
  rw [hsides]
  have e0 : stepAngle n 0 = 0 := by unfold stepAngle; simp
  simp only [e0, circlePoint, cos_zero, sin_zero, dot, cross, add, sub, smul]
  ring

/-- closed form with the frame of `get_circle_point_list`: `V = vol6/6 = (n/2·r²·sin(2π/n))·|h|` -/
theorem cylinder_volume_closed_form (c h b q : R3) (r : ℝ) (n : ℕ) (hn : 0 < n) (hr : 0 < r)
    (hh : 0 < normSq h) (hb : 0 < normSq (cross h b)) :
    vol6R ((cylinderOriented n).map (List.map (cylinderPlace c h (frameU h b r) (frameV h b r) n))) q =
      6 * ((n / 2 * r ^ 2 * sin (2 * π / n)) * √(normSq h)) := by
  rw [cylinder_volume c h _ _ q n hn, (frame_real_positive h b r hr hh hb).1]; ring

/-- placement of the Cone ids: `i ↦ P_i` (base circle), `n ↦ centre + height vector` (apex) -/
noncomputable def conePlace (c h u v : R3) (n : ℕ) (k : ℕ) : R3 :=
  if k < n then circlePoint c u v (stepAngle n k) else add c h

theorem tri_vecArea2 (a A B : R3) : vecArea2R [a, A, B] = cross (sub A a) (sub B a) := by
  apply R3.ext' <;> simp [vecArea2R, vsumR, cyc, consecG, cross, sub] <;> ring

/-- C14, Cone volume, every n ≥ 1, every reference point: `6·V = n·sin(2π/n)·h·(u × v)`, i.e.
    `V = (n/2·r²·sin(2π/n))·|h|/3` -/
theorem cone_volume (c h u v q : R3) (n : ℕ) (hn : 0 < n) :
    vol6R ((coneOriented n).map (List.map (conePlace c h u v n))) q =
      n * sin (2 * π / n) * dot h (cross u v) := by
  rw [coneOriented_eq]
  simp only [List.map_cons, List.map_map]
  rw [← flipCycle_map]
  have hbase : (List.range n).map (conePlace c h u v n) =
      (List.range n).map (fun i => circlePoint c u v (stepAngle n i)) := by
    apply List.map_congr_left
    intro i hi
    simp only [conePlace, if_pos (List.mem_range.mp hi)]
  have hside : (List.range n).map (List.map (conePlace c h u v n) ∘ fun i => [n, i, (i + 1) % n]) =
      (List.range n).map (fun i => [add c h, circlePoint c u v (stepAngle n i),
        circlePoint c u v (stepAngle n (i + 1))]) := by
    apply List.map_congr_left
    intro i hi
    have hi' := List.mem_range.mp hi
    have hm : (i + 1) % n < n := Nat.mod_lt _ hn
    simp [conePlace, hi', hm, circlePoint_step_mod c u v n i hi']
  rw [hbase, hside]
  unfold vol6R
  simp only [List.map_cons, List.sum_cons, List.map_map]
  rw [headD_flipCycle, vecArea2R_flip, headD_map_range _ n hn, ring_vecArea2 _ u v n hn]
  have hsides : ((List.range n).map ((fun l : List R3 => dot (sub (l.headD zero) q) (vecArea2R l)) ∘ fun i =>
      [add c h, circlePoint c u v (stepAngle n i), circlePoint c u v (stepAngle n (i + 1))])).sum =
      n * (sin (2 * π / n) * dot (sub (add c h) q) (cross u v)) := by
    rw [sum_telescope (fun i => - dot (sub (add c h) q) (cross h (rad u v (stepAngle n i))))
      (sin (2 * π / n) * dot (sub (add c h) q) (cross u v)) n]
    · rw [rad_closed u v n (by omega)]; ring
    · intro i
      simp only [Function.comp, List.headD_cons, tri_vecArea2]
      have hr := rad_cross u v n i
      have hx := congrArg R3.x hr
      have hy := congrArg R3.y hr
      have hz := congrArg R3.z hr
      simp only [circlePoint_eq, dot, cross, add, sub, smul] at hx hy hz ⊢
      linear_combination (c.x + h.x - q.x) * hx + (c.y + h.y - q.y) * hy + (c.z + h.z - q.z) * hz
  rw [hsides]
  have e0 : stepAngle n 0 = 0 := by unfold stepAngle; simp
  simp only [e0, circlePoint, cos_zero, sin_zero, dot, cross, add, sub, smul]
  ring

theorem cone_volume_closed_form (c h b q : R3) (r : ℝ) (n : ℕ) (hn : 0 < n) (hr : 0 < r)
    (hh : 0 < normSq h) (hb : 0 < normSq (cross h b)) :
    vol6R ((coneOriented n).map (List.map (conePlace c h (frameU h b r) (frameV h b r) n))) q =
      6 * ((n / 2 * r ^ 2 * sin (2 * π / n)) * √(normSq h) / 3) := by
  rw [cone_volume c h _ _ q n hn, (frame_real_positive h b r hr hh hb).1]; ring

/-- C14, Circle area on the list itself: the shoelace vector area of the returned point list is
    `n·sin(2π/n)·(u × v)`, i.e. area `n/2·r²·sin(2π/n)` with normal direction `u × v` -/
theorem circle_area (c u v : R3) (n : ℕ) (hn : 0 < n) :
    vecArea2R ((circleFaces n).head!.map (fun i => circlePoint c u v (stepAngle n i))) =
      smul (n * sin (2 * π / n)) (cross u v) := by
  simp only [circleFaces, List.head!_cons]
  exact ring_vecArea2 c u v n hn

#print axioms frame_real
#print axioms circle_points
#print axioms circle_chord
#print axioms circle_polygon_convex
#print axioms circle_area_sum
#print axioms sphere_ring
#print axioms sphere_vertex
#print axioms cylinder_points
#print axioms cylinder_side_inner
#print axioms cone_side_inner
#print axioms frame_real_positive
#print axioms cylinder_volume_closed_form
#print axioms cone_volume_closed_form
#print axioms circle_area
end BuildersReal
end G3D
