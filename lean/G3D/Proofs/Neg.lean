import G3D.Proofs.Sort
import G3D.Proofs.FlatPolygon
import G3D.Model.PlaneForms

/-! `-polygon` (`ConvexPolygon.__neg__`: `ConvexPolygon(self.points, reverse=True)`) and `-plane`. -/
namespace G3D
open V3

/-! ### planes -/
theorem V3.neg_neg' (a : V3) : neg (neg a) = a := by
  apply V3.ext' <;> simp [neg]

/-- `-(-plane) = plane` -/
theorem Plane.neg_neg (pl : Plane) : pl.neg.neg = pl := by
  cases pl; simp [Plane.neg, V3.neg_neg']

theorem Plane.contains_iff_dot (pl : Plane) (x : V3) : pl.contains x = true ↔ dot pl.n (sub x pl.p) = 0 := by
  simp only [Plane.contains, beq_iff_eq, dot, sub]
  constructor <;> intro h <;> linarith

theorem Plane.neg_contains (pl : Plane) (x : V3) : pl.neg.contains x = pl.contains x := by
  rw [Bool.eq_iff_iff, Plane.contains_iff_dot, Plane.contains_iff_dot]
  simp only [Plane.neg, dot, V3.neg, sub]
  constructor <;> intro h <;> linarith

theorem Plane.neg_WF (pl : Plane) (h : pl.WF) : pl.neg.WF := by
  intro hz
  apply h
  have hx := congrArg V3.x hz; have hy := congrArg V3.y hz; have hz' := congrArg V3.z hz
  simp only [Plane.neg, V3.neg, zero] at hx hy hz'
  apply V3.ext' <;> simp only [zero] <;> linarith

/-! ### vectors in a plane -/
/-- the cross product of two vectors orthogonal to `n` is parallel to `n` (BAC-CAB) -/
theorem cross_coplanar (n u v : V3) (hu : dot n u = 0) (hv : dot n v = 0) :
    smul (normSq n) (cross u v) = smul (dot n (cross u v)) n := by
  apply V3.ext'
  · simp only [smul, normSq, dot, cross] at *
    linear_combination (n.y * v.z - n.z * v.y) * hu - (n.y * u.z - n.z * u.y) * hv
  · simp only [smul, normSq, dot, cross] at *
    linear_combination (n.z * v.x - n.x * v.z) * hu - (n.z * u.x - n.x * u.z) * hv
  · simp only [smul, normSq, dot, cross] at *
    linear_combination (n.x * v.y - n.y * v.x) * hu - (n.x * u.y - n.y * u.x) * hv

/-- … with the explicit factor -/
theorem cross_coplanar' (n u v : V3) (hn : n ≠ zero) (hu : dot n u = 0) (hv : dot n v = 0) :
    cross u v = smul (dot n (cross u v) / normSq n) n := by
  have hpos := normSq_pos_of_ne hn
  have h := cross_coplanar n u v hu hv
  have hx := congrArg V3.x h; have hy := congrArg V3.y h; have hz := congrArg V3.z h
  simp only [smul] at hx hy hz
  apply V3.ext' <;> simp only [smul] <;> field_simp <;> linarith

/-! ### `-polygon` -/
/-- **`-polygon` on a constructed polygon.**  Let `P` be produced by `ConvexPolygon(input, rev)` with pairwise
    different vertex angles about the centroid, and let its first three stored vertices be non-collinear
    (true for every `Valid` polygon).  Then `-P` is constructed successfully; it has the same plane point and
    centre, its (unnormalised) normal is `neg (cross (q1-q0) (q2-q0))`, a non-zero multiple `t • neg P.plane.n`
    of the negated normal (`t > 0` exactly when the first three vertices turn counter-clockwise about
    `P.plane.n`), and its vertex list is a permutation of `P`'s. -/
theorem Polygon.neg?_ok (input : List V3) (rev : Bool) (P : Polygon) (h : Polygon.mk? input rev = .ok P)
    (hne : ∀ p ∈ dedupV input, ∀ q ∈ dedupV input, p ≠ q → angEq (P.key p) (P.key q) = false)
    (hnc : ∀ q0 q1 q2 r, P.pts = q0 :: q1 :: q2 :: r → cross (sub q1 q0) (sub q2 q0) ≠ zero) :
    ∃ Q q1 q2 r, P.neg? = .ok Q ∧ P.pts = P.plane.p :: q1 :: q2 :: r ∧
      Q.plane.p = P.plane.p ∧ Q.center = P.center ∧
      Q.plane.n = neg (cross (sub q1 P.plane.p) (sub q2 P.plane.p)) ∧
      (∃ t : Rat, t ≠ 0 ∧ t = orient P.plane.n P.plane.p q1 q2 / normSq P.plane.n ∧
        Q.plane.n = smul t (neg P.plane.n)) ∧
      List.Perm Q.pts P.pts ∧ (∀ p, p ∈ Q.pts ↔ p ∈ P.pts) ∧
      Q.pts.head? = some P.plane.p ∧
      Q.pts.Pairwise (fun p q => angLt (Q.key p) (Q.key q) = true) := by
  obtain ⟨p0, p1, p2, rest, hd, _, hpl, hc, hv0, hall, hpts⟩ := Polygon.mk?_shape input rev P h
  obtain ⟨hmem, hnd, hlen', hlen⟩ := Polygon.mk?_mem_iff input rev P h hne
  have hperm := Polygon.mk?_perm input rev P h hne
  obtain ⟨hhead, _⟩ := Polygon.mk?_head input rev P h hne
  obtain ⟨_, hW, _, hcont, _⟩ := Polygon.mk?_ok input rev P h
  -- shape of the stored cycle
  obtain ⟨q1, q2, r, hP⟩ : ∃ q1 q2 r, P.pts = P.plane.p :: q1 :: q2 :: r := by
    match hq : P.pts, hlen, hhead with
    | a :: b :: c :: r, _, hh =>
      simp only [List.head?_cons, Option.some.injEq] at hh
      exact ⟨b, c, r, by rw [hh]⟩
  have hm0 := hnc _ _ _ _ hP
  set n := P.plane.n with hn
  set a := P.plane.p with ha
  set m := cross (sub q1 a) (sub q2 a) with hm
  have hdd : dedupV P.pts = P.pts := dedupV_of_nodup _ hnd
  have hmean : meanV P.pts = P.center := by rw [meanV_perm hperm, hc]
  -- in-plane facts
  have hin : ∀ p ∈ P.pts, dot n (sub p a) = 0 := fun p hp => (Plane.contains_iff_dot P.plane p).mp (hcont p hp)
  have hu : dot n (sub q1 a) = 0 := hin q1 (by rw [hP]; simp)
  have hv : dot n (sub q2 a) = 0 := hin q2 (by rw [hP]; simp)
  obtain ⟨t, htdef, hmt⟩ : ∃ t : Rat, t = dot n m / normSq n ∧ m = smul t n :=
    ⟨_, rfl, cross_coplanar' n _ _ hW hu hv⟩
  have ht0 : t ≠ 0 := by
    intro h0
    apply hm0
    rw [hmt, h0]
    apply V3.ext' <;> simp [smul, zero]
  -- the four checks of the constructor on `P.pts` with `reverse = True`
  have hv0' : sub a (meanV (dedupV P.pts)) ≠ zero := by
    rw [hdd, hmean]
    have : a = p0 := by rw [ha, hpl]
    rw [this]; exact hv0
  have hall' : ∀ p ∈ dedupV P.pts, (⟨a, if true = true then neg (cross (sub q1 a) (sub q2 a))
        else cross (sub q1 a) (sub q2 a)⟩ : Plane).contains p = true := by
    intro p hp
    rw [hdd] at hp
    rw [Plane.contains_iff_dot]
    simp only [if_true]
    have h1 := hin p hp
    rw [← hm, hmt]
    simp only [dot, smul, neg, sub] at h1 ⊢
    linear_combination (-t) * h1
  have hok := Polygon.mk?_eq_ok P.pts true a q1 q2 r hlen (by rw [hdd]; exact hP) hm0 hv0' hall'
  simp only [if_true] at hok
  rw [hdd, hmean, ← hm] at hok
  -- distinct angles in the new frame
  have hkey : ∀ p, frameKey P.center a (neg m) p =
      ((P.key p).1, (-t) * (P.key p).2) := by
    intro p
    have : cross (neg m) (sub a P.center) = smul (-t) (cross n (sub a P.center)) := by
      rw [hmt]
      apply V3.ext' <;> simp only [cross, smul, neg] <;> ring
    show (dot (sub p P.center) (sub a P.center), dot (sub p P.center) (cross (neg m) (sub a P.center))) =
      (dot (sub p P.center) (sub a P.center), (-t) * dot (sub p P.center) (cross n (sub a P.center)))
    rw [this]
    congr 1
    simp only [dot, smul]; ring
  have hne' : ∀ p ∈ P.pts, ∀ q ∈ P.pts, p ≠ q →
      angEq (frameKey P.center a (neg m) p) (frameKey P.center a (neg m) q) = false := by
    intro p hp q hq hpq
    rw [hkey p, hkey q, angEq_scale (neg_ne_zero.mpr ht0)]
    exact hne p (hperm.mem_iff.mp hp) q (hperm.mem_iff.mp hq) hpq
  have hsp := sorted_perm' (frameKey P.center a (neg m)) P.pts hnd hne'
  refine ⟨_, q1, q2, r, hok, hP, rfl, rfl, rfl, ⟨t, ht0, htdef, ?_⟩, hsp.1, fun p => hsp.1.mem_iff, ?_, hsp.2⟩
  · show neg m = smul t (neg n)
    conv_lhs => rw [hmt]
    apply V3.ext' <;> simp only [smul, neg] <;> ring
  · refine sorted_head_of_cls0 _ _ hsp.2 a ?_ (frameKey_self _ _ _)
    rw [hsp.1.mem_iff, hP]; exact List.mem_cons_self

/-- the first three vertices of a `Valid` polygon are not collinear -/
theorem Polygon.Valid.first_three (P : Polygon) (hv : P.Valid) :
    ∀ q0 q1 q2 r, P.pts = q0 :: q1 :: q2 :: r →
      0 < orient P.plane.n q0 q1 q2 ∧ cross (sub q1 q0) (sub q2 q0) ≠ zero := by
  intro q0 q1 q2 r hP
  obtain ⟨_, _, _, _, _, _, htp⟩ := hv
  rw [hP] at htp
  have hpos : 0 < orient P.plane.n q0 q1 q2 := htp.1 q1 q2 (by simp)
  refine ⟨hpos, ?_⟩
  intro hz
  rw [orient, hz] at hpos
  simp [dot, zero] at hpos

/-- `-polygon` on a constructed `Valid` polygon: succeeds, same plane point, same centre, the new normal is a
    POSITIVE multiple of the negated normal (equal after the normalisation done by `Plane.__init__`), same vertex
    set -/
theorem Polygon.neg?_ok_of_valid (input : List V3) (rev : Bool) (P : Polygon) (h : Polygon.mk? input rev = .ok P)
    (hne : ∀ p ∈ dedupV input, ∀ q ∈ dedupV input, p ≠ q → angEq (P.key p) (P.key q) = false)
    (hv : P.Valid) :
    ∃ Q, P.neg? = .ok Q ∧ Q.plane.p = P.plane.p ∧ Q.center = P.center ∧
      (∃ t : Rat, 0 < t ∧ Q.plane.n = smul t (neg P.plane.n)) ∧
      List.Perm Q.pts P.pts ∧ (∀ p, p ∈ Q.pts ↔ p ∈ P.pts) ∧ Q.pts.head? = P.pts.head? := by
  have h3 := Polygon.Valid.first_three P hv
  obtain ⟨Q, q1, q2, r, hQ, hP, h1, h2, _, ⟨t, _, htdef, hn⟩, h4, h5, h6, _⟩ :=
    Polygon.neg?_ok input rev P h hne (fun q0 q1 q2 r hP => (h3 q0 q1 q2 r hP).2)
  refine ⟨Q, hQ, h1, h2, ⟨t, ?_, hn⟩, h4, h5, ?_⟩
  · rw [htdef]
    exact div_pos (h3 _ _ _ _ hP).1 (normSq_pos_of_ne (Polygon.plane_WF P hv))
  · rw [h6, hP]; rfl

#print axioms Plane.neg_neg
#print axioms Polygon.neg?_ok
#print axioms Polygon.neg?_ok_of_valid
end G3D
