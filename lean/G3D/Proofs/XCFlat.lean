import G3D.Proofs.XCPolygon
import G3D.Model.PlaneForms
import G3D.Model.Move

/-! # C13, constructors of the flat types commute with every `T : Xf`

    `Line(point, vector)`, `Line(point, point)`, `Segment(point, point)`, `Segment(point, vector)`,
    `HalfLine(point, point)`, `HalfLine(point, vector)`, `Plane(point, normal)`: the constructor applied to the
    transformed arguments (points by `T.pt`, direction vectors by `T.dir`, normals by `T.nrm`) raises the same
    exception, and otherwise returns exactly the transformed object (`T.line`, `T.seg`, `T.halfline`, `T.plane`).
    `Plane(point, point, point)` and `Plane(point, vector, vector)` compute the normal as a cross product, which
    transforms as a pseudo-vector scaled by `k²`: the result is `XC.planeImg T P` (normal `det σ·k²·σ n`), the same
    plane as `T.plane P` (`eqv`, same membership test, same denotation). -/
namespace G3D
open V3
open XfAux

theorem XC.pt_eq_iff (T : Xf) (hk : 0 < T.k) (a b : V3) : T.pt a = T.pt b ↔ a = b :=
  ⟨fun h => T.pt_injective hk h, fun h => by rw [h]⟩

theorem XC.normSq_dir_eq_zero (T : Xf) (hk : 0 < T.k) (v : V3) : normSq (T.dir v) = 0 ↔ normSq v = 0 := by
  rw [T.normSq_dir]
  constructor
  · intro h; exact (mul_eq_zero.mp h).resolve_left (by positivity)
  · intro h; rw [h]; ring

theorem XC.nrm_eq_zero (T : Xf) (n : V3) : T.nrm n = zero ↔ n = zero := XC.apply_eq_zero T.s n

/-- `Line(Point, Vector)` -/
theorem XC.line_mk? (T : Xf) (hk : 0 < T.k) (a dv : V3) :
    Line.mk? (T.pt a) (T.dir dv) = (Line.mk? a dv).map T.line := by
  unfold Line.mk?
  by_cases h : dv = zero
  · rw [if_pos h, if_pos ((XC.dir_eq_zero T hk dv).mpr h)]; rfl
  · rw [if_neg h, if_neg (fun h' => h ((XC.dir_eq_zero T hk dv).mp h'))]; rfl

/-- `Line(Point, Point)` -/
theorem XC.line_ofPoints? (T : Xf) (hk : 0 < T.k) (a b : V3) :
    Line.ofPoints? (T.pt a) (T.pt b) = (Line.ofPoints? a b).map T.line := by
  unfold Line.ofPoints?
  rw [Xf.pt_sub]; exact XC.line_mk? T hk a (sub b a)

/-- `Segment(Point, Point)` -/
theorem XC.seg_mk? (T : Xf) (hk : 0 < T.k) (a b : V3) :
    Seg.mk? (T.pt a) (T.pt b) = (Seg.mk? a b).map T.seg := by
  unfold Seg.mk?
  by_cases h : a = b
  · rw [if_pos h, if_pos (by rw [h])]; rfl
  · rw [if_neg h, if_neg (fun h' => h (T.pt_injective hk h'))]; rfl

theorem XC.pt_add_dir (T : Xf) (a v : V3) : T.pt (add a v) = add (T.pt a) (T.dir v) := by
  have := T.pt_affine a v 1
  have e1 : smul 1 v = v := by apply V3.ext' <;> simp [smul]
  have e2 : smul 1 (T.dir v) = T.dir v := by apply V3.ext' <;> simp [smul]
  rwa [e1, e2] at this

/-- `Segment(Point, Vector)` -/
theorem XC.seg_ofVec? (T : Xf) (hk : 0 < T.k) (a v : V3) :
    Seg.ofVec? (T.pt a) (T.dir v) = (Seg.ofVec? a v).map T.seg := by
  unfold Seg.ofVec?
  by_cases h : normSq v = 0
  · rw [if_pos h, if_pos ((XC.normSq_dir_eq_zero T hk v).mpr h)]; rfl
  · rw [if_neg h, if_neg (fun h' => h ((XC.normSq_dir_eq_zero T hk v).mp h'))]
    simp only [Except.map, Xf.seg, Seg.mk', XC.pt_add_dir]

/-- `HalfLine(Point, Point)` -/
theorem XC.halfline_mk? (T : Xf) (hk : 0 < T.k) (a b : V3) :
    HalfLine.mk? (T.pt a) (T.pt b) = (HalfLine.mk? a b).map T.halfline := by
  unfold HalfLine.mk?
  by_cases h : a = b
  · rw [if_pos h, if_pos (by rw [h])]; rfl
  · rw [if_neg h, if_neg (fun h' => h (T.pt_injective hk h'))]
    simp only [Except.map, Xf.halfline, HalfLine.mk', Xf.pt_sub]

/-- `HalfLine(Point, Vector)` -/
theorem XC.halfline_ofVec? (T : Xf) (hk : 0 < T.k) (a v : V3) :
    HalfLine.ofVec? (T.pt a) (T.dir v) = (HalfLine.ofVec? a v).map T.halfline := by
  unfold HalfLine.ofVec?
  by_cases h : normSq v = 0
  · rw [if_pos h, if_pos ((XC.normSq_dir_eq_zero T hk v).mpr h)]; rfl
  · rw [if_neg h, if_neg (fun h' => h ((XC.normSq_dir_eq_zero T hk v).mp h'))]; rfl

/-- `Plane(Point, normal Vector)` -/
theorem XC.plane_ofPN (T : Xf) (p n : V3) :
    Plane.ofPN (T.pt p) (T.nrm n) = (Plane.ofPN p n).map T.plane := by
  unfold Plane.ofPN
  by_cases h : n = zero
  · rw [if_pos h, if_pos ((XC.nrm_eq_zero T n).mpr h)]; rfl
  · rw [if_neg h, if_neg (fun h' => h ((XC.nrm_eq_zero T n).mp h'))]; rfl

/-- the plane a cross-product constructor stores for transformed arguments: normal `det σ·k²·σ n` -/
def XC.planeImg (T : Xf) (P : Plane) : Plane := ⟨T.pt P.p, XC.cnrm T P.n⟩

/-- `Plane(Point, Point, Point)` -/
theorem XC.plane_ofPoints (T : Xf) (hk : 0 < T.k) (a b c : V3) :
    Plane.ofPoints (T.pt a) (T.pt b) (T.pt c) = (Plane.ofPoints a b c).map (XC.planeImg T) := by
  unfold Plane.ofPoints
  simp only [Xf.pt_sub, XC.cross_dir]
  by_cases h : cross (sub b a) (sub c a) = zero
  · rw [if_pos h, if_pos ((XC.cnrm_eq_zero T hk _).mpr h)]; rfl
  · rw [if_neg h, if_neg (fun h' => h ((XC.cnrm_eq_zero T hk _).mp h'))]; rfl

/-- `Plane(Point, Vector, Vector)` -/
theorem XC.plane_ofPVV (T : Xf) (hk : 0 < T.k) (u v w : V3) :
    Plane.ofPVV (T.pt u) (T.dir v) (T.dir w) = (Plane.ofPVV u v w).map (XC.planeImg T) := by
  unfold Plane.ofPVV
  simp only [XC.cross_dir]
  by_cases h : cross v w = zero
  · rw [if_pos h, if_pos ((XC.cnrm_eq_zero T hk _).mpr h)]; rfl
  · rw [if_neg h, if_neg (fun h' => h ((XC.cnrm_eq_zero T hk _).mp h'))]; rfl

/-- `XC.planeImg T P` passes the same membership test as the transformed plane … -/
theorem XC.planeImg_contains (T : Xf) (hk : 0 < T.k) (P : Plane) (x : V3) :
    (XC.planeImg T P).contains (T.pt x) = P.contains x := XC.plane_contains T hk P.p P.n x

theorem XC.parallel_smul_self (c : Rat) (u : V3) : V3.parallel (smul c u) u = true := by
  simp only [V3.parallel, beq_iff_eq, normSq, dot, smul]; ring

/-- … and IS the transformed plane (`Plane.__eq__`) -/
theorem XC.planeImg_eqv (T : Xf) (hk : 0 < T.k) (P : Plane) : (XC.planeImg T P).eqv (T.plane P) = true := by
  unfold Plane.eqv
  rw [Bool.and_eq_true]
  constructor
  · show (T.plane P).contains (T.pt P.p) = true
    rw [T.plane_contains hk]
    simp [Plane.contains]
  · exact XC.parallel_smul_self _ _

theorem XC.planeImg_WF (T : Xf) (hk : 0 < T.k) (P : Plane) (h : P.WF) : (XC.planeImg T P).WF :=
  fun h' => h ((XC.cnrm_eq_zero T hk P.n).mp h')

/-- same denotation as the transformed plane -/
theorem XC.planeImg_den (T : Xf) (hk : 0 < T.k) (P : Plane) (x : V3) :
    (XC.planeImg T P).den (T.pt x) ↔ P.den x := by
  rw [← Plane.contains_iff, ← Plane.contains_iff, XC.planeImg_contains T hk]

#print axioms XC.line_mk?
#print axioms XC.seg_mk?
#print axioms XC.halfline_ofVec?
#print axioms XC.plane_ofPN
#print axioms XC.plane_ofPoints
#print axioms XC.planeImg_eqv
end G3D
