import G3D.Extracted.Dispatch

/-! C04 over the table extracted from the CURRENT source (finite ⇒ `decide` is a proof). -/
namespace G3D.Extracted

def Cell.isCall : Cell → Bool
  | .call _ _ => true
  | _ => false

def symCell (a b : Ty) : Bool :=
  match interCell a b, interCell b a with
  | .call h s, .call h' s' => h == h' && (a == b || s != s')
  | _, _ => false

/-- every ordered pair of the seven geometry types reaches a handler -/
def dispatchTotal : Bool := geoTypes.all (fun a => geoTypes.all (fun b => (interCell a b).isCall))
/-- cell (a,b) and cell (b,a) name the same handler, with the arguments swapped -/
def dispatchSymmetric : Bool := geoTypes.all (fun a => geoTypes.all (fun b => symCell a b))
/-- the cells that are NOT handled (for the failing-input search) -/
def holes : List (Ty × Ty) :=
  geoTypes.flatMap (fun a => geoTypes.filterMap (fun b => if (interCell a b).isCall then none else some (a, b)))

-- on the pinned tree the table has exactly one hole (D1):
theorem pinned_holes : holes = [(.polygon, .plane)] := by decide
theorem pinned_not_total : dispatchTotal = false := by decide
theorem none_guard : interNoneGuardReturnsNone = true := by decide
/-- everything outside the seven types falls through to `raise` -/
theorem rejects_vector : ∀ b : Ty, interCell .vector b = .raise "NotImplementedError" := by
  intro b; cases b <;> rfl
end G3D.Extracted
