import G3D.Extracted.Consts
import Mathlib.Analysis.SpecialFunctions.Trigonometric.Bounds
/-! The threshold of the frame selection of `get_circle_point_list`: the code switches the base vector when the angle
    between the normal and the axis is below SMALL_ANGLE (or above π − SMALL_ANGLE), i.e. when cos² > cos²(SMALL_ANGLE).
    With the extracted SMALL_ANGLE = 1/10 the threshold lies in [1/2, 1), which is the hypothesis of
    `Builders.frame_defined`. -/
namespace G3D
open Real

theorem smallAngle_value : Extracted.smallAngle = 1 / 10 := by decide +kernel

theorem cos_sq_smallAngle_range : (1:ℝ) / 2 ≤ cos ((Extracted.smallAngle : ℚ) : ℝ) ^ 2 ∧ cos ((Extracted.smallAngle : ℚ) : ℝ) ^ 2 < 1 := by
  rw [smallAngle_value]
  have hx : (((1:ℚ) / 10 : ℚ) : ℝ) = 1 / 10 := by norm_num
  rw [hx]
  have h1 : 1 - ((1:ℝ) / 10) ^ 2 / 2 ≤ cos (1 / 10) := one_sub_sq_div_two_le_cos
  have h2 : cos ((1:ℝ) / 10) ≤ 1 := cos_le_one _
  have hpos : (0:ℝ) < cos (1 / 10) := by nlinarith
  constructor
  · nlinarith
  · have hne : cos ((1:ℝ) / 10) ≠ 1 := by
      intro h
      have hpi : (2:ℝ) ≤ π := two_le_pi
      have := (cos_eq_one_iff_of_lt_of_lt (x := (1:ℝ) / 10) (by linarith) (by linarith)).mp h
      norm_num at this
    have hlt : cos ((1:ℝ) / 10) < 1 := lt_of_le_of_ne h2 hne
    nlinarith
#print axioms cos_sq_smallAngle_range
end G3D
