import G3D.Proofs.SameSet
import G3D.Proofs.HashKey
import Mathlib.Algebra.BigOperators.Group.List.Basic
import G3D.Proofs.MeasBody

/-! # `==` / `hash` of ConvexPolygon and ConvexPolyhedron for an ARBITRARY point hash

In the code `ConvexPolygon.__hash__` hashes the tuple
  ("ConvexPolygon", round(Σ_points hash(p), sig), hash(plane) + hash(-plane), hash(plane) * hash(-plane))
and `ConvexPolyhedron.__hash__` the tuple ("ConvexPolyhedron", round(Σ_faces hash(f)), round(Σ_vertices hash(p))), and `==` of
both types compares these hashes.  Whatever function `hash(Point)` is (here: any `h : V3 → Int`) and whatever the plane hash is
(here: any function of the model's canonical plane key, which is proved sign- and representation-independent):

    same point set  ⇒  equal hash tuple  ⇒  `a == b` and `hash(a) == hash(b)`.

The converse — different sets give different sums — holds only up to hash collisions and is not claimed. -/
namespace G3D
open V3

/-- the polygon's hash tuple for a point hash `h` and a plane hash `hp` that depends only on the canonical plane key -/
def Polygon.hashTupleAbs {κ : Type} (h : V3 → Int) (hp : ((Int × Rat) × (Int × Rat) × (Int × Rat)) × (Int × Rat) → κ)
    (P : Polygon) : Int × κ := ((P.pts.map h).sum, hp (Plane.hashKey P.plane))

theorem Polygon.pts_perm_of_same {P Q : Polygon} (hP : P.Valid) (hQ : Q.Valid) (hs : P.same Q = true) :
    List.Perm P.pts Q.pts := by
  rw [Polygon.same_iff] at hs
  rw [List.perm_ext_iff_of_nodup hP.nodup hQ.nodup]
  exact fun p => ⟨hs.1 p, hs.2.1 p⟩

/-- **equal polygons have equal hash tuples**, for every point hash and every plane hash of the canonical key -/
theorem Polygon.hashTupleAbs_eq_of_same {κ : Type} (h : V3 → Int)
    (hp : ((Int × Rat) × (Int × Rat) × (Int × Rat)) × (Int × Rat) → κ) {P Q : Polygon} (hP : P.Valid) (hQ : Q.Valid)
    (hs : P.same Q = true) : P.hashTupleAbs h hp = Q.hashTupleAbs h hp := by
  unfold Polygon.hashTupleAbs
  have hperm := Polygon.pts_perm_of_same hP hQ hs
  have hk : Plane.hashKey P.plane = Plane.hashKey Q.plane :=
    (Plane.eqv_iff_hashKey P.plane Q.plane (Polygon.plane_WF P hP) (Polygon.plane_WF Q hQ)).mp ((Polygon.same_iff P Q).mp hs).2.2
  rw [(hperm.map h).sum_eq, hk]

/-- … hence two Valid polygons denoting the same point set have equal hash tuples (so the code's `==` is True and the
    hashes agree), whatever the vertex order, start vertex or orientation they were built with -/
theorem Polygon.hashTupleAbs_eq_of_same_hull {κ : Type} (h : V3 → Int)
    (hp : ((Int × Rat) × (Int × Rat) × (Int × Rat)) × (Int × Rat) → κ) {P Q : Polygon} (hP : P.Valid) (hQ : Q.Valid)
    (hd : ∀ x, InHull P.pts x ↔ InHull Q.pts x) : P.hashTupleAbs h hp = Q.hashTupleAbs h hp :=
  Polygon.hashTupleAbs_eq_of_same h hp hP hQ ((Polygon.same_iff_same_hull P Q hP hQ).mpr hd)

#print axioms Polygon.hashTupleAbs_eq_of_same_hull

/-- the polyhedron's hash tuple: (Σ_faces hash(face), Σ_vertices hash(vertex)) for a face hash `hf` that depends only on the
    face's hash tuple -/
def Polyhedron.hashTupleAbs {κ : Type} (h : V3 → Int)
    (hp : ((Int × Rat) × (Int × Rat) × (Int × Rat)) × (Int × Rat) → κ) (hf : Int × κ → Int) (B : Polyhedron) : Int × Int :=
  ((B.faces.map (fun f => hf (f.hashTupleAbs h hp))).sum, (B.verts.map h).sum)

/-- **equal polyhedra have equal hash tuples**: for bodies with Valid, pairwise different faces and duplicate-free vertex lists
    (every constructed body), `sameB` (same vertex set, same face set) gives equal sums of face hashes and of vertex hashes,
    for every point hash, plane hash and face hash -/
theorem Polyhedron.hashTupleAbs_eq_of_sameB {κ : Type} (h : V3 → Int)
    (hp : ((Int × Rat) × (Int × Rat) × (Int × Rat)) × (Int × Rat) → κ) (hf : Int × κ → Int) {A B : Polyhedron}
    (hAf : ∀ f ∈ A.faces, f.Valid) (hBf : ∀ f ∈ B.faces, f.Valid)
    (hAd : A.faces.Pairwise (fun f g => ¬ f.same g = true)) (hBd : B.faces.Pairwise (fun f g => ¬ f.same g = true))
    (hAv : A.verts.Nodup) (hBv : B.verts.Nodup) (hs : A.sameB B = true) :
    A.hashTupleAbs h hp hf = B.hashTupleAbs h hp hf := by
  unfold Polyhedron.sameB at hs
  simp only [Bool.and_eq_true, List.all_eq_true, List.any_eq_true, decide_eq_true_eq] at hs
  obtain ⟨⟨⟨hv1, hv2⟩, hf1⟩, hf2⟩ := hs
  have hvperm : List.Perm A.verts B.verts := by
    rw [List.perm_ext_iff_of_nodup hAv hBv]
    exact fun p => ⟨hv1 p, hv2 p⟩
  let R : Polygon → Polygon → Prop := fun f g => f.Valid ∧ g.Valid ∧ f.same g = true
  have hsym : ∀ a b, R a b → R b a := fun a b ⟨ha, hb, hab⟩ => ⟨hb, ha, by rw [Polygon.same_comm b a hb ha]; exact hab⟩
  have htr : ∀ a b c, R a b → R b c → R a c := fun a b c ⟨ha, hb, hab⟩ ⟨_, hc, hbc⟩ =>
    ⟨ha, hc, Polygon.same_trans a b c ha hb hc hab hbc⟩
  have hφ : ∀ a b, R a b → hf (a.hashTupleAbs h hp) = hf (b.hashTupleAbs h hp) := fun a b ⟨ha, hb, hab⟩ => by
    rw [Polygon.hashTupleAbs_eq_of_same h hp ha hb hab]
  have hfperm := Meas.perm_map_of_classes R hsym htr (fun f => hf (f.hashTupleAbs h hp)) hφ A.faces B.faces
    (hAd.imp (fun hn hr => hn hr.2.2)) (hBd.imp (fun hn hr => hn hr.2.2))
    (fun a ha => by obtain ⟨b, hb, hab⟩ := hf1 a ha; exact ⟨b, hb, hAf a ha, hBf b hb, hab⟩)
    (fun b hb => by
      obtain ⟨a, ha, hba⟩ := hf2 b hb
      exact ⟨a, ha, hAf a ha, hBf b hb, by rw [Polygon.same_comm a b (hAf a ha) (hBf b hb)]; exact hba⟩)
  unfold Polyhedron.hashTupleAbs
  rw [hfperm.sum_eq, (hvperm.map h).sum_eq]

#print axioms Polyhedron.hashTupleAbs_eq_of_sameB
end G3D
