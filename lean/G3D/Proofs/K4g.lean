import G3D.Proofs.K4f

/-! # Kernel K4: concrete instances (non-vacuity)

    The unit cube and its translates (built like `cubeE` of K3.lean: six outward quadrilaterals, the twelve edges the
    constructor computes) satisfy `ExactHyp`; the handler is evaluated by the kernel in all five situations:
    overlapping cubes (a ConvexPolyhedron), a common face piece (ConvexPolygon), a common edge piece (Segment), a
    common corner (Point), disjoint (None).  In each case `interPolyhedronPolyhedron_exact_of_ok` applies. -/
namespace G3D
open V3

/-- the axis-parallel unit cube with lowest corner `(a, b, c)` -/
def K4.cubeAt (a b c : Rat) : Polyhedron :=
  let P := polyOfCycles
    [ [⟨a,b,c⟩, ⟨a,b+1,c⟩, ⟨a+1,b+1,c⟩, ⟨a+1,b,c⟩], [⟨a,b,c+1⟩, ⟨a+1,b,c+1⟩, ⟨a+1,b+1,c+1⟩, ⟨a,b+1,c+1⟩],
      [⟨a,b,c⟩, ⟨a+1,b,c⟩, ⟨a+1,b,c+1⟩, ⟨a,b,c+1⟩], [⟨a,b+1,c⟩, ⟨a,b+1,c+1⟩, ⟨a+1,b+1,c+1⟩, ⟨a+1,b+1,c⟩],
      [⟨a,b,c⟩, ⟨a,b,c+1⟩, ⟨a,b+1,c+1⟩, ⟨a,b+1,c⟩], [⟨a+1,b,c⟩, ⟨a+1,b+1,c⟩, ⟨a+1,b+1,c+1⟩, ⟨a+1,b,c+1⟩] ]
  { P with edges := faceEdges P }

def K4.cube0 : Polyhedron := K4.cubeAt 0 0 0
def K4.cubeH : Polyhedron := K4.cubeAt (1/2) (1/2) (1/2)
def K4.cubeF : Polyhedron := K4.cubeAt 1 (1/2) (1/2)
def K4.cubeEd : Polyhedron := K4.cubeAt 1 1 (1/2)
def K4.cubeC : Polyhedron := K4.cubeAt 1 1 1
def K4.cubeD : Polyhedron := K4.cubeAt 2 0 0

theorem K4.cube0_exactHyp : K4.cube0.ExactHyp := K4.cube0.exactHyp_of_B (by decide +kernel)
theorem K4.cubeH_exactHyp : K4.cubeH.ExactHyp := K4.cubeH.exactHyp_of_B (by decide +kernel)
theorem K4.cubeF_exactHyp : K4.cubeF.ExactHyp := K4.cubeF.exactHyp_of_B (by decide +kernel)
theorem K4.cubeEd_exactHyp : K4.cubeEd.ExactHyp := K4.cubeEd.exactHyp_of_B (by decide +kernel)
theorem K4.cubeC_exactHyp : K4.cubeC.ExactHyp := K4.cubeC.exactHyp_of_B (by decide +kernel)
theorem K4.cubeD_exactHyp : K4.cubeD.ExactHyp := K4.cubeD.exactHyp_of_B (by decide +kernel)

/-- observer: the vertex list of a returned polyhedron -/
def K4.polyVerts (r : ResB) : Option (List V3) :=
  match r with
  | .ok (some (.polyhedron R)) => some R.verts
  | _ => none

theorem K4.of_polyVerts (r : ResB) (vs : List V3) (h : K4.polyVerts r = some vs) :
    ∃ R, r = .ok (some (.polyhedron R)) ∧ R.verts = vs := by
  unfold K4.polyVerts at h
  split at h
  · rename_i R; cases h; exact ⟨R, rfl, rfl⟩
  · cases h

/-- observer: the vertex cycle of a returned polygon -/
def K4.gonPts (r : ResB) : Option (List V3) :=
  match r with
  | .ok (some (.polygon Q)) => some Q.pts
  | _ => none

theorem K4.of_gonPts (r : ResB) (vs : List V3) (h : K4.gonPts r = some vs) :
    ∃ Q, r = .ok (some (.polygon Q)) ∧ Q.pts = vs := by
  unfold K4.gonPts at h
  split at h
  · rename_i Q; cases h; exact ⟨Q, rfl, rfl⟩
  · cases h

def K4.isPoint (r : ResB) (p : V3) : Bool :=
  match r with
  | .ok (some (.flat (.point q))) => q == p
  | _ => false

def K4.isNone (r : ResB) : Bool :=
  match r with
  | .ok none => true
  | _ => false

/-- overlapping cubes: the kernel evaluates the handler to a ConvexPolyhedron with the eight corners of
    `[1/2, 1]³` -/
theorem K4.cube0_cubeH_eval :
    K4.polyVerts (interPolyhedronPolyhedron K4.cube0 K4.cubeH) =
      some [⟨1/2,1/2,1⟩, ⟨1/2,1,1⟩, ⟨1,1,1⟩, ⟨1,1/2,1⟩, ⟨1/2,1,1/2⟩, ⟨1,1,1/2⟩, ⟨1,1/2,1/2⟩, ⟨1/2,1/2,1/2⟩] := by
  decide +kernel

/-- … and that polyhedron is exactly the intersection of the two cubes -/
theorem K4.cube0_cubeH_exact :
    ∃ R, interPolyhedronPolyhedron K4.cube0 K4.cubeH = .ok (some (.polyhedron R)) ∧ R.verts.length = 8 ∧
      ∀ x, InHull R.verts x ↔ (InHull K4.cube0.verts x ∧ InHull K4.cubeH.verts x) := by
  obtain ⟨R, hR, hv⟩ := K4.of_polyVerts _ _ K4.cube0_cubeH_eval
  refine ⟨R, hR, by rw [hv]; rfl, ?_⟩
  exact ((interPolyhedronPolyhedron_exact_of_ok K4.cube0 K4.cubeH K4.cube0_exactHyp K4.cubeH_exactHyp).1 _ hR).2

/-- cubes sharing part of a face: a ConvexPolygon, exactly the common part -/
theorem K4.cube0_cubeF_eval :
    K4.gonPts (interPolyhedronPolyhedron K4.cube0 K4.cubeF) = some [⟨1,1/2,1/2⟩, ⟨1,1,1/2⟩, ⟨1,1,1⟩, ⟨1,1/2,1⟩] := by
  decide +kernel

theorem K4.cube0_cubeF_exact :
    ∃ Q, interPolyhedronPolyhedron K4.cube0 K4.cubeF = .ok (some (.polygon Q)) ∧
      ∀ x, InHull Q.pts x ↔ (InHull K4.cube0.verts x ∧ InHull K4.cubeF.verts x) := by
  obtain ⟨Q, hQ, _⟩ := K4.of_gonPts _ _ K4.cube0_cubeF_eval
  exact ⟨Q, hQ,
    ((interPolyhedronPolyhedron_exact_of_ok K4.cube0 K4.cubeF K4.cube0_exactHyp K4.cubeF_exactHyp).1 _ hQ).2⟩

/-- cubes sharing part of an edge: a Segment (not "Bug detected"), exactly the common part -/
theorem K4.cube0_cubeEd_eval :
    (interPolyhedronPolyhedron K4.cube0 K4.cubeEd).isSeg ⟨1,1,1/2⟩ ⟨1,1,1⟩ = true := by
  decide +kernel

theorem K4.cube0_cubeEd_exact :
    ∃ s, interPolyhedronPolyhedron K4.cube0 K4.cubeEd = .ok (some (.flat (.seg s))) ∧ s.WF ∧
      ∀ x, s.den x ↔ (InHull K4.cube0.verts x ∧ InHull K4.cubeEd.verts x) := by
  obtain ⟨s, hs, _, _⟩ := ResB.of_isSeg _ _ _ K4.cube0_cubeEd_eval
  have := (interPolyhedronPolyhedron_exact_of_ok K4.cube0 K4.cubeEd K4.cube0_exactHyp K4.cubeEd_exactHyp).1 _ hs
  exact ⟨s, hs, this.1, this.2⟩

/-- cubes sharing a corner: a Point (not "Bug detected") -/
theorem K4.cube0_cubeC_eval : K4.isPoint (interPolyhedronPolyhedron K4.cube0 K4.cubeC) ⟨1,1,1⟩ = true := by
  decide +kernel

/-- disjoint cubes: `None` -/
theorem K4.cube0_cubeD_eval : K4.isNone (interPolyhedronPolyhedron K4.cube0 K4.cubeD) = true := by
  decide +kernel

theorem K4.cube0_cubeD_disjoint : ∀ x, ¬ (InHull K4.cube0.verts x ∧ InHull K4.cubeD.verts x) := by
  apply (interPolyhedronPolyhedron_none_iff K4.cube0 K4.cubeD K4.cube0_exactHyp K4.cubeD_exactHyp).mp
  have h := K4.cube0_cubeD_eval
  unfold K4.isNone at h
  split at h
  · assumption
  · cases h

#print axioms K4.cube0_cubeH_exact
#print axioms K4.cube0_cubeF_exact
#print axioms K4.cube0_cubeEd_exact
#print axioms K4.cube0_cubeD_disjoint

end G3D
